(* Proofs/BufReaderP.v — the buffered reader (bufiox.DefaultReader / BytesReader, Model/BufReader.v)
   delivers the source bytes exactly, in order (C04).

   Structure:
     1. sizes: the doubling loops return at least what was asked for
     2. one Read on the cursor representation = src_read; the read loop: what it returns, that its
        fuel is never exhausted, where its errors come from
     3. the invariant Inv tying window and source to the stream; acquire preserves it
     4. every operation: exact bytes or an error with the cursor unchanged
     5. refinement of the executable cursor spec (Spec/Cursor.v) over every history
     6. INTERFACE for stream readers built on this model (RInv + one lemma per operation) *)
From GV Require Import Lib.Bytes Lib.Res Gen.Consts Model.BufReader Spec.Cursor Proofs.BufReaderLib.
From Coq Require Import ZifyN ZifyNat ZifyBool.
Open Scope N_scope.

(* ================= 1. sizes ================= *)
Lemma bufsz_pos : 0 < bufsz.
Proof. vm_compute. reflexivity. Qed.

Lemma max_empty_pos : (0 < max_empty)%nat.
Proof. vm_compute. lia. Qed.

Lemma double_until_ge f : forall x n, n <= x * 2 ^ N.of_nat f -> n <= double_until f x n.
Proof.
  induction f as [|f IH]; intros x n H; cbn [double_until].
  - cbn in H. lia.
  - destruct (N.ltb_spec x n) as [Hlt|Hge]; [|exact Hge].
    apply IH. rewrite Nat2N.inj_succ, N.pow_succ_r' in H. lia.
Qed.

Lemma pow2_dbl_fuel_gt n : n < 2 ^ N.of_nat (dbl_fuel n).
Proof.
  unfold dbl_fuel. rewrite Nat2N.inj_succ, N.pow_succ_r'. pose proof (size_nat_gt n). lia.
Qed.

Lemma double_until_spec x n : 1 <= x -> n <= double_until (dbl_fuel n) x n.
Proof.
  intros Hx. apply double_until_ge. pose proof (pow2_dbl_fuel_gt n) as H.
  assert (2 ^ N.of_nat (dbl_fuel n) <= x * 2 ^ N.of_nat (dbl_fuel n)) by nia. lia.
Qed.

Lemma double_until_room_ge f : forall x r n, r <= x -> r + n <= x * 2 ^ N.of_nat f ->
  r + n <= double_until_room f x r n.
Proof.
  induction f as [|f IH]; intros x r n Hr H; cbn [double_until_room].
  - cbn in H. lia.
  - destruct (N.ltb_spec (x - r) n) as [Hlt|Hge]; [|lia].
    apply IH; [lia|]. rewrite Nat2N.inj_succ, N.pow_succ_r' in H. lia.
Qed.

Lemma double_until_room_spec x r n : r <= x -> 1 <= x ->
  r + n <= double_until_room (dbl_fuel (r + n)) x r n.
Proof.
  intros Hr Hx. apply double_until_room_ge; [exact Hr|]. pose proof (pow2_dbl_fuel_gt (r + n)) as H.
  assert (2 ^ N.of_nat (dbl_fuel (r + n)) <= x * 2 ^ N.of_nat (dbl_fuel (r + n))) by nia. lia.
Qed.

Lemma pow2ceil_from_ge f : forall p n, n <= p * 2 ^ N.of_nat f -> n <= pow2ceil_from f p n.
Proof.
  induction f as [|f IH]; intros p n H; cbn [pow2ceil_from].
  - cbn in H. lia.
  - destruct (N.leb_spec n p) as [Hle|Hgt]; [exact Hle|].
    apply IH. rewrite Nat2N.inj_succ, N.pow_succ_r' in H. lia.
Qed.

Lemma pow2ceil_ge n : n <= pow2ceil n.
Proof. unfold pow2ceil. apply pow2ceil_from_ge. pose proof (pow2_dbl_fuel_gt n). lia. Qed.

(* ================= 2. the source cursor and the read loop ================= *)
Definition cur_wf (c : scur) : Prop := c_rem c = len (c_rest c).

Lemma cur_of_wf s : cur_wf (cur_of s).
Proof. unfold cur_wf, cur_of. cbn [c_rem c_rest]. now rewrite len_drop. Qed.

(* what one Read does, on the cursor *)
Lemma cur_read_inv fin wd c room bs m e c' :
  cur_wf c -> cur_read fin wd c room = (bs, m, e, c') ->
  cur_wf c' /\ m = len bs /\ c_rest c = bs ++ c_rest c' /\ c_pos c' = c_pos c + m /\ m <= room /\
  ((c_chunks c = [] /\ c_chunks c' = [] /\ (e = None -> m = N.min room (c_rem c))) \/
   (exists x, c_chunks c = x :: c_chunks c' /\ (e = None -> m = N.min x (N.min room (c_rem c))))) /\
  (forall ev, e = Some ev -> ev = fin /\ c_rest c' = []) /\
  (e = None -> 0 < c_rem c).
Proof.
  unfold cur_wf, cur_read. intros Hwf H.
  set (chr := match c_chunks c with [] => (room, []) | x :: r => (x, r) end) in H.
  assert (Hch : (c_chunks c = [] /\ chr = (room, [])) \/ (exists x r, c_chunks c = x :: r /\ chr = (x, r))).
  { unfold chr. destruct (c_chunks c) as [|x r]; [left; auto|right; eauto]. }
  destruct chr as [ch rest].
  destruct (N.eqb_spec (c_rem c) 0) as [Hz|Hnz].
  - inversion H; subst; clear H. cbn [c_rest c_rem c_chunks c_pos].
    assert (c_rest c = []) as Hr by (apply len_zero_nil; lia).
    split; [|split; [|split; [|split; [|split; [|split; [|split]]]]]].
    + exact Hwf.
    + reflexivity.
    + reflexivity.
    + lia.
    + lia.
    + destruct Hch as [[Hc Hp]|(x & r & Hc & Hp)]; inversion Hp; subst.
      * left. split; [exact Hc|]. split; [reflexivity|]. intros He; discriminate.
      * right. exists x. split; [exact Hc|]. intros He; discriminate.
    + intros ev Hev. inversion Hev. split; [reflexivity|exact Hr].
    + intros He; discriminate.
  - set (mm := N.min ch (N.min room (c_rem c))) in *.
    assert (Hmm : mm <= len (c_rest c)) by lia.
    inversion H as [[Hbs Hm He Hc']]; subst bs m c'; clear H. cbn [c_rest c_rem c_chunks c_pos].
    split; [|split; [|split; [|split; [|split; [|split; [|split]]]]]].
    + rewrite len_drop. lia.
    + rewrite take_len; lia.
    + symmetry; apply take_drop.
    + reflexivity.
    + lia.
    + destruct Hch as [[Hc Hp]|(x & r & Hc & Hp)]; inversion Hp; subst.
      * left. split; [exact Hc|]. split; [reflexivity|]. intros _. unfold mm. lia.
      * right. exists x. split; [exact Hc|]. intros _. reflexivity.
    + intros ev Hev. destruct (wd && (mm =? c_rem c) && negb (mm =? 0)) eqn:Hb; [|subst e; discriminate].
      subst e. inversion Hev; subst. split; [reflexivity|].
      apply len_zero_nil. rewrite len_drop. lia.
    + intros _. lia.
Qed.

(* [cur_read] is the reference [src_read] (DESIGN 4 "Sources and sinks") on the cursor *)
Lemma cur_read_src_read s room bs m e c' :
  cur_read (sfinal s) (swith s) (cur_of s) room = (bs, m, e, c') ->
  src_read s room = (bs, e, src_at s c') /\ cur_of (src_at s c') = c'.
Proof.
  intros H.
  unfold cur_read, src_read in *. cbn [cur_of c_rest c_rem c_chunks c_pos] in H.
  destruct (schunks s) as [|x r].
  - destruct (N.eqb_spec (len (sdata s) - spos s) 0) as [Hz|Hnz].
    + inversion H; subst. split; [reflexivity|].
      unfold cur_of, src_at. cbn [sdata spos schunks c_chunks c_pos]. reflexivity.
    + inversion H; subst. split.
      { match goal with |- context [if ?b then _ else _] => destruct b end; reflexivity. }
      unfold cur_of, src_at. cbn [sdata spos schunks c_chunks c_pos c_rest c_rem].
      rewrite drop_drop. f_equal. lia.
  - destruct (N.eqb_spec (len (sdata s) - spos s) 0) as [Hz|Hnz].
    + inversion H; subst. split; [reflexivity|].
      unfold cur_of, src_at. cbn [sdata spos schunks c_chunks c_pos]. reflexivity.
    + inversion H; subst. split.
      { match goal with |- context [if ?b then _ else _] => destruct b end; reflexivity. }
      unfold cur_of, src_at. cbn [sdata spos schunks c_chunks c_pos c_rest c_rem].
      rewrite drop_drop. f_equal. lia.
Qed.

(* ---- runs of empty reads in the script ---- *)
Lemma hzr_repeat K : forall j r rest, (0 < j)%nat -> (K <= r + j)%nat ->
  has_zero_run K r (repeat 0 j ++ rest) = true.
Proof.
  induction j as [|j IH]; intros r rest Hj HK; [lia|].
  cbn [repeat app has_zero_run]. change (0 =? 0) with true. cbv iota.
  destruct (Nat.leb_spec K (S r)) as [Hle|Hgt]; [reflexivity|].
  apply IH; lia.
Qed.

Lemma hzr_skip K : forall pre r l, (forall r', has_zero_run K r' l = true) ->
  has_zero_run K r (pre ++ l) = true.
Proof.
  induction pre as [|x pre IH]; intros r l Hl; cbn [app]; [apply Hl|].
  cbn [has_zero_run]. destruct (x =? 0).
  - destruct (Nat.leb K (S r)); [reflexivity|]. apply IH, Hl.
  - apply IH, Hl.
Qed.

(* the script CH contains, just before the remaining entries cs, a run of k zeros *)
Definition zrun (CH : list N) (k : nat) (cs : list N) : Prop := exists pre, CH = pre ++ repeat 0 k ++ cs.

Lemma zrun_stall CH k cs : zrun CH k cs -> (max_empty <= k)%nat -> may_stall CH = true.
Proof.
  intros [pre ->] Hk. unfold may_stall. apply hzr_skip. intros r'.
  pose proof max_empty_pos. apply hzr_repeat; lia.
Qed.

Lemma zrun_next CH k x cs : zrun CH k (x :: cs) -> zrun CH 0 cs.
Proof.
  intros [pre ->]. exists (pre ++ repeat 0 k ++ [x]). cbn [repeat app].
  rewrite <- !app_assoc. reflexivity.
Qed.

Lemma zrun_zero CH k cs : zrun CH k (0 :: cs) -> zrun CH (S k) cs.
Proof.
  intros [pre ->]. exists pre. rewrite <- repeat_snoc, <- app_assoc. reflexivity.
Qed.

Lemma zrun_weaken CH k cs : zrun CH k cs -> zrun CH 0 cs.
Proof. intros [pre ->]. exists (pre ++ repeat 0 k). cbn [repeat app]. now rewrite <- app_assoc. Qed.

(* ---- the chunks collected by the loop ---- *)
Lemma flat_rev_gen (acc : list bytes) : forall w, fold_left (fun w b => b ++ w) acc w = concat (rev acc) ++ w.
Proof.
  induction acc as [|b acc IH]; intros w; cbn [fold_left rev concat app]; [reflexivity|].
  rewrite IH, concat_app. cbn [concat]. rewrite app_nil_r, <- app_assoc. reflexivity.
Qed.

Lemma flat_rev_spec acc : flat_rev acc = concat (rev acc).
Proof. unfold flat_rev. rewrite flat_rev_gen. apply app_nil_r. Qed.

Lemma flat_rev_cons b acc : flat_rev (b :: acc) = flat_rev acc ++ b.
Proof.
  rewrite !flat_rev_spec. cbn [rev]. rewrite concat_app. cbn [concat]. now rewrite app_nil_r.
Qed.

Lemma flat_rev_nil : flat_rev [] = [].
Proof. reflexivity. Qed.

(* ---- the read loop ---- *)
Lemma read_loop_S fin wd cp i n fuel empty c acc wl :
  read_loop fin wd cp i n (S fuel) empty c acc wl =
  if Nat.leb max_empty empty then (c, acc, wl, Some e_noprogress, wl)
  else
    let room := cp - (i + wl) in
    let '(bs, m, e, c') := cur_read fin wd c room in
    let acc' := bs :: acc in
    let wl' := wl + m in
    match e with
    | Some ev => (c', acc', wl', Some ev, if n <=? wl' then n else wl')
    | None =>
      if n <=? wl' then (c', acc', wl', None, n)
      else if 0 <? m then read_loop fin wd cp i n fuel O c' acc' wl'
      else read_loop fin wd cp i n fuel (S empty) c' acc' wl'
    end.
Proof. reflexivity. Qed.

Definition cur_measure (c : scur) : nat := (length (c_chunks c) + length (c_rest c))%nat.

(* What the loop returns.  CH is the whole script of the source (the loop's remaining script is a
   suffix of it, preceded by [empty] zeros). *)
Lemma read_loop_spec CH fin wd cp i n : forall fuel empty c acc wl c' acc' wl' e m,
  cur_wf c -> (cur_measure c < fuel)%nat -> wl < n -> i + n <= cp ->
  zrun CH empty (c_chunks c) ->
  read_loop fin wd cp i n fuel empty c acc wl = (c', acc', wl', e, m) ->
  exists bs,
    cur_wf c' /\ flat_rev acc' = flat_rev acc ++ bs /\ c_rest c = bs ++ c_rest c' /\
    wl' = wl + len bs /\ c_pos c' = c_pos c + len bs /\ i + wl' <= cp /\
    zrun CH 0 (c_chunks c') /\
    ((e = None /\ m = n /\ n <= wl') \/
     (e = Some fin /\ c_rest c' = [] /\ m = (if n <=? wl' then n else wl')) \/
     (e = Some e_noprogress /\ m = wl' /\ wl' < n /\ may_stall CH = true)).
Proof.
  induction fuel as [|fuel IH]; intros empty c acc wl c' acc' wl' e m Hwf Hfu Hwl Hcp Hz H; [lia|].
  rewrite read_loop_S in H.
  destruct (Nat.leb_spec max_empty empty) as [Hemp|Hemp].
  { inversion H; subst; clear H. exists []. rewrite !app_nil_r, len_nil.
    split; [exact Hwf|]. split; [reflexivity|]. split; [reflexivity|]. split; [lia|]. split; [lia|].
    split; [lia|]. split; [eapply zrun_weaken; exact Hz|].
    right; right. split; [reflexivity|]. split; [reflexivity|]. split; [exact Hwl|].
    eapply zrun_stall; eassumption. }
  cbv zeta in H.
  destruct (cur_read fin wd c (cp - (i + wl))) as [[[bs1 m1] e1] c1] eqn:Hrd.
  destruct (cur_read_inv _ _ _ _ _ _ _ _ Hwf Hrd) as (Hwf1 & Hm1 & Hrest & Hpos & Hroom & Hchunks & Herr & Hnone).
  assert (Hz1 : zrun CH 0 (c_chunks c1)).
  { destruct Hchunks as [(Hc & Hc1 & _)|(x & Hc & _)].
    - rewrite Hc1, <- Hc. eapply zrun_weaken; exact Hz.
    - rewrite Hc in Hz. eapply zrun_next; exact Hz. }
  assert (Hlen : length (c_rest c) = (length bs1 + length (c_rest c1))%nat) by (rewrite Hrest; apply app_length).
  assert (Hm1' : m1 = N.of_nat (length bs1)) by exact Hm1.
  destruct e1 as [ev|].
  - destruct (Herr ev eq_refl) as [-> Hnil].
    inversion H; subst c' acc' wl' e m; clear H. exists bs1.
    split; [exact Hwf1|]. split; [apply flat_rev_cons|]. split; [exact Hrest|]. split; [lia|].
    split; [lia|]. split; [lia|]. split; [exact Hz1|].
    right; left. split; [reflexivity|]. split; [exact Hnil|]. reflexivity.
  - specialize (Hnone eq_refl).
    destruct (N.leb_spec n (wl + m1)) as [Hsat|Hunsat].
    { inversion H; subst c' acc' wl' e m; clear H. exists bs1.
      split; [exact Hwf1|]. split; [apply flat_rev_cons|]. split; [exact Hrest|]. split; [lia|].
      split; [lia|]. split; [lia|]. split; [exact Hz1|].
      left. split; [reflexivity|]. split; [reflexivity|]. lia. }
    assert (Hmeas : (cur_measure c1 < fuel)%nat).
    { unfold cur_measure in *. destruct Hchunks as [(Hc & Hc1 & Hmin)|(x & Hc & Hmin)].
      - specialize (Hmin eq_refl). rewrite Hc1. rewrite Hc in Hfu. cbn [length] in *. lia.
      - rewrite Hc in Hfu. cbn [length] in Hfu. lia. }
    destruct (N.ltb_spec 0 m1) as [Hpos1|Hzero].
    + destruct (IH _ _ _ _ _ _ _ _ _ Hwf1 Hmeas Hunsat Hcp Hz1 H)
        as (bs2 & Hwf' & Hflat & Hrest2 & Hwl' & Hpos' & Hcap' & Hz' & Hout).
      exists (bs1 ++ bs2). rewrite len_app.
      split; [exact Hwf'|]. split; [rewrite Hflat, flat_rev_cons, app_assoc; reflexivity|].
      split; [rewrite Hrest, Hrest2, app_assoc; reflexivity|]. split; [lia|]. split; [lia|].
      split; [exact Hcap'|]. split; [exact Hz'|]. exact Hout.
    + assert (Hzs : zrun CH (S empty) (c_chunks c1)).
      { destruct Hchunks as [(Hc & Hc1 & Hmin)|(x & Hc & Hmin)]; specialize (Hmin eq_refl).
        - lia.
        - assert (x = 0) by lia. subst x. rewrite Hc in Hz. apply zrun_zero. exact Hz. }
      destruct (IH _ _ _ _ _ _ _ _ _ Hwf1 Hmeas Hunsat Hcp Hzs H)
        as (bs2 & Hwf' & Hflat & Hrest2 & Hwl' & Hpos' & Hcap' & Hz' & Hout).
      exists (bs1 ++ bs2). rewrite len_app.
      split; [exact Hwf'|]. split; [rewrite Hflat, flat_rev_cons, app_assoc; reflexivity|].
      split; [rewrite Hrest, Hrest2, app_assoc; reflexivity|]. split; [lia|]. split; [lia|].
      split; [exact Hcap'|]. split; [exact Hz'|]. exact Hout.
Qed.

(* every Read that lets the loop continue uses up a script entry or at least one source byte *)
Lemma cur_read_measure fin wd c room bs m c' :
  cur_wf c -> 0 < room -> cur_read fin wd c room = (bs, m, None, c') ->
  cur_wf c' /\ (cur_measure c' < cur_measure c)%nat.
Proof.
  intros Hwf Hroom Hrd.
  destruct (cur_read_inv _ _ _ _ _ _ _ _ Hwf Hrd) as (Hwf1 & Hm1 & Hrest & Hpos & Hr & Hchunks & Herr & Hnone).
  split; [exact Hwf1|]. specialize (Hnone eq_refl).
  assert (Hlen : length (c_rest c) = (length bs + length (c_rest c'))%nat) by (rewrite Hrest; apply app_length).
  assert (Hm1' : m = N.of_nat (length bs)) by exact Hm1.
  unfold cur_measure. destruct Hchunks as [(Hc & Hc1 & Hmin)|(x & Hc & Hmin)].
  - specialize (Hmin eq_refl). rewrite Hc1, Hc. cbn [length]. lia.
  - rewrite Hc. cbn [length]. lia.
Qed.

(* FUEL: with [loop_fuel] (or anything larger than the measure) the out-of-fuel branch is never
   taken: more fuel does not change the result *)
Lemma read_loop_fuel_irrelevant fin wd cp i n : forall fuel fuel' empty c acc wl,
  cur_wf c -> (cur_measure c < fuel)%nat -> (fuel <= fuel')%nat -> wl < n -> i + n <= cp ->
  read_loop fin wd cp i n fuel' empty c acc wl = read_loop fin wd cp i n fuel empty c acc wl.
Proof.
  induction fuel as [|fuel IH]; intros fuel' empty c acc wl Hwf Hfu Hle Hwl Hcp; [lia|].
  destruct fuel' as [|fuel']; [lia|].
  rewrite !read_loop_S.
  destruct (Nat.leb max_empty empty); [reflexivity|].
  cbv zeta.
  destruct (cur_read fin wd c (cp - (i + wl))) as [[[bs1 m1] e1] c1] eqn:Hrd.
  destruct e1 as [ev|]; [reflexivity|].
  destruct (N.leb_spec n (wl + m1)) as [Hsat|Hunsat]; [reflexivity|].
  assert (Hroom : 0 < cp - (i + wl)) by lia.
  destruct (cur_read_measure _ _ _ _ _ _ _ Hwf Hroom Hrd) as [Hwf1 Hmeas].
  destruct (0 <? m1); apply IH; try assumption; lia.
Qed.

Lemma loop_fuel_measure c : (cur_measure c < loop_fuel c)%nat.
Proof. unfold cur_measure, loop_fuel. lia. Qed.

(* ================= 3. the invariant ================= *)
(* D: the whole stream (for an io.Reader-backed reader the source's data; for a bytes-backed reader the
   caller's slice), F: the source's final error, CH: its whole script;
   c: cursor = number of stream bytes consumed so far, rl: ReadLen.
   inv_stream: what is left of the stream is exactly the unread window followed by what the source has
   not delivered yet. *)
Record Inv (D : bytes) (F : Z) (CH : list N) (c rl : N) (st : rstate) : Prop := mkInv {
  inv_stream : drop c D = win st ++ drop (spos (src st)) (sdata (src st));
  inv_c : c <= len D;
  inv_fin : sfinal (src st) = F;
  inv_cap : ri st + len (win st) <= cap st;
  inv_rl : ri st = rl;
  inv_chunks : zrun CH 0 (schunks (src st));
  inv_err : forall e, rerr st = Some e ->
      (e = F /\ drop (spos (src st)) (sdata (src st)) = []) \/ (e = e_noprogress /\ may_stall CH = true)
}.

Lemma inv_avail D F CH c rl st : Inv D F CH c rl st ->
  len D - c = len (win st) + len (drop (spos (src st)) (sdata (src st))).
Proof. intros H. rewrite <- len_app, <- (inv_stream _ _ _ _ _ _ H). symmetry. apply len_drop. Qed.

(* the bytes the window holds are the stream bytes at the cursor *)
Lemma inv_take D F CH c rl st k : Inv D F CH c rl st -> k <= len (win st) ->
  take k (win st) = seg_at D c k.
Proof.
  intros H Hk. unfold seg_at. rewrite (inv_stream _ _ _ _ _ _ H). symmetry. apply take_app_le. exact Hk.
Qed.

Lemma seg_at_len D c k : c + k <= len D -> len (seg_at D c k) = k.
Proof. intros H. unfold seg_at. rewrite len_take, len_drop. lia. Qed.

(* ---- the two preparation phases change only cap / ro / npend ---- *)
Lemma alloc_phase_frame st n :
  let st1 := alloc_phase st n in
  win st1 = win st /\ ri st1 = ri st /\ src st1 = src st /\ rerr st1 = rerr st /\
  (ri st + len (win st) <= cap st -> 1 <= n -> ri st1 + len (win st1) <= cap st1 /\ 1 <= cap st1).
Proof.
  unfold alloc_phase. destruct (N.eqb_spec (cap st) 0) as [Hz|Hnz]; cbn [win ri src rerr cap set_st].
  - repeat (split; [reflexivity|]). intros Hcap Hn.
    pose proof bufsz_pos as Hb.
    pose proof (double_until_spec (N.max (stats_max (stats st)) bufsz) n ltac:(lia)) as Hd.
    pose proof (pow2ceil_ge (double_until (dbl_fuel n) (N.max (stats_max (stats st)) bufsz) n)) as Hp.
    lia.
  - repeat (split; [reflexivity|]). intros Hcap Hn. lia.
Qed.

Lemma grow_phase_frame st n :
  let st2 := grow_phase st n in
  win st2 = win st /\ ri st2 = ri st /\ src st2 = src st /\ rerr st2 = rerr st /\
  (ri st + len (win st) <= cap st -> 1 <= cap st -> len (win st) < n ->
   ri st2 + len (win st2) <= cap st2 /\ ri st2 + n <= cap st2).
Proof.
  unfold grow_phase. destruct (N.ltb_spec (cap st - ri st) n) as [Hlt|Hge]; cbn [win ri src rerr cap set_st].
  - repeat (split; [reflexivity|]). intros Hcap H1 Hn.
    pose proof (double_until_room_spec (2 * cap st) (ri st) n ltac:(lia) ltac:(lia)) as Hd.
    pose proof (pow2ceil_ge (double_until_room (dbl_fuel (ri st + n)) (2 * cap st) (ri st) n)) as Hp.
    lia.
  - repeat (split; [reflexivity|]). intros Hcap H1 Hn. lia.
Qed.

(* ---- acquire ---- *)
Lemma acquire_slow_inv D F CH c rl st n st' m :
  Inv D F CH c rl st -> len (win st) < n -> acquire_slow st n = (st', m) ->
  Inv D F CH c rl st' /\
  ((m = n /\ n <= len (win st')) \/ (m = len (win st') /\ m < n /\ exists e, rerr st' = Some e)).
Proof.
  intros HI Hn H. unfold acquire_slow in H.
  destruct (rerr st) as [e0|] eqn:Herr0.
  { inversion H; subst; clear H. split; [exact HI|]. right. split; [reflexivity|]. split; [exact Hn|]. eauto. }
  destruct (alloc_phase_frame st n) as (Hw1 & Hi1 & Hs1 & He1 & Hc1).
  destruct (grow_phase_frame (alloc_phase st n) n) as (Hw2 & Hi2 & Hs2 & He2 & Hc2).
  set (st2 := grow_phase (alloc_phase st n) n) in *.
  destruct (Hc1 (inv_cap _ _ _ _ _ _ HI) ltac:(lia)) as [Hcap1 Hpos1].
  rewrite Hw1 in Hc2, Hcap1. destruct (Hc2 Hcap1 Hpos1 Hn) as [Hcap2 Hroom2]. clear Hc1 Hc2.
  assert (Hw : win st2 = win st) by congruence.
  assert (Hi : ri st2 = ri st) by congruence.
  assert (Hs : src st2 = src st) by congruence.
  assert (He : rerr st2 = None) by congruence.
  cbv zeta in H. rewrite Hs in H.
  destruct (read_loop (sfinal (src st)) (swith (src st)) (cap st2) (ri st2) n (loop_fuel (cur_of (src st))) 0
                      (cur_of (src st)) [] (len (win st2))) as [[[[c' acc'] wl'] e] m0] eqn:Hloop.
  inversion H; subst st' m0; clear H.
  assert (Hwl : len (win st2) < n) by (rewrite Hw; exact Hn).
  destruct (read_loop_spec CH _ _ _ _ _ _ _ _ _ _ _ _ _ _ _ (cur_of_wf (src st)) (loop_fuel_measure _)
              Hwl Hroom2 (inv_chunks _ _ _ _ _ _ HI) Hloop)
    as (bs & Hwf' & Hflat & Hrest & Hwl' & Hpos' & Hcap' & Hz' & Hout).
  rewrite flat_rev_nil in Hflat. cbn [app] in Hflat. rewrite Hflat.
  cbn [cur_of c_rest c_pos] in Hrest, Hpos'.
  assert (Hrest' : c_rest c' = drop (c_pos c') (sdata (src st))).
  { rewrite Hpos', <- drop_drop, Hrest. symmetry. apply drop_app_len. }
  split.
  - constructor; cbn [win ri cap rerr src set_st src_at sdata spos sfinal schunks].
    + rewrite (inv_stream _ _ _ _ _ _ HI), Hw, Hrest, <- Hrest', app_assoc. reflexivity.
    + exact (inv_c _ _ _ _ _ _ HI).
    + exact (inv_fin _ _ _ _ _ _ HI).
    + rewrite len_app. lia.
    + rewrite Hi. exact (inv_rl _ _ _ _ _ _ HI).
    + exact Hz'.
    + intros e1 He1'. rewrite <- Hrest'.
      destruct Hout as [(-> & _)|[(-> & Hnil & _)|(-> & _ & _ & Hst)]].
      * rewrite He in He1'. discriminate.
      * inversion He1'; subst. left. split; [exact (inv_fin _ _ _ _ _ _ HI)|exact Hnil].
      * inversion He1'; subst. right. split; [reflexivity|exact Hst].
  - cbn [win rerr set_st]. rewrite len_app, <- Hwl'.
    destruct Hout as [(-> & -> & Hsat)|[(-> & Hnil & ->)|(-> & -> & Hlt & Hst)]].
    + left. split; [reflexivity|exact Hsat].
    + destruct (N.leb_spec n wl') as [Hsat|Hlt].
      * left. split; [reflexivity|exact Hsat].
      * right. split; [reflexivity|]. split; [exact Hlt|]. eauto.
    + right. split; [reflexivity|]. split; [exact Hlt|]. eauto.
Qed.

Lemma acquire_inv D F CH c rl st n st' m :
  Inv D F CH c rl st -> acquire st n = (st', m) ->
  Inv D F CH c rl st' /\
  ((m = n /\ n <= len (win st')) \/ (m = len (win st') /\ m < n /\ exists e, rerr st' = Some e)).
Proof.
  intros HI H. unfold acquire in H. destruct (N.leb_spec n (len (win st))) as [Hfast|Hslow].
  - inversion H; subst; clear H. split; [exact HI|]. left. split; [reflexivity|exact Hfast].
  - eapply acquire_slow_inv; eassumption.
Qed.

(* ---- why a request can fail ---- *)
Definition fails (D : bytes) (F : Z) (CH : list N) (c n : N) (e : Z) : Prop :=
  (e = F /\ len D < c + n) \/ (e = e_noprogress /\ may_stall CH = true).

Lemma inv_fails D F CH c rl st n e :
  Inv D F CH c rl st -> len (win st) < n -> rerr st = Some e -> fails D F CH c n e.
Proof.
  intros HI Hn He. destruct (inv_err _ _ _ _ _ _ HI e He) as [[-> Hnil]|[-> Hst]].
  - left. split; [reflexivity|]. pose proof (inv_avail _ _ _ _ _ _ HI) as Ha. rewrite Hnil, len_nil in Ha.
    pose proof (inv_c _ _ _ _ _ _ HI). lia.
  - right. split; [reflexivity|exact Hst].
Qed.

Lemma fails_fail_ok D F CH c n e : fails D F CH c n e ->
  fail_ok D F CH c n e = true /\ (negb (may_stall CH) && (c + n <=? len D)) = false.
Proof.
  unfold fails, fail_ok. intros [[-> Hlt]|[-> Hst]].
  - split.
    + rewrite Z.eqb_refl. destruct (N.ltb_spec (len D) (c + n)); [reflexivity|lia].
    + destruct (N.leb_spec (c + n) (len D)); [lia|]. apply andb_false_r.
  - rewrite Hst. split; [|reflexivity]. rewrite Z.eqb_refl. cbn [andb]. apply orb_true_r.
Qed.

(* ---- consuming k bytes of the window; Release ---- *)
Lemma advance_inv D F CH c rl st k :
  Inv D F CH c rl st -> k <= len (win st) -> Inv D F CH (c + k) (rl + k) (advance st k).
Proof.
  intros HI Hk. pose proof (inv_avail _ _ _ _ _ _ HI) as Ha. pose proof (inv_c _ _ _ _ _ _ HI) as Hc.
  constructor; unfold advance; cbn [win ri cap rerr src set_st].
  - rewrite <- drop_drop, (inv_stream _ _ _ _ _ _ HI). apply drop_app_le. exact Hk.
  - lia.
  - exact (inv_fin _ _ _ _ _ _ HI).
  - rewrite len_drop. pose proof (inv_cap _ _ _ _ _ _ HI). lia.
  - rewrite (inv_rl _ _ _ _ _ _ HI). reflexivity.
  - exact (inv_chunks _ _ _ _ _ _ HI).
  - exact (inv_err _ _ _ _ _ _ HI).
Qed.

Lemma release_inv D F CH c rl st : Inv D F CH c rl st -> Inv D F CH c 0 (r_release st).
Proof.
  intros HI. unfold r_release.
  destruct (N.eqb_spec (len (win st)) 0) as [Hz|Hnz].
  - unfold stats_update. apply len_zero_nil in Hz.
    constructor; cbn [win ri cap rerr src]; try (destruct HI; assumption).
    + rewrite (inv_stream _ _ _ _ _ _ HI), Hz. reflexivity.
    + unfold len. cbn [length]. lia.
    + reflexivity.
  - destruct (ro st); constructor; cbn [win ri cap rerr src set_st]; try (destruct HI; assumption); try reflexivity.
    + pose proof (inv_cap _ _ _ _ _ _ HI). lia.
    + pose proof (inv_cap _ _ _ _ _ _ HI). lia.
Qed.

(* ================= 4. the operations ================= *)
Lemma next_neg st n : (n < 0)%Z -> r_next st n = (st, OErr e_negcount).
Proof. intros H. unfold r_next. destruct (Z.ltb_spec n 0); [reflexivity|lia]. Qed.
Lemma peek_neg st n : (n < 0)%Z -> r_peek st n = (st, OErr e_negcount).
Proof. intros H. unfold r_peek. destruct (Z.ltb_spec n 0); [reflexivity|lia]. Qed.
Lemma skip_neg st n : (n < 0)%Z -> r_skip st n = (st, OErr e_negcount).
Proof. intros H. unfold r_skip. destruct (Z.ltb_spec n 0); [reflexivity|lia]. Qed.

(* Next: exactly the n stream bytes at the cursor, which then moves by n; or a (provenanced) error and
   the cursor does not move *)
Lemma next_spec D F CH c rl st n st' out :
  Inv D F CH c rl st -> (0 <= n)%Z -> r_next st n = (st', out) ->
  (out = OBytes (seg_at D c (Z.to_N n)) /\ c + Z.to_N n <= len D /\
   Inv D F CH (c + Z.to_N n) (rl + Z.to_N n) st') \/
  (exists e, out = OErr e /\ fails D F CH c (Z.to_N n) e /\ Inv D F CH c rl st').
Proof.
  intros HI Hn H. unfold r_next in H. destruct (Z.ltb_spec n 0) as [Hneg|_]; [lia|].
  destruct (acquire st (Z.to_N n)) as [st1 m] eqn:Hacq.
  destruct (acquire_inv _ _ _ _ _ _ _ _ _ HI Hacq) as [HI1 [[-> Hsat]|(Hm & Hlt & e & He)]].
  - rewrite N.ltb_irrefl in H. inversion H; subst; clear H. left.
    pose proof (advance_inv _ _ _ _ _ _ _ HI1 Hsat) as HI2.
    split; [f_equal; eapply inv_take; eassumption|]. split; [exact (inv_c _ _ _ _ _ _ HI2)|exact HI2].
  - destruct (N.ltb_spec m (Z.to_N n)) as [_|Hge]; [|lia]. inversion H; subst st' out; clear H. right.
    exists e. unfold fail_out. rewrite He. split; [reflexivity|]. split; [|exact HI1].
    eapply inv_fails; [exact HI1| |exact He]. lia.
Qed.

Lemma peek_spec D F CH c rl st n st' out :
  Inv D F CH c rl st -> (0 <= n)%Z -> r_peek st n = (st', out) ->
  (out = OBytes (seg_at D c (Z.to_N n)) /\ c + Z.to_N n <= len D /\ Inv D F CH c rl st') \/
  (exists e, out = OErr e /\ fails D F CH c (Z.to_N n) e /\ Inv D F CH c rl st').
Proof.
  intros HI Hn H. unfold r_peek in H. destruct (Z.ltb_spec n 0) as [Hneg|_]; [lia|].
  destruct (acquire st (Z.to_N n)) as [st1 m] eqn:Hacq.
  destruct (acquire_inv _ _ _ _ _ _ _ _ _ HI Hacq) as [HI1 [[-> Hsat]|(Hm & Hlt & e & He)]].
  - rewrite N.ltb_irrefl in H. inversion H; subst; clear H. left.
    pose proof (advance_inv _ _ _ _ _ _ _ HI1 Hsat) as HI2.
    split; [f_equal; eapply inv_take; eassumption|]. split; [exact (inv_c _ _ _ _ _ _ HI2)|exact HI1].
  - destruct (N.ltb_spec m (Z.to_N n)) as [_|Hge]; [|lia]. inversion H; subst st' out; clear H. right.
    exists e. unfold fail_out. rewrite He. split; [reflexivity|]. split; [|exact HI1].
    eapply inv_fails; [exact HI1| |exact He]. lia.
Qed.

Lemma skip_spec D F CH c rl st n st' out :
  Inv D F CH c rl st -> (0 <= n)%Z -> r_skip st n = (st', out) ->
  (out = OUnit /\ c + Z.to_N n <= len D /\ Inv D F CH (c + Z.to_N n) (rl + Z.to_N n) st') \/
  (exists e, out = OErr e /\ fails D F CH c (Z.to_N n) e /\ Inv D F CH c rl st').
Proof.
  intros HI Hn H. unfold r_skip in H. destruct (Z.ltb_spec n 0) as [Hneg|_]; [lia|].
  destruct (acquire st (Z.to_N n)) as [st1 m] eqn:Hacq.
  destruct (acquire_inv _ _ _ _ _ _ _ _ _ HI Hacq) as [HI1 [[-> Hsat]|(Hm & Hlt & e & He)]].
  - rewrite N.ltb_irrefl in H. inversion H; subst; clear H. left.
    pose proof (advance_inv _ _ _ _ _ _ _ HI1 Hsat) as HI2.
    split; [reflexivity|]. split; [exact (inv_c _ _ _ _ _ _ HI2)|exact HI2].
  - destruct (N.ltb_spec m (Z.to_N n)) as [_|Hge]; [|lia]. rewrite He in H.
    inversion H; subst st' out; clear H. right.
    exists e. split; [reflexivity|]. split; [|exact HI1].
    eapply inv_fails; [exact HI1| |exact He]. lia.
Qed.

(* ReadBinary into a k-byte slice: m <= k bytes copied = the stream bytes at the cursor, the cursor moves
   by exactly m, and m < k only together with an error *)
Lemma readbinary_spec D F CH c rl st k st' out :
  Inv D F CH c rl st -> r_readbinary st k = (st', out) ->
  exists m, m <= k /\ c + m <= len D /\ Inv D F CH (c + m) (rl + m) st' /\
    ((m = k /\ out = ORead k (seg_at D c k) None) \/
     (m < k /\ exists e, out = ORead m (seg_at D c m) (Some e) /\ fails D F CH c k e)).
Proof.
  intros HI H. unfold r_readbinary in H.
  destruct (acquire st k) as [st1 m] eqn:Hacq.
  destruct (acquire_inv _ _ _ _ _ _ _ _ _ HI Hacq) as [HI1 [[-> Hsat]|(Hm & Hlt & e & He)]].
  - rewrite N.ltb_irrefl, N.min_id in H. inversion H; subst; clear H. exists k.
    pose proof (advance_inv _ _ _ _ _ _ _ HI1 Hsat) as HI2.
    split; [lia|]. split; [exact (inv_c _ _ _ _ _ _ HI2)|]. split; [exact HI2|].
    left. split; [reflexivity|]. f_equal. eapply inv_take; eassumption.
  - destruct (N.ltb_spec m k) as [_|Hge]; [|lia].
    replace (N.min m k) with m in H by lia. inversion H; subst st' out; clear H. exists m.
    assert (Hmw : m <= len (win st1)) by lia.
    pose proof (advance_inv _ _ _ _ _ _ _ HI1 Hmw) as HI2.
    split; [lia|]. split; [exact (inv_c _ _ _ _ _ _ HI2)|]. split; [exact HI2|].
    right. split; [exact Hlt|]. exists e. split.
    + rewrite He. f_equal. eapply inv_take; eassumption.
    + eapply inv_fails; [exact HI1| |exact He]. lia.
Qed.

(* ================= 5. refinement of the cursor specification ================= *)
Lemma inv_init_reader s : spos s = 0 ->
  Inv (sdata s) (sfinal s) (schunks s) 0 0 (new_reader s).
Proof.
  intros Hp. constructor; unfold new_reader; cbn [win ri cap rerr src].
  - rewrite Hp. reflexivity.
  - lia.
  - reflexivity.
  - unfold len. cbn [length]. lia.
  - reflexivity.
  - exists []. reflexivity.
  - intros e He. discriminate.
Qed.

Lemma inv_init_bytes data bcap : len data <= bcap ->
  Inv data e_eof [] 0 0 (new_bytes_reader data bcap).
Proof.
  intros Hcap. unfold new_bytes_reader. destruct (N.ltb_spec 0 bcap) as [Hpos|Hz].
  - constructor; cbn [win ri cap rerr src fake_source sdata spos sfinal schunks].
    + rewrite drop_nil, app_nil_r. reflexivity.
    + lia.
    + reflexivity.
    + lia.
    + reflexivity.
    + exists []. reflexivity.
    + intros e He. discriminate.
  - assert (data = []) as -> by (apply len_zero_nil; lia).
    apply (inv_init_reader fake_source). reflexivity.
Qed.

Lemma step_refines D F CH c rl st o st' out :
  Inv D F CH c rl st -> r_step st o = (st', out) ->
  exists cu', cursor_step D F CH {| cpos := c; crl := rl |} o out = Some cu' /\
              Inv D F CH (cpos cu') (crl cu') st'.
Proof.
  intros HI H. destruct o as [n|n|n|k| |]; cbn [r_step] in H.
  - (* Next *)
    destruct (Z.ltb_spec n 0) as [Hneg|Hnn].
    + rewrite next_neg in H by exact Hneg. inversion H; subst; clear H.
      exists {| cpos := c; crl := rl |}. unfold cursor_step. cbn [cpos crl].
      destruct (Z.ltb_spec n 0); [|lia]. rewrite Z.eqb_refl. split; [reflexivity|exact HI].
    + destruct (next_spec _ _ _ _ _ _ _ _ _ HI Hnn H) as [(-> & Hfit & HI')|(e & -> & Hf & HI')].
      * exists {| cpos := c + Z.to_N n; crl := rl + Z.to_N n |}. unfold cursor_step. cbn [cpos crl].
        rewrite beqb_refl, seg_at_len, N.eqb_refl by exact Hfit.
        destruct (Z.leb_spec 0 n); [|lia]. split; [reflexivity|exact HI'].
      * exists {| cpos := c; crl := rl |}. unfold cursor_step. cbn [cpos crl].
        destruct (Z.ltb_spec n 0); [lia|]. destruct (fails_fail_ok _ _ _ _ _ _ Hf) as [-> ->].
        split; [reflexivity|exact HI'].
  - (* Peek *)
    destruct (Z.ltb_spec n 0) as [Hneg|Hnn].
    + rewrite peek_neg in H by exact Hneg. inversion H; subst; clear H.
      exists {| cpos := c; crl := rl |}. unfold cursor_step. cbn [cpos crl].
      destruct (Z.ltb_spec n 0); [|lia]. rewrite Z.eqb_refl. split; [reflexivity|exact HI].
    + destruct (peek_spec _ _ _ _ _ _ _ _ _ HI Hnn H) as [(-> & Hfit & HI')|(e & -> & Hf & HI')].
      * exists {| cpos := c; crl := rl |}. unfold cursor_step. cbn [cpos crl].
        rewrite beqb_refl, seg_at_len, N.eqb_refl by exact Hfit.
        destruct (Z.leb_spec 0 n); [|lia]. split; [reflexivity|exact HI'].
      * exists {| cpos := c; crl := rl |}. unfold cursor_step. cbn [cpos crl].
        destruct (Z.ltb_spec n 0); [lia|]. destruct (fails_fail_ok _ _ _ _ _ _ Hf) as [-> ->].
        split; [reflexivity|exact HI'].
  - (* Skip *)
    destruct (Z.ltb_spec n 0) as [Hneg|Hnn].
    + rewrite skip_neg in H by exact Hneg. inversion H; subst; clear H.
      exists {| cpos := c; crl := rl |}. unfold cursor_step. cbn [cpos crl].
      destruct (Z.ltb_spec n 0); [|lia]. rewrite Z.eqb_refl. split; [reflexivity|exact HI].
    + destruct (skip_spec _ _ _ _ _ _ _ _ _ HI Hnn H) as [(-> & Hfit & HI')|(e & -> & Hf & HI')].
      * exists {| cpos := c + Z.to_N n; crl := rl + Z.to_N n |}. unfold cursor_step. cbn [cpos crl].
        destruct (Z.leb_spec 0 n); [|lia]. destruct (N.leb_spec (c + Z.to_N n) (len D)); [|lia].
        split; [reflexivity|exact HI'].
      * exists {| cpos := c; crl := rl |}. unfold cursor_step. cbn [cpos crl].
        destruct (Z.ltb_spec n 0); [lia|]. destruct (fails_fail_ok _ _ _ _ _ _ Hf) as [-> ->].
        split; [reflexivity|exact HI'].
  - (* ReadBinary *)
    destruct (readbinary_spec _ _ _ _ _ _ _ _ _ HI H) as (m & Hmk & Hfit & HI' & [(-> & ->)|(Hlt & e & -> & Hf)]).
    + exists {| cpos := c + k; crl := rl + k |}. unfold cursor_step. cbn [cpos crl].
      rewrite beqb_refl, seg_at_len, !N.eqb_refl by exact Hfit.
      destruct (N.leb_spec k k); [|lia]. split; [reflexivity|exact HI'].
    + exists {| cpos := c + m; crl := rl + m |}. unfold cursor_step. cbn [cpos crl].
      rewrite beqb_refl, seg_at_len, N.eqb_refl by exact Hfit.
      destruct (N.leb_spec m k); [|lia]. destruct (N.ltb_spec m k); [|lia].
      destruct (fails_fail_ok _ _ _ _ _ _ Hf) as [-> ->]. split; [reflexivity|exact HI'].
  - (* ReadLen *)
    inversion H; subst; clear H. exists {| cpos := c; crl := rl |}. unfold cursor_step, r_readlen. cbn [cpos crl].
    rewrite (inv_rl _ _ _ _ _ _ HI), N.eqb_refl. split; [reflexivity|exact HI].
  - (* Release *)
    inversion H; subst; clear H. exists {| cpos := c; crl := 0 |}. unfold cursor_step. cbn [cpos crl].
    split; [reflexivity|]. eapply release_inv. exact HI.
Qed.

Lemma run_refines D F CH : forall ops c rl st st' outs,
  Inv D F CH c rl st -> r_run st ops = (st', outs) ->
  cursor_run D F CH {| cpos := c; crl := rl |} ops outs = true /\ exists c' rl', Inv D F CH c' rl' st'.
Proof.
  induction ops as [|o ops IH]; intros c rl st st' outs HI H; cbn [r_run] in H.
  - inversion H; subst. split; [reflexivity|]. eauto.
  - destruct (r_step st o) as [st1 out] eqn:Hstep.
    destruct (r_run st1 ops) as [st2 outs1] eqn:Hrun. inversion H; subst st' outs; clear H.
    destruct (step_refines _ _ _ _ _ _ _ _ _ HI Hstep) as ([c1 rl1] & Hcs & HI1). cbn [cpos crl] in HI1.
    destruct (IH _ _ _ _ _ HI1 Hrun) as [Hcr Hex].
    split; [|exact Hex]. cbn [cursor_run]. rewrite Hcs. exact Hcr.
Qed.

Definition cursor0 : cursor := {| cpos := 0; crl := 0 |}.

(* REFINEMENT: for every source (data, final error, with-data flag, script) and every history, the
   model's outputs are accepted by the executable cursor specification *)
Theorem reader_refines_cursor : forall s ops, spos s = 0 ->
  cursor_run (sdata s) (sfinal s) (schunks s) cursor0 ops (snd (r_run (new_reader s) ops)) = true.
Proof.
  intros s ops Hp. destruct (r_run (new_reader s) ops) as [st' outs] eqn:Hrun. cbn [snd].
  exact (proj1 (run_refines _ _ _ _ _ _ _ _ _ (inv_init_reader s Hp) Hrun)).
Qed.

Theorem bytes_reader_refines_cursor : forall data bcap ops, len data <= bcap ->
  cursor_run data e_eof [] cursor0 ops (snd (r_run (new_bytes_reader data bcap) ops)) = true.
Proof.
  intros data bcap ops Hc. destruct (r_run (new_bytes_reader data bcap) ops) as [st' outs] eqn:Hrun. cbn [snd].
  exact (proj1 (run_refines _ _ _ _ _ _ _ _ _ (inv_init_bytes data bcap Hc) Hrun)).
Qed.

(* (nil, nil) — a failed request without an error — is never produced, by any operation, in any
   reachable state *)
Lemma step_never_nil D F CH c rl st o st' :
  Inv D F CH c rl st -> r_step st o <> (st', ONil).
Proof.
  intros HI H. destruct (step_refines _ _ _ _ _ _ _ _ _ HI H) as (cu' & Hcs & _).
  destruct o; discriminate Hcs.
Qed.

(* FUEL of the loop inside acquireSlow: in every reachable state the call made by [acquire_slow] gives
   the same result with any larger fuel, i.e. the out-of-fuel branch of [read_loop] is never taken *)
Theorem acquire_loop_fuel_ok D F CH c rl st n extra :
  Inv D F CH c rl st -> len (win st) < n ->
  let st2 := grow_phase (alloc_phase st n) n in
  let s := src st2 in let c0 := cur_of s in
  read_loop (sfinal s) (swith s) (cap st2) (ri st2) n (loop_fuel c0 + extra) O c0 [] (len (win st2)) =
  read_loop (sfinal s) (swith s) (cap st2) (ri st2) n (loop_fuel c0) O c0 [] (len (win st2)).
Proof.
  intros HI Hn.
  destruct (alloc_phase_frame st n) as (Hw1 & Hi1 & Hs1 & He1 & Hc1).
  destruct (grow_phase_frame (alloc_phase st n) n) as (Hw2 & Hi2 & Hs2 & He2 & Hc2).
  destruct (Hc1 (inv_cap _ _ _ _ _ _ HI) ltac:(lia)) as [Hcap1 Hpos1].
  rewrite Hw1 in Hc2, Hcap1. destruct (Hc2 Hcap1 Hpos1 Hn) as [Hcap2 Hroom2].
  cbv zeta. apply read_loop_fuel_irrelevant.
  - apply cur_of_wf.
  - apply loop_fuel_measure.
  - lia.
  - rewrite Hw2, Hw1. exact Hn.
  - exact Hroom2.
Qed.

(* ================= 6. INTERFACE for stream readers built on this model =================
   Everything a client of the reader model needs, without unfolding the model:

     RInv D F CH c st   "st is a reader state over the stream D (final error F, script CH) whose cursor
                         stands at position c"  — established by the two constructors, preserved by
                         every operation (the lemmas say where the cursor goes);
     fails D F CH c n e  why a request for n bytes at c may fail with e: the source's own final error
                         and fewer than n bytes left, or no-progress and a script that can stall.

   For each operation: a general lemma (exact result or a provenanced error, cursor unchanged on
   error), an _ok lemma (the request fits and the script cannot stall: it succeeds) and a _short
   lemma (the request does not fit: it fails).  seg_at D c n = take n (drop c D). *)
Definition RInv (D : bytes) (F : Z) (CH : list N) (c : N) (st : rstate) : Prop := Inv D F CH c (ri st) st.

Lemma inv_rinv D F CH c rl st : Inv D F CH c rl st -> RInv D F CH c st.
Proof. intros H. unfold RInv. rewrite (inv_rl _ _ _ _ _ _ H). exact H. Qed.

Lemma rinv_readlen D F CH c rl st : Inv D F CH c rl st -> r_readlen st = rl.
Proof. intros H. exact (inv_rl _ _ _ _ _ _ H). Qed.

Lemma rinv_new_reader s : spos s = 0 -> RInv (sdata s) (sfinal s) (schunks s) 0 (new_reader s).
Proof. intros H. eapply inv_rinv, inv_init_reader, H. Qed.

Lemma rinv_new_bytes_reader data bcap : len data <= bcap -> RInv data e_eof [] 0 (new_bytes_reader data bcap).
Proof. intros H. eapply inv_rinv, inv_init_bytes, H. Qed.

Lemma rinv_cursor_le D F CH c st : RInv D F CH c st -> c <= len D.
Proof. intros H. exact (inv_c _ _ _ _ _ _ H). Qed.

Lemma fails_nonnil D F CH c n e : fails D F CH c n e -> F <> 0%Z -> e <> 0%Z.
Proof. intros [[-> _]|[-> _]] HF; [exact HF|discriminate]. Qed.

Lemma fails_short_or_stall D F CH c n e : fails D F CH c n e -> len D < c + n \/ may_stall CH = true.
Proof. intros [[_ H]|[_ H]]; auto. Qed.

(* ---- Next ---- *)
Lemma rinv_next D F CH c st n st' out :
  RInv D F CH c st -> (0 <= n)%Z -> r_next st n = (st', out) ->
  (out = OBytes (seg_at D c (Z.to_N n)) /\ len (seg_at D c (Z.to_N n)) = Z.to_N n /\ c + Z.to_N n <= len D /\
   RInv D F CH (c + Z.to_N n) st' /\ r_readlen st' = r_readlen st + Z.to_N n) \/
  (exists e, out = OErr e /\ fails D F CH c (Z.to_N n) e /\ RInv D F CH c st' /\ r_readlen st' = r_readlen st).
Proof.
  intros HI Hn H. destruct (next_spec _ _ _ _ _ _ _ _ _ HI Hn H) as [(-> & Hfit & HI')|(e & -> & Hf & HI')].
  - left. split; [reflexivity|]. split; [apply seg_at_len, Hfit|]. split; [exact Hfit|].
    split; [eapply inv_rinv, HI'|exact (inv_rl _ _ _ _ _ _ HI')].
  - right. exists e. split; [reflexivity|]. split; [exact Hf|].
    split; [eapply inv_rinv, HI'|exact (inv_rl _ _ _ _ _ _ HI')].
Qed.

Lemma rinv_next_ok D F CH c st n :
  RInv D F CH c st -> may_stall CH = false -> c + n <= len D ->
  exists st', r_next st (Z.of_N n) = (st', OBytes (seg_at D c n)) /\ len (seg_at D c n) = n /\
              RInv D F CH (c + n) st' /\ r_readlen st' = r_readlen st + n.
Proof.
  intros HI Hns Hfit. destruct (r_next st (Z.of_N n)) as [st' out] eqn:H. exists st'.
  destruct (rinv_next _ _ _ _ _ _ _ _ HI (N2Z.is_nonneg n) H) as [(-> & Hl & _ & HI' & Hrl)|(e & _ & Hf & _)];
    rewrite ?N2Z.id in *.
  - auto.
  - destruct (fails_short_or_stall _ _ _ _ _ _ Hf); [lia|congruence].
Qed.

Lemma rinv_next_short D F CH c st n :
  RInv D F CH c st -> len D < c + n ->
  exists st' e, r_next st (Z.of_N n) = (st', OErr e) /\ fails D F CH c n e /\
                RInv D F CH c st' /\ r_readlen st' = r_readlen st.
Proof.
  intros HI Hshort. destruct (r_next st (Z.of_N n)) as [st' out] eqn:H. exists st'.
  destruct (rinv_next _ _ _ _ _ _ _ _ HI (N2Z.is_nonneg n) H) as [(_ & _ & Hfit & _)|(e & -> & Hf & HI' & Hrl)];
    rewrite ?N2Z.id in *.
  - lia.
  - exists e. auto.
Qed.

(* ---- Peek: never moves the cursor, never changes ReadLen ---- *)
Lemma rinv_peek D F CH c st n st' out :
  RInv D F CH c st -> (0 <= n)%Z -> r_peek st n = (st', out) ->
  RInv D F CH c st' /\ r_readlen st' = r_readlen st /\
  ((out = OBytes (seg_at D c (Z.to_N n)) /\ len (seg_at D c (Z.to_N n)) = Z.to_N n /\ c + Z.to_N n <= len D) \/
   (exists e, out = OErr e /\ fails D F CH c (Z.to_N n) e)).
Proof.
  intros HI Hn H. destruct (peek_spec _ _ _ _ _ _ _ _ _ HI Hn H) as [(-> & Hfit & HI')|(e & -> & Hf & HI')].
  - split; [eapply inv_rinv, HI'|]. split; [exact (inv_rl _ _ _ _ _ _ HI')|].
    left. split; [reflexivity|]. split; [apply seg_at_len, Hfit|exact Hfit].
  - split; [eapply inv_rinv, HI'|]. split; [exact (inv_rl _ _ _ _ _ _ HI')|].
    right. exists e. split; [reflexivity|exact Hf].
Qed.

Lemma rinv_peek_ok D F CH c st n :
  RInv D F CH c st -> may_stall CH = false -> c + n <= len D ->
  exists st', r_peek st (Z.of_N n) = (st', OBytes (seg_at D c n)) /\ len (seg_at D c n) = n /\
              RInv D F CH c st' /\ r_readlen st' = r_readlen st.
Proof.
  intros HI Hns Hfit. destruct (r_peek st (Z.of_N n)) as [st' out] eqn:H. exists st'.
  destruct (rinv_peek _ _ _ _ _ _ _ _ HI (N2Z.is_nonneg n) H) as (HI' & Hrl & [(-> & Hl & _)|(e & _ & Hf)]);
    rewrite ?N2Z.id in *.
  - auto.
  - destruct (fails_short_or_stall _ _ _ _ _ _ Hf); [lia|congruence].
Qed.

Lemma rinv_peek_short D F CH c st n :
  RInv D F CH c st -> len D < c + n ->
  exists st' e, r_peek st (Z.of_N n) = (st', OErr e) /\ fails D F CH c n e /\
                RInv D F CH c st' /\ r_readlen st' = r_readlen st.
Proof.
  intros HI Hshort. destruct (r_peek st (Z.of_N n)) as [st' out] eqn:H. exists st'.
  destruct (rinv_peek _ _ _ _ _ _ _ _ HI (N2Z.is_nonneg n) H) as (HI' & Hrl & [(_ & _ & Hfit)|(e & -> & Hf)]);
    rewrite ?N2Z.id in *.
  - lia.
  - exists e. auto.
Qed.

(* ---- Skip ---- *)
Lemma rinv_skip D F CH c st n st' out :
  RInv D F CH c st -> (0 <= n)%Z -> r_skip st n = (st', out) ->
  (out = OUnit /\ c + Z.to_N n <= len D /\ RInv D F CH (c + Z.to_N n) st' /\
   r_readlen st' = r_readlen st + Z.to_N n) \/
  (exists e, out = OErr e /\ fails D F CH c (Z.to_N n) e /\ RInv D F CH c st' /\ r_readlen st' = r_readlen st).
Proof.
  intros HI Hn H. destruct (skip_spec _ _ _ _ _ _ _ _ _ HI Hn H) as [(-> & Hfit & HI')|(e & -> & Hf & HI')].
  - left. split; [reflexivity|]. split; [exact Hfit|].
    split; [eapply inv_rinv, HI'|exact (inv_rl _ _ _ _ _ _ HI')].
  - right. exists e. split; [reflexivity|]. split; [exact Hf|].
    split; [eapply inv_rinv, HI'|exact (inv_rl _ _ _ _ _ _ HI')].
Qed.

Lemma rinv_skip_ok D F CH c st n :
  RInv D F CH c st -> may_stall CH = false -> c + n <= len D ->
  exists st', r_skip st (Z.of_N n) = (st', OUnit) /\ RInv D F CH (c + n) st' /\
              r_readlen st' = r_readlen st + n.
Proof.
  intros HI Hns Hfit. destruct (r_skip st (Z.of_N n)) as [st' out] eqn:H. exists st'.
  destruct (rinv_skip _ _ _ _ _ _ _ _ HI (N2Z.is_nonneg n) H) as [(-> & _ & HI' & Hrl)|(e & _ & Hf & _)];
    rewrite ?N2Z.id in *.
  - auto.
  - destruct (fails_short_or_stall _ _ _ _ _ _ Hf); [lia|congruence].
Qed.

Lemma rinv_skip_short D F CH c st n :
  RInv D F CH c st -> len D < c + n ->
  exists st' e, r_skip st (Z.of_N n) = (st', OErr e) /\ fails D F CH c n e /\
                RInv D F CH c st' /\ r_readlen st' = r_readlen st.
Proof.
  intros HI Hshort. destruct (r_skip st (Z.of_N n)) as [st' out] eqn:H. exists st'.
  destruct (rinv_skip _ _ _ _ _ _ _ _ HI (N2Z.is_nonneg n) H) as [(_ & Hfit & _)|(e & -> & Hf & HI' & Hrl)];
    rewrite ?N2Z.id in *.
  - lia.
  - exists e. auto.
Qed.

(* ---- ReadBinary ---- *)
Lemma rinv_readbinary D F CH c st k st' out :
  RInv D F CH c st -> r_readbinary st k = (st', out) ->
  exists m, m <= k /\ c + m <= len D /\ len (seg_at D c m) = m /\
    RInv D F CH (c + m) st' /\ r_readlen st' = r_readlen st + m /\
    ((m = k /\ out = ORead k (seg_at D c k) None) \/
     (m < k /\ exists e, out = ORead m (seg_at D c m) (Some e) /\ fails D F CH c k e)).
Proof.
  intros HI H. destruct (readbinary_spec _ _ _ _ _ _ _ _ _ HI H) as (m & Hmk & Hfit & HI' & Hout).
  exists m. split; [exact Hmk|]. split; [exact Hfit|]. split; [apply seg_at_len, Hfit|].
  split; [eapply inv_rinv, HI'|]. split; [exact (inv_rl _ _ _ _ _ _ HI')|exact Hout].
Qed.

Lemma rinv_readbinary_ok D F CH c st k :
  RInv D F CH c st -> may_stall CH = false -> c + k <= len D ->
  exists st', r_readbinary st k = (st', ORead k (seg_at D c k) None) /\ len (seg_at D c k) = k /\
              RInv D F CH (c + k) st' /\ r_readlen st' = r_readlen st + k.
Proof.
  intros HI Hns Hfit. destruct (r_readbinary st k) as [st' out] eqn:H. exists st'.
  destruct (rinv_readbinary _ _ _ _ _ _ _ _ HI H)
    as (m & Hmk & Hfm & Hl & HI' & Hrl & [(-> & ->)|(Hlt & e & _ & Hf)]).
  - auto.
  - destruct (fails_short_or_stall _ _ _ _ _ _ Hf); [lia|congruence].
Qed.

Lemma rinv_readbinary_short D F CH c st k :
  RInv D F CH c st -> len D < c + k ->
  exists st' m e, r_readbinary st k = (st', ORead m (seg_at D c m) (Some e)) /\ m < k /\ c + m <= len D /\
                  len (seg_at D c m) = m /\ fails D F CH c k e /\
                  RInv D F CH (c + m) st' /\ r_readlen st' = r_readlen st + m.
Proof.
  intros HI Hshort. destruct (r_readbinary st k) as [st' out] eqn:H. exists st'.
  destruct (rinv_readbinary _ _ _ _ _ _ _ _ HI H)
    as (m & Hmk & Hfm & Hl & HI' & Hrl & [(-> & ->)|(Hlt & e & -> & Hf)]).
  - lia.
  - exists m, e. auto 10.
Qed.

(* ---- ReadLen / Release ---- *)
Lemma rinv_release D F CH c st : RInv D F CH c st ->
  RInv D F CH c (r_release st) /\ r_readlen (r_release st) = 0.
Proof.
  intros HI. pose proof (release_inv _ _ _ _ _ _ HI) as H. split; [eapply inv_rinv, H|exact (inv_rl _ _ _ _ _ _ H)].
Qed.

(* every operation keeps the state inside the invariant (at the cursor the lemmas above give) *)
Lemma rinv_step D F CH c st o st' out :
  RInv D F CH c st -> r_step st o = (st', out) -> exists c', c <= c' /\ RInv D F CH c' st'.
Proof.
  intros HI H. destruct (step_refines _ _ _ _ _ _ _ _ _ HI H) as ([c' rl'] & Hcs & HI'). cbn [cpos crl] in HI'.
  exists c'. split; [|eapply inv_rinv, HI'].
  unfold cursor_step in Hcs. cbn [cpos crl] in Hcs.
  destruct o, out; try discriminate Hcs;
    repeat match type of Hcs with
           | (if ?b then _ else _) = _ => destruct b; try discriminate Hcs
           | (match ?b with _ => _ end) = _ => destruct b; try discriminate Hcs
           end; inversion Hcs; lia.
Qed.

Lemma rinv_run D F CH : forall ops c st st' outs,
  RInv D F CH c st -> r_run st ops = (st', outs) -> exists c', c <= c' /\ RInv D F CH c' st'.
Proof.
  induction ops as [|o ops IH]; intros c st st' outs HI H; cbn [r_run] in H.
  - inversion H; subst. exists c. split; [lia|exact HI].
  - destruct (r_step st o) as [st1 out] eqn:Hstep.
    destruct (r_run st1 ops) as [st2 outs1] eqn:Hrun. inversion H; subst st' outs; clear H.
    destruct (rinv_step _ _ _ _ _ _ _ _ HI Hstep) as (c1 & Hle1 & HI1).
    destruct (IH _ _ _ _ HI1 Hrun) as (c2 & Hle2 & HI2). exists c2. split; [lia|exact HI2].
Qed.

(* ---- summaries used by Properties/C04.v ---- *)
Lemma negative_count st n : (n < 0)%Z ->
  r_next st n = (st, OErr e_negcount) /\ r_peek st n = (st, OErr e_negcount) /\ r_skip st n = (st, OErr e_negcount).
Proof. intros H. exact (conj (next_neg st n H) (conj (peek_neg st n H) (skip_neg st n H))). Qed.

Lemma rinv_never_nil D F CH c st o st' : RInv D F CH c st -> r_step st o <> (st', ONil).
Proof. intros H. exact (step_never_nil _ _ _ _ _ _ _ _ H). Qed.

Lemma fitting_request_succeeds D F CH c st n :
  RInv D F CH c st -> may_stall CH = false -> c + n <= len D ->
  (exists st', r_next st (Z.of_N n) = (st', OBytes (seg_at D c n)) /\ RInv D F CH (c + n) st') /\
  (exists st', r_peek st (Z.of_N n) = (st', OBytes (seg_at D c n)) /\ RInv D F CH c st') /\
  (exists st', r_skip st (Z.of_N n) = (st', OUnit) /\ RInv D F CH (c + n) st') /\
  (exists st', r_readbinary st n = (st', ORead n (seg_at D c n) None) /\ RInv D F CH (c + n) st').
Proof.
  intros HI Hns Hfit.
  destruct (rinv_next_ok _ _ _ _ _ _ HI Hns Hfit) as (s1 & H1 & _ & I1 & _).
  destruct (rinv_peek_ok _ _ _ _ _ _ HI Hns Hfit) as (s2 & H2 & _ & I2 & _).
  destruct (rinv_skip_ok _ _ _ _ _ _ HI Hns Hfit) as (s3 & H3 & I3 & _).
  destruct (rinv_readbinary_ok _ _ _ _ _ _ HI Hns Hfit) as (s4 & H4 & _ & I4 & _).
  split; [exists s1; auto|]. split; [exists s2; auto|]. split; [exists s3; auto|exists s4; auto].
Qed.

Lemma overlong_request_fails D F CH c st n :
  RInv D F CH c st -> len D < c + n ->
  exists st' e, r_next st (Z.of_N n) = (st', OErr e) /\ fails D F CH c n e /\ RInv D F CH c st'.
Proof.
  intros HI Hs. destruct (rinv_next_short _ _ _ _ _ _ HI Hs) as (st' & e & H & Hf & HI' & _).
  exists st', e. auto.
Qed.

Lemma rinv_loop_fuel_ok D F CH c st n extra :
  RInv D F CH c st -> len (win st) < n ->
  let st2 := grow_phase (alloc_phase st n) n in
  let s := src st2 in let c0 := cur_of s in
  read_loop (sfinal s) (swith s) (cap st2) (ri st2) n (loop_fuel c0 + extra) O c0 [] (len (win st2)) =
  read_loop (sfinal s) (swith s) (cap st2) (ri st2) n (loop_fuel c0) O c0 [] (len (win st2)).
Proof. intros H. exact (acquire_loop_fuel_ok _ _ _ _ _ _ _ extra H). Qed.

Lemma fails_unfold D F CH c n e : fails D F CH c n e ->
  (e = F /\ len D < c + n) \/ (e = e_noprogress /\ may_stall CH = true).
Proof. intros H. exact H. Qed.

(* ROOM (DESIGN 5 C04 T): after the allocate/grow phases the buffer has room for the whole request, so
   while the request is unsatisfied (wl < n) every Read is offered at least one byte of room:
   an empty read is never the reader's own doing, and [may_stall] is a property of the script alone *)
Lemma rinv_room D F CH c st n :
  RInv D F CH c st -> len (win st) < n ->
  let st2 := grow_phase (alloc_phase st n) n in
  win st2 = win st /\ ri st2 = ri st /\ ri st2 + n <= cap st2 /\
  (forall wl, wl < n -> 0 < cap st2 - (ri st2 + wl)).
Proof.
  intros HI Hn.
  destruct (alloc_phase_frame st n) as (Hw1 & Hi1 & Hs1 & He1 & Hc1).
  destruct (grow_phase_frame (alloc_phase st n) n) as (Hw2 & Hi2 & Hs2 & He2 & Hc2).
  destruct (Hc1 (inv_cap _ _ _ _ _ _ HI) ltac:(lia)) as [Hcap1 Hpos1].
  rewrite Hw1 in Hc2, Hcap1. destruct (Hc2 Hcap1 Hpos1 Hn) as [Hcap2 Hroom2].
  cbv zeta. split; [congruence|]. split; [congruence|]. split; [exact Hroom2|]. intros wl Hwl. lia.
Qed.
