(* Proofs/GenCorollariesSkip.v — the headline fact of the skip template (Proofs/SkipDecodersP.v
   tskip_sim: over ANY SkipN that satisfies the contract Rep / SN_ok / SN_fail, the template
   accepts exactly what the reference parser [rp inl_none] accepts, consumes exactly the bytes of
   one value and fails with a real error otherwise) restated for the definition REGENERATED FROM
   THE GO SOURCE on every run (Gen/Funcs.v g_thrift_SkipDecoderTpl_Skip, tools/gotrans), by
   rewriting with Proofs/GenEquivSkip.v; and the instance BytesSkipDecoder (a slice and an offset).

   [g_tskip skipN rfuel fuel s t d] is the generated Skip over the SkipN model [mN skipN], with the
   table typeToSize of the source, type byte t and depth budget d. *)
From GV Require Import Lib.Bytes Lib.Res Lib.GoSem Gen.Consts Gen.Funcs Model.Binary Model.BufReader Model.Skip
     Model.SkipDecoders Spec.ThriftGrammar Spec.RefParse Proofs.RefLib Proofs.RefP Proofs.SkipLib
     Proofs.SkipDecodersP Proofs.GenLib Proofs.GenEquivSkip.
From Coq Require Import ZifyN ZifyNat ZifyBool Lia.
Open Scope N_scope.

Definition g_tskip {St} (skipN : St -> N -> sres St bytes) (rfuel fuel : nat) (s : St) (t : N) (d : nat)
  : res (St * gerror) :=
  g_thrift_SkipDecoderTpl_Skip St (mN St skipN) rfuel fuel thrift_typeToSize s (i8 t) (Z.of_nat d).

Section Contract.
  Variable St : Type.
  Variable skipN : St -> N -> sres St bytes.
  Variable Rep : St -> bytes -> Prop.
  Hypothesis SN_ok : forall s r n, Rep s r -> n <= len r ->
    exists s', skipN s n = (s', Ok (take n r)) /\ Rep s' (drop n r).
  Hypothesis SN_fail : forall s r n, Rep s r -> len r < n ->
    exists s' c, skipN s n = (s', Err c) /\ c <> e_fuel.
  Hypothesis Rep_wf : forall s r, Rep s r -> wf r.
  (* the bytes SkipN returns are bytes, from every state of an invariant it preserves *)
  Variable Inv : St -> Prop.
  Hypothesis SN_inv : forall s n s' r, Inv s -> skipN s n = (s', r) -> Inv s'.
  Hypothesis SN_wf : forall s n s' b, Inv s -> skipN s n = (s', Ok b) -> wf b.

  (* for ALL recursion fuel above the depth budget and ALL loop fuel above length r + 1 *)
  Theorem g_tskip_is_ref d rfuel fuel s r t :
    Rep s r -> Inv s -> t < 256 -> (d < rfuel)%nat -> (S (length r) < fuel)%nat -> (Z.of_nat d < 2 ^ 63)%Z ->
    match rp inl_none d t r with
    | Ok (n, _) => exists s', g_tskip skipN rfuel fuel s t d = Ok (s', gnil) /\ Rep s' (drop n r)
    | Err _ => exists s' c, g_tskip skipN rfuel fuel s t d = Ok (s', Some c) /\ c <> e_fuel
    | _ => False
    end.
  Proof.
    intros HR Is Ht Hd Hf Hdz.
    pose proof (tskip_sim St skipN Rep SN_ok SN_fail Rep_wf (S (length r)) d s r t HR Ht ltac:(unfold P; lia)) as T.
    assert (G : nofuel St (tskip skipN d (S (length r)) s t) ->
                ssim St (g_tskip skipN rfuel fuel s t d) (tskip skipN d (S (length r)) s t)).
    { intros Hnf. apply (g_thrift_SkipDecoderTpl_Skip_sim St skipN Inv SN_inv SN_wf); assumption. }
    unfold tsim in T. destruct (rp inl_none d t r) as [[n h]|e| |]; try contradiction.
    - destruct T as [s' [E HR']]. rewrite E in G. exists s'. split; [|exact HR'].
      apply G. unfold nofuel. cbn. discriminate.
    - destruct T as [s' [c [E Hc]]]. rewrite E in G. exists s', c. split; [|exact Hc].
      apply G. unfold nofuel. cbn. intros X. inversion X. contradiction.
  Qed.

  (* never a panic, never out of fuel *)
  Corollary g_tskip_safe d rfuel fuel s r t :
    Rep s r -> Inv s -> t < 256 -> (d < rfuel)%nat -> (S (length r) < fuel)%nat -> (Z.of_nat d < 2 ^ 63)%Z ->
    exists s' e, g_tskip skipN rfuel fuel s t d = Ok (s', e).
  Proof.
    intros HR Is Ht Hd Hf Hdz. pose proof (g_tskip_is_ref d rfuel fuel s r t HR Is Ht Hd Hf Hdz) as T.
    destruct (rp inl_none d t r) as [[n h]|e| |]; try contradiction.
    - destruct T as [s' [E _]]. eauto.
    - destruct T as [s' [c [E _]]]. eauto.
  Qed.
End Contract.

(* ================= BytesSkipDecoder ================= *)
Definition bs_inv (s : bs_state) : Prop := wf (bs_b s).

Lemma bs_SN_inv : forall s n s' r, bs_inv s -> bs_skipN s n = (s', r) -> bs_inv s'.
Proof.
  intros s n s' r H. unfold bs_skipN. destruct (bs_n s + n <=? len (bs_b s)); intros E; inversion E; subst; exact H.
Qed.

Lemma bs_SN_wf : forall s n s' b, bs_inv s -> bs_skipN s n = (s', Ok b) -> wf b.
Proof.
  intros s n s' b H. unfold bs_skipN. destruct (bs_n s + n <=? len (bs_b s)); intros E; [|discriminate].
  inversion E as [[E1 E2]]. unfold slice_range in E2.
  destruct ((bs_n s + n - n <=? bs_n s + n) && (bs_n s + n <=? len (bs_b s))); [|discriminate].
  inversion E2. apply wf_take, wf_drop, H.
Qed.

(* the generated template over the model of BytesSkipDecoder.SkipN, on a fresh decoder over ANY
   bytes b: accepts exactly when the reference parser does and then stands exactly behind the
   value (p.n = its length); otherwise a real error *)
Theorem g_bs_skip_is_ref b t d rfuel fuel :
  wf b -> t < 256 -> (d < rfuel)%nat -> (S (length b) < fuel)%nat -> (Z.of_nat d < 2 ^ 63)%Z ->
  match rp inl_none d t b with
  | Ok (n, _) => g_tskip bs_skipN rfuel fuel (bs_new b) t d = Ok ({| bs_b := b; bs_n := n |}, gnil)
  | Err _ => exists s c, g_tskip bs_skipN rfuel fuel (bs_new b) t d = Ok (s, Some c) /\ c <> e_fuel
  | _ => False
  end.
Proof.
  intros W Ht Hd Hf Hdz.
  assert (HR : bs_rep b (bs_new b) b).
  { unfold bs_rep, bs_new. cbn [bs_b bs_n]. repeat split; try assumption; try lia. }
  pose proof (g_tskip_is_ref bs_state bs_skipN (bs_rep b) (bs_SN_ok b) (bs_SN_fail b) (bs_rep_wf b)
                bs_inv bs_SN_inv bs_SN_wf d rfuel fuel (bs_new b) b t HR W Ht Hd Hf Hdz) as T.
  pose proof (rp_good inl_none d t b) as G.
  destruct (rp inl_none d t b) as [[n h]|e| |]; try contradiction; [|exact T].
  destruct T as [s' [E (Hb & Hle & Hr & _)]]. specialize (G n h eq_refl).
  rewrite E. destruct s' as [sb sn]. cbn [bs_b bs_n] in *. subst sb.
  assert (sn = n). { apply (f_equal len) in Hr. rewrite !len_drop in Hr. lia. }
  subst sn. reflexivity.
Qed.

(* depth budget: the budget of the source (defaultRecursionDepth = 64) *)
Corollary g_bs_skip_depth0 b t rfuel fuel :
  wf b -> t < 256 -> (depth0 < rfuel)%nat -> (S (length b) < fuel)%nat ->
  match rp inl_none depth0 t b with
  | Ok (n, _) => g_tskip bs_skipN rfuel fuel (bs_new b) t depth0 = Ok ({| bs_b := b; bs_n := n |}, gnil)
  | Err _ => exists s c, g_tskip bs_skipN rfuel fuel (bs_new b) t depth0 = Ok (s, Some c) /\ c <> e_fuel
  | _ => False
  end.
Proof. intros W Ht Hd Hf. apply g_bs_skip_is_ref; try assumption. vm_compute. reflexivity. Qed.

(* non-vacuity: struct { 1: i32 = 5; 2: list<string> ["a"] } STOP, then a trailing byte; a
   string with the sign bit set in its length; the depth limit; out of recursion fuel *)
Example g_tskip_nonvacuous :
  let v := [8; 0; 1; 0; 0; 0; 5; 15; 0; 2; 11; 0; 0; 0; 1; 0; 0; 0; 1; 97; 0; 9] in
  g_tskip bs_skipN 65 30 (bs_new v) 12 64 = Ok ({| bs_b := v; bs_n := 21 |}, gnil) /\
  g_tskip bs_skipN 65 30 (bs_new [128; 0; 0; 1; 7]) 11 64 = Ok ({| bs_b := [128; 0; 0; 1; 7]; bs_n := 4 |}, Some e_neg_size) /\
  g_tskip bs_skipN 65 30 (bs_new v) 12 1 = Ok ({| bs_b := v; bs_n := 3 |}, Some e_depth) /\
  g_tskip bs_skipN 1 30 (bs_new v) 12 64 = Err gfuel /\
  g_tskip bs_skipN 65 2 (bs_new v) 12 64 = Err gfuel.
Proof. vm_compute. repeat split. Qed.
