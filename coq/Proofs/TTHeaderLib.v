(* Proofs/TTHeaderLib.v — list/segment lemmas and the characterisation of the index-based
   primitives of Model/TTHeader.v (Bytes2Uint8, Bytes2Uint16, ReadString2BLen) by what they
   see of the suffix [drop off buf]: after these, no proof mentions indices or panics. *)
From GV Require Import Lib.Bytes Lib.Res Gen.Consts Model.TTHeader Spec.FrameLayout.
From Coq Require Import ZifyN ZifyNat ZifyBool.
Open Scope N_scope.

(* ---------- drop / take ---------- *)
Lemma drop_len' {A} n (l : list A) : len (drop n l) = len l - n.
Proof. unfold drop, len. rewrite skipn_length. lia. Qed.

Lemma take_len' {A} n (l : list A) : len (take n l) = N.min n (len l).
Proof. unfold take, len. rewrite firstn_length. lia. Qed.

Lemma len_0_nil {A} (l : list A) : len l = 0 -> l = [].
Proof. destruct l; [reflexivity|]. rewrite len_cons. lia. Qed.

Lemma drop_nil_iff {A} n (l : list A) : drop n l = [] <-> len l <= n.
Proof.
  split; intros H.
  - pose proof (drop_len' n l) as E. rewrite H in E. rewrite len_nil in E. lia.
  - apply len_0_nil. rewrite drop_len'. lia.
Qed.

Lemma nth_error_skipn {A} n (l : list A) : nth_error l n = hd_error (skipn n l).
Proof.
  revert l; induction n as [|n IH]; intros [|x l]; cbn [nth_error skipn hd_error]; auto.
Qed.

Lemma drop_step {A} off (l : list A) x r : drop off l = x :: r -> drop (off + 1) l = r.
Proof.
  intros H. rewrite <- drop_drop, H. reflexivity.
Qed.

Lemma drop_app_step {A} off (l a r : list A) : drop off l = a ++ r -> drop (off + len a) l = r.
Proof. intros H. rewrite <- drop_drop, H. apply drop_app_len. Qed.

Lemma drop_lt_len {A} off (l : list A) x r : drop off l = x :: r -> off < len l.
Proof.
  intros H. pose proof (drop_len' off l) as E. rewrite H, len_cons in E. lia.
Qed.

Lemma drop_len_eq {A} off (l r : list A) : drop off l = r -> off <= len l -> len l = off + len r.
Proof. intros <- H. rewrite drop_len'. lia. Qed.

Lemma take_app_exact {A} n (a b : list A) : len a = n -> take n (a ++ b) = a.
Proof. intros <-. apply take_app_len. Qed.

Lemma take_all {A} n (l : list A) : len l <= n -> take n l = l.
Proof. intros H. unfold take. apply firstn_all2. unfold len in H. lia. Qed.

Lemma drop_all {A} n (l : list A) : len l <= n -> drop n l = [].
Proof. apply drop_nil_iff. Qed.

Lemma wf_app a b : wf (a ++ b) <-> wf a /\ wf b.
Proof. unfold wf. apply Forall_app. Qed.

Lemma wf_drop n l : wf l -> wf (drop n l).
Proof.
  intros H. rewrite <- (take_drop n l) in H. apply wf_app in H. tauto.
Qed.
Lemma wf_take n l : wf l -> wf (take n l).
Proof.
  intros H. rewrite <- (take_drop n l) in H. apply wf_app in H. tauto.
Qed.

Lemma be2_eq x : be 2 x = [(x / 256) mod 256; x mod 256].
Proof. reflexivity. Qed.

Lemma be2_of_bytes a b : a < 256 -> b < 256 -> be 2 (a * 256 + b) = [a; b].
Proof.
  intros Ha Hb. rewrite be2_eq.
  replace ((a * 256 + b) / 256) with a by (apply (N.div_unique _ 256 _ b); lia).
  replace ((a * 256 + b) mod 256) with b by (apply (N.mod_unique _ 256 a b); lia).
  rewrite N.mod_small by lia. reflexivity.
Qed.

Lemma be2_val x : x < 65536 -> exists a b, be 2 x = [a; b] /\ a * 256 + b = x /\ a < 256 /\ b < 256.
Proof.
  intros Hx. exists ((x / 256) mod 256), (x mod 256). rewrite be2_eq.
  assert (x / 256 < 256) by (apply N.div_lt_upper_bound; lia).
  rewrite (N.mod_small (x / 256)) by lia.
  pose proof (N.div_mod x 256 ltac:(lia)). pose proof (N.mod_lt x 256 ltac:(lia)).
  repeat split; try lia.
Qed.

(* ---------- the primitives, by suffix ---------- *)
Lemma b2u8_spec buf off :
  bytes2uint8 buf off =
  match drop off buf with [] => Err e_eof | x :: _ => Ok x end.
Proof.
  unfold bytes2uint8, avail, index.
  destruct (drop off buf) as [|x r] eqn:E.
  - apply drop_nil_iff in E. destruct (Z.ltb_spec (Z.of_N (len buf) - Z.of_N off) 1); [reflexivity|lia].
  - pose proof (drop_lt_len _ _ _ _ E) as Hlt.
    destruct (Z.ltb_spec (Z.of_N (len buf) - Z.of_N off) 1); [lia|].
    rewrite nth_error_skipn. unfold drop in E. rewrite E. reflexivity.
Qed.

Lemma b2u16_spec buf off :
  bytes2uint16 buf off =
  match drop off buf with a :: b :: _ => Ok (a * 256 + b) | _ => Err e_eof end.
Proof.
  unfold bytes2uint16, avail, slice_from.
  pose proof (drop_len' off buf) as E.
  destruct (Z.ltb_spec (Z.of_N (len buf) - Z.of_N off) 2) as [H|H].
  - destruct (drop off buf) as [|a [|b r]]; try reflexivity.
    rewrite !len_cons in E. lia.
  - destruct (N.leb_spec off (len buf)); [|lia]. cbn [bind be_u16].
    destruct (drop off buf) as [|a [|b r]]; try reflexivity;
      rewrite ?len_cons, ?len_nil in E; lia.
Qed.

Lemma read_str2_spec buf off :
  read_str2 buf off =
  match drop off buf with
  | a :: b :: r => if a * 256 + b <=? len r then Ok (take (a * 256 + b) r, a * 256 + b + 2) else Err e_eof
  | _ => Err e_eof
  end.
Proof.
  unfold read_str2. rewrite b2u16_spec.
  destruct (drop off buf) as [|a [|b r]] eqn:E; try reflexivity.
  cbn [bind]. set (n := a * 256 + b).
  assert (E2 : drop (off + 2) buf = r).
  { rewrite <- drop_drop, E. reflexivity. }
  assert (Hoff : off + 2 <= len buf).
  { pose proof (drop_len' off buf) as L. rewrite E, !len_cons in L. lia. }
  pose proof (drop_len' (off + 2) buf) as L2. rewrite E2 in L2.
  unfold avail, slice_range.
  destruct (N.leb_spec n (len r)) as [Hn|Hn].
  - destruct (Z.ltb_spec (Z.of_N (len buf) - Z.of_N (off + 2)) (Z.of_N n)); [lia|].
    destruct (N.leb_spec (off + 2) (off + 2 + n)); [|lia].
    destruct (N.leb_spec (off + 2 + n) (len buf)); [|lia].
    cbn [andb bind]. rewrite E2. replace (off + 2 + n - (off + 2)) with n by lia. reflexivity.
  - destruct (Z.ltb_spec (Z.of_N (len buf) - Z.of_N (off + 2)) (Z.of_N n)); [reflexivity|lia].
Qed.

(* ---------- consequences used by the section lemmas ---------- *)
Lemma read_str2_safe buf off : safe (read_str2 buf off) /\ read_str2 buf off <> Err e_fuel.
Proof.
  rewrite read_str2_spec. destruct (drop off buf) as [|a [|b r]]; cbn; try (split; [exact I|discriminate]).
  destruct (a * 256 + b <=? len r); cbn; (split; [exact I|discriminate]).
Qed.

Lemma read_str2_fwd buf off s r :
  str_ok s -> drop off buf = enc_str s ++ r -> read_str2 buf off = Ok (s, len (enc_str s)).
Proof.
  intros [Hl Hw] E. rewrite read_str2_spec. unfold enc_str in *.
  destruct (be2_val (len s) Hl) as (a & b & Eb & Hab & Ha & Hb).
  rewrite Eb in *. cbn [app] in E. rewrite E. rewrite Hab.
  rewrite len_app. destruct (N.leb_spec (len s) (len s + len r)); [|lia].
  rewrite take_app_len. rewrite (len_app [a; b] s). change (len [a; b]) with 2. f_equal. f_equal. lia.
Qed.

Lemma read_str2_bwd buf off s n :
  wf buf -> read_str2 buf off = Ok (s, n) ->
  str_ok s /\ n = len (enc_str s) /\ drop off buf = enc_str s ++ drop (off + n) buf /\
  off + n <= len buf /\ 2 <= n.
Proof.
  intros Hw. rewrite read_str2_spec.
  destruct (drop off buf) as [|a [|b r]] eqn:E; try discriminate.
  destruct (N.leb_spec (a * 256 + b) (len r)) as [Hn|Hn]; [|discriminate].
  intros H. inversion H; subst s n; clear H.
  pose proof (wf_drop off buf Hw) as Hwd. rewrite E in Hwd.
  inversion Hwd as [|? ? Ha Hwd1]; subst. inversion Hwd1 as [|? ? Hb Hwr]; subst.
  unfold wfb in Ha, Hb.
  set (n := a * 256 + b) in *.
  assert (Hl : len (take n r) = n) by (rewrite take_len'; lia).
  assert (Hoff : off + 2 <= len buf).
  { pose proof (drop_len' off buf) as L. rewrite E, !len_cons in L. lia. }
  assert (E2 : drop (off + 2) buf = r) by (rewrite <- drop_drop, E; reflexivity).
  pose proof (drop_len' (off + 2) buf) as L2. rewrite E2 in L2.
  repeat split.
  - rewrite Hl. unfold n. lia.
  - apply wf_take. exact Hwr.
  - unfold enc_str. rewrite len_app, be_len, Hl. lia.
  - unfold enc_str. rewrite Hl. unfold n at 1. rewrite be2_of_bytes by assumption.
    cbn [app]. f_equal. f_equal.
    replace (off + (n + 2)) with (off + 2 + n) by lia.
    rewrite <- drop_drop, E2. symmetry. apply take_drop.
  - lia.
  - lia.
Qed.

Lemma read_str2_prog buf off s n :
  read_str2 buf off = Ok (s, n) -> off + n <= len buf /\ 2 <= n.
Proof.
  rewrite read_str2_spec.
  destruct (drop off buf) as [|a [|b r]] eqn:E; try discriminate.
  destruct (N.leb_spec (a * 256 + b) (len r)) as [Hn|Hn]; [|discriminate].
  intros H. inversion H; subst s n; clear H.
  pose proof (drop_len' off buf) as L. rewrite E, !len_cons in L. lia.
Qed.
