(* Proofs/GenCorollariesMsg.v — the buffer-codec theorems of C12 (message envelope) restated for the
   GENERATED ReadMessageBegin / AppendMessageBegin / WriteMessageBegin / MessageBeginLength of
   Gen/Funcs.v, by rewriting with the equivalences of Proofs/GenEquiv.v. *)
From GV Require Import Lib.Bytes Lib.Res Lib.GoSem Gen.Consts Gen.Funcs Model.Binary Model.Message Spec.Wire
     Proofs.BinaryP Proofs.MessageP Proofs.GenLib Proofs.GenEquiv.
From Coq Require Import ZifyN ZifyNat ZifyBool.
Open Scope N_scope.

Lemma enc_msg_wf name ty seq : wf name -> wf (enc_msg name ty seq).
Proof.
  intros W. unfold enc_msg, wf. apply Forall_app; split; [apply be_wf|].
  apply Forall_app; split; [apply be_wf|]. apply Forall_app; split; [exact W|apply be_wf].
Qed.

Lemma name_fits (name : bytes) : len name < two31 -> (glen name + 12 < 2 ^ 63)%Z.
Proof. unfold glen, two31. lia. Qed.

Theorem g_msg_append buf name ty seq :
  g_thrift_AppendMessageBegin buf name ty seq = Ok (buf ++ enc_msg name ty seq).
Proof. rewrite g_thrift_AppendMessageBegin_eq. now rewrite a_message_begin_enc_msg. Qed.

Theorem g_msg_length name ty seq :
  len name < two31 -> g_thrift_MessageBeginLength name = Ok (Z.of_N (len (enc_msg name ty seq))).
Proof.
  intros Hn. rewrite g_thrift_MessageBeginLength_eq by (apply name_fits; exact Hn).
  now rewrite (l_message_begin_enc_msg name ty seq).
Qed.

Theorem g_msg_inplace buf name ty seq :
  len name < two31 -> len (enc_msg name ty seq) <= len buf ->
  g_thrift_WriteMessageBegin buf name ty seq =
    Ok (enc_msg name ty seq ++ drop (len (enc_msg name ty seq)) buf, Z.of_N (len (enc_msg name ty seq))).
Proof.
  intros Hn Hfit. rewrite g_thrift_WriteMessageBegin_eq by (apply name_fits; exact Hn).
  now rewrite w_message_begin_enc.
Qed.

(* round trip through the generated reader, for either setting of spanCacheEnable *)
Theorem g_msg_rt_buffer en name ty seq rest :
  len name < two31 -> in_signed 32 seq -> wf name -> wf rest ->
  g_thrift_ReadMessageBegin en (enc_msg name ty seq ++ rest) =
    Ok (name, (ty mod 65536)%Z, seq, Z.of_N (len (enc_msg name ty seq)), gnil).
Proof.
  intros Hn Hs Wn Wr.
  apply (unerr_ok_inv (g_thrift_ReadMessageBegin en (enc_msg name ty seq ++ rest))
                      (name, (ty mod 65536)%Z, seq, Z.of_N (len (enc_msg name ty seq)))).
  rewrite g_thrift_ReadMessageBegin_eq by (apply Forall_app; split; [apply enc_msg_wf; exact Wn|exact Wr]).
  rewrite r_message_begin_enc by assumption. reflexivity.
Qed.

(* strict version check: the generated reader answers with the error value errBadVersion *)
Theorem g_msg_bad_version en buf :
  wf buf -> 4 <= len buf -> N.land (unbe (take 4 buf)) 4294901760 <> 2147549184 ->
  exists x, g_thrift_ReadMessageBegin en buf = Ok (x, Some e_bad_version).
Proof.
  intros W H4 Hv. pose proof (g_thrift_ReadMessageBegin_sim en buf W) as S.
  rewrite r_message_begin_bad_version in S by assumption. exact S.
Qed.

Lemma unerr_safe {A} (g : res (A * gerror)) : safe (unerr g) -> safe g.
Proof. destruct g as [[a [e|]]| | |]; cbn; auto. Qed.

Theorem g_msg_reader_total en b : wf b -> safe (g_thrift_ReadMessageBegin en b).
Proof.
  intros W. apply unerr_safe. rewrite g_thrift_ReadMessageBegin_eq by exact W.
  pose proof (r_message_begin_total b) as H. destruct (r_message_begin b); exact H.
Qed.

Theorem g_msg_reader_bounded en b name ty seq n :
  wf b -> g_thrift_ReadMessageBegin en b = Ok (name, ty, seq, n, gnil) -> (0 <= n <= glen b)%Z.
Proof.
  intros W H. pose proof (g_thrift_ReadMessageBegin_eq en b W) as E. rewrite H in E. cbn [unerr gnil] in E.
  destruct (r_message_begin b) as [[[[nm t] s] n']| | |] eqn:R; cbn [rmap] in E; inversion E; subst.
  apply r_message_begin_bounded in R. unfold glen. lia.
Qed.
