(* Proofs/GenCorollariesFast.v — headline facts of C11 (Properties/C11.v) about FastRead of the
   shipped structs base.Base / base.BaseResp, restated for the definitions REGENERATED FROM THE GO
   SOURCE on every run (Gen/Funcs.v g_base_Base_FastRead / g_base_BaseResp_FastRead, tools/gotrans),
   by rewriting with Proofs/GenEquivFast.v:

     transfer        whatever the hand model returns on ANY bytes (Ok / Err code), the generated
                     FastRead returns: same offset, same fields, the map with the same lookups;
     read_any_order  any list of fields — known ones in any order and multiplicity, unknown ones
                     of every type anywhere — then STOP, then anything: nil error, exactly the
                     fields + STOP consumed, the struct is the receiver with the known fields
                     assigned in order (C11_read_any_order_unknowns_base / _baseresp).

   xs is ANY model of thrift.Binary.Skip that agrees with the hand skipper; every fuel above
   length b + 1; en is the package-level variable spanCacheEnable (either value). *)
From GV Require Import Lib.Bytes Lib.Res Lib.GoSem Gen.Consts Gen.Funcs Model.Binary Spec.Wire Model.Skip Model.Nocopy
     Model.FastCodec Spec.FastSpec Spec.FastRead Proofs.BinaryP Proofs.NocopyLib Proofs.NocopyP Proofs.FastCodecLib
     Proofs.FastCodecP Proofs.GenLib Proofs.GenEquiv Proofs.GenEquivFast.
From Coq Require Import ZifyN ZifyNat ZifyBool.
Open Scope N_scope.

Section Fast.
  Variable xs : bytes -> Z -> res (Z * gerror).
  Hypothesis xs_ok : forall sub t, wf sub -> sim Z.of_N (xs sub t) (skipf sub t).
  Variable en : bool.



  (* ---------- transfer ---------- *)
  Theorem g_base_read_ok fuel b p p' off :
    wf b -> glen_ok b -> (S (length b) < fuel)%nat ->
    base_read (Some p) b = Ok (Some p', off) ->
    exists ex', g_base_Base_FastRead xs fuel en false (b_logid p) (b_caller p) (b_addr p) (b_extra p) b
                = Ok (b_logid p', b_caller p', b_addr p', ex', Z.of_N off, gnil) /\ mequiv ex' (b_extra p').
  Proof.
    intros W Hb Hf E.
    pose proof (g_base_Base_FastRead_sim xs xs_ok en fuel b W Hb Hf (Some p)) as T.
    rewrite E in T. apply T. discriminate.
  Qed.

  Theorem g_base_read_err fuel b p e :
    wf b -> glen_ok b -> (S (length b) < fuel)%nat ->
    base_read (Some p) b = Err e -> e <> e_fuel ->
    exists a1 a2 a3 a4 a5,
      g_base_Base_FastRead xs fuel en false (b_logid p) (b_caller p) (b_addr p) (b_extra p) b = Ok (a1, a2, a3, a4, a5, Some e).
  Proof.
    intros W Hb Hf E He.
    pose proof (g_base_Base_FastRead_sim xs xs_ok en fuel b W Hb Hf (Some p)) as T.
    rewrite E in T. apply T. intros X. inversion X. contradiction.
  Qed.

  Theorem g_baseresp_read_ok fuel b p p' off :
    wf b -> glen_ok b -> (S (length b) < fuel)%nat ->
    baseresp_read (Some p) b = Ok (Some p', off) ->
    exists ex', g_base_BaseResp_FastRead xs fuel en false (r_msg p) (r_code p) (r_extra p) b
                = Ok (r_msg p', r_code p', ex', Z.of_N off, gnil) /\ mequiv ex' (r_extra p').
  Proof.
    intros W Hb Hf E.
    pose proof (g_base_BaseResp_FastRead_sim xs xs_ok en fuel b W Hb Hf (Some p)) as T.
    rewrite E in T. apply T. discriminate.
  Qed.

  Theorem g_baseresp_read_err fuel b p e :
    wf b -> glen_ok b -> (S (length b) < fuel)%nat ->
    baseresp_read (Some p) b = Err e -> e <> e_fuel ->
    exists a1 a2 a3 a4,
      g_base_BaseResp_FastRead xs fuel en false (r_msg p) (r_code p) (r_extra p) b = Ok (a1, a2, a3, a4, Some e).
  Proof.
    intros W Hb Hf E He.
    pose proof (g_base_BaseResp_FastRead_sim xs xs_ok en fuel b W Hb Hf (Some p)) as T.
    rewrite E in T. apply T. intros X. inversion X. contradiction.
  Qed.

  (* a nil receiver: the first known field panics (never a silent success) unless the stream has none *)
  Theorem g_base_read_nil_panics fuel b w :
    wf b -> glen_ok b -> (S (length b) < fuel)%nat ->
    base_read None b = Panic w -> exists w', g_base_Base_FastRead xs fuel en true [] [] [] None b = Panic w'.
  Proof.
    intros W Hb Hf E.
    pose proof (g_base_Base_FastRead_sim xs xs_ok en fuel b W Hb Hf None) as T.
    rewrite E in T. apply T. discriminate.
  Qed.

  (* ---------- read_any_order_unknowns ---------- *)
  Theorem g_base_read_any_order_unknowns (SK : SK_exact_statement) (EW : ENC_wf_statement) fuel p its rest :
    forallb (ritem_ok base_schema) its = true -> wf rest ->
    glen_ok (enc_ritems its ++ rest) -> (S (length (enc_ritems its ++ rest)) < fuel)%nat ->
    let p' := apply_items base_apply p its in
    exists ex', g_base_Base_FastRead xs fuel en false (b_logid p) (b_caller p) (b_addr p) (b_extra p) (enc_ritems its ++ rest)
                = Ok (b_logid p', b_caller p', b_addr p', ex', Z.of_N (len (enc_ritems its)), gnil) /\ mequiv ex' (b_extra p').
  Proof.
    intros H Hr Hb Hf p'. apply g_base_read_ok; try assumption.
    - apply (wf_enc_ritems EW base_schema its rest H Hr).
    - apply (base_read_any_order_unknowns SK EW p its rest H Hr).
  Qed.

  Theorem g_baseresp_read_any_order_unknowns (SK : SK_exact_statement) (EW : ENC_wf_statement) fuel p its rest :
    forallb (ritem_ok baseresp_schema) its = true -> wf rest ->
    glen_ok (enc_ritems its ++ rest) -> (S (length (enc_ritems its ++ rest)) < fuel)%nat ->
    let p' := apply_items baseresp_apply p its in
    exists ex', g_base_BaseResp_FastRead xs fuel en false (r_msg p) (r_code p) (r_extra p) (enc_ritems its ++ rest)
                = Ok (r_msg p', r_code p', ex', Z.of_N (len (enc_ritems its)), gnil) /\ mequiv ex' (r_extra p').
  Proof.
    intros H Hr Hb Hf p'. apply g_baseresp_read_ok; try assumption.
    - apply (wf_enc_ritems EW baseresp_schema its rest H Hr).
    - apply (baseresp_read_any_order_unknowns SK EW p its rest H Hr).
  Qed.
End Fast.

(* the model of thrift.Binary.Skip made from the hand skipper (the length returned beside an error
   is not modelled: 0), and non-vacuity: a frame with a known string, the map, an unknown i32 *)
Definition xskip (sub : bytes) (t : Z) : res (Z * gerror) :=
  match skipf sub t with
  | Ok n => Ok (Z.of_N n, gnil)
  | Err e => Ok (0%Z, Some e)
  | Panic w => Panic w
  | OOB => OOB
  end.

Lemma xskip_ok sub t : wf sub -> sim Z.of_N (xskip sub t) (skipf sub t).
Proof. intros _. unfold xskip. destruct (skipf sub t); cbn [sim]; try reflexivity. eexists; reflexivity. Qed.

Example g_fastread_nonvacuous :
  let fr := [11; 0; 1; 0; 0; 0; 2; 97; 98;  13; 0; 6; 11; 11; 0; 0; 0; 1; 0; 0; 0; 1; 107; 0; 0; 0; 1; 118;
             8; 0; 9; 0; 0; 0; 5;  0; 77] in
  g_base_Base_FastRead xskip 60 true false [] [1] [2] None fr
  = Ok ([97; 98], [1], [2], Some [([107], [118])], 36%Z, gnil) /\
  (exists w, g_base_Base_FastRead xskip 60 true true [] [] [] None fr = Panic w) /\
  g_base_Base_FastRead xskip 60 true false [] [] [] None [11; 0; 1; 0; 0; 0; 9; 97]
  = Ok ([], [], [], None, 7%Z, Some (lbl_field + e_read_str)%Z) /\
  g_base_Base_FastRead xskip 60 true false [] [] [] None [11; 0]
  = Ok ([], [], [], None, 0%Z, Some (lbl_begin + e_read_field)%Z) /\
  g_base_BaseResp_FastRead xskip 60 false false [] 0%Z None [8; 0; 2; 255; 255; 255; 254; 0]
  = Ok ([], (-2)%Z, None, 8%Z, gnil) /\
  g_base_Base_FastRead xskip 3 true false [] [] [] None fr = Err gfuel.
Proof. vm_compute. repeat split. eexists; reflexivity. Qed.
