(* Proofs/GenCorollariesTTHEnc.v — headline theorems of C06 (Properties/C06.v: C06_enc_fail_iff_nowrap,
   C06_enc_layout, C06_roundtrip) restated for the TTHeader encoder REGENERATED FROM THE GO SOURCE on
   every run (Gen/Funcs.v g_ttheader_Encode with writeKVInfo and the write helpers of utils.go,
   tools/gotrans phase 3), by rewriting with Proofs/GenEquivTTHEnc.v.

   Reading guide.  The two maps of EncodeParam are ANY Go maps [ms] / [mi] (GoSem.gmap); the two
   range statements of writeKVInfo enumerate them in ANY orders [os] / [oi] with gmap_order_ok
   (each key exactly once).  The writer is the hand model's: the bytes appended so far ([st0] on
   entry, anything), Malloc hands out [dirt st n] (arbitrary content, an oracle), WriteBinary
   appends, stores through Malloc'ed windows overwrite in place.  Encode returns the window
   (|st0|, 4) of the total-length field, which it never writes.  [gparam] is the hand model's
   parameter record with the maps in the order of the oracles. *)
From GV Require Import Lib.Bytes Lib.Res Lib.GoSem Gen.Consts Gen.Funcs Model.TTHeader Spec.FrameLayout
     Proofs.TTHeaderP Proofs.GenLib Proofs.GenLib3 Proofs.GenEquivTTHEnc.
From Coq Require Import ZifyN ZifyNat ZifyBool Permutation.
Open Scope N_scope.

Definition gparam (fl sq pid : Z) (mi : gmap Z bytes) (ms : gmap bytes bytes) (os : list bytes) (oi : list Z) : eparam :=
  {| p_flags := Z.to_N fl; p_seq := sq; p_pid := Z.to_N pid; p_int := int_entries mi oi; p_str := str_entries ms os |}.

Lemma keys_str_entries ms os : keys (str_entries ms os) = os.
Proof. unfold keys, str_entries, ordered_entries. rewrite map_map. cbn [fst]. apply map_id. Qed.

Lemma keys_int_entries mi oi : keys (int_entries mi oi) = map Z.to_N oi.
Proof. unfold keys, int_entries. rewrite map_map. cbn [fst]. reflexivity. Qed.

Section EncCor.
  Variable dirt : bytes -> Z -> bytes.
  Hypothesis dirt_len : forall st n, (0 <= n)%Z -> glen (dirt st n) = n.
  Hypothesis dirt_wf : forall st n, wf (dirt st n).

  Notation genc := (g_ttheader_Encode bytes (xmalloc dirt) xwb xpoke).

  Section Params.
    Variables (fuel : nat) (fl sq pid : Z) (mi : gmap Z bytes) (ms : gmap bytes bytes) (st0 : bytes) (os : list bytes) (oi : list Z).
    Hypothesis Hfl : (0 <= fl < 65536)%Z.
    Hypothesis Hpid : (0 <= pid < 256)%Z.
    Hypothesis Hos : gmap_order_ok ms os.
    Hypothesis Hoi : gmap_order_ok mi oi.
    Hypothesis Hk : forall k, In k oi -> (0 <= k < 65536)%Z.
    Hypothesis Hf : (4 < fuel)%nat.
    Hypothesis Hlo : (Z.of_nat (length os) < 2 ^ 62)%Z.
    Hypothesis Hli : (Z.of_nat (length oi) < 2 ^ 62)%Z.
    Let p := gparam fl sq pid mi ms os oi.
    Hypothesis Hnw : info_size (p_int p) (p_str p) < two32.
    Let tl := unbe (take 4 (dirt st0 14)).

    Lemma gparam_nodup : NoDup (keys (p_str p)).
    Proof. unfold p, gparam. cbn [p_str]. rewrite keys_str_entries. apply Hos. Qed.

    (* ---------- transfer ---------- *)
    Lemma genc_sim : enc_sim st0 (genc fuel fl sq pid mi ms st0 os oi) (encode tl p).
    Proof.
      apply (Encode_sim dirt dirt_len fuel fl sq pid mi ms st0 os oi Hfl Hpid Hos Hoi Hk Hf Hlo Hli (dirt_wf st0 14)).
      fold (gparam fl sq pid mi ms os oi). fold p.
      rewrite (write_kv_info_spec _ _ gparam_nodup). cbn [snd]. unfold two32 in Hnw. lia.
    Qed.

    Theorem g_encode_ok b : encode tl p = Ok b -> genc fuel fl sq pid mi ms st0 os oi = Ok (st0 ++ b, (glen st0, 4%Z), gnil).
    Proof. intros E. pose proof genc_sim as S. rewrite E in S. exact S. Qed.

    Theorem g_encode_err e : encode tl p = Err e -> exists st', genc fuel fl sq pid mi ms st0 os oi = Ok (st', gregion_nil, Some e).
    Proof. intros E. pose proof genc_sim as S. rewrite E in S. exact S. Qed.

    (* ---------- C06_enc_fail_iff_nowrap: Encode reports an error exactly when the header info exceeds 65536 bytes ---------- *)
    Theorem g_C06_enc_fail_iff_nowrap :
      (L_max < info_size (p_int p) (p_str p) ->
       exists st', genc fuel fl sq pid mi ms st0 os oi = Ok (st', gregion_nil, Some e_toolarge)) /\
      (info_size (p_int p) (p_str p) <= L_max ->
       exists b, genc fuel fl sq pid mi ms st0 os oi = Ok (st0 ++ b, (glen st0, 4%Z), gnil) /\ encode tl p = Ok b).
    Proof.
      pose proof (encode_spec tl p gparam_nodup) as ES.
      split; intros H.
      - destruct (N.ltb_spec L_max (info_size (p_int p) (p_str p))) as [_|H']; [|lia]. apply g_encode_err. exact ES.
      - destruct (N.ltb_spec L_max (info_size (p_int p) (p_str p))) as [H'|_]; [lia|].
        eexists. split; [apply g_encode_ok; exact ES|exact ES].
    Qed.

    (* ---------- C06_enc_layout: a produced header follows the documented layout ---------- *)
    Theorem g_C06_enc_layout b :
      params_wf p -> encode tl p = Ok b ->
      genc fuel fl sq pid mi ms st0 os oi = Ok (st0 ++ b, (glen st0, 4%Z), gnil) /\
      frame (Z.to_N fl) sq (Z.to_N pid) (p_int p) (p_str p) b /\
      len b = L_meta + 4 * field_at b 12 2 /\ len b = L_meta + info_size (p_int p) (p_str p) /\
      info_size (p_int p) (p_str p) <= L_max.
    Proof.
      intros Hwf E. split; [apply g_encode_ok; exact E|].
      exact (enc_layout tl p b gparam_nodup Hwf Hnw E).
    Qed.

    (* ---------- C06_roundtrip: what the regenerated Encode appended (with any payload after it and the
       total-length field set by the caller) decodes to its parameters, whatever orders [os], [oi] the
       range statements used: the decoded maps are those of the reference orders [os0], [oi0] ---------- *)
    Theorem g_C06_roundtrip os0 oi0 b payload :
      gmap_order_ok ms os0 -> gmap_order_ok mi oi0 -> NoDup (map Z.to_N oi0) ->
      params_wf p -> In (Z.to_N pid) L_pids ->
      encode tl p = Ok b -> len b + len payload - 4 < two32 ->
      genc fuel fl sq pid mi ms st0 os oi = Ok (st0 ++ b, (glen st0, 4%Z), gnil) /\
      exists r, decode (set_total b (len b + len payload - 4) ++ payload) = (len b, Ok r) /\
                d_flags r = Z.to_N fl /\ d_seq r = sq /\ d_pid r = Z.to_N pid /\
                map_back N.eqb (d_int r) (int_entries mi oi0) /\ map_back beqb (d_str r) (str_entries ms os0) /\
                d_hlen r = Z.of_N (len b) /\ d_plen r = Z.of_N (len payload).
    Proof.
      intros Hos0 Hoi0 Hnd Hwf Hp E HT. split; [apply g_encode_ok; exact E|].
      apply (roundtrip (Z.to_N fl) sq (Z.to_N pid) (int_entries mi oi0) (str_entries ms os0)
                       (int_entries mi oi) (str_entries ms os) tl b payload).
      - unfold int_entries. apply Permutation_map. apply (gmap_orders_perm mi oi oi0 Hoi Hoi0).
      - unfold str_entries, ordered_entries. apply Permutation_map. apply (gmap_orders_perm ms os os0 Hos Hos0).
      - rewrite keys_int_entries. exact Hnd.
      - rewrite keys_str_entries. apply Hos0.
      - exact Hwf.
      - exact Hp.
      - exact Hnw.
      - exact E.
      - exact HT.
    Qed.
  End Params.
End EncCor.

(* ---------- non-vacuity: a writer that already holds 3 bytes, dirty memory 0xEE, the ACL token, one
   string pair (a re-assigned key), two int keys enumerated in the order 9, 1 ---------- *)
Example g_encode_nonvacuous :
  let dirt := fun (_ : bytes) (n : Z) => repeat 238 (Z.to_nat n) in
  let ms : gmap bytes bytes := Some [([107], [118; 118]); (gdpr_key, [116]); ([107], [0])] in
  let mi : gmap Z bytes := Some [(1%Z, [97]); (9%Z, [])] in
  g_ttheader_Encode bytes (xmalloc dirt) xwb xpoke 10 2%Z 7%Z 0%Z mi ms [1; 2; 3] [[107]; gdpr_key] [9%Z; 1%Z]
  = Ok ([1; 2; 3] ++ [238; 238; 238; 238; 16; 0; 0; 2; 0; 0; 0; 7; 0; 7;  0; 0;  17; 0; 1; 116;  1; 0; 1; 0; 1; 107; 0; 2; 118; 118;
                      16; 0; 2; 0; 9; 0; 0; 0; 1; 0; 1; 97], (3%Z, 4%Z), gnil) /\
  rmap (fun r => (snd (fst r), snd r))
       (g_ttheader_Encode bytes (xmalloc dirt) xwb xpoke 10 2%Z 7%Z 0%Z None (Some [([1], repeat 0 (N.to_nat 65530))]) [] [[1]] [])
  = Ok (gregion_nil, Some e_toolarge) /\
  g_ttheader_Encode bytes (xmalloc dirt) xwb xpoke 2 2%Z 7%Z 0%Z None None [] [] [] = Err gfuel.
Proof. split; [vm_compute; reflexivity|]. split; vm_compute; reflexivity. Qed.
