(* Proofs/SkipDecodersP.v — the generic skip template [tskip] against the reference parser
   [rp inl_none], over an abstract SkipN that satisfies the contract
      Rep s r  :  "state s will deliver exactly the bytes r next"
      SN_ok    :  a request that fits returns those bytes and advances
      SN_fail  :  a request that does not fit fails with a real error
   and the contract discharged for the three decoders (bytes: here; peek / readfull: below).

   Agreement is exact for inputs of any length (since the repair 2c7f196 the STRING length is read
   as int32 like the container counts; before it, a length with the sign bit set was accepted
   when >= 2^31 bytes followed). *)
From GV Require Import Lib.Bytes Lib.Res Gen.Consts Model.Binary Model.BufReader Model.Skip Model.SkipDecoders
  Spec.ThriftGrammar Spec.RefParse Proofs.RefLib Proofs.RefP Proofs.SkipLib.
From Coq Require Import ZifyN ZifyNat ZifyBool Lia.
Open Scope N_scope.

(* ---------- header decoding shared by the template and BufferReader ---------- *)
Lemma firstn4_take4 (r : bytes) : firstn 4 (take 4 r) = take 4 r.
Proof. unfold take. change (N.to_nat 4) with 4%nat. rewrite firstn_firstn. reflexivity. Qed.

Lemma be_u32_take r : 4 <= len r -> be_u32 (take 4 r) = Ok (unbe (take 4 r)).
Proof.
  intros H. unfold be_u32. rewrite take_len by exact H.
  destruct (N.ltb_spec 4 4); [lia|]. rewrite firstn4_take4. reflexivity.
Qed.
Lemma be_u16_take r : 2 <= len r -> exists x, be_u16 (take 2 r) = Ok x.
Proof.
  intros H. unfold be_u16. rewrite take_len by exact H.
  destruct (N.ltb_spec 2 2); [lia|]. eauto.
Qed.

Lemma take6 (kt vt : N) r2 : take 6 (kt :: vt :: r2) = kt :: vt :: take 4 r2.
Proof. reflexivity. Qed.
Lemma take5 (et : N) r1 : take 5 (et :: r1) = et :: take 4 r1.
Proof. reflexivity. Qed.

Lemma hdr_map kt vt r2 : 4 <= len r2 ->
  (do k <- index (take 6 (kt :: vt :: r2)) 0; do v <- index (take 6 (kt :: vt :: r2)) 1;
   do b2 <- slice_from (take 6 (kt :: vt :: r2)) 2; do u <- be_u32 b2; Ok (k, v, u))
  = Ok (kt, vt, unbe (take 4 r2)).
Proof.
  intros H. rewrite take6.
  unfold index. cbn [N.to_nat nth_error bind]. change (Pos.to_nat 1) with 1%nat. cbn [nth_error bind].
  unfold slice_from. rewrite !len_cons, take_len by exact H.
  destruct (N.leb_spec 2 (1 + (1 + 4))); [|lia]. cbn [bind].
  change (drop 2 (kt :: vt :: take 4 r2)) with (take 4 r2).
  rewrite be_u32_take by exact H. reflexivity.
Qed.
Lemma hdr_list et r1 : 4 <= len r1 ->
  (do v <- index (take 5 (et :: r1)) 0; do b1 <- slice_from (take 5 (et :: r1)) 1; do u <- be_u32 b1; Ok (v, u))
  = Ok (et, unbe (take 4 r1)).
Proof.
  intros H. rewrite take5.
  unfold index. cbn [N.to_nat nth_error bind].
  unfold slice_from. rewrite !len_cons, take_len by exact H.
  destruct (N.leb_spec 1 (1 + 4)); [|lia]. cbn [bind].
  change (drop 1 (et :: take 4 r1)) with (take 4 r1).
  rewrite be_u32_take by exact H. reflexivity.
Qed.

Lemma ldrop2 {A} k (x y : A) r : (length (drop k r) < S (length (x :: y :: r)))%nat.
Proof. unfold drop. rewrite skipn_length. cbn [length]. lia. Qed.
Lemma ldrop1 {A} k (x : A) r : (length (drop k r) < S (length (x :: r)))%nat.
Proof. unfold drop. rewrite skipn_length. cbn [length]. lia. Qed.

Lemma member_ff rec t r : member false false rec t r = rec t r.
Proof. reflexivity. Qed.

(* the inputs we talk about: shorter than the loop fuel *)
Definition P (fu : nat) (r : bytes) : Prop := (length r < fu)%nat.
Lemma P_drop fu r n : P fu r -> P fu (drop n r).
Proof. unfold P. intros H. unfold drop. rewrite skipn_length. lia. Qed.

Section Gen.
  Variable St : Type.
  Variable Rep : St -> bytes -> Prop.

  Definition tsim (x : sres St unit) (r : bytes) (y : pres) : Prop :=
    match y with
    | Ok (n, _) => exists s', x = (s', Ok tt) /\ Rep s' (drop n r)
    | Err _ => exists s' c, x = (s', Err c) /\ c <> e_fuel
    | _ => False
    end.

  Variable fu : nat.
  Notation P := (P fu).
  Notation P_drop := (P_drop fu).

  (* ---------- counted loop ---------- *)
  Section Loop.
    Variables (body : St -> sres St unit) (eR : bytes -> pres).
    Hypothesis HB : forall s r, Rep s r -> P r -> tsim (body s) r (eR r).
    Hypothesis GE : good eR.

    Lemma t_loop_sim : forall fuel1 fuel2 cnt s r,
      Rep s r -> P r -> (length r < fuel1)%nat -> (length r < fuel2)%nat ->
      tsim (t_loop body fuel1 cnt s) r (gelems fuel2 eR cnt r).
    Proof.
      induction fuel1 as [|f IH]; intros fuel2 cnt s r HR HP Hf1 Hf2; [lia|].
      destruct fuel2 as [|f2]; [lia|]. cbn [t_loop gelems].
      destruct (N.eqb_spec cnt 0) as [->|Hc]. { cbn. exists s. split; [reflexivity|exact HR]. }
      specialize (HB s r HR HP). unfold tsim in HB.
      destruct (eR r) as [[n h]|er| |] eqn:ER; try contradiction; cbn [bind].
      - destruct HB as [s' [Eb HR']]. rewrite Eb. cbn [sbind].
        pose proof (GE _ _ _ ER) as Gb.
        assert (Hd : (length (drop n r) < length r)%nat).
        { apply length_drop_lt; [lia|]. intros ->. change (len (@nil N)) with 0 in Gb. lia. }
        rewrite N.pred_sub.
        specialize (IH f2 (cnt - 1) s' (drop n r) HR' (P_drop r n HP) ltac:(lia) ltac:(lia)).
        unfold tsim in *.
        destruct (gelems f2 eR (cnt - 1) (drop n r)) as [[m hm]|er| |]; try contradiction; cbn [bind].
        + destruct IH as [s'' [E2 HR'']]. exists s''. split; [exact E2|].
          rewrite drop_plus in HR''. exact HR''.
        + exact IH.
      - destruct HB as [s' [c [Eb Hc']]]. rewrite Eb. cbn [sbind]. exists s', c. split; [reflexivity|exact Hc'].
    Qed.
  End Loop.

  (* ---------- key then value ---------- *)
  Lemma pair_sim (f1 f2 : St -> sres St unit) (e1 e2 : bytes -> pres) :
    (forall s r, Rep s r -> P r -> tsim (f1 s) r (e1 r)) ->
    (forall s r, Rep s r -> P r -> tsim (f2 s) r (e2 r)) ->
    forall s r, Rep s r -> P r ->
      tsim (sbind (f1 s) (fun s' _ => f2 s')) r (gpair e1 e2 r).
  Proof.
    intros H1 H2 s r HR HP. unfold gpair. specialize (H1 s r HR HP). unfold tsim in H1.
    destruct (e1 r) as [[n h]|er| |]; try contradiction; cbn [bind].
    - destruct H1 as [s' [E1 HR']]. rewrite E1. cbn [sbind].
      specialize (H2 s' (drop n r) HR' (P_drop r n HP)). unfold tsim in *.
      destruct (e2 (drop n r)) as [[m hm]|er| |]; try contradiction; cbn [bind].
      + destruct H2 as [s'' [E2 HR'']]. exists s''. split; [exact E2|]. rewrite drop_plus in HR''. exact HR''.
      + exact H2.
    - destruct H1 as [s' [c [E1 Hc]]]. rewrite E1. cbn [sbind]. exists s', c. split; [reflexivity|exact Hc].
  Qed.

  Lemma tsim_shift x r k (y : pres) :
    tsim x (drop k r) y -> tsim x r (do (n, h) <- y; Ok (k + n, S h)).
  Proof.
    unfold tsim. destruct y as [[n h]|er| |]; cbn [bind]; try tauto.
    intros [s' [E HR]]. exists s'. split; [exact E|]. rewrite drop_plus in HR. exact HR.
  Qed.
  Lemma tsim_top x r (y : pres) :
    tsim x r y -> tsim x r (do (n, h) <- y; Ok (n, S h)).
  Proof. unfold tsim. destruct y as [[n h]|er| |]; cbn [bind]; tauto. Qed.

End Gen.

Lemma member_fixed_ext' st rec t w : kind_of t = KFixed w -> forall r, member true st rec t r = fixedp w r.
Proof.
  intros K r. unfold member, is_fixed. rewrite K. cbn [andb orb]. apply leaf_fixed, K.
Qed.


Section Tpl.
  Variable St : Type.
  Variable skipN : St -> N -> sres St bytes.
  Variable Rep : St -> bytes -> Prop.
  Hypothesis SN_ok : forall s r n, Rep s r -> n <= len r ->
    exists s', skipN s n = (s', Ok (take n r)) /\ Rep s' (drop n r).
  Hypothesis SN_fail : forall s r n, Rep s r -> len r < n ->
    exists s' c, skipN s n = (s', Err c) /\ c <> e_fuel.
  Hypothesis Rep_wf : forall s r, Rep s r -> wf r.

  Notation tsim := (tsim St Rep).
  Variable fu : nat.
  Notation P := (P fu).
  Notation P_drop := (P_drop fu).
  Notation t_loop_sim := (t_loop_sim St Rep fu).
  Notation pair_sim := (pair_sim St Rep fu).
  Notation tsim_shift := (tsim_shift St Rep).
  Notation tsim_top := (tsim_top St Rep).

  (* ---------- struct loop ---------- *)
  Section StructLoop.
    Variables (fld : St -> N -> sres St unit) (eR : N -> bytes -> pres).
    Hypothesis HF : forall ft s r, ft < 256 -> Rep s r -> P r -> tsim (fld s ft) r (eR ft r).

    Lemma t_struct_loop_sim : forall fuel1 fuel2 s r,
      Rep s r -> P r -> (length r < fuel1)%nat -> (length r < fuel2)%nat ->
      tsim (t_struct_loop skipN fld fuel1 s) r (gfields fuel2 eR r).
    Proof.
      induction fuel1 as [|f IH]; intros fuel2 s r HR HP Hf1 Hf2; [slia|].
      destruct fuel2 as [|f2]; [slia|]. cbn [t_struct_loop gfields].
      destruct r as [|ft r1].
      { destruct (SN_fail s [] 1 HR ltac:(change (len (@nil N)) with 0; slia)) as [s' [c [E Hc]]].
        rewrite E. cbn. exists s', c. split; [reflexivity|exact Hc]. }
      pose proof (Rep_wf _ _ HR) as W. apply wf_cons in W as [Hft W1].
      destruct (SN_ok s (ft :: r1) 1 HR ltac:(rewrite len_cons; slia)) as [s1 [E1 HR1]].
      rewrite E1. cbn [sbind]. change (take 1 (ft :: r1)) with [ft]. change (drop 1 (ft :: r1)) with r1 in HR1.
      unfold sret at 1. cbn [sbind index N.to_nat nth_error].
      destruct (is_ty_ok ft Hft) as (_&_&_&_&_&Hstop). rewrite Hstop.
      destruct (ft =? T_STOP).
      { cbn. exists s1. split; [reflexivity|exact HR1]. }
      assert (HP1 : P r1) by (apply (P_drop (ft :: r1) 1 HP)).
      rewrite hasn_le. destruct (N.leb_spec 2 (len r1)) as [H2|H2].
      2:{ destruct (SN_fail s1 r1 2 HR1 H2) as [s' [c [E Hc]]]. rewrite E. cbn. exists s', c. split; [reflexivity|exact Hc]. }
      destruct (SN_ok s1 r1 2 HR1 H2) as [s2 [E2 HR2]]. rewrite E2. cbn [sbind].
      specialize (HF ft s2 (drop 2 r1) Hft HR2 (P_drop r1 2 HP1)). unfold tsim in HF.
      destruct (eR ft (drop 2 r1)) as [[n h]|er| |]; try contradiction; cbn [bind].
      - destruct HF as [s3 [E3 HR3]]. rewrite E3. cbn [sbind].
        assert (Hl : (length (drop n (drop 2 r1)) < length (ft :: r1))%nat).
        { unfold drop. rewrite !skipn_length. cbn [length]. slia. }
        specialize (IH f2 s3 (drop n (drop 2 r1)) HR3 (P_drop _ n (P_drop r1 2 HP1)) ltac:(slia) ltac:(slia)).
        unfold tsim in *.
        destruct (gfields f2 eR (drop n (drop 2 r1))) as [[m hm]|er| |]; try contradiction; cbn [bind].
        + destruct IH as [s4 [E4 HR4]]. exists s4. split; [exact E4|].
          rewrite !drop_plus in HR4. replace (3 + n + m) with (1 + (2 + (n + m))) by slia.
          rewrite drop_cons_succ. exact HR4.
        + exact IH.
      - destruct HF as [s3 [c [E3 Hc]]]. rewrite E3. cbn [sbind]. exists s3, c. split; [reflexivity|exact Hc].
    Qed.
  End StructLoop.

  (* ---------- the template ---------- *)
  Lemma skip_exact s r w h : Rep s r ->
    tsim (sbind (skipN s w) (fun s' _ => (s', Ok tt))) r (if hasn r w then Ok (w, h) else Err E_TRUNC).
  Proof.
    intros HR. rewrite hasn_le. destruct (N.leb_spec w (len r)) as [H|H].
    - destruct (SN_ok s r w HR H) as [s' [E HR']]. rewrite E. cbn. exists s'. split; [reflexivity|exact HR'].
    - destruct (SN_fail s r w HR H) as [s' [c [E Hc]]]. rewrite E. cbn. exists s', c. split; [reflexivity|exact Hc].
  Qed.

  Lemma tskip_sim : forall d s r t, Rep s r -> t < 256 -> P r ->
    tsim (tskip skipN d fu s t) r (rp inl_none d t r).
  Proof.
    induction d as [|d IH]; intros s r t HR Ht HP.
    { cbn. exists s, e_depth. split; [reflexivity|discriminate]. }
    assert (Hlen : (length r < fu)%nat) by apply HP.
    rewrite rp_S. cbn [tskip]. rewrite (tts_ok STpl t Ht). unfold sret at 1. cbn [sbind].
    rewrite fixed_width_pos.
    destruct (is_ty_ok t Ht) as (Hs&Hm&_&Hl&Hst&_). rewrite Hs, Hst, Hm, Hl. clear Hs Hst Hm Hl.
    unfold lvl, is_fixed, is_str, is_map, is_list, is_struct, fixed_width.
    destruct (kind_of t) eqn:K; cbv beta iota.
    - rewrite N2Z.id. apply skip_exact; exact HR.
    - (* string *)
      unfold gstring. rewrite hasn_le. destruct (N.leb_spec 4 (len r)) as [H4|H4].
      2:{ destruct (SN_fail s r 4 HR H4) as [s' [c [E Hc]]]. rewrite E. cbn. exists s', c. split; [reflexivity|exact Hc]. }
      destruct (SN_ok s r 4 HR H4) as [s1 [E1 HR1]]. rewrite E1. cbn [sbind].
      rewrite be_u32_take by exact H4. unfold sret at 1. cbn [sbind].
      pose proof (unbe4_lt r (Rep_wf _ _ HR)) as Hu. set (u := unbe (take 4 r)) in *.
      cbv zeta. rewrite i32_neg by exact Hu.
      destruct (N.leb_spec two31 u) as [Hneg|Hpos].
      { cbn. exists s1, e_neg_size. split; [reflexivity|discriminate]. }
      rewrite i32_small by exact Hpos. rewrite N2Z.id.
      rewrite hasn_le. destruct (N.leb_spec u (len (drop 4 r))) as [Hle|Hle].
      + destruct (SN_ok s1 (drop 4 r) u HR1 Hle) as [s2 [E2 HR2]]. rewrite E2. cbn.
        exists s2. split; [reflexivity|]. rewrite drop_plus in HR2. exact HR2.
      + destruct (SN_fail s1 (drop 4 r) u HR1 Hle) as [s' [c [E Hc]]]. rewrite E. cbn.
        exists s', c. split; [reflexivity|exact Hc].
    - (* struct *)
      apply tsim_top. apply t_struct_loop_sim; try assumption; [|slia].
      intros ft s0 r0 Hft HR0 HP0. change (rp_es inl_none (rp inl_none d) ft r0) with (rp inl_none d ft r0).
      apply IH; assumption.
    - (* map *)
      assert (Hfail : len r < 6 -> forall y, tsim (sbind (skipN s 6) y) r (Err E_TRUNC)).
      { intros H6 y. destruct (SN_fail s r 6 HR H6) as [s' [c [E Hc]]]. rewrite E. cbn.
        exists s', c. split; [reflexivity|exact Hc]. }
      destruct r as [|kt [|vt r2]]; try (apply Hfail; rewrite ?len_cons; change (len (@nil N)) with 0; slia).
      rewrite hasn_le. destruct (N.leb_spec 4 (len r2)) as [H4|H4].
      2:{ apply Hfail. rewrite !len_cons. slia. }
      clear Hfail.
      pose proof (Rep_wf _ _ HR) as W. apply wf_cons in W as [Hkt W]. apply wf_cons in W as [Hvt W2].
      destruct (SN_ok s (kt :: vt :: r2) 6 HR ltac:(rewrite !len_cons; slia)) as [s1 [E1 HR1]].
      rewrite E1. cbn [sbind]. rewrite (hdr_map kt vt r2 H4). unfold sret at 1. cbn [sbind]. cbv zeta.
      change (drop 6 (kt :: vt :: r2)) with (drop 4 r2) in HR1.
      assert (HP1 : P (drop 4 r2)) by (apply (P_drop (kt :: vt :: r2) 6 HP)).
      pose proof (unbe4_lt r2 W2) as Hu. set (u := unbe (take 4 r2)) in *.
      rewrite i32_neg by exact Hu.
      destruct (N.leb_spec two31 u) as [Hneg|Hpos].
      { cbn. exists s1, e_neg_size. split; [reflexivity|discriminate]. }
      rewrite i32_small by exact Hpos.
      rewrite (tts_ok STpl kt Hkt), (tts_ok STpl vt Hvt). unfold sret. cbn [sbind].
      rewrite !fixed_width_pos.
      unfold rp_em, rp_m. cbn [inl_none in_map_fixed in_map_str]. rewrite Bool.orb_false_r.
      apply (tsim_shift _ (kt :: vt :: r2) 6). change (drop 6 (kt :: vt :: r2)) with (drop 4 r2).
      destruct (is_fixed kt && is_fixed vt) eqn:FF.
      + apply andb_true_iff in FF as [Fk Fv]. unfold is_fixed in Fk, Fv.
        destruct (kind_of kt) as [kw| | | | |] eqn:Kk; try discriminate.
        destruct (kind_of vt) as [vw| | | | |] eqn:Kv; try discriminate.
        unfold fixed_width. rewrite Kk, Kv.
        rewrite (gelems_ext _ _ (fixedp (kw + vw))).
        2:{ intros r. rewrite <- gpair_fixed. apply gpair_ext; apply member_fixed_ext'; assumption. }
        pose proof (kind_fixed_pos _ _ Kk) as Hkw. pose proof (kind_fixed_pos _ _ Kv) as Hvw.
        rewrite gelems_fixed; [|clear - Hkw Hvw; slia|apply ldrop2].
        rewrite <- N2Z.inj_add, <- N2Z.inj_mul, N2Z.id.
        apply skip_exact. exact HR1.
      + rewrite N2Z.id.
        apply (t_loop_sim (fun s' => sbind (tskip skipN d fu s' kt) (fun s'' _ => tskip skipN d fu s'' vt))
                          (gpair (rp inl_none d kt) (rp inl_none d vt))); try assumption.
        * apply pair_sim; intros s0 r0 HR0 HP0; apply IH; assumption.
        * apply gpair_good; apply rp_good.
        * apply ldrop2.
    - (* list / set *)
      assert (Hfail : len r < 5 -> forall y, tsim (sbind (skipN s 5) y) r (Err E_TRUNC)).
      { intros H5 y. destruct (SN_fail s r 5 HR H5) as [s' [c [E Hc]]]. rewrite E. cbn.
        exists s', c. split; [reflexivity|exact Hc]. }
      destruct r as [|et r1]; try (apply Hfail; change (len (@nil N)) with 0; slia).
      rewrite hasn_le. destruct (N.leb_spec 4 (len r1)) as [H4|H4].
      2:{ apply Hfail. rewrite !len_cons. slia. }
      clear Hfail.
      pose proof (Rep_wf _ _ HR) as W. apply wf_cons in W as [Het W1].
      destruct (SN_ok s (et :: r1) 5 HR ltac:(rewrite !len_cons; slia)) as [s1 [E1 HR1]].
      rewrite E1. cbn [sbind]. rewrite (hdr_list et r1 H4). unfold sret at 1. cbn [sbind]. cbv zeta.
      change (drop 5 (et :: r1)) with (drop 4 r1) in HR1.
      assert (HP1 : P (drop 4 r1)) by (apply (P_drop (et :: r1) 5 HP)).
      pose proof (unbe4_lt r1 W1) as Hu. set (u := unbe (take 4 r1)) in *.
      rewrite i32_neg by exact Hu.
      destruct (N.leb_spec two31 u) as [Hneg|Hpos].
      { cbn. exists s1, e_neg_size. split; [reflexivity|discriminate]. }
      rewrite i32_small by exact Hpos.
      rewrite (tts_ok STpl et Het). unfold sret. cbn [sbind].
      rewrite !fixed_width_pos.
      unfold rp_el. cbn [inl_none in_list_str].
      apply (tsim_shift _ (et :: r1) 5). change (drop 5 (et :: r1)) with (drop 4 r1).
      destruct (is_fixed et) eqn:Fe.
      + unfold is_fixed in Fe. destruct (kind_of et) as [w| | | | |] eqn:Ke; try discriminate.
        unfold fixed_width. rewrite Ke.
        rewrite (gelems_ext _ _ (fixedp w)) by (apply member_fixed_ext'; assumption).
        pose proof (kind_fixed_pos _ _ Ke) as Hw.
        rewrite gelems_fixed; [|exact Hw|apply ldrop1].
        rewrite <- N2Z.inj_mul, N2Z.id.
        apply skip_exact. exact HR1.
      + rewrite N2Z.id.
        rewrite (gelems_ext _ _ (rp inl_none d et)).
        2:{ intros r. unfold member. rewrite Fe. reflexivity. }
        apply (t_loop_sim (fun s' => tskip skipN d fu s' et) (rp inl_none d et)); try assumption.
        * intros s0 r0 HR0 HP0; apply IH; assumption.
        * apply rp_good.
        * apply ldrop1.
    - cbn. exists s, e_unknown_type. split; [reflexivity|discriminate].
  Qed.

End Tpl.

Lemma tsim_total {St} (Rep : St -> bytes -> Prop) x r i d t :
  tsim St Rep x r (rp i d t r) ->
  (exists n h s', rp i d t r = Ok (n, h) /\ x = (s', Ok tt) /\ Rep s' (drop n r)) \/
  (exists e s' c, rp i d t r = Err e /\ x = (s', Err c) /\ c <> e_fuel).
Proof.
  unfold tsim. destruct (rp i d t r) as [[n h]|e| |]; try tauto.
  - intros [s' [E HR]]. left. exists n, h, s'. auto.
  - intros [s' [c [E Hc]]]. right. exists e, s', c. auto.
Qed.

(* ================= BytesSkipDecoder ================= *)
Definition bs_rep (b0 : bytes) (s : bs_state) (r : bytes) : Prop :=
  bs_b s = b0 /\ bs_n s <= len b0 /\ r = drop (bs_n s) b0 /\ wf b0.

Lemma drop_take_seg {A} (l : list A) a n : drop a (take (a + n) l) = take n (drop a l).
Proof.
  unfold drop, take. replace (N.to_nat (a + n)) with (N.to_nat a + N.to_nat n)%nat by lia.
  symmetry. apply firstn_skipn_comm.
Qed.

Lemma bs_SN_ok b0 : forall s r n, bs_rep b0 s r -> n <= len r ->
  exists s', bs_skipN s n = (s', Ok (take n r)) /\ bs_rep b0 s' (drop n r).
Proof.
  intros s r n (Hb & Hn & Hr & W) Hle. subst r. rewrite len_drop in Hle.
  unfold bs_skipN. rewrite Hb.
  destruct (N.leb_spec (bs_n s + n) (len b0)); [|lia].
  eexists. split.
  - f_equal. unfold slice_range.
    destruct (N.leb_spec (bs_n s + n - n) (bs_n s + n)); [|lia].
    destruct (N.leb_spec (bs_n s + n) (len b0)); [|lia]. cbn [andb].
    replace (bs_n s + n - (bs_n s + n - n)) with n by lia.
    replace (bs_n s + n - n) with (bs_n s) by lia. reflexivity.
  - unfold bs_rep. cbn [bs_b bs_n]. repeat split; try assumption; try lia.
    rewrite drop_plus. reflexivity.
Qed.
Lemma bs_SN_fail b0 : forall s r n, bs_rep b0 s r -> len r < n ->
  exists s' c, bs_skipN s n = (s', Err c) /\ c <> e_fuel.
Proof.
  intros s r n (Hb & Hn & Hr & W) Hlt. subst r. rewrite len_drop in Hlt.
  unfold bs_skipN. rewrite Hb.
  destruct (N.leb_spec (bs_n s + n) (len b0)); [lia|].
  exists s, e_eof. split; [reflexivity|discriminate].
Qed.
Lemma bs_rep_wf b0 : forall s r, bs_rep b0 s r -> wf r.
Proof. intros s r (_ & _ & -> & W). apply wf_drop, W. Qed.

(* BytesSkipDecoder.Next on a fresh decoder over any b: accepts exactly when the
   reference does; returns exactly the first n bytes and keeps the rest *)
Lemma bs_finish b t d s' n : n <= len b ->
  tskip bs_skipN d (S (length b)) (bs_new b) t = (s', Ok tt) -> bs_rep b s' (drop n b) ->
  bs_next_depth (bs_new b) t d = ({| bs_b := drop n b; bs_n := 0 |}, Ok (take n b)).
Proof.
  intros Hn E (Hb & Hle & Hr & _). unfold bs_next_depth. change (bs_b (bs_new b)) with b.
  change {| bs_b := b; bs_n := 0 |} with (bs_new b). rewrite E. cbn [sbind]. rewrite Hb.
  assert (Hnn : bs_n s' = n).
  { apply (f_equal len) in Hr. rewrite !len_drop in Hr. lia. }
  rewrite Hnn. unfold slice_range, slice_from, sret.
  destruct (N.leb_spec 0 n); [|lia]. destruct (N.leb_spec n (len b)); [|lia]. cbn [andb bind sbind fst snd].
  rewrite N.sub_0_r. reflexivity.
Qed.

Theorem bs_next_is_ref b t d : wf b -> t < 256 ->
  match rp inl_none d t b with
  | Ok (n, _) => bs_next_depth (bs_new b) t d = ({| bs_b := drop n b; bs_n := 0 |}, Ok (take n b))
  | Err _ => exists s c, bs_next_depth (bs_new b) t d = (s, Err c) /\ c <> e_fuel
  | _ => False
  end.
Proof.
  intros W Ht.
  assert (HR : bs_rep b (bs_new b) b).
  { unfold bs_rep, bs_new. cbn [bs_b bs_n]. repeat split; try assumption; try lia. }
  pose proof (tskip_sim bs_state bs_skipN (bs_rep b) (bs_SN_ok b) (bs_SN_fail b) (bs_rep_wf b)
                (S (length b)) d (bs_new b) b t HR Ht ltac:(unfold P; lia)) as T.
  pose proof (rp_good inl_none d t b) as G.
  unfold tsim in T. destruct (rp inl_none d t b) as [[n h]|e| |]; try contradiction.
  - destruct T as [s' [E HR']]. specialize (G n h eq_refl).
    eapply bs_finish; eauto. lia.
  - destruct T as [s' [c [E Hc]]]. unfold bs_next_depth. change (bs_b (bs_new b)) with b.
    change {| bs_b := b; bs_n := 0 |} with (bs_new b).
    rewrite E. cbn [sbind]. exists s', c. auto.
Qed.

Corollary bs_next_depth_accepts b t d n : wf b -> t < 256 ->
  ((exists s out, bs_next_depth (bs_new b) t d = (s, Ok out) /\ len out = n) <-> refparse inl_none d t b = Ok n).
Proof.
  intros W Ht. pose proof (bs_next_is_ref b t d W Ht) as T.
  rewrite ref_inv.
  pose proof (rp_good inl_none d t b) as G.
  destruct (rp inl_none d t b) as [[n' h]|e| |]; try contradiction.
  - specialize (G n' h eq_refl). rewrite T. split.
    + intros [s [out [E L]]]. assert (out = take n' b) by congruence. subst out.
      rewrite take_len in L by lia. subst n'. eauto.
    + intros [h' E]. assert (n = n') by congruence. subst n'.
      do 2 eexists. split; [reflexivity|]. apply take_len. lia.
  - destruct T as [s [c [E _]]]. rewrite E. split.
    + intros [s0 [out [E0 _]]]. discriminate.
    + intros [h' E']. discriminate.
Qed.

Theorem bs_next_depth_safe b t d : wf b -> t < 256 -> safe (snd (bs_next_depth (bs_new b) t d)).
Proof.
  intros W Ht. pose proof (bs_next_is_ref b t d W Ht) as T.
  destruct (rp inl_none d t b) as [[n' h]|e| |]; try contradiction.
  - rewrite T. exact I.
  - destruct T as [s [c [E _]]]. rewrite E. exact I.
Qed.

Theorem bs_next_depth_bounded b t d s out : wf b -> t < 256 ->
  bs_next_depth (bs_new b) t d = (s, Ok out) -> 1 <= len out <= len b /\ out = take (len out) b.
Proof.
  intros W Ht E. pose proof (bs_next_is_ref b t d W Ht) as T.
  pose proof (rp_good inl_none d t b) as G.
  destruct (rp inl_none d t b) as [[n' h]|e| |]; try contradiction.
  - specialize (G n' h eq_refl). rewrite T in E.
    assert (out = take n' b) by congruence. subst out.
    rewrite take_len by lia. split; [lia|reflexivity].
  - destruct T as [s0 [c [E0 _]]]. rewrite E0 in E. discriminate.
Qed.

(* the public entry point: budget defaultRecursionDepth = 64 *)
Lemma bs_next_eq s t : bs_next s t = bs_next_depth s t depth0.
Proof. reflexivity. Qed.

Corollary bs_next_accepts b t n : wf b -> t < 256 ->
  ((exists s out, bs_next (bs_new b) t = (s, Ok out) /\ len out = n) <-> refparse inl_none 64 t b = Ok n).
Proof. rewrite <- depth_ok. apply bs_next_depth_accepts. Qed.
Theorem bs_next_safe b t : wf b -> t < 256 -> safe (snd (bs_next (bs_new b) t)).
Proof. apply bs_next_depth_safe. Qed.
Theorem bs_next_bounded b t s out : wf b -> t < 256 ->
  bs_next (bs_new b) t = (s, Ok out) -> 1 <= len out <= len b /\ out = take (len out) b.
Proof. apply bs_next_depth_bounded. Qed.

(* since the repair of the stale offset: whatever an earlier (failed) Next left in p.n, Next behaves as on
   a decoder freshly reset to the same bytes *)
Lemma bs_next_forgets_offset b k t : bs_next {| bs_b := b; bs_n := k |} t = bs_next (bs_new b) t.
Proof. unfold bs_next, bs_next_depth, bs_new. cbn [bs_b]. reflexivity. Qed.
