(* Proofs/OwnSkipDecP.v — ownership invariant of the heap-level ReaderSkipDecoder
   (Model/OwnSkipDec.v): the private buffer is the only block it owns, growSlow copies before
   it frees, and the result of the last Next keeps reading as the stream bytes it covers. *)
From Coq Require Import ZifyN ZifyNat ZifyBool Permutation.
From GV Require Import Lib.Bytes Lib.Res Lib.Heap Model.Own Model.OwnReader Model.OwnSkipDec Spec.Ownership
  Proofs.OwnLib Proofs.OwnTrace Proofs.OwnReaderP.
Open Scope N_scope.

Ltac splits := repeat match goal with |- _ /\ _ => split end.

Section WithX.
Variable X : list (nat * bytes).

Definition kowned (st : hskip) : list nat := match kb st with Some s => [sblk s] | None => [] end.

Record kinv (st : hskip) (e : env) : Prop := mkkinv {
  kv_e : einv X (kowned st) [] [] e;
  kv_src : spos (ksrc st) <= len (sdata (ksrc st)) /\ kstart st + kn st <= spos (ksrc st);
  kv_buf : match kb st with
           | Some s => whole (wh (ew e)) s /\ 0 < scp s /\ kn st <= sln s
           | None => kn st = 0
           end;
  kv_content : kstart st + kn st = spos (ksrc st) ->
               match kb st with
               | Some s => rd (wh (ew e)) (sblk s) 0 (kn st) = seg_at (sdata (ksrc st)) (kstart st) (kn st)
               | None => True
               end;
  kv_res : match kres st with
           | Some l => In (lblk l) (kowned st) /\
                       rd (wh (ew e)) (lblk l) (loff l) (llen l) = seg_at (sdata (ksrc st)) (lpos l) (llen l)
           | None => True
           end
}.

Lemma kinv_frame' st e e' :
  kinv st e -> einv X (kowned st) [] [] e' -> same_on (kowned st) (wh (ew e)) (wh (ew e')) -> kinv st e'.
Proof.
  intros [Ie Is Ib Ic Ir] He Hs0.
  assert (Hs : same_on (kowned st ++ [] ++ []) (wh (ew e)) (wh (ew e'))) by (now rewrite !app_nil_r).
  assert (Hblk : forall b, In b (kowned st) -> block (wh (ew e')) b = block (wh (ew e)) b).
  { intros b Hb. apply Hs. rewrite !app_nil_r. exact Hb. }
  split; try assumption.
  - destruct (kb st) as [s|] eqn:Hb; [|assumption]. unfold whole in *.
    rewrite Hblk by (unfold kowned; rewrite Hb; now left). assumption.
  - intros H. specialize (Ic H). destruct (kb st) as [s|] eqn:Hb; [|exact I].
    rewrite <- Ic. apply rd_same. apply Hblk. unfold kowned. rewrite Hb. now left.
  - destruct (kres st) as [l|]; [|exact I]. destruct Ir as [A B]. split; [assumption|].
    rewrite <- B. apply rd_same. now apply Hblk.
Qed.

Lemma kinv_frame st e e' :
  kinv st e -> einv X (kowned st) [] [] e' -> frame (kowned st ++ [] ++ []) e e' -> kinv st e'.
Proof.
  intros Hi He [Hs _]. eapply kinv_frame'; try eassumption. now rewrite !app_nil_r in Hs.
Qed.

Lemma kinv_callback st e : kinv st e -> kinv st (e_callback e).
Proof.
  intros Hi. destruct (einv_callback _ _ _ _ (kv_e _ _ Hi)) as (A & B & _). eapply kinv_frame; eassumption.
Qed.

(* ---------- growSlow ---------- *)
Lemma grow_slow_inv st e n st' e' :
  kinv st e -> kres st = None -> grow_slow st e n = Some (st', e') ->
  kinv st' e' /\ ksrc st' = ksrc st /\ kn st' = kn st /\ kstart st' = kstart st /\ kres st' = None /\
  exists s, kb st' = Some s /\ kn st + n <= sln s.
Proof.
  intros Hi Hres E. unfold grow_slow in E.
  destruct (e_malloc e (kn st + n)) as [e1 nb] eqn:Em.
  destruct (einv_malloc _ _ _ _ _ _ _ (kv_e _ _ Hi) Em) as (A1 & A2 & A3 & [A4 A5]).
  destruct Hi as [Ie Is Ib Ic Ir]. rewrite Hres in Ir. clear Ir.
  pose proof (pow2ceil_ge (kn st + n)) as Hge. pose proof (pow2ceil_pos (kn st + n)) as Hpos.
  destruct (kb st) as [s|] eqn:Hb.
  - destruct (N.leb_spec (kn st) (scp s)) as [Hle|]; [|discriminate].
    replace (N.min (kn st + n) (kn st)) with (kn st) in E by lia.
    destruct Ib as ((W1 & W2 & W3) & B0 & B1).
    assert (Hk : kowned st = [sblk s]) by (unfold kowned; now rewrite Hb). rewrite Hk in *.
    cbn [app] in A2, A4.
    assert (Hblk1 : block (wh (ew e1)) (sblk s) = block (wh (ew e)) (sblk s)) by (apply A4; now left).
    assert (Hr : In (sblk s) ((nb :: [sblk s]) ++ [] ++ [])) by (cbn; tauto).
    destruct (einv_read _ _ _ _ _ (soff s) (kn st) A1 Hr) as (R1 & R2 & R3).
    destruct (e_read e1 (sblk s) (soff s) (kn st)) as [e2 v] eqn:Erd. cbn [fst snd] in R1, R2, R3.
    assert (Hlv : len v = kn st).
    { rewrite R3. rewrite len_take_le, len_drop. rewrite Hblk1. lia. }
    assert (Hwb : 0 + len v <= len (block (wh (ew e2)) nb)) by (rewrite R2, A3; lia).
    destruct (einv_write _ _ _ _ nb 0 v R1 (or_introl eq_refl) Hwb) as (V1 & V2 & V3 & [V4 V5]).
    set (e3 := e_write e2 nb 0 v) in *.
    assert (Hv2 : (sblk s < length (wh (ew e2)))%nat).
    { destruct (einv_sep3 _ _ _ _ R1) as [_ Sv _]. rewrite Forall_forall in Sv. apply Sv. cbn; tauto. }
    assert (Hvn : (nb < length (wh (ew e2)))%nat).
    { destruct (einv_sep3 _ _ _ _ R1) as [_ Sv _]. rewrite Forall_forall in Sv. apply Sv. cbn; tauto. }
    assert (V1' : einv X (sblk s :: [nb]) [] [] e3) by (eapply einv_perm; [|exact V1]; apply perm_swap).
    assert (Hcp3 : scp s = len (block (wh (ew e3)) (sblk s))).
    { rewrite V5 by assumption. rewrite R2, Hblk1. assumption. }
    destruct (einv_free _ _ _ _ s V1' (or_introl eq_refl) W1 Hcp3) as (F1 & [F2 F3] & F4).
    cbn [remove1] in F1, F2. rewrite Nat.eqb_refl in F1, F2.
    injection E as Est Ee. rewrite <- Est, <- Ee. clear Est Ee. cbn [ksrc kn kstart kres kb].
    split; [|split; [reflexivity|split; [reflexivity|split; [reflexivity|split; [exact Hres|eexists; split; [reflexivity|cbn [sln]; lia]]]]]].
    assert (Hnb4 : block (wh (ew (e_free e3 s))) nb = splice (block (wh (ew e2)) nb) 0 v).
    { rewrite F2 by (cbn; tauto). exact V2. }
    split; cbn [kowned kb ksrc kn kstart kres sblk soff sln scp]; try assumption; try exact I.
    + unfold whole. cbn [sblk soff sln scp]. rewrite Hnb4, len_splice by lia. rewrite R2, A3. repeat split; lia.
    + intros H. specialize (Ic H).
      rewrite <- Hlv at 1. unfold rd. rewrite Hnb4. rewrite read_splice_at by lia.
      rewrite R3, W1, Hblk1. exact Ic.
    + rewrite Hres. exact I.
  - destruct (kn st =? 0) eqn:Ez; [|discriminate]. apply N.eqb_eq in Ez.
    inversion E; subst; clear E. cbn [ksrc kn kstart kres kb].
    split; [|split; [reflexivity|split; [reflexivity|split; [reflexivity|split; [exact Hres|eexists; split; [reflexivity|cbn [sln]; lia]]]]]].
    assert (Hk : kowned st = []) by (unfold kowned; now rewrite Hb). rewrite Hk in *.
    split; cbn [kowned kb ksrc kn kstart kres sblk soff sln scp]; try assumption; try exact I.
    + unfold whole. cbn [sblk soff sln scp]. rewrite A3. repeat split; lia.
    + intros _. rewrite Ez. reflexivity.
    + rewrite Hres. exact I.
Qed.

Lemma seg_at_0 S c : seg_at S c 0 = [].
Proof. reflexivity. Qed.

(* ---------- the ReadFull loop of SkipN ---------- *)
Lemma readfull_inv b base n : forall fuel src e i src' e' i' er,
  einv X [b] [] [] e -> spos src <= len (sdata src) -> base + n <= len (block (wh (ew e)) b) -> i <= n ->
  readfull fuel src e b base i n = (src', e', i', er) ->
  einv X [b] [] [] e' /\ sdata src' = sdata src /\ spos src' <= len (sdata src') /\
  i <= i' /\ i' <= n /\ spos src' = spos src + (i' - i) /\
  len (block (wh (ew e')) b) = len (block (wh (ew e)) b) /\
  rd (wh (ew e')) b 0 (base + i') = rd (wh (ew e)) b 0 (base + i) ++ seg_at (sdata src) (spos src) (i' - i).
Proof.
  induction fuel as [|f IH]; intros src e i src' e' i' er Hi Hs Hb Hin E; cbn [readfull] in E.
  - inversion E; subst. splits; try assumption; try lia; try reflexivity.
    replace (i' - i') with 0 by lia. now rewrite seg_at_0, app_nil_r.
  - destruct (N.ltb_spec i n) as [Hlt|Hge].
    + destruct (einv_callback _ _ _ _ Hi) as (C1 & [C2 [_ C3]] & _).
      assert (Hv : (b < length (wh (ew e)))%nat).
      { destruct (einv_sep3 _ _ _ _ Hi) as [_ Sv _]. inversion Sv; assumption. }
      assert (Hblk0 : block (wh (ew (e_callback e))) b = block (wh (ew e)) b) by (apply C2; cbn; tauto).
      destruct (src_read src (n - i)) as [[bs er0] src1] eqn:Er.
      destruct (src_read_spec _ _ _ _ _ Hs Er) as (R1 & R2 & R3 & R4 & R5 & R6 & R7).
      assert (Hwb : base + i + len bs <= len (block (wh (ew (e_callback e))) b)) by (rewrite Hblk0; lia).
      destruct (einv_write _ _ _ _ b (base + i) bs C1 (or_introl eq_refl) Hwb) as (W1 & W2 & W3 & [W4 W5]).
      set (e1 := e_write (e_callback e) b (base + i) bs) in *.
      assert (Hlen1 : len (block (wh (ew e1)) b) = len (block (wh (ew e)) b)).
      { rewrite W2, len_splice by lia. now rewrite Hblk0. }
      assert (Hrd1 : rd (wh (ew e1)) b 0 (base + (i + len bs)) = rd (wh (ew e)) b 0 (base + i) ++ bs).
      { replace (base + (i + len bs)) with ((base + i) + len bs) by lia. rewrite rd_plus. f_equal.
        - rewrite (rd_splice_before _ _ _ _ _ _ _ W2) by (try rewrite Hblk0; lia). apply rd_same. exact Hblk0.
        - rewrite N.add_0_l. apply (rd_splice_at _ _ _ _ _ W2). rewrite Hblk0. lia. }
      destruct er0 as [x|].
      * inversion E; subst; clear E. splits; try assumption; try lia.
        replace (i + len bs - i) with (len bs) by lia. rewrite Hrd1. f_equal. exact R5.
      * assert (Hb1 : base + n <= len (block (wh (ew e1)) b)) by (rewrite Hlen1; assumption).
        assert (Hin1 : i + len bs <= n) by lia.
        assert (Hs1 : spos src1 <= len (sdata src1)) by assumption.
        destruct (IH _ _ _ _ _ _ _ W1 Hs1 Hb1 Hin1 E) as (A1 & A2 & A3 & A4 & A5 & A6 & A7 & A8).
        splits; try assumption; try lia.
        -- rewrite A2. exact R1.
        -- rewrite A8, Hrd1, <- app_assoc. f_equal. rewrite R1, R4.
           replace (i' - i) with (len bs + (i' - (i + len bs))) by lia. rewrite seg_at_plus. f_equal. exact R5.
    + inversion E; subst. splits; try assumption; try lia; try reflexivity.
      replace (i' - i') with 0 by lia. now rewrite seg_at_0, app_nil_r.
Qed.

(* ---------- SkipN ---------- *)
Definition same_meta (st st' : hskip) : Prop :=
  sdata (ksrc st') = sdata (ksrc st) /\ kstart st' = kstart st /\ kres st' = kres st.

Lemma k_skipn_inv st e n st' e' out :
  kinv st e -> kres st = None -> k_skipn st e n = (st', e', out) ->
  kinv st' e' /\ same_meta st st'.
Proof.
  intros Hi Hres E. unfold k_skipn in E.
  assert (Hgrow : forall st1 e1, k_grow st e n = Some (st1, e1) ->
            kinv st1 e1 /\ ksrc st1 = ksrc st /\ kn st1 = kn st /\ kstart st1 = kstart st /\ kres st1 = None /\
            (n = 0 \/ exists s, kb st1 = Some s /\ kn st + n <= sln s)).
  { intros st1 e1 Eg. unfold k_grow in Eg.
    destruct ((kn st <=? match kb st with Some s => sln s | None => 0 end) &&
              (n <=? match kb st with Some s => sln s | None => 0 end - kn st)) eqn:Ec.
    - inversion Eg; subst. apply andb_true_iff in Ec as [E1 E2].
      splits; try assumption; try reflexivity.
      destruct (kb st1) as [s|] eqn:Hb; [right; exists s; split; [reflexivity|lia]|left; lia].
    - destruct (grow_slow_inv _ _ _ _ _ Hi Hres Eg) as (A1 & A2 & A3 & A4 & A5 & A6).
      splits; try assumption. now right. }
  destruct (k_grow st e n) as [[st1 e1]|] eqn:Eg; [|inversion E; subst; split; [assumption|unfold same_meta; splits; reflexivity]].
  destruct (Hgrow _ _ eq_refl) as (Hi1 & G1 & G2 & G3 & G4 & G5). clear Hgrow.
  destruct (kb st1) as [s|] eqn:Hb.
  - destruct (N.leb_spec (kn st1 + n) (scp s)) as [Hfit|]; [|inversion E; subst; split; [assumption|unfold same_meta; rewrite G1, G3, G4, Hres; splits; reflexivity]].
    destruct (readfull _ (ksrc st1) e1 (sblk s) (soff s + kn st1) 0 n) as [[[src' e2] i] er] eqn:Erf.
    destruct Hi1 as [Ie [Is Ile] Ib Ic Ir]. rewrite Hb in Ib, Ic. destruct Ib as ((W1 & W2 & W3) & B0 & B1).
    assert (Hk : kowned st1 = [sblk s]) by (unfold kowned; now rewrite Hb). rewrite Hk in Ie.
    assert (Hbnd : soff s + kn st1 + n <= len (block (wh (ew e1)) (sblk s))) by lia.
    destruct (readfull_inv _ _ _ _ _ _ _ _ _ _ _ Ie Is Hbnd (N.le_0_l n) Erf) as (A1 & A2 & A3 & A4 & A5 & A6 & A7 & A8).
    rewrite W1, N.add_0_l, N.sub_0_r in *. rewrite N.add_0_r in A8.
    assert (Hpre : rd (wh (ew e2)) (sblk s) 0 (kn st1) = rd (wh (ew e1)) (sblk s) 0 (kn st1)).
    { rewrite <- (rd_take _ _ _ (kn st1) (kn st1 + i)) by lia. rewrite A8.
      rewrite take_app_le by (rewrite rd_len by lia; lia). apply take_all. rewrite rd_len by lia. lia. }
    destruct (N.ltb_spec i n) as [Hlt|Hge].
    + inversion E; subst; clear E. split; [|unfold same_meta; cbn [ksrc kstart kres]; rewrite A2, G1, G3, G4, Hres; splits; reflexivity].
      split; cbn [kowned kb ksrc kn kstart kres]; rewrite ?Hb; try assumption.
      * split; [assumption|lia].
      * unfold whole. rewrite A7. splits; assumption.
      * intros H. rewrite A2. rewrite Hpre. apply Ic. lia.
      * rewrite G4. exact I.
    + assert (i = n) by lia. subst i.
      assert (Hsl : kn st1 + n <= sln s).
      { destruct G5 as [Hn0|(s' & Hs' & Hle)]; [lia|]. inversion Hs'; subst s'. lia. }
      inversion E; subst; clear E.
      split; [|unfold same_meta; cbn [ksrc kstart kres]; rewrite A2, G1, G3, G4, Hres; splits; reflexivity].
      split; cbn [kowned kb ksrc kn kstart kres]; rewrite ?Hb; try assumption.
      * split; [assumption|lia].
      * unfold whole. rewrite A7. splits; assumption.
      * intros H. rewrite A2, A8. rewrite seg_at_plus. f_equal; [apply Ic; lia|]. f_equal. lia.
      * rewrite G4. exact I.
  - destruct (n =? 0); inversion E; subst; (split; [assumption|unfold same_meta; rewrite G1, G3, G4, Hres; splits; reflexivity]).
Qed.

Lemma k_skips_inv : forall sizes st e st' e' o,
  kinv st e -> kres st = None -> k_skips st e sizes = (st', e', o) -> kinv st' e' /\ same_meta st st'.
Proof.
  induction sizes as [|n r IH]; intros st e st' e' o Hi Hres E; cbn [k_skips] in E.
  - inversion E; subst. split; [assumption|unfold same_meta; splits; reflexivity].
  - destruct (k_skipn st e n) as [[st1 e1] o1] eqn:Ek.
    destruct (k_skipn_inv _ _ _ _ _ _ Hi Hres Ek) as (Hi1 & M1 & M2 & M3).
    destruct o1; try (inversion E; subst; split; [assumption|unfold same_meta; splits; assumption]).
    assert (Hres1 : kres st1 = None) by (rewrite M3; assumption).
    destruct (IH _ _ _ _ _ Hi1 Hres1 E) as (Hi2 & N1 & N2 & N3).
    split; [assumption|]. unfold same_meta. rewrite N1, N2, N3. splits; assumption.
Qed.

Lemma kinv_clear st e : kinv st e -> kinv (mkK (kb st) (kn st) (ksrc st) None (kstart st)) e.
Proof. intros [A B C D E]. split; cbn [kowned kb kn ksrc kres kstart]; try assumption. exact I. Qed.

Lemma kinv_restart st e : kinv st e -> kinv (mkK (kb st) 0 (ksrc st) None (spos (ksrc st))) e.
Proof.
  intros [A [B B'] C D E]. split; cbn [kowned kb kn ksrc kres kstart]; try assumption; try exact I.
  - split; [assumption|lia].
  - destruct (kb st) as [s|]; [|reflexivity]. destruct C as (C1 & C2 & C3). splits; try assumption. lia.
  - intros _. destruct (kb st); [|exact I]. reflexivity.
Qed.

(* a successful SkipN advances p.n and the source by exactly n: nothing is read ahead *)
Lemma k_skipn_exact st e n st' e' v l :
  kinv st e -> kres st = None -> kstart st + kn st = spos (ksrc st) ->
  k_skipn st e n = (st', e', KBytes v l) -> kstart st' + kn st' = spos (ksrc st').
Proof.
  intros Hi Hres Hc Ek. unfold k_skipn in Ek.
  destruct (k_grow st e n) as [[st2 e2]|] eqn:Eg; [|discriminate].
  assert (Hg : ksrc st2 = ksrc st /\ kn st2 = kn st /\ kstart st2 = kstart st /\ kinv st2 e2).
  { unfold k_grow in Eg. destruct (_ && _).
    - inversion Eg; subst. splits; try reflexivity; assumption.
    - destruct (grow_slow_inv _ _ _ _ _ Hi Hres Eg) as (A1 & A2 & A3 & A4 & _). splits; assumption. }
  destruct Hg as (G1 & G2 & G3 & Hi2).
  destruct (kb st2) as [s|] eqn:Hb.
  - destruct (kn st2 + n <=? scp s) eqn:Efit; [|discriminate].
    destruct (readfull _ (ksrc st2) e2 (sblk s) (soff s + kn st2) 0 n) as [[[src' e3] i] er] eqn:Erf.
    destruct Hi2 as [Ie [Is _] Ib _ _]. rewrite Hb in Ib. destruct Ib as ((W1 & W2 & W3) & B0 & B1).
    assert (Hk : kowned st2 = [sblk s]) by (unfold kowned; now rewrite Hb). rewrite Hk in Ie.
    apply N.leb_le in Efit.
    assert (Hbnd : soff s + kn st2 + n <= len (block (wh (ew e2)) (sblk s))) by lia.
    destruct (readfull_inv _ _ _ _ _ _ _ _ _ _ _ Ie Is Hbnd (N.le_0_l n) Erf) as (A1 & A2 & A3 & A4 & A5 & A6 & _).
    destruct (N.ltb_spec i n); [destruct er; discriminate|].
    inversion Ek; subst; clear Ek. cbn [kstart kn ksrc]. rewrite A6, G1, G2, G3. lia.
  - destruct (n =? 0) eqn:Ez; [|discriminate]. apply N.eqb_eq in Ez.
    inversion Ek; subst; clear Ek. rewrite G1, G2, G3. assumption.
Qed.

Lemma k_skips_exact : forall sizes st e st' e',
  kinv st e -> kres st = None -> kstart st + kn st = spos (ksrc st) ->
  k_skips st e sizes = (st', e', None) -> kstart st' + kn st' = spos (ksrc st').
Proof.
  induction sizes as [|n r IH]; intros st e st' e' Hi Hres Hc E; cbn [k_skips] in E.
  - inversion E; subst; assumption.
  - destruct (k_skipn st e n) as [[st1 e1] o1] eqn:Ek.
    destruct (k_skipn_inv _ _ _ _ _ _ Hi Hres Ek) as (Hi1 & M1 & M2 & M3).
    destruct o1; try discriminate.
    eapply IH; [exact Hi1|rewrite M3; assumption| |exact E].
    exact (k_skipn_exact _ _ _ _ _ _ _ Hi Hres Hc Ek).
Qed.

Lemma k_next_inv st e sizes st' e' out : kinv st e -> k_next st e sizes = (st', e', out) -> kinv st' e'.
Proof.
  intros Hi E. unfold k_next in E.
  set (st0 := mkK (kb st) 0 (ksrc st) None (spos (ksrc st))) in *.
  pose proof (kinv_restart _ _ Hi) as Hi0. fold st0 in Hi0.
  destruct (k_skips st0 e sizes) as [[st1 e1] o] eqn:Es.
  destruct (k_skips_inv _ _ _ _ _ _ Hi0 eq_refl Es) as (Hi1 & M1 & M2 & M3).
  destruct o; [inversion E; subst; assumption|].
  assert (Hcont : kstart st1 + kn st1 = spos (ksrc st1)).
  { eapply k_skips_exact; [exact Hi0|reflexivity| |exact Es]. cbn [kstart kn ksrc st0]. lia. }
  destruct (kb st1) as [s|] eqn:Hb.
  - destruct (kn st1 <=? scp s); [|inversion E; subst; assumption].
    inversion E; subst; clear E. destruct Hi1 as [A B C D F]. unfold kowned in A. rewrite Hb in *.
    split; cbn [kowned kb kn ksrc kres kstart]; rewrite ?Hb; try assumption.
    destruct (kn st1 =? 0) eqn:Ez; [exact I|]. cbn [lblk loff llen lpos].
    split; [now left|]. destruct C as ((W1 & _) & _). rewrite W1. exact (D Hcont).
  - destruct (kn st1 =? 0); inversion E; subst; assumption.
Qed.

(* sources handed to Reset are well-formed: positioned inside their data *)
Definition kop_wf (o : kop) : Prop := match o with KReset s => spos s <= len (sdata s) | _ => True end.
Definition kstep_wf (s : kstep) : Prop := match s with KOp o _ _ _ => kop_wf o | KCo _ => True end.

Lemma k_step_inv st e o st' e' out : kop_wf o -> kinv st e -> k_step st e o = (st', e', out) -> kinv st' e'.
Proof.
  intros Hwf Hi E. destruct o as [sizes|n|s]; cbn [k_step] in E.
  - eapply k_next_inv; eassumption.
  - destruct (k_skipn _ e n) as [[st1 e1] o1] eqn:Ek. inversion E; subst; clear E.
    eapply k_skipn_inv; [apply kinv_clear; exact Hi|reflexivity|exact Ek].
  - inversion E; subst; clear E. unfold k_reset. destruct Hi as [A [B B'] C D F]. cbn [kop_wf] in Hwf.
    split; cbn [kowned kb kn ksrc kres kstart]; try assumption; try exact I.
    + split; [assumption|lia].
    + destruct (kb st) as [x|]; [|reflexivity]. destruct C as (C1 & C2 & C3). splits; try assumption. lia.
    + intros _. destruct (kb st); [reflexivity|exact I].
Qed.

Lemma kinv_env st e e' : ew e' = ew e -> eev e' = eev e -> kinv st e -> kinv st e'.
Proof.
  intros Hw Ht [A B C D F]. split; rewrite ?Hw; try assumption. eapply einv_world; eassumption.
Qed.
Lemma kinv_co st e l al adv padv : kinv st e -> kinv st (mkE (co_run (ew e) l) al adv padv (eev e)).
Proof.
  intros Hi. destruct (einv_co _ _ _ _ _ l al adv padv (kv_e _ _ Hi)) as [A B].
  eapply kinv_frame; eassumption.
Qed.

Lemma krun_step_inv st w tr s st' w' tr' o :
  kstep_wf s -> kinv st (env_of w tr) -> krun_step (st, w, tr) s = (st', w', tr', o) -> kinv st' (env_of w' tr').
Proof.
  intros Hwf Hi E. destruct s as [op al adv padv|l]; cbn [krun_step] in E.
  - destruct (k_step st (mkE w al adv padv tr) op) as [[st1 e1] out] eqn:Es. inversion E; subst; clear E.
    eapply kinv_env; [| |eapply k_step_inv; [exact Hwf| |exact Es]]; try reflexivity.
    eapply kinv_env; [| |exact Hi]; reflexivity.
  - inversion E; subst; clear E. exact (kinv_co _ _ l [] [] [] Hi).
Qed.

Lemma krun_inv : forall h st w tr st' w' tr' outs,
  Forall kstep_wf h -> kinv st (env_of w tr) -> krun (st, w, tr) h = (st', w', tr', outs) -> kinv st' (env_of w' tr').
Proof.
  induction h as [|s h IH]; intros st w tr st' w' tr' outs Hwf Hi E; cbn [krun] in E.
  - inversion E; subst; assumption.
  - inversion Hwf as [|? ? Hs Hr]; subst.
    destruct (krun_step (st, w, tr) s) as [[[st1 w1] tr1] o] eqn:Es.
    destruct (krun (st1, w1, tr1) h) as [[[st2 w2] tr2] outs2] eqn:Er.
    inversion E; subst; clear E. eapply IH; [exact Hr| |exact Er]. eapply krun_step_inv; eassumption.
Qed.

Lemma kinv_new src w : xok X w -> spos src <= len (sdata src) -> kinv (new_skip src) (env_of w []).
Proof.
  intros (Wk & Sx & Hx) Hs. split; cbn [new_skip kowned kb kn ksrc kres kstart]; try exact I; try reflexivity.
  - exact (einv_init X w Wk Sx Hx).
  - split; [assumption|lia].
Qed.

End WithX.

(* the result of the last Next still reads as the stream bytes it covers *)
Definition result_intact (st : hskip) (w : world) : Prop :=
  match kres st with
  | Some l => rd (wh w) (lblk l) (loff l) (llen l) = seg_at (sdata (ksrc st)) (lpos l) (llen l)
  | None => True
  end.

Theorem skipdec_result_stable src w0 h st w tr outs :
  wok w0 -> spos src <= len (sdata src) -> Forall kstep_wf h ->
  krun (new_skip src, w0, []) h = (st, w, tr, outs) -> result_intact st w.
Proof.
  intros Wk Hs Hwf E. pose proof (krun_inv [] _ _ _ _ _ _ _ _ Hwf (kinv_new [] src w0 (xok_nil w0 Wk) Hs) E) as Hi.
  unfold result_intact. pose proof (kv_res [] _ _ Hi) as Hr. destruct (kres st); [exact (proj2 Hr)|exact I].
Qed.
Theorem skipdec_trace_ok src w0 h st w tr outs :
  wok w0 -> spos src <= len (sdata src) -> Forall kstep_wf h ->
  krun (new_skip src, w0, []) h = (st, w, tr, outs) ->
  no_use_after_free (rev tr) /\ caller_untouched (rev tr) /\ frees_whole_blocks (rev tr).
Proof.
  intros Wk Hs Hwf E. pose proof (krun_inv [] _ _ _ _ _ _ _ _ Hwf (kinv_new [] src w0 (xok_nil w0 Wk) Hs) E) as Hi.
  destruct (kv_e [] _ _ Hi) as [_ _ (m & Hm & _) _]. eapply montr_spec; eassumption.
Qed.
