(* Proofs/PoolsP.v — objects taken from the package's sync.Pools behave as fresh ones (C14).
   For BufferReader, BufferWriter, SkipDecoder and BytesSkipDecoder the constructor applied to a
   recycled object yields the very state it yields on a zero object.  ReaderSkipDecoder keeps its
   private buffer across Release: a recycled decoder is shown to be observationally equal to a
   fresh one (same outputs, value for value, for every history, under any allocator oracles and
   co-tenants on either side). *)
From Coq Require Import ZifyN ZifyNat ZifyBool Permutation.
From GV Require Import Lib.Bytes Lib.Res Lib.Heap Model.Own Model.OwnReader Model.OwnSkipDec Model.Tenants
  Spec.Ownership Proofs.OwnLib Proofs.OwnTrace Proofs.OwnReaderP Proofs.OwnSkipDecP.
Open Scope N_scope.

Theorem pool_transparent_bufreader o r : br_new (br_recycle o) r = br_new br_zero r.
Proof. reflexivity. Qed.
Theorem pool_transparent_bufwriter o w : bw_new (bw_recycle o) w = bw_new bw_zero w.
Proof. reflexivity. Qed.
Theorem pool_transparent_skipdec o r : sd_new (sd_release o) r = sd_new sd_zero r.
Proof. reflexivity. Qed.
Theorem pool_transparent_bytesskip o b : bs_new (bs_release o) b = bs_new bs_zero b.
Proof. reflexivity. Qed.

(* ---------- ReaderSkipDecoder ---------- *)
(* the value of an output: the location of the returned slice is not an observable *)
Definition kval (o : kout) : kout := match o with KBytes v _ => KBytes v None | x => x end.

Lemma readfull_det b1 base1 b2 base2 n : forall fuel src e1 e2 i,
  let r1 := readfull fuel src e1 b1 base1 i n in
  let r2 := readfull fuel src e2 b2 base2 i n in
  fst (fst (fst r1)) = fst (fst (fst r2)) /\ snd (fst r1) = snd (fst r2) /\ snd r1 = snd r2.
Proof.
  induction fuel as [|f IH]; intros src e1 e2 i; cbn [readfull]; [repeat split|].
  destruct (i <? n); [|repeat split].
  destruct (src_read src (n - i)) as [[bs er] src'] eqn:Er.
  destruct er as [x|]; [repeat split|]. apply IH.
Qed.

(* the two decoders are in step: same count, same source, same start of the current value *)
Definition insync (a b : hskip) : Prop :=
  kn a = kn b /\ ksrc a = ksrc b /\ kstart a = kstart b /\ (kres a = None <-> kres b = None).

Lemma app_eq_len {A} (a b c d : list A) : a ++ b = c ++ d -> length a = length c -> b = d.
Proof.
  revert c. induction a as [|x a IH]; intros [|y c] H Hl; cbn in *; try discriminate; [assumption|].
  inversion H; subst. eapply IH; [eassumption|lia].
Qed.

(* SkipN under the invariant: no panic before the read loop, and the bytes returned are the next
   n bytes of the stream *)
Lemma k_skipn_sem X st e n st' e' out :
  kinv X st e -> kres st = None -> k_skipn st e n = (st', e', out) ->
  let fuel := (length (schunks (ksrc st)) + 3)%nat in
  exists b base e0,
    let '(src', _, i, er) := readfull fuel (ksrc st) e0 b base 0 n in
    ksrc st' = src' /\ kstart st' = kstart st /\
    (if i <? n then kn st' = kn st /\ out = match er with Some x => KErr x | None => KPanic end
     else kn st' = kn st + n /\ exists l, out = KBytes (seg_at (sdata (ksrc st)) (spos (ksrc st)) n) l).
Proof.
  intros Hi Hres E. unfold k_skipn in E.
  assert (Hgrow : exists st1 e1, k_grow st e n = Some (st1, e1) /\ kinv X st1 e1 /\ ksrc st1 = ksrc st /\
            kn st1 = kn st /\ kstart st1 = kstart st /\ kres st1 = None /\
            (n = 0 \/ exists s, kb st1 = Some s /\ kn st + n <= sln s)).
  { unfold k_grow.
    destruct ((kn st <=? match kb st with Some s => sln s | None => 0 end) &&
              (n <=? match kb st with Some s => sln s | None => 0 end - kn st)) eqn:Ec.
    - exists st, e. apply andb_true_iff in Ec as [E1 E2]. splits; try reflexivity; try assumption.
      destruct (kb st) as [s|] eqn:Hb; [right; exists s; split; [reflexivity|lia]|left; lia].
    - destruct (grow_slow st e n) as [[st1 e1]|] eqn:Eg.
      + destruct (grow_slow_inv _ _ _ _ _ _ Hi Hres Eg) as (A1 & A2 & A3 & A4 & A5 & A6).
        exists st1, e1. splits; try assumption; try reflexivity. now right.
      + exfalso. unfold grow_slow in Eg. destruct (e_malloc e (kn st + n)) as [e1 nb].
        pose proof (kv_buf _ _ _ Hi) as Hb. destruct (kb st) as [s|].
        * destruct Hb as ((W1 & W2 & W3) & B0 & B1).
          assert (kn st <=? scp s = true) as Hle by lia. rewrite Hle in Eg.
          destruct (e_read e1 (sblk s) (soff s) _); discriminate.
        * rewrite Hb in Eg. cbn in Eg. discriminate. }
  destruct Hgrow as (st1 & e1 & Eg & Hi1 & G1 & G2 & G3 & G4 & G5). rewrite Eg in E.
  destruct (kb st1) as [s|] eqn:Hb.
  - pose proof (kv_buf _ _ _ Hi1) as Hbuf. rewrite Hb in Hbuf. destruct Hbuf as ((W1 & W2 & W3) & B0 & B1).
    assert (Hsl : kn st1 + n <= sln s).
    { destruct G5 as [Hn0|(s' & Hs' & Hle)]; [lia|]. inversion Hs'; subst s'. lia. }
    assert (Hfit : kn st1 + n <=? scp s = true) by lia. rewrite Hfit in E.
    exists (sblk s), (soff s + kn st1), e1. rewrite G1 in E.
    destruct (readfull _ (ksrc st) e1 (sblk s) (soff s + kn st1) 0 n) as [[[src' e2] i] er] eqn:Erf.
    pose proof (kv_e _ _ _ Hi1) as Ie. unfold kowned in Ie. rewrite Hb in Ie.
    destruct (kv_src _ _ _ Hi1) as [Is _]. rewrite G1 in Is.
    assert (Hbnd : soff s + kn st1 + n <= len (block (wh (ew e1)) (sblk s))) by lia.
    destruct (readfull_inv _ _ _ _ _ _ _ _ _ _ _ _ Ie Is Hbnd (N.le_0_l n) Erf) as (A1 & A2 & A3 & A4 & A5 & A6 & A7 & A8).
    destruct (N.ltb_spec i n) as [Hlt|Hge].
    + inversion E; subst; clear E. cbn [ksrc kstart kn]. splits; try reflexivity; try assumption.
    + assert (i = n) by lia. subst i. inversion E; subst; clear E. cbn [ksrc kstart kn].
      splits; try reflexivity; try assumption; try lia. exists None. f_equal.
      rewrite N.sub_0_r, N.add_0_r in A8. rewrite W1, N.add_0_l in *.
      rewrite rd_plus in A8. apply app_eq_len in A8; [|].
      * rewrite N.add_0_l in A8. exact A8.
      * assert (H1 : len (rd (wh (ew e')) (sblk s) 0 (kn st1)) = kn st1) by (apply rd_len; lia).
        assert (H2 : len (rd (wh (ew e1)) (sblk s) 0 (kn st1)) = kn st1) by (apply rd_len; lia).
        unfold len in H1, H2. lia.
  - destruct G5 as [Hn0|(s' & Hs' & _)]; [|discriminate]. subst n.
    cbn [N.eqb] in E. inversion E; subst; clear E.
    intro fuel. exists O, 0, e'.
    assert (Hr : readfull fuel (ksrc st) e' 0 0 0 0 = (ksrc st, e', 0, None)) by (destruct fuel; reflexivity).
    rewrite Hr. cbn [N.ltb N.compare]. splits; try assumption; try lia. exists None. reflexivity.
Qed.

Lemma k_skipn_sync X1 X2 a e1 b e2 n a' e1' o1 b' e2' o2 :
  kinv X1 a e1 -> kinv X2 b e2 -> insync a b -> kres a = None -> kres b = None ->
  k_skipn a e1 n = (a', e1', o1) -> k_skipn b e2 n = (b', e2', o2) ->
  insync a' b' /\ kval o1 = kval o2 /\ kres a' = None /\ kres b' = None.
Proof.
  intros Ha Hb (S1 & S2 & S3 & S4) Ra Rb Ea Eb.
  destruct (k_skipn_inv _ _ _ _ _ _ _ Ha Ra Ea) as (_ & _ & _ & Ma).
  destruct (k_skipn_inv _ _ _ _ _ _ _ Hb Rb Eb) as (_ & _ & _ & Mb).
  pose proof (k_skipn_sem _ _ _ _ _ _ _ Ha Ra Ea) as Sa. pose proof (k_skipn_sem _ _ _ _ _ _ _ Hb Rb Eb) as Sb.
  cbv zeta in Sa, Sb. destruct Sa as (b1 & base1 & ea & Sa). destruct Sb as (b2 & base2 & eb & Sb).
  rewrite <- S2 in Sb.
  pose proof (readfull_det b1 base1 b2 base2 n (length (schunks (ksrc a)) + 3) (ksrc a) ea eb 0) as Hd.
  cbv zeta in Hd.
  destruct (readfull _ (ksrc a) ea b1 base1 0 n) as [[[sa ea'] ia] era].
  destruct (readfull _ (ksrc a) eb b2 base2 0 n) as [[[sb eb'] ib] erb].
  cbn [fst snd] in Hd. destruct Hd as (D1 & D2 & D3). subst sb ib erb.
  destruct Sa as (A1 & A2 & A3). destruct Sb as (B1 & B2 & B3).
  assert (Hres : kres a' = None /\ kres b' = None) by (rewrite Ma, Mb; split; assumption).
  destruct Hres as [Ra' Rb'].
  destruct (ia <? n).
  - destruct A3 as [A3 A4]. destruct B3 as [B3 B4]. subst o1 o2.
    split; [unfold insync; splits; try congruence; rewrite Ra', Rb'; tauto|]. split; [reflexivity|split; assumption].
  - destruct A3 as [A3 (l1 & A4)]. destruct B3 as [B3 (l2 & B4)]. subst o1 o2.
    split; [unfold insync; splits; try congruence; rewrite Ra', Rb'; tauto|].
    split; [cbn [kval]; now rewrite S2|split; assumption].
Qed.

Lemma k_skips_sync X1 X2 : forall sizes a e1 b e2 a' e1' o1 b' e2' o2,
  kinv X1 a e1 -> kinv X2 b e2 -> insync a b -> kres a = None -> kres b = None ->
  k_skips a e1 sizes = (a', e1', o1) -> k_skips b e2 sizes = (b', e2', o2) ->
  insync a' b' /\ kres a' = None /\ kres b' = None /\ kinv X1 a' e1' /\ kinv X2 b' e2' /\
  match o1, o2 with
  | Some x, Some y => kval x = kval y
  | None, None => True
  | _, _ => False
  end.
Proof.
  induction sizes as [|n r IH]; intros a e1 b e2 a' e1' o1 b' e2' o2 Ha Hb Hs Ra Rb Ea Eb; cbn [k_skips] in Ea, Eb.
  - inversion Ea; inversion Eb; subst. splits; try assumption. exact I.
  - destruct (k_skipn a e1 n) as [[a1 ea1] oa] eqn:Ka. destruct (k_skipn b e2 n) as [[b1 eb1] ob] eqn:Kb.
    destruct (k_skipn_sync _ _ _ _ _ _ _ _ _ _ _ _ _ Ha Hb Hs Ra Rb Ka Kb) as (Hs1 & Hv & Ra1 & Rb1).
    destruct (k_skipn_inv _ _ _ _ _ _ _ Ha Ra Ka) as (Ha1 & _).
    destruct (k_skipn_inv _ _ _ _ _ _ _ Hb Rb Kb) as (Hb1 & _).
    destruct oa, ob; cbn [kval] in Hv; try discriminate;
      try (inversion Ea; inversion Eb; subst; splits; try assumption; cbn [kval]; congruence).
    eapply IH; eassumption.
Qed.

Lemma insync_restart a b : ksrc a = ksrc b ->
  insync (mkK (kb a) 0 (ksrc a) None (spos (ksrc a))) (mkK (kb b) 0 (ksrc b) None (spos (ksrc b))).
Proof. intros H. unfold insync. cbn [kn ksrc kstart kres]. rewrite H. splits; try reflexivity; tauto. Qed.

Lemma k_next_sync X1 X2 a e1 b e2 sizes a' e1' o1 b' e2' o2 :
  kinv X1 a e1 -> kinv X2 b e2 -> insync a b ->
  k_next a e1 sizes = (a', e1', o1) -> k_next b e2 sizes = (b', e2', o2) ->
  insync a' b' /\ kval o1 = kval o2.
Proof.
  intros Ha Hb (S1 & S2 & S3 & S4) Ea Eb. unfold k_next in Ea, Eb.
  pose proof (kinv_restart _ _ _ Ha) as Ha0. pose proof (kinv_restart _ _ _ Hb) as Hb0.
  set (a0 := mkK (kb a) 0 (ksrc a) None (spos (ksrc a))) in *.
  set (b0 := mkK (kb b) 0 (ksrc b) None (spos (ksrc b))) in *.
  destruct (k_skips a0 e1 sizes) as [[a1 ea1] oa] eqn:Ka. destruct (k_skips b0 e2 sizes) as [[b1 eb1] ob] eqn:Kb.
  destruct (k_skips_sync _ _ _ _ _ _ _ _ _ _ _ _ _ Ha0 Hb0 (insync_restart _ _ S2) eq_refl eq_refl Ka Kb)
    as (Hs1 & Ra1 & Rb1 & Ha1 & Hb1 & Ho).
  destruct oa as [x|], ob as [y|]; try contradiction.
  - inversion Ea; inversion Eb; subst. split; assumption.
  - (* the whole value was read on both sides: the result is the stream segment *)
    assert (Hca : kstart a1 + kn a1 = spos (ksrc a1)).
    { eapply k_skips_exact; [exact Ha0|reflexivity| |exact Ka]. cbn [kstart kn ksrc a0]. lia. }
    assert (Hcb : kstart b1 + kn b1 = spos (ksrc b1)).
    { eapply k_skips_exact; [exact Hb0|reflexivity| |exact Kb]. cbn [kstart kn ksrc b0]. lia. }
    destruct Hs1 as (T1 & T2 & T3 & T4).
    assert (Hout : forall Y st e st' e' o, kinv Y st e -> kstart st + kn st = spos (ksrc st) ->
              match kb st with
              | Some s =>
                if kn st <=? scp s then
                  let l := if kn st =? 0 then None else Some (mkL (sblk s) (soff s) (kn st) (kstart st)) in
                  (mkK (kb st) (kn st) (ksrc st) l (kstart st), e,
                   KBytes (read (wh (ew e)) (Some (sblk s, soff s)) (kn st)) l)
                else (st, e, KPanic)
              | None => if kn st =? 0 then (st, e, KBytes [] None) else (st, e, KPanic)
              end = (st', e', o) ->
              kval o = KBytes (seg_at (sdata (ksrc st)) (kstart st) (kn st)) None /\
              kn st' = kn st /\ ksrc st' = ksrc st /\ kstart st' = kstart st /\
              (kres st' = None <-> kn st = 0)).
    { intros Y st e st' e' o Hi Hc E. pose proof (kv_buf _ _ _ Hi) as Hbuf. pose proof (kv_content _ _ _ Hi Hc) as Hct.
      destruct (kb st) as [s|] eqn:Hkb.
      - destruct Hbuf as ((W1 & W2 & W3) & B0 & B1). assert (kn st <=? scp s = true) as Hle by lia. rewrite Hle in E.
        cbv zeta in E. inversion E; subst; clear E. cbn [kval kn ksrc kstart kres]. rewrite W1.
        change (take (kn st) (drop 0 (block (wh (ew e')) (sblk s)))) with (rd (wh (ew e')) (sblk s) 0 (kn st)). rewrite Hct.
        splits; try reflexivity. destruct (N.eqb_spec (kn st) 0); split; intros H; try reflexivity; try discriminate; try lia.
      - assert (Hk0 : kn st = 0) by exact Hbuf. rewrite Hk0 in E. cbn [N.eqb] in E. inversion E; subst; clear E.
        cbn [kval]. rewrite Hk0. splits; try reflexivity.
        split; intros _; [reflexivity|].
        pose proof (kv_res _ _ _ Hi) as Hr. destruct (kres st') as [l|]; [|reflexivity].
        destruct Hr as [Hin _]. unfold kowned in Hin. rewrite Hkb in Hin. destruct Hin. }
    destruct (Hout _ _ _ _ _ _ Ha1 Hca Ea) as (Oa & Na & Sa & Ta & Ka').
    destruct (Hout _ _ _ _ _ _ Hb1 Hcb Eb) as (Ob & Nb & Sb & Tb & Kb').
    split; [unfold insync; splits; try congruence; rewrite Ka', Kb', T1; tauto|].
    rewrite Oa, Ob, T1, T2, T3. reflexivity.
Qed.

Lemma k_step_sync X1 X2 a e1 b e2 o a' e1' o1 b' e2' o2 :
  kop_wf o -> kinv X1 a e1 -> kinv X2 b e2 -> insync a b ->
  k_step a e1 o = (a', e1', o1) -> k_step b e2 o = (b', e2', o2) ->
  insync a' b' /\ kval o1 = kval o2.
Proof.
  intros Hwf Ha Hb Hs Ea Eb. destruct o as [sizes|n|s]; cbn [k_step] in Ea, Eb.
  - exact (k_next_sync _ _ _ _ _ _ _ _ _ _ _ _ _ Ha Hb Hs Ea Eb).
  - destruct (k_skipn _ e1 n) as [[a1 ea1] oa] eqn:Ka. destruct (k_skipn _ e2 n) as [[b1 eb1] ob] eqn:Kb.
    inversion Ea; inversion Eb; subst; clear Ea Eb.
    destruct Hs as (S1 & S2 & S3 & S4).
    assert (Hs' : insync (mkK (kb a) (kn a) (ksrc a) None (kstart a)) (mkK (kb b) (kn b) (ksrc b) None (kstart b)))
      by (unfold insync; cbn [kn ksrc kstart kres]; splits; try assumption; tauto).
    destruct (k_skipn_sync _ _ _ _ _ _ _ _ _ _ _ _ _ (kinv_clear _ _ _ Ha) (kinv_clear _ _ _ Hb) Hs' eq_refl eq_refl Ka Kb)
      as (H1 & H2 & _). split; assumption.
  - inversion Ea; inversion Eb; subst. split; [|reflexivity]. unfold insync, k_reset. cbn [kn ksrc kstart kres].
    splits; try reflexivity; tauto.
Qed.

(* two histories of the same shape: the same operations, whatever the oracles and co-tenants *)
Inductive same_shape : kstep -> kstep -> Prop :=
| ss_op o al1 adv1 padv1 al2 adv2 padv2 : same_shape (KOp o al1 adv1 padv1) (KOp o al2 adv2 padv2)
| ss_co l1 l2 : same_shape (KCo l1) (KCo l2).

Lemma krun_sync X1 X2 : forall h1 h2, Forall2 same_shape h1 h2 -> Forall kstep_wf h1 ->
  forall a w1 tr1 b w2 tr2 a' w1' tr1' outs1 b' w2' tr2' outs2,
  kinv X1 a (env_of w1 tr1) -> kinv X2 b (env_of w2 tr2) -> insync a b ->
  krun (a, w1, tr1) h1 = (a', w1', tr1', outs1) -> krun (b, w2, tr2) h2 = (b', w2', tr2', outs2) ->
  map kval outs1 = map kval outs2.
Proof.
  induction 1 as [|s1 s2 h1 h2 Hss Hrest IH]; intros Hwf a w1 tr1 b w2 tr2 a' w1' tr1' outs1 b' w2' tr2' outs2 Ha Hb Hs E1 E2;
    cbn [krun] in E1, E2.
  - inversion E1; inversion E2; subst. reflexivity.
  - inversion Hwf as [|? ? Hw1 Hwr]; subst.
    destruct (krun_step (a, w1, tr1) s1) as [[[a1 wa] ta] oa] eqn:K1.
    destruct (krun_step (b, w2, tr2) s2) as [[[b1 wb] tb] ob] eqn:K2.
    destruct (krun (a1, wa, ta) h1) as [[[a2 wa2] ta2] os1] eqn:R1.
    destruct (krun (b1, wb, tb) h2) as [[[b2 wb2] tb2] os2] eqn:R2.
    inversion E1; inversion E2; subst; clear E1 E2.
    pose proof (krun_step_inv _ _ _ _ _ _ _ _ _ Hw1 Ha K1) as Ha1.
    assert (Hw2 : kstep_wf s2) by (destruct Hss; [exact Hw1|exact I]).
    pose proof (krun_step_inv _ _ _ _ _ _ _ _ _ Hw2 Hb K2) as Hb1.
    destruct Hss as [o al1 adv1 padv1 al2 adv2 padv2|l1 l2]; cbn [krun_step] in K1, K2.
    + destruct (k_step a (mkE w1 al1 adv1 padv1 tr1) o) as [[x1 ex1] ox1] eqn:S1.
      destruct (k_step b (mkE w2 al2 adv2 padv2 tr2) o) as [[x2 ex2] ox2] eqn:S2.
      inversion K1; inversion K2; subst; clear K1 K2.
      assert (Ha' : kinv X1 a (mkE w1 al1 adv1 padv1 tr1)) by (eapply kinv_env; [| |exact Ha]; reflexivity).
      assert (Hb' : kinv X2 b (mkE w2 al2 adv2 padv2 tr2)) by (eapply kinv_env; [| |exact Hb]; reflexivity).
      destruct (k_step_sync _ _ _ _ _ _ _ _ _ _ _ _ _ Hw1 Ha' Hb' Hs S1 S2) as [Hs1 Hv].
      cbn [map]. f_equal; [exact Hv|]. eapply IH; eassumption.
    + inversion K1; inversion K2; subst; clear K1 K2. eapply IH; eassumption.
Qed.

(* a ReaderSkipDecoder taken from the pool after ANY earlier use (it kept its buffer, Release reset
   r and n) answers every later history exactly like a brand-new one *)
Theorem pool_transparent_rsd src0 w0 h0 st w tr outs0 :
  wok w0 -> spos src0 <= len (sdata src0) -> Forall kstep_wf h0 ->
  krun (new_skip src0, w0, []) h0 = (st, w, tr, outs0) ->
  forall src w2 h1 h2 a' w1' tr1' outs1 b' w2' tr2' outs2,
    wok w2 -> spos src <= len (sdata src) -> Forall2 same_shape h1 h2 -> Forall kstep_wf h1 ->
    krun (k_reset st src, w, tr) h1 = (a', w1', tr1', outs1) ->
    krun (new_skip src, w2, []) h2 = (b', w2', tr2', outs2) ->
    map kval outs1 = map kval outs2.
Proof.
  intros Wk0 Hs0 Hwf0 E0 src w2 h1 h2 a' w1' tr1' outs1 b' w2' tr2' outs2 Wk2 Hs Hss Hwf1 E1 E2.
  pose proof (krun_inv [] _ _ _ _ _ _ _ _ Hwf0 (kinv_new [] src0 w0 (xok_nil w0 Wk0) Hs0) E0) as Hi.
  assert (Hr : kinv [] (k_reset st src) (env_of w tr)).
  { assert (Hk : k_step st (env_of w tr) (KReset src) = (k_reset st src, env_of w tr, KUnit)) by reflexivity.
    exact (k_step_inv [] st (env_of w tr) (KReset src) _ _ _ Hs Hi Hk). }
  refine (krun_sync [] [] h1 h2 Hss Hwf1 _ _ _ _ _ _ _ _ _ _ _ _ _ _ Hr (kinv_new [] src w2 (xok_nil w2 Wk2) Hs) _ E1 E2).
  unfold insync, k_reset, new_skip. cbn [kn ksrc kstart kres]. splits; try reflexivity; tauto.
Qed.
