(* Proofs/GenEquivAppEx.v — thrift.ApplicationException (protocol/thrift/exception.go): BLength,
   FastWrite, FastWriteNocopy and FastRead as REGENERATED from the Go source (Gen/Funcs.v,
   tools/gotrans phase 3: a `for` loop around a switch WITHOUT a tag, the pointer receiver as a nil
   flag and one value per field (t int32, m string), `b[off:]` handed to the in-place writers of
   binary.go and spliced back (GoSem.gsplice), FastWriteNocopy calling FastWrite on the same
   receiver, thrift.Binary.Skip as the function parameter x_thrift_Binary_Skip) are equal to the
   hand-written models Model/FastCodec.v [appex_blength] / [appex_write] / [appex_read], the ones
   the ApplicationException theorems of C11 are about.

   Statement form.  The receiver is [option appex] by hand ([None] = nil pointer), a flag and the
   two fields generated ([xt e], [xm e]).
     BLength     hand Ok n  -> generated Ok (t, m, n)            (len m + 15 < 2^63)
     FastWrite   hand Ok (b', n) -> generated Ok (t, m, b', n)   (len b < 2^63, len m + 4 < 2^63)
     FastRead    for EVERY model xs of thrift.Binary.Skip that agrees with the hand skipper, every
                 fuel above length b + 1, wf b:
                 hand Ok (e', off) -> generated Ok (fields of e', off, nil)
                 hand Err c        -> generated Ok (.., Some c)  (errors are returned unlabelled)
     everywhere  hand Panic -> generated Panic (codes aside: nil receiver is 4 by hand, 5 generated);
                 the receiver's fields are returned unchanged by BLength / FastWrite. *)
From GV Require Import Lib.Bytes Lib.Res Lib.GoSem Gen.Consts Gen.Funcs Model.Binary Model.Skip Model.Nocopy
     Model.FastCodec Proofs.BinaryP Proofs.SkipP Proofs.GenLib Proofs.GenLib3 Proofs.GenEquiv Proofs.GenEquivFast.
From Coq Require Import ZifyN ZifyNat ZifyBool.
Open Scope N_scope.

(* ---------- the receiver: an option struct by hand, a nil flag and the fields generated ---------- *)
Definition xm (e : option appex) : bytes := match e with Some r => x_msg r | None => [] end.
Definition xt (e : option appex) : Z := match e with Some r => x_type r | None => 0%Z end.

(* ---------- in-place writers at an offset: off += Binary.WriteX(b[off:], ...) ---------- *)
(* a writer that succeeds reports at most the room it was given and keeps the buffer's length *)
Definition wr_ok (R : bytes -> res (bytes * N)) : Prop :=
  forall sub sub' n, R sub = Ok (sub', n) -> n <= len sub /\ len sub' = len sub.

Lemma put_ok_len buf off bs b' : put buf off bs = Ok b' -> off + len bs <= len buf /\ len b' = len buf.
Proof.
  unfold put. destruct (N.leb_spec (off + len bs) (len buf)) as [H|H]; [|discriminate].
  intros E; inversion E; subst. split; [exact H|].
  rewrite !len_app, take_len, drop_len by lia. lia.
Qed.

Lemma copy_to_ok_len buf off v b' m : copy_to buf off v = Ok (b', m) -> off + m <= len buf /\ len b' = len buf.
Proof.
  unfold copy_to. destruct (N.leb_spec off (len buf)) as [H|H]; [|discriminate].
  intros E; inversion E; subst. split; [lia|].
  rewrite !len_app, !take_len, drop_len by lia. lia.
Qed.

Lemma wr_ok_field_begin t id : wr_ok (fun s => w_field_begin s t id).
Proof.
  intros sub sub' n. unfold w_field_begin.
  destruct (put sub 0 [u8 t]) as [b1| | |] eqn:E1; cbn [bind]; try discriminate.
  destruct (put b1 1 (be 2 (u16 id))) as [b2| | |] eqn:E2; cbn [bind]; try discriminate.
  intros E. apply ok_pair_inv in E as [<- <-]. apply put_ok_len in E1, E2. rewrite be_len in E2. lia.
Qed.

Lemma wr_ok_binary v : wr_ok (fun s => w_binary s v).
Proof.
  intros sub sub' n. unfold w_binary.
  destruct (put sub 0 (be 4 (len v mod two32))) as [b1| | |] eqn:E1; cbn [bind]; try discriminate.
  destruct (copy_to b1 4 v) as [[b2 m]| | |] eqn:E2; cbn [bind]; try discriminate.
  intros E. apply ok_pair_inv in E as [<- <-]. apply put_ok_len in E1. apply copy_to_ok_len in E2. lia.
Qed.

Lemma wr_ok_i32 v : wr_ok (fun s => w_i32 s v).
Proof.
  intros sub sub' n. unfold w_i32.
  destruct (put sub 0 (be 4 (u32 v))) as [b1| | |] eqn:E1; cbn [bind]; try discriminate.
  intros E. apply ok_pair_inv in E as [<- <-]. apply put_ok_len in E1. rewrite be_len in E1. lia.
Qed.

Lemma wr_ok_byte v : wr_ok (fun s => w_byte s v).
Proof.
  intros sub sub' n. unfold w_byte.
  destruct (put sub 0 [u8 v]) as [b1| | |] eqn:E1; cbn [bind]; try discriminate.
  intros E. apply ok_pair_inv in E as [<- <-]. apply put_ok_len in E1. change (len [u8 v]) with 1 in E1. lia.
Qed.

(* one step of the generated writer: the sub-slice, the callee, the splice — against [at_off] *)
Lemma gwrite_at {C} (G : bytes -> res (bytes * Z)) (R : bytes -> res (bytes * N)) buf off (K : bytes * Z -> res C) :
  (forall sub, G sub = rmap zl (R sub)) -> wr_ok R ->
  match at_off (buf, off) R with
  | Ok (b', off') =>
      exists sub', (do t <- gslice_from buf (Z.of_N off); do x <- G t; K x) = K (sub', Z.of_N (off' - off)) /\
                   b' = gsplice buf (Z.of_N off) sub' /\ off <= off' <= len buf /\ len b' = len buf
  | Err e => (do t <- gslice_from buf (Z.of_N off); do x <- G t; K x) = Err e
  | Panic _ => exists w, (do t <- gslice_from buf (Z.of_N off); do x <- G t; K x) = Panic w
  | OOB => (do t <- gslice_from buf (Z.of_N off); do x <- G t; K x) = OOB
  end.
Proof.
  intros HG HR. unfold at_off. rewrite gslice_from_N.
  destruct (slice_from_cases buf off) as [[Hle ->]| ->]; cbn [bind]; [|eexists; reflexivity].
  rewrite HG. pose proof (HR (drop off buf)) as B.
  destruct (R (drop off buf)) as [[sub' n]|e|w|]; cbn [rmap bind zl fst snd]; try reflexivity; [|eexists; reflexivity].
  destruct (B sub' n eq_refl) as [Bn Bl]. rewrite drop_len in Bn, Bl by exact Hle.
  exists sub'. replace (off + n - off) with n by lia. split; [reflexivity|].
  unfold gsplice. rewrite N2Z.id. split; [reflexivity|]. split; [lia|].
  rewrite len_app, take_len by exact Hle. lia.
Qed.

(* rewrite the innermost int arithmetic that cannot wrap *)
Ltac wr64 :=
  match goal with
  | |- context [wraps 64 ?x] =>
    lazymatch x with context [wraps] => fail | _ => rewrite (wraps64_small x) by lia end
  end.

(* ---------- BLength ---------- *)
Definition abl_sim (e : option appex) (g : res (Z * bytes * Z)) (h : res N) : Prop :=
  match h with
  | Ok n => g = Ok (xt e, xm e, Z.of_N n)
  | Err _ => False
  | Panic _ => exists w, g = Panic w
  | OOB => g = OOB
  end.

Theorem g_appex_BLength_sim e :
  (glen (xm e) + 15 < 2 ^ 63)%Z ->
  abl_sim e (g_thrift_ApplicationException_BLength (is_none e) (xt e) (xm e)) (appex_blength e).
Proof.
  intros H. unfold g_thrift_ApplicationException_BLength, appex_blength.
  rewrite (g_thrift_FieldBeginLength_eq 0%Z 0%Z). cbn [bind].
  destruct e as [r|]; cbn [is_none gptr_check bind abl_sim xm xt] in *; [|eexists; reflexivity].
  rewrite g_thrift_StringLength_eq by lia. rewrite (g_thrift_I32Length_eq 0%Z), g_thrift_FieldStopLength_eq. cbn [bind].
  cbn [l_item] in *. unfold glen in H. repeat wr64. do 2 f_equal. lia.
Qed.

(* ---------- FastWrite / FastWriteNocopy ---------- *)
Definition aw_sim (e : option appex) (g : res (Z * bytes * bytes * Z)) (h : res (bytes * N)) : Prop :=
  match h with
  | Ok (b', n) => g = Ok (xt e, xm e, b', Z.of_N n)
  | Err c => g = Err c
  | Panic _ => exists w, g = Panic w
  | OOB => g = OOB
  end.

(* NOTE: no cbn / simpl on goals that contain a generated definition: they would expand its lets *)

(* one `off += Binary.WriteX(b[off:], ...)` of the generated FastWrite against one [at_off] of the hand model *)
Ltac hz := repeat lazymatch goal with |- aw_sim ?e (let x := ?v in @?f x) ?h => change (aw_sim e (f v) h); cbv beta end.
Ltac wstep G R HG HR :=
  hz;
  (* p.f with a non-nil receiver between the slice and the call: no effect *)
  try lazymatch goal with
      | |- aw_sim ?e (bind (gslice_from ?buf ?o) (fun t => bind (gptr_check false) (fun _ => bind (@?G' t) ?K))) ?h =>
        change (aw_sim e (bind (gslice_from buf o) (fun t => bind (G' t) K)) h)
      end;
  match goal with
  | |- aw_sim _ (bind (gslice_from ?buf (Z.of_N ?off)) (fun t => bind (@?G' t) ?K)) _ =>
    let S := fresh "S" in
    pose proof (gwrite_at G R buf off K HG HR) as S;
    let b' := fresh "b" in let off' := fresh "off" in
    destruct (at_off (buf, off) R) as [[b' off']|?e|?w|];
    [ let sub' := fresh "sub" in let E := fresh "E" in let Eb := fresh "Eb" in let Ho := fresh "Ho" in let Hl := fresh "Hl" in
      destruct S as (sub' & E & Eb & Ho & Hl); rewrite E; clear E; rewrite ?bind_Ok; cbv beta iota; hz; rewrite <- Eb; clear Eb sub';
      rewrite (wraps64_small (Z.of_N off + Z.of_N (off' - off))) by (unfold glen_ok, glen in *; lia);
      replace (Z.of_N off + Z.of_N (off' - off))%Z with (Z.of_N off') by lia
    | rewrite ?bind_Err; unfold aw_sim; exact S
    | rewrite ?bind_Panic; unfold aw_sim; exact S
    | rewrite ?bind_OOB; unfold aw_sim; exact S ]
  end.

Theorem g_appex_FastWrite_sim e (b : bytes) :
  glen_ok b -> (glen (xm e) + 4 < 2 ^ 63)%Z ->
  aw_sim e (g_thrift_ApplicationException_FastWrite (is_none e) (xt e) (xm e) b) (appex_write e b).
Proof.
  intros Hb Hm. unfold appex_write.
  cbn [fld nth_error thrift_ApplicationException_FastWrite_fields bind fst snd].
  cbv delta [g_thrift_ApplicationException_FastWrite] beta.
  hz. change 0%Z with (Z.of_N 0) at 1 2 3.
  wstep (fun s => g_thrift_WriteFieldBegin s 11%Z 1%Z) (fun s => w_field_begin s 11%Z 1%Z)
        (fun s => g_thrift_WriteFieldBegin_eq s 11%Z 1%Z) (wr_ok_field_begin 11%Z 1%Z).
  destruct e as [r|]; unfold is_none, xm, xt in *.
  2:{ hz. unfold aw_sim. rewrite gslice_from_N. destruct (slice_from_cases b0 off) as [[_ ->]| ->]; eexists; reflexivity. }
  wstep (fun s => g_thrift_WriteString s (x_msg r)) (fun s => w_binary s (x_msg r))
        (fun s => g_thrift_WriteString_eq s (x_msg r) Hm) (wr_ok_binary (x_msg r)).
  wstep (fun s => g_thrift_WriteFieldBegin s 8%Z 2%Z) (fun s => w_field_begin s 8%Z 2%Z)
        (fun s => g_thrift_WriteFieldBegin_eq s 8%Z 2%Z) (wr_ok_field_begin 8%Z 2%Z).
  wstep (fun s => g_thrift_WriteI32 s (x_type r)) (fun s => w_i32 s (x_type r))
        (fun s => g_thrift_WriteI32_eq s (x_type r)) (wr_ok_i32 (x_type r)).
  change thrift_STOP with 0%Z.
  wstep (fun s => g_thrift_WriteByte s 0%Z) (fun s => w_byte s 0%Z)
        (fun s => g_thrift_WriteByte_eq s 0%Z) (wr_ok_byte 0%Z).
  reflexivity.
Qed.

(* FastWriteNocopy ignores its writer and calls FastWrite on the same receiver *)
Theorem g_appex_FastWriteNocopy_eq isnil t m b :
  g_thrift_ApplicationException_FastWriteNocopy isnil t m b = g_thrift_ApplicationException_FastWrite isnil t m b.
Proof.
  cbv delta [g_thrift_ApplicationException_FastWriteNocopy] beta.
  destruct (g_thrift_ApplicationException_FastWrite isnil t m b) as [[[[t' m'] b'] n]| | |]; reflexivity.
Qed.

(* ---------- FastRead ---------- *)
Lemma appex_disp_spec id tp :
  appex_disp id tp =
  if ((id =? 1) && (tp =? 11))%Z then Some (rd_string_into 0%Z set_xmsg)
  else if ((id =? 2) && (tp =? 8))%Z then Some (rd_i32_into 0%Z set_xtype)
  else None.
Proof. reflexivity. Qed.

Definition appex_loop_res : Type := ((bytes * Z * Z) + (Z * bytes * Z * gerror))%type.

Definition appex_out_sim (g : res appex_loop_res) (h : res (option appex * N)) : Prop :=
  match h with
  | Ok (p', off') => g = Ok (inl (xm p', xt p', Z.of_N off'))
  | Err e => exists a1 a2 a3, g = Ok (inr (a1, a2, a3, Some e))
  | Panic _ => exists w, g = Panic w
  | OOB => g = OOB
  end.

Section AppExRead.
  (* ANY model of thrift.Binary.Skip that agrees with the hand skipper *)
  Variable xs : bytes -> Z -> res (Z * gerror).
  Hypothesis xs_ok : forall sub t, wf sub -> sim Z.of_N (xs sub t) (skipf sub t).
  Variable en : bool.        (* the package-level variable spanCacheEnable: either value *)
  Variables (fuel : nat) (b : bytes).
  Hypothesis W : wf b.
  Hypothesis Hb : glen_ok b.

  Notation loop1 := (g_thrift_ApplicationException_FastRead_loop1 xs fuel en).

  (* one scalar field: e.F, l, err = Binary.ReadXxx(b[off:]); if err != nil { return off, err }; off += l *)
  Lemma appex_field_case {A} (G : bytes -> res (A * Z * gerror)) (R : bytes -> res (A * N))
        (rdinto : Z -> (A -> appex -> appex) -> reader appex)
        (set : A -> appex -> appex) (p : option appex) off1
        (K : A * Z * gerror -> res appex_loop_res) (cont : option appex -> N -> res (option appex * N)) :
    (forall sub, wf sub -> sim zl (G sub) (R sub)) ->
    (forall sub a n, wf sub -> R sub = Ok (a, n) -> n <= len sub) ->
    (forall sub, R sub <> OOB) ->
    (forall q, rdinto 0%Z set b off1 q =
               do sub <- slice_from b off1;
               if is_none q then Panic 4 else
               do (s, l) <- relabel 0%Z (R sub); do p' <- upd q (set s); Ok (p', off1 + l)) ->
    off1 <= len b ->
    (do (p', off') <- rdinto 0%Z set b off1 p; cont p' off') <> Err e_fuel ->
    (forall s z e, is_none p = false -> exists a1 a2 a3, K (s, z, Some e) = Ok (inr (a1, a2, a3, Some e))) ->
    (forall x, is_none p = true -> exists w, K x = Panic w) ->
    (forall r s n, p = Some r -> off1 + n <= len b -> cont (Some (set s r)) (off1 + n) <> Err e_fuel ->
                   appex_out_sim (K (s, Z.of_N n, gnil)) (cont (Some (set s r)) (off1 + n))) ->
    appex_out_sim (do t <- gslice_from b (Z.of_N off1); do x <- G t; K x)
                  (do (p', off') <- rdinto 0%Z set b off1 p; cont p' off').
  Proof.
    intros HS HL NO HD Ho Hnf HE HN HK.
    pose proof (at_off_step G R b off1 K HS HL W) as S1.
    rewrite HD in *.
    destruct (slice_from_cases b off1) as [[_ Es]|Es]; rewrite Es in *; cbn [bind appex_out_sim] in *;
      [|destruct S1 as [w' S1]; rewrite S1; eexists; reflexivity].
    destruct p as [r|]; cbn [is_none upd] in *.
    - destruct (R (drop off1 b)) as [[s n]|e|w|]; cbn [relabel bind appex_out_sim] in *.
      + destruct S1 as [S1 Hle]. rewrite S1. apply (HK r s n eq_refl Hle Hnf).
      + destruct S1 as (s & z & S1). rewrite S1. change (0 + e)%Z with e. apply HE. reflexivity.
      + destruct S1 as [w' S1]. rewrite S1. eexists; reflexivity.
      + rewrite S1. reflexivity.
    - pose proof (NO (drop off1 b)) as NO'.
      destruct (R (drop off1 b)) as [[s n]|e|w|]; cbn [appex_out_sim].
      + destruct S1 as [S1 _]. rewrite S1. apply HN. reflexivity.
      + destruct S1 as (s & z & S1). rewrite S1. apply HN. reflexivity.
      + destruct S1 as [w' S1]. rewrite S1. eexists; reflexivity.
      + contradiction.
  Qed.

  Lemma r_field_begin_len'' sub a n : wf sub -> r_field_begin sub = Ok (a, n) -> n <= len sub.
  Proof. intros _ E. destruct a as [t id]. exact (r_field_begin_len sub t id n E). Qed.

  Lemma appex_loop_sim : forall f lf off p,
    (f < lf)%nat -> off <= len b ->
    read_loop 0%Z 0%Z appex_disp f b off p <> Err e_fuel ->
    appex_out_sim (loop1 (is_none p) b lf (xm p) (xt p) (Z.of_N off))
                  (read_loop 0%Z 0%Z appex_disp f b off p).
  Proof.
    pose proof Hb as Hb'. unfold glen_ok, glen in Hb'.
    induction f as [|f IH]; intros lf off p Hlf Hoff Hnf; [exfalso; apply Hnf; reflexivity|].
    destruct lf as [|lf]; [lia|]. cbn [read_loop g_thrift_ApplicationException_FastRead_loop1] in *. unfold rd_field_begin in *.
    match goal with |- appex_out_sim (bind (gslice_from b (Z.of_N off)) (fun t => bind (g_thrift_ReadFieldBegin t) ?K)) _ =>
      pose proof (at_off_step g_thrift_ReadFieldBegin r_field_begin b off K g_thrift_ReadFieldBegin_sim r_field_begin_len'' W) as S1 end.
    destruct (slice_from_cases b off) as [[_ Es]|Es]; rewrite Es in *; cbn [bind appex_out_sim] in *;
      [|destruct S1 as [w' S1]; rewrite S1; eexists; reflexivity].
    destruct (r_field_begin (drop off b)) as [[[ft fi] n]|e|w|]; cbn [relabel bind appex_out_sim] in *.
    2:{ destruct S1 as (a & z & S1). rewrite S1. destruct a as [a1 a2]. cbn [is_nil negb]. change (0 + e)%Z with e. repeat eexists. }
    2:{ destruct S1 as [w' S1]. rewrite S1. eexists; reflexivity. }
    2:{ rewrite S1. reflexivity. }
    destruct S1 as [S1 Hle]. rewrite S1. cbn [is_nil gnil negb].
    rewrite (wraps64_small (Z.of_N off + Z.of_N n)) by lia.
    replace (Z.of_N off + Z.of_N n)%Z with (Z.of_N (off + n)) by lia.
    change thrift_STOP with 0%Z in *.
    destruct (Z.eqb_spec ft 0) as [Hstop|Hstop].
    { cbn [appex_out_sim]. reflexivity. }
    rewrite appex_disp_spec in *.
    set (cont := fun (p' : option appex) (off' : N) => read_loop 0%Z 0%Z appex_disp f b off' p') in *.
    destruct ((fi =? 1) && (ft =? 11))%Z.
    { apply (appex_field_case (g_thrift_ReadString en) r_string (@rd_string_into appex) set_xmsg p (off + n) _ cont
               (g_thrift_ReadString_sim en) r_string_len r_string_not_oob ltac:(reflexivity) Hle Hnf).
      - intros s z e Hn. rewrite Hn. cbn [gptr_set bind is_nil negb]. repeat eexists.
      - intros [[s z] e] Hn. rewrite Hn. cbn [gptr_set bind]. eexists; reflexivity.
      - intros r s m -> Hle2 Hn2. cbn [is_none gptr_set bind is_nil gnil negb].
        rewrite (wraps64_small (Z.of_N (off + n) + Z.of_N m)) by lia.
        replace (Z.of_N (off + n) + Z.of_N m)%Z with (Z.of_N (off + n + m)) by lia.
        apply (IH lf (off + n + m) (Some (set_xmsg s r))); [lia|lia|exact Hn2]. }
    destruct ((fi =? 2) && (ft =? 8))%Z.
    { apply (appex_field_case g_thrift_ReadI32 r_i32 (@rd_i32_into appex) set_xtype p (off + n) _ cont
               g_thrift_ReadI32_sim r_i32_len' r_i32_not_oob ltac:(reflexivity) Hle Hnf).
      - intros s z e Hn. rewrite Hn. cbn [gptr_set bind is_nil negb]. repeat eexists.
      - intros [[s z] e] Hn. rewrite Hn. cbn [gptr_set bind]. eexists; reflexivity.
      - intros r s m -> Hle2 Hn2. cbn [is_none gptr_set bind is_nil gnil negb].
        rewrite (wraps64_small (Z.of_N (off + n) + Z.of_N m)) by lia.
        replace (Z.of_N (off + n) + Z.of_N m)%Z with (Z.of_N (off + n + m)) by lia.
        apply (IH lf (off + n + m) (Some (set_xtype s r))); [lia|lia|exact Hn2]. }
    (* default: Binary.Skip(b[off:], tp) *)
    unfold rd_skip in *. rewrite gslice_from_N.
    destruct (slice_from_cases b (off + n)) as [[_ Es2]|Es2]; rewrite Es2 in *; cbn [relabel bind appex_out_sim] in *;
      [|eexists; reflexivity].
    pose proof (xs_ok (drop (off + n) b) ft (wf_drop _ _ W)) as S3.
    pose proof (skipf_bounded (drop (off + n) b) ft) as SB.
    destruct (skipf (drop (off + n) b) ft) as [n3|e|w|]; cbn [sim relabel bind appex_out_sim] in *.
    - rewrite S3. cbn [bind is_nil gnil negb]. specialize (SB n3 (wf_drop _ _ W) eq_refl).
      rewrite drop_len in SB by lia.
      rewrite (wraps64_small (Z.of_N (off + n) + Z.of_N n3)) by lia.
      replace (Z.of_N (off + n) + Z.of_N n3)%Z with (Z.of_N (off + n + n3)) by lia.
      apply (IH lf (off + n + n3) p); [lia|lia|exact Hnf].
    - destruct S3 as [x S3]. rewrite S3. cbn [bind is_nil negb]. change (0 + e)%Z with e. repeat eexists.
    - rewrite S3. eexists; reflexivity.
    - rewrite S3. reflexivity.
  Qed.

  Definition appex_fr_sim (g : res (Z * bytes * Z * gerror)) (h : res (option appex * N)) : Prop :=
    match h with
    | Ok (p', off) => g = Ok (xt p', xm p', Z.of_N off, gnil)
    | Err e => exists a1 a2 a3, g = Ok (a1, a2, a3, Some e)
    | Panic _ => exists w, g = Panic w
    | OOB => g = OOB
    end.

  Hypothesis Hfuel : (S (length b) < fuel)%nat.

  Theorem g_appex_FastRead_sim p :
    appex_read p b <> Err e_fuel ->
    appex_fr_sim (g_thrift_ApplicationException_FastRead xs fuel en (is_none p) (xt p) (xm p) b) (appex_read p b).
  Proof.
    intros Hnf. unfold g_thrift_ApplicationException_FastRead, appex_read in *.
    pose proof (appex_loop_sim (S (length b)) fuel 0 p Hfuel ltac:(lia) Hnf) as L.
    change (Z.of_N 0) with 0%Z in L.
    destruct (read_loop 0%Z 0%Z appex_disp (S (length b)) b 0 p) as [[p' off']|e|w|]; cbn [appex_out_sim appex_fr_sim] in *.
    - rewrite L. reflexivity.
    - destruct L as (a1 & a2 & a3 & L). rewrite L. cbn [bind]. repeat eexists.
    - destruct L as [w' L]. rewrite L. eexists; reflexivity.
    - rewrite L. reflexivity.
  Qed.
End AppExRead.

