(* Proofs/ReadFullP.v — ReaderSkipDecoder.SkipN (the io.ReadFull-style loop of
   skipdecoder.go:204-219, Model/SkipDecoders.v rf_loop / rf_skipN) over an arbitrary scripted
   io.Reader (Model/BufReader.v source: any fragmentation incl. empty reads, any final error,
   final data delivered together with the error or not).

   rf_skipN_enough: whenever the source still holds n bytes, SkipN(n) returns exactly the next n
   bytes, appends them to the private buffer, and leaves the source advanced by EXACTLY n —
   nothing beyond the request is read — whatever the script is (this is where the D6 defect,
   "EOF delivered with the last bytes is treated as failure", would make the statement false). *)
From Coq Require Import ZifyN ZifyNat ZifyBool Lia.
From GV Require Import Lib.Bytes Lib.Res Gen.Consts Model.Binary Model.BufReader Model.Skip Model.SkipDecoders.
Open Scope N_scope.

Definition srest (s : source) : bytes := drop (spos s) (sdata s).
Definition src_ok (s : source) : Prop := spos s <= len (sdata s).

Lemma len_srest s : src_ok s -> len (srest s) = len (sdata s) - spos s.
Proof. intros H. unfold srest. apply drop_len. exact H. Qed.

Lemma take_split {A} m k (l : list A) : m <= k -> take m l ++ take (k - m) (drop m l) = take k l.
Proof.
  intros H. unfold take, drop. replace (N.to_nat k) with (N.to_nat m + N.to_nat (k - m))%nat by lia.
  symmetry. apply firstn_plus.
Qed.

(* one Read with room > 0 while at least [room] bytes are left *)
Lemma src_read_enough s room :
  src_ok s -> 0 < room -> room <= len (srest s) ->
  exists m eo s',
    src_read s room = (take m (srest s), eo, s') /\ m <= room /\
    (schunks s = [] -> m = room) /\
    length (schunks s') = pred (length (schunks s)) /\
    sdata s' = sdata s /\ sfinal s' = sfinal s /\ swith s' = swith s /\ spos s' = spos s + m /\
    (eo <> None -> m = room).
Proof.
  intros Hok Hroom Hle. pose proof (len_srest s Hok) as Hl.
  unfold src_read. rewrite <- Hl.
  destruct (N.eqb_spec (len (srest s)) 0) as [E|_]; [lia|].
  destruct (schunks s) as [|c rest] eqn:Hc.
  - (* exhausted script: as much as fits *)
    replace (N.min room (N.min room (len (srest s)))) with room by lia.
    fold (srest s).
    destruct (swith s && (room =? len (srest s)) && negb (room =? 0));
      (eexists room, _, _; split; [reflexivity|]; cbn [schunks sdata sfinal swith spos length pred];
       repeat split; try reflexivity; try lia; intros; reflexivity).
  - set (m := N.min c (N.min room (len (srest s)))).
    fold (srest s).
    destruct (swith s && (m =? len (srest s)) && negb (m =? 0)) eqn:Hw;
      (eexists m, _, _; split; [reflexivity|]; cbn [schunks sdata sfinal swith spos length pred];
       repeat split; try reflexivity; try (unfold m; lia); try discriminate).
    intros H. contradiction.
Qed.

(* the ReadFull loop when the source still holds the n - i missing bytes *)
Lemma rf_loop_enough : forall fuel s n i acc,
  src_ok s -> i <= n -> n - i <= len (srest s) ->
  ((if (n - i =? 0)%N then O else length (schunks s) + 1) <= fuel)%nat ->
  exists s' eo,
    rf_loop fuel s n i acc = (s', acc ++ take (n - i) (srest s), n, eo, false) /\
    sdata s' = sdata s /\ sfinal s' = sfinal s /\ swith s' = swith s /\ spos s' = spos s + (n - i).
Proof.
  induction fuel as [|f IH]; intros s n i acc Hok Hi Hle Hfu.
  - destruct (N.eqb_spec (n - i) 0) as [E|E]; [|lia].
    assert (i = n) by lia. subst i. cbn [rf_loop]. rewrite N.ltb_irrefl.
    exists s, None. rewrite E. cbn [take N.to_nat firstn]. rewrite app_nil_r.
    repeat split; try reflexivity. lia.
  - cbn [rf_loop]. destruct (N.ltb_spec i n) as [Hlt|Hge].
    + destruct (N.eqb_spec (n - i) 0) as [E|_]; [lia|].
      destruct (src_read_enough s (n - i) Hok ltac:(lia) Hle)
        as (m & eo & s1 & Hr & Hm & Hnil & Hch & Hd & Hfi & Hwi & Hp & Heo).
      rewrite Hr.
      assert (Hlb : len (take m (srest s)) = m) by (apply take_len; lia).
      destruct eo as [ev|].
      * assert (m = n - i) by (apply Heo; discriminate). subst m.
        exists s1, (Some ev). rewrite Hlb. replace (i + (n - i)) with n by lia.
        repeat split; assumption.
      * rewrite Hlb.
        assert (Hok1 : src_ok s1).
        { pose proof (len_srest s Hok). unfold src_ok in *. rewrite Hd, Hp. lia. }
        assert (Hrest1 : srest s1 = drop m (srest s)).
        { unfold srest. rewrite Hd, Hp. symmetry. apply drop_drop. }
        destruct (IH s1 n (i + m) (acc ++ take m (srest s)) Hok1 ltac:(lia))
          as (s2 & eo2 & Hl2 & Hd2 & Hf2 & Hw2 & Hp2).
        { rewrite Hrest1, drop_len by lia. lia. }
        { destruct (N.eqb_spec (n - (i + m)) 0) as [_|E2]; [lia|].
          rewrite Hch. destruct (schunks s) as [|c rest]; [specialize (Hnil eq_refl); lia|].
          cbn [length pred] in *. lia. }
        exists s2, eo2. rewrite Hl2, Hrest1. rewrite <- app_assoc.
        replace (n - (i + m)) with ((n - i) - m) by lia. rewrite take_split by lia.
        repeat split; try congruence. lia.
    + assert (i = n) by lia. subst i. exists s, None.
      replace (n - n) with 0 by lia. cbn [take N.to_nat firstn]. rewrite app_nil_r.
      repeat split; try reflexivity. lia.
Qed.

(* SkipN(n) with at least n bytes left in the source *)
Theorem rf_skipN_enough (s : rf_state) (n : N) :
  src_ok (rf_src s) -> n <= len (srest (rf_src s)) ->
  exists s',
    rf_skipN s n = (s', Ok (take n (srest (rf_src s)))) /\
    rf_n s' = rf_n s + n /\
    rf_buf s' = rf_buf s ++ take n (srest (rf_src s)) /\
    sdata (rf_src s') = sdata (rf_src s) /\ sfinal (rf_src s') = sfinal (rf_src s) /\
    swith (rf_src s') = swith (rf_src s) /\
    spos (rf_src s') = spos (rf_src s) + n.
Proof.
  intros Hok Hle. unfold rf_skipN.
  destruct (rf_loop_enough (rf_fuel (rf_src s)) (rf_src s) n 0 [] Hok ltac:(lia))
    as (s1 & eo & Hl & Hd & Hf & Hw & Hp).
  { replace (n - 0) with n by lia. exact Hle. }
  { unfold rf_fuel. destruct (n - 0 =? 0); lia. }
  rewrite Hl. replace (n - 0) with n in * by lia. cbn [app].
  rewrite N.ltb_irrefl.
  eexists. split; [reflexivity|]. cbn [rf_n rf_buf rf_src]. repeat split; assumption.
Qed.

(* ---------- not enough data: the loop ends with the source's error ---------- *)
(* one Read while fewer than [room] bytes are left *)
Lemma src_read_short s room :
  src_ok s -> len (srest s) < room ->
  exists m eo s',
    src_read s room = (take m (srest s), eo, s') /\ m <= len (srest s) /\
    length (schunks s') = pred (length (schunks s)) /\
    sdata s' = sdata s /\ sfinal s' = sfinal s /\ swith s' = swith s /\ spos s' = spos s + m /\
    (eo = None \/ eo = Some (sfinal s)) /\
    (len (srest s) = 0 -> eo = Some (sfinal s)) /\
    (schunks s = [] -> m = len (srest s)).
Proof.
  intros Hok Hlt. pose proof (len_srest s Hok) as Hl.
  unfold src_read. rewrite <- Hl.
  destruct (N.eqb_spec (len (srest s)) 0) as [E|NE].
  - exists 0, (Some (sfinal s)).
    destruct (schunks s) as [|c rest]; (eexists; split; [reflexivity|]);
      cbn [schunks sdata sfinal swith spos length pred]; repeat split; auto; try lia.
  - destruct (schunks s) as [|c rest] eqn:Hc.
    + replace (N.min room (N.min room (len (srest s)))) with (len (srest s)) by lia.
      fold (srest s).
      destruct (swith s && (len (srest s) =? len (srest s)) && negb (len (srest s) =? 0));
        (eexists (len (srest s)), _, _; split; [reflexivity|];
         cbn [schunks sdata sfinal swith spos length pred]; repeat split; auto; try lia).
    + set (m := N.min c (N.min room (len (srest s)))). fold (srest s).
      destruct (swith s && (m =? len (srest s)) && negb (m =? 0));
        (eexists m, _, _; split; [reflexivity|];
         cbn [schunks sdata sfinal swith spos length pred]; repeat split; auto; try (unfold m; lia); try discriminate).
Qed.

Lemma rf_loop_short : forall fuel s n i acc,
  src_ok s -> i <= n -> len (srest s) < n - i ->
  (length (schunks s) + (if (len (srest s) =? 0)%N then 1 else 2) <= fuel)%nat ->
  exists s' acc' i',
    rf_loop fuel s n i acc = (s', acc', i', Some (sfinal s), false) /\ i' < n.
Proof.
  induction fuel as [|f IH]; intros s n i acc Hok Hi Hlt Hfu.
  - destruct (len (srest s) =? 0); lia.
  - cbn [rf_loop]. destruct (N.ltb_spec i n) as [Hin|Hin]; [|lia].
    destruct (src_read_short s (n - i) Hok Hlt)
      as (m & eo & s1 & Hr & Hm & Hch & Hd & Hfi & Hwi & Hp & Heo & Hz & Hnil).
    rewrite Hr.
    assert (Hlb : len (take m (srest s)) = m) by (apply take_len; lia).
    destruct Heo as [-> | ->].
    + rewrite Hlb.
      assert (Hok1 : src_ok s1).
      { pose proof (len_srest s Hok). unfold src_ok in *. rewrite Hd, Hp. lia. }
      assert (Hrest1 : len (srest s1) = len (srest s) - m).
      { unfold srest. rewrite Hd, Hp. rewrite <- drop_drop. apply drop_len. exact Hm. }
      destruct (N.eqb_spec (len (srest s)) 0) as [E0|NE0]; [specialize (Hz E0); discriminate|].
      destruct (IH s1 n (i + m) (acc ++ take m (srest s)) Hok1 ltac:(lia) ltac:(lia))
        as (s2 & acc2 & i2 & Hl2 & Hi2).
      { rewrite Hch, Hrest1.
        destruct (schunks s) as [|c rest].
        - specialize (Hnil eq_refl). subst m. replace (len (srest s) - len (srest s)) with 0 by lia.
          cbn [length pred N.eqb]. lia.
        - cbn [length pred] in *. destruct (len (srest s) - m =? 0); lia. }
      exists s2, acc2, i2. rewrite Hl2, Hfi. auto.
    + exists s1, (acc ++ take m (srest s)), (i + len (take m (srest s))).
      rewrite Hlb. split; [reflexivity|lia].
Qed.

Theorem rf_skipN_short (s : rf_state) (n : N) :
  src_ok (rf_src s) -> len (srest (rf_src s)) < n ->
  exists s', rf_skipN s n = (s', Err (sfinal (rf_src s))).
Proof.
  intros Hok Hlt. unfold rf_skipN.
  destruct (rf_loop_short (rf_fuel (rf_src s)) (rf_src s) n 0 [] Hok ltac:(lia))
    as (s1 & acc1 & i1 & Hl & Hi).
  { replace (n - 0) with n by lia. exact Hlt. }
  { unfold rf_fuel. destruct (len (srest (rf_src s)) =? 0); lia. }
  rewrite Hl. destruct (N.ltb_spec i1 n); [|lia].
  eexists. reflexivity.
Qed.

(* ---------- the SkipN contract (Proofs/SkipDecodersP.v Section Tpl, Proofs/TskipAcceptP.v) ---------- *)
(* state s, started at source position p0 of the stream d0, will deliver exactly r next;
   its private buffer holds the rf_n s bytes delivered since p0 *)
Definition rf_rep0 (d0 : bytes) (p0 : N) (s : rf_state) (r : bytes) : Prop :=
  sdata (rf_src s) = d0 /\ spos (rf_src s) = p0 + rf_n s /\ spos (rf_src s) <= len d0 /\
  r = drop (spos (rf_src s)) d0 /\ rf_buf s = take (rf_n s) (drop p0 d0) /\ wf d0.
(* ... and its final error is a real error code (needed for the failing half only) *)
Definition rf_rep (d0 : bytes) (p0 : N) (s : rf_state) (r : bytes) : Prop :=
  rf_rep0 d0 p0 s r /\ sfinal (rf_src s) <> e_fuel.

Lemma wf_drop' n r : wf r -> wf (drop n r).
Proof.
  unfold wf, drop. intros H. rewrite Forall_forall in *. intros x Hx. apply H.
  rewrite <- (firstn_skipn (N.to_nat n) r). apply in_or_app. right. exact Hx.
Qed.

Lemma rf_SN_ok0 d0 p0 : forall s r n, rf_rep0 d0 p0 s r -> n <= len r ->
  exists s', rf_skipN s n = (s', Ok (take n r)) /\ rf_rep0 d0 p0 s' (drop n r) /\
             sfinal (rf_src s') = sfinal (rf_src s) /\ swith (rf_src s') = swith (rf_src s).
Proof.
  intros s r n (Hd & Hp & Hle & Hr & Hb & W) Hn.
  assert (Hok : src_ok (rf_src s)) by (unfold src_ok; rewrite Hd; exact Hle).
  assert (Hsr : srest (rf_src s) = r) by (unfold srest; rewrite Hd; symmetry; exact Hr).
  destruct (rf_skipN_enough s n Hok ltac:(rewrite Hsr; exact Hn))
    as (s' & E & Hn' & Hb' & Hd' & Hf' & Hw' & Hp').
  rewrite Hsr in *. exists s'. split; [exact E|].
  assert (Hlr : len r = len d0 - spos (rf_src s)) by (rewrite Hr; apply drop_len; exact Hle).
  split; [|split; assumption].
  unfold rf_rep0. repeat split.
  - congruence.
  - rewrite Hp', Hn', Hp. lia.
  - rewrite Hp'. lia.
  - rewrite Hp', Hr. apply drop_drop.
  - rewrite Hb', Hn', Hb, Hr, Hp. rewrite <- (drop_drop (rf_n s) p0 d0).
    replace n with (rf_n s + n - rf_n s) at 1 by lia. apply take_split. lia.
  - exact W.
Qed.

Lemma rf_rep0_wf d0 p0 : forall s r, rf_rep0 d0 p0 s r -> wf r.
Proof. intros s r (_ & _ & _ & -> & _ & W). apply wf_drop'. exact W. Qed.

Lemma rf_SN_ok d0 p0 : forall s r n, rf_rep d0 p0 s r -> n <= len r ->
  exists s', rf_skipN s n = (s', Ok (take n r)) /\ rf_rep d0 p0 s' (drop n r).
Proof.
  intros s r n [H0 Hf] Hn. destruct (rf_SN_ok0 d0 p0 s r n H0 Hn) as (s' & E & H0' & Hf' & _).
  exists s'. split; [exact E|]. split; [exact H0'|]. rewrite Hf'. exact Hf.
Qed.

Lemma rf_SN_fail d0 p0 : forall s r n, rf_rep d0 p0 s r -> len r < n ->
  exists s' c, rf_skipN s n = (s', Err c) /\ c <> e_fuel.
Proof.
  intros s r n [(Hd & Hp & Hle & Hr & Hb & W) Hf] Hn.
  assert (Hok : src_ok (rf_src s)) by (unfold src_ok; rewrite Hd; exact Hle).
  assert (Hsr : srest (rf_src s) = r) by (unfold srest; rewrite Hd; symmetry; exact Hr).
  destruct (rf_skipN_short s n Hok ltac:(rewrite Hsr; exact Hn)) as (s' & E).
  exists s', (sfinal (rf_src s)). split; [exact E|exact Hf].
Qed.

Lemma rf_rep_wf d0 p0 : forall s r, rf_rep d0 p0 s r -> wf r.
Proof. intros s r [H _]. exact (rf_rep0_wf d0 p0 s r H). Qed.
