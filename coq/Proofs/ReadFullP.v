(* Proofs/ReadFullP.v — ReaderSkipDecoder.SkipN (the io.ReadFull-style loop of
   skipdecoder.go:204-219, Model/SkipDecoders.v rf_loop / rf_skipN) over an arbitrary scripted
   io.Reader (Model/BufReader.v source: any fragmentation incl. empty reads, any final error,
   final data delivered together with the error or not).

   rf_skipN_enough: whenever the source still holds n bytes, SkipN(n) returns exactly the next n
   bytes, appends them to the private buffer, and leaves the source advanced by EXACTLY n —
   nothing beyond the request is read — whatever the script is (this is where the D6 defect,
   "EOF delivered with the last bytes is treated as failure", would make the statement false). *)
From Coq Require Import ZifyN ZifyNat ZifyBool Lia.
From GV Require Import Lib.Bytes Lib.Res Gen.Consts Model.Binary Model.BufReader Model.Skip Model.SkipDecoders.
Open Scope N_scope.

Definition srest (s : source) : bytes := drop (spos s) (sdata s).
Definition src_ok (s : source) : Prop := spos s <= len (sdata s).

Lemma len_srest s : src_ok s -> len (srest s) = len (sdata s) - spos s.
Proof. intros H. unfold srest. apply drop_len. exact H. Qed.

Lemma take_split {A} m k (l : list A) : m <= k -> take m l ++ take (k - m) (drop m l) = take k l.
Proof.
  intros H. unfold take, drop. replace (N.to_nat k) with (N.to_nat m + N.to_nat (k - m))%nat by lia.
  symmetry. apply firstn_plus.
Qed.

(* one Read with room > 0 while at least [room] bytes are left *)
Lemma src_read_enough s room :
  src_ok s -> 0 < room -> room <= len (srest s) ->
  exists m eo s',
    src_read s room = (take m (srest s), eo, s') /\ m <= room /\
    (schunks s = [] -> m = room) /\
    length (schunks s') = pred (length (schunks s)) /\
    sdata s' = sdata s /\ sfinal s' = sfinal s /\ swith s' = swith s /\ spos s' = spos s + m /\
    (eo <> None -> m = room).
Proof.
  intros Hok Hroom Hle. pose proof (len_srest s Hok) as Hl.
  unfold src_read. rewrite <- Hl.
  destruct (N.eqb_spec (len (srest s)) 0) as [E|_]; [lia|].
  destruct (schunks s) as [|c rest] eqn:Hc.
  - (* exhausted script: as much as fits *)
    replace (N.min room (N.min room (len (srest s)))) with room by lia.
    fold (srest s).
    destruct (swith s && (room =? len (srest s)) && negb (room =? 0));
      (eexists room, _, _; split; [reflexivity|]; cbn [schunks sdata sfinal swith spos length pred];
       repeat split; try reflexivity; try lia; intros; reflexivity).
  - set (m := N.min c (N.min room (len (srest s)))).
    fold (srest s).
    destruct (swith s && (m =? len (srest s)) && negb (m =? 0)) eqn:Hw;
      (eexists m, _, _; split; [reflexivity|]; cbn [schunks sdata sfinal swith spos length pred];
       repeat split; try reflexivity; try (unfold m; lia); try discriminate).
    intros H. contradiction.
Qed.

(* the ReadFull loop when the source still holds the n - i missing bytes *)
Lemma rf_loop_enough : forall fuel s n i acc,
  src_ok s -> i <= n -> n - i <= len (srest s) ->
  ((if (n - i =? 0)%N then O else length (schunks s) + 1) <= fuel)%nat ->
  exists s' eo,
    rf_loop fuel s n i acc = (s', acc ++ take (n - i) (srest s), n, eo, false) /\
    sdata s' = sdata s /\ sfinal s' = sfinal s /\ swith s' = swith s /\ spos s' = spos s + (n - i).
Proof.
  induction fuel as [|f IH]; intros s n i acc Hok Hi Hle Hfu.
  - destruct (N.eqb_spec (n - i) 0) as [E|E]; [|lia].
    assert (i = n) by lia. subst i. cbn [rf_loop]. rewrite N.ltb_irrefl.
    exists s, None. rewrite E. cbn [take N.to_nat firstn]. rewrite app_nil_r.
    repeat split; try reflexivity. lia.
  - cbn [rf_loop]. destruct (N.ltb_spec i n) as [Hlt|Hge].
    + destruct (N.eqb_spec (n - i) 0) as [E|_]; [lia|].
      destruct (src_read_enough s (n - i) Hok ltac:(lia) Hle)
        as (m & eo & s1 & Hr & Hm & Hnil & Hch & Hd & Hfi & Hwi & Hp & Heo).
      rewrite Hr.
      assert (Hlb : len (take m (srest s)) = m) by (apply take_len; lia).
      destruct eo as [ev|].
      * assert (m = n - i) by (apply Heo; discriminate). subst m.
        exists s1, (Some ev). rewrite Hlb. replace (i + (n - i)) with n by lia.
        repeat split; assumption.
      * rewrite Hlb.
        assert (Hok1 : src_ok s1).
        { unfold src_ok. rewrite Hd, Hp. pose proof (len_srest s Hok). lia. }
        assert (Hrest1 : srest s1 = drop m (srest s)).
        { unfold srest. rewrite Hd, Hp. symmetry. apply drop_drop. }
        destruct (IH s1 n (i + m) (acc ++ take m (srest s)) Hok1 ltac:(lia))
          as (s2 & eo2 & Hl2 & Hd2 & Hf2 & Hw2 & Hp2).
        { rewrite Hrest1, drop_len by lia. lia. }
        { destruct (N.eqb_spec (n - (i + m)) 0) as [_|E2]; [lia|].
          rewrite Hch. destruct (schunks s) as [|c rest]; [specialize (Hnil eq_refl); lia|].
          cbn [length pred] in *. lia. }
        exists s2, eo2. rewrite Hl2, Hrest1. rewrite <- app_assoc.
        replace (n - (i + m)) with ((n - i) - m) by lia. rewrite take_split by lia.
        repeat split; try congruence. lia.
    + assert (i = n) by lia. subst i. exists s, None.
      replace (n - n) with 0 by lia. cbn [take N.to_nat firstn]. rewrite app_nil_r.
      repeat split; try reflexivity. lia.
Qed.

(* SkipN(n) with at least n bytes left in the source *)
Theorem rf_skipN_enough (s : rf_state) (n : N) :
  src_ok (rf_src s) -> n <= len (srest (rf_src s)) ->
  exists s',
    rf_skipN s n = (s', Ok (take n (srest (rf_src s)))) /\
    rf_n s' = rf_n s + n /\
    rf_buf s' = rf_buf s ++ take n (srest (rf_src s)) /\
    sdata (rf_src s') = sdata (rf_src s) /\ sfinal (rf_src s') = sfinal (rf_src s) /\
    swith (rf_src s') = swith (rf_src s) /\
    spos (rf_src s') = spos (rf_src s) + n.
Proof.
  intros Hok Hle. unfold rf_skipN.
  destruct (rf_loop_enough (rf_fuel (rf_src s)) (rf_src s) n 0 [] Hok ltac:(lia))
    as (s1 & eo & Hl & Hd & Hf & Hw & Hp).
  { replace (n - 0) with n by lia. exact Hle. }
  { unfold rf_fuel. destruct (n - 0 =? 0); lia. }
  rewrite Hl. replace (n - 0) with n in * by lia. cbn [app].
  rewrite N.ltb_irrefl.
  eexists. split; [reflexivity|]. cbn [rf_n rf_buf rf_src]. repeat split; assumption.
Qed.
