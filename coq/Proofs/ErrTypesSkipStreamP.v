(* Proofs/ErrTypesSkipStreamP.v — C17 for the skippers that read through a source:
     Part C  the template SkipDecoderTpl.Skip ([tskip]) over any SkipN that delivers the bytes of
             a stream and fails with one of the source's errors [Src] once they run out:
             the simulation of Proofs/SkipDecodersP.v against [rc inl_none], with the error
             classes: a failure is one of the template's own protocol errors, naming a cause
             allowed at the failure point, or it is an error of SkipN, and then the reference
             parse failed exactly by truncation.  Instances: BytesSkipDecoder (Src = io.EOF),
             SkipDecoder over the bufiox reader contract, ReaderSkipDecoder over any scripted
             source (Src = the source's final error).
     Part D  BufferReader.Skip ([brskip]) against [rc inl_br], the same way; source errors arrive
             wrapped ([e_wrap]). *)
From GV Require Import Lib.Bytes Lib.Res Gen.Consts Model.Binary Model.BufReader Model.Skip
  Model.StreamSkip Model.SkipDecoders
  Spec.ThriftGrammar Spec.RefParse Spec.ErrKinds Spec.SkipCauses
  Proofs.RefLib Proofs.RefP Proofs.SkipLib Proofs.SkipDecodersP Proofs.StreamSkipP Proofs.ReadFullP
  Proofs.ErrTypesSkipP.
From Coq Require Import ZifyN ZifyNat ZifyBool Lia.
Open Scope N_scope.

Section GenC.
  Variable St : Type.
  Variable Rep : St -> bytes -> Prop.
  Variable Src : Z -> Prop.        (* the errors the source can report *)

  (* model error code c against the reference's cause set m: an own protocol error naming an
     allowed cause other than truncation (these skippers never say "buffer too short" themselves:
     running out of input is the source's error), or an error of the source exactly where the
     reference parse fails by truncation *)
  Definition errok (c m : Z) : Prop :=
    (allowed c m = true /\ c <> e_too_short) \/ (Src c /\ m = E_TRUNC).

  Definition ctsim (x : sres St unit) (r : bytes) (y : pres) : Prop :=
    match y with
    | Ok (n, _) => exists s', x = (s', Ok tt) /\ Rep s' (drop n r)
    | Err m => exists s' c, x = (s', Err c) /\ errok c m
    | _ => False
    end.

  Variable fu : nat.
  Notation P := (P fu).
  Notation P_drop := (P_drop fu).

  Section Loop.
    Variables (body : St -> sres St unit) (eR : bytes -> pres).
    Hypothesis HB : forall s r, Rep s r -> P r -> ctsim (body s) r (eR r).
    Hypothesis GE : good eR.

    Lemma t_loop_csim : forall fuel1 fuel2 cnt s r,
      Rep s r -> P r -> (length r < fuel1)%nat -> (length r < fuel2)%nat ->
      ctsim (t_loop body fuel1 cnt s) r (gelems fuel2 eR cnt r).
    Proof.
      induction fuel1 as [|f IH]; intros fuel2 cnt s r HR HP Hf1 Hf2; [lia|].
      destruct fuel2 as [|f2]; [lia|]. cbn [t_loop gelems].
      destruct (N.eqb_spec cnt 0) as [->|Hc]. { cbn. exists s. split; [reflexivity|exact HR]. }
      specialize (HB s r HR HP). unfold ctsim in HB.
      destruct (eR r) as [[n h]|er| |] eqn:ER; try contradiction; cbn [bind].
      - destruct HB as [s' [Eb HR']]. rewrite Eb. cbn [sbind].
        pose proof (GE _ _ _ ER) as Gb.
        assert (Hd : (length (drop n r) < length r)%nat).
        { apply length_drop_lt; [lia|]. intros ->. change (len (@nil N)) with 0 in Gb. lia. }
        rewrite N.pred_sub.
        specialize (IH f2 (cnt - 1) s' (drop n r) HR' (P_drop r n HP) ltac:(lia) ltac:(lia)).
        unfold ctsim in *.
        destruct (gelems f2 eR (cnt - 1) (drop n r)) as [[m hm]|er| |]; try contradiction; cbn [bind].
        + destruct IH as [s'' [E2 HR'']]. exists s''. split; [exact E2|].
          rewrite drop_plus in HR''. exact HR''.
        + exact IH.
      - destruct HB as [s' [c [Eb Hc']]]. rewrite Eb. cbn [sbind]. exists s', c. split; [reflexivity|exact Hc'].
    Qed.
  End Loop.

  Lemma pair_csim (f1 f2 : St -> sres St unit) (e1 e2 : bytes -> pres) :
    (forall s r, Rep s r -> P r -> ctsim (f1 s) r (e1 r)) ->
    (forall s r, Rep s r -> P r -> ctsim (f2 s) r (e2 r)) ->
    forall s r, Rep s r -> P r ->
      ctsim (sbind (f1 s) (fun s' _ => f2 s')) r (gpair e1 e2 r).
  Proof.
    intros H1 H2 s r HR HP. unfold gpair. specialize (H1 s r HR HP). unfold ctsim in H1.
    destruct (e1 r) as [[n h]|er| |]; try contradiction; cbn [bind].
    - destruct H1 as [s' [E1 HR']]. rewrite E1. cbn [sbind].
      specialize (H2 s' (drop n r) HR' (P_drop r n HP)). unfold ctsim in *.
      destruct (e2 (drop n r)) as [[m hm]|er| |]; try contradiction; cbn [bind].
      + destruct H2 as [s'' [E2 HR'']]. exists s''. split; [exact E2|]. rewrite drop_plus in HR''. exact HR''.
      + exact H2.
    - destruct H1 as [s' [c [E1 Hc]]]. rewrite E1. cbn [sbind]. exists s', c. split; [reflexivity|exact Hc].
  Qed.

  Lemma ctsim_shift x r k (y : pres) :
    ctsim x (drop k r) y -> ctsim x r (do (n, h) <- y; Ok (k + n, S h)).
  Proof.
    unfold ctsim. destruct y as [[n h]|er| |]; cbn [bind]; try tauto.
    intros [s' [E HR]]. exists s'. split; [exact E|]. rewrite drop_plus in HR. exact HR.
  Qed.
  Lemma ctsim_top x r (y : pres) :
    ctsim x r y -> ctsim x r (do (n, h) <- y; Ok (n, S h)).
  Proof. unfold ctsim. destruct y as [[n h]|er| |]; cbn [bind]; tauto. Qed.

  Lemma errok_own c m : allowed c m = true -> c <> e_too_short -> errok c m.
  Proof. intros H H'. left. split; assumption. Qed.
  Lemma errok_src c : Src c -> errok c E_TRUNC.
  Proof. intros H. right. split; [exact H|reflexivity]. Qed.
End GenC.

(* ================= Part C: the template ================= *)
Section TplC.
  Variable St : Type.
  Variable skipN : St -> N -> sres St bytes.
  Variable Rep : St -> bytes -> Prop.
  Variable Src : Z -> Prop.
  Hypothesis SN_ok : forall s r n, Rep s r -> n <= len r ->
    exists s', skipN s n = (s', Ok (take n r)) /\ Rep s' (drop n r).
  Hypothesis SN_fail : forall s r n, Rep s r -> len r < n ->
    exists s' c, skipN s n = (s', Err c) /\ Src c.
  Hypothesis Rep_wf : forall s r, Rep s r -> wf r.

  Notation tsimc := (ctsim St Rep Src).
  Variable fu : nat.
  Notation P := (P fu).
  Notation P_drop := (P_drop fu).

  Lemma SN_fail_sim s r n (k : St -> bytes -> sres St unit) r' : Rep s r -> len r < n ->
    tsimc (sbind (skipN s n) k) r' (Err E_TRUNC).
  Proof.
    intros HR H. destruct (SN_fail s r n HR H) as [s' [c [E Hc]]]. rewrite E. cbn [sbind ctsim ctsim].
    exists s', c. split; [reflexivity|apply errok_src, Hc].
  Qed.

  Section StructLoop.
    Variables (fld : St -> N -> sres St unit) (eR : N -> bytes -> pres).
    Hypothesis HF : forall ft s r, ft < 256 -> Rep s r -> P r -> tsimc (fld s ft) r (eR ft r).

    Lemma t_struct_loop_csim : forall fuel1 fuel2 s r,
      Rep s r -> P r -> (length r < fuel1)%nat -> (length r < fuel2)%nat ->
      tsimc (t_struct_loop skipN fld fuel1 s) r (gfields fuel2 eR r).
    Proof.
      induction fuel1 as [|f IH]; intros fuel2 s r HR HP Hf1 Hf2; [slia|].
      destruct fuel2 as [|f2]; [slia|]. cbn [t_struct_loop gfields].
      destruct r as [|ft r1].
      { apply (SN_fail_sim s []); [exact HR|]. change (len (@nil N)) with 0. slia. }
      pose proof (Rep_wf _ _ HR) as W. apply wf_cons in W as [Hft W1].
      destruct (SN_ok s (ft :: r1) 1 HR ltac:(rewrite len_cons; slia)) as [s1 [E1 HR1]].
      rewrite E1. cbn [sbind]. change (take 1 (ft :: r1)) with [ft]. change (drop 1 (ft :: r1)) with r1 in HR1.
      unfold sret at 1. cbn [sbind index N.to_nat nth_error].
      destruct (is_ty_ok ft Hft) as (_&_&_&_&_&Hstop). rewrite Hstop.
      destruct (ft =? T_STOP).
      { cbn. exists s1. split; [reflexivity|exact HR1]. }
      assert (HP1 : P r1) by (apply (P_drop (ft :: r1) 1 HP)).
      rewrite hasn_le. destruct (N.leb_spec 2 (len r1)) as [H2|H2].
      2:{ apply (SN_fail_sim s1 r1); assumption. }
      destruct (SN_ok s1 r1 2 HR1 H2) as [s2 [E2 HR2]]. rewrite E2. cbn [sbind].
      specialize (HF ft s2 (drop 2 r1) Hft HR2 (P_drop r1 2 HP1)). unfold ctsim in HF.
      destruct (eR ft (drop 2 r1)) as [[n h]|er| |]; try contradiction; cbn [bind].
      - destruct HF as [s3 [E3 HR3]]. rewrite E3. cbn [sbind].
        assert (Hl : (length (drop n (drop 2 r1)) < length (ft :: r1))%nat).
        { unfold drop. rewrite !skipn_length. cbn [length]. slia. }
        specialize (IH f2 s3 (drop n (drop 2 r1)) HR3 (P_drop _ n (P_drop r1 2 HP1)) ltac:(slia) ltac:(slia)).
        unfold ctsim in *.
        destruct (gfields f2 eR (drop n (drop 2 r1))) as [[m hm]|er| |]; try contradiction; cbn [bind].
        + destruct IH as [s4 [E4 HR4]]. exists s4. split; [exact E4|].
          rewrite !drop_plus in HR4. replace (3 + n + m) with (1 + (2 + (n + m))) by slia.
          rewrite drop_cons_succ. exact HR4.
        + exact IH.
      - destruct HF as [s3 [c [E3 Hc]]]. rewrite E3. cbn [sbind]. exists s3, c. split; [reflexivity|exact Hc].
    Qed.
  End StructLoop.

  Lemma skip_exact_c s r w h : Rep s r ->
    tsimc (sbind (skipN s w) (fun s' _ => (s', Ok tt))) r (if hasn r w then Ok (w, h) else Err E_TRUNC).
  Proof.
    intros HR. rewrite hasn_le. destruct (N.leb_spec w (len r)) as [H|H].
    - destruct (SN_ok s r w HR H) as [s' [E HR']]. rewrite E. cbn. exists s'. split; [reflexivity|exact HR'].
    - apply (SN_fail_sim s r); assumption.
  Qed.

  Lemma tskip_csim : forall d s r t, Rep s r -> t < 256 -> P r ->
    tsimc (tskip skipN d fu s t) r (rc inl_none d t r).
  Proof.
    induction d as [|d IH]; intros s r t HR Ht HP.
    { cbn [tskip rc ctsim]. exists s, e_depth. split; [reflexivity|apply errok_own; [apply allowed_depth0|discriminate]]. }
    assert (Hlen : (length r < fu)%nat) by apply HP.
    rewrite rc_S. cbn [tskip]. rewrite (tts_ok STpl t Ht). unfold sret at 1. cbn [sbind].
    rewrite fixed_width_pos.
    destruct (is_ty_ok t Ht) as (Hs&Hm&_&Hl&Hst&_). rewrite Hs, Hst, Hm, Hl. clear Hs Hst Hm Hl.
    unfold lvl, is_fixed, is_str, is_map, is_list, is_struct, fixed_width.
    destruct (kind_of t) eqn:K; cbv beta iota.
    - rewrite N2Z.id. apply skip_exact_c; exact HR.
    - (* string *)
      unfold gstring. rewrite hasn_le. destruct (N.leb_spec 4 (len r)) as [H4|H4].
      2:{ apply (SN_fail_sim s r); assumption. }
      destruct (SN_ok s r 4 HR H4) as [s1 [E1 HR1]]. rewrite E1. cbn [sbind].
      rewrite be_u32_take by exact H4. unfold sret at 1. cbn [sbind].
      pose proof (unbe4_lt r (Rep_wf _ _ HR)) as Hu. set (u := unbe (take 4 r)) in *.
      cbv zeta. rewrite i32_neg by exact Hu.
      destruct (N.leb_spec two31 u) as [Hneg|Hpos].
      { cbn [ctsim]. exists s1, e_neg_size. split; [reflexivity|apply errok_own; [reflexivity|discriminate]]. }
      rewrite i32_small by exact Hpos. rewrite N2Z.id.
      rewrite hasn_le. destruct (N.leb_spec u (len (drop 4 r))) as [Hle|Hle].
      + destruct (SN_ok s1 (drop 4 r) u HR1 Hle) as [s2 [E2 HR2]]. rewrite E2. cbn.
        exists s2. split; [reflexivity|]. rewrite drop_plus in HR2. exact HR2.
      + destruct (SN_fail s1 (drop 4 r) u HR1 Hle) as [s' [c [E Hc]]]. rewrite E. cbn [sbind ctsim].
        exists s', c. split; [reflexivity|apply errok_src, Hc].
    - (* struct *)
      apply ctsim_top. apply t_struct_loop_csim; try assumption; [|slia].
      intros ft s0 r0 Hft HR0 HP0. change (rp_es inl_none (rc inl_none d) ft r0) with (rc inl_none d ft r0).
      apply IH; assumption.
    - (* map *)
      assert (Hfail : len r < 6 -> forall y, tsimc (sbind (skipN s 6) y) r (Err E_TRUNC)).
      { intros H6 y. apply (SN_fail_sim s r); assumption. }
      destruct r as [|kt [|vt r2]]; try (apply Hfail; rewrite ?len_cons; change (len (@nil N)) with 0; slia).
      rewrite hasn_le. destruct (N.leb_spec 4 (len r2)) as [H4|H4].
      2:{ apply Hfail. rewrite !len_cons. slia. }
      clear Hfail.
      pose proof (Rep_wf _ _ HR) as W. apply wf_cons in W as [Hkt W]. apply wf_cons in W as [Hvt W2].
      destruct (SN_ok s (kt :: vt :: r2) 6 HR ltac:(rewrite !len_cons; slia)) as [s1 [E1 HR1]].
      rewrite E1. cbn [sbind]. rewrite (hdr_map kt vt r2 H4). unfold sret at 1. cbn [sbind]. cbv zeta.
      change (drop 6 (kt :: vt :: r2)) with (drop 4 r2) in HR1.
      assert (HP1 : P (drop 4 r2)) by (apply (P_drop (kt :: vt :: r2) 6 HP)).
      pose proof (unbe4_lt r2 W2) as Hu. set (u := unbe (take 4 r2)) in *.
      rewrite i32_neg by exact Hu.
      destruct (N.leb_spec two31 u) as [Hneg|Hpos].
      { cbn [ctsim]. exists s1, e_neg_size. split; [reflexivity|apply errok_own; [reflexivity|discriminate]]. }
      rewrite i32_small by exact Hpos.
      rewrite (tts_ok STpl kt Hkt), (tts_ok STpl vt Hvt). unfold sret. cbn [sbind].
      rewrite !fixed_width_pos.
      unfold rp_em, rp_m. cbn [inl_none in_map_fixed in_map_str]. rewrite Bool.orb_false_r.
      apply (ctsim_shift _ _ _ _ (kt :: vt :: r2) 6). change (drop 6 (kt :: vt :: r2)) with (drop 4 r2).
      destruct (is_fixed kt && is_fixed vt) eqn:FF.
      + apply andb_true_iff in FF as [Fk Fv]. unfold is_fixed in Fk, Fv.
        destruct (kind_of kt) as [kw| | | | |] eqn:Kk; try discriminate.
        destruct (kind_of vt) as [vw| | | | |] eqn:Kv; try discriminate.
        unfold fixed_width. rewrite Kk, Kv.
        rewrite (gelems_ext _ _ (fixedp (kw + vw))).
        2:{ intros r. rewrite <- gpair_fixed. apply gpair_ext; apply member_fixed_ext'; assumption. }
        pose proof (kind_fixed_pos _ _ Kk) as Hkw. pose proof (kind_fixed_pos _ _ Kv) as Hvw.
        rewrite gelems_fixed; [|clear - Hkw Hvw; slia|apply ldrop2].
        rewrite <- N2Z.inj_add, <- N2Z.inj_mul, N2Z.id.
        apply skip_exact_c. exact HR1.
      + rewrite N2Z.id.
        apply (t_loop_csim St Rep Src fu (fun s' => sbind (tskip skipN d fu s' kt) (fun s'' _ => tskip skipN d fu s'' vt))
                          (gpair (rc inl_none d kt) (rc inl_none d vt))); try assumption.
        * apply pair_csim; intros s0 r0 HR0 HP0; apply IH; assumption.
        * apply gpair_good; apply rc_good.
        * apply ldrop2.
    - (* list / set *)
      assert (Hfail : len r < 5 -> forall y, tsimc (sbind (skipN s 5) y) r (Err E_TRUNC)).
      { intros H5 y. apply (SN_fail_sim s r); assumption. }
      destruct r as [|et r1]; try (apply Hfail; change (len (@nil N)) with 0; slia).
      rewrite hasn_le. destruct (N.leb_spec 4 (len r1)) as [H4|H4].
      2:{ apply Hfail. rewrite !len_cons. slia. }
      clear Hfail.
      pose proof (Rep_wf _ _ HR) as W. apply wf_cons in W as [Het W1].
      destruct (SN_ok s (et :: r1) 5 HR ltac:(rewrite !len_cons; slia)) as [s1 [E1 HR1]].
      rewrite E1. cbn [sbind]. rewrite (hdr_list et r1 H4). unfold sret at 1. cbn [sbind]. cbv zeta.
      change (drop 5 (et :: r1)) with (drop 4 r1) in HR1.
      assert (HP1 : P (drop 4 r1)) by (apply (P_drop (et :: r1) 5 HP)).
      pose proof (unbe4_lt r1 W1) as Hu. set (u := unbe (take 4 r1)) in *.
      rewrite i32_neg by exact Hu.
      destruct (N.leb_spec two31 u) as [Hneg|Hpos].
      { cbn [ctsim]. exists s1, e_neg_size. split; [reflexivity|apply errok_own; [reflexivity|discriminate]]. }
      rewrite i32_small by exact Hpos.
      rewrite (tts_ok STpl et Het). unfold sret. cbn [sbind].
      rewrite !fixed_width_pos.
      unfold rp_el. cbn [inl_none in_list_str].
      apply (ctsim_shift _ _ _ _ (et :: r1) 5). change (drop 5 (et :: r1)) with (drop 4 r1).
      destruct (is_fixed et) eqn:Fe.
      + unfold is_fixed in Fe. destruct (kind_of et) as [w| | | | |] eqn:Ke; try discriminate.
        unfold fixed_width. rewrite Ke.
        rewrite (gelems_ext _ _ (fixedp w)) by (apply member_fixed_ext'; assumption).
        pose proof (kind_fixed_pos _ _ Ke) as Hw.
        rewrite gelems_fixed; [|exact Hw|apply ldrop1].
        rewrite <- N2Z.inj_mul, N2Z.id.
        apply skip_exact_c. exact HR1.
      + rewrite N2Z.id.
        rewrite (gelems_ext _ _ (rc inl_none d et)).
        2:{ intros r. unfold member. rewrite Fe. reflexivity. }
        apply (t_loop_csim St Rep Src fu (fun s' => tskip skipN d fu s' et) (rc inl_none d et)); try assumption.
        * intros s0 r0 HR0 HP0; apply IH; assumption.
        * apply rc_good.
        * apply ldrop1.
    - cbn [ctsim]. exists s, e_unknown_type. split; [reflexivity|apply errok_own; [apply allowed_unknown, K|discriminate]].
  Qed.
End TplC.

(* ---------- reading a simulation result ---------- *)
Lemma ctsim_err {St} (Rep : St -> bytes -> Prop) (Src : Z -> Prop) x r y s c :
  ctsim St Rep Src x r y -> x = (s, Err c) -> exists m, y = Err m /\ errok Src c m.
Proof.
  unfold ctsim. intros T E. destruct y as [[n h]|m| |]; try contradiction.
  - destruct T as [s' [E' _]]. congruence.
  - destruct T as [s' [c' [E' Hc]]]. exists m. split; [reflexivity|]. congruence.
Qed.

(* ================= BytesSkipDecoder ================= *)
Definition is_eof (c : Z) : Prop := c = e_eof.

Lemma bs_SN_fail_c b0 : forall s r n, bs_rep b0 s r -> len r < n ->
  exists s' c, bs_skipN s n = (s', Err c) /\ is_eof c.
Proof.
  intros s r n (Hb & Hn & Hr & W) Hlt. subst r. rewrite len_drop in Hlt.
  unfold bs_skipN. rewrite Hb.
  destruct (N.leb_spec (bs_n s + n) (len b0)); [lia|].
  exists s, e_eof. split; reflexivity.
Qed.

Theorem bs_next_err_cause b t d s c : wf b -> t < 256 ->
  bs_next_depth (bs_new b) t d = (s, Err c) ->
  exists m, rc inl_none d t b = Err m /\ errok is_eof c m.
Proof.
  intros W Ht E.
  assert (HR : bs_rep b (bs_new b) b).
  { unfold bs_rep, bs_new. cbn [bs_b bs_n]. repeat split; try assumption; try lia. }
  pose proof (tskip_csim bs_state bs_skipN (bs_rep b) is_eof (bs_SN_ok b) (bs_SN_fail_c b) (bs_rep_wf b)
                (S (length b)) d (bs_new b) b t HR Ht ltac:(unfold P; lia)) as T.
  (* the reference rejects: otherwise Next succeeds (C08) *)
  pose proof (bs_next_is_ref b t d W Ht) as R.
  destruct (rp inl_none d t b) as [[n h]|er| |] eqn:ERP; try contradiction.
  { rewrite R in E. discriminate. }
  clear R. unfold ctsim in T.
  destruct (rc inl_none d t b) as [[n h]|m| |] eqn:ERC; try contradiction.
  { apply rc_ok_iff in ERC. congruence. }
  destruct T as [s1 [c1 [ET Hc1]]].
  unfold bs_next_depth in E. change (bs_b (bs_new b)) with b in E.
  change {| bs_b := b; bs_n := 0 |} with (bs_new b) in E. rewrite ET in E. cbn [sbind] in E.
  exists m. split; [reflexivity|]. congruence.
Qed.

(* ================= ReaderSkipDecoder ================= *)
(* the state along one Next, carrying the source's final error F *)
Definition rf_repF (d0 : bytes) (p0 : N) (F : Z) (s : rf_state) (r : bytes) : Prop :=
  rf_rep0 d0 p0 s r /\ sfinal (rf_src s) = F.

Lemma rf_SN_ok_c d0 p0 F : forall s r n, rf_repF d0 p0 F s r -> n <= len r ->
  exists s', rf_skipN s n = (s', Ok (take n r)) /\ rf_repF d0 p0 F s' (drop n r).
Proof.
  intros s r n [H0 Hf] Hn. destruct (rf_SN_ok0 d0 p0 s r n H0 Hn) as (s' & E & H0' & Hf' & _).
  exists s'. split; [exact E|]. split; [exact H0'|]. rewrite Hf'. exact Hf.
Qed.
Lemma rf_SN_fail_c d0 p0 F : forall s r n, rf_repF d0 p0 F s r -> len r < n ->
  exists s' c, rf_skipN s n = (s', Err c) /\ c = F.
Proof.
  intros s r n [(Hd & Hp & Hle & Hr & Hb & W) Hf] Hn.
  assert (Hok : src_ok (rf_src s)) by (unfold src_ok; rewrite Hd; exact Hle).
  assert (Hsr : srest (rf_src s) = r) by (unfold srest; rewrite Hd; symmetry; exact Hr).
  destruct (rf_skipN_short s n Hok ltac:(rewrite Hsr; exact Hn)) as (s' & E).
  exists s', (sfinal (rf_src s)). split; [exact E|exact Hf].
Qed.
Lemma rf_repF_wf d0 p0 F : forall s r, rf_repF d0 p0 F s r -> wf r.
Proof. intros s r [H _]. exact (rf_rep0_wf d0 p0 s r H). Qed.

(* for EVERY scripted source (any fragmentation incl. empty reads, any final error, data
   delivered with the error) *)
Theorem rf_next_err_cause src blen t d s c :
  wf (sdata src) -> spos src <= len (sdata src) -> t < 256 ->
  rf_next_depth (rf_new src blen) t d = (s, Err c) ->
  exists m, rc inl_none d t (drop (spos src) (sdata src)) = Err m /\ errok (fun x => x = sfinal src) c m.
Proof.
  intros W Hp Ht E. unfold rf_next_depth, rf_new in E. cbn [rf_src rf_len] in E.
  set (r := drop (spos src) (sdata src)).
  set (s0 := {| rf_src := src; rf_n := 0; rf_buf := []; rf_len := blen |}) in *.
  assert (HR : rf_repF (sdata src) (spos src) (sfinal src) s0 r).
  { unfold rf_repF, rf_rep0, s0. cbn [rf_src rf_n rf_buf]. repeat split; try assumption; try reflexivity. lia. }
  assert (HP : P (S (length (sdata src))) r).
  { unfold P, r, drop. rewrite skipn_length. lia. }
  pose proof (tskip_csim rf_state rf_skipN (rf_repF (sdata src) (spos src) (sfinal src)) (fun x => x = sfinal src)
                (rf_SN_ok_c _ _ _) (rf_SN_fail_c _ _ _) (rf_repF_wf _ _ _)
                (S (length (sdata src))) d s0 r t HR Ht HP) as T.
  destruct (tskip rf_skipN d (S (length (sdata src))) s0 t) as [s1 [u|c1|w|]] eqn:ET; cbn [sbind] in E; try discriminate.
  assert (c1 = c) by congruence. subst c1.
  eapply ctsim_err; [exact T|reflexivity].
Qed.

(* ================= the bufiox-backed skippers, over the reader contract ================= *)
Definition src_code (c : Z) : Prop := (0 <= c < 99)%Z.
Definition wrapped_src (c : Z) : Prop := exists e, c = e_wrap e /\ src_code e.

Section ReaderContractC.
  Variable At : bytes -> N -> rstate -> Prop.

  Hypothesis RC_next_ok : forall S c st n, At S c st -> c + n <= len S ->
    exists st', r_next st (Z.of_N n) = (st', OBytes (take n (drop c S))) /\ At S (c + n) st' /\
                r_readlen st' = r_readlen st + n.
  Hypothesis RC_next_short : forall S c st n, At S c st -> len S < c + n ->
    exists st' e, r_next st (Z.of_N n) = (st', OErr e) /\ At S c st' /\ r_readlen st' = r_readlen st /\
                  (0 <= e < 99)%Z.
  Hypothesis RC_skip_ok : forall S c st n, At S c st -> c + n <= len S ->
    exists st', r_skip st (Z.of_N n) = (st', OUnit) /\ At S (c + n) st' /\
                r_readlen st' = r_readlen st + n.
  Hypothesis RC_skip_short : forall S c st n, At S c st -> len S < c + n ->
    exists st' e, r_skip st (Z.of_N n) = (st', OErr e) /\ At S c st' /\ r_readlen st' = r_readlen st /\
                  (0 <= e < 99)%Z.
  Hypothesis RC_peek_ok : forall S c st n, At S c st -> c + n <= len S ->
    exists st', r_peek st (Z.of_N n) = (st', OBytes (take n (drop c S))) /\ At S c st' /\
                r_readlen st' = r_readlen st.
  Hypothesis RC_peek_short : forall S c st n, At S c st -> len S < c + n ->
    exists st' e, r_peek st (Z.of_N n) = (st', OErr e) /\ At S c st' /\ r_readlen st' = r_readlen st /\
                  (0 <= e < 99)%Z.
  Hypothesis RC_avail : forall S c st, At S c st ->
    (length (drop c S) <= length (win st) + length (sdata (src st)))%nat.

  (* ---------- SkipDecoder.Next ---------- *)
  Lemma pk_SN_fail_c S c0 rl0 : forall s r n, pk_rep At S c0 rl0 s r -> len r < n ->
    exists s' c, pk_skipN s n = (s', Err c) /\ src_code c.
  Proof.
    intros s r n (A & Hc & -> & Hl) Hn. rewrite len_drop in Hn.
    destruct (RC_peek_short S c0 (pk_r s) (pk_rn s + n) A ltac:(slia)) as [st' [e (E & _ & _ & He)]].
    unfold pk_skipN. rewrite E. do 2 eexists. split; [reflexivity|exact He].
  Qed.

  Theorem pk_next_err_cause S c st t d rn0 s' e :
    wf S -> At S c st -> c <= len S -> t < 256 ->
    pk_next_depth {| pk_r := st; pk_rn := rn0 |} t d = (s', Err e) ->
    exists m, rc inl_none d t (drop c S) = Err m /\ errok src_code e m.
  Proof.
    intros W A Hc Ht E.
    (* the reference rejects: otherwise Next succeeds (C08) *)
    pose proof (pk_next_is_ref At RC_next_ok RC_next_short RC_skip_ok RC_skip_short RC_peek_ok RC_peek_short RC_avail S c st t d rn0 W A Hc Ht) as R.
    destruct (rp inl_none d t (drop c S)) as [[n h]|er| |] eqn:ERP; try contradiction.
    { destruct R as [st' [E' _]]. rewrite E' in E. discriminate. }
    clear R.
    unfold pk_next_depth in E. cbn [pk_r] in E.
    set (s0 := {| pk_r := st; pk_rn := 0 |}) in *.
    assert (HR : pk_rep At S c (r_readlen st) s0 (drop c S)).
    { unfold pk_rep, s0. cbn [pk_r pk_rn]. rewrite N.add_0_r. repeat split; try assumption. }
    assert (HP : P (pk_fuel st) (drop c S)).
    { unfold P, pk_fuel. pose proof (RC_avail S c st A). lia. }
    pose proof (tskip_csim pk_state pk_skipN (pk_rep At S c (r_readlen st)) src_code
                  (pk_SN_ok At RC_peek_ok S c (r_readlen st)) (pk_SN_fail_c S c (r_readlen st))
                  (pk_rep_wf At S W c (r_readlen st))
                  (pk_fuel st) d s0 (drop c S) t HR Ht HP) as T.
    unfold ctsim in T.
    destruct (rc inl_none d t (drop c S)) as [[n h]|m| |] eqn:ERC; try contradiction.
    { apply rc_ok_iff in ERC. congruence. }
    destruct T as [s1 [c1 [ET Hc1]]]. rewrite ET in E. cbn [sbind] in E.
    exists m. split; [reflexivity|]. congruence.
  Qed.
End ReaderContractC.

(* ================= Part D: BufferReader.Skip ================= *)
Section ReaderContractD.
  Variable At : bytes -> N -> rstate -> Prop.

  Hypothesis RC_next_ok : forall S c st n, At S c st -> c + n <= len S ->
    exists st', r_next st (Z.of_N n) = (st', OBytes (take n (drop c S))) /\ At S (c + n) st' /\
                r_readlen st' = r_readlen st + n.
  Hypothesis RC_next_short : forall S c st n, At S c st -> len S < c + n ->
    exists st' e, r_next st (Z.of_N n) = (st', OErr e) /\ At S c st' /\ r_readlen st' = r_readlen st /\
                  (0 <= e < 99)%Z.
  Hypothesis RC_skip_ok : forall S c st n, At S c st -> c + n <= len S ->
    exists st', r_skip st (Z.of_N n) = (st', OUnit) /\ At S (c + n) st' /\
                r_readlen st' = r_readlen st + n.
  Hypothesis RC_skip_short : forall S c st n, At S c st -> len S < c + n ->
    exists st' e, r_skip st (Z.of_N n) = (st', OErr e) /\ At S c st' /\ r_readlen st' = r_readlen st /\
                  (0 <= e < 99)%Z.
  Hypothesis RC_avail : forall S c st, At S c st ->
    (length (drop c S) <= length (win st) + length (sdata (src st)))%nat.

  Section StreamD.
    Variable S : bytes.
    Hypothesis S_wf : wf S.
    Variables (c0 rl0 : N).

    Notation br_rep := (br_rep At S c0 rl0).
    Notation br_next_ok := (br_next_ok At RC_next_ok S c0 rl0).
    Notation br_skipn_ok := (br_skipn_ok At RC_skip_ok S c0 rl0).
    Notation br_rep_wf := (br_rep_wf At S S_wf c0 rl0).
    Notation bsimc := (ctsim rstate br_rep wrapped_src).

    Lemma br_next_fail_c st r n : br_rep st r -> len r < n ->
      exists st' e, br_next st n = (st', Err e) /\ wrapped_src e.
    Proof.
      intros [c (A & Hc & -> & Hl)] Hn. rewrite len_drop in Hn.
      destruct (RC_next_short S c st n A ltac:(slia)) as [st' [e (E & _ & _ & He)]].
      exists st', (e_wrap e). unfold br_next. rewrite E. split; [reflexivity|].
      exists e. split; [reflexivity|exact He].
    Qed.
    Lemma br_skipn_fail_c st r n : br_rep st r -> len r < n ->
      exists st' e, br_skipn st (Z.of_N n) = (st', Err e) /\ wrapped_src e.
    Proof.
      intros [c (A & Hc & -> & Hl)] Hn. rewrite len_drop in Hn.
      destruct (RC_skip_short S c st n A ltac:(slia)) as [st' [e (E & _ & _ & He)]].
      exists st', (e_wrap e). unfold br_skipn. destruct (Z.ltb_spec (Z.of_N n) 0); [slia|]. rewrite E.
      split; [reflexivity|]. exists e. split; [reflexivity|exact He].
    Qed.

    Lemma br_next_fail_sim st r n (k : rstate -> bytes -> sres rstate unit) r' : br_rep st r -> len r < n ->
      bsimc (sbind (br_next st n) k) r' (Err E_TRUNC).
    Proof.
      intros HR H. destruct (br_next_fail_c st r n HR H) as [st' [e [E He]]]. rewrite E. cbn [sbind ctsim].
      exists st', e. split; [reflexivity|apply errok_src, He].
    Qed.

    Lemma br_skipn_exact_c st r w h : br_rep st r ->
      bsimc (br_skipn st (Z.of_N w)) r (if hasn r w then Ok (w, h) else Err E_TRUNC).
    Proof.
      intros HR. rewrite hasn_le. destruct (N.leb_spec w (len r)) as [H|H].
      - destruct (br_skipn_ok st r w HR H) as [st' [E HR']]. rewrite E. cbn. exists st'. auto.
      - destruct (br_skipn_fail_c st r w HR H) as [st' [e [E He]]]. rewrite E. cbn [ctsim].
        exists st', e. split; [reflexivity|apply errok_src, He].
    Qed.

    Variable fu : nat.
    Notation P := (P fu).

    Lemma br_skipstr_csim st r : br_rep st r -> P r -> bsimc (br_skipstr st) r (gstring r).
    Proof.
      intros HR HP. unfold br_skipstr, br_read_u32, gstring. rewrite hasn_le.
      destruct (N.leb_spec 4 (len r)) as [H4|H4].
      2:{ destruct (br_next_fail_c st r 4 HR H4) as [st' [e [E He]]]. rewrite E. cbn [sbind ctsim].
          exists st', e. split; [reflexivity|apply errok_src, He]. }
      destruct (br_next_ok st r 4 HR H4) as [st1 [E1 HR1]]. rewrite E1. cbn [sbind].
      rewrite be_u32_take by exact H4. cbn [sbind].
      pose proof (unbe4_lt r (br_rep_wf _ _ HR)) as Hu. set (u := unbe (take 4 r)) in *.
      destruct (N.leb_spec two31 u) as [Hneg|Hpos].
      { rewrite (br_skipn_neg st1 (i32 u)).
        - cbn [ctsim]. exists st1, e_neg_size. split; [reflexivity|apply errok_own; [reflexivity|discriminate]].
        - apply Z.ltb_lt. rewrite i32_neg by exact Hu. apply N.leb_le. exact Hneg. }
      rewrite i32_small by exact Hpos.
      pose proof (br_skipn_exact_c st1 (drop 4 r) u O HR1) as X. unfold ctsim in *.
      destruct (hasn (drop 4 r) u).
      - destruct X as [st2 [E2 HR2]]. exists st2. split; [exact E2|]. rewrite drop_plus in HR2. exact HR2.
      - exact X.
    Qed.

    Section StructLoop.
      Variables (fld : N -> rstate -> sres rstate unit) (eR : N -> bytes -> pres).
      Hypothesis HF : forall ft st r, ft < 256 -> br_rep st r -> P r -> bsimc (fld ft st) r (eR ft r).

      Lemma br_struct_loop_csim : forall fuel1 fuel2 st r,
        br_rep st r -> P r -> (length r < fuel1)%nat -> (length r < fuel2)%nat ->
        bsimc (br_struct_loop fld fuel1 st) r (gfields fuel2 eR r).
      Proof.
        induction fuel1 as [|f IH]; intros fuel2 st r HR HP Hf1 Hf2; [slia|].
        destruct fuel2 as [|f2]; [slia|]. cbn [br_struct_loop gfields]. unfold br_field_begin.
        destruct r as [|ft r1].
        { destruct (br_next_fail_c st [] 1 HR ltac:(change (len (@nil N)) with 0; slia)) as [st' [e [E He]]].
          rewrite E. cbn [sbind ctsim]. exists st', e. split; [reflexivity|apply errok_src, He]. }
        pose proof (br_rep_wf _ _ HR) as W. apply wf_cons in W as [Hft W1].
        destruct (br_next_ok st (ft :: r1) 1 HR ltac:(rewrite len_cons; slia)) as [st1 [E1 HR1]].
        rewrite E1. cbn [sbind]. change (take 1 (ft :: r1)) with [ft]. change (drop 1 (ft :: r1)) with r1 in HR1.
        cbn [index N.to_nat nth_error].
        destruct (is_ty_ok ft Hft) as (_&_&_&_&_&Hstop). rewrite Hstop.
        destruct (ft =? T_STOP) eqn:Est.
        { cbn [sbind]. rewrite Hstop. cbn. exists st1. auto. }
        assert (HP1 : P r1) by (apply (P_drop fu (ft :: r1) 1 HP)).
        rewrite hasn_le. destruct (N.leb_spec 2 (len r1)) as [H2|H2].
        2:{ destruct (br_next_fail_c st1 r1 2 HR1 H2) as [st' [e [E He]]]. rewrite E. cbn [sbind ctsim].
            exists st', e. split; [reflexivity|apply errok_src, He]. }
        destruct (br_next_ok st1 r1 2 HR1 H2) as [st2 [E2 HR2]]. rewrite E2. cbn [sbind].
        destruct (be_u16_take r1 H2) as [x Ex]. rewrite Ex. cbn [bind sbind]. rewrite Hstop.
        specialize (HF ft st2 (drop 2 r1) Hft HR2 (P_drop fu r1 2 HP1)). unfold ctsim in HF.
        destruct (eR ft (drop 2 r1)) as [[n h]|er| |]; try contradiction; cbn [bind].
        - destruct HF as [st3 [E3 HR3]]. rewrite E3. cbn [sbind].
          assert (Hl : (length (drop n (drop 2 r1)) < length (ft :: r1))%nat).
          { unfold drop. rewrite !skipn_length. cbn [length]. slia. }
          specialize (IH f2 st3 (drop n (drop 2 r1)) HR3 (P_drop fu _ n (P_drop fu r1 2 HP1)) ltac:(slia) ltac:(slia)).
          unfold ctsim in *.
          destruct (gfields f2 eR (drop n (drop 2 r1))) as [[m hm]|er| |]; try contradiction; cbn [bind].
          + destruct IH as [st4 [E4 HR4]]. exists st4. split; [exact E4|].
            rewrite !drop_plus in HR4. replace (3 + n + m) with (1 + (2 + (n + m))) by slia.
            rewrite drop_cons_succ. exact HR4.
          + exact IH.
        - destruct HF as [st3 [e [E3 He]]]. rewrite E3. cbn [sbind]. exists st3, e. auto.
      Qed.
    End StructLoop.

    Section Member.
      Variables (self : rstate -> N -> sres rstate unit) (rec : N -> bytes -> pres).
      Hypothesis HS : forall t st r, t < 256 -> br_rep st r -> P r -> bsimc (self st t) r (rec t r).

      Lemma br_kv_csim t st r : t < 256 -> br_rep st r -> P r ->
        bsimc (br_kv self (Z.of_N (fixed_width t)) t st) r (member true true rec t r).
      Proof.
        intros Ht HR HP. unfold br_kv, member. rewrite fixed_width_pos.
        destruct (is_ty_ok t Ht) as (Hs&_). rewrite Hs. cbn [andb].
        destruct (is_fixed t) eqn:F; cbn [orb].
        - unfold is_fixed in F. destruct (kind_of t) eqn:K; try discriminate.
          rewrite (leaf_fixed t width K). unfold fixed_width. rewrite K. apply br_skipn_exact_c, HR.
        - destruct (is_str t) eqn:Sx.
          + unfold is_str in Sx. destruct (kind_of t) eqn:K; try discriminate.
            rewrite (leaf_str t K). apply br_skipstr_csim; assumption.
          + apply HS; assumption.
      Qed.

      Lemma br_lelem_csim t st r : t < 256 -> is_fixed t = false -> br_rep st r -> P r ->
        bsimc (br_lelem self t st) r (member true true rec t r).
      Proof.
        intros Ht F HR HP. unfold br_lelem, member. rewrite F.
        destruct (is_ty_ok t Ht) as (Hs&_). rewrite Hs. cbn [andb orb].
        destruct (is_str t) eqn:Sx.
        - unfold is_str in Sx. destruct (kind_of t) eqn:K; try discriminate.
          rewrite (leaf_str t K). apply br_skipstr_csim; assumption.
        - apply HS; assumption.
      Qed.

      Lemma br_field_csim ft st r : ft < 256 -> br_rep st r -> P r ->
        bsimc (br_field self ft st) r (member true false rec ft r).
      Proof.
        intros Ht HR HP. unfold br_field, member. rewrite (tts_ok SBufferReader ft Ht). unfold sret. cbn [sbind].
        rewrite fixed_width_pos. cbn [andb orb]. rewrite Bool.orb_false_r.
        destruct (is_fixed ft) eqn:F.
        - unfold is_fixed in F. destruct (kind_of ft) eqn:K; try discriminate.
          rewrite (leaf_fixed ft width K). unfold fixed_width. rewrite K. apply br_skipn_exact_c, HR.
        - apply HS; assumption.
      Qed.
    End Member.

    Lemma brskip_csim : forall d st r t, br_rep st r -> t < 256 -> P r ->
      bsimc (brskip d fu st t) r (rc inl_br d t r).
    Proof.
      induction d as [|d IH]; intros st r t HR Ht HP.
      { cbn [brskip rc ctsim]. exists st, e_depth. split; [reflexivity|apply errok_own; [apply allowed_depth0|discriminate]]. }
      assert (Hlen : (length r < fu)%nat) by apply HP.
      assert (IH' : forall t st r, t < 256 -> br_rep st r -> P r -> bsimc (brskip d fu st t) r (rc inl_br d t r))
        by (intros; apply IH; assumption).
      rewrite rc_S. cbn [brskip]. rewrite (tts_ok SBufferReader t Ht). unfold sret at 1. cbn [sbind].
      rewrite fixed_width_pos.
      destruct (is_ty_ok t Ht) as (Hs&Hm&Hl&_&Hst&_). rewrite Hs, Hm, Hl, Hst. clear Hs Hm Hl Hst.
      unfold lvl, is_fixed, is_str, is_map, is_list, is_struct, fixed_width.
      destruct (kind_of t) eqn:K; cbv beta iota.
      - apply br_skipn_exact_c; exact HR.
      - apply br_skipstr_csim; assumption.
      - (* struct *)
        apply ctsim_top. apply br_struct_loop_csim; try assumption; [|slia].
        intros ft st0 r0 Hft HR0 HP0. unfold rp_es. cbn [inl_br in_struct_fixed in_struct_str].
        apply br_field_csim; assumption.
      - (* map *)
        unfold br_map_begin.
        assert (Hfail : len r < 6 -> forall (y : rstate -> bytes -> sres rstate (N * N * N)) (z : rstate -> N * N * N -> sres rstate unit),
                  bsimc (sbind (sbind (br_next st 6) y) z) r (Err E_TRUNC)).
        { intros H6 y z. destruct (br_next_fail_c st r 6 HR H6) as [st' [e [E He]]]. rewrite E. cbn [sbind ctsim].
          exists st', e. split; [reflexivity|apply errok_src, He]. }
        destruct r as [|kt [|vt r2]]; try (apply Hfail; rewrite ?len_cons; change (len (@nil N)) with 0; slia).
        rewrite hasn_le. destruct (N.leb_spec 4 (len r2)) as [H4|H4].
        2:{ apply Hfail. rewrite !len_cons. slia. }
        clear Hfail.
        pose proof (br_rep_wf _ _ HR) as W. apply wf_cons in W as [Hkt W]. apply wf_cons in W as [Hvt W2].
        destruct (br_next_ok st (kt :: vt :: r2) 6 HR ltac:(rewrite !len_cons; slia)) as [st1 [E1 HR1]].
        rewrite E1. cbn [sbind]. rewrite (hdr_map kt vt r2 H4). cbn [sbind]. cbv zeta.
        change (drop 6 (kt :: vt :: r2)) with (drop 4 r2) in HR1.
        assert (HP1 : P (drop 4 r2)) by (apply (P_drop fu (kt :: vt :: r2) 6 HP)).
        pose proof (unbe4_lt r2 W2) as Hu. set (u := unbe (take 4 r2)) in *.
        rewrite i32_neg by exact Hu.
        destruct (N.leb_spec two31 u) as [Hneg|Hpos].
        { cbn [ctsim]. exists st1, e_neg_size. split; [reflexivity|apply errok_own; [reflexivity|discriminate]]. }
        rewrite (tts_ok SBufferReader kt Hkt), (tts_ok SBufferReader vt Hvt). unfold sret. cbn [sbind].
        rewrite !fixed_width_pos.
        unfold rp_em, rp_m. cbn [inl_br in_map_fixed in_map_str]. rewrite Bool.orb_true_r.
        apply (ctsim_shift rstate br_rep wrapped_src _ (kt :: vt :: r2) 6). change (drop 6 (kt :: vt :: r2)) with (drop 4 r2).
        destruct (is_fixed kt && is_fixed vt) eqn:FF.
        + apply andb_true_iff in FF as [Fk Fv]. unfold is_fixed in Fk, Fv.
          destruct (kind_of kt) as [kw| | | | |] eqn:Kk; try discriminate.
          destruct (kind_of vt) as [vw| | | | |] eqn:Kv; try discriminate.
          unfold fixed_width. rewrite Kk, Kv.
          rewrite (gelems_ext _ _ (fixedp (kw + vw))).
          2:{ intros r. rewrite <- gpair_fixed. apply gpair_ext; apply member_fixed_ext'; assumption. }
          pose proof (kind_fixed_pos _ _ Kk). pose proof (kind_fixed_pos _ _ Kv).
          rewrite gelems_fixed; [|slia|apply ldrop2].
          rewrite <- N2Z.inj_add, <- N2Z.inj_mul.
          apply br_skipn_exact_c. exact HR1.
        + rewrite br_loop_eq.
          apply (t_loop_csim rstate br_rep wrapped_src fu); try assumption.
          * apply pair_csim; intros s0 r0 HR0 HP0; apply br_kv_csim; assumption.
          * apply gpair_good; apply member_good, rc_good.
          * apply ldrop2.
      - (* list / set *)
        unfold br_list_begin.
        assert (Hfail : len r < 5 -> forall (y : rstate -> bytes -> sres rstate (N * N)) (z : rstate -> N * N -> sres rstate unit), bsimc (sbind (sbind (br_next st 5) y) z) r (Err E_TRUNC)).
        { intros H5 y z. destruct (br_next_fail_c st r 5 HR H5) as [st' [e [E He]]]. rewrite E. cbn [sbind ctsim].
          exists st', e. split; [reflexivity|apply errok_src, He]. }
        destruct r as [|et r1]; try (apply Hfail; change (len (@nil N)) with 0; slia).
        rewrite hasn_le. destruct (N.leb_spec 4 (len r1)) as [H4|H4].
        2:{ apply Hfail. rewrite !len_cons. slia. }
        clear Hfail.
        pose proof (br_rep_wf _ _ HR) as W. apply wf_cons in W as [Het W1].
        destruct (br_next_ok st (et :: r1) 5 HR ltac:(rewrite !len_cons; slia)) as [st1 [E1 HR1]].
        rewrite E1. cbn [sbind]. rewrite (hdr_list et r1 H4). cbn [sbind]. cbv zeta.
        change (drop 5 (et :: r1)) with (drop 4 r1) in HR1.
        assert (HP1 : P (drop 4 r1)) by (apply (P_drop fu (et :: r1) 5 HP)).
        pose proof (unbe4_lt r1 W1) as Hu. set (u := unbe (take 4 r1)) in *.
        rewrite i32_neg by exact Hu.
        destruct (N.leb_spec two31 u) as [Hneg|Hpos].
        { cbn [ctsim]. exists st1, e_neg_size. split; [reflexivity|apply errok_own; [reflexivity|discriminate]]. }
        rewrite (tts_ok SBufferReader et Het). unfold sret. cbn [sbind].
        rewrite !fixed_width_pos.
        unfold rp_el. cbn [inl_br in_list_str].
        apply (ctsim_shift rstate br_rep wrapped_src _ (et :: r1) 5). change (drop 5 (et :: r1)) with (drop 4 r1).
        destruct (is_fixed et) eqn:Fe.
        + unfold is_fixed in Fe. destruct (kind_of et) as [w| | | | |] eqn:Ke; try discriminate.
          unfold fixed_width. rewrite Ke. pose proof (kind_fixed_pos _ _ Ke).
          rewrite <- N2Z.inj_mul.
          rewrite (gelems_ext _ _ (fixedp w)) by (apply member_fixed_ext'; assumption).
          rewrite gelems_fixed; [|slia|apply ldrop1].
          apply br_skipn_exact_c. exact HR1.
        + rewrite br_loop_eq.
          apply (t_loop_csim rstate br_rep wrapped_src fu); try assumption.
          * intros s0 r0 HR0 HP0; apply br_lelem_csim; assumption.
          * apply member_good, rc_good.
          * apply ldrop1.
      - cbn [ctsim]. exists st, e_unknown_type. split; [reflexivity|apply errok_own; [apply allowed_unknown, K|discriminate]].
    Qed.
  End StreamD.

  Theorem brskip_err_cause S c st t d st' e :
    wf S -> At S c st -> c <= len S -> t < 256 ->
    br_skip_depth st t d = (st', Err e) ->
    exists m, rc inl_br d t (drop c S) = Err m /\ errok wrapped_src e m.
  Proof.
    intros W A Hc Ht E. unfold br_skip_depth in E.
    assert (HR : br_rep At S c (r_readlen st) st (drop c S)).
    { exists c. repeat split; try assumption; lia. }
    assert (HP : P (r_fuel st) (drop c S)).
    { unfold P, r_fuel. pose proof (RC_avail S c st A). lia. }
    pose proof (brskip_csim S W c (r_readlen st) (r_fuel st) d st (drop c S) t HR Ht HP) as T.
    eapply ctsim_err; [exact T|exact E].
  Qed.
End ReaderContractD.
