(* Proofs/GenCorollariesAppEx.v — the ApplicationException theorems of C11 (Properties/C11.v:
   C11_blen_eq_appex, C11_rt_appex, C11_read_any_order_unknowns_appex[_closed]) restated for the
   definitions REGENERATED FROM THE GO SOURCE of protocol/thrift/exception.go on every run
   (Gen/Funcs.v g_thrift_ApplicationException_BLength / _FastWrite / _FastWriteNocopy / _FastRead,
   tools/gotrans phase 3), by rewriting with Proofs/GenEquivAppEx.v.

   The receiver is non-nil (flag false) with fields t = x_type e, m = x_msg e.  xs is ANY model of
   thrift.Binary.Skip that agrees with the hand skipper (discharged by [xskip], GenCorollariesFast);
   every fuel above length b + 1; en is the package-level variable spanCacheEnable (either value).
   Sizes: the buffers are shorter than 2^63 bytes (Go's int), nothing else. *)
From GV Require Import Lib.Bytes Lib.Res Lib.GoSem Gen.Consts Gen.Funcs Model.Binary Spec.Wire Model.Skip Model.Nocopy
     Model.FastCodec Spec.FastSpec Spec.FastRead Proofs.BinaryP Proofs.NocopyLib Proofs.NocopyP Proofs.FastCodecLib
     Proofs.FastCodecP Proofs.GenLib Proofs.GenLib3 Proofs.GenEquiv Proofs.GenEquivFast Proofs.GenEquivAppEx Proofs.GenCorollariesFast.
From Coq Require Import ZifyN ZifyNat ZifyBool.
Open Scope N_scope.

Lemma wf_appex_stream m t : wf m -> wf (appex_stream m t).
Proof.
  intros H. unfold appex_stream, enc_string_field, enc_i32_field. cbn [enc].
  repeat apply wf_app'; try apply be_wf; try apply wf_u8; try exact H.
  all: repeat constructor; unfold wfb; lia.
Qed.

(* ---------- blen_eq: BLength = number of bytes written = length of the stream ---------- *)
Theorem g_appex_blen_eq e (b : bytes) :
  glen_ok b -> len (appex_stream (x_msg e) (x_type e)) <= len b ->
  let s := appex_stream (x_msg e) (x_type e) in
  g_thrift_ApplicationException_BLength false (x_type e) (x_msg e) = Ok (x_type e, x_msg e, Z.of_N (len s)) /\
  g_thrift_ApplicationException_FastWrite false (x_type e) (x_msg e) b
    = Ok (x_type e, x_msg e, s ++ drop (len s) b, Z.of_N (len s)) /\
  g_thrift_ApplicationException_FastWriteNocopy false (x_type e) (x_msg e) b
    = Ok (x_type e, x_msg e, s ++ drop (len s) b, Z.of_N (len s)).
Proof.
  intros Hb Hl s.
  assert (len (x_msg e) + 15 <= len b) as Hm.
  { subst s. unfold appex_stream, enc_string_field, enc_i32_field in Hl. cbn [enc] in Hl.
    rewrite !len_app, !be_len, !len_cons, !len_nil in Hl. lia. }
  unfold glen_ok, glen in Hb.
  pose proof (g_appex_BLength_sim (Some e) ltac:(cbn [xm]; unfold glen; lia)) as B.
  rewrite appex_blength_eq in B. cbn [abl_sim is_none xt xm] in B.
  pose proof (g_appex_FastWrite_sim (Some e) b ltac:(unfold glen_ok, glen; lia) ltac:(cbn [xm]; unfold glen; lia)) as Wr.
  rewrite appex_write_ok in Wr by exact Hl. cbn [aw_sim is_none xt xm] in Wr.
  split; [exact B|]. split; [exact Wr|]. rewrite g_appex_FastWriteNocopy_eq. exact Wr.
Qed.

Section AppEx.
  Variable xs : bytes -> Z -> res (Z * gerror).
  Hypothesis xs_ok : forall sub t, wf sub -> sim Z.of_N (xs sub t) (skipf sub t).
  Variable en : bool.

  (* ---------- transfer: whatever the hand model returns on ANY bytes ---------- *)
  Theorem g_appex_read_ok fuel b e e' off :
    wf b -> glen_ok b -> (S (length b) < fuel)%nat ->
    appex_read (Some e) b = Ok (Some e', off) ->
    g_thrift_ApplicationException_FastRead xs fuel en false (x_type e) (x_msg e) b
    = Ok (x_type e', x_msg e', Z.of_N off, gnil).
  Proof.
    intros W Hb Hf E.
    pose proof (g_appex_FastRead_sim xs xs_ok en fuel b W Hb Hf (Some e)) as T.
    rewrite E in T. apply T. discriminate.
  Qed.

  Theorem g_appex_read_err fuel b e c :
    wf b -> glen_ok b -> (S (length b) < fuel)%nat ->
    appex_read (Some e) b = Err c -> c <> e_fuel ->
    exists a1 a2 a3,
      g_thrift_ApplicationException_FastRead xs fuel en false (x_type e) (x_msg e) b = Ok (a1, a2, a3, Some c).
  Proof.
    intros W Hb Hf E He.
    pose proof (g_appex_FastRead_sim xs xs_ok en fuel b W Hb Hf (Some e)) as T.
    rewrite E in T. apply T. intros X. inversion X. contradiction.
  Qed.

  (* ---------- rt: what FastWrite wrote into a buffer of exactly BLength bytes, FastRead reads back ---------- *)
  Theorem g_appex_rt fuel e (b : bytes) rest e0 :
    appex_ok e -> wf (x_msg e) -> wf rest -> glen_ok (b ++ rest) -> (S (length (b ++ rest)) < fuel)%nat ->
    g_thrift_ApplicationException_BLength false (x_type e) (x_msg e) = Ok (x_type e, x_msg e, Z.of_N (len b)) ->
    exists bs,
      g_thrift_ApplicationException_FastWrite false (x_type e) (x_msg e) b = Ok (x_type e, x_msg e, bs, Z.of_N (len b)) /\
      len bs = len b /\
      g_thrift_ApplicationException_FastRead xs fuel en false (x_type e0) (x_msg e0) (bs ++ rest)
      = Ok (x_type e, x_msg e, Z.of_N (len b), gnil).
  Proof.
    intros Hok Wm Wr Hb Hf HB.
    set (s := appex_stream (x_msg e) (x_type e)).
    assert (glen_ok b) as Hb1. { unfold glen_ok, glen in *. rewrite len_app in Hb. lia. }
    assert (len s = len b) as Hl.
    { assert (len (x_msg e) + 15 = len s) as Hs.
      { subst s. unfold appex_stream, enc_string_field, enc_i32_field. cbn [enc].
        rewrite !len_app, !be_len, !len_cons, !len_nil. lia. }
      destruct Hok as [Hm _]. unfold two31 in Hm.
      pose proof (g_appex_BLength_sim (Some e) ltac:(cbn [xm]; unfold glen; lia)) as B.
      rewrite appex_blength_eq in B. cbn [abl_sim is_none xt xm] in B. rewrite B in HB.
      apply ok_pair_inv in HB as [_ HB]. fold s in HB. lia. }
    destruct (g_appex_blen_eq e b Hb1 ltac:(fold s; lia)) as (_ & Wq & _). fold s in Wq.
    assert (drop (len b) b = []) as Hd.
    { unfold drop, len. rewrite Nat2N.id. apply skipn_all. }
    rewrite Hl, Hd, app_nil_r in Wq.
    exists s. split; [exact Wq|]. split; [exact Hl|].
    rewrite <- Hl. apply g_appex_read_ok.
    - apply wf_app'; [apply wf_appex_stream; exact Wm|exact Wr].
    - unfold glen_ok, glen in *. rewrite len_app in *. lia.
    - rewrite app_length in *. unfold len in Hl. lia.
    - apply appex_rt_gen. exact Hok.
  Qed.

  (* ---------- read_any_order_unknowns: any list of fields — known ones in any order and
     multiplicity, unknown ones of every type anywhere — then STOP, then anything ---------- *)
  Theorem g_appex_read_any_order_unknowns (SK : SK_exact_statement) (EW : ENC_wf_statement) fuel e its rest :
    forallb (ritem_ok appex_schema) its = true -> wf rest ->
    glen_ok (enc_ritems its ++ rest) -> (S (length (enc_ritems its ++ rest)) < fuel)%nat ->
    let e' := xrec (apply_items appex_apply (xpair e) its) in
    g_thrift_ApplicationException_FastRead xs fuel en false (x_type e) (x_msg e) (enc_ritems its ++ rest)
    = Ok (x_type e', x_msg e', Z.of_N (len (enc_ritems its)), gnil).
  Proof.
    intros H Hr Hb Hf e'. apply g_appex_read_ok; try assumption.
    - apply (wf_enc_ritems EW appex_schema its rest H Hr).
    - apply (appex_read_any_order_unknowns SK EW e its rest H Hr).
  Qed.
End AppEx.

(* non-vacuity: a frame with an unknown i64 under the KNOWN id 1, the type id, the message twice
   (the last one wins), an unknown struct; a nil receiver panics at the first known field; a
   truncated string is reported with the unlabelled error of ReadString; FastWrite / BLength *)
Example g_appex_nonvacuous :
  let fr := [10; 0; 1; 0; 0; 0; 0; 0; 0; 0; 77;  8; 0; 2; 255; 255; 255; 254;  11; 0; 1; 0; 0; 0; 1; 97;
             11; 0; 1; 0; 0; 0; 2; 98; 99;  12; 0; 9; 0;  0; 55] in
  g_thrift_ApplicationException_FastRead xskip 60 true false 7%Z [1] fr = Ok ((-2)%Z, [98; 99], 40%Z, gnil) /\
  (exists w, g_thrift_ApplicationException_FastRead xskip 60 true true 0%Z [] fr = Panic w) /\
  g_thrift_ApplicationException_FastRead xskip 60 false false 7%Z [1] [11; 0; 1; 0; 0; 0; 9; 97]
  = Ok (7%Z, [], 3%Z, Some e_read_str) /\   (* e.m, l, err = ...: the field is assigned beside the error *)
  g_thrift_ApplicationException_FastRead xskip 3 true false 7%Z [1] fr = Err gfuel /\
  g_thrift_ApplicationException_BLength false 6%Z [7; 8] = Ok (6%Z, [7; 8], 17%Z) /\
  g_thrift_ApplicationException_FastWrite false 6%Z [7; 8] (repeat 9 18)
  = Ok (6%Z, [7; 8], [11; 0; 1; 0; 0; 0; 2; 7; 8; 8; 0; 2; 0; 0; 0; 6; 0; 9], 17%Z) /\
  (exists w, g_thrift_ApplicationException_FastWrite false 6%Z [7; 8] (repeat 9 16) = Panic w) /\
  (exists w, g_thrift_ApplicationException_FastWriteNocopy true 0%Z [] (repeat 9 18) = Panic w).
Proof. vm_compute. repeat split; eexists; reflexivity. Qed.
