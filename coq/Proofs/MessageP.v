(* Proofs/MessageP.v — C12: message envelope writers / readers against Spec/Wire.enc_msg, strict
   version, truncation; MarshalFastMsg / UnmarshalFastMsg. *)
From GV Require Import Lib.Bytes Lib.Res Gen.Consts Model.Binary Model.Message Spec.Wire Proofs.BinaryP.
From Coq Require Import ZifyN ZifyNat ZifyBool.
Open Scope N_scope.

(* ---------- the first word ---------- *)
(* a finite sweep evaluated by the kernel: all t in [base, base + 2^bits) *)
Fixpoint all_below (bits : nat) (base : N) (f : N -> bool) : bool :=
  match bits with
  | O => f base
  | S b => all_below b base f && all_below b (base + 2 ^ N.of_nat b) f
  end.
Lemma all_below_spec bits : forall base f, all_below bits base f = true ->
  forall t, base <= t < base + 2 ^ N.of_nat bits -> f t = true.
Proof.
  induction bits as [|b IH]; intros base f H t Ht; cbn [all_below] in H.
  - change (2 ^ N.of_nat 0) with 1 in Ht. replace t with base by lia. exact H.
  - apply andb_true_iff in H as [H1 H2].
    replace (N.of_nat (S b)) with (N.succ (N.of_nat b)) in Ht by lia. rewrite N.pow_succ_r' in Ht.
    destruct (N.ltb_spec t (base + 2 ^ N.of_nat b)) as [Hlt|Hge].
    + apply (IH base f H1). lia.
    + apply (IH _ f H2). lia.
Qed.

Definition fw_ok (t : N) : bool :=
  (N.land (2147549184 + t) 4294901760 =? 2147549184) && (N.land (2147549184 + t) 65535 =? t).
Lemma fw_sweep : all_below 16 0 fw_ok = true.
Proof. vm_compute. reflexivity. Qed.
Lemma fw_masks t : t < 65536 ->
  N.land (2147549184 + t) 4294901760 = 2147549184 /\ N.land (2147549184 + t) 65535 = t.
Proof.
  intros H. pose proof (all_below_spec 16 0 fw_ok fw_sweep t) as Hs.
  change (2 ^ N.of_nat 16) with 65536 in Hs. specialize (Hs ltac:(lia)).
  unfold fw_ok in Hs. apply andb_true_iff in Hs as [H1 H2].
  apply N.eqb_eq in H1. apply N.eqb_eq in H2. split; assumption.
Qed.

Lemma msg_first_word_eq ty : msg_first_word ty = 2147549184 + Z.to_N (ty mod 65536)%Z.
Proof.
  unfold msg_first_word. change thrift_msgVersion1 with 2147549184%Z. change thrift_msgTypeMask with (Z.ones 16).
  rewrite Z.land_ones by lia. reflexivity.
Qed.
Lemma ty_low_lt ty : Z.to_N (ty mod 65536)%Z < 65536.
Proof. pose proof (Z.mod_pos_bound ty 65536 ltac:(lia)). lia. Qed.
Lemma msg_first_word_lt ty : msg_first_word ty < 4294967296.
Proof. rewrite msg_first_word_eq. pose proof (ty_low_lt ty). lia. Qed.

(* ---------- the three writers ---------- *)
Lemma enc_msg_eq name ty seq :
  enc_msg name ty seq = be 4 (msg_first_word ty) ++ be 4 (len name mod two32) ++ name ++ be 4 (u32 seq).
Proof. unfold enc_msg. now rewrite msg_first_word_eq. Qed.

Lemma len_enc_msg name ty seq : len (enc_msg name ty seq) = 12 + len name.
Proof. unfold enc_msg. rewrite !len_app, !be_len. lia. Qed.

Lemma a_message_begin_enc_msg buf name ty seq : a_message_begin buf name ty seq = buf ++ enc_msg name ty seq.
Proof. rewrite a_message_begin_enc, enc_msg_eq. reflexivity. Qed.

Lemma l_message_begin_enc_msg name ty seq : l_message_begin name = len (enc_msg name ty seq).
Proof. rewrite len_enc_msg. unfold l_message_begin. lia. Qed.

Lemma w_message_begin_enc buf name ty seq :
  len (enc_msg name ty seq) <= len buf ->
  w_message_begin buf name ty seq =
    Ok (enc_msg name ty seq ++ drop (len (enc_msg name ty seq)) buf, len (enc_msg name ty seq)).
Proof.
  intros Hfit.
  destruct (split_buf buf _ Hfit) as (old & rest & -> & Hold & Hrest). rewrite <- Hrest. clear Hrest Hfit.
  rewrite len_enc_msg in *. rewrite enc_msg_eq.
  replace (12 + len name) with (4 + (4 + (len name + 4))) in Hold by lia.
  destruct (len_split old _ _ Hold) as (o1 & o234 & -> & H1 & H234).
  destruct (len_split o234 _ _ H234) as (o2 & o34 & -> & H2 & H34).
  destruct (len_split o34 _ _ H34) as (o3 & o4 & -> & H3 & H4).
  unfold w_message_begin. rewrite <- !app_assoc.
  rewrite (put_at [] o1 (o2 ++ o3 ++ o4 ++ rest)) by (rewrite ?be_len; auto). cbn [bind app].
  rewrite (put_at (be 4 (msg_first_word ty)) o2 (o3 ++ o4 ++ rest)) by (rewrite ?be_len; auto). cbn [bind].
  replace (be 4 (msg_first_word ty) ++ be 4 (len name mod two32) ++ o3 ++ o4 ++ rest)
    with ((be 4 (msg_first_word ty) ++ be 4 (len name mod two32)) ++ o3 ++ o4 ++ rest) by now rewrite <- app_assoc.
  rewrite (copy_to_at _ o3 (o4 ++ rest) name) by (rewrite ?len_app, ?be_len; auto). cbn [bind].
  replace ((be 4 (msg_first_word ty) ++ be 4 (len name mod two32)) ++ name ++ o4 ++ rest)
    with (((be 4 (msg_first_word ty) ++ be 4 (len name mod two32)) ++ name) ++ o4 ++ rest) by now rewrite <- !app_assoc.
  rewrite (put_at _ o4 rest) by (rewrite ?len_app, ?be_len; auto; lia). cbn [bind].
  rewrite <- !app_assoc. replace (8 + len name + 4) with (12 + len name) by lia. reflexivity.
Qed.

Lemma w_message_begin_at_enc buf off name ty seq :
  off + len (enc_msg name ty seq) <= len buf ->
  w_message_begin_at buf off name ty seq =
    Ok (take off buf ++ enc_msg name ty seq ++ drop (off + len (enc_msg name ty seq)) buf, len (enc_msg name ty seq)).
Proof.
  intros H. unfold w_message_begin_at. rewrite slice_from_ok by lia. cbn [bind].
  rewrite w_message_begin_enc by (rewrite drop_len; lia). cbn [bind]. now rewrite drop_drop.
Qed.

(* ---------- buffer reader ---------- *)
Lemma r_message_begin_enc name ty seq rest :
  len name < two31 -> in_signed 32 seq ->
  r_message_begin (enc_msg name ty seq ++ rest) = Ok (name, (ty mod 65536)%Z, seq, len (enc_msg name ty seq)).
Proof.
  intros Hn Hs. rewrite len_enc_msg. unfold enc_msg. set (t := Z.to_N (ty mod 65536)%Z).
  assert (Ht : t < 65536) by apply ty_low_lt.
  destruct (fw_masks t Ht) as [Hm1 Hm2].
  unfold r_message_begin. rewrite <- !app_assoc.
  rewrite !len_app, be_len.
  destruct (N.ltb_spec (N.of_nat 4 + (len (be 4 (len name mod two32)) + (len name + (len (be 4 (u32 seq)) + len rest)))) 4) as [Hc|_]; [lia|].
  rewrite take_be4, unbe_be4 by lia.
  change (Z.to_N thrift_msgVersionMask) with 4294901760. change (Z.to_N thrift_msgVersion1) with 2147549184.
  change (Z.to_N thrift_msgTypeMask) with 65535.
  rewrite Hm1, Hm2, N.eqb_refl. cbn [negb].
  rewrite slice_from_ok by (rewrite !len_app, !be_len; lia). cbn [bind].
  rewrite drop_be4. unfold r_string. rewrite r_binary_gen_enc by exact Hn. cbn [to_msg_err to_msg_err_name bind].
  rewrite slice_from_ok by (rewrite !len_app, !be_len; lia). cbn [bind].
  replace (4 + (4 + len name)) with (len (be 4 (2147549184 + t) ++ be 4 (len name mod two32) ++ name))
    by (rewrite !len_app, !be_len; lia).
  replace (be 4 (2147549184 + t) ++ be 4 (len name mod two32) ++ name ++ be 4 (u32 seq) ++ rest)
    with ((be 4 (2147549184 + t) ++ be 4 (len name mod two32) ++ name) ++ be 4 (u32 seq) ++ rest)
    by now rewrite <- !app_assoc.
  rewrite drop_app_len. rewrite r_i32_enc by exact Hs. cbn [to_msg_err to_msg_err_name bind].
  rewrite !len_app, !be_len. unfold t. rewrite Z2N.id by (apply Z.mod_pos_bound; lia).
  f_equal. f_equal. lia.
Qed.

(* strict version: a first word whose upper half is not 0x8001 is rejected as bad version *)
Lemma r_message_begin_bad_version buf :
  4 <= len buf ->
  N.land (unbe (take 4 buf)) 4294901760 <> 2147549184 ->
  r_message_begin buf = Err e_bad_version.
Proof.
  intros H4 Hv. unfold r_message_begin. destruct (N.ltb_spec (len buf) 4) as [Hc|_]; [lia|].
  change (Z.to_N thrift_msgVersionMask) with 4294901760. change (Z.to_N thrift_msgVersion1) with 2147549184.
  destruct (N.eqb_spec (N.land (unbe (take 4 buf)) 4294901760) 2147549184) as [He|_]; [contradiction|reflexivity].
Qed.
Lemma r_message_begin_short buf : len buf < 4 -> r_message_begin buf = Err e_read_message.
Proof. intros H. unfold r_message_begin. destruct (N.ltb_spec (len buf) 4) as [_|Hc]; [reflexivity|lia]. Qed.

(* ---------- locality: a successful read is unchanged by anything that follows ---------- *)
Lemma take_app_le {A} (p ext : list A) n : n <= len p -> take n (p ++ ext) = take n p.
Proof.
  intros H. unfold take, len in *. rewrite firstn_app.
  replace (N.to_nat n - length p)%nat with O by lia. cbn [firstn]. now rewrite app_nil_r.
Qed.
Lemma drop_app_le {A} (p ext : list A) n : n <= len p -> drop n (p ++ ext) = drop n p ++ ext.
Proof.
  intros H. unfold drop, len in *. rewrite skipn_app.
  replace (N.to_nat n - length p)%nat with O by lia. reflexivity.
Qed.

Lemma r_i32_ext p ext v n : r_i32 p = Ok (v, n) -> r_i32 (p ++ ext) = Ok (v, n).
Proof.
  destruct (r_i32_cases p) as [[_ ->]|[H4 ->]]; [discriminate|]. intros Hx.
  destruct (r_i32_cases (p ++ ext)) as [[Hc _]|[_ ->]]; [rewrite len_app in Hc; lia|].
  rewrite take_app_le by exact H4. exact Hx.
Qed.

Lemma r_binary_gen_ext e p ext v n : r_binary_gen e p = Ok (v, n) -> r_binary_gen e (p ++ ext) = Ok (v, n).
Proof.
  intros H. apply r_binary_gen_ok in H as (sz & H4 & Hsz & -> & Hn & ->).
  unfold r_binary_gen.
  destruct (r_i32_cases (p ++ ext)) as [[Hc _]|[_ ->]]; [rewrite len_app in Hc; lia|].
  rewrite take_app_le by exact H4. rewrite Hsz.
  destruct (Z.ltb_spec (Z.of_N sz) 0) as [Hneg|_]; [lia|]. rewrite N2Z.id.
  destruct (N.ltb_spec (len (p ++ ext)) (4 + sz)) as [Hc|_]; [rewrite len_app in Hc; lia|].
  rewrite drop_app_le by exact H4.
  rewrite take_app_le by (rewrite drop_len; lia). reflexivity.
Qed.

Lemma r_message_begin_ext p ext name ty seq n :
  r_message_begin p = Ok (name, ty, seq, n) -> r_message_begin (p ++ ext) = Ok (name, ty, seq, n).
Proof.
  unfold r_message_begin. destruct (N.ltb_spec (len p) 4) as [H4|H4]; [discriminate|].
  destruct (N.ltb_spec (len (p ++ ext)) 4) as [Hc|_]; [rewrite len_app in Hc; lia|].
  rewrite (take_app_le p ext 4 H4).
  destruct (negb _); [discriminate|].
  rewrite (slice_from_ok p 4) by lia. rewrite (slice_from_ok (p ++ ext) 4) by (rewrite len_app; lia). cbn [bind].
  rewrite (drop_app_le p ext 4 H4).
  destruct (r_string (drop 4 p)) as [[nm l]|e|w|] eqn:E; cbn [to_msg_err to_msg_err_name bind]; try discriminate;
    [|destruct (e =? e_neg_size)%Z; discriminate].
  unfold r_string in *. rewrite (r_binary_gen_ext _ _ ext _ _ E). cbn [to_msg_err to_msg_err_name bind].
  apply r_binary_gen_bounded in E. rewrite drop_len in E by lia.
  rewrite (slice_from_ok p (4 + l)) by lia. rewrite (slice_from_ok (p ++ ext) (4 + l)) by (rewrite len_app; lia). cbn [bind].
  rewrite (drop_app_le p ext (4 + l)) by lia.
  destruct (r_i32 (drop (4 + l) p)) as [[sq l2]|e|w|] eqn:E2; cbn [to_msg_err to_msg_err_name bind]; try discriminate.
  rewrite (r_i32_ext _ ext _ _ E2). cbn [to_msg_err to_msg_err_name bind]. auto.
Qed.

(* the reader on a complete header, for every seq (as the int32 the writer saw) *)
Lemma r_message_begin_enc_any name ty seq rest :
  len name < two31 ->
  r_message_begin (enc_msg name ty seq ++ rest) = Ok (name, (ty mod 65536)%Z, i32 (u32 seq), len (enc_msg name ty seq)).
Proof.
  intros Hn.
  assert (He : enc_msg name ty seq = enc_msg name ty (i32 (u32 seq))).
  { unfold enc_msg. now rewrite u32_i32 by apply u32_lt. }
  rewrite He. apply r_message_begin_enc; [exact Hn|].
  apply to_signed_range; [lia|]. rewrite p32. apply u32_lt.
Qed.

(* truncated: every strict prefix of an encoded header is an error *)
Lemma r_message_begin_truncated name ty seq k :
  len name < two31 -> k < len (enc_msg name ty seq) ->
  exists e, r_message_begin (take k (enc_msg name ty seq)) = Err e.
Proof.
  intros Hn Hk.
  pose proof (r_message_begin_total (take k (enc_msg name ty seq))) as Hsafe.
  destruct (r_message_begin (take k (enc_msg name ty seq))) as [[[[nm t] sq] n]|e|w|] eqn:E;
    cbn [safe] in Hsafe; try contradiction; [|now exists e].
  exfalso.
  pose proof (r_message_begin_bounded _ _ _ _ _ E) as Hb. rewrite take_len in Hb by lia.
  apply (r_message_begin_ext _ (drop k (enc_msg name ty seq))) in E. rewrite take_drop in E.
  pose proof (r_message_begin_enc_any name ty seq [] Hn) as Hfull. rewrite app_nil_r in Hfull.
  rewrite Hfull in E. assert (n = len (enc_msg name ty seq)) by congruence. lia.
Qed.

(* ====================================================================================== *)
(* ---------- ApplicationException's FastCodec methods ---------- *)
Definition appex_enc (e : appex) : bytes := concat (map enc (appex_items e)).
Definition appex_ok (e : appex) : Prop := in_signed 32 (ex_t e) /\ len (ex_m e) < two31.

Lemma appex_enc_eq e :
  appex_enc e = enc (IFieldBegin 11 1) ++ enc (IString (ex_m e)) ++ enc (IFieldBegin 8 2) ++ enc (II32 (ex_t e)) ++ [0].
Proof. unfold appex_enc, appex_items. cbn [map concat]. rewrite app_nil_r. reflexivity. Qed.

Lemma appex_blen_enc e : appex_blen e = len (appex_enc e).
Proof.
  rewrite appex_enc_eq. cbn [enc]. rewrite !len_app, !be_len. unfold appex_blen.
  change (len [u8 11]) with 1. change (len [u8 8]) with 1. change (len [0]) with 1. lia.
Qed.

Lemma fold_add_acc l a : fold_left N.add l a = a + fold_left N.add l 0.
Proof.
  revert a; induction l as [|x l IH]; intros a; cbn [fold_left]; [lia|].
  rewrite (IH (a + x)), (IH (0 + x)). lia.
Qed.
Lemma sum_lens its : fold_left N.add (map (fun it => len (enc it)) its) 0 = len (concat (map enc its)).
Proof.
  induction its as [|it its IH]; cbn [map concat fold_left]; [reflexivity|].
  rewrite fold_add_acc, IH, len_app. lia.
Qed.

Lemma appex_write_enc e s :
  len (appex_enc e) <= len s ->
  appex_write e s = Ok (appex_enc e ++ drop (len (appex_enc e)) s, len (appex_enc e)).
Proof.
  intros H. unfold appex_write. rewrite w_seq_enc by (fold (appex_enc e); lia). cbn [bind].
  fold (appex_enc e). rewrite sum_lens. fold (appex_enc e). rewrite take_0, N.add_0_l. reflexivity.
Qed.

(* one iteration of FastRead's loop on a known field *)
Lemma slice_at (b : bytes) off tl k : off <= len b -> drop off b = tl -> k <= len tl ->
  slice_from b (off + k) = Ok (drop k tl) /\ off + k <= len b.
Proof.
  intros Ho Hd Hk. assert (Hl : len tl = len b - off) by (rewrite <- Hd; now apply drop_len).
  split; [|lia]. rewrite slice_from_ok by lia. now rewrite <- drop_drop, Hd.
Qed.

Lemma appex_loop_msg skipf f e b off m tl :
  len m < two31 -> off <= len b ->
  drop off b = enc (IFieldBegin 11 1) ++ enc (IString m) ++ tl ->
  appex_read_loop skipf (S f) e b off = appex_read_loop skipf f (mkex (ex_t e) m) b (off + 3 + (4 + len m))
  /\ off + 3 + (4 + len m) <= len b /\ drop (off + 3 + (4 + len m)) b = tl.
Proof.
  intros Hm Ho Hd. cbn [appex_read_loop].
  destruct (slice_at b off _ 0 Ho Hd ltac:(lia)) as [Hs0 _]. rewrite N.add_0_r, drop_0 in Hs0.
  rewrite Hs0. cbn [bind].
  rewrite r_field_begin_enc by (unfold in_signed; cbn; lia). change thrift_STOP with 0%Z. cbn [Z.eqb].
  assert (Hl3 : 3 <= len (enc (IFieldBegin 11 1) ++ enc (IString m) ++ tl)).
  { cbn [enc]. rewrite !len_app, be_len. change (len [u8 11]) with 1. lia. }
  destruct (slice_at b off _ 3 Ho Hd Hl3) as [Hs3 Ho3]. rewrite Hs3.
  replace (drop 3 (enc (IFieldBegin 11 1) ++ enc (IString m) ++ tl)) with (enc (IString m) ++ tl)
    by (symmetry; apply drop_app_exact; cbn [enc]; rewrite len_app, be_len; reflexivity).
  change thrift_STRING with 11%Z. cbn [Z.eqb andb].
  cbn [enc]. rewrite <- app_assoc. unfold r_string. rewrite r_binary_gen_enc by exact Hm.
  split; [reflexivity|].
  assert (Hd3 : drop (off + 3) b = be 4 (len m mod two32) ++ m ++ tl).
  { rewrite <- drop_drop, Hd. apply drop_app_exact. cbn [enc]. rewrite len_app, be_len. reflexivity. }
  assert (Hl : 4 + len m <= len (be 4 (len m mod two32) ++ m ++ tl)) by (rewrite !len_app, be_len; lia).
  destruct (slice_at b (off + 3) _ (4 + len m) Ho3 Hd3 Hl) as [Hs Hoo].
  split; [exact Hoo|].
  rewrite <- drop_drop, Hd3. rewrite app_assoc. apply drop_app_exact. rewrite len_app, be_len. reflexivity.
Qed.

Lemma appex_loop_tid skipf f e b off t tl :
  in_signed 32 t -> off <= len b ->
  drop off b = enc (IFieldBegin 8 2) ++ enc (II32 t) ++ tl ->
  appex_read_loop skipf (S f) e b off = appex_read_loop skipf f (mkex t (ex_m e)) b (off + 3 + 4)
  /\ off + 3 + 4 <= len b /\ drop (off + 3 + 4) b = tl.
Proof.
  intros Ht Ho Hd. cbn [appex_read_loop].
  destruct (slice_at b off _ 0 Ho Hd ltac:(lia)) as [Hs0 _]. rewrite N.add_0_r, drop_0 in Hs0.
  rewrite Hs0. cbn [bind].
  rewrite r_field_begin_enc by (unfold in_signed; cbn; lia). change thrift_STOP with 0%Z. cbn [Z.eqb].
  assert (Hl3 : 3 <= len (enc (IFieldBegin 8 2) ++ enc (II32 t) ++ tl)).
  { cbn [enc]. rewrite !len_app, be_len. change (len [u8 8]) with 1. lia. }
  destruct (slice_at b off _ 3 Ho Hd Hl3) as [Hs3 Ho3]. rewrite Hs3.
  replace (drop 3 (enc (IFieldBegin 8 2) ++ enc (II32 t) ++ tl)) with (enc (II32 t) ++ tl)
    by (symmetry; apply drop_app_exact; cbn [enc]; rewrite len_app, be_len; reflexivity).
  change thrift_STRING with 11%Z. change thrift_I32 with 8%Z. cbn [Z.eqb andb].
  cbn [enc]. rewrite r_i32_enc by exact Ht.
  split; [reflexivity|].
  assert (Hd3 : drop (off + 3) b = be 4 (u32 t) ++ tl).
  { rewrite <- drop_drop, Hd. apply drop_app_exact. cbn [enc]. rewrite len_app, be_len. reflexivity. }
  assert (Hl : 4 <= len (be 4 (u32 t) ++ tl)) by (rewrite !len_app, be_len; lia).
  destruct (slice_at b (off + 3) _ 4 Ho3 Hd3 Hl) as [Hs Hoo].
  split; [exact Hoo|].
  rewrite <- drop_drop, Hd3. apply drop_app_exact. rewrite be_len. reflexivity.
Qed.

Lemma appex_loop_stop skipf f e b off tl :
  off <= len b -> drop off b = 0 :: tl ->
  appex_read_loop skipf (S f) e b off = (e, Ok (off + 1)).
Proof.
  intros Ho Hd. cbn [appex_read_loop].
  destruct (slice_at b off _ 0 Ho Hd ltac:(lia)) as [Hs0 _]. rewrite N.add_0_r, drop_0 in Hs0.
  rewrite Hs0. cbn [bind]. rewrite r_field_begin_stop. change thrift_STOP with 0%Z. reflexivity.
Qed.

(* FastRead of an encoded exception, into any target, whatever follows: never calls Skip *)
Lemma appex_read_enc skipf e0 e rest :
  appex_ok e -> appex_read skipf e0 (appex_enc e ++ rest) = (e, Ok (len (appex_enc e))).
Proof.
  intros [Ht Hm]. unfold appex_read.
  set (b := appex_enc e ++ rest).
  assert (Hb : drop 0 b = enc (IFieldBegin 11 1) ++ enc (IString (ex_m e)) ++
                          (enc (IFieldBegin 8 2) ++ enc (II32 (ex_t e)) ++ 0 :: rest)).
  { unfold b. rewrite appex_enc_eq, drop_0. rewrite <- !app_assoc. reflexivity. }
  assert (Hlen : (15 <= length b)%nat).
  { assert (15 <= len b); [|unfold len in *; lia].
    unfold b. rewrite len_app, <- appex_blen_enc. unfold appex_blen. lia. }
  destruct (length b) as [|[|n]] eqn:El; try lia.
  destruct (appex_loop_msg skipf (S (S n)) e0 b 0 (ex_m e) _ Hm ltac:(lia) Hb) as (-> & Ho1 & Hd1).
  destruct (appex_loop_tid skipf (S n) (mkex (ex_t e0) (ex_m e)) b _ (ex_t e) _ Ht Ho1 Hd1) as (-> & Ho2 & Hd2).
  rewrite (appex_loop_stop skipf n _ b _ rest Ho2 Hd2). cbn [ex_m].
  destruct e as [t m]. cbn [ex_t ex_m]. f_equal. f_equal.
  rewrite <- appex_blen_enc. unfold appex_blen. cbn [ex_m]. lia.
Qed.

(* ====================================================================================== *)
(* ---------- MarshalFastMsg / UnmarshalFastMsg for an abstract payload ---------- *)
Lemma len_dirtbuf dirty sz : len (dirtbuf dirty sz) = sz.
Proof.
  unfold dirtbuf. apply take_len. rewrite len_app. unfold len at 2. rewrite repeat_length. lia.
Qed.
Lemma drop_all {A} (l : list A) n : len l <= n -> drop n l = [].
Proof. intros H. unfold drop. apply skipn_all2. unfold len in H. lia. Qed.

Section PayloadContract.
  Variable P : Type.
  Variable p_blen : P -> N.
  Variable p_write : P -> bytes -> res (bytes * N).
  Variable p_read : P -> bytes -> P * res N.
  Variable p_enc : P -> bytes.            (* the payload's encoding *)
  Variable p_target : P -> Prop.          (* structs FastRead may be called on (e.g. a fresh one) *)
  (* the round-trip contract of the payload's three methods (property C11 for the shipped structs) *)
  Hypothesis PC_blen : forall m, p_blen m = len (p_enc m).
  Hypothesis PC_write : forall m s, len (p_enc m) <= len s ->
    p_write m s = Ok (p_enc m ++ drop (len (p_enc m)) s, len (p_enc m)).
  Hypothesis PC_read : forall m0 m rest, p_target m0 -> p_read m0 (p_enc m ++ rest) = (m, Ok (len (p_enc m))).

  Lemma marshal_bytes dirty name ty seq m :
    name <> [] ->
    marshal_fast_msg P p_blen p_write dirty name ty seq m = Ok (Some (enc_msg name ty seq ++ p_enc m)).
  Proof using P p_blen p_write p_enc PC_blen PC_write.
    clear PC_read p_target p_read. intros Hne. unfold marshal_fast_msg.
    destruct (N.eqb_spec (len name) 0) as [H0|_].
    { destruct name as [|x nm]; [now contradiction Hne|]. rewrite len_cons in H0. lia. }
    rewrite PC_blen, (l_message_begin_enc_msg name ty seq).
    set (E := enc_msg name ty seq).
    set (b := dirtbuf dirty (len E + len (p_enc m))).
    assert (Hlb : len b = len E + len (p_enc m)) by apply len_dirtbuf.
    rewrite w_message_begin_enc by (fold E; lia). fold E. cbn [bind].
    rewrite slice_from_ok by (rewrite len_app; lia). cbn [bind].
    rewrite drop_app_len.
    rewrite PC_write by (rewrite drop_len; lia). cbn [bind].
    rewrite take_app_len.
    rewrite (drop_all (drop (len E) b)) by (rewrite drop_len; lia). now rewrite app_nil_r.
  Qed.

  Lemma marshal_empty_name dirty ty seq m : marshal_fast_msg P p_blen p_write dirty [] ty seq m = Ok None.
  Proof. reflexivity. Qed.

  Lemma unmarshal_plain skipf name ty seq m m0 rest :
    len name < two31 -> in_signed 32 seq -> (ty mod 65536)%Z <> thrift_EXCEPTION -> p_target m0 ->
    unmarshal_fast_msg P p_read skipf (enc_msg name ty seq ++ p_enc m ++ rest) m0 = Ok (mkures name seq UNil m).
  Proof.
    intros Hn Hs Hty Ht. unfold unmarshal_fast_msg.
    rewrite r_message_begin_enc by assumption.
    rewrite slice_from_ok by (rewrite len_app; lia). cbn [bind]. rewrite drop_app_len.
    destruct (Z.eqb_spec (ty mod 65536) thrift_EXCEPTION) as [He|_]; [contradiction|].
    rewrite PC_read by exact Ht. reflexivity.
  Qed.

  (* marshal then unmarshal: same method, sequence id and payload *)
  Lemma marshal_rt dirty skipf name ty seq m m0 :
    name <> [] -> len name < two31 -> in_signed 32 seq -> (ty mod 65536)%Z <> thrift_EXCEPTION -> p_target m0 ->
    exists b, marshal_fast_msg P p_blen p_write dirty name ty seq m = Ok (Some b) /\
              b = enc_msg name ty seq ++ p_enc m /\
              unmarshal_fast_msg P p_read skipf b m0 = Ok (mkures name seq UNil m).
  Proof.
    intros Hne Hn Hs Hty Ht. exists (enc_msg name ty seq ++ p_enc m).
    split; [now apply marshal_bytes|]. split; [reflexivity|].
    rewrite <- (app_nil_r (p_enc m)). now apply unmarshal_plain.
  Qed.

  (* an EXCEPTION-typed message never reaches the caller's struct: the exception read from the
     payload comes back as the error *)
  Lemma unmarshal_exception skipf name ty seq ex m0 rest :
    len name < two31 -> in_signed 32 seq -> (ty mod 65536)%Z = thrift_EXCEPTION -> appex_ok ex ->
    unmarshal_fast_msg P p_read skipf (enc_msg name ty seq ++ appex_enc ex ++ rest) m0
      = Ok (mkures name seq (UAppEx ex) m0).
  Proof using P p_read.
    clear PC_read PC_write PC_blen p_target p_enc p_write p_blen. intros Hn Hs Hty Hex. unfold unmarshal_fast_msg.
    rewrite r_message_begin_enc by assumption.
    rewrite slice_from_ok by (rewrite len_app; lia). cbn [bind]. rewrite drop_app_len.
    rewrite Hty, Z.eqb_refl. rewrite appex_read_enc by exact Hex. reflexivity.
  Qed.

  (* whatever the payload bytes are, an EXCEPTION-typed message leaves the caller's struct alone
     and the result is an error *)
  Lemma unmarshal_exception_never_decodes skipf b m0 u :
    (forall s t, safe (skipf s t)) ->
    unmarshal_fast_msg P p_read skipf b m0 = Ok u ->
    forall name ty seq n, r_message_begin b = Ok (name, ty, seq, n) -> ty = thrift_EXCEPTION ->
    u_msg u = m0 /\ u_err u <> UNil /\ u_method u = name /\ u_seq u = seq.
  Proof using P p_read.
    clear PC_read PC_write PC_blen p_target p_enc p_write p_blen. intros _ Hu name ty seq n Hr Hty. unfold unmarshal_fast_msg in Hu. rewrite Hr in Hu.
    pose proof (r_message_begin_bounded _ _ _ _ _ Hr) as Hb.
    rewrite slice_from_ok in Hu by exact Hb. cbn [bind] in Hu.
    rewrite Hty, Z.eqb_refl in Hu.
    destruct (appex_read skipf _ (drop n b)) as [ex r]. destruct r as [k|e|w|]; inversion Hu; subst; cbn;
      repeat split; congruence.
  Qed.
End PayloadContract.

(* the contract holds for ApplicationException itself (any target) *)
Lemma appex_contract_blen e : appex_blen e = len (appex_enc e).
Proof. apply appex_blen_enc. Qed.

(* exception_surfaces, end to end: marshalling an application exception under an EXCEPTION type
   and unmarshalling it into any struct of any payload type returns it as the error, with the
   written type id and text, and leaves the struct untouched *)
Lemma exception_surfaces (P : Type) (p_read : P -> bytes -> P * res N) dirty skipf name ty seq ex (m0 : P) :
  name <> [] -> len name < two31 -> in_signed 32 seq -> (ty mod 65536)%Z = thrift_EXCEPTION -> appex_ok ex ->
  exists b, marshal_fast_msg appex appex_blen appex_write dirty name ty seq ex = Ok (Some b) /\
            unmarshal_fast_msg P p_read skipf b m0 = Ok (mkures name seq (UAppEx ex) m0).
Proof.
  intros Hne Hn Hs Hty Hex. exists (enc_msg name ty seq ++ appex_enc ex). split.
  - apply marshal_bytes; [exact appex_blen_enc|exact appex_write_enc|exact Hne].
  - rewrite <- (app_nil_r (appex_enc ex)). apply unmarshal_exception; assumption.
Qed.

(* ====================================================================================== *)
(* ---------- no panic on arbitrary bytes (used by C03) ---------- *)
(* a skip function that never panics and never reports more than it was given *)
Definition skip_ok (skipf : bytes -> Z -> res N) : Prop :=
  (forall s t, safe (skipf s t)) /\ (forall s t n, skipf s t = Ok n -> n <= len s).

Lemma appex_read_loop_total skipf : skip_ok skipf ->
  forall fuel e b off, off <= len b ->
  safe (snd (appex_read_loop skipf fuel e b off)) /\
  (forall n, snd (appex_read_loop skipf fuel e b off) = Ok n -> n <= len b).
Proof.
  intros [Hsafe Hbound]. induction fuel as [|f IH]; intros e b off Hoff; cbn [appex_read_loop].
  - cbn [snd safe]. split; [exact I|discriminate].
  - rewrite slice_from_ok by exact Hoff. cbn [bind].
    pose proof (r_field_begin_total (drop off b)) as Hft.
    destruct (r_field_begin (drop off b)) as [[[tp id] l]|x|w|] eqn:Ef; cbn [safe] in Hft; try contradiction;
      [|cbn [snd safe]; split; [exact I|discriminate]].
    apply r_field_begin_bounded in Ef. rewrite drop_len in Ef by exact Hoff.
    destruct (Z.eqb tp thrift_STOP).
    { cbn [snd safe]. split; [exact I|]. intros n Hn. inversion Hn; subst. lia. }
    rewrite slice_from_ok by lia.
    destruct ((id =? 1)%Z && (tp =? thrift_STRING)%Z).
    { pose proof (r_string_total (drop (off + l) b)) as Hst.
      destruct (r_string (drop (off + l) b)) as [[m l2]|x|w|] eqn:Es; cbn [safe] in Hst; try contradiction;
        [|cbn [snd safe]; split; [exact I|discriminate]].
      apply r_string_bounded in Es. rewrite drop_len in Es by lia. apply IH. lia. }
    destruct ((id =? 2)%Z && (tp =? thrift_I32)%Z).
    { pose proof (r_i32_total (drop (off + l) b)) as Hst.
      destruct (r_i32 (drop (off + l) b)) as [[t l2]|x|w|] eqn:Es; cbn [safe] in Hst; try contradiction;
        [|cbn [snd safe]; split; [exact I|discriminate]].
      apply r_i32_bounded in Es. rewrite drop_len in Es by lia. apply IH. lia. }
    pose proof (Hsafe (drop (off + l) b) tp) as Hst.
    destruct (skipf (drop (off + l) b) tp) as [l2|x|w|] eqn:Es; cbn [safe] in Hst; try contradiction;
      [|cbn [snd safe]; split; [exact I|discriminate]].
    apply Hbound in Es. rewrite drop_len in Es by lia. apply IH. lia.
Qed.

Lemma appex_read_total skipf e b : skip_ok skipf ->
  safe (snd (appex_read skipf e b)) /\ (forall n, snd (appex_read skipf e b) = Ok n -> n <= len b).
Proof. intros H. unfold appex_read. apply appex_read_loop_total; [exact H|lia]. Qed.

(* the fuel S (length b) is never exhausted: every iteration consumes at least one byte *)
Lemma appex_read_loop_fuel skipf : skip_ok skipf ->
  forall fuel e b off, off <= len b -> (N.to_nat (len b - off) < fuel)%nat ->
  snd (appex_read_loop skipf fuel e b off) <> Err e_fuel \/ exists s t, skipf s t = Err e_fuel.
Proof.
  intros [Hsafe Hbound]. induction fuel as [|f IH]; intros e b off Hoff Hf; [lia|]. cbn [appex_read_loop].
  rewrite slice_from_ok by exact Hoff. cbn [bind].
  destruct (r_field_begin (drop off b)) as [[[tp id] l]|x|w|] eqn:Ef; cbn [snd]; try (left; discriminate).
  - pose proof (r_field_begin_bounded _ _ _ _ Ef) as Hb. rewrite drop_len in Hb by exact Hoff.
    assert (Hl : 1 <= l).
    { unfold r_field_begin, need in Ef. destruct (N.ltb_spec (len (drop off b)) 1); cbn [bind] in Ef; [discriminate|].
      destruct (Z.eqb _ _); [inversion Ef; lia|]. destruct (N.ltb_spec (len (drop off b)) 3); cbn [bind] in Ef; [discriminate|inversion Ef; lia]. }
    destruct (Z.eqb tp thrift_STOP); [left; discriminate|].
    rewrite slice_from_ok by lia.
    destruct ((id =? 1)%Z && (tp =? thrift_STRING)%Z).
    { destruct (r_string (drop (off + l) b)) as [[m l2]|x|w|] eqn:Es; cbn [snd]; try (left; discriminate).
      - apply r_string_bounded in Es. rewrite drop_len in Es by lia. apply IH; lia.
      - left. apply r_binary_gen_err in Es. intros Hx. inversion Hx; subst. destruct Es; discriminate. }
    destruct ((id =? 2)%Z && (tp =? thrift_I32)%Z).
    { destruct (r_i32_cases (drop (off + l) b)) as [[_ ->]|[H4 ->]]; cbn [snd]; [left; discriminate|].
      rewrite drop_len in H4 by lia. apply IH; lia. }
    destruct (skipf (drop (off + l) b) tp) as [l2|x|w|] eqn:Es; cbn [snd]; try (left; discriminate).
    + apply Hbound in Es. rewrite drop_len in Es by lia. apply IH; lia.
    + destruct (Z.eqb_spec x e_fuel) as [->|Hne]; [right; eauto|left; congruence].
  - left. unfold r_field_begin, need in Ef.
    destruct (N.ltb_spec (len (drop off b)) 1); cbn [bind] in Ef; [inversion Ef; discriminate|].
    destruct (Z.eqb _ _); [discriminate|].
    destruct (N.ltb_spec (len (drop off b)) 3); cbn [bind] in Ef; [inversion Ef; discriminate|discriminate].
Qed.

(* UnmarshalFastMsg never panics on any bytes, for any payload whose FastRead model never panics *)
Lemma unmarshal_total (P : Type) (p_read : P -> bytes -> P * res N) skipf b (m0 : P) :
  skip_ok skipf -> (forall m s, safe (snd (p_read m s))) ->
  safe (unmarshal_fast_msg P p_read skipf b m0).
Proof.
  intros Hsk Hp. unfold unmarshal_fast_msg.
  pose proof (r_message_begin_total b) as Hm.
  destruct (r_message_begin b) as [[[[name ty] seq] i]|x|w|] eqn:Er; cbn [safe] in Hm; try contradiction; [|exact I].
  apply r_message_begin_bounded in Er. rewrite slice_from_ok by exact Er. cbn [bind].
  destruct (Z.eqb ty thrift_EXCEPTION).
  - destruct (appex_read_total skipf (mkex thrift_UNKNOWN_APPLICATION_EXCEPTION []) (drop i b) Hsk) as [Hs _].
    destruct (appex_read skipf _ (drop i b)) as [ex r]. cbn [snd] in Hs. destruct r; cbn [safe] in *; auto.
  - pose proof (Hp m0 (drop i b)) as Hs. destruct (p_read m0 (drop i b)) as [m' r]. cbn [snd] in Hs.
    destruct r; cbn [safe] in *; auto.
Qed.

(* the limited skip function of the correspondence satisfies skip_ok *)
Lemma skip_scalar_ok : skip_ok skip_scalar.
Proof.
  split.
  - intros s t. unfold skip_scalar.
    destruct (len s =? 0); [exact I|]. destruct (0 <? _); [destruct (len s <? _); exact I|].
    destruct (Z.eqb t thrift_STRING).
    + destruct (4 <=? len s); [|exact I]. destruct (Z.ltb _ 0); [exact I|]. destruct (_ <=? len s); exact I.
    + destruct (_ || _); exact I.
  - intros s t n. unfold skip_scalar.
    set (k := Z.to_N (nth (N.to_nat (u8 t)) thrift_typeToSize 0%Z)).
    destruct (len s =? 0); [discriminate|]. destruct (0 <? k).
    { destruct (N.ltb_spec (len s) k) as [Hlt|Hge]; [discriminate|].
      intros Hx. assert (Hn : n = k) by congruence. lia. }
    destruct (Z.eqb t thrift_STRING).
    + destruct (4 <=? len s); [|discriminate]. destruct (Z.ltb _ 0); [discriminate|].
      destruct (N.leb_spec (4 + Z.to_N (i32 (unbe (take 4 s)))) (len s)) as [Hle|Hgt]; [|discriminate].
      intros Hx. assert (Hn : n = 4 + Z.to_N (i32 (unbe (take 4 s)))) by congruence. rewrite Hn. exact Hle.
    + destruct (_ || _); discriminate.
Qed.

Lemma appex_read_fuel_ok skipf e b : skip_ok skipf -> (forall s t, skipf s t <> Err e_fuel) ->
  snd (appex_read skipf e b) <> Err e_fuel.
Proof.
  intros Hs Hnf. unfold appex_read.
  destruct (appex_read_loop_fuel skipf Hs (S (length b)) e b 0) as [H|(s & t & H)]; [lia| |exact H|].
  - rewrite N.sub_0_r. unfold len. lia.
  - exfalso. exact (Hnf s t H).
Qed.
