(* Proofs/StreamSkipP.v — the two bufiox-backed skippers against the reference parser:
     BufferReader.Skip          (brskip)            vs  rp inl_br
     SkipDecoder.Next (Peek)    (tskip over pk_skipN) vs  rp inl_none
   for every reader state that satisfies the reader contract.

   The contract (hypotheses RC_...) is what the refinement of the buffered reader (property
   C04) provides, in the same shape as Proofs/StreamReaderP.v (engineer codec):
   [At S c st] = "st is a reachable reader state positioned at cursor c of stream S whose
   script cannot stall".  Added here: the same facts for Skip and Peek, that the remaining
   stream is not longer than what the model's fuel counts, and that source errors are not the
   model's out-of-fuel code.  The theorems take the contract as explicit premises.

   Agreement is exact for streams of any length (since the repair 2c7f196 BufferReader tests
   int32(sz) < 0 and the template reads the STRING length as int32). *)
From GV Require Import Lib.Bytes Lib.Res Gen.Consts Model.Binary Model.BufReader Model.Skip
  Model.StreamSkip Model.SkipDecoders
  Spec.ThriftGrammar Spec.RefParse Proofs.RefLib Proofs.RefP Proofs.SkipLib Proofs.SkipDecodersP.
From Coq Require Import ZifyN ZifyNat ZifyBool Lia.
Open Scope N_scope.

Lemma br_loop_eq body : forall f c st, br_loop body f c st = t_loop body f c st.
Proof.
  induction f as [|f IH]; intros c st; cbn [br_loop t_loop]; [reflexivity|].
  destruct (c =? 0); [reflexivity|].
  destruct (body st) as [st' [u|e|w|]]; cbn [sbind]; try reflexivity; apply IH.
Qed.

Lemma gelems_count f e : good e -> forall c r n h, gelems f e c r = Ok (n, h) -> c <= n.
Proof.
  intros G. induction f as [|f IH]; intros c r n h H; cbn [gelems] in H.
  - destruct (N.eqb_spec c 0); [|discriminate]. lia.
  - destruct (N.eqb_spec c 0); [lia|].
    destruct (e r) as [[a ha]| | |] eqn:Ea; cbn [bind] in H; try discriminate.
    destruct (gelems f e (N.pred c) (drop a r)) as [[m hm]| | |] eqn:Em; cbn [bind] in H; try discriminate.
    ok_inv H. apply G in Ea. apply IH in Em. lia.
Qed.

Section ReaderContract.
  Variable At : bytes -> N -> rstate -> Prop.

  Hypothesis RC_next_ok : forall S c st n, At S c st -> c + n <= len S ->
    exists st', r_next st (Z.of_N n) = (st', OBytes (take n (drop c S))) /\ At S (c + n) st' /\
                r_readlen st' = r_readlen st + n.
  Hypothesis RC_next_short : forall S c st n, At S c st -> len S < c + n ->
    exists st' e, r_next st (Z.of_N n) = (st', OErr e) /\ At S c st' /\ r_readlen st' = r_readlen st /\
                  (0 <= e < 99)%Z.
  Hypothesis RC_skip_ok : forall S c st n, At S c st -> c + n <= len S ->
    exists st', r_skip st (Z.of_N n) = (st', OUnit) /\ At S (c + n) st' /\
                r_readlen st' = r_readlen st + n.
  Hypothesis RC_skip_short : forall S c st n, At S c st -> len S < c + n ->
    exists st' e, r_skip st (Z.of_N n) = (st', OErr e) /\ At S c st' /\ r_readlen st' = r_readlen st /\
                  (0 <= e < 99)%Z.
  Hypothesis RC_peek_ok : forall S c st n, At S c st -> c + n <= len S ->
    exists st', r_peek st (Z.of_N n) = (st', OBytes (take n (drop c S))) /\ At S c st' /\
                r_readlen st' = r_readlen st.
  Hypothesis RC_peek_short : forall S c st n, At S c st -> len S < c + n ->
    exists st' e, r_peek st (Z.of_N n) = (st', OErr e) /\ At S c st' /\ r_readlen st' = r_readlen st /\
                  (0 <= e < 99)%Z.
  (* the model's loop fuel counts the window and the source data: the stream still to come fits *)
  Hypothesis RC_avail : forall S c st, At S c st ->
    (length (drop c S) <= length (win st) + length (sdata (src st)))%nat.

  Section Stream.
    Variable S : bytes.
    Hypothesis S_wf : wf S.
    Variables (c0 rl0 : N).

    (* reader states along one skip that started at cursor c0 with ReadLen rl0 *)
    Definition br_rep (st : rstate) (r : bytes) : Prop :=
      exists c, At S c st /\ c0 <= c <= len S /\ r = drop c S /\ r_readlen st = rl0 + (c - c0).

    Lemma br_rep_wf st r : br_rep st r -> wf r.
    Proof. intros [c (_ & _ & -> & _)]. apply wf_drop, S_wf. Qed.

    Lemma br_next_ok st r n : br_rep st r -> n <= len r ->
      exists st', br_next st n = (st', Ok (take n r)) /\ br_rep st' (drop n r).
    Proof.
      intros [c (A & Hc & -> & Hl)] Hn. rewrite len_drop in Hn.
      destruct (RC_next_ok S c st n A ltac:(slia)) as [st' (E & A' & Hl')].
      exists st'. unfold br_next. rewrite E. split; [reflexivity|].
      exists (c + n). rewrite drop_plus. repeat split; try assumption; try slia.
    Qed.
    Lemma br_next_fail st r n : br_rep st r -> len r < n ->
      exists st' e, br_next st n = (st', Err e) /\ e <> e_fuel.
    Proof.
      intros [c (A & Hc & -> & Hl)] Hn. rewrite len_drop in Hn.
      destruct (RC_next_short S c st n A ltac:(slia)) as [st' [e (E & _ & _ & He)]].
      exists st', (e_wrap e). unfold br_next. rewrite E. split; [reflexivity|].
      unfold e_wrap, e_fuel. slia.
    Qed.
    Lemma br_skipn_ok st r n : br_rep st r -> n <= len r ->
      exists st', br_skipn st (Z.of_N n) = (st', Ok tt) /\ br_rep st' (drop n r).
    Proof.
      intros [c (A & Hc & -> & Hl)] Hn. rewrite len_drop in Hn.
      destruct (RC_skip_ok S c st n A ltac:(slia)) as [st' (E & A' & Hl')].
      exists st'. unfold br_skipn. destruct (Z.ltb_spec (Z.of_N n) 0); [slia|]. rewrite E. split; [reflexivity|].
      exists (c + n). rewrite drop_plus. repeat split; try assumption; try slia.
    Qed.
    Lemma br_skipn_fail st r n : br_rep st r -> len r < n ->
      exists st' e, br_skipn st (Z.of_N n) = (st', Err e) /\ e <> e_fuel.
    Proof.
      intros [c (A & Hc & -> & Hl)] Hn. rewrite len_drop in Hn.
      destruct (RC_skip_short S c st n A ltac:(slia)) as [st' [e (E & _ & _ & He)]].
      exists st', (e_wrap e). unfold br_skipn. destruct (Z.ltb_spec (Z.of_N n) 0); [slia|]. rewrite E.
      split; [reflexivity|]. unfold e_wrap, e_fuel. slia.
    Qed.

    Lemma br_skipn_neg st z : (z < 0)%Z -> br_skipn st z = (st, Err e_neg_size).
    Proof. intros H. unfold br_skipn. destruct (Z.ltb_spec z 0); [reflexivity|slia]. Qed.

    Notation bsim := (tsim rstate br_rep).

    Lemma br_skipn_exact st r w h : br_rep st r ->
      bsim (br_skipn st (Z.of_N w)) r (if hasn r w then Ok (w, h) else Err E_TRUNC).
    Proof.
      intros HR. rewrite hasn_le. destruct (N.leb_spec w (len r)) as [H|H].
      - destruct (br_skipn_ok st r w HR H) as [st' [E HR']]. rewrite E. cbn. exists st'. auto.
      - destruct (br_skipn_fail st r w HR H) as [st' [e [E He]]]. rewrite E. cbn. exists st', e. auto.
    Qed.

    Variable fu : nat.
    Notation P := (P fu).

    (* r.skipstr() *)
    Lemma br_skipstr_sim st r : br_rep st r -> P r -> bsim (br_skipstr st) r (gstring r).
    Proof.
      intros HR HP. unfold br_skipstr, br_read_u32, gstring. rewrite hasn_le.
      destruct (N.leb_spec 4 (len r)) as [H4|H4].
      2:{ destruct (br_next_fail st r 4 HR H4) as [st' [e [E He]]]. rewrite E. cbn. exists st', e. auto. }
      destruct (br_next_ok st r 4 HR H4) as [st1 [E1 HR1]]. rewrite E1. cbn [sbind].
      rewrite be_u32_take by exact H4. cbn [sbind].
      pose proof (unbe4_lt r (br_rep_wf _ _ HR)) as Hu. set (u := unbe (take 4 r)) in *.
      destruct (N.leb_spec two31 u) as [Hneg|Hpos].
      { rewrite br_skipn_neg.
        - cbn. exists st1, e_neg_size. split; [reflexivity|discriminate].
        - apply Z.ltb_lt. rewrite i32_neg by exact Hu. apply N.leb_le. exact Hneg. }
      rewrite i32_small by exact Hpos.
      pose proof (br_skipn_exact st1 (drop 4 r) u O HR1) as X. unfold tsim in *.
      destruct (hasn (drop 4 r) u).
      - destruct X as [st2 [E2 HR2]]. exists st2. split; [exact E2|]. rewrite drop_plus in HR2. exact HR2.
      - exact X.
    Qed.

    (* ---------- ReadFieldBegin + struct loop ---------- *)
    Section StructLoop.
      Variables (fld : N -> rstate -> sres rstate unit) (eR : N -> bytes -> pres).
      Hypothesis HF : forall ft st r, ft < 256 -> br_rep st r -> P r -> bsim (fld ft st) r (eR ft r).

      Lemma br_struct_loop_sim : forall fuel1 fuel2 st r,
        br_rep st r -> P r -> (length r < fuel1)%nat -> (length r < fuel2)%nat ->
        bsim (br_struct_loop fld fuel1 st) r (gfields fuel2 eR r).
      Proof.
        induction fuel1 as [|f IH]; intros fuel2 st r HR HP Hf1 Hf2; [slia|].
        destruct fuel2 as [|f2]; [slia|]. cbn [br_struct_loop gfields]. unfold br_field_begin.
        destruct r as [|ft r1].
        { destruct (br_next_fail st [] 1 HR ltac:(change (len (@nil N)) with 0; slia)) as [st' [e [E He]]].
          rewrite E. cbn. exists st', e. auto. }
        pose proof (br_rep_wf _ _ HR) as W. apply wf_cons in W as [Hft W1].
        destruct (br_next_ok st (ft :: r1) 1 HR ltac:(rewrite len_cons; slia)) as [st1 [E1 HR1]].
        rewrite E1. cbn [sbind]. change (take 1 (ft :: r1)) with [ft]. change (drop 1 (ft :: r1)) with r1 in HR1.
        cbn [index N.to_nat nth_error].
        destruct (is_ty_ok ft Hft) as (_&_&_&_&_&Hstop). rewrite Hstop.
        destruct (ft =? T_STOP) eqn:Est.
        { cbn [sbind]. rewrite Hstop. cbn. exists st1. auto. }
        assert (HP1 : P r1) by (apply (P_drop fu (ft :: r1) 1 HP)).
        rewrite hasn_le. destruct (N.leb_spec 2 (len r1)) as [H2|H2].
        2:{ destruct (br_next_fail st1 r1 2 HR1 H2) as [st' [e [E He]]]. rewrite E. cbn. exists st', e. auto. }
        destruct (br_next_ok st1 r1 2 HR1 H2) as [st2 [E2 HR2]]. rewrite E2. cbn [sbind].
        destruct (be_u16_take r1 H2) as [x Ex]. rewrite Ex. cbn [bind sbind]. rewrite Hstop.
        specialize (HF ft st2 (drop 2 r1) Hft HR2 (P_drop fu r1 2 HP1)). unfold tsim in HF.
        destruct (eR ft (drop 2 r1)) as [[n h]|er| |]; try contradiction; cbn [bind].
        - destruct HF as [st3 [E3 HR3]]. rewrite E3. cbn [sbind].
          assert (Hl : (length (drop n (drop 2 r1)) < length (ft :: r1))%nat).
          { unfold drop. rewrite !skipn_length. cbn [length]. slia. }
          specialize (IH f2 st3 (drop n (drop 2 r1)) HR3 (P_drop fu _ n (P_drop fu r1 2 HP1)) ltac:(slia) ltac:(slia)).
          unfold tsim in *.
          destruct (gfields f2 eR (drop n (drop 2 r1))) as [[m hm]|er| |]; try contradiction; cbn [bind].
          + destruct IH as [st4 [E4 HR4]]. exists st4. split; [exact E4|].
            rewrite !drop_plus in HR4. replace (3 + n + m) with (1 + (2 + (n + m))) by slia.
            rewrite drop_cons_succ. exact HR4.
          + exact IH.
        - destruct HF as [st3 [e [E3 He]]]. rewrite E3. cbn [sbind]. exists st3, e. auto.
      Qed.
    End StructLoop.

    (* ---------- members ---------- *)
    Section Member.
      Variables (self : rstate -> N -> sres rstate unit) (rec : N -> bytes -> pres).
      Hypothesis HS : forall t st r, t < 256 -> br_rep st r -> P r -> bsim (self st t) r (rec t r).

      Lemma br_kv_sim t st r : t < 256 -> br_rep st r -> P r ->
        bsim (br_kv self (Z.of_N (fixed_width t)) t st) r (member true true rec t r).
      Proof.
        intros Ht HR HP. unfold br_kv, member. rewrite fixed_width_pos.
        destruct (is_ty_ok t Ht) as (Hs&_). rewrite Hs. cbn [andb].
        destruct (is_fixed t) eqn:F; cbn [orb].
        - unfold is_fixed in F. destruct (kind_of t) eqn:K; try discriminate.
          rewrite (leaf_fixed t width K). unfold fixed_width. rewrite K. apply br_skipn_exact, HR.
        - destruct (is_str t) eqn:Sx.
          + unfold is_str in Sx. destruct (kind_of t) eqn:K; try discriminate.
            rewrite (leaf_str t K). apply br_skipstr_sim; assumption.
          + apply HS; assumption.
      Qed.

      Lemma br_lelem_sim t st r : t < 256 -> is_fixed t = false -> br_rep st r -> P r ->
        bsim (br_lelem self t st) r (member true true rec t r).
      Proof.
        intros Ht F HR HP. unfold br_lelem, member. rewrite F.
        destruct (is_ty_ok t Ht) as (Hs&_). rewrite Hs. cbn [andb orb].
        destruct (is_str t) eqn:Sx.
        - unfold is_str in Sx. destruct (kind_of t) eqn:K; try discriminate.
          rewrite (leaf_str t K). apply br_skipstr_sim; assumption.
        - apply HS; assumption.
      Qed.

      Lemma br_field_sim ft st r : ft < 256 -> br_rep st r -> P r ->
        bsim (br_field self ft st) r (member true false rec ft r).
      Proof.
        intros Ht HR HP. unfold br_field, member. rewrite (tts_ok SBufferReader ft Ht). unfold sret. cbn [sbind].
        rewrite fixed_width_pos. cbn [andb orb]. rewrite Bool.orb_false_r.
        destruct (is_fixed ft) eqn:F.
        - unfold is_fixed in F. destruct (kind_of ft) eqn:K; try discriminate.
          rewrite (leaf_fixed ft width K). unfold fixed_width. rewrite K. apply br_skipn_exact, HR.
        - apply HS; assumption.
      Qed.
    End Member.

    (* a loop that must parse more elements than there are bytes fails *)
    Lemma too_many x r f e c : good e -> len r < c -> bsim x r (gelems f e c r) ->
      exists st' er, x = (st', Err er) /\ er <> e_fuel.
    Proof.
      intros G Hc T. unfold tsim in T. destruct (gelems f e c r) as [[n h]|er| |] eqn:EG; try contradiction.
      - pose proof (gelems_count f e G _ _ _ _ EG). pose proof (gelems_bound f e G _ _ _ _ EG). slia.
      - exact T.
    Qed.

    Lemma bsim_err x r er : (exists st' e, x = (st', Err e) /\ e <> e_fuel) -> bsim x r (Err er).
    Proof. intros H. exact H. Qed.

    (* ---------- BufferReader.skipType ---------- *)
    Lemma brskip_sim : forall d st r t, br_rep st r -> t < 256 -> P r ->
      bsim (brskip d fu st t) r (rp inl_br d t r).
    Proof.
      induction d as [|d IH]; intros st r t HR Ht HP.
      { cbn. exists st, e_depth. split; [reflexivity|discriminate]. }
      assert (Hlen : (length r < fu)%nat) by apply HP.
      assert (IH' : forall t st r, t < 256 -> br_rep st r -> P r -> bsim (brskip d fu st t) r (rp inl_br d t r))
        by (intros; apply IH; assumption).
      rewrite rp_S. cbn [brskip]. rewrite (tts_ok SBufferReader t Ht). unfold sret at 1. cbn [sbind].
      rewrite fixed_width_pos.
      destruct (is_ty_ok t Ht) as (Hs&Hm&Hl&_&Hst&_). rewrite Hs, Hm, Hl, Hst. clear Hs Hm Hl Hst.
      unfold lvl, is_fixed, is_str, is_map, is_list, is_struct, fixed_width.
      destruct (kind_of t) eqn:K; cbv beta iota.
      - apply br_skipn_exact; exact HR.
      - apply br_skipstr_sim; assumption.
      - (* struct *)
        apply tsim_top. apply br_struct_loop_sim; try assumption; [|slia].
        intros ft st0 r0 Hft HR0 HP0. unfold rp_es. cbn [inl_br in_struct_fixed in_struct_str].
        apply br_field_sim; assumption.
      - (* map *)
        unfold br_map_begin.
        assert (Hfail : len r < 6 -> forall (y : rstate -> bytes -> sres rstate (N * N * N)) (z : rstate -> N * N * N -> sres rstate unit),
                  bsim (sbind (sbind (br_next st 6) y) z) r (Err E_TRUNC)).
        { intros H6 y z. destruct (br_next_fail st r 6 HR H6) as [st' [e [E He]]]. rewrite E. cbn.
          exists st', e. auto. }
        destruct r as [|kt [|vt r2]]; try (apply Hfail; rewrite ?len_cons; change (len (@nil N)) with 0; slia).
        rewrite hasn_le. destruct (N.leb_spec 4 (len r2)) as [H4|H4].
        2:{ apply Hfail. rewrite !len_cons. slia. }
        clear Hfail.
        pose proof (br_rep_wf _ _ HR) as W. apply wf_cons in W as [Hkt W]. apply wf_cons in W as [Hvt W2].
        destruct (br_next_ok st (kt :: vt :: r2) 6 HR ltac:(rewrite !len_cons; slia)) as [st1 [E1 HR1]].
        rewrite E1. cbn [sbind]. rewrite (hdr_map kt vt r2 H4). cbn [sbind]. cbv zeta.
        change (drop 6 (kt :: vt :: r2)) with (drop 4 r2) in HR1.
        assert (HP1 : P (drop 4 r2)) by (apply (P_drop fu (kt :: vt :: r2) 6 HP)).
        pose proof (unbe4_lt r2 W2) as Hu. set (u := unbe (take 4 r2)) in *.
        rewrite i32_neg by exact Hu.
        destruct (N.leb_spec two31 u) as [Hneg|Hpos].
        { cbn. exists st1, e_neg_size. split; [reflexivity|discriminate]. }
        rewrite (tts_ok SBufferReader kt Hkt), (tts_ok SBufferReader vt Hvt). unfold sret. cbn [sbind].
        rewrite !fixed_width_pos.
        unfold rp_em, rp_m. cbn [inl_br in_map_fixed in_map_str]. rewrite Bool.orb_true_r.
        apply (tsim_shift rstate br_rep _ (kt :: vt :: r2) 6). change (drop 6 (kt :: vt :: r2)) with (drop 4 r2).
        destruct (is_fixed kt && is_fixed vt) eqn:FF.
        + apply andb_true_iff in FF as [Fk Fv]. unfold is_fixed in Fk, Fv.
          destruct (kind_of kt) as [kw| | | | |] eqn:Kk; try discriminate.
          destruct (kind_of vt) as [vw| | | | |] eqn:Kv; try discriminate.
          unfold fixed_width. rewrite Kk, Kv.
          rewrite (gelems_ext _ _ (fixedp (kw + vw))).
          2:{ intros r. rewrite <- gpair_fixed. apply gpair_ext; apply member_fixed_ext'; assumption. }
          pose proof (kind_fixed_pos _ _ Kk). pose proof (kind_fixed_pos _ _ Kv).
          rewrite gelems_fixed; [|slia|apply ldrop2].
          rewrite <- N2Z.inj_add, <- N2Z.inj_mul.
          apply br_skipn_exact. exact HR1.
        + rewrite br_loop_eq.
          apply (t_loop_sim rstate br_rep fu); try assumption.
          * apply pair_sim; intros s0 r0 HR0 HP0; apply br_kv_sim; assumption.
          * apply gpair_good; apply member_good, rp_good.
          * apply ldrop2.
      - (* list / set *)
        unfold br_list_begin.
        assert (Hfail : len r < 5 -> forall (y : rstate -> bytes -> sres rstate (N * N)) (z : rstate -> N * N -> sres rstate unit), bsim (sbind (sbind (br_next st 5) y) z) r (Err E_TRUNC)).
        { intros H5 y z. destruct (br_next_fail st r 5 HR H5) as [st' [e [E He]]]. rewrite E. cbn.
          exists st', e. auto. }
        destruct r as [|et r1]; try (apply Hfail; change (len (@nil N)) with 0; slia).
        rewrite hasn_le. destruct (N.leb_spec 4 (len r1)) as [H4|H4].
        2:{ apply Hfail. rewrite !len_cons. slia. }
        clear Hfail.
        pose proof (br_rep_wf _ _ HR) as W. apply wf_cons in W as [Het W1].
        destruct (br_next_ok st (et :: r1) 5 HR ltac:(rewrite !len_cons; slia)) as [st1 [E1 HR1]].
        rewrite E1. cbn [sbind]. rewrite (hdr_list et r1 H4). cbn [sbind]. cbv zeta.
        change (drop 5 (et :: r1)) with (drop 4 r1) in HR1.
        assert (HP1 : P (drop 4 r1)) by (apply (P_drop fu (et :: r1) 5 HP)).
        pose proof (unbe4_lt r1 W1) as Hu. set (u := unbe (take 4 r1)) in *.
        rewrite i32_neg by exact Hu.
        destruct (N.leb_spec two31 u) as [Hneg|Hpos].
        { cbn. exists st1, e_neg_size. split; [reflexivity|discriminate]. }
        rewrite (tts_ok SBufferReader et Het). unfold sret. cbn [sbind].
        rewrite !fixed_width_pos.
        unfold rp_el. cbn [inl_br in_list_str].
        apply (tsim_shift rstate br_rep _ (et :: r1) 5). change (drop 5 (et :: r1)) with (drop 4 r1).
        destruct (is_fixed et) eqn:Fe.
        + unfold is_fixed in Fe. destruct (kind_of et) as [w| | | | |] eqn:Ke; try discriminate.
          unfold fixed_width. rewrite Ke. pose proof (kind_fixed_pos _ _ Ke).
          rewrite <- N2Z.inj_mul.
          rewrite (gelems_ext _ _ (fixedp w)) by (apply member_fixed_ext'; assumption).
          rewrite gelems_fixed; [|slia|apply ldrop1].
          apply br_skipn_exact. exact HR1.
        + rewrite br_loop_eq.
          apply (t_loop_sim rstate br_rep fu); try assumption.
          * intros s0 r0 HR0 HP0; apply br_lelem_sim; assumption.
          * apply member_good, rp_good.
          * apply ldrop1.
      - cbn. exists st, e_unknown_type. split; [reflexivity|discriminate].
    Qed.

    (* ================= SkipDecoder: Peek-accumulate ================= *)
    (* the bufiox cursor stays at c0 while the template runs; the decoder counts pk_rn bytes *)
    Definition pk_rep (s : pk_state) (r : bytes) : Prop :=
      At S c0 (pk_r s) /\ c0 + pk_rn s <= len S /\ r = drop (c0 + pk_rn s) S /\ r_readlen (pk_r s) = rl0.

    Lemma pk_SN_ok : forall s r n, pk_rep s r -> n <= len r ->
      exists s', pk_skipN s n = (s', Ok (take n r)) /\ pk_rep s' (drop n r).
    Proof.
      intros s r n (A & Hc & -> & Hl) Hn. rewrite len_drop in Hn.
      destruct (RC_peek_ok S c0 (pk_r s) (pk_rn s + n) A ltac:(slia)) as [st' (E & A' & Hl')].
      unfold pk_skipN. rewrite E. unfold slice_from.
      rewrite take_len by (rewrite len_drop; slia).
      destruct (N.leb_spec (pk_rn s) (pk_rn s + n)); [|slia].
      rewrite drop_take_seg, drop_plus.
      eexists. split; [reflexivity|].
      unfold pk_rep. cbn [pk_r pk_rn]. split; [exact A'|]. split; [slia|].
      split; [rewrite drop_plus; f_equal; slia|]. congruence.
    Qed.
    Lemma pk_SN_fail : forall s r n, pk_rep s r -> len r < n ->
      exists s' c, pk_skipN s n = (s', Err c) /\ c <> e_fuel.
    Proof.
      intros s r n (A & Hc & -> & Hl) Hn. rewrite len_drop in Hn.
      destruct (RC_peek_short S c0 (pk_r s) (pk_rn s + n) A ltac:(slia)) as [st' [e (E & _ & _ & He)]].
      unfold pk_skipN. rewrite E. do 2 eexists. split; [reflexivity|]. unfold e_fuel. slia.
    Qed.
    Lemma pk_rep_wf : forall s r, pk_rep s r -> wf r.
    Proof. intros s r (_ & _ & -> & _). apply wf_drop, S_wf. Qed.
  End Stream.

  (* ---------- BufferReader.Skip ---------- *)
  Theorem brskip_is_ref S c st t d :
    wf S -> At S c st -> c <= len S -> t < 256 ->
    match rp inl_br d t (drop c S) with
    | Ok (n, _) => exists st', br_skip_depth st t d = (st', Ok tt) /\ At S (c + n) st' /\
                               r_readlen st' = r_readlen st + n
    | Err _ => exists st' e, br_skip_depth st t d = (st', Err e) /\ e <> e_fuel
    | _ => False
    end.
  Proof.
    intros W A Hc Ht. unfold br_skip_depth.
    assert (HR : br_rep S c (r_readlen st) st (drop c S)).
    { exists c. repeat split; try assumption; lia. }
    assert (HP : P (r_fuel st) (drop c S)).
    { unfold P, r_fuel. pose proof (RC_avail S c st A). lia. }
    pose proof (brskip_sim S W c (r_readlen st) (r_fuel st) d st (drop c S) t HR Ht HP) as T.
    pose proof (rp_good inl_br d t (drop c S)) as G.
    unfold tsim in T. destruct (rp inl_br d t (drop c S)) as [[n h]|e| |]; try contradiction.
    - destruct T as [st' [E [c' (A' & Hc' & Hd & Hl')]]]. specialize (G n h eq_refl). rewrite len_drop in G.
      assert (c' = c + n).
      { rewrite drop_plus in Hd. apply (f_equal len) in Hd. rewrite !len_drop in Hd. lia. }
      subst c'. exists st'. repeat split; try assumption. lia.
    - exact T.
  Qed.


  (* ---------- SkipDecoder.Next ---------- *)
  Theorem pk_next_is_ref S c st t d rn0 :
    wf S -> At S c st -> c <= len S -> t < 256 ->
    match rp inl_none d t (drop c S) with
    | Ok (n, _) => exists st', pk_next_depth {| pk_r := st; pk_rn := rn0 |} t d
                                 = ({| pk_r := st'; pk_rn := n |}, Ok (take n (drop c S))) /\
                               At S (c + n) st' /\ r_readlen st' = r_readlen st + n
    | Err _ => exists s' e, pk_next_depth {| pk_r := st; pk_rn := rn0 |} t d = (s', Err e) /\ e <> e_fuel
    | _ => False
    end.
  Proof.
    intros W A Hc Ht. unfold pk_next_depth. cbn [pk_r].
    set (s0 := {| pk_r := st; pk_rn := 0 |}).
    assert (HR : pk_rep S c (r_readlen st) s0 (drop c S)).
    { unfold pk_rep, s0. cbn [pk_r pk_rn]. rewrite N.add_0_r. repeat split; try assumption. }
    assert (HP : P (pk_fuel st) (drop c S)).
    { unfold P, pk_fuel. pose proof (RC_avail S c st A). lia. }
    pose proof (tskip_sim pk_state pk_skipN (pk_rep S c (r_readlen st))
                  (pk_SN_ok S c (r_readlen st)) (pk_SN_fail S c (r_readlen st)) (pk_rep_wf S W c (r_readlen st))
                  (pk_fuel st) d s0 (drop c S) t HR Ht HP) as T.
    pose proof (rp_good inl_none d t (drop c S)) as G.
    unfold tsim in T. destruct (rp inl_none d t (drop c S)) as [[n h]|e| |]; try contradiction.
    - destruct T as [s1 [E (A1 & Hc1 & Hd & Hl1)]]. specialize (G n h eq_refl). rewrite len_drop in G.
      assert (pk_rn s1 = n).
      { rewrite drop_plus in Hd. apply (f_equal len) in Hd. rewrite !len_drop in Hd. lia. }
      rewrite E. cbn [sbind]. rewrite H.
      destruct (RC_next_ok S c (pk_r s1) n A1 ltac:(lia)) as [st' (En & A' & Hl')].
      rewrite En. exists st'. repeat split; try assumption. congruence.
    - destruct T as [s1 [e' [E He]]]. rewrite E. cbn [sbind]. exists s1, e'. auto.
  Qed.
End ReaderContract.
