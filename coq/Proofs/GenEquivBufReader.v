(* Proofs/GenEquivBufReader.v — bufiox.DefaultReader REGENERATED FROM THE GO SOURCE on every run
   (Gen/Funcs.v g_bufiox_DefaultReader_*, g_bufiox_maxSizeStats_*; tools/gotrans phase 4) refines the
   hand-written value-level model Model/BufReader.v that the C04 theorems are about.

   Instantiation of the parameters of the generated definitions:
     St_r_rd, m_r_rd_Read  the source model of Model/BufReader.v: [rd_read], one io.Reader.Read(p) is
                           [src_read] with room len(p); the bytes delivered are stored at the front
                           of p, the rest of p is left as it was;
     St_mem, m_mem_Malloc  ANY allocator state and model that return a non-nil slice of the length
     m_mem_Free            asked for whose capacity is the next power of two (Model/BufReader.v pow2ceil)
                           with ARBITRARY contents ([malloc_ok]); Free never fails ([free_ok]).
   Abstraction [abs]: the generated state (backing array up to cap, len, ri, flags, the list of parked
   buffers, error, source, statistics) is mapped to the model state (unread window = buf[ri:len], ri,
   cap, flags, len(pendingBuf), ...).  Every theorem has the form: for every well-formed generated
   state g (0 <= ri <= len <= cap, 10 statistics buckets), sizes below 2^60 (64-bit int: the doubling
   loops do not overflow) and enough fuel, the generated method returns Ok with a well-formed state
   g' such that abs g' and the outputs are exactly what the hand model computes from abs g. *)
From GV Require Import Lib.Bytes Lib.Res Lib.GoSem Gen.Consts Gen.Funcs Model.BufReader
     Proofs.BufReaderLib Proofs.BufReaderP Proofs.GenLib Proofs.GenLib3 Proofs.GenLib4.
From Coq Require Import ZifyN ZifyNat ZifyBool.
Open Scope Z_scope.

(* ---------- the error codes and constants coincide ---------- *)
Lemma ecode_noprogress : ecode "io.ErrNoProgress" = e_noprogress. Proof. reflexivity. Qed.
Lemma ecode_negcount : ecode "bufiox.errNegativeCount" = e_negcount. Proof. reflexivity. Qed.
Lemma bufsz_val : bufsz = 4096%N. Proof. reflexivity. Qed.
Lemma max_empty_val : max_empty = 100%nat. Proof. reflexivity. Qed.
Lemma nbuckets_val : nbuckets = 10%N. Proof. reflexivity. Qed.

(* ---------- the io.Reader ---------- *)
Definition rd_read (s : source) (p : bytes) : res (source * bytes * Z * gerror) :=
  let '(bs, e, s') := src_read s (len p) in Ok (s', (bs ++ drop (len bs) p)%list, Z.of_N (len bs), e).

Lemma rd_read_eq s p bs e s' : src_read s (len p) = (bs, e, s') ->
  rd_read s p = Ok (s', (bs ++ drop (len bs) p)%list, Z.of_N (len bs), e).
Proof. intros H. unfold rd_read. rewrite H. reflexivity. Qed.

(* ---------- the allocator ---------- *)
Definition malloc_ok {M} (mal : M -> Z -> Z -> res (M * gcslice)) : Prop :=
  forall m n c, 0 <= n -> 0 <= c -> exists m' mem,
    mal m n c = Ok (m', Some (mem, n)) /\ len mem = pow2ceil (Z.to_N (Z.max n c)).
Definition free_ok {M} (fr : M -> gcslice -> res M) : Prop := forall m s, exists m', fr m s = Ok m'.

(* ---------- maxSizeStats ---------- *)
Definition SZ : Z := 2 ^ 59.
Definition bk_ok (bk : list Z) : Prop := length bk = 10%nat /\ Forall (fun x => 0 <= x) bk.
Definition bk_small (bk : list Z) : Prop := Forall (fun x => x < SZ) bk.

Lemma maxSize_loop bk : forall i acc, Forall (fun x => 0 <= x) bk -> 0 <= acc ->
  g_bufiox_maxSizeStats_maxSize_loop1 bk i acc = Ok (inl (Z.of_N (fold_left N.max (map Z.to_N bk) (Z.to_N acc)))).
Proof.
  induction bk as [|x r IH]; intros i acc Hb Ha; cbn [g_bufiox_maxSizeStats_maxSize_loop1 map fold_left].
  - rewrite Z2N.id by exact Ha. reflexivity.
  - inversion Hb as [|? ? Hx Hr]; subst.
    destruct (Z.ltb_spec acc x).
    + rewrite IH by assumption. do 4 f_equal. lia.
    + rewrite IH by assumption. do 4 f_equal. lia.
Qed.

Lemma g_maxSize_eq bk bi : Forall (fun x => 0 <= x) bk ->
  g_bufiox_maxSizeStats_maxSize false bk bi = Ok (bk, bi, Z.of_N (stats_max (map Z.to_N bk))).
Proof.
  intros Hb. unfold g_bufiox_maxSizeStats_maxSize. cbn [gptr_check bind].
  rewrite maxSize_loop by (assumption || lia). reflexivity.
Qed.

Lemma g_update_eq bk bi size : length bk = 10%nat -> 0 <= bi < 10 ->
  g_bufiox_maxSizeStats_update false bk bi size =
  Ok ((firstn (Z.to_nat bi) bk ++ size :: skipn (S (Z.to_nat bi)) bk)%list, (bi + 1) mod 10).
Proof.
  intros Hl Hb. unfold g_bufiox_maxSizeStats_update. cbn [gptr_check bind].
  rewrite garr_set_ok by (unfold glen, len; lia). cbn [bind gptr_check].
  unfold grem. cbn [Z.eqb bind]. rewrite wraps64_id by lia. cbn [gptr_set bind].
  rewrite wraps64_id by (pose proof (Z.rem_bound_pos (bi + 1) 10); lia).
  rewrite Z.rem_mod_nonneg by lia. reflexivity.
Qed.

(* ---------- the doubling loops ---------- *)
Section Loops.
  Context {M : Type}.
  Variable mal : M -> Z -> Z -> res (M * gcslice).
  Variable fuel : nat.

  Notation loop1 := (g_bufiox_DefaultReader_acquireSlow_loop1 source rd_read M mal fuel).
  Notation loop2 := (g_bufiox_DefaultReader_acquireSlow_loop2 source rd_read M mal fuel).
  Notation loop3 := (g_bufiox_DefaultReader_acquireSlow_loop3 source rd_read M mal fuel).

  Lemma rd_loop1 (n : N) : forall f lf x, (f < lf)%nat -> (n <= x * 2 ^ N.of_nat f)%N ->
    (x < 2 ^ 62)%N -> (n < 2 ^ 61)%N ->
    loop1 (Z.of_N n) lf (Z.of_N x) = Ok (inl (Z.of_N (double_until f x n))).
  Proof.
    induction f as [|f IH]; intros lf x Hlf Hn Hx Hn2; (destruct lf as [|lf]; [lia|]);
      cbn [g_bufiox_DefaultReader_acquireSlow_loop1 double_until].
    - cbn in Hn. destruct (Z.ltb_spec (Z.of_N x) (Z.of_N n)); [lia|reflexivity].
    - destruct (Z.ltb_spec (Z.of_N x) (Z.of_N n)) as [H|H]; destruct (N.ltb_spec x n); try lia; [|reflexivity].
      rewrite wraps64_id by lia. replace (Z.of_N x * 2) with (Z.of_N (2 * x)) by lia.
      apply IH; [lia| |lia|lia]. rewrite Nat2N.inj_succ, N.pow_succ_r' in Hn. lia.
  Qed.

  Lemma rd_loop2 (r n : N) : forall f lf x, (f < lf)%nat -> (r <= x)%N -> (r + n <= x * 2 ^ N.of_nat f)%N ->
    (x < 2 ^ 62)%N -> (r + n < 2 ^ 61)%N ->
    loop2 false (Z.of_N r) (Z.of_N n) lf (Z.of_N x) = Ok (inl (Z.of_N (double_until_room f x r n))).
  Proof.
    induction f as [|f IH]; intros lf x Hlf Hr Hn Hx Hn2; (destruct lf as [|lf]; [lia|]);
      cbn [g_bufiox_DefaultReader_acquireSlow_loop2 double_until_room gptr_check bind]; rewrite wraps64_id by lia.
    - cbn in Hn. destruct (Z.ltb_spec (Z.of_N x - Z.of_N r) (Z.of_N n)); [lia|reflexivity].
    - destruct (Z.ltb_spec (Z.of_N x - Z.of_N r) (Z.of_N n)) as [H|H]; destruct (N.ltb_spec (x - r) n); try lia; [|reflexivity].
      rewrite wraps64_id by lia. replace (Z.of_N x * 2) with (Z.of_N (2 * x)) by lia.
      apply IH; [lia|lia| |lia|lia]. rewrite Nat2N.inj_succ, N.pow_succ_r' in Hn. lia.
  Qed.

  (* one iteration of the read loop, for a receiver that is not nil *)
  Lemma rd_loop3_S (mst : M) ro bi bk pend ri n lf s buf err empty :
    loop3 mst ro false bi bk pend ri n (S lf) s buf err empty =
    if empty <? 100 then
      let t11 := gcs_len buf in
      do t12 <- gcs_slice buf t11 (gcs_cap buf);
      do (s', t13, t14, t15) <- rd_read s (gcs_bytes t12);
      let buf1 := gcs_splice buf t11 t13 in
      do buf2 <- gcs_slice buf1 0 (wraps 64 (gcs_len buf1 + t14));
      if negb (is_nil t15) then
        if n <=? wraps 64 (gcs_len buf2 - ri) then Ok (inr (buf2, ro, pend, s', ri, t15, bk, bi, mst, n))
        else Ok (inr (buf2, ro, pend, s', ri, t15, bk, bi, mst, wraps 64 (gcs_len buf2 - ri)))
      else
        if n <=? wraps 64 (gcs_len buf2 - ri) then Ok (inr (buf2, ro, pend, s', ri, err, bk, bi, mst, n))
        else if t14 >? 0 then loop3 mst ro false bi bk pend ri n lf s' buf2 err 0
        else loop3 mst ro false bi bk pend ri n lf s' buf2 err (wraps 64 (empty + 1))
    else Ok (inl (s, buf, err, empty)).
  Proof.
    reflexivity.
  Qed.

  Lemma src_at_cur_of s : src_at s (cur_of s) = s.
  Proof. destruct s; reflexivity. Qed.
  Lemma src_at_src_at s c1 c2 : src_at (src_at s c1) c2 = src_at s c2.
  Proof. reflexivity. Qed.

  (* the loop followed by what acquireSlow does when the loop ends by itself (io.ErrNoProgress) *)
  Definition rd_tail (mst : M) ro bk bi pend ri n lf s buf err empty :=
    do t <- loop3 mst ro false bi bk pend ri n lf s buf err empty;
    match t with
    | inr r => Ok r
    | inl (s', buf', err', _) =>
      Ok (buf', ro, pend, s', ri, Some (ecode "io.ErrNoProgress"), bk, bi, mst, wraps 64 (gcs_len buf' - ri))
    end.

  Lemma rd_tail_sim (mst : M) ro bk bi pend (ri n : N) err0 fin wd :
    forall f lf empty s acc mem (l : N) c' acc' wl' e m,
    sfinal s = fin -> swith s = wd ->
    (cur_measure (cur_of s) < f)%nat -> (f <= lf)%nat ->
    (ri <= l)%N -> (l <= len mem)%N -> (ri + n <= len mem)%N -> (len mem < 2 ^ 62)%N -> (empty <= 100)%nat ->
    read_loop fin wd (len mem) ri n f empty (cur_of s) acc (l - ri) = (c', acc', wl', e, m) ->
    exists mem' delta,
      len mem' = len mem /\ flat_rev acc' = (flat_rev acc ++ delta)%list /\ wl' = (l - ri + len delta)%N /\
      take (l + len delta) mem' = (take l mem ++ delta)%list /\ (l + len delta <= len mem)%N /\
      cur_of (src_at s c') = c' /\ (m <= wl')%N /\
      rd_tail mst ro bk bi pend (Z.of_N ri) (Z.of_N n) lf s (Some (mem, Z.of_N l)) err0 (Z.of_nat empty)
      = Ok (Some (mem', Z.of_N (l + len delta)), ro, pend, src_at s c', Z.of_N ri,
            match e with Some ev => Some ev | None => err0 end, bk, bi, mst, Z.of_N m).
  Proof.
    induction f as [|f IH]; intros lf empty s acc mem l c' acc' wl' e m Hfin Hwd Hmeas Hlf Hri Hl Hn Hcap Hemp H; [lia|].
    destruct lf as [|lf]; [lia|].
    rewrite read_loop_S in H. unfold rd_tail. rewrite rd_loop3_S.
    rewrite max_empty_val in H.
    destruct (Nat.leb_spec 100 empty) as [He|He].
    { (* the loop gives up *)
      inversion H; subst c' acc' wl' e m; clear H.
      destruct (Z.ltb_spec (Z.of_nat empty) 100); [lia|]. cbn [bind].
      exists mem, []. rewrite !app_nil_r, len_nil, !N.add_0_r, src_at_cur_of.
      repeat split; try reflexivity; try lia.
      cbn [gcs_len]. rewrite wraps64_id by lia. rewrite ecode_noprogress. do 3 f_equal. lia. }
    destruct (Z.ltb_spec (Z.of_nat empty) 100); [|lia].
    cbv zeta in H.
    replace (len mem - (ri + (l - ri)))%N with (len mem - l)%N in H by lia.
    destruct (cur_read fin wd (cur_of s) (len mem - l)) as [[[bs1 m1] e1] c1] eqn:Hrd.
    pose proof (cur_read_inv _ _ _ _ _ _ _ _ (cur_of_wf s) Hrd) as (Hwf1 & Hm1 & Hrest & Hpos & Hroom & Hchunks & Herr & Hnone).
    rewrite <- Hfin, <- Hwd in Hrd. destruct (cur_read_src_read _ _ _ _ _ _ Hrd) as [Hsrc Hcur1].
    (* the three steps of the iteration *)
    cbv zeta. rewrite gcs_cap_some, gcs_len_some.
    rewrite gcs_slice_some by (unfold glen; lia). cbn [bind].
    rewrite gcs_bytes_some. unfold glen. rewrite N2Z.id.
    replace (Z.to_N (Z.of_N (len mem) - Z.of_N l)) with (len mem - l)%N by lia.
    assert (Hp : take (len mem - l) (drop l mem) = drop l mem) by (apply take_all; rewrite len_drop; lia).
    rewrite Hp. rewrite (rd_read_eq s (drop l mem) bs1 e1 (src_at s c1)) by (rewrite len_drop; exact Hsrc). cbn [bind].
    set (mem1 := (take l mem ++ (bs1 ++ drop (len bs1) (drop l mem)) ++ drop (l + len (bs1 ++ drop (len bs1) (drop l mem))) mem)%list).
    assert (Hlen1 : len mem1 = len mem).
    { unfold mem1. rewrite !len_app, !len_drop, len_take. subst m1. lia. }
    assert (Htk : take (l + len bs1) mem1 = (take l mem ++ bs1)%list).
    { unfold mem1. rewrite take_take_drop. rewrite take_app_le by (rewrite len_take; lia).
      rewrite take_all by (rewrite len_take; lia). f_equal.
      replace l with (len (take l mem)) at 1 by (rewrite len_take; lia). rewrite drop_app_len.
      rewrite <- app_assoc. rewrite take_app_le by lia. apply take_all. lia. }
    unfold gcs_splice. rewrite !N2Z.id. fold mem1. cbn [gcs_len].
    subst m1. rewrite wraps64_id by lia.
    rewrite gcs_slice_some by (unfold glen; lia). cbn [bind]. change (drop (Z.to_N 0) mem1) with mem1.
    replace (Z.of_N l + Z.of_N (len bs1) - 0) with (Z.of_N (l + len bs1)) by lia.
    cbn [gcs_len]. rewrite wraps64_id by lia.
    destruct e1 as [ev|].
    - (* the source reports its error *)
      cbn [is_nil negb].
      inversion H; subst c' acc' wl' e m; clear H.
      exists mem1, bs1. rewrite flat_rev_cons.
      split; [exact Hlen1|]. split; [reflexivity|]. split; [lia|]. split; [exact Htk|]. split; [lia|]. split; [exact Hcur1|].
      split; [destruct (N.leb_spec n (l - ri + len bs1)); lia|].
      destruct (Z.leb_spec (Z.of_N n) (Z.of_N (l + len bs1) - Z.of_N ri)); destruct (N.leb_spec n (l - ri + len bs1)); try lia;
        cbn [bind]; repeat f_equal; lia.
    - cbn [is_nil negb].
      destruct (N.leb_spec n (l - ri + len bs1)) as [Hsat|Hunsat].
      + inversion H; subst c' acc' wl' e m; clear H.
        exists mem1, bs1. rewrite flat_rev_cons.
        split; [exact Hlen1|]. split; [reflexivity|]. split; [lia|]. split; [exact Htk|]. split; [lia|]. split; [exact Hcur1|].
        split; [lia|].
        destruct (Z.leb_spec (Z.of_N n) (Z.of_N (l + len bs1) - Z.of_N ri)); [|lia]. reflexivity.
        
      + destruct (Z.leb_spec (Z.of_N n) (Z.of_N (l + len bs1) - Z.of_N ri)); [lia|].
        assert (Hroom1 : (0 < len mem - l)%N) by lia.
        destruct (cur_read_measure _ _ _ _ _ _ _ (cur_of_wf s) Hroom1 ltac:(rewrite Hfin, Hwd in Hrd; exact Hrd)) as [_ Hm2].
        rewrite <- Hcur1 in Hm2, H.
        replace (l - ri + len bs1)%N with (l + len bs1 - ri)%N in H by lia.
        rewrite <- Hlen1 in H.
        destruct (N.ltb_spec 0 (len bs1)) as [Hpos1|Hzero]; destruct (Z.gtb_spec (Z.of_N (len bs1)) 0); try lia.
        * destruct (IH lf O (src_at s c1) (bs1 :: acc) mem1 (l + len bs1)%N c' acc' wl' e m
                      Hfin Hwd ltac:(lia) ltac:(lia) ltac:(lia) ltac:(lia) ltac:(lia) ltac:(lia) ltac:(lia) H)
            as (mem' & delta & E1 & E2 & E3 & E4 & E5 & E6 & E6' & E7).
          exists mem', (bs1 ++ delta)%list. rewrite len_app.
          split; [lia|]. split; [rewrite E2, flat_rev_cons, app_assoc; reflexivity|]. split; [lia|].
          split; [rewrite N.add_assoc, E4, Htk, app_assoc; reflexivity|]. split; [lia|].
          split; [exact E6|]. split; [exact E6'|]. unfold rd_tail in E7. change (Z.of_nat 0) with 0 in E7.
          rewrite N.add_assoc. exact E7.
        * rewrite wraps64_id by lia.
          destruct (IH lf (S empty) (src_at s c1) (bs1 :: acc) mem1 (l + len bs1)%N c' acc' wl' e m
                      Hfin Hwd ltac:(lia) ltac:(lia) ltac:(lia) ltac:(lia) ltac:(lia) ltac:(lia) ltac:(lia) H)
            as (mem' & delta & E1 & E2 & E3 & E4 & E5 & E6 & E6' & E7).
          exists mem', (bs1 ++ delta)%list. rewrite len_app.
          split; [lia|]. split; [rewrite E2, flat_rev_cons, app_assoc; reflexivity|]. split; [lia|].
          split; [rewrite N.add_assoc, E4, Htk, app_assoc; reflexivity|]. split; [lia|].
          split; [exact E6|]. split; [exact E6'|]. unfold rd_tail in E7.
          replace (Z.of_nat empty + 1) with (Z.of_nat (S empty)) by lia.
          rewrite N.add_assoc. exact E7.
  Qed.
End Loops.

(* ---------- acquireSlow, for a receiver that is not nil: its phases ---------- *)
Section AcquireSlow.
  Context {M : Type}.
  Variable mal : M -> Z -> Z -> res (M * gcslice).
  Variable fuel : nat.

  Notation loop1 := (g_bufiox_DefaultReader_acquireSlow_loop1 source rd_read M mal fuel).
  Notation loop2 := (g_bufiox_DefaultReader_acquireSlow_loop2 source rd_read M mal fuel).
  Notation tail := (rd_tail mal fuel).

  (* if n > cap(r.buf)-r.ri { grow } ; the read loop *)
  Definition rd_grow (mst : M) ro bk bi pend ri n s buf (err : gerror) :=
    if n >? wraps 64 (gcs_cap buf - ri) then
      do t <- loop2 false ri n fuel (wraps 64 (gcs_cap buf * 2));
      match t with
      | inr r => Ok r
      | inl ncap =>
        do (mst', nbuf) <- mal mst ncap ncap;
        let K := fun pend' =>
          do t8 <- gcs_slice buf ri (gcs_len buf);
          do (nbuf', cn) <- gcs_copy nbuf ri (gcs_len nbuf) (gcs_bytes t8);
          do t10 <- gcs_slice nbuf' 0 (wraps 64 (ri + cn));
          tail mst' false bk bi pend' ri n fuel s t10 err 0 in
        if negb ro then K (gcsl_append pend buf) else K pend
      end
    else tail mst ro bk bi pend ri n fuel s buf err 0.

  Lemma g_acquireSlow_unfold (mst : M) buf ro pend s ri err bk bi n :
    g_bufiox_DefaultReader_acquireSlow source rd_read M mal fuel false buf ro pend s ri err bk bi n mst =
    if negb (is_nil err) then Ok (buf, ro, pend, s, ri, err, bk, bi, mst, wraps 64 (gcs_len buf - ri))
    else if gcs_cap buf =? 0 then
      do (bk', bi', t1) <- g_bufiox_maxSizeStats_maxSize false bk bi;
      let K := fun mx =>
        do t <- loop1 n fuel mx;
        match t with
        | inr r => Ok r
        | inl mx' => do (mst', b) <- mal mst 0 mx'; rd_grow mst' false bk' bi' pend ri n s b err
        end in
      if t1 <? 4096 then K 4096 else K t1
    else rd_grow mst ro bk bi pend ri n s buf err.
  Proof. reflexivity. Qed.
End AcquireSlow.

(* ---------- the generated reader state and its abstraction ---------- *)
Record gst : Type := mkg {
  g_buf : gcslice; g_ro : bool; g_pend : gcslist; g_src : source; g_ri : Z; g_err : gerror;
  g_bk : list Z; g_bi : Z }.

(* the result tuple of the generated methods: the final leaves *)
Definition gret (g : gst) := (g_buf g, g_ro g, g_pend g, g_src g, g_ri g, g_err g, g_bk g, g_bi g).

Definition abs (g : gst) : rstate :=
  {| win := drop (Z.to_N (g_ri g)) (gcs_bytes (g_buf g));
     ri := Z.to_N (g_ri g);
     cap := len (gcs_mem (g_buf g));
     ro := g_ro g;
     npend := len (gcsl_items (g_pend g));
     rerr := g_err g;
     src := g_src g;
     stats := map Z.to_N (g_bk g);
     sidx := Z.to_N (g_bi g) |}.

(* well-formed: 0 <= ri <= len <= cap, ten non-negative buckets, the bucket index in range *)
Definition gwf (g : gst) : Prop :=
  0 <= g_ri g <= gcs_len (g_buf g) /\ gcs_len (g_buf g) <= gcs_cap (g_buf g) /\
  bk_ok (g_bk g) /\ 0 <= g_bi g < 10.

(* sizes for which the 64-bit arithmetic of the doubling loops is exact *)
Definition gsmall (g : gst) : Prop := gcs_cap (g_buf g) < SZ /\ bk_small (g_bk g).

Lemma abs_len_win g : gwf g -> len (win (abs g)) = Z.to_N (gcs_len (g_buf g) - g_ri g).
Proof.
  intros (H1 & H2 & _). cbn [abs win]. rewrite len_drop, len_gcs_bytes by (unfold cs_wf; lia). lia.
Qed.

Lemma SZ_val : SZ = 2 ^ 59. Proof. reflexivity. Qed.


(* ---------- sizes ---------- *)
Lemma pos_size_nat_le k : forall p, (Npos p < 2 ^ N.of_nat k)%N -> (Pos.size_nat p <= k)%nat.
Proof.
  induction k as [|k IH]; intros p H.
  - cbn in H. lia.
  - rewrite Nat2N.inj_succ, N.pow_succ_r' in H.
    destruct p as [p|p|]; cbn [Pos.size_nat]; [| |lia].
    + specialize (IH p). assert (N.pos p < 2 ^ N.of_nat k)%N by lia. apply IH in H0. lia.
    + specialize (IH p). assert (N.pos p < 2 ^ N.of_nat k)%N by lia. apply IH in H0. lia.
Qed.

Lemma dbl_fuel_le (x : N) k : (x < 2 ^ N.of_nat k)%N -> (dbl_fuel x <= S k)%nat.
Proof.
  intros H. unfold dbl_fuel. destruct x as [|p]; cbn [N.size_nat]; [lia|].
  apply pos_size_nat_le in H. lia.
Qed.

Lemma double_until_bounds f : forall x n, (x <= double_until f x n)%N /\
  (double_until f x n = x \/ double_until f x n < 2 * n)%N.
Proof.
  induction f as [|f IH]; intros x n; cbn [double_until]; [lia|].
  destruct (N.ltb_spec x n); [|lia]. destruct (IH (2 * x)%N n) as [H1 [H2|H2]]; lia.
Qed.

Lemma double_until_room_bounds f : forall x r n, (x <= double_until_room f x r n)%N /\
  (double_until_room f x r n = x \/ double_until_room f x r n < 2 * (r + n))%N.
Proof.
  induction f as [|f IH]; intros x r n; cbn [double_until_room]; [lia|].
  destruct (N.ltb_spec (x - r) n); [|lia]. destruct (IH (2 * x)%N r n) as [H1 [H2|H2]]; lia.
Qed.

Lemma pow2ceil_from_lt f : forall p n, (n <= p -> pow2ceil_from f p n = p)%N /\ (p < n -> pow2ceil_from f p n < 2 * n)%N.
Proof.
  induction f as [|f IH]; intros p n; cbn [pow2ceil_from]; [lia|].
  destruct (N.leb_spec n p); [lia|]. split; [lia|]. intros _.
  destruct (IH (2 * p)%N n) as [H1 H2]. destruct (N.le_gt_cases n (2 * p)); [rewrite H1 by assumption; lia|auto].
Qed.

Lemma pow2ceil_lt n : (pow2ceil n < 2 * n + 2)%N.
Proof.
  unfold pow2ceil. destruct (pow2ceil_from_lt (dbl_fuel n) 1 n) as [H1 H2].
  destruct (N.le_gt_cases n 1); [rewrite H1 by assumption; lia|]. specialize (H2 H). lia.
Qed.

Lemma stats_max_lt (l : list N) B : Forall (fun x => x < B)%N l -> (0 < B)%N -> (stats_max l < B)%N.
Proof.
  unfold stats_max. intros H HB. assert (G : forall acc, (acc < B)%N -> (fold_left N.max l acc < B)%N).
  { induction H as [|x r Hx Hr IH]; intros acc Ha; cbn [fold_left]; [exact Ha|]. apply IH. lia. }
  apply G. exact HB.
Qed.

(* the hand model's acquire_slow, phase by phase *)
Definition hs_loop (st2 : rstate) (n : N) : rstate * N :=
  let s := src st2 in
  let c0 := cur_of s in
  let '(c', acc, _, e, m) :=
    read_loop (sfinal s) (swith s) (cap st2) (ri st2) n (loop_fuel c0) O c0 [] (len (win st2)) in
  (set_st st2 (win st2 ++ flat_rev acc) (ri st2) (cap st2) (ro st2) (npend st2)
          (match e with Some ev => Some ev | None => rerr st2 end) (src_at s c'), m).

Lemma acquire_slow_phases st n :
  acquire_slow st n =
  match rerr st with Some _ => (st, len (win st)) | None => hs_loop (grow_phase (alloc_phase st n) n) n end.
Proof. unfold acquire_slow, hs_loop. destruct (rerr st); reflexivity. Qed.

Section Sim.
  Context {M : Type}.
  Variable mal : M -> Z -> Z -> res (M * gcslice).
  Hypothesis mal_ok : malloc_ok mal.
  Variable fuel : nat.
  Hypothesis fuel64 : (64 < fuel)%nat.

  (* the read loop and what follows it *)
  Lemma rd_tail_abs (mst : M) ro pend s (i n : N) err bk bi (mem : bytes) (l : N) :
    (i <= l)%N -> (l <= len mem)%N -> (i + n <= len mem)%N -> (len mem < 2 ^ 62)%N ->
    (loop_fuel (cur_of s) <= fuel)%nat ->
    let g := mkg (Some (mem, Z.of_N l)) ro pend s (Z.of_N i) err bk bi in
    exists mem' l',
      let g' := mkg (Some (mem', Z.of_N l')) ro pend (src (fst (hs_loop (abs g) n))) (Z.of_N i)
                    (rerr (fst (hs_loop (abs g) n))) bk bi in
      rd_tail mal fuel mst ro bk bi pend (Z.of_N i) (Z.of_N n) fuel s (Some (mem, Z.of_N l)) err 0
      = Ok (gret g', mst, Z.of_N (snd (hs_loop (abs g) n))) /\
      abs g' = fst (hs_loop (abs g) n) /\ len mem' = len mem /\ (l <= l' <= len mem)%N /\
      (snd (hs_loop (abs g) n) <= l' - i)%N.
  Proof.
    intros Hri Hl Hn Hcap Hfuel g.
    unfold hs_loop. cbn [abs src BufReader.ri cap win g g_src g_ri g_buf gcs_mem gcs_len rerr g_err].
    rewrite !gcs_bytes_some, !N2Z.id.
    assert (Hwl : len (drop i (take l mem)) = (l - i)%N) by (rewrite len_drop, len_take; lia).
    rewrite Hwl.
    destruct (read_loop (sfinal s) (swith s) (len mem) i n (loop_fuel (cur_of s)) 0 (cur_of s) [] (l - i))
      as [[[[c' acc'] wl'] e] m] eqn:Hrl.
    destruct (rd_tail_sim mal fuel mst ro bk bi pend i n err (sfinal s) (swith s)
                (loop_fuel (cur_of s)) fuel O s [] mem l c' acc' wl' e m eq_refl eq_refl
                (loop_fuel_measure _) Hfuel Hri Hl Hn Hcap ltac:(lia) Hrl)
      as (mem' & delta & E1 & E2 & E3 & E4 & E5 & E6 & E6' & E7).
    exists mem', (l + len delta)%N. cbn [fst snd set_st src rerr].
    split; [exact E7|]. split; [|split; [exact E1|split; lia]].
    unfold abs, set_st. cbn [g_ri g_buf g_ro g_pend g_err g_src g_bk g_bi gcs_mem gcs_len stats sidx BufReader.ro npend].
    rewrite !gcs_bytes_some, !N2Z.id, E1. f_equal.
    rewrite E4, E2, flat_rev_nil, app_nil_l. rewrite drop_app_le by (rewrite len_take; lia). reflexivity.
  Qed.
  (* the grow phase, then the loop *)
  Lemma rd_grow_abs (mst : M) ro pend s (i n : N) err bk bi (mem : bytes) (l : N) :
    (i <= l)%N -> (l <= len mem)%N -> (0 < len mem)%N -> (len mem < 2 ^ 62)%N ->
    (len mem - i < n -> len mem < 2 ^ 59)%N -> (n < 2 ^ 59)%N ->
    (loop_fuel (cur_of s) <= fuel)%nat ->
    let g := mkg (Some (mem, Z.of_N l)) ro pend s (Z.of_N i) err bk bi in
    let st2 := grow_phase (abs g) n in
    exists mem' l' ro' pend' mst',
      let g' := mkg (Some (mem', Z.of_N l')) ro' pend' (src (fst (hs_loop st2 n))) (Z.of_N i)
                    (rerr (fst (hs_loop st2 n))) bk bi in
      rd_grow mal fuel mst ro bk bi pend (Z.of_N i) (Z.of_N n) s (Some (mem, Z.of_N l)) err
      = Ok (gret g', mst', Z.of_N (snd (hs_loop st2 n))) /\
      abs g' = fst (hs_loop st2 n) /\ (i <= l' <= len mem')%N /\ (len mem' < 2 ^ 62)%N /\
      (snd (hs_loop st2 n) <= l' - i)%N.
  Proof.
    intros Hi Hl Hpos Hcap Hsmall Hn Hfuel g st2.
    unfold rd_grow. rewrite gcs_cap_some. unfold glen. rewrite wraps64_id by lia.
    assert (Habs0 : cap (abs g) = len mem /\ BufReader.ri (abs g) = i) by (cbn; rewrite N2Z.id; auto).
    destruct Habs0 as [Hc0 Hr0].
    unfold st2, grow_phase. rewrite Hc0, Hr0.
    destruct (N.ltb_spec (len mem - i) n) as [Hg|Hg]; destruct (Z.gtb_spec (Z.of_N n) (Z.of_N (len mem) - Z.of_N i)); try lia.
    - (* grow *)
      specialize (Hsmall Hg).
      set (ncap := double_until_room (dbl_fuel (i + n)) (2 * len mem) i n).
      assert (Hd : (dbl_fuel (i + n) <= 62)%nat) by (apply (dbl_fuel_le (i + n) 61); cbn; lia).
      pose proof (double_until_room_spec (2 * len mem) i n ltac:(lia) ltac:(lia)) as Hge. fold ncap in Hge.
      pose proof (double_until_room_bounds (dbl_fuel (i + n)) (2 * len mem) i n) as [Hb1 Hb2]. fold ncap in Hb1, Hb2.
      assert (Hncap : (ncap < 2 ^ 61)%N) by lia.
      rewrite wraps64_id by lia. replace (Z.of_N (len mem) * 2) with (Z.of_N (2 * len mem)) by lia.
      rewrite (rd_loop2 mal fuel i n (dbl_fuel (i + n)) fuel (2 * len mem)) by
        (try lia; pose proof (pow2_dbl_fuel_gt (i + n)); nia).
      cbn [bind]. fold ncap.
      destruct (mal_ok mst (Z.of_N ncap) (Z.of_N ncap) ltac:(lia) ltac:(lia)) as (mst' & mem2 & Hm & Hlen2).
      rewrite Hm. cbn [bind]. rewrite Z.max_id, N2Z.id in Hlen2.
      pose proof (pow2ceil_ge ncap) as Hp1. pose proof (pow2ceil_lt ncap) as Hp2.
      set (w := take (l - i) (drop i mem)).
      assert (Hw : len w = (l - i)%N) by (unfold w; rewrite len_take, len_drop; lia).
      set (mem2' := ((take i mem2 ++ w ++ drop l mem2)%list : bytes)).
      assert (Hlen2' : len mem2' = len mem2) by (unfold mem2'; rewrite !len_app, len_take, len_drop; lia).
      assert (HK : forall pend', 
        (do t8 <- gcs_slice (Some (mem, Z.of_N l)) (Z.of_N i) (gcs_len (Some (mem, Z.of_N l)));
         do (nbuf', cn) <- gcs_copy (Some (mem2, Z.of_N ncap)) (Z.of_N i) (gcs_len (Some (mem2, Z.of_N ncap))) (gcs_bytes t8);
         do t10 <- gcs_slice nbuf' 0 (wraps 64 (Z.of_N i + cn));
         rd_tail mal fuel mst' false bk bi pend' (Z.of_N i) (Z.of_N n) fuel s t10 err 0)
        = rd_tail mal fuel mst' false bk bi pend' (Z.of_N i) (Z.of_N n) fuel s (Some (mem2', Z.of_N l)) err 0).
      { intros pend'. rewrite !gcs_len_some.
        rewrite gcs_slice_some by (unfold glen; lia). cbn [bind]. rewrite gcs_bytes_some.
        replace (Z.to_N (Z.of_N l - Z.of_N i)) with (l - i)%N by lia. rewrite N2Z.id. fold w.
        rewrite gcs_copy_some by (unfold glen; lia). cbn [bind].
        replace (N.min (len w) (Z.to_N (Z.of_N ncap - Z.of_N i))) with (l - i)%N by lia.
        rewrite N2Z.id. rewrite (take_all (l - i) w) by lia.
        replace (i + (l - i))%N with l by lia. fold mem2'.
        rewrite wraps64_id by lia.
        rewrite gcs_slice_some by (unfold glen; lia). cbn [bind].
        change (drop (Z.to_N 0) mem2') with mem2'. do 2 f_equal. f_equal. lia. }
      set (pend' := if ro then pend else gcsl_append pend (Some (mem, Z.of_N l))).
      assert (HKK : (if negb ro then
                       (fun p => do t8 <- gcs_slice (Some (mem, Z.of_N l)) (Z.of_N i) (gcs_len (Some (mem, Z.of_N l)));
                         do (nbuf', cn) <- gcs_copy (Some (mem2, Z.of_N ncap)) (Z.of_N i) (gcs_len (Some (mem2, Z.of_N ncap))) (gcs_bytes t8);
                         do t10 <- gcs_slice nbuf' 0 (wraps 64 (Z.of_N i + cn));
                         rd_tail mal fuel mst' false bk bi p (Z.of_N i) (Z.of_N n) fuel s t10 err 0) (gcsl_append pend (Some (mem, Z.of_N l)))
                     else
                       (fun p => do t8 <- gcs_slice (Some (mem, Z.of_N l)) (Z.of_N i) (gcs_len (Some (mem, Z.of_N l)));
                         do (nbuf', cn) <- gcs_copy (Some (mem2, Z.of_N ncap)) (Z.of_N i) (gcs_len (Some (mem2, Z.of_N ncap))) (gcs_bytes t8);
                         do t10 <- gcs_slice nbuf' 0 (wraps 64 (Z.of_N i + cn));
                         rd_tail mal fuel mst' false bk bi p (Z.of_N i) (Z.of_N n) fuel s t10 err 0) pend)
                    = rd_tail mal fuel mst' false bk bi pend' (Z.of_N i) (Z.of_N n) fuel s (Some (mem2', Z.of_N l)) err 0).
      { unfold pend'. destruct ro; cbn [negb]; apply HK. }
      cbv zeta. rewrite HKK. clear HK HKK.
      destruct (rd_tail_abs mst' false pend' s i n err bk bi mem2' l Hi ltac:(lia) ltac:(lia) ltac:(lia) Hfuel)
        as (mem3 & l3 & E1 & E2 & E3 & E4 & E5).
      cbv zeta in E1, E2, E5.
      assert (Hst2 : abs (mkg (Some (mem2', Z.of_N l)) false pend' s (Z.of_N i) err bk bi) =
                     set_st (abs g) (win (abs g)) i (pow2ceil ncap) false
                            (if BufReader.ro (abs g) then npend (abs g) else (npend (abs g) + 1)%N) (rerr (abs g)) (src (abs g))).
      { unfold abs, set_st, g. cbn [g_buf g_ro g_pend g_src g_ri g_err g_bk g_bi gcs_mem gcs_len win BufReader.ri cap BufReader.ro npend rerr src stats sidx].
        rewrite !gcs_bytes_some, !N2Z.id, Hlen2', Hlen2. f_equal.
        - unfold mem2'. rewrite app_assoc. rewrite take_app_le by (rewrite len_app, len_take; lia).
          rewrite take_all by (rewrite len_app, len_take; lia).
          replace i with (len (take i mem2)) at 1 by (rewrite len_take; lia). rewrite drop_app_len.
          unfold w. symmetry. apply drop_take_comm. exact Hi.
        - unfold pend'. destruct ro; [reflexivity|]. cbn [gcsl_append gcsl_items]. rewrite len_app. reflexivity. }
      rewrite Hst2 in E1, E2, E5.
      exists mem3, l3, false, pend', mst'. cbv zeta. split; [exact E1|]. split; [exact E2|]. split; [lia|]. split; [lia|exact E5].
    - (* no growth *)
      destruct (rd_tail_abs mst ro pend s i n err bk bi mem l Hi Hl ltac:(lia) Hcap Hfuel) as (mem3 & l3 & E1 & E2 & E3 & E4 & E5).
      cbv zeta in E1, E2, E5. fold g in E1, E2, E5.
      exists mem3, l3, ro, pend, mst. cbv zeta. split; [exact E1|]. split; [exact E2|]. split; [lia|]. split; [lia|exact E5].
  Qed.
  (* ---------- acquireSlow ---------- *)
  Theorem g_acquireSlow_sim (mst : M) g n :
    gwf g -> gsmall g -> 0 <= n < SZ -> (loop_fuel (cur_of (g_src g)) <= fuel)%nat ->
    exists g' mst',
      g_bufiox_DefaultReader_acquireSlow source rd_read M mal fuel false
        (g_buf g) (g_ro g) (g_pend g) (g_src g) (g_ri g) (g_err g) (g_bk g) (g_bi g) n mst
      = Ok (gret g', mst', Z.of_N (snd (acquire_slow (abs g) (Z.to_N n)))) /\
      abs g' = fst (acquire_slow (abs g) (Z.to_N n)) /\ gwf g' /\ gcs_cap (g_buf g') < 2 ^ 62 /\
      g_bk g' = g_bk g /\ g_bi g' = g_bi g /\ g_ri g' = g_ri g /\
      Z.of_N (snd (acquire_slow (abs g) (Z.to_N n))) <= gcs_len (g_buf g') - g_ri g'.
  Proof.
    intros Hwf Hsm Hn Hfuel. pose proof (abs_len_win g Hwf) as Hlw.
    destruct g as [buf ro pend s i err bk bi]. destruct Hwf as (Hri & Hlc & [Hbl Hbnn] & Hbi). destruct Hsm as [Hcs Hbs].
    cbn [g_buf g_ro g_pend g_src g_ri g_err g_bk g_bi] in *. rewrite SZ_val in *.
    rewrite g_acquireSlow_unfold, acquire_slow_phases.
    change (rerr (abs (mkg buf ro pend s i err bk bi))) with err.
    destruct err as [e|]; cbn [is_nil negb].
    { exists (mkg buf ro pend s i (Some e) bk bi), mst. cbn [fst snd].
      split; [|repeat split; cbn [g_buf g_ri g_bk g_bi]; try assumption; try lia; rewrite Hlw; cbn [g_buf g_ri]; lia].
      unfold gret. cbn [g_buf g_ro g_pend g_src g_ri g_err g_bk g_bi]. rewrite Hlw. cbn [g_buf g_ri].
      rewrite wraps64_id by (pose proof (gcs_cap_nonneg buf); lia). do 3 f_equal. lia. }
    set (g0 := mkg buf ro pend s i None bk bi) in *.
    assert (Hcap0 : cap (abs g0) = Z.to_N (gcs_cap buf)) by (cbn; unfold gcs_cap, glen; lia).
    unfold alloc_phase. rewrite Hcap0.
    destruct (Z.eqb_spec (gcs_cap buf) 0) as [Hz|Hnz]; destruct (N.eqb_spec (Z.to_N (gcs_cap buf)) 0) as [Hz'|Hnz'];
      try (pose proof (gcs_cap_nonneg buf); lia).
    - (* allocate *)
      assert (Hl0 : gcs_len buf = 0) by lia. assert (Hi0 : i = 0) by lia. subst i.
      rewrite g_maxSize_eq by exact Hbnn. cbn [bind].
      set (sm := stats_max (map Z.to_N bk)).
      assert (Hsm : (sm < 2 ^ 59)%N).
      { apply stats_max_lt; [|lia]. apply Forall_map. unfold bk_small in Hbs. rewrite SZ_val in Hbs.
        rewrite Forall_forall in *. intros x Hx. specialize (Hbs x Hx). specialize (Hbnn x Hx). cbn beta in *. lia. }
      set (x := N.max sm 4096%N).
      set (nn := Z.to_N n).
      set (mx' := double_until (dbl_fuel nn) x nn).
      assert (Hd : (dbl_fuel nn <= 60)%nat) by (apply (dbl_fuel_le nn 59); cbn; lia).
      pose proof (double_until_spec x nn ltac:(lia)) as Hge. fold mx' in Hge.
      pose proof (double_until_bounds (dbl_fuel nn) x nn) as [Hb1 Hb2]. fold mx' in Hb1, Hb2.
      match goal with |- context [if Z.of_N sm <? 4096 then ?A else ?B] =>
        match eval pattern (Z.of_N sm) in B with ?F _ =>
          rewrite (if_same_fun (Z.of_N sm <? 4096) 4096 (Z.of_N sm) (Z.of_N x) F) by (destruct (Z.ltb_spec (Z.of_N sm) 4096); lia)
        end
      end. cbv beta.
      replace n with (Z.of_N nn) by lia.
      rewrite (rd_loop1 mal fuel nn (dbl_fuel nn) fuel x) by (try lia; pose proof (pow2_dbl_fuel_gt nn); nia).
      cbn [bind]. fold mx'.
      destruct (mal_ok mst 0 (Z.of_N mx') ltac:(lia) ltac:(lia)) as (mst' & mem1 & Hm & Hlen1).
      rewrite Hm. cbn [bind].
      replace (Z.to_N (Z.max 0 (Z.of_N mx'))) with mx' in Hlen1 by lia.
      pose proof (pow2ceil_ge mx') as Hp1. pose proof (pow2ceil_lt mx') as Hp2.
      destruct (rd_grow_abs mst' false pend s 0 nn None bk bi mem1 0 ltac:(lia) ltac:(lia) ltac:(lia) ltac:(lia) ltac:(lia) ltac:(lia) Hfuel)
        as (mem' & l' & ro' & pend' & mst'' & E1 & E2 & E3 & E4 & E5).
      cbv zeta in E1, E2, E5. change (Z.of_N 0) with 0 in E1, E2, E5.
      assert (Hal : abs (mkg (Some (mem1, 0)) false pend s 0 None bk bi) =
                    set_st (abs g0) (win (abs g0)) (BufReader.ri (abs g0)) (pow2ceil (double_until (dbl_fuel nn) (N.max (stats_max (stats (abs g0))) bufsz) nn))
                           false (npend (abs g0)) (rerr (abs g0)) (src (abs g0))).
      { unfold abs, set_st, g0. cbn [g_buf g_ro g_pend g_src g_ri g_err g_bk g_bi gcs_mem gcs_len win BufReader.ri cap BufReader.ro npend rerr src stats sidx].
        unfold gcs_bytes. rewrite Hl0. cbn [gcs_len gcs_mem]. fold sm. rewrite bufsz_val. fold x. fold mx'.
        rewrite Hlen1. reflexivity. }
      rewrite Hal in E1, E2, E5.
      exists (mkg (Some (mem', Z.of_N l')) ro' pend' (src (fst (hs_loop (grow_phase (set_st (abs g0) (win (abs g0)) (BufReader.ri (abs g0))
                 (pow2ceil (double_until (dbl_fuel nn) (N.max (stats_max (stats (abs g0))) bufsz) nn)) false (npend (abs g0)) (rerr (abs g0)) (src (abs g0))) nn) nn)))
                 0 (rerr (fst (hs_loop (grow_phase (set_st (abs g0) (win (abs g0)) (BufReader.ri (abs g0))
                 (pow2ceil (double_until (dbl_fuel nn) (N.max (stats_max (stats (abs g0))) bufsz) nn)) false (npend (abs g0)) (rerr (abs g0)) (src (abs g0))) nn) nn))) bk bi), mst''.
      split; [exact E1|]. split; [exact E2|].
      unfold gwf, bk_ok. cbn [g_buf g_ri g_bk g_bi]. rewrite gcs_len_some, gcs_cap_some. unfold glen.
      repeat split; try assumption; try lia.
    - (* a buffer exists *)
      destruct buf as [[mem l]|]; [|cbn in Hnz; lia].
      rewrite gcs_cap_some, gcs_len_some in *. unfold glen in *.
      set (nn := Z.to_N n). set (ii := Z.to_N i). set (ll := Z.to_N l).
      destruct (rd_grow_abs mst ro pend s ii nn None bk bi mem ll ltac:(lia) ltac:(lia) ltac:(lia) ltac:(lia) ltac:(lia) ltac:(lia) Hfuel)
        as (mem' & l' & ro' & pend' & mst'' & E1 & E2 & E3 & E4 & E5).
      cbv zeta in E1, E2, E5.
      replace (Z.of_N ii) with i in * by lia. replace (Z.of_N ll) with l in * by lia. replace (Z.of_N nn) with n in * by lia.
      fold g0 in E1, E2, E5.
      eexists (mkg _ _ _ _ _ _ _ _), mst''.
      split; [exact E1|]. split; [exact E2|].
      unfold gwf, bk_ok. cbn [g_buf g_ri g_bk g_bi]. rewrite gcs_len_some, gcs_cap_some. unfold glen.
      repeat split; try assumption; try lia.
  Qed.
End Sim.

(* ---------- the operations ---------- *)
Section Ops.
  Context {M : Type}.
  Variable mal : M -> Z -> Z -> res (M * gcslice).
  Hypothesis mal_ok : malloc_ok mal.
  Variable fr : M -> gcslice -> res M.
  Hypothesis fr_ok : free_ok fr.
  Variable fuel : nat.
  Hypothesis fuel64 : (64 < fuel)%nat.

  Definition fuel_ok (g : gst) : Prop := (loop_fuel (cur_of (g_src g)) <= fuel)%nat.

  (* acquire(n) *)
  Theorem g_acquire_sim (mst : M) g n :
    gwf g -> gsmall g -> 0 <= n < SZ -> fuel_ok g ->
    exists g' mst',
      g_bufiox_DefaultReader_acquire source rd_read M mal fuel false
        (g_buf g) (g_ro g) (g_pend g) (g_src g) (g_ri g) (g_err g) (g_bk g) (g_bi g) n mst
      = Ok (gret g', mst', Z.of_N (snd (acquire (abs g) (Z.to_N n)))) /\
      abs g' = fst (acquire (abs g) (Z.to_N n)) /\ gwf g' /\ gcs_cap (g_buf g') < 2 ^ 62 /\
      g_bk g' = g_bk g /\ g_bi g' = g_bi g /\ g_ri g' = g_ri g /\
      Z.of_N (snd (acquire (abs g) (Z.to_N n))) <= gcs_len (g_buf g') - g_ri g'.
  Proof.
    intros Hwf Hsm Hn Hfuel. pose proof (abs_len_win g Hwf) as Hlw.
    unfold g_bufiox_DefaultReader_acquire, acquire. cbn [gptr_check bind]. rewrite Hlw.
    pose proof Hwf as (Hri & Hlc & _). pose proof Hsm as [Hcs _]. rewrite SZ_val in *.
    rewrite wraps64_id by lia.
    destruct (Z.leb_spec n (gcs_len (g_buf g) - g_ri g)); destruct (N.leb_spec (Z.to_N n) (Z.to_N (gcs_len (g_buf g) - g_ri g))); try lia.
    - exists g, mst. cbn [fst snd]. unfold gret.
      split; [do 3 f_equal; lia|]. split; [reflexivity|]. split; [exact Hwf|]. repeat split; lia.
    - destruct (g_acquireSlow_sim mal mal_ok fuel fuel64 mst g n Hwf Hsm ltac:(rewrite SZ_val; lia) Hfuel)
        as (g' & mst' & E & R).
      exists g', mst'. rewrite E. cbn [bind gret]. split; [reflexivity|exact R].
  Qed.

  (* outputs: a []byte result and an error *)
  Definition out_bytes (o : rout) : bytes * gerror :=
    match o with OBytes b => (b, None) | OErr e => ([], Some e) | _ => ([], None) end.
  Definition out_err (o : rout) : gerror := match o with OErr e => Some e | _ => None end.

  Lemma advance_abs g n : gwf g -> 0 <= n <= gcs_len (g_buf g) - g_ri g ->
    abs (mkg (g_buf g) (g_ro g) (g_pend g) (g_src g) (g_ri g + n) (g_err g) (g_bk g) (g_bi g)) = advance (abs g) (Z.to_N n).
  Proof.
    intros Hwf Hn. unfold abs, advance, set_st. cbn [g_buf g_ro g_pend g_src g_ri g_err g_bk g_bi win BufReader.ri cap BufReader.ro npend rerr src stats sidx].
    destruct Hwf as (Hri & _). f_equal; [|lia]. rewrite drop_drop. f_equal. lia.
  Qed.

  Lemma take_win g n : gwf g -> 0 <= n <= gcs_len (g_buf g) - g_ri g -> gcs_cap (g_buf g) < 2 ^ 62 ->
    (do t <- gcs_slice (g_buf g) (g_ri g) (wraps 64 (g_ri g + n)); Ok (gcs_bytes t)) = Ok (take (Z.to_N n) (win (abs g))).
  Proof.
    intros (Hri & Hlc & _) Hn Hcap. rewrite wraps64_id by lia.
    rewrite gcs_slice_ok by lia. cbn [bind abs win]. f_equal.
    destruct (g_buf g) as [[mem l]|]; [|cbn in *; assert (n = 0) by lia; subst; reflexivity].
    rewrite !gcs_bytes_some. rewrite gcs_len_some, gcs_cap_some in *. unfold glen in *.
    replace (Z.to_N (g_ri g + n - g_ri g)) with (Z.to_N n) by lia.
    rewrite (drop_take_comm (Z.to_N (g_ri g)) (Z.to_N l)) by lia.
    unfold take. rewrite firstn_firstn. f_equal. lia.
  Qed.
  (* what Next / Peek / Skip do after acquire, as one case analysis *)
  Lemma fail_out_bytes st : out_bytes (fail_out st) = ([], rerr st).
  Proof. unfold fail_out. destruct (rerr st); reflexivity. Qed.

  (* Next(n) *)
  Theorem g_Next_sim (mst : M) g n :
    gwf g -> gsmall g -> n < SZ -> fuel_ok g ->
    exists g' mst',
      g_bufiox_DefaultReader_Next source rd_read M mal fuel false
        (g_buf g) (g_ro g) (g_pend g) (g_src g) (g_ri g) (g_err g) (g_bk g) (g_bi g) n mst
      = Ok (gret g', mst', fst (out_bytes (snd (r_next (abs g) n))), snd (out_bytes (snd (r_next (abs g) n)))) /\
      abs g' = fst (r_next (abs g) n) /\ gwf g' /\ gcs_cap (g_buf g') < 2 ^ 62.
  Proof.
    intros Hwf Hsm Hn Hfuel. unfold g_bufiox_DefaultReader_Next, r_next.
    destruct (Z.ltb_spec n 0) as [Hneg|Hpos].
    { exists g, mst. cbn [fst snd out_bytes]. rewrite ecode_negcount. split; [reflexivity|]. split; [reflexivity|]. split; [exact Hwf|].
      destruct Hsm as [Hc _]. rewrite SZ_val in Hc. lia. }
    destruct (g_acquire_sim mst g n Hwf Hsm ltac:(lia) Hfuel) as (g' & mst' & E & Ea & Hwf' & Hcap' & Hbk & Hbi & Hri' & Hm).
    rewrite E. cbn [bind gret]. destruct (acquire (abs g) (Z.to_N n)) as [st' m] eqn:Eacq. cbn [fst snd] in *.
    destruct (Z.gtb_spec n (Z.of_N m)); destruct (N.ltb_spec m (Z.to_N n)); try lia.
    - exists g', mst'. cbn [gptr_check bind fst snd]. rewrite fail_out_bytes. cbn [fst snd]. rewrite <- Ea. cbn [abs rerr].
      split; [reflexivity|]. split; [reflexivity|]. split; assumption.
    - cbn [gptr_check bind gptr_set]. pose proof (take_win g' n Hwf' ltac:(lia) Hcap') as Htw.
      destruct (gcs_slice (g_buf g') (g_ri g') (wraps 64 (g_ri g' + n))) as [t| | |]; cbn [bind] in Htw; try discriminate.
      inversion Htw as [Htw']. cbn [bind]. rewrite Htw'. pose proof Hwf' as Hwf2. destruct Hwf' as (Hr1 & Hr2 & Hr3 & Hr4).
      rewrite wraps64_id by lia.
      exists (mkg (g_buf g') (g_ro g') (g_pend g') (g_src g') (g_ri g' + n) (g_err g') (g_bk g') (g_bi g')), mst'.
      cbn [fst snd out_bytes]. rewrite <- Ea.
      split; [reflexivity|]. split; [apply advance_abs; [exact Hwf2|lia]|].
      split; [|exact Hcap']. unfold gwf. cbn [g_buf g_ri g_bk g_bi]. split; [lia|]. split; [lia|]. split; [exact Hr3|exact Hr4].
  Qed.

  (* Peek(n) *)
  Theorem g_Peek_sim (mst : M) g n :
    gwf g -> gsmall g -> n < SZ -> fuel_ok g ->
    exists g' mst',
      g_bufiox_DefaultReader_Peek source rd_read M mal fuel false
        (g_buf g) (g_ro g) (g_pend g) (g_src g) (g_ri g) (g_err g) (g_bk g) (g_bi g) n mst
      = Ok (gret g', mst', fst (out_bytes (snd (r_peek (abs g) n))), snd (out_bytes (snd (r_peek (abs g) n)))) /\
      abs g' = fst (r_peek (abs g) n) /\ gwf g' /\ gcs_cap (g_buf g') < 2 ^ 62.
  Proof.
    intros Hwf Hsm Hn Hfuel. unfold g_bufiox_DefaultReader_Peek, r_peek.
    destruct (Z.ltb_spec n 0) as [Hneg|Hpos].
    { exists g, mst. cbn [fst snd out_bytes]. rewrite ecode_negcount. split; [reflexivity|]. split; [reflexivity|]. split; [exact Hwf|].
      destruct Hsm as [Hc _]. rewrite SZ_val in Hc. lia. }
    destruct (g_acquire_sim mst g n Hwf Hsm ltac:(lia) Hfuel) as (g' & mst' & E & Ea & Hwf' & Hcap' & Hbk & Hbi & Hri' & Hm).
    rewrite E. cbn [bind gret]. destruct (acquire (abs g) (Z.to_N n)) as [st' m] eqn:Eacq. cbn [fst snd] in *.
    destruct (Z.gtb_spec n (Z.of_N m)); destruct (N.ltb_spec m (Z.to_N n)); try lia.
    - exists g', mst'. cbn [gptr_check bind fst snd]. rewrite fail_out_bytes. cbn [fst snd]. rewrite <- Ea. cbn [abs rerr].
      split; [reflexivity|]. split; [reflexivity|]. split; assumption.
    - cbn [gptr_check bind gptr_set]. pose proof (take_win g' n Hwf' ltac:(lia) Hcap') as Htw.
      destruct (gcs_slice (g_buf g') (g_ri g') (wraps 64 (g_ri g' + n))) as [t| | |]; cbn [bind] in Htw; try discriminate.
      inversion Htw as [Htw']. cbn [bind]. rewrite Htw'.
      exists g', mst'. cbn [fst snd out_bytes]. rewrite <- Ea.
      split; [reflexivity|]. split; [reflexivity|]. split; assumption.
  Qed.

  (* Skip(n) *)
  Theorem g_Skip_sim (mst : M) g n :
    gwf g -> gsmall g -> n < SZ -> fuel_ok g ->
    exists g' mst',
      g_bufiox_DefaultReader_Skip source rd_read M mal fuel false
        (g_buf g) (g_ro g) (g_pend g) (g_src g) (g_ri g) (g_err g) (g_bk g) (g_bi g) n mst
      = Ok (gret g', mst', out_err (snd (r_skip (abs g) n))) /\
      abs g' = fst (r_skip (abs g) n) /\ gwf g' /\ gcs_cap (g_buf g') < 2 ^ 62.
  Proof.
    intros Hwf Hsm Hn Hfuel. unfold g_bufiox_DefaultReader_Skip, r_skip.
    destruct (Z.ltb_spec n 0) as [Hneg|Hpos].
    { exists g, mst. cbn [fst snd out_err]. rewrite ecode_negcount. split; [reflexivity|]. split; [reflexivity|]. split; [exact Hwf|].
      destruct Hsm as [Hc _]. rewrite SZ_val in Hc. lia. }
    destruct (g_acquire_sim mst g n Hwf Hsm ltac:(lia) Hfuel) as (g' & mst' & E & Ea & Hwf' & Hcap' & Hbk & Hbi & Hri' & Hm).
    rewrite E. cbn [bind gret]. destruct (acquire (abs g) (Z.to_N n)) as [st' m] eqn:Eacq. cbn [fst snd] in *.
    destruct (Z.gtb_spec n (Z.of_N m)); destruct (N.ltb_spec m (Z.to_N n)); try lia.
    - exists g', mst'. cbn [gptr_check bind fst snd]. rewrite <- Ea. cbn [abs rerr].
      split; [unfold gret; destruct (g_err g'); reflexivity|]. split; [reflexivity|]. split; assumption.
    - cbn [gptr_check bind gptr_set]. pose proof Hwf' as Hwf2. destruct Hwf' as (Hr1 & Hr2 & Hr3 & Hr4).
      rewrite wraps64_id by lia.
      exists (mkg (g_buf g') (g_ro g') (g_pend g') (g_src g') (g_ri g' + n) (g_err g') (g_bk g') (g_bi g')), mst'.
      cbn [fst snd out_err]. rewrite <- Ea.
      split; [reflexivity|]. split; [apply advance_abs; [exact Hwf2|lia]|].
      split; [|exact Hcap']. unfold gwf. cbn [g_buf g_ri g_bk g_bi]. split; [lia|]. split; [lia|]. split; [exact Hr3|exact Hr4].
  Qed.

  (* ReadLen() *)
  Theorem g_ReadLen_eq g : gwf g ->
    g_bufiox_DefaultReader_ReadLen source false (g_buf g) (g_ro g) (g_pend g) (g_src g) (g_ri g) (g_err g) (g_bk g) (g_bi g)
    = Ok (gret g, Z.of_N (r_readlen (abs g))).
  Proof. clear. intros (H & _). unfold g_bufiox_DefaultReader_ReadLen, r_readlen. cbn [gptr_check bind abs BufReader.ri gret]. do 2 f_equal. lia. Qed.
  (* ReadBinary(bs): the bytes copied replace the front of bs *)
  Theorem g_ReadBinary_sim (mst : M) g (bs : bytes) :
    gwf g -> gsmall g -> glen bs < SZ -> fuel_ok g ->
    exists g' mst' m copied e,
      snd (r_readbinary (abs g) (len bs)) = ORead m copied e /\ len copied = N.min m (len bs) /\
      g_bufiox_DefaultReader_ReadBinary source rd_read M mal fuel false
        (g_buf g) (g_ro g) (g_pend g) (g_src g) (g_ri g) (g_err g) (g_bk g) (g_bi g) bs mst
      = Ok (gret g', (copied ++ drop (len copied) bs)%list, mst', Z.of_N m, e) /\
      abs g' = fst (r_readbinary (abs g) (len bs)) /\ gwf g' /\ gcs_cap (g_buf g') < 2 ^ 62.
  Proof.
    intros Hwf Hsm Hn Hfuel. unfold g_bufiox_DefaultReader_ReadBinary, r_readbinary.
    destruct (g_acquire_sim mst g (glen bs) Hwf Hsm ltac:(pose proof (glen_nonneg bs); lia) Hfuel)
      as (g' & mst' & E & Ea & Hwf' & Hcap' & Hbk & Hbi & Hri' & Hm).
    rewrite glen_N in *. rewrite E. cbn [bind gret gptr_check].
    destruct (acquire (abs g) (len bs)) as [st' m] eqn:Eacq. cbn [fst snd] in *.
    pose proof (take_win g' (Z.of_N m) Hwf' ltac:(lia) Hcap') as Htw.
    destruct (gcs_slice (g_buf g') (g_ri g') (wraps 64 (g_ri g' + Z.of_N m))) as [t| | |]; cbn [bind] in Htw; try discriminate.
    inversion Htw as [Htw']. cbn [bind]. rewrite Htw', N2Z.id. clear Htw Htw' t.
    pose proof Hwf' as Hwf2. destruct Hwf' as (Hr1 & Hr2 & Hr3 & Hr4).
    pose proof (abs_len_win g' Hwf2) as Hlw.
    change (drop (Z.to_N (g_ri g')) (gcs_bytes (g_buf g'))) with (win (abs g')).
    set (w := win (abs g')) in *.
    assert (Hlt : len (take m w) = m) by (rewrite len_take; lia).
    rewrite gcopy_0, Hlt. cbn [bind gptr_set].
    set (copied := take (N.min m (len bs)) (take m w)).
    assert (Hcp : copied = take (N.min m (len bs)) w).
    { unfold copied, take. rewrite firstn_firstn. f_equal. lia. }
    assert (Hlc : len copied = N.min m (len bs)) by (unfold copied; rewrite len_take; lia).
    assert (Hl2 : glen (copied ++ drop (N.min m (len bs)) bs) = glen bs).
    { unfold glen. rewrite len_app, len_drop, Hlc. lia. }
    rewrite Hl2. rewrite wraps64_id by lia.
    exists (mkg (g_buf g') (g_ro g') (g_pend g') (g_src g') (g_ri g' + Z.of_N m) (g_err g') (g_bk g') (g_bi g')), mst', m, copied,
           (if (m <? len bs)%N then rerr st' else None).
    rewrite <- Ea at 1. split; [rewrite Hcp; reflexivity|]. split; [exact Hlc|].
    split.
    { rewrite Hlc. unfold glen. destruct (Z.gtb_spec (Z.of_N (len bs)) (Z.of_N m)); destruct (N.ltb_spec m (len bs)); try lia.
      - cbn [gptr_check bind]. rewrite <- Ea. reflexivity.
      - reflexivity. }
    split; [rewrite <- Ea, (advance_abs g' (Z.of_N m) Hwf2 ltac:(lia)), N2Z.id; reflexivity|].
    split; [|exact Hcap']. unfold gwf. cbn [g_buf g_ri g_bk g_bi]. split; [lia|]. split; [lia|]. split; [exact Hr3|exact Hr4].
  Qed.
  (* Release(e) *)
  Lemma rel_loop (xs : list gcslice) : forall i (mst : M), exists mst',
    g_bufiox_DefaultReader_Release_loop1 source M fr xs i mst = Ok (inl mst').
  Proof.
    induction xs as [|x r IH]; intros i mst; cbn [g_bufiox_DefaultReader_Release_loop1].
    - exists mst. reflexivity.
    - destruct (fr_ok mst x) as [m1 E]. rewrite E. cbn [bind]. apply IH.
  Qed.

  Definition rel_rest (mst : M) buf ro (s : source) ri (err : gerror) bk bi :=
    if wraps 64 (gcs_len buf - ri) =? 0 then
      do (bk', bi') <- g_bufiox_maxSizeStats_update false bk bi (gcs_cap buf);
      do t3 <- (if negb ro then Ok (gcs_cap buf >? 0) else Ok false);
      if (t3 : bool) then
        do mst' <- fr mst buf;
        Ok (gcs_nil, ro, gcsl_nil, s, 0, err, bk', bi', mst', gnil)
      else Ok (gcs_nil, ro, gcsl_nil, s, 0, err, bk', bi', mst, gnil)
    else if ro then
      do t4 <- gcs_slice buf ri (gcs_len buf);
      Ok (t4, ro, gcsl_nil, s, 0, err, bk, bi, mst, gnil)
    else
      do t5 <- gcs_slice buf ri (gcs_len buf);
      do (buf', n) <- gcs_copy buf 0 (gcs_len buf) (gcs_bytes t5);
      do t7 <- gcs_slice buf' 0 n;
      Ok (t7, ro, gcsl_nil, s, 0, err, bk, bi, mst, gnil).

  Lemma g_Release_unfold (mst : M) buf ro pend s ri err bk bi e :
    g_bufiox_DefaultReader_Release source M fr false buf ro pend s ri err bk bi e mst =
    if negb (gcsl_is_nil pend) then
      do t <- g_bufiox_DefaultReader_Release_loop1 source M fr (gcsl_items pend) 0 mst;
      match t with inr r => Ok r | inl mst' => rel_rest mst' buf ro s ri err bk bi end
    else rel_rest mst buf ro s ri err bk bi.
  Proof. reflexivity. Qed.

  Lemma bk_ok_update bk bi x : bk_ok bk -> 0 <= bi < 10 -> 0 <= x ->
    bk_ok (firstn (Z.to_nat bi) bk ++ x :: skipn (S (Z.to_nat bi)) bk).
  Proof.
    intros [Hl Hf] Hb Hx. split.
    - rewrite app_length, firstn_length. cbn [length]. rewrite skipn_length. lia.
    - apply Forall_app. split; [apply Forall_firstn'; exact Hf|]. constructor; [exact Hx|apply Forall_skipn'; exact Hf].
  Qed.

  Lemma rel_rest_sim (mst : M) g : gwf g -> gcs_cap (g_buf g) < 2 ^ 62 ->
    exists g' mst',
      rel_rest mst (g_buf g) (g_ro g) (g_src g) (g_ri g) (g_err g) (g_bk g) (g_bi g) = Ok (gret g', mst', gnil) /\
      abs g' = r_release (abs g) /\ gwf g' /\ gcs_cap (g_buf g') <= gcs_cap (g_buf g).
  Proof.
    intros Hwf Hcap. pose proof (abs_len_win g Hwf) as Hlw. pose proof Hwf as (Hri & Hlc & Hbk & Hbi).
    unfold rel_rest, r_release. rewrite Hlw. rewrite wraps64_id by lia.
    destruct (Z.eqb_spec (gcs_len (g_buf g) - g_ri g) 0) as [Hz|Hnz];
      destruct (N.eqb_spec (Z.to_N (gcs_len (g_buf g) - g_ri g)) 0); try lia.
    - (* nothing unread: the buffer is given back *)
      destruct Hbk as [Hbl Hbf]. rewrite g_update_eq by assumption. cbn [bind].
      set (bk' := (firstn (Z.to_nat (g_bi g)) (g_bk g) ++ gcs_cap (g_buf g) :: skipn (S (Z.to_nat (g_bi g))) (g_bk g))%list).
      assert (Hab : forall mst', abs (mkg gcs_nil (g_ro g) gcsl_nil (g_src g) 0 (g_err g) bk' ((g_bi g + 1) mod 10)) =
                     (let '(b, i) := stats_update (abs g) (cap (abs g)) in
                      {| win := []; ri := 0; cap := 0; ro := BufReader.ro (abs g); npend := 0; rerr := rerr (abs g);
                         src := src (abs g); stats := b; sidx := i |}) /\
                    gwf (mkg gcs_nil (g_ro g) gcsl_nil (g_src g) 0 (g_err g) bk' ((g_bi g + 1) mod 10)) /\ (mst' : M) = mst').
      { intros mst'. split; [|split; [|reflexivity]].
        - unfold stats_update, abs. cbn [g_buf g_ro g_pend g_src g_ri g_err g_bk g_bi gcs_mem gcs_len gcs_bytes stats sidx cap BufReader.ro rerr src gcsl_items gcs_nil gcsl_nil].
          rewrite nbuckets_val. f_equal.
          + unfold bk'. rewrite map_app. cbn [map]. rewrite firstn_map, skipn_map. unfold gcs_cap, glen.
            rewrite N2Z.id. do 2 f_equal; [f_equal; lia|]. do 2 f_equal. lia.
          + rewrite Z2N.inj_mod by lia. f_equal. lia.
        - unfold gwf. cbn [g_buf g_ri g_bk g_bi gcs_nil gcs_len gcs_cap gcs_mem glen len length]. split; [lia|]. split; [cbn; lia|].
          split; [apply bk_ok_update; [split; assumption|exact Hbi|apply gcs_cap_nonneg]|].
          pose proof (Z.mod_pos_bound (g_bi g + 1) 10). lia. }
      destruct (g_ro g) eqn:Hro; cbn [negb bind].
      + exists (mkg gcs_nil true gcsl_nil (g_src g) 0 (g_err g) bk' ((g_bi g + 1) mod 10)), mst.
        destruct (Hab mst) as (A1 & A2 & _). split; [reflexivity|]. split; [exact A1|]. split; [exact A2|].
        cbn. apply gcs_cap_nonneg.
      + destruct (gcs_cap (g_buf g) >? 0).
        * destruct (fr_ok mst (g_buf g)) as [m1 E]. rewrite E. cbn [bind].
          exists (mkg gcs_nil false gcsl_nil (g_src g) 0 (g_err g) bk' ((g_bi g + 1) mod 10)), m1.
          destruct (Hab mst) as (A1 & A2 & _). split; [reflexivity|]. split; [exact A1|]. split; [exact A2|].
          cbn. apply gcs_cap_nonneg.
        * exists (mkg gcs_nil false gcsl_nil (g_src g) 0 (g_err g) bk' ((g_bi g + 1) mod 10)), mst.
          destruct (Hab mst) as (A1 & A2 & _). split; [reflexivity|]. split; [exact A1|]. split; [exact A2|].
          cbn. apply gcs_cap_nonneg.
    - (* an unread tail remains *)
      destruct (g_buf g) as [[mem l]|] eqn:Hbuf; [|cbn in *; lia].
      rewrite gcs_len_some, gcs_cap_some in *. unfold glen in *.
      change (BufReader.ro (abs g)) with (g_ro g).
      destruct (g_ro g) eqn:Hro.
      + (* read-only: re-slice *)
        rewrite gcs_slice_some by (unfold glen; lia). cbn [bind].
        exists (mkg (Some (drop (Z.to_N (g_ri g)) mem, l - g_ri g)) true gcsl_nil (g_src g) 0 (g_err g) (g_bk g) (g_bi g)), mst.
        split; [reflexivity|]. split.
        { unfold abs, set_st. rewrite Hbuf, Hro. cbn [g_buf g_ro g_pend g_src g_ri g_err g_bk g_bi gcs_mem gcs_len stats sidx cap BufReader.ri BufReader.ro rerr src win gcsl_items gcsl_nil npend].
          rewrite !gcs_bytes_some. change (drop (Z.to_N 0) ?x) with x. f_equal.
          - rewrite (drop_take_comm (Z.to_N (g_ri g)) (Z.to_N l)) by lia. f_equal. lia.
          - rewrite len_drop. reflexivity. }
        split.
        { unfold gwf. cbn [g_buf g_ri g_bk g_bi]. rewrite gcs_len_some, gcs_cap_some. unfold glen. rewrite len_drop.
          split; [lia|]. split; [lia|]. split; assumption. }
        cbn [g_buf]. rewrite gcs_cap_some. unfold glen. rewrite len_drop. lia.
      + (* owned: move the tail to the front *)
        rewrite gcs_slice_some by (unfold glen; lia). cbn [bind]. rewrite gcs_bytes_some.
        set (w := take (Z.to_N (l - g_ri g)) (drop (Z.to_N (g_ri g)) mem)).
        assert (Hw : len w = Z.to_N (l - g_ri g)) by (unfold w; rewrite len_take, len_drop; lia).
        rewrite gcs_copy_some by (unfold glen; lia). cbn [bind].
        replace (N.min (len w) (Z.to_N (l - 0))) with (len w) by lia.
        change (Z.to_N 0) with 0%N. rewrite N.add_0_l. change (take 0 mem) with (@nil N). cbn [app].
        rewrite (take_all (len w) w) by lia.
        set (mem' := ((w ++ drop (len w) mem)%list : bytes)).
        assert (Hlm : len mem' = len mem) by (unfold mem'; rewrite len_app, len_drop; lia).
        rewrite gcs_slice_some by (unfold glen; lia). cbn [bind]. change (drop (Z.to_N 0) mem') with mem'.
        exists (mkg (Some (mem', Z.of_N (len w) - 0)) false gcsl_nil (g_src g) 0 (g_err g) (g_bk g) (g_bi g)), mst.
        split; [reflexivity|]. split.
        { unfold abs, set_st. rewrite Hbuf, Hro. cbn [g_buf g_ro g_pend g_src g_ri g_err g_bk g_bi gcs_mem gcs_len stats sidx cap BufReader.ri BufReader.ro rerr src win gcsl_items gcsl_nil npend].
          rewrite !gcs_bytes_some. change (drop (Z.to_N 0) ?x) with x. rewrite Hlm. f_equal.
          replace (Z.to_N (Z.of_N (len w) - 0)) with (len w) by lia. unfold mem'. rewrite take_app_len.
          unfold w. rewrite (drop_take_comm (Z.to_N (g_ri g)) (Z.to_N l)) by lia. f_equal. lia. }
        split.
        { unfold gwf. cbn [g_buf g_ri g_bk g_bi]. rewrite gcs_len_some, gcs_cap_some. unfold glen.
          split; [lia|]. split; [lia|]. split; assumption. }
        cbn [g_buf]. rewrite gcs_cap_some. unfold glen. lia.
  Qed.

  Theorem g_Release_sim (mst : M) g e : gwf g -> gcs_cap (g_buf g) < 2 ^ 62 ->
    exists g' mst',
      g_bufiox_DefaultReader_Release source M fr false
        (g_buf g) (g_ro g) (g_pend g) (g_src g) (g_ri g) (g_err g) (g_bk g) (g_bi g) e mst
      = Ok (gret g', mst', gnil) /\
      abs g' = r_release (abs g) /\ gwf g' /\ gcs_cap (g_buf g') <= gcs_cap (g_buf g).
  Proof.
    intros Hwf Hcap. rewrite g_Release_unfold.
    destruct (gcsl_is_nil (g_pend g)); cbn [negb].
    - apply rel_rest_sim; assumption.
    - destruct (rel_loop (gcsl_items (g_pend g)) 0 mst) as [m1 E]. rewrite E. cbn [bind].
      apply rel_rest_sim; assumption.
  Qed.
End Ops.

(* ---------- reset: the state the two constructors build ---------- *)
Definition g_fresh (s : source) (b : gcslice) : gst :=
  if gcs_cap b >? 0 then mkg b true gcsl_nil s 0 gnil (repeat 0 10) 0
  else mkg gcs_nil false gcsl_nil s 0 gnil (repeat 0 10) 0.

Theorem g_reset_eq g0 (s : source) (b : gcslice) :
  g_bufiox_DefaultReader_reset source false (g_buf g0) (g_ro g0) (g_pend g0) (g_src g0) (g_ri g0) (g_err g0) (g_bk g0) (g_bi g0) s b
  = Ok (gret (g_fresh s b)).
Proof. unfold g_bufiox_DefaultReader_reset, g_fresh. destruct (gcs_cap b >? 0); reflexivity. Qed.

Lemma g_fresh_wf s b : cs_wf b -> gwf (g_fresh s b).
Proof.
  intros Hb. unfold g_fresh, gwf, bk_ok. destruct (gcs_cap b >? 0); cbn [g_buf g_ri g_bk g_bi].
  - unfold cs_wf in Hb. repeat split; try lia. repeat constructor; lia.
  - cbn. repeat split; try lia. repeat constructor; lia.
Qed.

(* NewDefaultReader(rd): reset(rd, nil) *)
Lemma g_fresh_new_reader s : abs (g_fresh s gcs_nil) = new_reader s.
Proof. reflexivity. Qed.

(* NewBytesReader(buf): reset(fakeIOReader, buf), buf = data with spare capacity *)
Lemma g_fresh_bytes_reader (mem : bytes) (l : N) : (l <= len mem)%N ->
  abs (g_fresh fake_source (Some (mem, Z.of_N l))) = new_bytes_reader (take l mem) (len mem).
Proof.
  intros H. unfold g_fresh, new_bytes_reader. rewrite gcs_cap_some. unfold glen.
  destruct (Z.gtb_spec (Z.of_N (len mem)) 0); destruct (N.ltb_spec 0 (len mem)); try lia; [|reflexivity].
  unfold abs. cbn [g_buf g_ro g_pend g_src g_ri g_err g_bk g_bi gcs_mem gcsl_items gcsl_nil].
  rewrite gcs_bytes_some, N2Z.id. reflexivity.
Qed.

(* ---------- histories ---------- *)
(* what the caller of the generated methods observes *)
Inductive gobs : Type :=
| GBytes (b : bytes) (e : gerror)          (* Next / Peek *)
| GErr (e : gerror)                        (* Skip / Release *)
| GRead (m : Z) (b : bytes) (e : gerror)   (* ReadBinary: count, the bytes stored at the front of bs, error *)
| GLen (n : Z).

Definition obs_of (op : rop) (o : rout) : gobs :=
  match op with
  | RNext _ | RPeek _ => GBytes (fst (out_bytes o)) (snd (out_bytes o))
  | RSkip _ => GErr (out_err o)
  | RReadBinary _ => match o with ORead m b e => GRead (Z.of_N m) b e | _ => GRead 0 [] None end
  | RReadLen => match o with OLen n => GLen (Z.of_N n) | _ => GLen 0 end
  | RRelease => GErr None
  end.

Section Run.
  Context {M : Type}.
  Variable mal : M -> Z -> Z -> res (M * gcslice).
  Variable fr : M -> gcslice -> res M.
  Variable fuel : nat.

  Definition g_step (gm : gst * M) (op : rop) : res (gst * M * gobs) :=
    let '(g, mst) := gm in
    match op with
    | RNext n =>
      do (buf, ro, pend, s, ri, err, bk, bi, mst', b, e) <-
        g_bufiox_DefaultReader_Next source rd_read M mal fuel false (g_buf g) (g_ro g) (g_pend g) (g_src g) (g_ri g) (g_err g) (g_bk g) (g_bi g) n mst;
      Ok (mkg buf ro pend s ri err bk bi, mst', GBytes b e)
    | RPeek n =>
      do (buf, ro, pend, s, ri, err, bk, bi, mst', b, e) <-
        g_bufiox_DefaultReader_Peek source rd_read M mal fuel false (g_buf g) (g_ro g) (g_pend g) (g_src g) (g_ri g) (g_err g) (g_bk g) (g_bi g) n mst;
      Ok (mkg buf ro pend s ri err bk bi, mst', GBytes b e)
    | RSkip n =>
      do (buf, ro, pend, s, ri, err, bk, bi, mst', e) <-
        g_bufiox_DefaultReader_Skip source rd_read M mal fuel false (g_buf g) (g_ro g) (g_pend g) (g_src g) (g_ri g) (g_err g) (g_bk g) (g_bi g) n mst;
      Ok (mkg buf ro pend s ri err bk bi, mst', GErr e)
    | RReadBinary k =>
      (* the caller's slice: k bytes (zeros); observed: the count, the bytes stored at its front, the error *)
      do (buf, ro, pend, s, ri, err, bk, bi, bs', mst', m, e) <-
        g_bufiox_DefaultReader_ReadBinary source rd_read M mal fuel false (g_buf g) (g_ro g) (g_pend g) (g_src g) (g_ri g) (g_err g) (g_bk g) (g_bi g)
          (repeat 0%N (N.to_nat k)) mst;
      Ok (mkg buf ro pend s ri err bk bi, mst', GRead m (take (N.min (Z.to_N m) k) bs') e)
    | RReadLen =>
      do (buf, ro, pend, s, ri, err, bk, bi, n) <-
        g_bufiox_DefaultReader_ReadLen source false (g_buf g) (g_ro g) (g_pend g) (g_src g) (g_ri g) (g_err g) (g_bk g) (g_bi g);
      Ok (mkg buf ro pend s ri err bk bi, mst, GLen n)
    | RRelease =>
      do (buf, ro, pend, s, ri, err, bk, bi, mst', e) <-
        g_bufiox_DefaultReader_Release source M fr false (g_buf g) (g_ro g) (g_pend g) (g_src g) (g_ri g) (g_err g) (g_bk g) (g_bi g) gnil mst;
      Ok (mkg buf ro pend s ri err bk bi, mst', GErr e)
    end.

  Fixpoint g_run (gm : gst * M) (ops : list rop) : res (gst * M * list gobs) :=
    match ops with
    | [] => Ok (fst gm, snd gm, [])
    | op :: r =>
      do (g', mst', ob) <- g_step gm op;
      do (g'', mst'', obs) <- g_run (g', mst') r;
      Ok (g'', mst'', ob :: obs)
    end.

  (* sizes small enough for 64-bit int, fuel enough for the source as it is now: at every step *)
  Definition st_small (st : rstate) : Prop := (cap st < 2 ^ 59)%N /\ Forall (fun x => x < 2 ^ 59)%N (stats st).
  Definition op_small (op : rop) : Prop :=
    match op with
    | RNext n | RPeek n | RSkip n => n < 2 ^ 59
    | RReadBinary k => (k < 2 ^ 59)%N
    | _ => True
    end.
  Fixpoint run_ok (st : rstate) (ops : list rop) : Prop :=
    match ops with
    | [] => True
    | op :: r => st_small st /\ op_small op /\ (loop_fuel (cur_of (src st)) <= fuel)%nat /\ run_ok (fst (r_step st op)) r
    end.

  Hypothesis mal_ok : malloc_ok mal.
  Hypothesis fr_ok : free_ok fr.
  Hypothesis fuel64 : (64 < fuel)%nat.

  Lemma gsmall_of g : gwf g -> st_small (abs g) -> gsmall g.
  Proof.
    intros (_ & _ & [_ Hnn] & _) [Hc Hs]. cbn [abs cap stats] in Hc, Hs. split.
    - rewrite SZ_val. unfold gcs_cap, glen. lia.
    - unfold bk_small. rewrite SZ_val. rewrite Forall_map in Hs. rewrite Forall_forall in *.
      intros x Hx. specialize (Hs x Hx). specialize (Hnn x Hx). cbn beta in *. lia.
  Qed.

  Lemma gret_eta g : mkg (g_buf g) (g_ro g) (g_pend g) (g_src g) (g_ri g) (g_err g) (g_bk g) (g_bi g) = g.
  Proof. destruct g; reflexivity. Qed.

  Theorem g_step_sim g mst op :
    gwf g -> st_small (abs g) -> op_small op -> (loop_fuel (cur_of (g_src g)) <= fuel)%nat ->
    exists g' mst',
      g_step (g, mst) op = Ok (g', mst', obs_of op (snd (r_step (abs g) op))) /\
      abs g' = fst (r_step (abs g) op) /\ gwf g'.
  Proof.
    intros Hwf Hst Hop Hfuel. pose proof (gsmall_of g Hwf Hst) as Hsm.
    destruct op as [n|n|n|k| |]; cbn [g_step r_step obs_of op_small] in *.
    - destruct (g_Next_sim mal mal_ok fuel fuel64 mst g n Hwf Hsm ltac:(rewrite SZ_val; lia) Hfuel) as (g' & mst' & E & Ea & Hw & _).
      rewrite E. unfold gret. cbn [bind]. rewrite gret_eta. exists g', mst'. auto.
    - destruct (g_Peek_sim mal mal_ok fuel fuel64 mst g n Hwf Hsm ltac:(rewrite SZ_val; lia) Hfuel) as (g' & mst' & E & Ea & Hw & _).
      rewrite E. unfold gret. cbn [bind]. rewrite gret_eta. exists g', mst'. auto.
    - destruct (g_Skip_sim mal mal_ok fuel fuel64 mst g n Hwf Hsm ltac:(rewrite SZ_val; lia) Hfuel) as (g' & mst' & E & Ea & Hw & _).
      rewrite E. unfold gret. cbn [bind]. rewrite gret_eta. exists g', mst'. auto.
    - assert (Hlen : len (repeat 0%N (N.to_nat k)) = k) by (unfold len; rewrite repeat_length; lia).
      destruct (g_ReadBinary_sim mal mal_ok fuel fuel64 mst g (repeat 0%N (N.to_nat k)) Hwf Hsm
                  ltac:(unfold glen; rewrite Hlen, SZ_val; lia) Hfuel) as (g' & mst' & m & copied & e & Eo & Elc & E & Ea & Hw & _).
      rewrite Hlen in *. rewrite E. unfold gret. cbn [bind]. rewrite gret_eta. exists g', mst'. rewrite Eo.
      split; [|auto]. do 3 f_equal. rewrite N2Z.id, <- Elc. apply take_app_len.
    - rewrite g_ReadLen_eq by exact Hwf. unfold gret. cbn [bind]. rewrite gret_eta. exists g, mst. auto.
    - destruct Hst as [Hc _]. cbn [abs cap] in Hc.
      destruct (g_Release_sim fr fr_ok fuel fuel64 mst g gnil Hwf ltac:(unfold gcs_cap, glen; lia)) as (g' & mst' & E & Ea & Hw & _).
      rewrite E. unfold gret. cbn [bind]. rewrite gret_eta. exists g', mst'. auto.
  Qed.

  Theorem g_run_sim : forall ops g mst,
    gwf g -> run_ok (abs g) ops ->
    exists g' mst',
      g_run (g, mst) ops = Ok (g', mst', map (fun p => obs_of (fst p) (snd p)) (combine ops (snd (r_run (abs g) ops)))) /\
      abs g' = fst (r_run (abs g) ops) /\ gwf g'.
  Proof.
    induction ops as [|op r IH]; intros g mst Hwf Hok; cbn [g_run r_run run_ok] in *.
    - exists g, mst. cbn. auto.
    - destruct Hok as (Hst & Hop & Hfuel & Hok).
      destruct (g_step_sim g mst op Hwf Hst Hop Hfuel) as (g1 & m1 & E1 & Ea1 & Hw1).
      rewrite E1. cbn [bind]. destruct (r_step (abs g) op) as [st1 o1] eqn:Es. cbn [fst snd] in *.
      rewrite <- Ea1 in Hok. destruct (IH g1 m1 Hw1 Hok) as (g2 & m2 & E2 & Ea2 & Hw2).
      rewrite E2. cbn [bind]. rewrite <- Ea1. destruct (r_run (abs g1) r) as [st2 outs] eqn:Er. cbn [fst snd combine map] in *.
      exists g2, m2. auto.
  Qed.
End Run.

(* ---------- fuel: the source only shrinks, so fuel that is enough at the start is enough at every step ---------- *)
Lemma read_loop_shrinks s cp i n : forall fuel empty c acc wl c' acc' wl' e m,
  cur_of (src_at s c) = c ->
  read_loop (sfinal s) (swith s) cp i n fuel empty c acc wl = (c', acc', wl', e, m) ->
  cur_of (src_at s c') = c' /\ (cur_measure c' <= cur_measure c)%nat.
Proof.
  induction fuel as [|fuel IH]; intros empty c acc wl c' acc' wl' e m HP H.
  - cbn [read_loop] in H. inversion H; subst. split; [exact HP|lia].
  - rewrite read_loop_S in H. destruct (Nat.leb max_empty empty); [inversion H; subst; split; [exact HP|lia]|].
    cbv zeta in H.
    destruct (cur_read (sfinal s) (swith s) c (cp - (i + wl))) as [[[bs1 m1] e1] c1] eqn:Hrd.
    assert (Hwf : cur_wf c) by (rewrite <- HP; apply cur_of_wf).
    pose proof (cur_read_inv _ _ _ _ _ _ _ _ Hwf Hrd) as (_ & _ & Hrest & _ & _ & Hchunks & _ & _).
    assert (HP1 : cur_of (src_at s c1) = c1).
    { pose proof (cur_read_src_read (src_at s c) (cp - (i + wl)) bs1 m1 e1 c1) as X.
      cbn [src_at sfinal swith] in X. rewrite HP in X. destruct (X Hrd) as [_ X2]. exact X2. }
    assert (Hm1 : (cur_measure c1 <= cur_measure c)%nat).
    { unfold cur_measure. assert (length (c_rest c) = length bs1 + length (c_rest c1))%nat by (rewrite Hrest; apply app_length).
      destruct Hchunks as [(Hc & Hc1 & _)|(x & Hc & _)]; rewrite Hc; [rewrite Hc1|]; cbn [length]; lia. }
    destruct e1 as [ev|]; [inversion H; subst; auto|].
    destruct (n <=? wl + m1)%N; [inversion H; subst; auto|].
    destruct (0 <? m1)%N; destruct (IH _ _ _ _ _ _ _ _ _ HP1 H) as [A B]; split; try exact A; lia.
Qed.

Lemma acquire_fuel_mono st n : (loop_fuel (cur_of (src (fst (acquire st n)))) <= loop_fuel (cur_of (src st)))%nat.
Proof.
  unfold acquire. destruct (n <=? len (win st))%N; [cbn [fst]; lia|].
  rewrite acquire_slow_phases. destruct (rerr st); [cbn [fst]; lia|].
  set (st2 := grow_phase (alloc_phase st n) n).
  assert (Hs : src st2 = src st).
  { unfold st2, grow_phase, alloc_phase, set_st. destruct (cap st =? 0)%N; cbn [cap ri src];
      match goal with |- context [if ?b then _ else _] => destruct b end; reflexivity. }
  unfold hs_loop. rewrite Hs.
  destruct (read_loop (sfinal (src st)) (swith (src st)) (cap st2) (ri st2) n (loop_fuel (cur_of (src st))) 0
              (cur_of (src st)) [] (len (win st2))) as [[[[c' acc'] wl'] e] m] eqn:E.
  cbn [fst set_st src].
  destruct (read_loop_shrinks (src st) _ _ _ _ _ _ _ _ _ _ _ _ _ ltac:(rewrite src_at_cur_of; reflexivity) E) as [HP Hm].
  rewrite HP. unfold loop_fuel, cur_measure in *. lia.
Qed.

Lemma r_step_fuel_mono st o : (loop_fuel (cur_of (src (fst (r_step st o)))) <= loop_fuel (cur_of (src st)))%nat.
Proof.
  destruct o as [n|n|n|k| |]; cbn [r_step fst].
  - unfold r_next. destruct (n <? 0); [cbn [fst]; lia|]. pose proof (acquire_fuel_mono st (Z.to_N n)) as H.
    destruct (acquire st (Z.to_N n)) as [st' m]. cbn [fst] in H. destruct (m <? Z.to_N n)%N; cbn [fst advance set_st src]; exact H.
  - unfold r_peek. destruct (n <? 0); [cbn [fst]; lia|]. pose proof (acquire_fuel_mono st (Z.to_N n)) as H.
    destruct (acquire st (Z.to_N n)) as [st' m]. cbn [fst] in H. destruct (m <? Z.to_N n)%N; cbn [fst]; exact H.
  - unfold r_skip. destruct (n <? 0); [cbn [fst]; lia|]. pose proof (acquire_fuel_mono st (Z.to_N n)) as H.
    destruct (acquire st (Z.to_N n)) as [st' m]. cbn [fst] in H. destruct (m <? Z.to_N n)%N; cbn [fst advance set_st src]; exact H.
  - unfold r_readbinary. pose proof (acquire_fuel_mono st k) as H.
    destruct (acquire st k) as [st' m]. cbn [fst advance set_st src] in *. exact H.
  - lia.
  - unfold r_release. destruct (len (win st) =? 0)%N.
    + destruct (stats_update st (cap st)). cbn [src]. lia.
    + destruct (ro st); cbn [set_st src]; lia.
Qed.

(* sizes small at every step (no fuel condition) *)
Fixpoint run_small (st : rstate) (ops : list rop) : Prop :=
  match ops with
  | [] => True
  | op :: r => st_small st /\ op_small op /\ run_small (fst (r_step st op)) r
  end.

Lemma run_ok_of_small fuel : forall ops st, (loop_fuel (cur_of (src st)) <= fuel)%nat -> run_small st ops -> run_ok fuel st ops.
Proof.
  induction ops as [|o r IH]; intros st Hf H; cbn [run_small run_ok] in *; [exact I|].
  destruct H as (H1 & H2 & H3). split; [exact H1|]. split; [exact H2|]. split; [exact Hf|].
  apply IH; [|exact H3]. pose proof (r_step_fuel_mono st o). lia.
Qed.
