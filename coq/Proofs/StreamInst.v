(* Proofs/StreamInst.v — discharges the two contracts that the stream theorems of C01 / C12 are
   parametric in (reader_contract, writer_contract) with the interface lemmas of the buffered reader
   (C04, Proofs/BufReaderP.v) and writer (C05, Proofs/BufWriterRef.v), and restates the stream theorems
   closed: for every source and every fragmentation script that cannot stall, every writer history. *)
From GV Require Import Lib.Bytes Lib.Res Lib.Heap Gen.Consts Spec.Log Spec.Cursor Spec.Wire
     Model.Binary Model.BufWriter Model.BufReader Model.StreamCodec
     Proofs.BinaryP Proofs.MessageP Proofs.StreamWriterP Proofs.StreamReaderP
     Proofs.BufReaderP Proofs.BufWriterRef.
Open Scope N_scope.

(* ---------- reader ---------- *)
Definition At (S : bytes) (c : N) (st : rstate) : Prop :=
  exists F CH, RInv S F CH c st /\ may_stall CH = false.

Lemma reader_contract_holds : reader_contract At.
Proof.
  unfold reader_contract. repeat split.
  - intros S c st n (F & CH & HI & Hns) Hfit.
    destruct (rinv_next_ok S F CH c st n HI Hns Hfit) as (st' & H1 & _ & HI' & Hl).
    exists st'. unfold seg_at in H1. repeat split; auto. now exists F, CH.
  - intros S c st n (F & CH & HI & Hns) Hs.
    destruct (rinv_next_short S F CH c st n HI Hs) as (st' & e & H1 & _ & HI' & Hl).
    exists st', e. repeat split; auto. now exists F, CH.
  - intros S c st k (F & CH & HI & Hns) Hfit.
    destruct (rinv_readbinary_ok S F CH c st k HI Hns Hfit) as (st' & H1 & _ & HI' & Hl).
    exists st'. unfold seg_at in H1. repeat split; auto. now exists F, CH.
  - intros S c st k (F & CH & HI & Hns) Hs.
    destruct (rinv_readbinary_short S F CH c st k HI Hs) as (st' & m & e & H1 & Hm & _ & _ & _ & HI' & Hl).
    exists st', m, e. unfold seg_at in H1. repeat split; auto. now exists F, CH.
Qed.

(* every io.Reader-backed reader over a source whose script cannot stall, and every bytes-backed reader *)
Lemma at_new_reader s : spos s = 0 -> may_stall (schunks s) = false -> At (sdata s) 0 (new_reader s).
Proof. intros H0 Hns. exists (sfinal s), (schunks s). split; [now apply rinv_new_reader|exact Hns]. Qed.
Lemma at_new_bytes_reader data bcap : len data <= bcap -> At data 0 (new_bytes_reader data bcap).
Proof. intros H. exists e_eof, []. split; [now apply rinv_new_bytes_reader|reflexivity]. Qed.

(* sr_enc, closed: a fresh reader over ANY source (data, final error, data-with-error flag,
   fragmentation script) whose script cannot stall and whose data starts with enc it *)
Theorem sr_enc_closed s it rest :
  spos s = 0 -> may_stall (schunks s) = false -> sdata s = enc it ++ rest -> item_ok it = true ->
  exists st', sr_item (kind_of it) (new_reader s) = (st', Ok it) /\ r_readlen st' = len (enc it).
Proof.
  intros H0 Hns Hd Hok.
  destruct (sr_enc At reader_contract_holds (sdata s) 0 (new_reader s) it rest (at_new_reader s H0 Hns))
    as (st' & Hr & _ & Hl & _); [now rewrite drop_0|exact Hok|].
  exists st'. split; [exact Hr|]. rewrite Hl. reflexivity.
Qed.

Theorem sr_msg_rt_closed s name ty seq rest :
  spos s = 0 -> may_stall (schunks s) = false -> sdata s = enc_msg name ty seq ++ rest ->
  len name < two31 -> in_signed 32 seq ->
  exists st', sr_message_begin (new_reader s) = (st', Ok (name, (ty mod 65536)%Z, seq)) /\
              r_readlen st' = len (enc_msg name ty seq).
Proof.
  intros H0 Hns Hd Hn Hs.
  destruct (sr_msg_rt At reader_contract_holds (sdata s) 0 (new_reader s) name ty seq rest (at_new_reader s H0 Hns))
    as (st' & Hr & _ & Hl & _); [now rewrite drop_0|exact Hn|exact Hs|].
  exists st'. split; [exact Hr|]. rewrite Hl. reflexivity.
Qed.

(* ---------- writer ---------- *)
Lemma writer_contract_holds : writer_contract Sim.
Proof.
  split.
  - intros dirty st s o HS. now apply sim_step.
  - intros st s HS. unfold nregions. rewrite (sim_stale _ _ HS), (sim_win _ _ HS), map_length. reflexivity.
Qed.

(* sw_eq_enc, closed: after ANY history h on a fresh writer (or a bytes-backed one) that left no
   sticky error, writing it and flushing to a sink that accepts the write emits ... ++ enc it *)
Theorem sw_eq_enc_closed dirty w0 l0 h it :
  init_pair w0 l0 ->
  let st := fst (wrun dirty w0 h) in let s := fst (log_run l0 h) in
  lerr s = None -> (lfake s = true \/ lcalls s + 1 <> lfail s) ->
  exists st1, bw_item dirty st it = Ok (st1, E_NONE) /\
              written_len st1 = written_len st + len (enc it) /\
              exists B, matches (lL s) B /\
                        o_sink (snd (wstep dirty st1 OFlush)) = Some (B ++ enc it) /\
                        o_err (snd (wstep dirty st1 OFlush)) = E_NONE.
Proof.
  intros Hi st s He Hk. apply (sw_eq_enc Sim writer_contract_holds dirty it st s); auto.
  unfold st, s. apply (proj1 (sim_run dirty h w0 l0 (sim_init w0 l0 Hi))).
Qed.
