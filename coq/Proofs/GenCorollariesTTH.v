(* Proofs/GenCorollariesTTH.v — the characterisations of the index-based primitives of
   protocol/ttheader/utils.go that the proofs of C06 / C10 rest on (Proofs/TTHeaderLib.v:
   Bytes2Uint8, Bytes2Uint16, ReadString2BLen "by what they see of the suffix drop off buf"),
   and the three predicates IsTTHeader / IsStreaming / checkProtocolID, restated for the
   GENERATED functions of Gen/Funcs.v by rewriting with Proofs/GenEquivTTH.v. *)
From GV Require Import Lib.Bytes Lib.Res Lib.GoSem Gen.Consts Gen.Funcs Model.TTHeader
     Proofs.TTHeaderLib Proofs.GenLib Proofs.GenEquivTTH.
From Coq Require Import ZifyN ZifyNat ZifyBool.
Open Scope N_scope.

Theorem g_b2u8_spec buf off :
  glen_ok buf -> (Z.of_N off < 2 ^ 63)%Z ->
  unerr (g_ttheader_Bytes2Uint8 buf (Z.of_N off)) =
  match drop off buf with [] => Err e_eof | x :: _ => Ok (Z.of_N x) end.
Proof.
  intros Hb Ho. rewrite g_ttheader_Bytes2Uint8_eq by assumption. rewrite b2u8_spec.
  destruct (drop off buf); reflexivity.
Qed.

Theorem g_b2u16_spec buf off :
  glen_ok buf -> (Z.of_N off < 2 ^ 63)%Z ->
  unerr (g_ttheader_Bytes2Uint16 buf (Z.of_N off)) =
  match drop off buf with a :: b :: _ => Ok (Z.of_N (a * 256 + b)) | _ => Err e_eof end.
Proof.
  intros Hb Ho. rewrite g_ttheader_Bytes2Uint16_eq by assumption. rewrite b2u16_spec.
  destruct (drop off buf) as [|a [|b r]]; reflexivity.
Qed.

Theorem g_read_str2_spec buf off :
  wf buf -> glen_ok buf -> (Z.of_N off < 2 ^ 63)%Z ->
  unerr (g_ttheader_ReadString2BLen buf (Z.of_N off)) =
  match drop off buf with
  | a :: b :: r => if a * 256 + b <=? len r then Ok (take (a * 256 + b) r, Z.of_N (a * 256 + b + 2)) else Err e_eof
  | _ => Err e_eof
  end.
Proof.
  intros W Hb Ho. rewrite g_ttheader_ReadString2BLen_eq by assumption. rewrite read_str2_spec.
  destruct (drop off buf) as [|a [|b r]]; try reflexivity.
  destruct (a * 256 + b <=? len r); reflexivity.
Qed.

Lemma unerr_safe {A} (g : res (A * gerror)) : safe (unerr g) -> safe g.
Proof. destruct g as [[a [e|]]| | |]; cbn; auto. Qed.

(* no index or slice panic, whatever the bytes and the (non-negative) offset *)
Theorem g_read_str2_safe buf off :
  wf buf -> glen_ok buf -> (Z.of_N off < 2 ^ 63)%Z -> safe (g_ttheader_ReadString2BLen buf (Z.of_N off)).
Proof.
  intros W Hb Ho. apply unerr_safe. rewrite g_ttheader_ReadString2BLen_eq by assumption.
  pose proof (read_str2_safe buf off) as [H _]. destruct (read_str2 buf off); exact H.
Qed.

(* the generated checkProtocolID accepts exactly the case labels of the Go switch *)
Theorem g_check_protocol_id pid :
  g_ttheader_checkProtocolID (Z.of_N pid) = Ok gnil <->
  In (Z.of_N pid) ttheader_checkProtocolID_cases.
Proof.
  rewrite g_ttheader_checkProtocolID_eq. unfold check_protocol_id.
  destruct (existsb (Z.eqb (Z.of_N pid)) ttheader_checkProtocolID_cases) eqn:E.
  - split; [intros _|reflexivity]. apply existsb_exists in E as [x [Hin Hx]].
    apply Z.eqb_eq in Hx. now subst.
  - split; [discriminate|]. intros Hin. exfalso.
    assert (existsb (Z.eqb (Z.of_N pid)) ttheader_checkProtocolID_cases = true) as T.
    { apply existsb_exists. exists (Z.of_N pid). split; [exact Hin|apply Z.eqb_refl]. }
    congruence.
Qed.

Example g_tth_nonvacuous :
  g_ttheader_ReadString2BLen [9; 0; 2; 104; 105; 7] 1 = Ok ([104; 105], 4%Z, gnil) /\
  g_ttheader_ReadString2BLen [9; 0; 3; 104; 105] 1 = Ok ([], 0%Z, Some e_eof) /\
  g_ttheader_IsTTHeader [0; 0; 0; 0; 16; 0; 0; 0] = Ok true /\
  g_ttheader_IsTTHeader [0; 0; 0; 0; 16; 0] = Panic 3.
Proof. repeat split; reflexivity. Qed.
