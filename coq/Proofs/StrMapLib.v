(* Proofs/StrMapLib.v — list lemmas used by the string-map proofs: [upd]/[nth_error],
   association lists under permutation, lists sorted by a key, 32-bit conversions. *)
From GV Require Import Lib.Bytes Lib.Res Model.StrMap Spec.StrMap.
From Coq Require Import ZifyN ZifyNat ZifyBool Permutation Sorted.
Open Scope N_scope.

(* ---------- 32-bit conversions ---------- *)
Lemma signed32_small n : n < two31 -> to_signed 32 (n mod two32) = Z.of_N n.
Proof.
  intros H. unfold to_signed. rewrite N.mod_small by (unfold two31, two32 in *; lia).
  change (2 ^ (32 - 1)) with 2147483648.
  destruct (N.ltb_spec n 2147483648) as [_|H']; [reflexivity|]. unfold two31 in H. lia.
Qed.

(* ---------- upd ---------- *)
Lemma upd_length {A} (l : list A) i x : length (upd l i x) = length l.
Proof.
  revert i; induction l as [|y l IH]; intros [|i]; cbn [upd length]; try reflexivity.
  now rewrite IH.
Qed.

Lemma nth_error_upd_eq {A} (l : list A) i x :
  (i < length l)%nat -> nth_error (upd l i x) i = Some x.
Proof.
  revert i; induction l as [|y l IH]; intros [|i] H; cbn [upd nth_error length] in *; try lia.
  - reflexivity.
  - apply IH. lia.
Qed.

Lemma nth_error_upd_ne {A} (l : list A) i j x :
  i <> j -> nth_error (upd l i x) j = nth_error l j.
Proof.
  revert i j; induction l as [|y l IH]; intros [|i] [|j] H; cbn [upd nth_error]; try reflexivity.
  - congruence.
  - apply IH. congruence.
Qed.

(* ---------- nrepeat ---------- *)
Lemma nrepeat_repeat {A} (x : A) n : nrepeat x n = repeat x (N.to_nat n).
Proof.
  unfold nrepeat. rewrite N2Nat.inj_iter.
  induction (N.to_nat n) as [|k IH]; cbn [Nat.iter nat_rect repeat]; [reflexivity|].
  f_equal. exact IH.
Qed.

Lemma nrepeat_len {A} (x : A) n : len (nrepeat x n) = n.
Proof. rewrite nrepeat_repeat. unfold len. rewrite repeat_length. lia. Qed.

(* ---------- association lists ---------- *)
Section AssocLemmas.
Variable V : Type.
Implicit Types (l : list (bytes * V)) (s k : bytes).

Lemma assoc_combine kk (vv : list V) s : assoc kk vv s = assoc_pairs (combine kk vv) s.
Proof.
  revert vv; induction kk as [|k kk IH]; intros [|v vv]; cbn [assoc combine assoc_pairs]; try reflexivity.
  destruct (beqb k s); [reflexivity|apply IH].
Qed.

Lemma assoc_pairs_some_in l s v : assoc_pairs l s = Some v -> In (s, v) l.
Proof.
  induction l as [|[k w] l IH]; cbn [assoc_pairs]; [discriminate|].
  destruct (beqb k s) eqn:E.
  - intros H; inversion H; subst. apply beqb_eq in E; subst. now left.
  - intros H. right. auto.
Qed.

Lemma assoc_pairs_none_notin l s : assoc_pairs l s = None -> ~ In s (map fst l).
Proof.
  induction l as [|[k w] l IH]; cbn [assoc_pairs map fst In]; [tauto|].
  destruct (beqb k s) eqn:E; [discriminate|].
  intros H [Hk|Hin]; [|now apply IH].
  subst. assert (beqb s s = true) by now apply beqb_eq. congruence.
Qed.

Lemma assoc_pairs_notin_none l s : ~ In s (map fst l) -> assoc_pairs l s = None.
Proof.
  induction l as [|[k w] l IH]; cbn [assoc_pairs map fst In]; [reflexivity|].
  intros H. destruct (beqb k s) eqn:E.
  - apply beqb_eq in E. tauto.
  - apply IH. tauto.
Qed.

Lemma assoc_pairs_in l s v : NoDup (map fst l) -> In (s, v) l -> assoc_pairs l s = Some v.
Proof.
  induction l as [|[k w] l IH]; cbn [assoc_pairs map fst In]; [tauto|].
  intros Hnd Hin. inversion Hnd as [|? ? Hk Hnd']; subst.
  destruct Hin as [Heq|Hin].
  - inversion Heq; subst. assert (beqb s s = true) as -> by now apply beqb_eq. reflexivity.
  - destruct (beqb k s) eqn:E.
    + apply beqb_eq in E; subst. exfalso. apply Hk. apply in_map_iff. exists (s, v). auto.
    + auto.
Qed.

(* a Go map does not care in which order its pairs were inserted *)
Lemma assoc_pairs_perm l l' s :
  Permutation l l' -> NoDup (map fst l) -> assoc_pairs l s = assoc_pairs l' s.
Proof.
  intros Hp Hnd.
  assert (Hnd' : NoDup (map fst l')) by (eapply Permutation_NoDup; [apply Permutation_map; exact Hp|exact Hnd]).
  destruct (assoc_pairs l s) as [v|] eqn:E.
  - symmetry. apply assoc_pairs_in; [exact Hnd'|].
    eapply Permutation_in; [exact Hp|]. now apply assoc_pairs_some_in.
  - symmetry. apply assoc_pairs_notin_none. intros Hin. apply (assoc_pairs_none_notin _ _ E).
    eapply Permutation_in; [apply Permutation_sym, Permutation_map; exact Hp|exact Hin].
Qed.

Lemma map_fst_combine (kk : list bytes) (vv : list V) :
  length kk = length vv -> map fst (combine kk vv) = kk.
Proof.
  revert vv; induction kk as [|k kk IH]; intros [|v vv] H; cbn [combine map fst length] in *; try lia; try reflexivity.
  f_equal. apply IH. lia.
Qed.

Lemma map_snd_combine (kk : list bytes) (vv : list V) :
  length kk = length vv -> map snd (combine kk vv) = vv.
Proof.
  revert vv; induction kk as [|k kk IH]; intros [|v vv] H; cbn [combine map snd length] in *; try lia; try reflexivity.
  f_equal. apply IH. lia.
Qed.

Lemma combine_map_fst_snd l : combine (map fst l) (map snd l) = l.
Proof. induction l as [|[k v] l IH]; cbn [map combine fst snd]; [reflexivity|now rewrite IH]. Qed.

End AssocLemmas.
Arguments assoc_combine {V}. Arguments assoc_pairs_perm {V}.
Arguments map_fst_combine {V}. Arguments map_snd_combine {V}. Arguments combine_map_fst_snd {V}.

(* ---------- lists sorted by a key ---------- *)
Lemma ssorted_app_inv {A} (R : A -> A -> Prop) (a b : list A) :
  StronglySorted R (a ++ b) ->
  StronglySorted R a /\ StronglySorted R b /\ Forall (fun x => Forall (R x) b) a.
Proof.
  induction a as [|x a IH]; cbn [app]; intros H.
  - repeat split; [constructor|exact H|constructor].
  - inversion H as [|? ? Hs Hf]; subst. destruct (IH Hs) as (Ha & Hb & Hab).
    apply Forall_app in Hf. destruct Hf as [Hfa Hfb].
    repeat split; [constructor; assumption|assumption|constructor; assumption].
Qed.
