(* Proofs/GenEquivTTH2.v — the loop-carrying decoders of protocol/ttheader/decode.go as REGENERATED
   from the Go source (Gen/Funcs.v, tools/gotrans phase 2: for loops as Fixpoints on fuel, the
   index pointer *int and the two Go maps threaded, Decode against an abstract bufiox.Reader)
   are equal to the hand-written models of Model/TTHeader.v that the theorems of C06 / C10 are
   about:

     readStrKVInfo / readIntKVInfo   =  read_section rd_str_entry / rd_int_entry
     readACLToken                    =  read_acl
     readKVInfo                      =  read_kv_info
     Decode over a reader delivering exactly b  =  decode b

   Statement forms.  Offsets are N on the model side (idx : N with Z.of_N idx < 2^63), buffers
   satisfy [wf] (elements are bytes) and [glen_ok] (the length fits in int, true of every Go
   slice).  A Go map is GoSem.gmap; the hand model's association lists (newest first) are the
   same lists, int keys embedded by Z.of_N ([zk]).  A generated function returns a Go error as a
   component of its result; [sim] (GenLib) relates it to the hand model's [Err]: the values
   returned beside an error are existentially quantified (the hand models do not model them).
   FUEL: every lemma is for ALL fuel > length buf — the hand models' own choice S (length buf) is
   one instance; out-of-fuel ([Err gfuel]) is thereby excluded for the generated functions. *)
From GV Require Import Lib.Bytes Lib.Res Lib.GoSem Gen.Consts Gen.Funcs Model.TTHeader Spec.FrameLayout
     Proofs.TTHeaderLib Proofs.TTHeaderSec Proofs.TTHeaderDec Proofs.GenLib Proofs.GenEquivTTH.
From Coq Require Import ZifyN ZifyNat ZifyBool.
Open Scope N_scope.

Lemma ecode_ttheader2_ok :
  ecode "ttheader.readIntKVInfo#fmt.Errorf#1" = e_kv /\ ecode "ttheader.readIntKVInfo#fmt.Errorf#2" = e_kv /\
  ecode "ttheader.readIntKVInfo#fmt.Errorf#3" = e_kv /\
  ecode "ttheader.readStrKVInfo#fmt.Errorf#1" = e_kv /\ ecode "ttheader.readStrKVInfo#fmt.Errorf#2" = e_kv /\
  ecode "ttheader.readStrKVInfo#fmt.Errorf#3" = e_kv /\
  ecode "ttheader.readACLToken#fmt.Errorf" = e_kv /\ ecode "ttheader.readKVInfo#fmt.Errorf" = e_infoid /\
  ecode "ttheader.Decode#errors.New" = e_magic /\ ecode "ttheader.Decode#fmt.Errorf#1" = e_size /\
  ecode "ttheader.Decode#fmt.Errorf#2" = e_trans /\ ecode "ttheader.Decode#fmt.Errorf#3" = e_kv /\
  gfuel = e_fuel.
Proof. repeat split; reflexivity. Qed.

(* ---------- ReadString2BLen, in the form callers need ---------- *)
Lemma g_ttheader_ReadString2BLen_sim buf off :
  wf buf -> glen_ok buf -> (Z.of_N off < 2 ^ 63)%Z ->
  sim sl (g_ttheader_ReadString2BLen buf (Z.of_N off)) (read_str2 buf off).
Proof.
  intros W Hb Ho. unfold g_ttheader_ReadString2BLen, read_str2.
  pose proof (g_ttheader_Bytes2Uint16_sim buf off Hb Ho) as S.
  destruct (bytes2uint16 buf off) as [length|e|w|] eqn:E; cbn [sim] in S;
    [|destruct S as [x S]; rewrite S; cbn [bind sim]; eexists; reflexivity|rewrite S; reflexivity..].
  rewrite S. cbn [bind is_nil gnil negb].
  apply (bytes2uint16_ok buf off length W) in E as [Hle Hlt].
  unfold glen_ok, glen in Hb.
  rewrite (wraps64_small (Z.of_N off + 2)) by lia.
  replace (Z.of_N off + 2)%Z with (Z.of_N (off + 2)) by lia.
  rewrite g_avail by (unfold glen_ok, glen; lia).
  destruct (Z.ltb_spec (avail buf (off + 2)) (Z.of_N length)) as [H|H]; [cbn [sim]; eexists; reflexivity|].
  unfold avail in H.
  rewrite (wraps64_small (Z.of_N (off + 2) + Z.of_N length)) by lia.
  rewrite gslice_range_ok by (unfold glen; lia).
  unfold slice_range.
  destruct (N.leb_spec (off + 2) (off + 2 + length)); [|lia].
  destruct (N.leb_spec (off + 2 + length) (len buf)); [|lia].
  cbn [andb bind sim]. rewrite wraps64_small by lia. unfold sl. cbn [fst snd].
  rewrite N2Z.id. unfold gnil.
  replace (Z.to_N (Z.of_N (off + 2) + Z.of_N length) - (off + 2)) with (off + 2 + length - (off + 2)) by lia.
  replace (Z.of_N length + 2)%Z with (Z.of_N (length + 2)) by lia. reflexivity.
Qed.

(* ---------- fuel of the hand model's counted loop: any amount above the bytes left ---------- *)
Section Irrel.
  Context {K : Type}.
  Variable rd : bytes -> N -> res (K * bytes * N).
  Hypothesis rd_prog : forall buf idx k v n,
      rd buf idx = Ok (k, v, n) -> idx + n <= len buf /\ 1 <= n.

  Lemma read_entries_irrel f1 : forall f2 buf idx cnt m,
      idx <= len buf -> (N.to_nat (len buf - idx) < f1)%nat -> (N.to_nat (len buf - idx) < f2)%nat ->
      read_entries rd f1 buf idx cnt m = read_entries rd f2 buf idx cnt m.
  Proof.
    induction f1 as [|f1 IH]; intros f2 buf idx cnt m Hi H1 H2; [lia|].
    destruct f2 as [|f2]; [lia|]. cbn [read_entries].
    destruct (cnt =? 0); [reflexivity|].
    destruct (rd buf idx) as [[[k v] n]|e|w|] eqn:E; cbn [wrap_kv bind]; try reflexivity.
    destruct (rd_prog _ _ _ _ _ E) as [Hle Hn]. apply IH; lia.
  Qed.
End Irrel.

(* ---------- the counted entry loops ---------- *)
(* int keys: uint16 values as Z *)
Definition zk (m : list (N * bytes)) : list (Z * bytes) := map (fun kv => (Z.of_N (fst kv), snd kv)) m.

(* the outcome of a generated entry loop against the hand model's read_entries (when that does
   not run out of fuel): the loop ends with the final index, the map and i = kvSize, or the
   function returns an error of class e *)
Definition loop_sim {K K'} (f : list (K * bytes) -> list (K' * bytes)) (kv : Z)
           (g : res ((Z * gmap K' bytes * Z) + (Z * gmap K' bytes * bool * gerror)))
           (h : res (N * list (K * bytes))) : Prop :=
  match h with
  | Ok (idx', m') => g = Ok (inl (Z.of_N idx', Some (f m'), kv))
  | Err e => exists x, g = Ok (inr (x, Some e))
  | Panic w => g = Panic w
  | OOB => g = OOB
  end.

Lemma str_loop_sim fuel buf kv :
  wf buf -> glen_ok buf -> kv < 65536 ->
  forall lf idx m i,
    (Z.of_N idx < 2 ^ 63)%Z -> i <= kv ->
    read_entries rd_str_entry lf buf idx (kv - i) m <> Err e_fuel ->
    loop_sim (fun l => l) (Z.of_N kv)
             (g_ttheader_readStrKVInfo_loop1 fuel buf (Z.of_N kv) (S lf) (Z.of_N idx) (Some m) (Z.of_N i))
             (read_entries rd_str_entry lf buf idx (kv - i) m).
Proof.
  intros W Hb Hkv. pose proof Hb as Hb'. unfold glen_ok, glen in Hb'.
  induction lf as [|lf IH]; intros idx m i Ho Hi Hnf.
  - rewrite read_entries_eq in *. cbn [g_ttheader_readStrKVInfo_loop1].
    destruct (N.eqb_spec (kv - i) 0) as [Hz|Hz]; [|exfalso; apply Hnf; reflexivity].
    destruct (Z.ltb_spec (Z.of_N i) (Z.of_N kv)); [lia|]. cbn [loop_sim]. do 4 f_equal. lia.
  - cbn [read_entries] in *. cbn [g_ttheader_readStrKVInfo_loop1].
    destruct (N.eqb_spec (kv - i) 0) as [Hz|Hz].
    { destruct (Z.ltb_spec (Z.of_N i) (Z.of_N kv)); [lia|]. cbn [loop_sim]. do 4 f_equal. lia. }
    destruct (Z.ltb_spec (Z.of_N i) (Z.of_N kv)); [|lia].
    pose proof (g_ttheader_ReadString2BLen_sim buf idx W Hb Ho) as S1.
    destruct (read_str2 buf idx) as [[k n1]|e|w|] eqn:E1; cbn [sim] in S1.
    2:{ assert (Erd : rd_str_entry buf idx = Err e) by (unfold rd_str_entry; rewrite E1; reflexivity).
        rewrite Erd. destruct S1 as [[x1 x2] S1]. rewrite S1.
        cbn [bind wrap_kv loop_sim is_nil negb gerr_deref]. eexists; reflexivity. }
    2:{ assert (Erd : rd_str_entry buf idx = Panic w) by (unfold rd_str_entry; rewrite E1; reflexivity).
        rewrite Erd, S1. reflexivity. }
    2:{ assert (Erd : rd_str_entry buf idx = OOB) by (unfold rd_str_entry; rewrite E1; reflexivity).
        rewrite Erd, S1. reflexivity. }
    rewrite S1. unfold sl. cbn [bind fst snd is_nil gnil negb].
    destruct (read_str2_prog _ _ _ _ E1) as [Hle1 Hn1].
    rewrite (wraps64_small (Z.of_N idx + Z.of_N n1)) by lia.
    replace (Z.of_N idx + Z.of_N n1)%Z with (Z.of_N (idx + n1)) by lia.
    pose proof (g_ttheader_ReadString2BLen_sim buf (idx + n1) W Hb ltac:(lia)) as S2.
    destruct (read_str2 buf (idx + n1)) as [[v n2]|e|w|] eqn:E2; cbn [sim] in S2.
    2:{ assert (Erd : rd_str_entry buf idx = Err e) by (unfold rd_str_entry; rewrite E1; cbn [bind]; rewrite E2; reflexivity).
        rewrite Erd. destruct S2 as [[x1 x2] S2]. rewrite S2.
        cbn [bind wrap_kv loop_sim is_nil negb gerr_deref]. eexists; reflexivity. }
    2:{ assert (Erd : rd_str_entry buf idx = Panic w) by (unfold rd_str_entry; rewrite E1; cbn [bind]; rewrite E2; reflexivity).
        rewrite Erd, S2. reflexivity. }
    2:{ assert (Erd : rd_str_entry buf idx = OOB) by (unfold rd_str_entry; rewrite E1; cbn [bind]; rewrite E2; reflexivity).
        rewrite Erd, S2. reflexivity. }
    assert (Erd : rd_str_entry buf idx = Ok (k, v, n1 + n2)) by (unfold rd_str_entry; rewrite E1; cbn [bind]; rewrite E2; reflexivity).
    rewrite Erd in *. cbn [wrap_kv bind] in *.
    rewrite S2. unfold sl. cbn [bind fst snd is_nil gnil negb gmap_set].
    destruct (read_str2_prog _ _ _ _ E2) as [Hle2 Hn2].
    rewrite (wraps64_small (Z.of_N (idx + n1) + Z.of_N n2)) by lia.
    replace (Z.of_N (idx + n1) + Z.of_N n2)%Z with (Z.of_N (idx + (n1 + n2))) by lia.
    rewrite (wrapu_id 16 (Z.of_N i + 1)) by (unfold in_u; lia).
    replace (Z.of_N i + 1)%Z with (Z.of_N (i + 1)) by lia.
    replace (kv - i - 1) with (kv - (i + 1)) in * by lia.
    apply IH; [lia|lia|exact Hnf].
Qed.

Lemma int_loop_sim fuel buf kv :
  wf buf -> glen_ok buf -> kv < 65536 ->
  forall lf idx m i,
    (Z.of_N idx < 2 ^ 63)%Z -> i <= kv ->
    read_entries rd_int_entry lf buf idx (kv - i) m <> Err e_fuel ->
    loop_sim zk (Z.of_N kv)
             (g_ttheader_readIntKVInfo_loop1 fuel buf (Z.of_N kv) (S lf) (Z.of_N idx) (Some (zk m)) (Z.of_N i))
             (read_entries rd_int_entry lf buf idx (kv - i) m).
Proof.
  intros W Hb Hkv. pose proof Hb as Hb'. unfold glen_ok, glen in Hb'.
  induction lf as [|lf IH]; intros idx m i Ho Hi Hnf.
  - rewrite read_entries_eq in *. cbn [g_ttheader_readIntKVInfo_loop1].
    destruct (N.eqb_spec (kv - i) 0) as [Hz|Hz]; [|exfalso; apply Hnf; reflexivity].
    destruct (Z.ltb_spec (Z.of_N i) (Z.of_N kv)); [lia|]. cbn [loop_sim]. do 4 f_equal. lia.
  - cbn [read_entries] in *. cbn [g_ttheader_readIntKVInfo_loop1].
    destruct (N.eqb_spec (kv - i) 0) as [Hz|Hz].
    { destruct (Z.ltb_spec (Z.of_N i) (Z.of_N kv)); [lia|]. cbn [loop_sim]. do 4 f_equal. lia. }
    destruct (Z.ltb_spec (Z.of_N i) (Z.of_N kv)); [|lia].
    pose proof (g_ttheader_Bytes2Uint16_sim buf idx Hb Ho) as S1.
    destruct (bytes2uint16 buf idx) as [key|e|w|] eqn:E1; cbn [sim] in S1.
    2:{ assert (Erd : rd_int_entry buf idx = Err e) by (unfold rd_int_entry; rewrite E1; reflexivity).
        rewrite Erd. destruct S1 as [x1 S1]. rewrite S1.
        cbn [bind wrap_kv loop_sim is_nil negb gerr_deref]. eexists; reflexivity. }
    2:{ assert (Erd : rd_int_entry buf idx = Panic w) by (unfold rd_int_entry; rewrite E1; reflexivity).
        rewrite Erd, S1. reflexivity. }
    2:{ assert (Erd : rd_int_entry buf idx = OOB) by (unfold rd_int_entry; rewrite E1; reflexivity).
        rewrite Erd, S1. reflexivity. }
    rewrite S1. cbn [bind fst snd is_nil gnil negb].
    destruct (bytes2uint16_ok buf idx key W E1) as [Hle1 Hk].
    rewrite (wraps64_small (Z.of_N idx + 2)) by lia.
    replace (Z.of_N idx + 2)%Z with (Z.of_N (idx + 2)) by lia.
    pose proof (g_ttheader_ReadString2BLen_sim buf (idx + 2) W Hb ltac:(lia)) as S2.
    destruct (read_str2 buf (idx + 2)) as [[v n2]|e|w|] eqn:E2; cbn [sim] in S2.
    2:{ assert (Erd : rd_int_entry buf idx = Err e) by (unfold rd_int_entry; rewrite E1; cbn [bind]; rewrite E2; reflexivity).
        rewrite Erd. destruct S2 as [[x1 x2] S2]. rewrite S2.
        cbn [bind wrap_kv loop_sim is_nil negb gerr_deref]. eexists; reflexivity. }
    2:{ assert (Erd : rd_int_entry buf idx = Panic w) by (unfold rd_int_entry; rewrite E1; cbn [bind]; rewrite E2; reflexivity).
        rewrite Erd, S2. reflexivity. }
    2:{ assert (Erd : rd_int_entry buf idx = OOB) by (unfold rd_int_entry; rewrite E1; cbn [bind]; rewrite E2; reflexivity).
        rewrite Erd, S2. reflexivity. }
    assert (Erd : rd_int_entry buf idx = Ok (key, v, 2 + n2)) by (unfold rd_int_entry; rewrite E1; cbn [bind]; rewrite E2; reflexivity).
    rewrite Erd in *. cbn [wrap_kv bind] in *.
    rewrite S2. unfold sl. cbn [bind fst snd is_nil gnil negb gmap_set].
    destruct (read_str2_prog _ _ _ _ E2) as [Hle2 Hn2].
    rewrite (wraps64_small (Z.of_N (idx + 2) + Z.of_N n2)) by lia.
    replace (Z.of_N (idx + 2) + Z.of_N n2)%Z with (Z.of_N (idx + (2 + n2))) by lia.
    rewrite (wrapu_id 16 (Z.of_N i + 1)) by (unfold in_u; lia).
    replace (Z.of_N i + 1)%Z with (Z.of_N (i + 1)) by lia.
    replace (kv - i - 1) with (kv - (i + 1)) in * by lia.
    change ((Z.of_N key, v) :: zk m) with (zk ((key, v) :: m)).
    apply IH; [lia|lia|exact Hnf].
Qed.

(* ---------- readStrKVInfo / readIntKVInfo = read_section ---------- *)
(* (final *idx, final map, has, err) against (final index, final list): `has` is not modelled *)
Definition sec_sim {K K'} (f : list (K * bytes) -> list (K' * bytes))
           (g : res (Z * gmap K' bytes * bool * gerror)) (h : res (N * list (K * bytes))) : Prop :=
  match h with
  | Ok (idx', m') => exists has, g = Ok (Z.of_N idx', Some (f m'), has, gnil)
  | Err e => exists x, g = Ok (x, Some e)
  | Panic w => g = Panic w
  | OOB => g = OOB
  end.

Lemma loop_fuel_enough (buf : bytes) idx fuel :
  idx + 2 <= len buf -> (length buf < fuel)%nat ->
  exists lf, fuel = S lf /\ (N.to_nat (len buf - (idx + 2)) < lf)%nat /\
             (N.to_nat (len buf - (idx + 2)) < S (length buf))%nat.
Proof.
  intros Hi Hf. destruct fuel as [|lf]; [lia|]. exists lf. unfold len in *. repeat split; lia.
Qed.

Theorem g_ttheader_readStrKVInfo_sim fuel buf idx m :
  wf buf -> glen_ok buf -> (Z.of_N idx < 2 ^ 63)%Z -> (length buf < fuel)%nat ->
  sec_sim (fun l => l) (g_ttheader_readStrKVInfo fuel (Z.of_N idx) buf (Some m))
          (read_section rd_str_entry buf idx m).
Proof.
  intros W Hb Ho Hf. pose proof Hb as Hb'. unfold glen_ok, glen in Hb'.
  unfold g_ttheader_readStrKVInfo, read_section.
  pose proof (g_ttheader_Bytes2Uint16_sim buf idx Hb Ho) as S1.
  destruct (bytes2uint16 buf idx) as [kv|e|w|] eqn:E1; cbn [sim] in S1;
    [|destruct S1 as [x1 S1]; rewrite S1; cbn [bind wrap_kv sec_sim is_nil negb gerr_deref]; eexists; reflexivity
     |rewrite S1; reflexivity..].
  rewrite S1. cbn [bind wrap_kv is_nil gnil negb].
  destruct (bytes2uint16_ok buf idx kv W E1) as [Hle Hkv].
  rewrite (wraps64_small (Z.of_N idx + 2)) by lia.
  replace (Z.of_N idx + 2)%Z with (Z.of_N (idx + 2)) by lia.
  destruct (Z.leb_spec (Z.of_N kv) 0) as [Hz|Hz].
  { assert (kv = 0) by lia. subst kv. rewrite read_entries_eq. cbn [N.eqb sec_sim]. eexists; reflexivity. }
  destruct (loop_fuel_enough buf idx fuel Hle Hf) as (lf & -> & Hlf & Hlb).
  rewrite <- (read_entries_irrel rd_str_entry str_prog lf (S (length buf)) buf (idx + 2) kv m Hle Hlf Hlb).
  destruct (entries_total rd_str_entry enc_kv skv_ok str_fwd str_bwd str_prog str_safe lf buf (idx + 2) kv m Hle Hlf)
    as [[_ Hnf] _].
  pose proof (str_loop_sim (S lf) buf kv W Hb Hkv lf (idx + 2) m 0 ltac:(lia) ltac:(lia)) as L.
  rewrite N.sub_0_r in L. specialize (L Hnf). change (Z.of_N 0) with 0%Z in L.
  destruct (read_entries rd_str_entry lf buf (idx + 2) kv m) as [[idx' m']|e|w|]; cbn [loop_sim sec_sim] in *.
  - rewrite L. cbn [bind]. eexists; reflexivity.
  - destruct L as [[[x1 x2] x3] L]. rewrite L. cbn [bind]. eexists; reflexivity.
  - rewrite L. reflexivity.
  - rewrite L. reflexivity.
Qed.

Theorem g_ttheader_readIntKVInfo_sim fuel buf idx m :
  wf buf -> glen_ok buf -> (Z.of_N idx < 2 ^ 63)%Z -> (length buf < fuel)%nat ->
  sec_sim zk (g_ttheader_readIntKVInfo fuel (Z.of_N idx) buf (Some (zk m)))
          (read_section rd_int_entry buf idx m).
Proof.
  intros W Hb Ho Hf. pose proof Hb as Hb'. unfold glen_ok, glen in Hb'.
  unfold g_ttheader_readIntKVInfo, read_section.
  pose proof (g_ttheader_Bytes2Uint16_sim buf idx Hb Ho) as S1.
  destruct (bytes2uint16 buf idx) as [kv|e|w|] eqn:E1; cbn [sim] in S1;
    [|destruct S1 as [x1 S1]; rewrite S1; cbn [bind wrap_kv sec_sim is_nil negb gerr_deref]; eexists; reflexivity
     |rewrite S1; reflexivity..].
  rewrite S1. cbn [bind wrap_kv is_nil gnil negb].
  destruct (bytes2uint16_ok buf idx kv W E1) as [Hle Hkv].
  rewrite (wraps64_small (Z.of_N idx + 2)) by lia.
  replace (Z.of_N idx + 2)%Z with (Z.of_N (idx + 2)) by lia.
  destruct (Z.leb_spec (Z.of_N kv) 0) as [Hz|Hz].
  { assert (kv = 0) by lia. subst kv. rewrite read_entries_eq. cbn [N.eqb sec_sim]. eexists; reflexivity. }
  destruct (loop_fuel_enough buf idx fuel Hle Hf) as (lf & -> & Hlf & Hlb).
  rewrite <- (read_entries_irrel rd_int_entry int_prog lf (S (length buf)) buf (idx + 2) kv m Hle Hlf Hlb).
  destruct (entries_total rd_int_entry enc_ikv ikv_ok int_fwd int_bwd int_prog int_safe lf buf (idx + 2) kv m Hle Hlf)
    as [[_ Hnf] _].
  pose proof (int_loop_sim (S lf) buf kv W Hb Hkv lf (idx + 2) m 0 ltac:(lia) ltac:(lia)) as L.
  rewrite N.sub_0_r in L. specialize (L Hnf). change (Z.of_N 0) with 0%Z in L.
  destruct (read_entries rd_int_entry lf buf (idx + 2) kv m) as [[idx' m']|e|w|]; cbn [loop_sim sec_sim] in *.
  - rewrite L. cbn [bind]. eexists; reflexivity.
  - destruct L as [[[x1 x2] x3] L]. rewrite L. cbn [bind]. eexists; reflexivity.
  - rewrite L. reflexivity.
  - rewrite L. reflexivity.
Qed.

(* ---------- readACLToken = read_acl ---------- *)
Lemma gdpr_key_eq :
  ([82; 80; 67; 95; 84; 82; 65; 78; 83; 73; 84; 95; 103; 100; 112; 114; 45; 116; 111; 107; 101; 110] : bytes) = gdpr_key.
Proof. reflexivity. Qed.

Definition acl_sim (g : res (Z * gmap bytes bytes * gerror)) (h : res (N * list (bytes * bytes))) : Prop :=
  match h with
  | Ok (idx', m') => g = Ok (Z.of_N idx', Some m', gnil)
  | Err e => exists x, g = Ok (x, Some e)
  | Panic w => g = Panic w
  | OOB => g = OOB
  end.

Theorem g_ttheader_readACLToken_sim buf idx m :
  wf buf -> glen_ok buf -> (Z.of_N idx < 2 ^ 63)%Z ->
  acl_sim (g_ttheader_readACLToken (Z.of_N idx) buf (Some m)) (read_acl buf idx m).
Proof.
  intros W Hb Ho. pose proof Hb as Hb'. unfold glen_ok, glen in Hb'.
  unfold g_ttheader_readACLToken, read_acl.
  pose proof (g_ttheader_ReadString2BLen_sim buf idx W Hb Ho) as S1.
  destruct (read_str2 buf idx) as [[v n]|e|w|] eqn:E1; cbn [sim] in S1;
    [|destruct S1 as [[x1 x2] S1]; rewrite S1; cbn [bind wrap_kv acl_sim is_nil negb gerr_deref]; eexists; reflexivity
     |rewrite S1; reflexivity..].
  rewrite S1. unfold sl. cbn [bind wrap_kv fst snd is_nil gnil negb gmap_set acl_sim].
  destruct (read_str2_prog _ _ _ _ E1) as [Hle Hn].
  rewrite (wraps64_small (Z.of_N idx + Z.of_N n)) by lia.
  replace (Z.of_N idx + Z.of_N n)%Z with (Z.of_N (idx + n)) by lia.
  rewrite gdpr_key_eq. reflexivity.
Qed.

(* ---------- readKVInfo = read_kv_info ---------- *)
Lemma g_ttheader_Bytes2Uint8_sim buf off :
  glen_ok buf -> (Z.of_N off < 2 ^ 63)%Z ->
  sim Z.of_N (g_ttheader_Bytes2Uint8 buf (Z.of_N off)) (bytes2uint8 buf off).
Proof.
  intros Hb Ho. unfold g_ttheader_Bytes2Uint8, bytes2uint8. rewrite g_avail by assumption.
  destruct (Z.ltb_spec (avail buf off) 1) as [H|H]; [cbn [sim]; eexists; reflexivity|]. unfold avail in H.
  rewrite gindex_ok by (unfold glen; lia). rewrite index_ok by lia. cbn [bind sim].
  replace (Z.to_nat (Z.of_N off)) with (N.to_nat off) by lia. reflexivity.
Qed.

Definition kvemb (r : option (list (N * bytes)) * option (list (bytes * bytes)))
  : gmap Z bytes * gmap bytes bytes := (option_map zk (fst r), snd r).

Lemma kv_loop_sim fuel buf :
  wf buf -> glen_ok buf -> (length buf < fuel)%nat ->
  forall lf idx im sm err,
    idx <= len buf ->
    read_kv_info lf buf idx im sm <> Err e_fuel ->
    sim kvemb (g_ttheader_readKVInfo_loop1 fuel buf lf (Z.of_N idx) (option_map zk im) sm err)
        (read_kv_info lf buf idx im sm).
Proof.
  intros W Hb Hf. pose proof Hb as Hb'. unfold glen_ok, glen in Hb'.
  induction lf as [|lf IH]; intros idx im sm err Hi Hnf; [exfalso; apply Hnf; reflexivity|].
  cbn [read_kv_info g_ttheader_readKVInfo_loop1] in *.
  pose proof (g_ttheader_Bytes2Uint8_sim buf idx Hb ltac:(lia)) as S1.
  destruct (bytes2uint8 buf idx) as [id|e|w|] eqn:E1; cbn [sim] in S1;
    [| |rewrite S1; reflexivity..].
  2:{ destruct S1 as [x S1]. rewrite S1. cbn [bind is_nil negb gerr_is].
      change (ecode "io.EOF") with e_eof.
      destruct (Z.eqb_spec e e_eof); cbn [sim]; [reflexivity|eexists; reflexivity]. }
  rewrite S1. cbn [bind is_nil gnil negb].
  assert (Hlt : idx < len buf).
  { rewrite b2u8_spec in E1. destruct (drop idx buf) eqn:Ed; [discriminate|]. eapply drop_lt_len; eassumption. }
  rewrite (wraps64_small (Z.of_N idx + 1)) by lia.
  replace (Z.of_N idx + 1)%Z with (Z.of_N (idx + 1)) by lia.
  change id_pad with 0 in *. change id_kv with 1 in *. change id_intkv with 16 in *. change id_acl with 17 in *.
  destruct (N.eqb_spec id 0) as [H0|H0]; destruct (Z.eqb_spec (Z.of_N id) 0) as [Z0|Z0]; try lia.
  { apply IH; [lia|exact Hnf]. }
  destruct (N.eqb_spec id 1) as [H1|H1]; destruct (Z.eqb_spec (Z.of_N id) 1) as [Z1|Z1]; try lia.
  { assert (T : forall m, made sm = m ->
       sim kvemb
         (do (v_idx, v_strKVMap, _, t5) <- g_ttheader_readStrKVInfo fuel (Z.of_N (idx + 1)) buf (Some m);
          let v_err := t5 in
          if negb (is_nil v_err) then Ok (option_map zk im, v_strKVMap, v_err)
          else g_ttheader_readKVInfo_loop1 fuel buf lf v_idx (option_map zk im) v_strKVMap v_err)
         (do (idx2, sm') <- read_section rd_str_entry buf (idx + 1) (made sm); read_kv_info lf buf idx2 im (Some sm'))).
    { intros m Em. rewrite Em in *.
      pose proof (g_ttheader_readStrKVInfo_sim fuel buf (idx + 1) m W Hb ltac:(lia) Hf) as S2.
      destruct (str_section_total buf (idx + 1) m ltac:(lia)) as [_ Hbnd].
      destruct (read_section rd_str_entry buf (idx + 1) m) as [[idx2 sm']|e|w|]; cbn [sec_sim] in S2.
      - destruct S2 as [has S2]. rewrite S2. cbn [bind is_nil gnil negb] in *.
        specialize (Hbnd _ _ eq_refl). apply (IH idx2 im (Some sm') None); [lia|exact Hnf].
      - destruct S2 as [[[x1 x2] x3] S2]. rewrite S2. cbn [bind is_nil negb sim]. eexists; reflexivity.
      - rewrite S2. reflexivity.
      - rewrite S2. reflexivity. }
    destruct sm as [m|]; cbn [gmap_is_nil]; [apply (T m)|apply (T [])]; reflexivity. }
  destruct (N.eqb_spec id 16) as [H16|H16]; destruct (Z.eqb_spec (Z.of_N id) 16) as [Z16|Z16]; try lia.
  { assert (T : forall m, made im = m ->
       sim kvemb
         (do (v_idx, v_intKVMap, _, t9) <- g_ttheader_readIntKVInfo fuel (Z.of_N (idx + 1)) buf (Some (zk m));
          let v_err := t9 in
          if negb (is_nil v_err) then Ok (v_intKVMap, sm, v_err)
          else g_ttheader_readKVInfo_loop1 fuel buf lf v_idx v_intKVMap sm v_err)
         (do (idx2, im') <- read_section rd_int_entry buf (idx + 1) (made im); read_kv_info lf buf idx2 (Some im') sm)).
    { intros m Em. rewrite Em in *.
      pose proof (g_ttheader_readIntKVInfo_sim fuel buf (idx + 1) m W Hb ltac:(lia) Hf) as S2.
      destruct (int_section_total buf (idx + 1) m ltac:(lia)) as [_ Hbnd].
      destruct (read_section rd_int_entry buf (idx + 1) m) as [[idx2 im']|e|w|]; cbn [sec_sim] in S2.
      - destruct S2 as [has S2]. rewrite S2. cbn [bind is_nil gnil negb] in *.
        specialize (Hbnd _ _ eq_refl). apply (IH idx2 (Some im') sm None); [lia|exact Hnf].
      - destruct S2 as [[[x1 x2] x3] S2]. rewrite S2. cbn [bind is_nil negb sim]. eexists; reflexivity.
      - rewrite S2. reflexivity.
      - rewrite S2. reflexivity. }
    destruct im as [m|]; cbn [gmap_is_nil option_map]; [apply (T m)|apply (T [])]; reflexivity. }
  destruct (N.eqb_spec id 17) as [H17|H17]; destruct (Z.eqb_spec (Z.of_N id) 17) as [Z17|Z17]; try lia.
  { assert (T : forall m, made sm = m ->
       sim kvemb
         (do (v_idx, v_strKVMap, t12) <- g_ttheader_readACLToken (Z.of_N (idx + 1)) buf (Some m);
          let v_err := t12 in
          if negb (is_nil v_err) then Ok (option_map zk im, v_strKVMap, v_err)
          else g_ttheader_readKVInfo_loop1 fuel buf lf v_idx (option_map zk im) v_strKVMap v_err)
         (do (idx2, sm') <- read_acl buf (idx + 1) (made sm); read_kv_info lf buf idx2 im (Some sm'))).
    { intros m Em. rewrite Em in *.
      pose proof (g_ttheader_readACLToken_sim buf (idx + 1) m W Hb ltac:(lia)) as S2.
      assert (Hbnd : forall idx2 sm', read_acl buf (idx + 1) m = Ok (idx2, sm') -> idx2 <= len buf).
      { unfold read_acl. intros idx2 sm'. destruct (read_str2 buf (idx + 1)) as [[v n]| | |] eqn:E2; cbn [wrap_kv bind]; try discriminate.
        intros H. inversion H; subst. apply read_str2_prog in E2. lia. }
      destruct (read_acl buf (idx + 1) m) as [[idx2 sm']|e|w|]; cbn [acl_sim] in S2.
      - rewrite S2. cbn [bind is_nil gnil negb] in *.
        specialize (Hbnd _ _ eq_refl). apply (IH idx2 im (Some sm') None); [lia|exact Hnf].
      - destruct S2 as [[x1 x2] S2]. rewrite S2. cbn [bind is_nil negb sim]. eexists; reflexivity.
      - rewrite S2. reflexivity.
      - rewrite S2. reflexivity. }
    destruct sm as [m|]; cbn [gmap_is_nil]; [apply (T m)|apply (T [])]; reflexivity. }
  cbn [sim]. eexists; reflexivity.
Qed.

(* any fuel above the bytes left is as good as any other for the hand model *)
Lemma read_acl_bound buf idx m idx2 sm' : read_acl buf idx m = Ok (idx2, sm') -> idx + 2 <= idx2 <= len buf.
Proof.
  unfold read_acl. destruct (read_str2 buf idx) as [[v n]| | |] eqn:E2; cbn [wrap_kv bind]; try discriminate.
  intros H. inversion H; subst. apply read_str2_prog in E2. lia.
Qed.

Lemma read_kv_info_irrel f1 : forall f2 buf idx im sm,
    idx <= len buf -> (N.to_nat (len buf - idx) < f1)%nat -> (N.to_nat (len buf - idx) < f2)%nat ->
    read_kv_info f1 buf idx im sm = read_kv_info f2 buf idx im sm.
Proof.
  induction f1 as [|f1 IH]; intros f2 buf idx im sm Hi H1 H2; [lia|].
  destruct f2 as [|f2]; [lia|]. rewrite !read_kv_info_eq.
  destruct (drop idx buf) as [|id rest] eqn:E; [reflexivity|].
  pose proof (drop_lt_len _ _ _ _ E) as Hlt.
  destruct (id =? 0); [apply IH; lia|].
  destruct (id =? 1).
  { destruct (str_section_total buf (idx + 1) (made sm) ltac:(lia)) as [_ Hb].
    destruct (read_section rd_str_entry buf (idx + 1) (made sm)) as [[idx2 sm']| | |]; cbn [bind]; try reflexivity.
    specialize (Hb _ _ eq_refl). apply IH; lia. }
  destruct (id =? 16).
  { destruct (int_section_total buf (idx + 1) (made im) ltac:(lia)) as [_ Hb].
    destruct (read_section rd_int_entry buf (idx + 1) (made im)) as [[idx2 im']| | |]; cbn [bind]; try reflexivity.
    specialize (Hb _ _ eq_refl). apply IH; lia. }
  destruct (id =? 17); [|reflexivity].
  pose proof (read_acl_bound buf (idx + 1) (made sm)) as Hb.
  destruct (read_acl buf (idx + 1) (made sm)) as [[idx2 sm']| | |]; cbn [bind]; try reflexivity.
  specialize (Hb _ _ eq_refl). apply IH; lia.
Qed.

Theorem g_ttheader_readKVInfo_sim fuel buf idx :
  wf buf -> glen_ok buf -> idx <= len buf -> (length buf < fuel)%nat ->
  sim kvemb (g_ttheader_readKVInfo fuel (Z.of_N idx) buf) (read_kv_info (S (length buf)) buf idx None None).
Proof.
  intros W Hb Hi Hf. unfold g_ttheader_readKVInfo.
  assert (H1 : (N.to_nat (len buf - idx) < fuel)%nat) by (unfold len in *; lia).
  assert (H2 : (N.to_nat (len buf - idx) < S (length buf))%nat) by (unfold len in *; lia).
  rewrite <- (read_kv_info_irrel fuel (S (length buf)) buf idx None None Hi H1 H2).
  apply (kv_loop_sim fuel buf W Hb Hf fuel idx None None gnil Hi).
  apply (kv_total fuel buf idx None None Hi H1).
Qed.

(* the equation form: a Go error is an [Err]; the values beside it are dropped *)
Theorem g_ttheader_readKVInfo_eq fuel buf idx :
  wf buf -> glen_ok buf -> idx <= len buf -> (length buf < fuel)%nat ->
  unerr (g_ttheader_readKVInfo fuel (Z.of_N idx) buf) =
  rmap kvemb (read_kv_info (S (length buf)) buf idx None None).
Proof. intros W Hb Hi Hf. apply sim_unerr, g_ttheader_readKVInfo_sim; assumption. Qed.

(* =====================================================================================
   Decode
   ===================================================================================== *)
(* ---------- the transform-id loop: make([]uint8, n); for i < n { ids[i] = info[hdIdx]; hdIdx++ } ---------- *)

Lemma gstore_ok buf i x : i < len buf -> exists buf', gstore buf (Z.of_N i) x = Ok buf' /\ len buf' = len buf.
Proof.
  intros H. unfold gstore, gput. destruct (Z.ltb_spec (Z.of_N i) 0); [lia|]. rewrite N2Z.id.
  change (len [gbyte x]) with 1. destruct (N.leb_spec (i + 1) (len buf)); [|lia].
  eexists. split; [reflexivity|]. cbv zeta. rewrite !len_app. rewrite take_len by lia. rewrite drop_len by lia.
  change (len [gbyte x]) with 1. lia.
Qed.


Lemma tr_loop_sim (St : Type) (mN : St -> Z -> res (St * bytes * gerror)) fuel info nt :
  glen_ok info -> nt < 256 ->
  forall lf idx trs i,
    i <= nt -> len trs = nt -> (N.to_nat (nt - i) < lf)%nat ->
    match read_transforms info idx (N.to_nat (nt - i)) with
    | Ok idx' => exists trs', g_ttheader_Decode_loop1 St mN fuel info (Z.of_N nt) lf (Z.of_N idx) trs (Z.of_N i)
                              = Ok (inl (Z.of_N idx', trs', Z.of_N nt))
    | Err _ => False
    | Panic w => g_ttheader_Decode_loop1 St mN fuel info (Z.of_N nt) lf (Z.of_N idx) trs (Z.of_N i) = Panic w
    | OOB => g_ttheader_Decode_loop1 St mN fuel info (Z.of_N nt) lf (Z.of_N idx) trs (Z.of_N i) = OOB
    end.
Proof.
  intros Hb Hnt. unfold glen_ok, glen in Hb.
  induction lf as [|lf IH]; intros idx trs i Hi Ht Hlf; [lia|].
  cbn [g_ttheader_Decode_loop1].
  destruct (Z.ltb_spec (Z.of_N i) (Z.of_N nt)) as [Hlt|Hge].
  - replace (N.to_nat (nt - i)) with (S (N.to_nat (nt - (i + 1)))) by lia. cbn [read_transforms].
    rewrite gindex_index. destruct (index info idx) as [x|e|w|] eqn:E; cbn [bind]; try reflexivity.
    + apply index_lt in E.
      destruct (gstore_ok trs i (Z.of_N x) ltac:(lia)) as (trs' & -> & Hl'). cbn [bind].
      rewrite (wraps64_small (Z.of_N idx + 1)) by lia. rewrite (wraps64_small (Z.of_N i + 1)) by lia.
      replace (Z.of_N idx + 1)%Z with (Z.of_N (idx + 1)) by lia.
      replace (Z.of_N i + 1)%Z with (Z.of_N (i + 1)) by lia.
      apply IH; lia.
    + unfold index in E. destruct (nth_error info (N.to_nat idx)); discriminate.
  - replace (N.to_nat (nt - i)) with 0%nat by lia. cbn [read_transforms]. assert (i = nt) by lia. subst i.
    eexists. reflexivity.
Qed.

Lemma read_transforms_val n : forall info idx idx', read_transforms info idx n = Ok idx' -> idx' = idx + N.of_nat n.
Proof.
  induction n as [|n IH]; intros info idx idx'; cbn [read_transforms].
  - intros H. inversion H. lia.
  - destruct (index info idx); cbn [bind]; try discriminate. intros H. apply IH in H. lia.
Qed.

(* ---------- errors of the section reader: only the two kv classes (and the fuel artefact) ---------- *)
Lemma read_entries_errs {K} (rd : bytes -> N -> res (K * bytes * N)) fuel : forall buf idx cnt m e,
    read_entries rd fuel buf idx cnt m = Err e -> e = e_kv \/ e = e_fuel.
Proof.
  induction fuel as [|f IH]; intros buf idx cnt m e; rewrite read_entries_eq.
  - destruct (cnt =? 0); [discriminate|]. intros H. inversion H. now right.
  - destruct (cnt =? 0); [discriminate|].
    destruct (rd buf idx) as [[[k v] n]|e'|w|]; cbn [wrap_kv bind]; try discriminate.
    + apply IH.
    + intros H. inversion H. now left.
Qed.

Lemma read_section_errs {K} (rd : bytes -> N -> res (K * bytes * N)) buf idx m e :
  read_section rd buf idx m = Err e -> e = e_kv \/ e = e_fuel.
Proof.
  unfold read_section. destruct (bytes2uint16 buf idx) as [c|e'|w|]; cbn [wrap_kv bind]; try discriminate.
  - apply read_entries_errs.
  - intros H. inversion H. now left.
Qed.

Lemma read_kv_info_errs f : forall buf idx im sm e,
    read_kv_info f buf idx im sm = Err e -> e = e_kv \/ e = e_infoid \/ e = e_fuel.
Proof.
  induction f as [|f IH]; intros buf idx im sm e.
  - cbn [read_kv_info]. intros H. inversion H. tauto.
  - rewrite read_kv_info_eq. destruct (drop idx buf) as [|id rest]; [discriminate|].
    destruct (id =? 0); [apply IH|].
    destruct (id =? 1).
    { destruct (read_section rd_str_entry buf (idx + 1) (made sm)) as [[idx2 sm']|e'|w|] eqn:Es; cbn [bind]; try discriminate.
      - apply IH.
      - intros H. inversion H; subst. apply read_section_errs in Es. tauto. }
    destruct (id =? 16).
    { destruct (read_section rd_int_entry buf (idx + 1) (made im)) as [[idx2 im']|e'|w|] eqn:Es; cbn [bind]; try discriminate.
      - apply IH.
      - intros H. inversion H; subst. apply read_section_errs in Es. tauto. }
    destruct (id =? 17).
    { unfold read_acl. destruct (read_str2 buf (idx + 1)) as [[v n]|e'|w|]; cbn [wrap_kv bind]; try discriminate.
      - apply IH.
      - intros H. inversion H. tauto. }
    intros H. inversion H. tauto.
Qed.

(* ---------- the reader ---------- *)
(* a bufiox.Reader that can deliver exactly the bytes it was created over: the state is (bytes
   left, bytes consumed = ReadLen); Next(n) fails with the error [er], consuming nothing, when
   fewer than n bytes are left (C04 covers the reader itself) *)
Definition rd_next (er : Z) (s : bytes * N) (n : Z) : res ((bytes * N) * bytes * gerror) :=
  if (n <? 0)%Z then Ok (s, (nil : bytes), Some er)
  else if len (fst s) <? Z.to_N n then Ok (s, (nil : bytes), Some er)
  else Ok ((drop (Z.to_N n) (fst s), snd s + Z.to_N n), take (Z.to_N n) (fst s), gnil).

(* the hand model tells apart which Next failed (by the bytes consumed: 0 / 14) and which part of
   readKVInfo failed; Decode itself reports the reader's error, resp. ONE wrapped error *)
Definition dcls (er e : Z) : Z :=
  if ((e =? e_short) || (e =? e_short2))%Z then er else if (e =? e_infoid)%Z then e_kv else e.

Definition dres : Type :=
  ((bytes * N) * Z * Z * Z * gmap Z bytes * gmap bytes bytes * Z * Z * gerror)%type.

Definition dec_sim (er : Z) (b : bytes) (g : res dres) (h : N * res dparam) : Prop :=
  let st := (drop (fst h) b, fst h) in
  match snd h with
  | Ok r => g = Ok (st, Z.of_N (d_flags r), d_seq r, Z.of_N (d_pid r), option_map zk (d_int r), d_str r,
                    d_hlen r, d_plen r, gnil)
  | Err e => exists fl sq pid im sm hl pl, g = Ok (st, fl, sq, pid, im, sm, hl, pl, Some (dcls er e))
  | Panic w => g = Panic w
  | OOB => g = OOB
  end.

Lemma meta_parts m0 m1 m2 m3 m4 m5 m6 m7 m8 m9 m10 m11 m12 m13 :
  let meta := [m0; m1; m2; m3; m4; m5; m6; m7; m8; m9; m10; m11; m12; m13] in
  is_ttheader meta = Ok (N.land (((m4 * 256 + m5) * 256 + m6) * 256 + m7) c_mask =? c_magic) /\
  gslice_to meta 4 = Ok [m0; m1; m2; m3] /\
  gslice_from meta 6 = Ok [m6; m7; m8; m9; m10; m11; m12; m13] /\
  gslice_range meta 8 12 = Ok [m8; m9; m10; m11] /\
  gslice_range meta 12 14 = Ok [m12; m13].
Proof. repeat split; reflexivity. Qed.



Theorem g_ttheader_Decode_sim er b fuel :
  wf b -> glen_ok b -> (length b < fuel)%nat ->
  dec_sim er b (g_ttheader_Decode (bytes * N) (rd_next er) fuel (b, 0)) (decode b).
Proof.
  intros W Hb Hf. pose proof Hb as Hb'. unfold glen_ok, glen in Hb'.
  unfold g_ttheader_Decode, decode. change c_meta with 14.
  unfold rd_next at 1. cbn [fst snd]. change (14 <? 0)%Z with false. cbv iota. change (Z.to_N 14) with 14.
  destruct (N.ltb_spec (len b) 14) as [Hs|Hs].
  { cbn [bind is_nil negb dec_sim fst snd]. rewrite drop_0. repeat eexists. }
  cbn [bind is_nil gnil negb]. change (0 + 14) with 14.
  destruct (explode14 b Hs) as (m0 & m1 & m2 & m3 & m4 & m5 & m6 & m7 & m8 & m9 & m10 & m11 & m12 & m13 & rest & ->).
  destruct (fields_explicit m0 m1 m2 m3 m4 m5 m6 m7 m8 m9 m10 m11 m12 m13 rest)
    as (_ & _ & _ & _ & _ & Ft & Fd & _ & Fl).
  cbv zeta in Ft, Fd, Fl. change c_meta with 14 in Ft, Fd.
  rewrite Ft, Fd, decode_meta_explicit.
  destruct (meta_parts m0 m1 m2 m3 m4 m5 m6 m7 m8 m9 m10 m11 m12 m13) as (P1 & P2 & P3 & P4 & P5).
  cbv zeta in P1, P2, P3, P4, P5.
  rewrite g_ttheader_IsTTHeader_eq, P1. cbn [bind].
  destruct (wf_explode _ _ _ _ _ _ _ _ _ _ _ _ _ _ _ W)
    as (H0 & H1 & H2 & H3 & H4 & H5 & H6 & H7 & H8 & H9 & H10 & H11 & H12 & H13 & Wr).
  destruct (N.land (((m4 * 256 + m5) * 256 + m6) * 256 + m7) c_mask =? c_magic); cbn [negb].
  2:{ cbn [dec_sim fst snd]. rewrite Fd. repeat eexists. }
  rewrite P2. cbn [bind]. rewrite g_ttheader_Bytes2Uint32NoCheck_eq. cbn [be_u32 rmap bind].
  rewrite P3. cbn [bind]. rewrite g_ttheader_Bytes2Uint16NoCheck_eq. cbn [be_u16 rmap bind].
  rewrite P4. cbn [bind]. rewrite g_ttheader_Bytes2Uint32NoCheck_eq. cbn [be_u32 rmap bind].
  rewrite P5. cbn [bind]. rewrite g_ttheader_Bytes2Uint16NoCheck_eq. cbn [be_u16 rmap bind].
  set (tl := ((m0 * 256 + m1) * 256 + m2) * 256 + m3).
  set (fl := m6 * 256 + m7).
  set (sq := ((m8 * 256 + m9) * 256 + m10) * 256 + m11).
  set (sf := m12 * 256 + m13).
  assert (Htl : tl < 4294967296) by (unfold tl; lia).
  assert (Hsq : sq < 4294967296) by (unfold sq; lia).
  change size_bits with 32. change (2 ^ 32) with 4294967296.
  assert (Esz : wrapu 32 (Z.of_N sf * 4) = Z.of_N ((sf * 4) mod 4294967296)).
  { unfold wrapu. rewrite N2Z.inj_mod, N2Z.inj_mul. reflexivity. }
  rewrite Esz. cbv zeta.
  set (size := (sf * 4) mod 4294967296).
  assert (Hsz : size < 4294967296) by (unfold size; apply N.mod_lt; lia).
  unfold u32 at 1, two32. rewrite (N.mod_small size) by exact Hsz. change c_max with 65536.
  destruct (N.ltb_spec 65536 size) as [Hmax|Hmax]; destruct (Z.gtb_spec (Z.of_N size) 65536) as [Zmax|Zmax]; try lia.
  { cbn [orb dec_sim fst snd]. rewrite Fd. repeat eexists. }
  destruct (N.ltb_spec size 2) as [Hmin|Hmin]; destruct (Z.ltb_spec (Z.of_N size) 2) as [Zmin|Zmin]; try lia.
  { cbn [orb dec_sim fst snd]. rewrite Fd. repeat eexists. }
  cbn [orb].
  (* the second Next *)
  unfold rd_next at 1. cbn [fst snd]. destruct (Z.ltb_spec (Z.of_N size) 0); [lia|]. rewrite N2Z.id.
  destruct (N.ltb_spec (len rest) size) as [Hsh|Hsh].
  { cbn [bind is_nil negb dec_sim fst snd]. rewrite Fd. repeat eexists. }
  cbn [bind is_nil gnil negb].
  set (info := take size rest).
  assert (Wi : wf info) by (apply GenLib.wf_take; exact Wr).
  assert (Li : len info = size) by (apply take_len; exact Hsh).
  assert (Lb : length info = N.to_nat size) by (unfold len in Li; lia).
  assert (Gi : glen_ok info) by (unfold glen_ok, glen; rewrite Li; lia).
  assert (Hfi : (length info < fuel)%nat) by (unfold len in *; lia).
  unfold decode_info. fold info.
  change (gindex info 0) with (do x <- index info 0; Ok (Z.of_N x)).
  destruct (index info 0) as [pid|e|w|] eqn:Ep; cbn [bind]; [|exfalso; exact (index_not_err _ _ _ Ep)|reflexivity..].
  rewrite g_ttheader_checkProtocolID_eq. cbn [bind].
  destruct (check_protocol_id pid); cbn [negb is_nil gnil].
  2:{ cbn [dec_sim fst snd]. rewrite <- (drop_drop size 14), Fd. repeat eexists. }
  change (gindex info 1) with (do x <- index info 1; Ok (Z.of_N x)).
  destruct (index info 1) as [nt|e|w|] eqn:En; cbn [bind]; [|exfalso; exact (index_not_err _ _ _ En)|reflexivity..].
  pose proof (index_wf info 1 nt Wi En) as Hnt.
  rewrite (wraps64_small (Z.of_N size - 2)) by lia.
  destruct (Z.ltb_spec (Z.of_N size - 2) (Z.of_N nt)) as [Htr|Htr].
  { cbn [dec_sim fst snd]. rewrite <- (drop_drop size 14), Fd. repeat eexists. }
  unfold gmake_bytes. destruct (Z.ltb_spec (Z.of_N nt) 0); [lia|]. cbn [bind].
  set (trs := repeat 0 (Z.to_nat (Z.of_N nt))).
  assert (Lt : len trs = nt) by (unfold len, trs; rewrite repeat_length; lia).
  pose proof (tr_loop_sim (bytes * N) (rd_next er) fuel info nt Gi Hnt fuel 2 trs 0 ltac:(lia) Lt ltac:(unfold len in *; lia)) as L.
  rewrite N.sub_0_r in L. change (Z.of_N 2) with 2%Z in L. change (Z.of_N 0) with 0%Z in L.
  destruct (read_transforms info 2 (N.to_nat nt)) as [idx|e|w|] eqn:Et; [|contradiction|rewrite L; reflexivity..].
  destruct L as [trs' L]. rewrite L. cbn [bind].
  apply read_transforms_val in Et. rewrite N2Nat.id in Et.
  pose proof (g_ttheader_readKVInfo_sim fuel info idx Wi Gi ltac:(lia) Hfi) as K.
  pose proof (kv_total (S (length info)) info idx None None ltac:(lia) ltac:(unfold len in *; lia)) as [_ Knf].
  destruct (read_kv_info (S (length info)) info idx None None) as [[im sm]|e|w|] eqn:Ek; cbn [sim] in K;
    [| |rewrite K; reflexivity..].
  - rewrite K. unfold kvemb. cbn [bind fst snd is_nil gnil negb dec_sim d_flags d_seq d_pid d_int d_str d_hlen d_plen].
    rewrite <- (drop_drop size 14), Fd.
    rewrite (wrapu_id 32 (Z.of_N size + 14)) by (unfold in_u; lia).
    rewrite (wraps64_small (Z.of_N tl + 4)) by lia. rewrite wraps64_small by lia.
    rewrite wraps_ts32 by exact Hsq.
    unfold u32, two32. rewrite (N.mod_small size) by exact Hsz. change c_meta with 14. change c_s32 with 4.
    rewrite (N.mod_small (size + 14)) by lia.
    replace (Z.of_N (size + 14)) with (Z.of_N size + 14)%Z by lia. reflexivity.
  - destruct K as [[x1 x2] K]. rewrite K. cbn [bind is_nil negb gerr_deref dec_sim fst snd].
    rewrite <- (drop_drop size 14), Fd.
    destruct (read_kv_info_errs _ _ _ _ _ _ Ek) as [E1 | [E1 | E1]]; subst e; [repeat eexists.. | exfalso; apply Knf; reflexivity].
Qed.
