(* Proofs/ErrTypesSkipInst.v — C17, skippers over a source: the theorems of
   Proofs/ErrTypesSkipStreamP.v closed with the reader contract discharged by the buffered-reader
   refinement (Proofs/StreamSkipInst.v: SAt = a reachable reader state over a script that cannot
   stall), and restated for the public entry points (budget 64) in terms of [skip_causes]. *)
From GV Require Import Lib.Bytes Lib.Res Gen.Consts Model.Binary Model.BufReader Model.Skip
  Model.StreamSkip Model.SkipDecoders
  Spec.ThriftGrammar Spec.RefParse Spec.ErrKinds Spec.SkipCauses
  Proofs.RefLib Proofs.RefP Proofs.SkipLib Proofs.SkipDecodersP Proofs.StreamSkipP Proofs.StreamSkipInst
  Proofs.ErrTypesSkipP Proofs.ErrTypesSkipExactP Proofs.ErrTypesSkipStreamP.
From Coq Require Import ZifyN ZifyNat ZifyBool Lia.
Open Scope N_scope.

(* what C17 demands of a failure of a skipper that reads (t, b) through a source whose errors are
   [Src]: it is one of the skipper's own protocol errors - type id INVALID_DATA / NEGATIVE_SIZE /
   DEPTH_LIMIT as the cause it names demands, the cause being allowed at the failure point of the
   reference parse and not truncation - or it is an error of the source, and then the reference
   parse fails by truncation and by nothing else (running out of input is always reported as the
   source's error, never replaced by a protocol error of the skipper's own) *)
Definition skip_fail_ok (i : inl) (t : N) (b : bytes) (Src : Z -> Prop) (c : Z) : Prop :=
  (exists cz, code_cause c = Some cz /\ cz <> CTrunc /\ etype c = cause_type cz /\ In (etype c) skip_type_ids /\
              cause_allowed i t b cz = true) \/
  (Src c /\ skip_causes i t b = [CTrunc]).

Lemma code_cause_trunc c : code_cause c = Some CTrunc -> c = e_too_short.
Proof.
  unfold code_cause. destruct (Z.eqb_spec c e_too_short); [auto|].
  destruct (c =? e_neg_size)%Z; [discriminate|]. destruct (c =? e_unknown_type)%Z; [discriminate|].
  destruct (c =? e_depth)%Z; discriminate.
Qed.

Lemma errok_fail_ok i t b Src c m :
  rc i ref_depth t b = Err m -> errok Src c m -> skip_fail_ok i t b Src c.
Proof.
  unfold skip_fail_ok, cause_allowed, skip_causes, causes_at. generalize ref_depth. intros d E H.
  rewrite E. destruct H as [[H Hns]|[H ->]].
  - left. destruct (allowed_inv c m H) as [cz (Hc & Ht' & Hin & Hl & Hm)].
    exists cz. split; [exact Hc|]. split; [intros ->; apply Hns, code_cause_trunc, Hc|].
    repeat split; try assumption. apply in_causes_of_mask; assumption.
  - right. split; [exact H|reflexivity].
Qed.

Lemma depth0_ref : depth0 = ref_depth.
Proof. reflexivity. Qed.
Lemma rf_next_eq s t : rf_next s t = rf_next_depth s t depth0.
Proof. reflexivity. Qed.
Lemma pk_next_eq s t : pk_next s t = pk_next_depth s t depth0.
Proof. reflexivity. Qed.
Lemma br_skip_eq st t : br_skip st t = br_skip_depth st t depth0.
Proof. reflexivity. Qed.

(* ---------- BytesSkipDecoder.Next ---------- *)
Theorem bs_next_err_typed b t s c : wf b -> t < 256 ->
  bs_next (bs_new b) t = (s, Err c) -> skip_fail_ok inl_none t b is_eof c.
Proof.
  intros W Ht E. rewrite bs_next_eq, depth0_ref in E.
  destruct (bs_next_err_cause b t ref_depth s c W Ht E) as [m [Em Hm]].
  eapply errok_fail_ok; eauto.
Qed.

(* ---------- ReaderSkipDecoder.Next, every scripted source ---------- *)
Theorem rf_next_err_typed src blen t s c :
  wf (sdata src) -> spos src <= len (sdata src) -> t < 256 ->
  rf_next (rf_new src blen) t = (s, Err c) ->
  skip_fail_ok inl_none t (drop (spos src) (sdata src)) (fun x => x = sfinal src) c.
Proof.
  intros W Hp Ht E. rewrite rf_next_eq, depth0_ref in E.
  destruct (rf_next_err_cause src blen t ref_depth s c W Hp Ht E) as [m [Em Hm]].
  eapply errok_fail_ok; eauto.
Qed.

(* ---------- SkipDecoder.Next over the buffered reader ---------- *)
Definition pk_next_err_cause_closed :=
  pk_next_err_cause SAt sat_next_ok sat_next_short sat_skip_ok sat_skip_short sat_peek_ok sat_peek_short sat_avail.

Theorem pk_next_err_typed S c st rn0 t s' e :
  wf S -> SAt S c st -> c <= len S -> t < 256 ->
  pk_next {| pk_r := st; pk_rn := rn0 |} t = (s', Err e) ->
  skip_fail_ok inl_none t (drop c S) src_code e.
Proof.
  intros W A Hc Ht E. rewrite pk_next_eq, depth0_ref in E.
  destruct (pk_next_err_cause_closed S c st t ref_depth rn0 s' e W A Hc Ht E) as [m [Em Hm]].
  eapply errok_fail_ok; eauto.
Qed.

(* ---------- BufferReader.Skip ---------- *)
Definition brskip_err_cause_closed :=
  brskip_err_cause SAt sat_next_ok sat_next_short sat_skip_ok sat_skip_short sat_avail.

Theorem br_skip_err_typed S c st t st' e :
  wf S -> SAt S c st -> c <= len S -> t < 256 ->
  br_skip st t = (st', Err e) ->
  skip_fail_ok inl_br t (drop c S) wrapped_src e.
Proof.
  intros W A Hc Ht E. rewrite br_skip_eq, depth0_ref in E.
  destruct (brskip_err_cause_closed S c st t ref_depth st' e W A Hc Ht E) as [m [Em Hm]].
  eapply errok_fail_ok; eauto.
Qed.

(* the wrapped source error of BufferReader is NewProtocolExceptionWithErr(e): type id
   UNKNOWN_PROTOCOL_EXCEPTION, Unwrap = e, errors.Is matches e (Model/ErrTypes.v SWrap) - the
   "100 + e" code of the skipper model stands for it *)
Lemma wrapped_src_unwrap c : wrapped_src c -> exists e, c = e_wrap e /\ (0 <= e < 99)%Z.
Proof. intros [e [H1 H2]]. exists e. split; assumption. Qed.

(* own errors and source errors cannot be confused: the model's codes are disjoint
   (source codes are those of Model/BufReader.v: 20 io.EOF, 21 injected, 22 io.ErrNoProgress) *)
Lemma own_not_wrapped c : wrapped_src c -> code_cause c = None.
Proof.
  intros [e [-> He]]. unfold code_cause, e_wrap, src_code, e_too_short, e_neg_size, e_unknown_type, e_depth in *.
  repeat match goal with |- context [(?a =? ?b)%Z] => destruct (Z.eqb_spec a b); [lia|] end. reflexivity.
Qed.
