(* Proofs/StreamSkipInst.v — discharges the reader contract of Proofs/StreamSkipP.v (RC_...) with
   the interface lemmas of the buffered reader (C04, Proofs/BufReaderP.v, engineer reader) and
   restates the two bufiox-backed skipper theorems closed: for every source (data, final error,
   data-with-error flag, fragmentation script that cannot stall) and every reachable state. *)
From GV Require Import Lib.Bytes Lib.Res Gen.Consts Spec.Cursor Model.Binary Model.BufReader Model.Skip
  Model.StreamSkip Model.SkipDecoders Spec.ThriftGrammar Spec.RefParse
  Proofs.RefLib Proofs.RefP Proofs.SkipLib Proofs.SkipDecodersP Proofs.StreamSkipP Proofs.BufReaderP.
From Coq Require Import ZifyN ZifyNat ZifyBool Lia.
Open Scope N_scope.

(* a reachable reader state at cursor c of stream S, over a script that cannot stall, whose
   source reports a final error code in [0, 99) (io.EOF = 20, an injected error = 21) *)
Definition SAt (S : bytes) (c : N) (st : rstate) : Prop :=
  exists F CH, RInv S F CH c st /\ may_stall CH = false /\ (0 <= F < 99)%Z.

Lemma fails_range D F CH c n e : fails D F CH c n e -> may_stall CH = false -> (0 <= F < 99)%Z -> (0 <= e < 99)%Z.
Proof.
  intros [[-> _]|[-> Hs]] Hns HF; [exact HF|congruence].
Qed.

Lemma sat_next_ok : forall S c st n, SAt S c st -> c + n <= len S ->
  exists st', r_next st (Z.of_N n) = (st', OBytes (take n (drop c S))) /\ SAt S (c + n) st' /\
              r_readlen st' = r_readlen st + n.
Proof.
  intros S c st n (F & CH & HI & Hns & HF) Hfit.
  destruct (rinv_next_ok S F CH c st n HI Hns Hfit) as (st' & H1 & _ & HI' & Hl).
  exists st'. unfold seg_at in H1. repeat split; auto. exists F, CH. auto.
Qed.
Lemma sat_next_short : forall S c st n, SAt S c st -> len S < c + n ->
  exists st' e, r_next st (Z.of_N n) = (st', OErr e) /\ SAt S c st' /\ r_readlen st' = r_readlen st /\
                (0 <= e < 99)%Z.
Proof.
  intros S c st n (F & CH & HI & Hns & HF) Hs.
  destruct (rinv_next_short S F CH c st n HI Hs) as (st' & e & H1 & Hf & HI' & Hl).
  exists st', e. repeat split; auto; try (exists F, CH; auto); eapply fails_range; eauto.
Qed.
Lemma sat_skip_ok : forall S c st n, SAt S c st -> c + n <= len S ->
  exists st', r_skip st (Z.of_N n) = (st', OUnit) /\ SAt S (c + n) st' /\
              r_readlen st' = r_readlen st + n.
Proof.
  intros S c st n (F & CH & HI & Hns & HF) Hfit.
  destruct (rinv_skip_ok S F CH c st n HI Hns Hfit) as (st' & H1 & HI' & Hl).
  exists st'. repeat split; auto. exists F, CH. auto.
Qed.
Lemma sat_skip_short : forall S c st n, SAt S c st -> len S < c + n ->
  exists st' e, r_skip st (Z.of_N n) = (st', OErr e) /\ SAt S c st' /\ r_readlen st' = r_readlen st /\
                (0 <= e < 99)%Z.
Proof.
  intros S c st n (F & CH & HI & Hns & HF) Hs.
  destruct (rinv_skip_short S F CH c st n HI Hs) as (st' & e & H1 & Hf & HI' & Hl).
  exists st', e. repeat split; auto; try (exists F, CH; auto); eapply fails_range; eauto.
Qed.
Lemma sat_peek_ok : forall S c st n, SAt S c st -> c + n <= len S ->
  exists st', r_peek st (Z.of_N n) = (st', OBytes (take n (drop c S))) /\ SAt S c st' /\
              r_readlen st' = r_readlen st.
Proof.
  intros S c st n (F & CH & HI & Hns & HF) Hfit.
  destruct (rinv_peek_ok S F CH c st n HI Hns Hfit) as (st' & H1 & _ & HI' & Hl).
  exists st'. unfold seg_at in H1. repeat split; auto. exists F, CH. auto.
Qed.
Lemma sat_peek_short : forall S c st n, SAt S c st -> len S < c + n ->
  exists st' e, r_peek st (Z.of_N n) = (st', OErr e) /\ SAt S c st' /\ r_readlen st' = r_readlen st /\
                (0 <= e < 99)%Z.
Proof.
  intros S c st n (F & CH & HI & Hns & HF) Hs.
  destruct (rinv_peek_short S F CH c st n HI Hs) as (st' & e & H1 & Hf & HI' & Hl).
  exists st', e. repeat split; auto; try (exists F, CH; auto); eapply fails_range; eauto.
Qed.
Lemma sat_avail : forall S c st, SAt S c st ->
  (length (drop c S) <= length (win st) + length (sdata (src st)))%nat.
Proof.
  intros S c st (F & CH & HI & _). unfold RInv in HI.
  rewrite (inv_stream _ _ _ _ _ _ HI), app_length. unfold drop. rewrite skipn_length. lia.
Qed.

Lemma sat_new_reader s : spos s = 0 -> may_stall (schunks s) = false -> (0 <= sfinal s < 99)%Z ->
  SAt (sdata s) 0 (new_reader s).
Proof. intros H0 Hns HF. exists (sfinal s), (schunks s). split; [now apply rinv_new_reader|auto]. Qed.
Lemma sat_new_bytes_reader data bcap : len data <= bcap -> SAt data 0 (new_bytes_reader data bcap).
Proof.
  intros H. exists e_eof, []. split; [now apply rinv_new_bytes_reader|]. split; [reflexivity|]. unfold e_eof. lia.
Qed.

(* ---------- closed theorems ---------- *)
Definition brskip_is_ref_closed :=
  brskip_is_ref SAt sat_next_ok sat_next_short sat_skip_ok sat_skip_short sat_peek_ok sat_peek_short sat_avail.
Definition pk_next_is_ref_closed :=
  pk_next_is_ref SAt sat_next_ok sat_next_short sat_skip_ok sat_skip_short sat_peek_ok sat_peek_short sat_avail.
