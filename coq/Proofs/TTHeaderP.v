(* Proofs/TTHeaderP.v — lemmas about Model/TTHeader.v against Spec/FrameLayout.v *)
From GV Require Import Lib.Bytes Lib.Res Gen.Consts Model.TTHeader Spec.FrameLayout.
From Coq Require Import ZifyN ZifyNat ZifyBool.
Open Scope N_scope.

(* the values the property fixes, tied to the Go constants *)
Lemma consts_ok :
  c_meta = L_meta /\ c_magic = L_magic16 * 65536 /\ c_mask = 65535 * 65536 /\ c_max = L_max /\
  c_s32 = 4 /\ c_s16 = 2 /\ id_pad = 0 /\ id_kv = 1 /\ id_intkv = 16 /\ id_acl = 17 /\
  size_bits = 32 /\ ttheader_Decode_headerInfoSize_signed = 0%Z /\
  map Z.to_N ttheader_checkProtocolID_cases = [0; 4; 3; 16; 17] /\ gdpr_key = gdpr /\
  c_streaming = L_streaming.
Proof. repeat split; reflexivity. Qed.
