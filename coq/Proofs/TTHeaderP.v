(* Proofs/TTHeaderP.v — the statements of C06 and C10 in the shape Properties/C06.v and
   Properties/C10.v quote them (lemmas: TTHeaderLib, TTHeaderSec, TTHeaderDec, TTHeaderEnc). *)
From GV Require Import Lib.Bytes Lib.Res Gen.Consts Model.TTHeader Spec.FrameLayout.
From GV Require Export Proofs.TTHeaderLib Proofs.TTHeaderSec Proofs.TTHeaderDec Proofs.TTHeaderEnc
     Proofs.TTHeaderRef Proofs.TTHeaderLay.
From Coq Require Import ZifyN ZifyNat ZifyBool Permutation.
Open Scope N_scope.

(* ---------- C10 ---------- *)
Lemma p_decode_total b :
  safe (snd (decode b)) /\ snd (decode b) <> Err e_fuel /\
  fst (decode b) <= N.min (len b) (L_meta + declared b).
Proof. destruct (decode_total b) as [[H1 H2] H3]. auto. Qed.

Lemma p_decode_ok_values b r :
  wf b -> snd (decode b) = Ok r ->
  fst (decode b) = L_meta + declared b /\
  d_hlen r = Z.of_N (L_meta + declared b) /\
  d_plen r = (Z.of_N (field_at b 0 4) + 4 - d_hlen r)%Z /\
  d_flags r = field_at b 6 2 /\ d_seq r = to_signed 32 (field_at b 8 4) /\
  forall pid nt rest secs,
    info_of b = pid :: nt :: rest -> secs_ok secs -> drop nt rest = enc_secs secs ->
    d_pid r = pid /\ d_int r = fst (ointerp secs) /\ d_str r = snd (ointerp secs).
Proof.
  intros Hw H. destruct (decode_ok_values b r Hw H) as [Hc Hv].
  assert (Ha : accepts b) by (apply (decode_ok_iff b Hw); eauto).
  destruct Ha as (_ & _ & _ & pid & nt & rest & secs & Hi & _ & _ & Hok & Ed).
  pose proof (Hv _ _ _ _ Hi Hok Ed) as Hr.
  split; [exact Hc|].
  assert (E1 : d_hlen r = Z.of_N (L_meta + declared b)) by (rewrite Hr; reflexivity).
  assert (E2 : d_plen r = (Z.of_N (field_at b 0 4) + 4 - d_hlen r)%Z) by (rewrite Hr; reflexivity).
  assert (E3 : d_flags r = field_at b 6 2) by (rewrite Hr; reflexivity).
  assert (E4 : d_seq r = to_signed 32 (field_at b 8 4)) by (rewrite Hr; reflexivity).
  split; [exact E1|split; [exact E2|split; [exact E3|split; [exact E4|]]]].
  intros pid' nt' rest' secs' Hi' Hok' Ed'. rewrite (Hv _ _ _ _ Hi' Hok' Ed').
  split; [reflexivity|split; reflexivity].
Qed.

(* the bytes-reader entry point DecodeFromBytes (used by C03 as well) *)
Lemma p_decode_from_bytes_total b :
  safe (decode_from_bytes b) /\ decode_from_bytes b <> Err e_fuel.
Proof. destruct (decode_total b) as [[H1 H2] _]. split; assumption. Qed.

Lemma p_decode_from_bytes_hlen b r :
  wf b -> decode_from_bytes b = Ok r ->
  (Z.of_N L_meta + 2 <= d_hlen r <= Z.of_N (len b))%Z /\ d_hlen r = Z.of_N (L_meta + declared b).
Proof.
  unfold decode_from_bytes. intros Hw H.
  destruct (p_decode_ok_values b r Hw H) as (_ & Hh & _).
  assert (Ha : accepts b) by (apply (decode_ok_iff b Hw); eauto).
  destruct Ha as (Hl & _ & Hd & _). unfold L_meta in *. rewrite Hh. lia.
Qed.

(* ---------- C06 ---------- *)
Lemma p_enc_fail_iff tl p :
  NoDup (keys (p_str p)) ->
  ((exists e, encode tl p = Err e) <-> L_max < info_size (p_int p) (p_str p)) /\
  ((exists b, encode tl p = Ok b) <-> info_size (p_int p) (p_str p) <= L_max).
Proof. apply enc_fail_iff. Qed.

(* without the 32-bit conversion: a header info below 4 GiB *)
Lemma p_enc_fail_iff_nowrap tl p :
  NoDup (keys (p_str p)) -> info_size (p_int p) (p_str p) < two32 ->
  ((exists e, encode tl p = Err e) <-> L_max < info_size (p_int p) (p_str p)).
Proof.
  intros Hnd Hnw. destruct (enc_fail_iff tl p Hnd) as [H _]. exact H.
Qed.
