(* Proofs/GenEquivBufWriter.v — bufiox.DefaultWriter REGENERATED FROM THE GO SOURCE on every run
   (Gen/Funcs.v g_bufiox_DefaultWriter_*; tools/gotrans phase 4) against the hand-written heap-level
   model Model/BufWriter.v that the C05 theorems are about.

   The generated definitions work on VALUES (a slice is the contents of its backing array up to the
   capacity plus a length); the hand model works on a HEAP of blocks, because the regions handed out
   by Malloc are stored into by the caller later (OFill), through aliases of the writer's buffers.
   That aliasing is not modelled by the translation.  The tie is therefore stated in the direction
   model -> generated code: [conc st] is the generated writer state that a model state st stands for
   (w.buf = the block of [cur st] with its length, w.pendingBuf = the blocks of [pend st] with their
   lengths, the sink without the published target, error, flags, statistics; the ghost fields live /
   nstale / freed have no counterpart), the allocator's state is the number of blocks allocated so
   far, its models hand out exactly the blocks [new_block dirty] makes (mcache.Malloc: pow2ceil
   capacity; dirtmake.Bytes: exact capacity; contents dirty k for the k-th block, for EVERY oracle
   dirty), Free has no effect, and one io.Writer.Write is [sink_write].
   Every theorem has the form: for every model state st with the C05 invariant (Proofs/BufWriterInv.v
   Inv: block ids valid and pairwise distinct, lengths inside the blocks) and sizes below 2^59, if
   the model's operation returns Ok st' (it always does: Proofs/BufWriterOps.v) then the generated
   method, run on conc st, returns Ok with the state conc st', the allocator at length (store st')
   and the model's outputs.  The caller's later stores (OFill) act on the model state; conc follows
   them, because they go into the block of the current or of a parked buffer. *)
From GV Require Import Lib.Bytes Lib.Res Lib.Heap Lib.GoSem Gen.Consts Gen.Funcs Spec.Log Model.BufWriter
     Proofs.BufReaderLib Proofs.BufWriterLib Proofs.BufWriterP Proofs.BufWriterInv Proofs.BufWriterOps
     Proofs.GenLib Proofs.GenLib3 Proofs.GenLib4.
From Coq Require Import ZifyN ZifyNat ZifyBool.
Open Scope Z_scope.

Lemma w_bufsz_val : bufsz = 4096%N. Proof. reflexivity. Qed.
Lemma w_nbuckets_val : nbuckets = 10%N. Proof. reflexivity. Qed.
Lemma w_ecode_negcount : ecode "bufiox.errNegativeCount" = 23. Proof. reflexivity. Qed.

(* ---------- the io.Writer: one Write is sink_write (the published target is not represented) ---------- *)
Definition ksink (k : sinkst) : sinkst := mksink (kfake k) (klog k) (kcalls k) (kfail k) None.
Definition wd_write (k : sinkst) (content : bytes) : res (sinkst * Z * gerror) :=
  let '(k', e) := sink_write k (O, 0%N) content in
  Ok (ksink k', match e with None => glen content | Some _ => 0 end, e).

Lemma wd_write_eq k content :
  wd_write k content =
  Ok (ksink (fst (sink_write k (O, 0%N) content)),
      match snd (sink_write k (O, 0%N) content) with None => glen content | Some _ => 0 end,
      snd (sink_write k (O, 0%N) content)).
Proof. unfold wd_write. destruct (sink_write k (O, 0%N) content). reflexivity. Qed.

Lemma ksink_idem k : ksink (ksink k) = ksink k. Proof. reflexivity. Qed.
Lemma sink_write_ksink k p q content :
  ksink (fst (sink_write (ksink k) p content)) = ksink (fst (sink_write k q content)) /\
  snd (sink_write (ksink k) p content) = snd (sink_write k q content).
Proof.
  unfold sink_write, ksink. cbn [kfake klog kcalls kfail ktarget].
  destruct (kfake k); [split; reflexivity|]. destruct (kcalls k + 1 =? kfail k)%N; split; reflexivity.
Qed.

(* ---------- the allocator: the state is the number of blocks allocated so far ---------- *)
Section Alloc.
  Variable dirty : nat -> bytes.
  Definition w_malloc (k : nat) (n c : Z) : res (nat * gcslice) :=
    Ok (S k, Some (mkbuf (pow2ceil (Z.to_N (Z.max n c))) (dirty k), n)).
  Definition w_bytes (k : nat) (n c : Z) : res (nat * gcslice) :=
    Ok (S k, Some (mkbuf (Z.to_N c) (dirty k), n)).
  Definition w_free (k : nat) (_ : gcslice) : res nat := Ok k.
End Alloc.

(* ---------- the generated writer state a model state stands for ---------- *)
Record gw : Type := mkgw {
  w_buf : gcslice; w_pend : gcslist; w_wd : sinkst; w_err : gerror; w_bk : list Z; w_bi : Z; w_nc : bool }.
Definition wret (w : gw) := (w_buf w, w_pend w, w_wd w, w_err w, w_bk w, w_bi w, w_nc w).

Definition cs_of (h : heap) (p : nat * N) : gcslice := Some (block h (fst p), Z.of_N (snd p)).

Definition pend_of (h : heap) (pd : list (nat * N)) : gcslist :=
  match pd with [] => None | l => Some (map (cs_of h) l) end.
Lemma pend_of_items h pd : gcsl_items (pend_of h pd) = map (cs_of h) pd.
Proof. destruct pd; reflexivity. Qed.
Lemma pend_of_append h pd p : gcsl_append (pend_of h pd) (cs_of h p) = pend_of h (pd ++ [p]).
Proof.
  unfold gcsl_append. rewrite pend_of_items. unfold pend_of. destruct (pd ++ [p])%list eqn:E.
  - destruct pd; discriminate.
  - rewrite <- E, map_app. reflexivity.
Qed.

Definition conc (st : wstate) : gw :=
  mkgw (match cur st with Some p => cs_of (store st) p | None => None end)
       (pend_of (store st) (pend st))
       (ksink (sink st)) (werr st) (map Z.of_N (buckets st)) (Z.of_N (bidx st)) (nocache st).

Definition wsmall (st : wstate) : Prop :=
  (cur_cap st < 2 ^ 59)%N /\ Forall (fun x => x < 2 ^ 59)%N (buckets st) /\
  length (buckets st) = 10%nat /\ (bidx st < 10)%N.

Lemma conc_len st : gcs_len (w_buf (conc st)) = Z.of_N (cur_len st).
Proof. unfold conc, cur_len. cbn [w_buf]. destruct (cur st) as [[c l]|]; reflexivity. Qed.
Lemma conc_cap st : gcs_cap (w_buf (conc st)) = Z.of_N (cur_cap st).
Proof. unfold conc, cur_cap. cbn [w_buf]. destruct (cur st) as [[c l]|]; reflexivity. Qed.

(* ---------- maxSizeStats on the model's buckets ---------- *)
Lemma w_maxSize_loop (bk : list N) : forall i acc,
  g_bufiox_maxSizeStats_maxSize_loop1 (map Z.of_N bk) i (Z.of_N acc) =
  Ok (inl (Z.of_N (fold_left (fun m s => if (m <? s)%N then s else m) bk acc))).
Proof.
  induction bk as [|x r IH]; intros i acc; cbn [g_bufiox_maxSizeStats_maxSize_loop1 map fold_left]; [reflexivity|].
  destruct (Z.ltb_spec (Z.of_N acc) (Z.of_N x)); destruct (N.ltb_spec acc x); try lia; apply IH.
Qed.

Lemma w_maxSize_eq (bk : list N) bi :
  g_bufiox_maxSizeStats_maxSize false (map Z.of_N bk) bi = Ok (map Z.of_N bk, bi, Z.of_N (stat_max bk)).
Proof.
  unfold g_bufiox_maxSizeStats_maxSize. cbn [gptr_check bind].
  change 0 with (Z.of_N 0). rewrite w_maxSize_loop. reflexivity.
Qed.

Lemma map_set_nth {A B} (f : A -> B) i x l : map f (set_nth i x l) = set_nth i (f x) (map f l).
Proof. revert i. induction l as [|y l IH]; intros [|i]; cbn [set_nth map]; try reflexivity. f_equal. apply IH. Qed.

Lemma set_nth_firstn_skipn {A} (l : list A) i x : (i < length l)%nat ->
  (firstn i l ++ x :: skipn (S i) l)%list = set_nth i x l.
Proof.
  revert i. induction l as [|y l IH]; intros [|i] H; cbn [length firstn skipn set_nth app] in *; try lia; [reflexivity|].
  f_equal. apply IH. lia.
Qed.

Lemma w_update_eq (bk : list N) (bi : N) (size : N) : length bk = 10%nat -> (bi < 10)%N ->
  g_bufiox_maxSizeStats_update false (map Z.of_N bk) (Z.of_N bi) (Z.of_N size) =
  Ok (map Z.of_N (fst (stat_update bk bi size)), Z.of_N (snd (stat_update bk bi size))).
Proof.
  intros Hl Hb. unfold g_bufiox_maxSizeStats_update, stat_update. cbn [gptr_check bind fst snd].
  rewrite garr_set_ok by (unfold glen, len; rewrite map_length; lia). cbn [bind gptr_check].
  unfold grem. cbn [Z.eqb bind]. rewrite wraps64_id by lia. cbn [gptr_set bind].
  rewrite wraps64_id by (pose proof (Z.rem_bound_pos (Z.of_N bi + 1) 10); lia).
  rewrite Z.rem_mod_nonneg by lia. rewrite w_nbuckets_val.
  rewrite set_nth_firstn_skipn by (rewrite map_length; lia). rewrite map_set_nth.
  do 3 f_equal; [f_equal; lia|]. rewrite N2Z.inj_mod. f_equal. lia.
Qed.

(* ---------- the doubling loops ---------- *)
Section WLoops.
  Context {M : Type}.
  Variable byt mal : M -> Z -> Z -> res (M * gcslice).
  Variable fuel : nat.
  Notation wloop1 := (g_bufiox_DefaultWriter_acquireSlow_loop1 sinkst M byt mal fuel).
  Notation wloop2 := (g_bufiox_DefaultWriter_acquireSlow_loop2 sinkst M byt mal fuel).

  Lemma w_loop1 (n : N) : forall f lf x r, (f < lf)%nat -> (x < 2 ^ 62)%N -> (n < 2 ^ 61)%N ->
    double_until f x n = Some r ->
    wloop1 (Z.of_N n) lf (Z.of_N x) = Ok (inl (Z.of_N r)).
  Proof.
    induction f as [|f IH]; intros lf x r Hlf Hx Hn H; (destruct lf as [|lf]; [lia|]);
      cbn [g_bufiox_DefaultWriter_acquireSlow_loop1 double_until] in *.
    - destruct (Z.ltb_spec (Z.of_N x) (Z.of_N n)); destruct (N.ltb_spec x n); try lia; [discriminate|].
      inversion H; subst. reflexivity.
    - destruct (Z.ltb_spec (Z.of_N x) (Z.of_N n)); destruct (N.ltb_spec x n); try lia.
      + rewrite wraps64_id by lia. replace (Z.of_N x * 2) with (Z.of_N (2 * x)) by lia.
        apply IH; [lia|lia|lia|exact H].
      + inversion H; subst. reflexivity.
  Qed.

  Lemma w_loop2 (l n : N) (mem : bytes) : forall f lf x r, (f < lf)%nat -> (l <= x)%N -> (x < 2 ^ 62)%N -> (l + n < 2 ^ 61)%N ->
    grow_until f x l n = Some r ->
    wloop2 (Some (mem, Z.of_N l)) false (Z.of_N n) lf (Z.of_N x) = Ok (inl (Z.of_N r)).
  Proof.
    induction f as [|f IH]; intros lf x r Hlf Hl Hx Hn H; (destruct lf as [|lf]; [lia|]);
      cbn [g_bufiox_DefaultWriter_acquireSlow_loop2 grow_until gptr_check bind gcs_len] in *; rewrite wraps64_id by lia.
    - destruct (Z.ltb_spec (Z.of_N x - Z.of_N l) (Z.of_N n)); destruct (N.ltb_spec (x - l) n); try lia; [discriminate|].
      inversion H; subst. reflexivity.
    - destruct (Z.ltb_spec (Z.of_N x - Z.of_N l) (Z.of_N n)); destruct (N.ltb_spec (x - l) n); try lia.
      + rewrite wraps64_id by lia. replace (Z.of_N x * 2) with (Z.of_N (2 * x)) by lia.
        apply IH; [lia|lia|lia|lia|exact H].
      + inversion H; subst. reflexivity.
  Qed.

  (* ---------- acquireSlow, phase by phase (receiver not nil) ---------- *)
  Definition w_grow (mst : M) buf pend (wd : sinkst) (err : gerror) (bk : list Z) (bi : Z) (nc : bool) n :=
    if n >? wraps 64 (gcs_cap buf - gcs_len buf) then
      do t <- wloop2 buf false n fuel (wraps 64 (gcs_cap buf * 2));
      match t with
      | inr r => Ok r
      | inl ncap =>
        let K := fun (mst' : M) (nbuf : gcslice) =>
          do t8 <- gcs_slice nbuf 0 (gcs_len buf);
          Ok (t8, gcsl_append pend buf, wd, err, bk, bi, nc, mst') in
        if nc then do (mst', t7) <- byt mst ncap ncap; K mst' t7
        else do (mst', t9) <- mal mst ncap ncap; K mst' t9
      end
    else Ok (buf, pend, wd, err, bk, bi, nc, mst).

  Lemma g_w_acquireSlow_unfold (mst : M) buf pend wd err bk bi nc n :
    g_bufiox_DefaultWriter_acquireSlow sinkst M byt mal fuel false buf pend wd err bk bi nc n mst =
    if gcs_cap buf =? 0 then
      do (bk', bi', t1) <- g_bufiox_maxSizeStats_maxSize false bk bi;
      let K := fun mx =>
        do t <- wloop1 n fuel mx;
        match t with
        | inr r => Ok r
        | inl mx' =>
          if nc then do (mst', b) <- byt mst 0 mx'; w_grow mst' b pend wd err bk' bi' nc n
          else do (mst', b) <- mal mst 0 mx'; w_grow mst' b pend wd err bk' bi' nc n
        end in
      if t1 <? 4096 then K 4096 else K t1
    else w_grow mst buf pend wd err bk bi nc n.
  Proof. reflexivity. Qed.
End WLoops.

(* ---------- sizes ---------- *)
Lemma w_loop_fuel_le (n : N) k : (n < 2 ^ N.of_nat k)%N -> (loop_fuel n <= S k)%nat.
Proof.
  intros H. unfold loop_fuel. destruct (N.eq_dec n 0) as [->|Hn]; [cbn; lia|].
  assert (N.log2 n < N.of_nat k)%N by (apply N.log2_lt_pow2; lia). lia.
Qed.

Lemma w_double_until_bounds f : forall x n r, double_until f x n = Some r ->
  (x <= r /\ n <= r /\ (r = x \/ r < 2 * n))%N.
Proof.
  induction f as [|f IH]; intros x n r H; cbn [double_until] in H.
  - destruct (N.ltb_spec x n); [discriminate|]. inversion H; subst. lia.
  - destruct (N.ltb_spec x n); [|inversion H; subst; lia].
    destruct (IH _ _ _ H) as (H1 & H2 & H3). lia.
Qed.

Lemma w_grow_until_bounds f : forall x l n r, grow_until f x l n = Some r ->
  (x <= r /\ (r = x \/ r < 2 * (l + n)))%N.
Proof.
  induction f as [|f IH]; intros x l n r H; cbn [grow_until] in H.
  - destruct (N.ltb_spec (x - l) n); [discriminate|]. inversion H; subst. lia.
  - destruct (N.ltb_spec (x - l) n); [|inversion H; subst; lia].
    destruct (IH _ _ _ _ H) as (H1 & H3). lia.
Qed.

Lemma w_pow2ceil_lt c : (pow2ceil c < 2 * c + 2)%N.
Proof.
  unfold pow2ceil. destruct (N.le_gt_cases c 1) as [H|H].
  - rewrite N.log2_up_eqn0 by assumption. cbn. lia.
  - pose proof (N.log2_up_spec c H) as [H1 H2].
    assert (N.log2_up c = N.succ (N.pred (N.log2_up c))) as E.
    { rewrite N.succ_pred; [reflexivity|]. pose proof (N.log2_up_pos c H). lia. }
    rewrite E, N.pow_succ_r'. lia.
Qed.

(* the blocks of the buffers a state holds are not touched by an allocation *)
Lemma cs_of_alloc h x p : (fst p < length h)%nat -> cs_of (h ++ [x]) p = cs_of h p.
Proof. intros H. unfold cs_of. rewrite block_alloc_old by exact H. reflexivity. Qed.

Lemma chain_ids h pd : forall from c l, chain h pd from c l -> Forall (fun p => (fst p < length h)%nat) pd.
Proof.
  induction pd as [|[b lb] rest IH]; intros from c l H; cbn [chain] in H; [constructor|].
  destruct H as (_ & _ & H3 & _ & _ & H6). constructor; [exact H3|eapply IH; exact H6].
Qed.

Lemma map_cs_of_alloc h x pd : Forall (fun p => (fst p < length h)%nat) pd ->
  map (cs_of (h ++ [x])) pd = map (cs_of h) pd.
Proof.
  intros H. apply map_ext_in. intros p Hp. rewrite Forall_forall in H. apply cs_of_alloc, H, Hp.
Qed.

Section WSim.
  Variable dirty : nat -> bytes.
  Variable fuel : nat.
  Hypothesis fuel64 : (64 < fuel)%nat.
  Notation byt := (w_bytes dirty).
  Notation mal := (w_malloc dirty).

  (* the second phase of the model's acquire_slow *)
  Definition h_grow (st1 : wstate) (n : N) : res wstate :=
    if (cur_cap st1 - cur_len st1 <? n)%N then
      match grow_until (loop_fuel n) (cur_cap st1 * 2) (cur_len st1) n with
      | None => Err E_FUEL
      | Some ncap =>
        let '(h, id) := new_block dirty (nocache st1) (store st1) ncap in
        match cur st1 with
        | Some (oc, ol) => Ok (with_mem st1 h (Some (id, ol)) (pend st1 ++ [(oc, ol)]))
        | None => Panic 9
        end
      end
    else Ok st1.

  Lemma w_grow_sim st1 (n : N) st' c l :
    cur st1 = Some (c, l) -> chain (store st1) (pend st1) 0 c l ->
    (cur_cap st1 < 2 ^ 62)%N -> (cur_cap st1 - cur_len st1 < n -> cur_cap st1 < 2 ^ 59)%N -> (n < 2 ^ 59)%N ->
    h_grow st1 n = Ok st' ->
    w_grow byt mal fuel (length (store st1)) (cs_of (store st1) (c, l)) (pend_of (store st1) (pend st1))
           (ksink (sink st1)) (werr st1) (map Z.of_N (buckets st1)) (Z.of_N (bidx st1)) (nocache st1) (Z.of_N n)
    = Ok (wret (conc st'), length (store st')).
  Proof.
    intros Hcur Hch Hcap Hsm Hn H.
    pose proof (chain_cur _ _ _ _ _ Hch) as [Hl Hc]. pose proof (chain_ids _ _ _ _ _ Hch) as Hids.
    unfold h_grow in H. unfold w_grow. unfold cur_cap, cur_len in *. rewrite Hcur in *.
    unfold cs_of. cbn [fst snd]. rewrite !gcs_cap_some, !gcs_len_some. unfold glen.
    rewrite wraps64_id by lia.
    destruct (N.ltb_spec (len (block (store st1) c) - l) n) as [Hg|Hg];
      destruct (Z.gtb_spec (Z.of_N n) (Z.of_N (len (block (store st1) c)) - Z.of_N l)); try lia.
    - specialize (Hsm Hg).
      destruct (grow_until (loop_fuel n) (len (block (store st1) c) * 2) l n) as [ncap|] eqn:Eg; [|discriminate].
      destruct (w_grow_until_bounds _ _ _ _ _ Eg) as [Hb1 Hb2].
      assert (Hf : (loop_fuel n <= 60)%nat) by (apply (w_loop_fuel_le n 59); cbn; lia).
      rewrite wraps64_id by lia. replace (Z.of_N (len (block (store st1) c)) * 2) with (Z.of_N (len (block (store st1) c) * 2)) by lia.
      rewrite (w_loop2 byt mal fuel l n (block (store st1) c) (loop_fuel n) fuel _ ncap) by (try lia; exact Eg).
      cbn [bind]. unfold new_block, alloc in H.
      set (blk := mkbuf (if nocache st1 then ncap else pow2ceil ncap) (dirty (length (store st1)))) in *.
      inversion H; subst st'; clear H.
      assert (Hblk : (l <= len blk)%N).
      { unfold blk. rewrite len_mkbuf. pose proof (pow2ceil_ge ncap). destruct (nocache st1); lia. }
      assert (Hres : forall (nbuf : bytes), nbuf = blk ->
        (do t8 <- gcs_slice (Some (nbuf, Z.of_N ncap)) 0 (gcs_len (Some (block (store st1) c, Z.of_N l)));
         Ok (t8, gcsl_append (pend_of (store st1) (pend st1)) (Some (block (store st1) c, Z.of_N l)),
             ksink (sink st1), werr st1, map Z.of_N (buckets st1), Z.of_N (bidx st1), nocache st1, S (length (store st1))))
        = Ok (wret (conc (with_mem st1 (store st1 ++ [blk]) (Some (length (store st1), l)) (pend st1 ++ [(c, l)]))),
              length (store (with_mem st1 (store st1 ++ [blk]) (Some (length (store st1), l)) (pend st1 ++ [(c, l)]))))).
      { intros nbuf ->. rewrite gcs_len_some. rewrite gcs_slice_some by (unfold glen; lia). cbn [bind].
        change (drop (Z.to_N 0) blk) with blk. rewrite Z.sub_0_r.
        unfold conc, wret. cbn [with_mem cur store pend werr nocache buckets bidx sink w_buf w_pend w_wd w_err w_bk w_bi w_nc].
        rewrite app_length. cbn [length]. rewrite Nat.add_1_r.
        change (Some (block (store st1) c, Z.of_N l)) with (cs_of (store st1) (c, l)).
        rewrite pend_of_append. unfold cs_of at 1. cbn [fst snd]. rewrite block_alloc_new.
        unfold pend_of. destruct (pend st1 ++ [(c, l)])%list eqn:E; [destruct (pend st1); discriminate|].
        rewrite <- E. rewrite map_cs_of_alloc by (apply Forall_app; split; [exact Hids|constructor; [exact Hc|constructor]]).
        reflexivity. }
      cbv zeta. destruct (nocache st1) eqn:Hnc.
      + unfold w_bytes at 1. cbn [bind]. rewrite N2Z.id. apply Hres. reflexivity.
      + unfold w_malloc at 1. cbn [bind]. rewrite Z.max_id, N2Z.id. apply Hres. reflexivity.
    - inversion H; subst st'; clear H. unfold conc, wret. rewrite Hcur.
      cbn [w_buf w_pend w_wd w_err w_bk w_bi w_nc]. reflexivity.
  Qed.
  Lemma acquire_slow_phases st n :
    acquire_slow dirty st n =
    do st1 <- (if (cur_cap st =? 0)%N then
                 let m0 := stat_max (buckets st) in
                 let m0 := if (m0 <? bufsz)%N then bufsz else m0 in
                 match double_until (loop_fuel n) m0 n with
                 | None => Err E_FUEL
                 | Some m => let '(h, id) := new_block dirty (nocache st) (store st) m in
                             Ok (with_mem st h (Some (id, 0%N)) (pend st))
                 end
               else Ok st);
    h_grow st1 n.
  Proof. reflexivity. Qed.

  Theorem g_w_acquireSlow_sim st (n : N) st' :
    Inv st -> wsmall st -> (n < 2 ^ 59)%N -> acquire_slow dirty st n = Ok st' ->
    g_bufiox_DefaultWriter_acquireSlow sinkst nat byt mal fuel false
      (w_buf (conc st)) (w_pend (conc st)) (w_wd (conc st)) (w_err (conc st)) (w_bk (conc st)) (w_bi (conc st)) (w_nc (conc st))
      (Z.of_N n) (length (store st))
    = Ok (wret (conc st'), length (store st')).
  Proof.
    intros HI (Hcap & Hbs & Hbl & Hbi) Hn H.
    rewrite g_w_acquireSlow_unfold. rewrite conc_cap. rewrite acquire_slow_phases in H.
    destruct (N.eqb_spec (cur_cap st) 0) as [H0|H0]; destruct (Z.eqb_spec (Z.of_N (cur_cap st)) 0); try lia.
    - (* the first buffer *)
      destruct (cap0_facts _ HI H0) as (Hl0 & Hp0 & _ & _).
      cbn [conc w_bk w_bi w_pend w_wd w_err w_nc]. rewrite w_maxSize_eq. cbn [bind].
      cbv zeta in H. set (sm := stat_max (buckets st)) in *.
      assert (Hsm : (sm < 2 ^ 59)%N).
      { unfold sm, stat_max. clear - Hbs. assert (G : forall acc, (acc < 2 ^ 59)%N ->
          (fold_left (fun m s => if (m <? s)%N then s else m) (buckets st) acc < 2 ^ 59)%N).
        { induction Hbs as [|x r Hx Hr IH]; intros acc Ha; cbn [fold_left]; [exact Ha|]. apply IH. destruct (N.ltb_spec acc x); lia. }
        apply G. lia. }
      rewrite w_bufsz_val in H.
      set (m0 := if (sm <? 4096)%N then 4096%N else sm) in *.
      assert (Hm0 : (0 < m0 < 2 ^ 59)%N) by (unfold m0; destruct (N.ltb_spec sm 4096); lia).
      destruct (double_until (loop_fuel n) m0 n) as [m|] eqn:Ed; [|discriminate].
      destruct (w_double_until_bounds _ _ _ _ Ed) as (Hd1 & Hd2 & Hd3).
      assert (Hf : (loop_fuel n <= 60)%nat) by (apply (w_loop_fuel_le n 59); cbn; lia).
      match goal with |- context [if Z.of_N sm <? 4096 then ?A else ?B] =>
        match eval pattern (Z.of_N sm) in B with ?F _ =>
          rewrite (if_same_fun (Z.of_N sm <? 4096) 4096 (Z.of_N sm) (Z.of_N m0) F) by
            (unfold m0; destruct (Z.ltb_spec (Z.of_N sm) 4096); destruct (N.ltb_spec sm 4096); lia)
        end
      end. cbv beta.
      rewrite (w_loop1 byt mal fuel n (loop_fuel n) fuel m0 m) by (try lia; exact Ed). cbn [bind].
      unfold new_block, alloc in H. cbn [bind] in H.
      set (blk := mkbuf (if nocache st then m else pow2ceil m) (dirty (length (store st)))) in *.
      set (st1 := with_mem st (store st ++ [blk]) (Some (length (store st), 0%N)) (pend st)) in *.
      assert (Hlb : len blk = if nocache st then m else pow2ceil m) by (unfold blk; apply len_mkbuf).
      pose proof (pow2ceil_ge m) as Hp1. pose proof (w_pow2ceil_lt m) as Hp2.
      assert (Hb : (m <= len blk < 2 ^ 62)%N) by (rewrite Hlb; destruct (nocache st); lia).
      assert (Hcap1 : cur_cap st1 = len blk).
      { unfold cur_cap, st1. cbn [with_mem cur store]. rewrite block_alloc_new. reflexivity. }
      assert (Hlen1 : cur_len st1 = 0%N) by reflexivity.
      assert (Hch1 : chain (store st1) (pend st1) 0 (length (store st)) 0).
      { unfold st1. cbn [with_mem store pend]. rewrite Hp0. cbn [chain]. rewrite block_alloc_new, app_length. cbn [length]. lia. }
      pose proof (w_grow_sim st1 n st' (length (store st)) 0%N eq_refl Hch1
                    ltac:(rewrite Hcap1; lia) ltac:(rewrite Hcap1, Hlen1; lia) Hn H) as G.
      unfold st1 in G. cbn [with_mem store sink werr buckets bidx nocache pend] in G.
      unfold cs_of in G. cbn [fst snd] in G. rewrite block_alloc_new in G.
      rewrite app_length in G. cbn [length] in G. rewrite Nat.add_1_r in G.
      rewrite Hp0 in G. cbn [pend_of] in G.
      rewrite Hp0. cbn [pend_of].
      destruct (nocache st) eqn:Hnc.
      + unfold w_bytes at 1. cbn [bind]. rewrite N2Z.id. exact G.
      + unfold w_malloc at 1. cbn [bind]. replace (Z.to_N (Z.max 0 (Z.of_N m))) with m by lia. exact G.
    - (* a buffer exists *)
      cbn [bind] in H. destruct (cur st) as [[c l]|] eqn:Hcur; [|unfold cur_cap in H0; rewrite Hcur in H0; lia].
      pose proof (inv_chain _ HI) as Hch. rewrite Hcur in Hch.
      pose proof (w_grow_sim st n st' c l Hcur Hch ltac:(lia) ltac:(lia) Hn H) as G.
      unfold conc. rewrite Hcur. cbn [w_buf w_pend w_wd w_err w_bk w_bi w_nc]. exact G.
  Qed.
End WSim.

(* ---------- Flush, phase by phase (receiver not nil) ---------- *)
Section WFlushMirror.
  Context {M : Type}.
  Variable fr : M -> gcslice -> res M.
  Notation floop1 := (g_bufiox_DefaultWriter_Flush_loop1 sinkst wd_write M fr).
  Notation floop2 := (g_bufiox_DefaultWriter_Flush_loop2 sinkst wd_write M fr).

  Lemma g_w_Flush_unfold (mst : M) buf pend wd (err : gerror) bk bi (nc : bool) :
    g_bufiox_DefaultWriter_Flush sinkst wd_write M fr false buf pend wd err bk bi nc mst =
    if negb (is_nil err) then Ok (buf, pend, wd, err, bk, bi, nc, mst, err)
    else if gcs_is_nil buf then Ok (buf, pend, wd, err, bk, bi, nc, mst, gnil)
    else
      do t3 <- floop1 false (gcsl_items pend) 0 buf 0;
      match t3 with
      | inr r => Ok r
      | inl (buf', offset) =>
        do (wd', t5, t6) <- wd_write wd (gcs_bytes buf');
        if negb (is_nil t6) then Ok (buf', pend, wd', t6, bk, bi, nc, mst, t6)
        else
          do (bk', bi') <- g_bufiox_maxSizeStats_update false bk bi (gcs_cap buf');
          let K := fun mst' => Ok (gcs_nil, gcsl_nil, wd', err, bk', bi', nc, mst', gnil) in
          let P := fun mst1 =>
            if negb (gcsl_is_nil pend) then
              do t7 <- floop2 (gcsl_items pend) 0 mst1;
              match t7 with inr r => Ok r | inl mst2 => K mst2 end
            else K mst1 in
          if negb nc then
            if gcs_cap buf' >? 0 then do mst1 <- fr mst buf'; P mst1 else P mst
          else K mst
      end.
  Proof. reflexivity. Qed.
End WFlushMirror.

(* ---------- the operations ---------- *)
(* the blocks of the parked buffers are not touched by a store into the current block *)
Lemma map_cs_of_write h c p v pd : ~ In c (map fst pd) -> map (cs_of (write h (c, p) v)) pd = map (cs_of h) pd.
Proof.
  intros H. apply map_ext_in. intros q Hq. unfold cs_of. rewrite block_write_ne; [reflexivity|].
  intros E. apply H. rewrite <- E. apply in_map. exact Hq.
Qed.
Lemma pend_of_write h c p v pd : ~ In c (map fst pd) -> pend_of (write h (c, p) v) pd = pend_of h pd.
Proof. intros H. unfold pend_of. destruct pd; [reflexivity|]. rewrite map_cs_of_write by exact H. reflexivity. Qed.

Lemma chain_notin h pd : forall from c l, chain h pd from c l -> ~ In c (map fst pd).
Proof. intros from c l H Hin. destruct (chain_in _ _ _ _ _ _ H Hin) as [_ Hne]. congruence. Qed.

Section WOps.
  Variable dirty : nat -> bytes.
  Variable fuel : nat.
  Hypothesis fuel64 : (64 < fuel)%nat.
  Notation byt := (w_bytes dirty).
  Notation mal := (w_malloc dirty).

  Notation gAcquire st n := (g_bufiox_DefaultWriter_acquire sinkst nat byt mal fuel false
      (w_buf (conc st)) (w_pend (conc st)) (w_wd (conc st)) (w_err (conc st)) (w_bk (conc st)) (w_bi (conc st)) (w_nc (conc st))
      n (length (store st))).
  Notation gMalloc st n := (g_bufiox_DefaultWriter_Malloc sinkst nat byt mal fuel false
      (w_buf (conc st)) (w_pend (conc st)) (w_wd (conc st)) (w_err (conc st)) (w_bk (conc st)) (w_bi (conc st)) (w_nc (conc st))
      n (length (store st))).
  Notation gWriteBinary st bs := (g_bufiox_DefaultWriter_WriteBinary sinkst nat byt mal fuel false
      (w_buf (conc st)) (w_pend (conc st)) (w_wd (conc st)) (w_err (conc st)) (w_bk (conc st)) (w_bi (conc st)) (w_nc (conc st))
      bs (length (store st))).
  Notation gFlush st := (g_bufiox_DefaultWriter_Flush sinkst wd_write nat w_free false
      (w_buf (conc st)) (w_pend (conc st)) (w_wd (conc st)) (w_err (conc st)) (w_bk (conc st)) (w_bi (conc st)) (w_nc (conc st))
      (length (store st))).
  Notation gWrittenLen st := (g_bufiox_DefaultWriter_WrittenLen sinkst false
      (w_buf (conc st)) (w_pend (conc st)) (w_wd (conc st)) (w_err (conc st)) (w_bk (conc st)) (w_bi (conc st)) (w_nc (conc st))).

  (* acquire(n) *)
  Theorem g_w_acquire_sim st (n : N) st' :
    Inv st -> wsmall st -> (n < 2 ^ 59)%N -> acquire dirty st n = Ok st' ->
    gAcquire st (Z.of_N n) = Ok (wret (conc st'), length (store st')).
  Proof.
    intros HI Hsm Hn H. unfold g_bufiox_DefaultWriter_acquire. cbn [gptr_check bind].
    rewrite conc_len, conc_cap. pose proof (len_le_cap _ HI) as Hle. pose proof Hsm as (Hc & _).
    rewrite wraps64_id by lia. unfold acquire in H.
    destruct (Z.leb_spec (Z.of_N (cur_len st) + Z.of_N n) (Z.of_N (cur_cap st))); destruct (N.leb_spec (cur_len st + n) (cur_cap st)); try lia.
    - inversion H; subst. reflexivity.
    - rewrite (g_w_acquireSlow_sim dirty fuel fuel64 st n st' HI Hsm Hn H). reflexivity.
  Qed.

  (* WrittenLen() *)
  Theorem g_w_WrittenLen_eq st : gWrittenLen st = Ok (wret (conc st), Z.of_N (written_len st)).
  Proof. unfold g_bufiox_DefaultWriter_WrittenLen. cbn [gptr_check bind]. rewrite conc_len. reflexivity. Qed.

  (* Malloc(n): the sticky error, a negative count, and the regular case *)
  Theorem g_w_Malloc_err st n e : werr st = Some e ->
    gMalloc st n = Ok (wret (conc st), length (store st), [], Some e).
  Proof.
    intros He. unfold g_bufiox_DefaultWriter_Malloc, wret. cbn [conc w_buf w_pend w_wd w_err w_bk w_bi w_nc]. rewrite He.
    cbn [gptr_check bind is_nil negb]. reflexivity.
  Qed.

  Theorem g_w_Malloc_neg st n : werr st = None -> n < 0 ->
    gMalloc st n = Ok (wret (conc st), length (store st), [], Some (ecode "bufiox.errNegativeCount")).
  Proof.
    intros He Hn. unfold g_bufiox_DefaultWriter_Malloc, wret. cbn [conc w_buf w_pend w_wd w_err w_bk w_bi w_nc]. rewrite He.
    cbn [gptr_check bind is_nil negb]. destruct (Z.ltb_spec n 0); [reflexivity|lia].
  Qed.

  Theorem g_w_Malloc_sim st n st' r :
    Inv st -> wsmall st -> 0 <= n < 2 ^ 59 -> werr st = None -> malloc dirty st n = Ok (st', r) ->
    gMalloc st n = Ok (wret (conc st'), length (store st'),
                       take (rlen r) (drop (roff r) (block (store st') (rid r))), None).
  Proof.
    intros HI Hsm Hn He H. unfold malloc in H. rewrite He in H.
    destruct (Z.ltb_spec n 0); [lia|].
    destruct (acquire dirty st (Z.to_N n)) as [st1| | |] eqn:Eacq; cbn [bind] in H; try discriminate.
    destruct (acquire_ok dirty st (Z.to_N n) HI) as (st1' & E1 & HP & _). rewrite Eacq in E1. inversion E1; subst st1'.
    destruct HP as (HI1 & _ & Hlen1 & Hroom & _). pose proof (len_le_cap _ HI) as Hle0. pose proof Hsm as (Hcap0 & _).
    unfold g_bufiox_DefaultWriter_Malloc. change (w_err (conc st)) with (werr st). rewrite He.
    cbn [gptr_check bind is_nil negb]. destruct (Z.ltb_spec n 0); [lia|].
    pose proof (g_w_acquire_sim st (Z.to_N n) st1 HI Hsm ltac:(lia) Eacq) as G. rewrite Z2N.id in G by lia.
    change (w_err (conc st)) with (werr st) in G. rewrite He in G.
    rewrite G. unfold wret. cbn [bind gptr_check gptr_set].
    pose proof (len_le_cap _ HI1) as Hle1.
    destruct (N.leb_spec (cur_len st1 + Z.to_N n) (cur_cap st1)); [|lia].
    rewrite conc_len. pose proof (conc_cap st1) as Hcc.
    destruct (cur st1) as [[c l]|] eqn:Hcur.
    - inversion H; subst st' r; clear H.
      unfold cur_len, cur_cap in *. rewrite Hcur in *.
      assert (Hb : w_buf (conc st1) = Some (block (store st1) c, Z.of_N l)) by (unfold conc; rewrite Hcur; reflexivity).
      rewrite Hb in *. rewrite gcs_cap_some in Hcc. unfold glen in Hcc.
      rewrite wraps64_id by lia.
      rewrite gcs_slice_some by (unfold glen; lia). cbn [bind].
      rewrite gcs_slice_some by (unfold glen; lia). cbn [bind].
      change (drop (Z.to_N 0) ?x) with x. rewrite gcs_bytes_some.
      replace (Z.to_N (Z.of_N l + n - Z.of_N l)) with (Z.to_N n) by lia. rewrite N2Z.id.
      cbn [rlen roff rid with_live with_mem store].
      unfold conc. cbn [with_live with_mem cur store pend werr nocache buckets bidx sink w_buf w_pend w_wd w_err w_bk w_bi w_nc].
      unfold cs_of. cbn [fst snd]. replace (Z.of_N l + n - 0) with (Z.of_N (l + Z.to_N n)) by lia. reflexivity.
    - inversion H; subst st' r; clear H. unfold cur_len, cur_cap in *. rewrite Hcur in *.
      assert (n = 0) by lia. subst n.
      assert (Hb : w_buf (conc st1) = None) by (unfold conc; rewrite Hcur; reflexivity).
      rewrite Hb. cbn. unfold conc. cbn [with_live cur store pend werr nocache buckets bidx sink]. rewrite Hcur. reflexivity.
  Qed.
  (* WriteBinary(bs) *)
  Theorem g_w_WriteBinary_err st bs e : werr st = Some e ->
    gWriteBinary st bs = Ok (wret (conc st), length (store st), 0, Some e).
  Proof.
    intros He. unfold g_bufiox_DefaultWriter_WriteBinary, wret. cbn [conc w_buf w_pend w_wd w_err w_bk w_bi w_nc]. rewrite He.
    cbn [gptr_check bind is_nil negb]. reflexivity.
  Qed.

  Theorem g_w_WriteBinary_sim st (bs : bytes) st' k :
    Inv st -> wsmall st -> (len bs < 2 ^ 59)%N -> werr st = None -> write_binary dirty st bs = Ok (st', k) ->
    gWriteBinary st bs = Ok (wret (conc st'), length (store st'), Z.of_N k, None).
  Proof.
    intros HI Hsm Hn He H. unfold write_binary in H. rewrite He in H.
    destruct (acquire dirty st (len bs)) as [st1| | |] eqn:Eacq; cbn [bind] in H; try discriminate.
    destruct (acquire_ok dirty st (len bs) HI) as (st1' & E1 & HP & _). rewrite Eacq in E1. inversion E1; subst st1'.
    destruct HP as (HI1 & _ & Hlen1 & Hroom & _). pose proof (len_le_cap _ HI) as Hle0. pose proof Hsm as (Hcap0 & _).
    unfold g_bufiox_DefaultWriter_WriteBinary. change (w_err (conc st)) with (werr st). rewrite He.
    cbn [gptr_check bind is_nil negb].
    pose proof (g_w_acquire_sim st (len bs) st1 HI Hsm Hn Eacq) as G.
    change (w_err (conc st)) with (werr st) in G. rewrite He in G. unfold glen. rewrite G. unfold wret. cbn [bind gptr_check gptr_set].
    rewrite conc_len, conc_cap.
    destruct (cur st1) as [[c l]|] eqn:Hcur.
    - inversion H; subst st' k; clear H.
      unfold cur_len, cur_cap in *. rewrite Hcur in *.
      assert (Hb : w_buf (conc st1) = Some (block (store st1) c, Z.of_N l)) by (unfold conc; rewrite Hcur; reflexivity).
      rewrite Hb. pose proof (inv_chain _ HI1) as Hch. rewrite Hcur in Hch.
      pose proof (chain_cur _ _ _ _ _ Hch) as [Hl Hc]. pose proof (chain_notin _ _ _ _ _ Hch) as Hni.
      rewrite gcs_copy_some by (unfold glen; lia). cbn [bind].
      set (blk := block (store st1) c) in *.
      replace (N.min (len bs) (Z.to_N (Z.of_N (len blk) - Z.of_N l))) with (N.min (len blk - l) (len bs)) by lia.
      set (m := N.min (len blk - l) (len bs)).
      rewrite gcs_len_some, N2Z.id. rewrite wraps64_id by lia.
      assert (Hlm : len (take l blk ++ take m bs ++ drop (l + m) blk)%list = len blk).
      { rewrite !len_app, !len_take, len_drop. lia. }
      rewrite gcs_slice_some by (unfold glen; try rewrite Hlm; lia). cbn [bind].
      change (set_nth c (splice blk l (take m bs)) (store st1)) with (write (store st1) (c, l) (take m bs)).
      change (drop (Z.to_N 0) ?x) with x.
      unfold conc. cbn [with_mem cur store pend werr nocache buckets bidx sink w_buf w_pend w_wd w_err w_bk w_bi w_nc].
      rewrite length_write, pend_of_write by exact Hni.
      unfold cs_of. cbn [fst snd]. rewrite block_write_eq by exact Hc. fold blk.
      unfold psplice. assert (Hlt : len (take m bs) = m) by (rewrite len_take; lia). rewrite Hlt.
      replace (Z.of_N l + Z.of_N m - 0) with (Z.of_N (l + m)) by lia. reflexivity.
    - inversion H; subst st' k; clear H. unfold cur_len, cur_cap in *. rewrite Hcur in *.
      assert (Hb : w_buf (conc st1) = None) by (unfold conc; rewrite Hcur; reflexivity).
      rewrite Hb. replace (N.min (0 - 0) (len bs)) with 0%N by lia. reflexivity.
  Qed.
End WOps.

(* ---------- Flush ---------- *)
Notation floop1 := (g_bufiox_DefaultWriter_Flush_loop1 sinkst wd_write nat w_free).
Notation floop2 := (g_bufiox_DefaultWriter_Flush_loop2 sinkst wd_write nat w_free).

Lemma w_free_loop (xs : list gcslice) : forall i k, floop2 xs i k = Ok (inl k).
Proof. induction xs as [|x r IH]; intros i k; cbn [g_bufiox_DefaultWriter_Flush_loop2]; [reflexivity|]. cbn [w_free bind]. apply IH. Qed.

(* the copy loop of Flush is the model's stitch: only the current block changes *)
Lemma w_stitch_sim (h0 : heap) c l : forall pd h off h' off' i,
  (c < length h)%nat -> (forall b, b <> c -> block h b = block h0 b) ->
  Forall (fun p => fst p <> c /\ (snd p <= len (block h0 (fst p)))%N) pd ->
  (l <= len (block h c))%N -> (len (block h c) < 2 ^ 62)%N ->
  stitch h pd c l off = Ok (h', off') ->
  floop1 false (map (cs_of h0) pd) i (Some (block h c, Z.of_N l)) (Z.of_N off)
  = Ok (inl (Some (block h' c, Z.of_N l), Z.of_N off')) /\
  length h' = length h /\ (forall b, b <> c -> block h' b = block h0 b) /\ len (block h' c) = len (block h c).
Proof.
  induction pd as [|[ob ol] rest IH]; intros h off h' off' i Hc Hag Hpd Hl Hcap H; cbn [stitch map] in *.
  - inversion H; subst. cbn [g_bufiox_DefaultWriter_Flush_loop1]. auto.
  - inversion Hpd as [|? ? [Hne Hol] Hrest]; subst. cbn [fst snd] in *.
    destruct (N.leb_spec off l); cbn [andb] in H; [|discriminate].
    destruct (N.leb_spec off ol); [|discriminate].
    cbn [g_bufiox_DefaultWriter_Flush_loop1 gptr_check bind]. unfold cs_of at 1 2. cbn [fst snd].
    rewrite gcs_len_some. rewrite gcs_slice_some by (unfold glen; lia). cbn [bind].
    rewrite gcs_bytes_some. replace (Z.to_N (Z.of_N ol - Z.of_N off)) with (ol - off)%N by lia. rewrite N2Z.id.
    rewrite gcs_len_some. rewrite gcs_copy_some by (unfold glen; lia). cbn [bind].
    set (blk := block h c) in *. set (v := take (ol - off) (drop off (block h0 ob))).
    assert (Hv : len v = (ol - off)%N) by (unfold v; rewrite len_take, len_drop; lia).
    set (m := N.min (l - off) (ol - off)) in *.
    replace (N.min (len v) (Z.to_N (Z.of_N l - Z.of_N off))) with m by lia.
    rewrite N2Z.id. rewrite wraps64_id by lia.
    set (data := take m (drop off (block h ob))) in *.
    assert (Hdata : take m v = data).
    { unfold data, v. rewrite (Hag ob Hne). unfold take. rewrite firstn_firstn. f_equal. lia. }
    rewrite Hdata.
    assert (Hld : len data = m) by (unfold data; rewrite (Hag ob Hne), len_take, len_drop; lia).
    assert (Hblk1 : block (write h (c, off) data) c = (take off blk ++ data ++ drop (off + m) blk)%list).
    { rewrite block_write_eq by exact Hc. fold blk. unfold psplice. rewrite Hld. reflexivity. }
    assert (Hlen1 : len (block (write h (c, off) data) c) = len blk).
    { rewrite block_write_eq by exact Hc. fold blk. apply len_psplice. lia. }
    destruct (IH (write h (c, off) data) (off + m)%N h' off' (i + 1)) as (E & L & A & B).
    + rewrite length_write. exact Hc.
    + intros b Hb. rewrite block_write_ne by exact Hb. apply Hag, Hb.
    + exact Hrest.
    + rewrite Hlen1. exact Hl.
    + rewrite Hlen1. exact Hcap.
    + exact H.
    + rewrite Hblk1 in E. replace (Z.of_N off + Z.of_N m) with (Z.of_N (off + m)) by lia.
      split; [exact E|]. split; [rewrite L; apply length_write|]. split; [exact A|]. rewrite B. exact Hlen1.
Qed.

Lemma chain_forall h pd : forall from c l, chain h pd from c l ->
  Forall (fun p => fst p <> c /\ (snd p <= len (block h (fst p)))%N) pd.
Proof.
  induction pd as [|[b lb] rest IH]; intros from c l H; cbn [chain] in H; [constructor|].
  destruct H as (_ & H2 & _ & H4 & _ & H6). constructor; [cbn [fst snd]; auto|eapply IH; exact H6].
Qed.

Lemma pend_of_agree h h0 c pd : (forall b, b <> c -> block h b = block h0 b) -> ~ In c (map fst pd) ->
  pend_of h pd = pend_of h0 pd.
Proof.
  intros Hag Hni. unfold pend_of. destruct pd as [|p r]; [reflexivity|]. f_equal. apply map_ext_in. intros q Hq.
  unfold cs_of. rewrite Hag; [reflexivity|]. intros E. apply Hni. rewrite <- E. apply in_map. exact Hq.
Qed.

Section WFlush.

  Notation gFlush st := (g_bufiox_DefaultWriter_Flush sinkst wd_write nat w_free false
      (w_buf (conc st)) (w_pend (conc st)) (w_wd (conc st)) (w_err (conc st)) (w_bk (conc st)) (w_bi (conc st)) (w_nc (conc st))
      (length (store st))).

  Theorem g_w_Flush_sim st st' e wr :
    Inv st -> wsmall st -> flush st = Ok (st', e, wr) ->
    gFlush st = Ok (wret (conc st'), length (store st'), e).
  Proof.
    intros HI (Hcap & Hbs & Hbl & Hbi) H. rewrite g_w_Flush_unfold. unfold flush in H.
    change (w_err (conc st)) with (werr st).
    destruct (werr st) as [e0|] eqn:He; cbn [is_nil negb].
    { inversion H; subst st' e wr. unfold wret. cbn [conc w_buf w_pend w_wd w_err w_bk w_bi w_nc]. rewrite He. reflexivity. }
    destruct (cur st) as [[c l]|] eqn:Hcur.
    2:{ inversion H; subst st' e wr. assert (Hb : w_buf (conc st) = None) by (unfold conc; rewrite Hcur; reflexivity).
        rewrite Hb. cbn [gcs_is_nil]. unfold wret. rewrite Hb. cbn [conc w_err]. rewrite He. reflexivity. }
    assert (Hb : w_buf (conc st) = Some (block (store st) c, Z.of_N l)) by (unfold conc; rewrite Hcur; reflexivity).
    rewrite Hb. cbn [gcs_is_nil].
    pose proof (inv_chain _ HI) as Hch. rewrite Hcur in Hch.
    pose proof (chain_cur _ _ _ _ _ Hch) as [Hl Hc]. pose proof (chain_notin _ _ _ _ _ Hch) as Hni.
    destruct (stitch (store st) (pend st) c l 0) as [[h off]| | |] eqn:Est; cbn [bind fst] in H; try discriminate.
    unfold cur_cap in Hcap. rewrite Hcur in Hcap.
    destruct (w_stitch_sim (store st) c l (pend st) (store st) 0%N h off 0 Hc (fun b _ => eq_refl)
                (chain_forall _ _ _ _ _ Hch) Hl ltac:(lia) Est) as (E & Lh & Ah & Bh).
    change (w_pend (conc st)) with (pend_of (store st) (pend st)). rewrite pend_of_items.
    change (Z.of_N 0) with 0 in E. rewrite E. cbn [bind].
    rewrite gcs_bytes_some, N2Z.id.
    set (content := take l (block h c)) in *.
    change (w_wd (conc st)) with (ksink (sink st)).
    rewrite wd_write_eq.
    destruct (sink_write_ksink (sink st) (O, 0%N) (c, l) content) as [Ek Ee].
    destruct (sink_write (ksink (sink st)) (O, 0%N) content) as [kg eg].
    destruct (sink_write (sink st) (c, l) content) as [k' e1]. cbn [fst snd] in Ek, Ee. subst eg.
    cbn [fst snd bind].
    assert (Hpend : pend_of h (pend st) = pend_of (store st) (pend st)) by (apply (pend_of_agree h (store st) c); assumption).
    destruct e1 as [e1|]; cbn [is_nil negb].
    - (* the sink fails: the error is recorded *)
      inversion H; subst st' e wr; clear H.
      unfold conc, wret. cbn [cur store pend werr nocache buckets bidx sink w_buf w_pend w_wd w_err w_bk w_bi w_nc].
      rewrite Hpend, Ek, Lh. reflexivity.
    - (* the sink accepts: statistics, frees, the buffers are dropped *)
      rewrite gcs_cap_some. unfold glen. change (w_bk (conc st)) with (map Z.of_N (buckets st)).
      change (w_bi (conc st)) with (Z.of_N (bidx st)).
      rewrite w_update_eq by assumption. cbn [bind].
      destruct (stat_update (buckets st) (bidx st) (len (block h c))) as [bk' bi'] eqn:Eu. cbn [fst snd].
      inversion H; subst st' e wr; clear H.
      cbv zeta. change (w_nc (conc st)) with (nocache st). rewrite ?w_free_loop. cbn [w_free bind]. rewrite ?w_free_loop. cbn [bind].
      assert (R : Ok (gcs_nil, gcsl_nil, ksink kg, (None : gerror), map Z.of_N bk', Z.of_N bi', nocache st, length (store st), gnil)
                  = Ok (wret (conc (mkw h None [] None (nocache st) bk' bi' k' [] (nstale st + length (live st))
                                        (freed st ++ (if nocache st then [] else
                                           (if (0 <? len (block h c))%N then free1 h c else []) ++ flat_map (fun p => free1 h (fst p)) (pend st))))),
                         length h, (None : gerror))).
      { unfold conc, wret. cbn [cur store pend werr nocache buckets bidx sink w_buf w_pend w_wd w_err w_bk w_bi w_nc pend_of].
        rewrite Ek, Lh. reflexivity. }
      destruct (nocache st); cbn [negb]; [exact R|].
      destruct (Z.of_N (len (block h c)) >? 0); destruct (gcsl_is_nil (pend_of (store st) (pend st))); cbn [negb]; exact R.
  Qed.
End WFlush.

(* ---------- reset: the states the constructors build ---------- *)
Theorem g_w_reset_eq (w0 : gw) (k : sinkst) (b : gcslice) (dc : bool) :
  g_bufiox_DefaultWriter_reset sinkst false (w_buf w0) (w_pend w0) (w_wd w0) (w_err w0) (w_bk w0) (w_bi w0) (w_nc w0) k b dc
  = Ok (wret (mkgw b gcsl_nil k gnil (repeat 0 10) 0 dc)).
Proof. reflexivity. Qed.

(* NewDefaultWriter(wd): reset(wd, nil, false) *)
Lemma conc_new_writer failk : conc (new_writer failk) = mkgw gcs_nil gcsl_nil (mksink false [] 0 failk None) gnil (repeat 0 10) 0 false.
Proof. reflexivity. Qed.

(* NewBytesWriter(&t): reset(fakeIOWriter, *t, true) *)
Lemma conc_new_bytes_writer_nil : conc (new_bytes_writer None) = mkgw gcs_nil gcsl_nil (mksink true [] 0 0 None) gnil (repeat 0 10) 0 true.
Proof. reflexivity. Qed.
Lemma conc_new_bytes_writer (contents : bytes) (l : N) :
  conc (new_bytes_writer (Some (contents, l))) = mkgw (Some (contents, Z.of_N l)) gcsl_nil (mksink true [] 0 0 None) gnil (repeat 0 10) 0 true.
Proof. reflexivity. Qed.
