(* Proofs/FastCodecLib.v — the switch key of the generated FastRead, and the single-field readers
   of Model/FastCodec.v on well-formed input (C11). *)
From GV Require Import Lib.Bytes Lib.Res Gen.Consts Model.Binary Spec.Wire Model.Skip Model.Nocopy Model.FastCodec
                       Spec.FastSpec Spec.FastRead Proofs.BinaryP Proofs.NocopyLib.
From Coq Require Import ZifyN ZifyNat ZifyBool.
Open Scope N_scope.

(* ---------- uint32(fid)<<8 | uint32(ftyp) ---------- *)
Lemma land_low a t : t < 256 -> N.land (a * 256) t = 0.
Proof.
  intros Ht. apply N.bits_inj. intros n. rewrite N.land_spec, N.bits_0.
  destruct (N.ltb_spec n 8).
  - change 256 with (2 ^ 8). rewrite N.mul_pow2_bits_low by exact H. reflexivity.
  - destruct (N.eqb_spec t 0) as [->|Hz]; [now rewrite N.bits_0, andb_false_r|].
    rewrite (N.bits_above_log2 t n); [apply andb_false_r|].
    assert (N.log2 t < 8) by (apply N.log2_lt_pow2; [lia|exact Ht]). lia.
Qed.

Lemma lor_low a t : t < 256 -> N.lor (a * 256) t = a * 256 + t.
Proof. intros Ht. rewrite <- N.lxor_lor, <- N.add_nocarry_lxor; auto using land_low. Qed.

Lemma shl8_mod32 x : (x * 256) mod two32 = (x mod 16777216) * 256.
Proof. unfold two32. change 4294967296 with (16777216 * 256). apply N.mul_mod_distr_r; lia. Qed.

Lemma sw_key_nonneg fid ftyp :
  (0 <= ftyp < 128)%Z -> sw_key fid ftyp = (u32 fid mod 16777216) * 256 + Z.to_N ftyp.
Proof.
  intros H. unfold sw_key. rewrite shl8_mod32.
  assert (E : u32 ftyp = Z.to_N ftyp) by (apply u32_nonneg; lia).
  rewrite E. apply lor_low. lia.
Qed.

Lemma u32_neg z : (- 4294967296 <= z < 0)%Z -> u32 z = Z.to_N (z + 4294967296).
Proof.
  intros H. unfold u32, to_unsigned. change (2 ^ 32) with 4294967296. f_equal.
  change (Z.of_N 4294967296) with 4294967296%Z.
  rewrite <- (Z.mod_add z 1) by lia. rewrite Z.mod_small; lia.
Qed.

Lemma sw_key_neg_bit fid ftyp : (-128 <= ftyp < 0)%Z -> N.testbit (sw_key fid ftyp) 31 = true.
Proof.
  intros H. unfold sw_key. rewrite N.lor_spec.
  assert (E : N.testbit (u32 ftyp) 31 = true).
  { apply N.testbit_true. rewrite u32_neg by lia.
    replace (Z.to_N (ftyp + 4294967296) / 2 ^ 31) with 1; [reflexivity|].
    change (2 ^ 31) with 2147483648.
    apply (N.div_unique _ _ _ (Z.to_N (ftyp + 2147483648))); lia. }
  rewrite E. apply orb_true_r.
Qed.

Lemma small_bit31 c : c < 2147483648 -> N.testbit c 31 = false.
Proof.
  intros H. destruct (N.eqb_spec c 0) as [->|Hz]; [apply N.bits_0|].
  apply N.bits_above_log2. apply N.log2_lt_pow2; [lia|exact H].
Qed.

(* the switch key identifies (field id, type) exactly, sign extension included *)
Lemma sw_key_decode fid ftyp cid cty :
  in_signed 16 fid -> in_signed 8 ftyp -> (0 <= cid < 32768)%Z -> (0 <= cty < 128)%Z ->
  (Z.of_N (sw_key fid ftyp) =? cid * 256 + cty)%Z = ((fid =? cid) && (ftyp =? cty))%Z.
Proof.
  unfold in_signed. change (Z.of_N (2 ^ (16 - 1))) with 32768%Z. change (Z.of_N (2 ^ (8 - 1))) with 128%Z.
  intros Hf Ht Hc Hy.
  destruct (Z.ltb_spec ftyp 0) as [Hneg|Hpos].
  - (* negative type byte: bit 31 of the key is set, no case constant has it *)
    replace ((fid =? cid) && (ftyp =? cty))%Z with false by (destruct (Z.eqb_spec ftyp cty); [lia|symmetry; apply andb_false_r]).
    destruct (Z.eqb_spec (Z.of_N (sw_key fid ftyp)) (cid * 256 + cty)) as [E|]; [|reflexivity].
    exfalso. pose proof (sw_key_neg_bit fid ftyp ltac:(lia)) as B.
    replace (sw_key fid ftyp) with (Z.to_N (cid * 256 + cty)) in B by lia.
    rewrite small_bit31 in B by lia. discriminate.
  - rewrite sw_key_nonneg by lia.
    destruct (Z.ltb_spec fid 0) as [Hfn|Hfp].
    + replace ((fid =? cid) && (ftyp =? cty))%Z with false by (destruct (Z.eqb_spec fid cid); [lia|reflexivity]).
      rewrite u32_neg by lia.
      assert (E : Z.to_N (fid + 4294967296) mod 16777216 = Z.to_N (fid + 16777216)).
      { symmetry. apply (N.mod_unique _ _ 255); lia. }
      rewrite E. destruct (Z.eqb_spec (Z.of_N (Z.to_N (fid + 16777216) * 256 + Z.to_N ftyp)) (cid * 256 + cty)); [lia|reflexivity].
    + rewrite u32_nonneg by lia. rewrite N.mod_small by lia.
      destruct (Z.eqb_spec fid cid), (Z.eqb_spec ftyp cty); cbn [andb];
        destruct (Z.eqb_spec (Z.of_N (Z.to_N fid * 256 + Z.to_N ftyp)) (cid * 256 + cty)); try reflexivity; lia.
Qed.

(* ---------- conversions of the bytes of a field header ---------- *)
Lemma u8_i8 t : t < 256 -> u8 (i8 t) = t.
Proof. intros H. unfold u8, i8. apply unsigned_signed; [lia|exact H]. Qed.
Lemma i8_range t : t < 256 -> in_signed 8 (i8 t).
Proof. intros H. unfold i8. apply to_signed_range; [lia|exact H]. Qed.
Lemma i16_range x : x < 65536 -> in_signed 16 (i16 x).
Proof. intros H. unfold i16. apply to_signed_range; [lia|exact H]. Qed.
Lemma i8_small t : t < 128 -> i8 t = Z.of_N t.
Proof. intros H. unfold i8, to_signed. change (2 ^ (8 - 1)) with 128. destruct (N.ltb_spec t 128); [reflexivity|lia]. Qed.

(* ---------- slicing at the end of a prefix ---------- *)
Lemma slice_at {A} (pre r : list A) : slice_from (pre ++ r) (len pre) = Ok r.
Proof.
  unfold slice_from. rewrite len_app. destruct (N.leb_spec (len pre) (len pre + len r)); [|lia].
  now rewrite drop_app_len.
Qed.

(* ---------- ReadFieldBegin ---------- *)
Lemma r_field_begin_hdr t id r :
  in_signed 8 t -> in_signed 16 id -> t <> 0%Z ->
  r_field_begin (enc (IFieldBegin t id) ++ r) = Ok (t, id, 3).
Proof.
  intros Ht Hid Hnz. cbn [enc]. unfold r_field_begin.
  rewrite need_ok by (rewrite !len_app, be_len; change (len [u8 t]) with 1; lia). cbn [bind].
  change (nth 0 (([u8 t] ++ be 2 (u16 id)) ++ r) 0) with (u8 t). rewrite i8_u8 by exact Ht.
  change thrift_STOP with 0%Z. destruct (Z.eqb_spec t 0); [contradiction|].
  rewrite need_ok by (rewrite !len_app, be_len; change (len [u8 t]) with 1; lia). cbn [bind].
  rewrite <- app_assoc. change (drop 1 ([u8 t] ++ be 2 (u16 id) ++ r)) with (be 2 (u16 id) ++ r).
  rewrite take_be2, unbe_be2 by apply u16_lt. now rewrite i16_u16.
Qed.

Lemma r_field_begin_raw t id r :
  t < 256 -> id < 65536 -> t <> 0 ->
  r_field_begin (t :: be 2 id ++ r) = Ok (i8 t, i16 id, 3).
Proof.
  intros Ht Hid Hnz. unfold r_field_begin.
  rewrite need_ok by (rewrite len_cons; lia). cbn [bind nth].
  change thrift_STOP with 0%Z.
  assert (Hz : i8 t <> 0%Z).
  { unfold i8, to_signed. change (2 ^ (8 - 1)) with 128. change (2 ^ 8) with 256. destruct (N.ltb_spec t 128); lia. }
  destruct (Z.eqb_spec (i8 t) 0); [contradiction|].
  rewrite need_ok by (rewrite len_cons, len_app, be_len; lia). cbn [bind].
  change (drop 1 (t :: be 2 id ++ r)) with (be 2 id ++ r).
  rewrite take_be2, unbe_be2 by exact Hid. reflexivity.
Qed.

Lemma r_field_begin_stop r : r_field_begin (enc IFieldStop ++ r) = Ok (0%Z, 0%Z, 1).
Proof.
  cbn [enc app]. unfold r_field_begin. rewrite need_ok by (rewrite len_cons; lia). cbn [bind nth].
  reflexivity.
Qed.

(* ---------- the field readers on the encoding of their value ---------- *)
Lemma rd_string_into_enc {A} lbl (set : bytes -> A -> A) pre s r p :
  len s < two31 ->
  rd_string_into lbl set (pre ++ enc (IString s) ++ r) (len pre) (Some p) =
  Ok (Some (set s p), len pre + len (enc (IString s))).
Proof.
  intros H. unfold rd_string_into. rewrite slice_at. cbn [bind is_none enc].
  unfold r_string. rewrite <- app_assoc. rewrite r_binary_gen_enc by exact H. cbn [relabel bind upd].
  rewrite len_app, be_len. reflexivity.
Qed.

Lemma rd_i32_into_enc {A} lbl (set : Z -> A -> A) pre v r p :
  in_signed 32 v ->
  rd_i32_into lbl set (pre ++ enc (II32 v) ++ r) (len pre) (Some p) =
  Ok (Some (set v p), len pre + len (enc (II32 v))).
Proof.
  intros H. unfold rd_i32_into. rewrite slice_at. cbn [bind is_none enc].
  rewrite r_i32_enc by exact H. cbn [relabel bind upd]. rewrite be_len. reflexivity.
Qed.

Lemma minsert_assoc k v m : minsert k v m = assoc_set k v m.
Proof. induction m as [|[k' v'] r IH]; cbn [minsert assoc_set]; [reflexivity|]. now rewrite IH. Qed.

Definition entries_ok (l : list (bytes * bytes)) : bool :=
  forallb (fun kv => (len (fst kv) <? two31) && (len (snd kv) <? two31)) l.

Lemma rd_string_enc pre s r : len s < two31 ->
  rd_string (pre ++ enc (IString s) ++ r) (len pre) = Ok (s, len pre + len (enc (IString s))).
Proof.
  intros H. unfold rd_string. rewrite slice_at. cbn [bind enc]. unfold r_string.
  rewrite <- app_assoc, r_binary_gen_enc by exact H. cbn [bind]. rewrite len_app, be_len. reflexivity.
Qed.

Lemma rd_entries_enc l : forall fuel pre r m i,
  entries_ok l = true -> (length l < fuel)%nat ->
  rd_entries fuel (pre ++ enc_entries l ++ r) i (i + Z.of_N (len l))%Z (len pre) m =
  Ok (fold_left (fun m kv => assoc_set (fst kv) (snd kv) m) l m, len pre + len (enc_entries l)).
Proof.
  induction l as [|[k v] l IH]; intros fuel pre r m i Hok Hf.
  - destruct fuel as [|f]; [cbn [length] in Hf; lia|]. cbn [rd_entries].
    change (len (@nil (bytes * bytes))) with 0. rewrite Z.add_0_r, Z.leb_refl.
    unfold enc_entries. cbn [map concat fold_left]. change (len (@nil N)) with 0. now rewrite N.add_0_r.
  - destruct fuel as [|f]; [cbn [length] in Hf; lia|]. cbn [rd_entries].
    rewrite len_cons. destruct (Z.leb_spec (i + Z.of_N (1 + len l)) i); [lia|].
    cbn [entries_ok forallb fst snd] in Hok. apply andb_prop in Hok as [Hkv Hok].
    apply andb_prop in Hkv as [Hk Hv]. apply N.ltb_lt in Hk, Hv.
    unfold enc_entries. cbn [map concat]. fold (enc_entries l). unfold enc_entry. cbn [fst snd].
    rewrite <- !app_assoc.
    rewrite rd_string_enc by exact Hk. cbn [bind].
    replace (len pre + len (enc (IString k))) with (len (pre ++ enc (IString k))) by (rewrite len_app; reflexivity).
    rewrite (app_assoc pre (enc (IString k))).
    rewrite rd_string_enc by exact Hv. cbn [bind].
    replace (len (pre ++ enc (IString k)) + len (enc (IString v)))
      with (len ((pre ++ enc (IString k)) ++ enc (IString v))) by (rewrite !len_app; reflexivity).
    rewrite (app_assoc (pre ++ enc (IString k)) (enc (IString v))).
    replace (i + Z.of_N (1 + len l))%Z with ((i + 1) + Z.of_N (len l))%Z by lia.
    rewrite IH; [|exact Hok|cbn [length] in Hf; lia].
    cbn [fold_left fst snd]. rewrite minsert_assoc. f_equal. f_equal. rewrite !len_app. lia.
Qed.

Lemma enc_entries_len_ge l : 8 * len l <= len (enc_entries l).
Proof.
  unfold enc_entries. induction l as [|[k v] l IH]; cbn [map concat].
  - change (len (@nil (bytes * bytes))) with 0. lia.
  - rewrite len_cons, len_app. unfold enc_entry at 1. cbn [fst snd enc]. rewrite !len_app, !be_len. lia.
Qed.

Lemma rd_map_into_enc {A} lbl (set : smap -> A -> A) pre l r p :
  len l < two32 -> entries_ok l = true ->
  rd_map_into lbl set (pre ++ enc_strmap l ++ r) (len pre) (Some p) =
  Ok (Some (set (Some (map_of_entries l)) p), len pre + len (enc_strmap l)).
Proof.
  intros Hl Hok. unfold rd_map_into, rd_strmap. rewrite slice_at. cbn [bind is_none].
  unfold enc_strmap. cbn [enc]. unfold r_map_begin.
  rewrite need_ok by (rewrite <- !app_assoc; cbn [app]; rewrite !len_cons, !len_app, be_len; lia).
  cbn [bind]. rewrite <- !app_assoc. cbn [app].
  change (drop 2 (u8 F_STRING :: u8 F_STRING :: be 4 (u32 (Z.of_N (len l))) ++ enc_entries l ++ r))
    with (be 4 (u32 (Z.of_N (len l))) ++ enc_entries l ++ r).
  rewrite take_be4, unbe_be4 by apply u32_lt.
  rewrite u32_nonneg by (unfold two32 in Hl; lia). rewrite !N2Z.id.
  set (hdr := u8 F_STRING :: u8 F_STRING :: be 4 (len l)).
  replace (len pre + 6) with (len (pre ++ hdr))
    by (unfold hdr; rewrite len_app, !len_cons, be_len; lia).
  change (u8 F_STRING :: u8 F_STRING :: be 4 (len l) ++ enc_entries l ++ r)
    with (hdr ++ enc_entries l ++ r).
  rewrite (app_assoc pre hdr).
  pose proof (rd_entries_enc l (S (length ((pre ++ hdr) ++ enc_entries l ++ r))) (pre ++ hdr) r [] 0%Z Hok) as RE.
  cbn [Z.add] in RE. rewrite RE.
  - cbn [relabel bind upd]. unfold map_of_entries. f_equal. f_equal.
    unfold hdr. repeat rewrite ?len_app, ?len_cons, ?be_len. lia.
  - pose proof (enc_entries_len_ge l) as G. rewrite !app_length.
    unfold len in G. lia.
Qed.
