(* Proofs/GenEquivNocopy.v — the write side of the shipped FastCodec structs, REGENERATED from the Go
   source (Gen/Funcs.v, tools/gotrans phase 3):
     protocol/thrift/binary.go       WriteStringNocopy, WriteBinaryNocopy
     protocol/thrift/base/k-base.go  BLength, FastWriteNocopy, FastWrite of Base and BaseResp
   are equal to the hand-written models Model/Nocopy.v ([w_string_nocopy], [base_blength],
   [base_write_nocopy], [base_write], ...), the ones the theorems of C15 and C11 are about.

   What is a parameter of the generated definitions, and how it is discharged here:
     * the NocopyWriter w: an abstract object (state [St], WriteDirect = [meth]) with a nil flag.
       Section Writer: ANY state type, ANY model of WriteDirect that refines the reference
       writer of the hand model ([write_direct] on the record [abs st]) when the flag is false;
       nothing is asked of it when the flag is true (w == nil).  The hand model's writer is
       [hw st] = None / Some (abs st).
     * the enumeration order of `for k, v := range p.Extra`: the oracle [ord].  The hand model
       takes the map as an association list in the order it is written: for EVERY Go map [m]
       (GoSem.gmap) and EVERY order [ord] the generated writer on (m, ord) equals the hand writer on
       [ordered_map m ord]; [gmap_order_ok m ord] (each key exactly once) is needed for
       len(p.Extra) only.
   Sizes: the buffer and every string are shorter than 2^63 (Go's int). *)
From GV Require Import Lib.Bytes Lib.Res Lib.GoSem Gen.Consts Gen.Funcs Model.Binary Model.Nocopy
     Spec.Wire Spec.FastSpec Proofs.BinaryP Proofs.NocopyLib Proofs.NocopyP Proofs.GenLib Proofs.GenLib3 Proofs.GenEquiv Proofs.GenEquivFast
     Proofs.GenEquivAppEx.
From Coq Require Import ZifyN ZifyNat ZifyBool.
Open Scope N_scope.

Definition small (v : bytes) : Prop := (glen v + 4 < 2 ^ 63)%Z.
Definition mk (buf : bytes) (off : N) (w : dwriter) : wst := {| wbuf := buf; woff := off; wdw := w |}.
Notation thr := thrift_nocopyWriteThreshold.

Lemma wr_ok_binary' buf v b' n : w_binary buf v = Ok (b', n) -> n <= len buf /\ len b' = len buf.
Proof. apply (wr_ok_binary v buf b' n). Qed.

Section Writer.
  Variable St : Type.
  Variable meth : St -> bytes -> Z -> res (St * gerror).
  Variable abs : St -> list dpair.
  Variable flag : bool.
  (* w.WriteDirect(v, rc) refines the reference writer (only asked when w != nil) *)
  Hypothesis meth_ok : flag = false -> forall st v rc, (0 <= rc)%Z ->
    match write_direct (abs st) v (Z.to_N rc) with
    | Ok log' => exists st' e, meth st v rc = Ok (st', e) /\ abs st' = log'
    | Panic _ => exists x, meth st v rc = Panic x
    | _ => False
    end.
  Definition hw (st : St) : dwriter := if flag then None else Some (abs st).

  (* ---------- WriteStringNocopy / WriteBinaryNocopy ---------- *)
  Definition wsn_sim (g : res (bytes * St * Z)) (h : res (bytes * N * dwriter)) (buf : bytes) : Prop :=
    match h with
    | Ok (b', n, w') => exists st', g = Ok (b', st', Z.of_N n) /\ w' = hw st' /\ n <= len buf /\ len b' = len buf
    | Err e => g = Err e
    | Panic _ => exists x, g = Panic x
    | OOB => g = OOB
    end.

  Lemma wsn_gen (G : bytes -> bytes -> res (bytes * Z)) buf st v :
    (forall b, G b v = rmap zl (w_binary b v)) ->
    wsn_sim (if (flag || (glen v <? 4096)%Z)%bool
             then (do (v_buf, t_1) <- G buf v; Ok (v_buf, st, t_1))
             else (do v_buf <- gput buf 0 (gbe 4 (wrapu 32 (glen v)));
                   do t_2 <- gslice_from v_buf 4;
                   do _ <- gptr_check flag;
                   do (v_w, t_3) <- meth st v (glen t_2);
                   Ok (v_buf, v_w, 4%Z)))
            (w_string_nocopy thr buf (hw st) v) buf.
  Proof.
    intros HG. unfold w_string_nocopy, hw.
    assert (forall w, wsn_sim (do (v_buf, t_1) <- G buf v; Ok (v_buf, st, t_1))
                              (do (b, n) <- w_binary buf v; Ok (b, n, w)) buf \/ True) as _ by (intros; right; exact I).
    assert (forall w0, w0 = hw st ->
              wsn_sim (do (v_buf, t_1) <- G buf v; Ok (v_buf, st, t_1)) (do (b, n) <- w_binary buf v; Ok (b, n, w0)) buf) as Hsmall.
    { intros w0 E. rewrite HG. pose proof (wr_ok_binary' buf v) as B.
      destruct (w_binary buf v) as [[b' n]|e|x|]; cbn [rmap bind zl fst snd wsn_sim]; try reflexivity; [|eexists; reflexivity].
      destruct (B b' n eq_refl) as [B1 B2]. exists st. auto. }
    destruct flag eqn:Ef; cbn [orb].
    - apply Hsmall. unfold hw. rewrite Ef. reflexivity.
    - change thr with 4096%Z. unfold glen at 1.
      destruct (Z.ltb_spec (Z.of_N (len v)) 4096) as [Hlt|Hge].
      + apply Hsmall. unfold hw. rewrite Ef. reflexivity.
      + rewrite gput_put by lia. rewrite gbe4_glen. change (Z.to_N 0) with 0.
        destruct (put buf 0 (be 4 (len v mod two32))) as [b1|e|x|] eqn:E1; cbn [bind wsn_sim]; try reflexivity; [|eexists; reflexivity].
        apply put_ok_len in E1 as [E1 E1']. rewrite be_len in E1.
        change 4%Z with (Z.of_N 4). rewrite gslice_from_N.
        destruct (slice_from_cases b1 4) as [[Hle ->]| ->]; cbn [bind gptr_check wsn_sim]; [|eexists; reflexivity].
        pose proof (meth_ok eq_refl st v (glen (drop 4 b1)) ltac:(unfold glen; lia)) as M.
        unfold glen in M at 1. rewrite N2Z.id in M.
        destruct (write_direct (abs st) v (len (drop 4 b1))) as [log'|e|x|]; cbn [bind wsn_sim]; try contradiction.
        * destruct M as (st' & e & M & Ea). rewrite M. cbn [bind]. exists st'. unfold hw. rewrite Ef, Ea. repeat split; lia.
        * destruct M as [y M]. rewrite M. eexists; reflexivity.
  Qed.

  Lemma g_WriteStringNocopy_sim buf st v : small v ->
    wsn_sim (g_thrift_WriteStringNocopy St meth buf flag st v) (w_string_nocopy thr buf (hw st) v) buf.
  Proof. intros Hv. apply (wsn_gen g_thrift_WriteString). intros b. apply g_thrift_WriteString_eq. exact Hv. Qed.

  Lemma g_WriteBinaryNocopy_sim buf st v : small v ->
    wsn_sim (g_thrift_WriteBinaryNocopy St meth buf flag st v) (w_binary_nocopy thr buf (hw st) v) buf.
  Proof.
    intros Hv. change (w_binary_nocopy thr buf (hw st) v) with (w_string_nocopy thr buf (hw st) v).
    apply (wsn_gen g_thrift_WriteBinary). intros b. apply g_thrift_WriteBinary_eq. exact Hv.
  Qed.

  (* ---------- the steps of the generated writers against the steps of the hand model ---------- *)
  (* off += thrift.Binary.WriteStringNocopy(b[off:], w, v) *)
  Lemma gstr_step {C} buf off st v (K : bytes * St * Z -> res C) :
    small v ->
    let gen := (do t <- gslice_from buf (Z.of_N off); do x <- g_thrift_WriteStringNocopy St meth t flag st v; K x) in
    (exists b' off' st' sub', st_str thr (mk buf off (hw st)) v = Ok (mk b' off' (hw st')) /\
        gen = K (sub', st', Z.of_N (off' - off)) /\
        b' = gsplice buf (Z.of_N off) sub' /\ off <= off' <= len buf /\ len b' = len buf)
    \/ (exists x y, st_str thr (mk buf off (hw st)) v = Panic x /\ gen = Panic y)
    \/ (exists e, st_str thr (mk buf off (hw st)) v = Err e /\ gen = Err e)
    \/ (st_str thr (mk buf off (hw st)) v = OOB /\ gen = OOB).
  Proof.
    intros Hv gen. subst gen. unfold st_str, mk. cbn [wbuf woff wdw]. rewrite gslice_from_N.
    destruct (slice_from_cases buf off) as [[Hle ->]| ->]; cbn [bind]; [|right; left; eexists; eexists; split; reflexivity].
    pose proof (g_WriteStringNocopy_sim (drop off buf) st v Hv) as S.
    destruct (w_string_nocopy thr (drop off buf) (hw st) v) as [[[sub' n] w']|e|x|]; cbn [wsn_sim bind] in *.
    - destruct S as (st' & -> & -> & Hn & Hl). rewrite drop_len in Hn, Hl by exact Hle.
      left. exists (take off buf ++ sub'), (off + n), st', sub'. cbn [bind].
      replace (off + n - off) with n by lia. unfold gsplice. rewrite N2Z.id.
      repeat split; try lia. rewrite len_app, take_len by exact Hle. lia.
    - rewrite S. right. right. left. eexists. split; reflexivity.
    - destruct S as [y ->]. right. left. eexists. eexists. split; reflexivity.
    - rewrite S. right. right. right. split; reflexivity.
  Qed.

  (* b[off] = T; binary.BigEndian.PutUint16(b[off+1:], ID); (off += 3) *)
  Lemma ghdr_step {C} buf off w t id (K : bytes -> res C) :
    glen_ok buf -> (0 <= t < 256)%Z -> (0 <= id < 65536)%Z ->
    let gen := (do b1 <- gstore buf (Z.of_N off) t; do b2 <- gput b1 (wraps 64 (Z.of_N off + 1)) (gbe 2 id); K b2) in
    (exists b', st_hdr (mk buf off w) (t, id) = Ok (mk b' (off + 3) w) /\ gen = K b' /\ off + 3 <= len buf /\ len b' = len buf)
    \/ (exists x y, st_hdr (mk buf off w) (t, id) = Panic x /\ gen = Panic y).
  Proof.
    intros Hb Ht Hid gen. subst gen. unfold st_hdr, mk, gstore. cbn [wbuf woff wdw fst snd]. unfold glen_ok, glen in Hb.
    rewrite gput_put by lia. rewrite N2Z.id.
    assert (gbyte t = u8 t) as ->.
    { unfold gbyte, u8, to_unsigned. change (Z.of_N (2 ^ 8)) with 256%Z. rewrite Z.mod_small by lia. reflexivity. }
    destruct (put buf off [u8 t]) as [b1|e|x|] eqn:E1; cbn [bind]; [| |right; eexists; eexists; split; reflexivity|];
      try (unfold put in E1; destruct (off + len [u8 t] <=? len buf); discriminate).
    apply put_ok_len in E1 as [E1 E1']. change (len [u8 t]) with 1 in E1.
    rewrite wraps64_small by lia. rewrite gput_put by lia. replace (Z.to_N (Z.of_N off + 1)) with (off + 1) by lia.
    assert (gbe 2 id = be 2 (u16 id)) as ->.
    { unfold gbe, u16, to_unsigned. change (Z.of_N (2 ^ 16)) with 65536%Z. rewrite Z.mod_small by lia. reflexivity. }
    destruct (put b1 (off + 1) (be 2 (u16 id))) as [b2|e|x|] eqn:E2; cbn [bind]; [| |right; eexists; eexists; split; reflexivity|];
      try (unfold put in E2; destruct (off + 1 + len (be 2 (u16 id)) <=? len b1); discriminate).
    apply put_ok_len in E2 as [E2 E2']. rewrite be_len in E2.
    left. exists b2. repeat split; lia.
  Qed.

  (* binary.BigEndian.PutUint32(b[off:], uint32(v)); (off += 4) *)
  Lemma gi32_step {C} buf off w v (K : bytes -> res C) :
    glen_ok buf ->
    let gen := (do b1 <- gput buf (Z.of_N off) (gbe 4 (wrapu 32 v)); K b1) in
    (exists b', st_i32 (mk buf off w) v = Ok (mk b' (off + 4) w) /\ gen = K b' /\ off + 4 <= len buf /\ len b' = len buf)
    \/ (exists x y, st_i32 (mk buf off w) v = Panic x /\ gen = Panic y).
  Proof.
    intros Hb gen. subst gen. unfold st_i32, mk. cbn [wbuf woff wdw].
    rewrite gput_put by lia. rewrite N2Z.id, gbe4.
    destruct (put buf off (be 4 (u32 v))) as [b1|e|x|] eqn:E1; cbn [bind]; [| |right; eexists; eexists; split; reflexivity|];
      try (unfold put in E1; destruct (off + len (be 4 (u32 v)) <=? len buf); discriminate).
    apply put_ok_len in E1 as [E1 E1']. rewrite be_len in E1. left. exists b1. repeat split; lia.
  Qed.

  (* b[off] = K; b[off+1] = V; binary.BigEndian.PutUint32(b[off+2:], uint32(len(p.Extra))); (off += 6) *)
  Lemma gmaphdr_step {C} buf off w kt vt (n : nat) (K : bytes -> res C) :
    glen_ok buf -> (0 <= kt < 256)%Z -> (0 <= vt < 256)%Z ->
    let gen := (do b1 <- gstore buf (Z.of_N off) kt; do b2 <- gstore b1 (wraps 64 (Z.of_N off + 1)) vt;
                do b3 <- gput b2 (wraps 64 (Z.of_N off + 2)) (gbe 4 (wrapu 32 (Z.of_nat n))); K b3) in
    (exists b', st_maphdr (mk buf off w) (kt, vt) (N.of_nat n) = Ok (mk b' (off + 6) w) /\ gen = K b' /\ off + 6 <= len buf /\ len b' = len buf)
    \/ (exists x y, st_maphdr (mk buf off w) (kt, vt) (N.of_nat n) = Panic x /\ gen = Panic y).
  Proof.
    intros Hb Hk Hv gen. subst gen. unfold st_maphdr, mk, gstore. cbn [wbuf woff wdw fst snd]. unfold glen_ok, glen in Hb.
    assert (forall t, (0 <= t < 256)%Z -> gbyte t = u8 t) as GB.
    { intros t Ht. unfold gbyte, u8, to_unsigned. change (Z.of_N (2 ^ 8)) with 256%Z. rewrite Z.mod_small by lia. reflexivity. }
    rewrite gput_put by lia. rewrite N2Z.id, (GB kt Hk).
    destruct (put buf off [u8 kt]) as [b1|e|x|] eqn:E1; cbn [bind]; [| |right; eexists; eexists; split; reflexivity|];
      try (unfold put in E1; destruct (off + len [u8 kt] <=? len buf); discriminate).
    apply put_ok_len in E1 as [E1 E1']. change (len [u8 kt]) with 1 in E1.
    rewrite (wraps64_small (Z.of_N off + 1)) by lia. rewrite gput_put by lia.
    replace (Z.to_N (Z.of_N off + 1)) with (off + 1) by lia. rewrite (GB vt Hv).
    destruct (put b1 (off + 1) [u8 vt]) as [b2|e|x|] eqn:E2; cbn [bind]; [| |right; eexists; eexists; split; reflexivity|];
      try (unfold put in E2; destruct (off + 1 + len [u8 vt] <=? len b1); discriminate).
    apply put_ok_len in E2 as [E2 E2']. change (len [u8 vt]) with 1 in E2.
    rewrite (wraps64_small (Z.of_N off + 2)) by lia. rewrite gput_put by lia.
    replace (Z.to_N (Z.of_N off + 2)) with (off + 2) by lia.
    assert (gbe 4 (wrapu 32 (Z.of_nat n)) = be 4 (N.of_nat n mod two32)) as ->.
    { rewrite gbe4. f_equal. rewrite <- u32_of_N. f_equal. lia. }
    destruct (put b2 (off + 2) (be 4 (N.of_nat n mod two32))) as [b3|e|x|] eqn:E3; cbn [bind]; [| |right; eexists; eexists; split; reflexivity|];
      try (unfold put in E3; destruct (off + 2 + len (be 4 (N.of_nat n mod two32)) <=? len b2); discriminate).
    apply put_ok_len in E3 as [E3 E3']. rewrite be_len in E3. left. exists b3. repeat split; lia.
  Qed.

  (* b[off] = 0; return off + 1 *)
  Lemma gstop_step {C} buf off w (K : bytes -> res C) :
    let gen := (do b1 <- gstore buf (Z.of_N off) 0; K b1) in
    (exists b', st_stop (mk buf off w) = Ok (b', off + 1, w) /\ gen = K b' /\ off + 1 <= len buf /\ len b' = len buf)
    \/ (exists x y, st_stop (mk buf off w) = Panic x /\ gen = Panic y).
  Proof.
    intros gen. subst gen. unfold st_stop, mk, gstore. cbn [wbuf woff wdw].
    rewrite gput_put by lia. rewrite N2Z.id. change (gbyte 0) with 0.
    destruct (put buf off [0]) as [b1|e|x|] eqn:E1; cbn [bind]; [| |right; eexists; eexists; split; reflexivity|];
      try (unfold put in E1; destruct (off + len [0] <=? len buf); discriminate).
    apply put_ok_len in E1 as [E1 E1']. change (len [0]) with 1 in E1. left. exists b1. repeat split; lia.
  Qed.

  (* ---------- tactics: one step of the generated writer against one step of the hand model ---------- *)
  Ltac hz := repeat lazymatch goal with
    | |- ?R (let x := ?v in @?f x) ?a => change (R (f v) a); cbv beta
    | |- ?R (let x := ?v in @?f x) ?a ?b => change (R (f v) a b); cbv beta
    end.
  (* p.f of a non-nil receiver: no effect *)
  Ltac nochk := repeat lazymatch goal with
    | |- ?R (bind (gptr_check false) ?K) ?a => change (R (K tt) a); cbv beta
    | |- ?R (bind (gptr_check false) ?K) ?a ?b => change (R (K tt) a b); cbv beta
    | |- ?R (bind (gslice_from ?buf ?o) (fun t => bind (gptr_check false) (fun _ => bind (@?G t) ?K))) ?a =>
      change (R (bind (gslice_from buf o) (fun t => bind (G t) K)) a); cbv beta
    | |- ?R (bind (gslice_from ?buf ?o) (fun t => bind (gptr_check false) (fun _ => bind (@?G t) ?K))) ?a ?b =>
      change (R (bind (gslice_from buf o) (fun t => bind (G t) K)) a b); cbv beta
    end.
  Ltac lenb := unfold glen_ok, glen in *; lia.
  Ltac offn off c :=
    rewrite (wraps64_small (Z.of_N off + c)) by lenb;
    replace (Z.of_N off + c)%Z with (Z.of_N (off + Z.to_N c)) by lia.

  Definition loop_sim {R} (g : res ((bytes * St * Z) + R)) (h : res wst) (buf0 : bytes) : Prop :=
    match h with
    | Ok s' => exists st', g = Ok (inl (wbuf s', st', Z.of_N (woff s'))) /\ wdw s' = hw st' /\
                           woff s' <= len (wbuf s') /\ len (wbuf s') = len buf0
    | Err e => g = Err e
    | Panic _ => exists y, g = Panic y
    | OOB => g = OOB
    end.

  Definition fw_sim {F} (conv : bytes -> St -> Z -> F) (g : res F) (h : res (bytes * N * dwriter)) : Prop :=
    match h with
    | Ok (b', n, w') => exists st', g = Ok (conv b' st' (Z.of_N n)) /\ w' = hw st'
    | Err e => g = Err e
    | Panic _ => exists y, g = Panic y
    | OOB => g = OOB
    end.

  Lemma loop_sim_len {R} (g : res ((bytes * St * Z) + R)) h b0 buf : len b0 = len buf -> loop_sim g h b0 -> loop_sim g h buf.
  Proof. intros E. unfold loop_sim. destruct h as [s'|e|x|]; try tauto. intros (st' & H1 & H2 & H3 & H4). exists st'. repeat split; try assumption. lia. Qed.

  Ltac finish_bad :=
    rewrite ?bind_Panic, ?bind_Err, ?bind_OOB; cbn beta iota delta [loop_sim fw_sim];
    first [reflexivity | eexists; reflexivity].

  Ltac str_step Hv :=
    hz; nochk;
    lazymatch goal with
    | |- context [bind (gslice_from ?buf (Z.of_N ?off)) (fun t => bind (g_thrift_WriteStringNocopy _ _ t _ ?st ?v) ?K)] =>
      let b' := fresh "b" in let off' := fresh "off" in let st' := fresh "st" in let sub' := fresh "sub" in
      let Eh := fresh "Eh" in let Eg := fresh "Eg" in let Eb := fresh "Eb" in let Ho := fresh "Ho" in let Hl := fresh "Hl" in
      let x := fresh "x" in let y := fresh "y" in let e := fresh "e" in
      (* the same string, up to the spelling of its type (bytes / list N) *)
      lazymatch goal with
      | |- context [st_str thr (mk buf off ?wh) ?vh] => change (st_str thr (mk buf off wh) vh) with (st_str thr (mk buf off (hw st)) v)
      end;
      destruct (gstr_step buf off st v K Hv) as [(b' & off' & st' & sub' & Eh & Eg & Eb & Ho & Hl)|[(x & y & Eh & Eg)|[(e & Eh & Eg)|(Eh & Eg)]]];
      rewrite Eh, Eg; clear Eh Eg;
      [ rewrite bind_Ok; cbv beta iota; hz; rewrite <- Eb; clear Eb sub';
        rewrite (wraps64_small (Z.of_N off + Z.of_N (off' - off))) by lenb;
        replace (Z.of_N off + Z.of_N (off' - off))%Z with (Z.of_N off') by lia
      | finish_bad | finish_bad | finish_bad ]
    end.

  Ltac hdr_step :=
    hz;
    lazymatch goal with
    | |- context [bind (gstore ?buf (Z.of_N ?off) ?t) (fun b1 => bind (gput b1 (wraps 64 (Z.of_N ?off + 1)) (gbe 2 ?id)) ?K)] =>
      lazymatch goal with
      | |- context [st_hdr (mk buf off ?w) _] =>
        let b' := fresh "b" in let Eh := fresh "Eh" in let Eg := fresh "Eg" in let Ho := fresh "Ho" in let Hl := fresh "Hl" in
        let x := fresh "x" in let y := fresh "y" in
        destruct (ghdr_step buf off w t id K ltac:(lenb) ltac:(lia) ltac:(lia)) as [(b' & Eh & Eg & Ho & Hl)|(x & y & Eh & Eg)];
        rewrite Eh, Eg; clear Eh Eg;
        [ rewrite bind_Ok; cbv beta; hz; offn off 3%Z; change (Z.to_N 3) with 3 | finish_bad ]
      end
    end.

  (* ---------- the range loop of FastWriteNocopy: for k, v := range p.Extra { WriteStringNocopy(k); WriteStringNocopy(v) } ---------- *)
  Definition ents (m : gmap bytes bytes) (ks : list bytes) : list (bytes * bytes) := ordered_entries beqb [] m ks.
  Definition kv_small (m : gmap bytes bytes) (ks : list bytes) : Prop :=
    forall k, In k ks -> small k /\ small (gmap_get beqb m k []).

  Lemma base_entries_loop m : forall ks buf off st,
    glen_ok buf -> off <= len buf -> kv_small m ks ->
    loop_sim (g_base_Base_FastWriteNocopy_loop1 St meth m flag ks buf st (Z.of_N off))
             (st_entries thr (ents m ks) (mk buf off (hw st))) buf.
  Proof.
    induction ks as [|k ks IH]; intros buf off st Hb Hoff Hs.
    - cbn [loop_sim ents ordered_entries map st_entries g_base_Base_FastWriteNocopy_loop1 wbuf woff wdw mk]. exists st. auto.
    - destruct (Hs k (or_introl eq_refl)) as [Hk Hv].
      assert (kv_small m ks) as Hs' by (intros k' H'; apply Hs; right; exact H').
      cbn beta iota fix delta [g_base_Base_FastWriteNocopy_loop1 ents ordered_entries map st_entries].
      str_step Hk. str_step Hv.
      pose proof (IH b0 off1 st1 ltac:(lenb) ltac:(lia) Hs') as L.
      apply (loop_sim_len _ _ b0 buf ltac:(lia) L).
  Qed.

  Lemma resp_entries_loop m : forall ks buf off st,
    glen_ok buf -> off <= len buf -> kv_small m ks ->
    loop_sim (g_base_BaseResp_FastWriteNocopy_loop1 St meth m flag ks buf st (Z.of_N off))
             (st_entries thr (ents m ks) (mk buf off (hw st))) buf.
  Proof.
    induction ks as [|k ks IH]; intros buf off st Hb Hoff Hs.
    - cbn [loop_sim ents ordered_entries map st_entries g_base_BaseResp_FastWriteNocopy_loop1 wbuf woff wdw mk]. exists st. auto.
    - destruct (Hs k (or_introl eq_refl)) as [Hk Hv].
      assert (kv_small m ks) as Hs' by (intros k' H'; apply Hs; right; exact H').
      cbn beta iota fix delta [g_base_BaseResp_FastWriteNocopy_loop1 ents ordered_entries map st_entries].
      str_step Hk. str_step Hv.
      pose proof (IH b0 off1 st1 ltac:(lenb) ltac:(lia) Hs') as L.
      apply (loop_sim_len _ _ b0 buf ltac:(lia) L).
  Qed.


  (* ---------- the hand models, step by step ---------- *)
  Definition hand_map (s : wst) (id : Z) (mm : smap) : res wst :=
    match mm with
    | None => Ok s
    | Some l => do s1 <- st_hdr s (13, id)%Z; do s2 <- st_maphdr s1 (11, 11)%Z (len l); st_entries thr l s2
    end.

  Lemma base_write_nocopy_unf p b w :
    base_write_nocopy thr (Some p) b w =
    (do s <- st_hdr (mk b 0 w) (11, 1)%Z;
     do s <- st_str thr s (b_logid p);
     do s <- st_hdr s (11, 2)%Z;
     do s <- st_str thr s (b_caller p);
     do s <- st_hdr s (11, 3)%Z;
     do s <- st_str thr s (b_addr p);
     do s <- hand_map s 6%Z (b_extra p);
     st_stop s).
  Proof. destruct p as [lg cl ad [l|]]; reflexivity. Qed.

  Lemma baseresp_write_nocopy_unf p b w :
    baseresp_write_nocopy thr (Some p) b w =
    (do s <- st_hdr (mk b 0 w) (11, 1)%Z;
     do s <- st_str thr s (r_msg p);
     do s <- st_hdr s (8, 2)%Z;
     do s <- st_i32 s (r_code p);
     do s <- hand_map s 3%Z (r_extra p);
     st_stop s).
  Proof. destruct p as [ms cd [l|]]; reflexivity. Qed.

  Lemma len_ordered_entries (m : gmap bytes bytes) ord : len (ordered_entries beqb [] m ord) = N.of_nat (length ord).
  Proof. unfold len, ordered_entries. rewrite map_length. reflexivity. Qed.

  Ltac maphdr_step Hord :=
    hz;
    lazymatch goal with
    | |- ?R (bind (gstore ?buf (Z.of_N ?off) ?kt) (fun b1 => bind (gstore b1 ?o1 ?vt) (fun b2 => bind (gptr_check false) (fun _ => bind (gput b2 ?o2 ?bs) ?K)))) ?a =>
      change (R (bind (gstore buf (Z.of_N off) kt) (fun b1 => bind (gstore b1 o1 vt) (fun b2 => bind (gput b2 o2 bs) K))) a)
    end;
    rewrite (gmap_len_order beqb beqb_eq' _ _ Hord);
    lazymatch goal with
    | |- context [bind (gstore ?buf (Z.of_N ?off) ?kt) (fun b1 => bind (gstore b1 _ ?vt) (fun b2 => bind (gput b2 _ (gbe 4 (wrapu 32 (Z.of_nat ?n)))) ?K))] =>
      lazymatch goal with
      | |- context [st_maphdr (mk buf off ?w) _ _] =>
        let b' := fresh "b" in let Eh := fresh "Eh" in let Eg := fresh "Eg" in let Ho := fresh "Ho" in let Hl := fresh "Hl" in
        let x := fresh "x" in let y := fresh "y" in
        destruct (gmaphdr_step buf off w kt vt n K ltac:(lenb) ltac:(lia) ltac:(lia)) as [(b' & Eh & Eg & Ho & Hl)|(x & y & Eh & Eg)];
        rewrite Eh, Eg; clear Eh Eg;
        [ rewrite bind_Ok; cbv beta; hz; offn off 6%Z; change (Z.to_N 6) with 6 | finish_bad ]
      end
    end.

  Ltac stop_step :=
    hz;
    lazymatch goal with
    | |- context [bind (gstore ?buf (Z.of_N ?off) 0%Z) ?K] =>
      lazymatch goal with
      | |- context [st_stop (mk buf off ?w)] =>
        let b' := fresh "b" in let Eh := fresh "Eh" in let Eg := fresh "Eg" in let Ho := fresh "Ho" in let Hl := fresh "Hl" in
        let x := fresh "x" in let y := fresh "y" in
        destruct (gstop_step buf off w K) as [(b' & Eh & Eg & Ho & Hl)|(x & y & Eh & Eg)];
        rewrite Eh, Eg; clear Eh Eg;
        [ cbv beta; hz; offn off 1%Z; change (Z.to_N 1) with 1 | finish_bad ]
      end
    end.

  (* the tail shared by both structs: if p.Extra != nil { header; map header; entries }; b[off] = 0; return off + 1 *)
  Ltac map_and_stop m ord id Hord Hkv LOOP :=
    hz; nochk;
    destruct m as [l|]; cbn beta iota delta [negb gmap_is_nil ordered_map hand_map];
    [ hdr_step; rewrite len_ordered_entries; maphdr_step Hord;
      lazymatch goal with
      | |- context [st_entries thr _ (mk ?buf ?off (hw ?st))] =>
        let L := fresh "L" in
        pose proof (LOOP (Some l) ord buf off st ltac:(lenb) ltac:(lia) Hkv) as L; unfold ents in L;
        destruct (st_entries thr (ordered_entries beqb [] (Some l) ord) (mk buf off (hw st))) as [[b' off' w']|e|x|];
        cbn beta iota delta [loop_sim wbuf woff wdw] in L;
        [ let st' := fresh "st" in let L1 := fresh "L" in let L2 := fresh "L" in let L3 := fresh "L" in
          destruct L as (st' & L & L1 & L2 & L3); rewrite L, bind_Ok, bind_Ok; cbv beta iota; subst w'; fold (mk b' off' (hw st'))
        | rewrite L; finish_bad | destruct L as [? L]; rewrite L; finish_bad | rewrite L; finish_bad ]
      end
    | rewrite bind_Ok; cbv beta ];
    stop_step; cbn beta iota delta [fw_sim]; eexists; split; reflexivity.

  (* ---------- Base.FastWriteNocopy ---------- *)
  Theorem g_base_FastWriteNocopy_sim m ord lg cl ad (b : bytes) st :
    glen_ok b -> small lg -> small cl -> small ad -> kv_small m ord -> gmap_order_ok m ord ->
    fw_sim (fun b' st' n => (lg, cl, ad, m, b', st', n))
           (g_base_Base_FastWriteNocopy St meth false lg cl ad m b flag st ord)
           (base_write_nocopy thr (Some {| b_logid := lg; b_caller := cl; b_addr := ad; b_extra := ordered_map beqb [] m ord |}) b (hw st)).
  Proof.
    intros Hb Hlg Hcl Had Hkv Hord. rewrite base_write_nocopy_unf. cbn beta iota delta [b_logid b_caller b_addr b_extra].
    cbv delta [g_base_Base_FastWriteNocopy] beta iota.
    lazymatch goal with |- ?R (let x := 0%Z in @?f x) ?a => change (R (f (Z.of_N 0)) a); cbv beta end.
    hdr_step. str_step Hlg. hdr_step. str_step Hcl. hdr_step. str_step Had.
    map_and_stop m ord 6%Z Hord Hkv base_entries_loop.
  Qed.

  Theorem g_base_FastWriteNocopy_nil m ord lg cl ad (b : bytes) st :
    fw_sim (fun b' st' n => (lg, cl, ad, m, b', st', n))
           (g_base_Base_FastWriteNocopy St meth true lg cl ad m b flag st ord)
           (base_write_nocopy thr None b (hw st)).
  Proof.
    cbv delta [g_base_Base_FastWriteNocopy base_write_nocopy] beta iota. unfold gstore. rewrite gput_put by lia.
    change (Z.to_N 0) with 0. change (gbyte 0) with 0.
    destruct (put b 0 [0]) as [b1|e|x|]; cbn [bind fw_sim]; try reflexivity; eexists; [split|]; reflexivity.
  Qed.

  (* ---------- BaseResp.FastWriteNocopy ---------- *)
  Ltac i32_step :=
    hz; nochk;
    lazymatch goal with
    | |- context [bind (gput ?buf (Z.of_N ?off) (gbe 4 (wrapu 32 ?v))) ?K] =>
      lazymatch goal with
      | |- context [st_i32 (mk buf off ?w) _] =>
        let b' := fresh "b" in let Eh := fresh "Eh" in let Eg := fresh "Eg" in let Ho := fresh "Ho" in let Hl := fresh "Hl" in
        let x := fresh "x" in let y := fresh "y" in
        destruct (gi32_step buf off w v K ltac:(lenb)) as [(b' & Eh & Eg & Ho & Hl)|(x & y & Eh & Eg)];
        rewrite Eh, Eg; clear Eh Eg;
        [ rewrite bind_Ok; cbv beta; hz; offn off 4%Z; change (Z.to_N 4) with 4 | finish_bad ]
      end
    end.

  Theorem g_baseresp_FastWriteNocopy_sim m ord ms cd (b : bytes) st :
    glen_ok b -> small ms -> kv_small m ord -> gmap_order_ok m ord ->
    fw_sim (fun b' st' n => (ms, cd, m, b', st', n))
           (g_base_BaseResp_FastWriteNocopy St meth false ms cd m b flag st ord)
           (baseresp_write_nocopy thr (Some {| r_msg := ms; r_code := cd; r_extra := ordered_map beqb [] m ord |}) b (hw st)).
  Proof.
    intros Hb Hms Hkv Hord. rewrite baseresp_write_nocopy_unf. cbn beta iota delta [r_msg r_code r_extra].
    cbv delta [g_base_BaseResp_FastWriteNocopy] beta iota.
    lazymatch goal with |- ?R (let x := 0%Z in @?f x) ?a => change (R (f (Z.of_N 0)) a); cbv beta end.
    hdr_step. str_step Hms. hdr_step. i32_step.
    map_and_stop m ord 3%Z Hord Hkv resp_entries_loop.
  Qed.

  Theorem g_baseresp_FastWriteNocopy_nil m ord ms cd (b : bytes) st :
    fw_sim (fun b' st' n => (ms, cd, m, b', st', n))
           (g_base_BaseResp_FastWriteNocopy St meth true ms cd m b flag st ord)
           (baseresp_write_nocopy thr None b (hw st)).
  Proof.
    cbv delta [g_base_BaseResp_FastWriteNocopy baseresp_write_nocopy] beta iota. unfold gstore. rewrite gput_put by lia.
    change (Z.to_N 0) with 0. change (gbyte 0) with 0.
    destruct (put b 0 [0]) as [b1|e|x|]; cbn [bind fw_sim]; try reflexivity; eexists; [split|]; reflexivity.
  Qed.
End Writer.

(* ---------- FastWrite: FastWriteNocopy(b, nil) — the writer is the nil interface value ---------- *)
Definition fwc_sim {F} (conv : bytes -> Z -> F) (g : res F) (h : res (bytes * N)) : Prop :=
  match h with
  | Ok (b', n) => g = Ok (conv b' (Z.of_N n))
  | Err e => g = Err e
  | Panic _ => exists y, g = Panic y
  | OOB => g = OOB
  end.

Definition nilmeth : unit -> bytes -> Z -> res (unit * gerror) := fun _ _ _ => Panic 5.
Lemma nilmeth_ok : true = false -> forall (st : unit) (v : bytes) (rc : Z), (0 <= rc)%Z ->
  match write_direct ((fun _ => []) st) v (Z.to_N rc) with
  | Ok log' => exists st' e, nilmeth st v rc = Ok (st', e) /\ (fun _ : unit => @nil dpair) st' = log'
  | Panic _ => exists x, nilmeth st v rc = Panic x
  | _ => False
  end.
Proof. discriminate. Qed.

Theorem g_base_FastWrite_sim m ord lg cl ad (b : bytes) :
  glen_ok b -> small lg -> small cl -> small ad -> kv_small m ord -> gmap_order_ok m ord ->
  fwc_sim (fun b' n => (lg, cl, ad, m, b', n))
          (g_base_Base_FastWrite false lg cl ad m b ord)
          (base_write thr (Some {| b_logid := lg; b_caller := cl; b_addr := ad; b_extra := ordered_map beqb [] m ord |}) b).
Proof.
  intros Hb Hlg Hcl Had Hkv Hord. cbv delta [g_base_Base_FastWrite base_write] beta.
  pose proof (g_base_FastWriteNocopy_sim unit nilmeth (fun _ => []) true nilmeth_ok m ord lg cl ad b tt Hb Hlg Hcl Had Hkv Hord) as S.
  change (hw unit (fun _ => []) true tt) with (@None (list dpair)) in S. fold nilmeth.
  destruct (base_write_nocopy thr _ b None) as [[[b' n] w']|e|x|]; cbn [fw_sim fwc_sim bind] in *.
  - destruct S as (st' & -> & _). reflexivity.
  - rewrite S. reflexivity.
  - destruct S as [y ->]. eexists; reflexivity.
  - rewrite S. reflexivity.
Qed.

Theorem g_base_FastWrite_nil m ord lg cl ad (b : bytes) :
  fwc_sim (fun b' n => (lg, cl, ad, m, b', n)) (g_base_Base_FastWrite true lg cl ad m b ord) (base_write thr None b).
Proof.
  cbv delta [g_base_Base_FastWrite base_write] beta.
  pose proof (g_base_FastWriteNocopy_nil unit nilmeth (fun _ => []) true nilmeth_ok m ord lg cl ad b tt) as S.
  change (hw unit (fun _ => []) true tt) with (@None (list dpair)) in S. fold nilmeth.
  destruct (base_write_nocopy thr None b None) as [[[b' n] w']|e|x|]; cbn [fw_sim fwc_sim bind] in *.
  - destruct S as (st' & -> & _). reflexivity.
  - rewrite S. reflexivity.
  - destruct S as [y ->]. eexists; reflexivity.
  - rewrite S. reflexivity.
Qed.

Theorem g_baseresp_FastWrite_sim m ord ms cd (b : bytes) :
  glen_ok b -> small ms -> kv_small m ord -> gmap_order_ok m ord ->
  fwc_sim (fun b' n => (ms, cd, m, b', n))
          (g_base_BaseResp_FastWrite false ms cd m b ord)
          (baseresp_write thr (Some {| r_msg := ms; r_code := cd; r_extra := ordered_map beqb [] m ord |}) b).
Proof.
  intros Hb Hms Hkv Hord. cbv delta [g_base_BaseResp_FastWrite baseresp_write] beta.
  pose proof (g_baseresp_FastWriteNocopy_sim unit nilmeth (fun _ => []) true nilmeth_ok m ord ms cd b tt Hb Hms Hkv Hord) as S.
  change (hw unit (fun _ => []) true tt) with (@None (list dpair)) in S. fold nilmeth.
  destruct (baseresp_write_nocopy thr _ b None) as [[[b' n] w']|e|x|]; cbn [fw_sim fwc_sim bind] in *.
  - destruct S as (st' & -> & _). reflexivity.
  - rewrite S. reflexivity.
  - destruct S as [y ->]. eexists; reflexivity.
  - rewrite S. reflexivity.
Qed.

Theorem g_baseresp_FastWrite_nil m ord ms cd (b : bytes) :
  fwc_sim (fun b' n => (ms, cd, m, b', n)) (g_base_BaseResp_FastWrite true ms cd m b ord) (baseresp_write thr None b).
Proof.
  cbv delta [g_base_BaseResp_FastWrite baseresp_write] beta.
  pose proof (g_baseresp_FastWriteNocopy_nil unit nilmeth (fun _ => []) true nilmeth_ok m ord ms cd b tt) as S.
  change (hw unit (fun _ => []) true tt) with (@None (list dpair)) in S. fold nilmeth.
  destruct (baseresp_write_nocopy thr None b None) as [[[b' n] w']|e|x|]; cbn [fw_sim fwc_sim bind] in *.
  - destruct S as (st' & -> & _). reflexivity.
  - rewrite S. reflexivity.
  - destruct S as [y ->]. eexists; reflexivity.
  - rewrite S. reflexivity.
Qed.

(* ---------- BLength ---------- *)
Lemma entries_blength_mono l : forall off, off <= entries_blength l off.
Proof. induction l as [|[k v] r IH]; intros off; cbn [entries_blength]; [lia|]. specialize (IH (off + (4 + len k) + (4 + len v))). lia. Qed.

Lemma base_blen_loop m : forall ks off,
  (Z.of_N (entries_blength (ents m ks) off) < 2 ^ 63)%Z ->
  g_base_Base_BLength_loop1 m ks (Z.of_N off) = Ok (inl (Z.of_N (entries_blength (ents m ks) off))).
Proof.
  induction ks as [|k ks IH]; intros off H; cbn [g_base_Base_BLength_loop1 ents ordered_entries map entries_blength] in *; [reflexivity|].
  pose proof (entries_blength_mono (ents m ks) (off + (4 + len k) + (4 + len (gmap_get beqb m k [])))) as M.
  unfold ents, ordered_entries in M. unfold glen. unfold bytes in *.
  repeat wr64.
  match goal with |- _ _ _ ?z = Ok (inl (Z.of_N (entries_blength _ ?o))) => replace z with (Z.of_N o) by lia end.
  apply IH. exact H.
Qed.

Lemma resp_blen_loop m : forall ks off,
  (Z.of_N (entries_blength (ents m ks) off) < 2 ^ 63)%Z ->
  g_base_BaseResp_BLength_loop1 m ks (Z.of_N off) = Ok (inl (Z.of_N (entries_blength (ents m ks) off))).
Proof.
  induction ks as [|k ks IH]; intros off H; cbn [g_base_BaseResp_BLength_loop1 ents ordered_entries map entries_blength] in *; [reflexivity|].
  pose proof (entries_blength_mono (ents m ks) (off + (4 + len k) + (4 + len (gmap_get beqb m k [])))) as M.
  unfold ents, ordered_entries in M. unfold glen. unfold bytes in *.
  repeat wr64.
  match goal with |- _ _ _ ?z = Ok (inl (Z.of_N (entries_blength _ ?o))) => replace z with (Z.of_N o) by lia end.
  apply IH. exact H.
Qed.

Theorem g_base_BLength_eq m ord lg cl ad :
  let p := Some {| b_logid := lg; b_caller := cl; b_addr := ad; b_extra := ordered_map beqb [] m ord |} in
  (Z.of_N (base_blength p) < 2 ^ 63)%Z ->
  g_base_Base_BLength false lg cl ad m ord = Ok (lg, cl, ad, m, Z.of_N (base_blength p)).
Proof.
  intros p H. subst p. unfold base_blength, map_blength in *. cbn [b_logid b_caller b_addr b_extra] in *.
  unfold g_base_Base_BLength. cbn [gptr_check bind]. unfold glen.
  destruct m as [l|]; cbn [ordered_map gmap_is_nil negb] in *.
  - pose proof (entries_blength_mono (ordered_entries beqb [] (Some l) ord) (0 + 3 + (4 + len lg) + 3 + (4 + len cl) + 3 + (4 + len ad) + 3 + 6)) as M.
    repeat wr64.
    replace (0 + 3 + (4 + Z.of_N (len lg)) + 3 + (4 + Z.of_N (len cl)) + 3 + (4 + Z.of_N (len ad)) + 3 + 6)%Z
      with (Z.of_N (0 + 3 + (4 + len lg) + 3 + (4 + len cl) + 3 + (4 + len ad) + 3 + 6)) by lia.
    rewrite base_blen_loop by (unfold ents; lia). cbn [bind]. unfold ents. rewrite wraps64_small by lia. do 2 f_equal. lia.
  - repeat wr64. do 2 f_equal. lia.
Qed.

Theorem g_base_BLength_nil m ord lg cl ad : g_base_Base_BLength true lg cl ad m ord = Ok (lg, cl, ad, m, Z.of_N (base_blength None)).
Proof. reflexivity. Qed.

Theorem g_baseresp_BLength_eq m ord ms cd :
  let p := Some {| r_msg := ms; r_code := cd; r_extra := ordered_map beqb [] m ord |} in
  (Z.of_N (baseresp_blength p) < 2 ^ 63)%Z ->
  g_base_BaseResp_BLength false ms cd m ord = Ok (ms, cd, m, Z.of_N (baseresp_blength p)).
Proof.
  intros p H. subst p. unfold baseresp_blength, map_blength in *. cbn [r_msg r_code r_extra] in *.
  unfold g_base_BaseResp_BLength. cbn [gptr_check bind]. unfold glen.
  destruct m as [l|]; cbn [ordered_map gmap_is_nil negb] in *.
  - pose proof (entries_blength_mono (ordered_entries beqb [] (Some l) ord) (0 + 3 + (4 + len ms) + 3 + 4 + 3 + 6)) as M.
    repeat wr64.
    replace (0 + 3 + (4 + Z.of_N (len ms)) + 3 + 4 + 3 + 6)%Z with (Z.of_N (0 + 3 + (4 + len ms) + 3 + 4 + 3 + 6)) by lia.
    rewrite resp_blen_loop by (unfold ents; lia). cbn [bind]. unfold ents. rewrite wraps64_small by lia. do 2 f_equal. lia.
  - repeat wr64. do 2 f_equal. lia.
Qed.

Theorem g_baseresp_BLength_nil m ord ms cd : g_base_BaseResp_BLength true ms cd m ord = Ok (ms, cd, m, Z.of_N (baseresp_blength None)).
Proof. reflexivity. Qed.
