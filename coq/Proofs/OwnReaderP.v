(* Proofs/OwnReaderP.v — the ownership invariant of the heap-level reader (Model/OwnReader.v)
   is preserved by every operation under every allocator oracle and every co-tenant script. *)
From Coq Require Import ZifyN ZifyNat ZifyBool Permutation.
From GV Require Import Lib.Bytes Lib.Res Lib.Heap Model.Own Model.OwnReader Spec.Ownership Proofs.OwnLib Proofs.OwnTrace.
Open Scope N_scope.


Lemma take_plus {A} n m (l : list A) : take (n + m) l = take n l ++ take m (drop n l).
Proof. unfold take, drop. rewrite N2Nat.inj_add. apply firstn_plus. Qed.
Lemma seg_at_plus S c n m : seg_at S c (n + m) = seg_at S c n ++ seg_at S (c + n) m.
Proof. unfold seg_at. rewrite take_plus, drop_drop. reflexivity. Qed.
Lemma seg_at_take S c n m : n <= m -> take n (seg_at S c m) = seg_at S c n.
Proof. intros H. unfold seg_at. now apply take_take. Qed.
Lemma seg_at_drop S c n m : drop n (seg_at S c m) = seg_at S (c + n) (m - n).
Proof. unfold seg_at. rewrite drop_take, drop_drop. reflexivity. Qed.
Lemma seg_at_len S c n : c + n <= len S -> len (seg_at S c n) = n.
Proof. intros H. unfold seg_at. rewrite len_take_le, len_drop. lia. Qed.

Lemma read_rd h b off n : read h (Some (b, off)) n = rd h b off n.
Proof. reflexivity. Qed.
Lemma rd_len h b off n : off + n <= len (block h b) -> len (rd h b off n) = n.
Proof. intros H. unfold rd. rewrite len_take_le, len_drop. lia. Qed.
Lemma rd_take h b off n m : n <= m -> take n (rd h b off m) = rd h b off n.
Proof. intros H. unfold rd. now apply take_take. Qed.
Lemma rd_drop h b off n m : drop n (rd h b off m) = rd h b (off + n) (m - n).
Proof. unfold rd. rewrite drop_take, drop_drop. reflexivity. Qed.
Lemma rd_same h h' b off n : block h' b = block h b -> rd h' b off n = rd h b off n.
Proof. intros H. unfold rd. now rewrite H. Qed.
Lemma rd_splice_before h h' b woff v a n :
  block h' b = splice (block h b) woff v -> a + n <= woff -> woff <= len (block h b) ->
  rd h' b a n = rd h b a n.
Proof. intros H H1 H2. unfold rd. rewrite H. now apply read_splice_before. Qed.
Lemma rd_splice_at h h' b woff v :
  block h' b = splice (block h b) woff v -> woff <= len (block h b) -> rd h' b woff (len v) = v.
Proof. intros H H1. unfold rd. rewrite H. now apply read_splice_at. Qed.
Lemma rd_plus h b off n m : rd h b off (n + m) = rd h b off n ++ rd h b (off + n) m.
Proof. unfold rd. rewrite take_plus, drop_drop. reflexivity. Qed.

(* ---------- the source ---------- *)
Lemma src_read_spec s room bs er s' :
  spos s <= len (sdata s) -> src_read s room = (bs, er, s') ->
  sdata s' = sdata s /\ sfinal s' = sfinal s /\ swith s' = swith s /\
  spos s' = spos s + len bs /\ bs = seg_at (sdata s) (spos s) (len bs) /\
  len bs <= room /\ spos s' <= len (sdata s').
Proof.
  intros Hp E. unfold src_read in E.
  destruct (schunks s) as [|c r].
  - destruct (len (sdata s) - spos s =? 0) eqn:Er.
    + inversion E; subst; clear E. cbn [sdata sfinal swith spos len length]. unfold seg_at. cbn. repeat split; lia.
    + assert (Hlen : len (take (N.min room (N.min room (len (sdata s) - spos s))) (drop (spos s) (sdata s)))
                     = N.min room (N.min room (len (sdata s) - spos s))).
      { rewrite len_take_le, len_drop. lia. }
      destruct (swith s && _ && _); inversion E; subst; clear E; cbn [sdata sfinal swith spos];
        rewrite Hlen; unfold seg_at; repeat split; try reflexivity; lia.
  - destruct (len (sdata s) - spos s =? 0) eqn:Er.
    + inversion E; subst; clear E. cbn [sdata sfinal swith spos len length]. unfold seg_at. cbn. repeat split; lia.
    + assert (Hlen : len (take (N.min c (N.min room (len (sdata s) - spos s))) (drop (spos s) (sdata s)))
                     = N.min c (N.min room (len (sdata s) - spos s))).
      { rewrite len_take_le, len_drop. lia. }
      destruct (swith s && _ && _); inversion E; subst; clear E; cbn [sdata sfinal swith spos];
        rewrite Hlen; unfold seg_at; repeat split; try reflexivity; lia.
Qed.
Lemma src_read_done s room bs er s' :
  spos s = len (sdata s) -> src_read s room = (bs, er, s') -> bs = [].
Proof.
  intros Hp E. unfold src_read in E. replace (len (sdata s) - spos s =? 0) with true in E by lia.
  destruct (schunks s); inversion E; reflexivity.
Qed.

Section WithX.
Variable X : list (nat * bytes).

(* ---------- the invariant ---------- *)
Definition rowned (st : hreader) : list nat :=
  match rbuf st with Some s => if rro st then [] else [sblk s] | None => [] end ++ map sblk (rpend st).

(* an mcache-born slice spans its whole block *)
Definition whole (h : heap) (s : bslice) : Prop :=
  soff s = 0 /\ scp s = len (block h (sblk s)) /\ sln s <= scp s.

Definition live_ok (S : bytes) (st : hreader) (h : heap) (l : lslice) : Prop :=
  In (lblk l) (rowned st ++ rcaller st) /\
  rd h (lblk l) (loff l) (llen l) = seg_at S (lpos l) (llen l) /\
  match rbuf st with
  | Some s => lblk l = sblk s -> loff l + llen l <= soff s + sln s
  | None => True
  end.

Record rinv (S : bytes) (st : hreader) (e : env) : Prop := mkrinv {
  rv_e : einv X (rowned st) [] (rcaller st) e;
  rv_S : sdata (rsrc st) = S /\ spos (rsrc st) <= len S;
  rv_buf : match rbuf st with
           | Some s =>
             rri st <= sln s /\ sln s <= scp s /\ 0 < scp s /\ soff s + scp s <= len (block (wh (ew e)) (sblk s)) /\
             (if rro st then In (sblk s) (rcaller st) /\ spos (rsrc st) = len S
              else soff s = 0 /\ scp s = len (block (wh (ew e)) (sblk s)))
           | None => rri st = 0
           end;
  rv_pend : Forall (whole (wh (ew e))) (rpend st);
  rv_live : Forall (live_ok S st (wh (ew e))) (rlive st);
  rv_content : match rbuf st with
               | Some s =>
                 rd (wh (ew e)) (sblk s) (soff s + rri st) (sln s - rri st) = seg_at S (rcur st) (sln s - rri st) /\
                 rcur st + (sln s - rri st) = spos (rsrc st)
               | None => rcur st = spos (rsrc st)
               end
}.

Lemma In_rowned_cur st s : rbuf st = Some s -> rro st = false -> In (sblk s) (rowned st).
Proof. intros Hb Hr. unfold rowned. rewrite Hb, Hr. cbn. tauto. Qed.
Lemma In_rowned_pend st p : In p (rpend st) -> In (sblk p) (rowned st).
Proof. intros H. unfold rowned. rewrite in_app_iff. right. now apply in_map. Qed.

Lemma cur_in_foot S st e s : rinv S st e -> rbuf st = Some s -> In (sblk s) (rowned st ++ [] ++ rcaller st).
Proof.
  intros Hi Hb. pose proof (rv_buf _ _ _ Hi) as Hs. rewrite Hb in Hs.
  rewrite !in_app_iff. destruct (rro st) eqn:Er.
  - right. right. tauto.
  - left. now apply In_rowned_cur.
Qed.

(* anything that leaves the footprint alone preserves the invariant *)
Lemma rinv_frame S st e e' :
  rinv S st e -> einv X (rowned st) [] (rcaller st) e' -> frame (rowned st ++ [] ++ rcaller st) e e' ->
  rinv S st e'.
Proof.
  intros Hi He [Hs Hl]. destruct Hi as [Ie IS Ib Ip Il Ic].
  assert (Hvalid : forall b, In b (rowned st ++ [] ++ rcaller st) -> (b < length (wh (ew e)))%nat).
  { intros b Hb. destruct (einv_sep3 _ _ _ _ Ie) as [_ Sv _]. rewrite Forall_forall in Sv. now apply Sv. }
  assert (Hcur : forall s, rbuf st = Some s -> In (sblk s) (rowned st ++ [] ++ rcaller st)).
  { intros s Hb. rewrite Hb in Ib. rewrite !in_app_iff. destruct (rro st) eqn:Er.
    - right. right. tauto.
    - left. now apply In_rowned_cur. }
  split; try assumption.
  - destruct (rbuf st) as [s|] eqn:Hb; [|assumption].
    rewrite (Hs _ (Hcur s eq_refl)). assumption.
  - rewrite Forall_forall in *. intros p Hp. specialize (Ip p Hp). unfold whole in *.
    rewrite (Hs (sblk p)); [assumption|]. rewrite in_app_iff. left. now apply In_rowned_pend.
  - rewrite Forall_forall in *. intros l Hl'. specialize (Il l Hl'). unfold live_ok in *.
    destruct Il as (A & B & C). split; [assumption|split; [|assumption]].
    rewrite <- B. apply rd_same. apply Hs. rewrite in_app_iff in *. cbn [app]. tauto.
  - destruct (rbuf st) as [s|] eqn:Hb; [|assumption].
    destruct Ic as [C1 C2]. split; [|assumption]. rewrite <- C1. apply rd_same. apply Hs. now apply Hcur.
Qed.

Lemma rinv_callback S st e : rinv S st e -> rinv S st (e_callback e).
Proof.
  intros Hi. destruct (einv_callback _ _ _ _ (rv_e _ _ _ Hi)) as (A & B & _).
  eapply rinv_frame; eassumption.
Qed.

(* one iteration of the read loop: callback, source read, store into buf[len:cap] *)
Lemma rinv_fill S st e s bs er src' err :
  rinv S st e -> rbuf st = Some s ->
  src_read (rsrc st) (scp s - sln s) = (bs, er, src') ->
  rinv S (set_err_src st (Some (mkS (sblk s) (soff s) (sln s + len bs) (scp s))) err src')
         (e_write (e_callback e) (sblk s) (soff s + sln s) bs).
Proof.
  intros Hi0 Hb Er. pose proof (rinv_callback _ _ _ Hi0) as Hi. clear Hi0.
  set (e0 := e_callback e) in *.
  destruct Hi as [Ie [IS1 IS2] Ib Ip Il Ic]. rewrite Hb in Ib, Ic.
  destruct Ib as (B1 & B2 & B0 & B3 & B4). destruct Ic as [C1 C2].
  assert (Hsp : spos (rsrc st) <= len (sdata (rsrc st))) by (rewrite IS1; assumption).
  destruct (src_read_spec _ _ _ _ _ Hsp Er) as (R1 & R2 & R3 & R4 & R5 & R6 & R7).
  assert (Hrow : rowned (set_err_src st (Some (mkS (sblk s) (soff s) (sln s + len bs) (scp s))) err src') = rowned st).
  { unfold rowned, set_err_src. cbn [rbuf rro rpend]. rewrite Hb. reflexivity. }
  (* the write itself *)
  assert (Hw : einv X (rowned st) [] (rcaller st) (e_write e0 (sblk s) (soff s + sln s) bs) /\
               block (wh (ew (e_write e0 (sblk s) (soff s + sln s) bs))) (sblk s)
                 = splice (block (wh (ew e0)) (sblk s)) (soff s + sln s) bs /\
               (forall b', b' <> sblk s -> block (wh (ew (e_write e0 (sblk s) (soff s + sln s) bs))) b' = block (wh (ew e0)) b') /\
               lens_pres (wh (ew e0)) (wh (ew (e_write e0 (sblk s) (soff s + sln s) bs)))).
  { destruct (rro st) eqn:Ero.
    - destruct B4 as [_ Hdone]. assert (bs = []) as ->.
      { eapply src_read_done; [|exact Er]. rewrite IS1. exact Hdone. }
      unfold e_write. rewrite splice_nil. split; [assumption|split; [reflexivity|split; [reflexivity|apply lens_pres_refl]]].
    - apply einv_write; [assumption| |lia]. rewrite app_nil_r. now apply In_rowned_cur. }
  destruct Hw as (W1 & W2 & W3 & [W4 W5]).
  set (e1 := e_write e0 (sblk s) (soff s + sln s) bs) in *.
  assert (Hvalid : forall b, In b (rowned st ++ [] ++ rcaller st) -> (b < length (wh (ew e0)))%nat).
  { intros b Hb'. destruct (einv_sep3 _ _ _ _ Ie) as [_ Sv _]. rewrite Forall_forall in Sv. now apply Sv. }
  assert (Hcurv : (sblk s < length (wh (ew e0)))%nat).
  { apply Hvalid. rewrite !in_app_iff. destruct (rro st) eqn:Ero; [right; right; tauto|left; now apply In_rowned_cur]. }
  split.
  - rewrite Hrow. cbn [set_err_src rcaller]. assumption.
  - cbn [set_err_src rsrc]. rewrite R1. split; [assumption|]. rewrite <- IS1, <- R1. assumption.
  - cbn [set_err_src rbuf rri rro rcaller rsrc sblk soff sln scp].
    rewrite (W5 _ Hcurv). split; [lia|split; [lia|split; [lia|split; [lia|]]]].
    destruct (rro st).
    + destruct B4 as [B4a B4b]. split; [assumption|]. rewrite R4.
      assert (bs = []) as -> by (eapply src_read_done; [|exact Er]; rewrite IS1; exact B4b). cbn. lia.
    + assumption.
  - cbn [set_err_src rpend]. rewrite Forall_forall in *. intros p Hp. specialize (Ip p Hp). unfold whole in *.
    rewrite W5; [assumption|]. apply Hvalid. rewrite in_app_iff. left. now apply In_rowned_pend.
  - cbn [set_err_src rlive]. rewrite Forall_forall in *. intros l Hl. specialize (Il l Hl). unfold live_ok in *.
    rewrite Hrow. cbn [set_err_src rbuf rcaller sblk soff sln]. rewrite Hb in Il. destruct Il as (A & B & C).
    split; [assumption|split].
    + rewrite <- B. destruct (Nat.eq_dec (lblk l) (sblk s)) as [Heq|Hne].
      * rewrite Heq. eapply rd_splice_before; [exact W2| |lia]. specialize (C Heq). lia.
      * apply rd_same. now apply W3.
    + intros Heq. specialize (C Heq). lia.
  - cbn [set_err_src rbuf rri rcur rsrc sblk soff sln].
    replace (sln s + len bs - rri st) with ((sln s - rri st) + len bs) by lia.
    rewrite rd_plus, seg_at_plus. split; [|lia]. f_equal.
    + rewrite <- C1. eapply rd_splice_before; [exact W2|lia|lia].
    + replace (soff s + rri st + (sln s - rri st)) with (soff s + sln s) by lia.
      rewrite (rd_splice_at _ _ _ _ _ W2) by lia.
      rewrite C2, <- IS1. exact R5.
Qed.

Lemma rinv_set_err S st e err : rinv S st e -> rinv S (set_err_src st (rbuf st) err (rsrc st)) e.
Proof. intros [A B C D E F]. split; assumption. Qed.

Lemma read_loop_eq fo left st e n :
  read_loop fo left st e n =
  match left with
  | O => (set_err_src st (rbuf st) (Some e_noprogress) (rsrc st), e, buf_len st - rri st)
  | S left' =>
    match rbuf st with
    | None => (st, e, 0)
    | Some s =>
      let e0 := e_callback e in
      let '(bs, er, src') := src_read (rsrc st) (scp s - sln s) in
      let e1 := e_write e0 (sblk s) (soff s + sln s) bs in
      let s' := mkS (sblk s) (soff s) (sln s + len bs) (scp s) in
      match er with
      | Some ev =>
        (set_err_src st (Some s') (Some ev) src', e1,
         if n <=? sln s' - rri st then n else sln s' - rri st)
      | None =>
        let st' := set_err_src st (Some s') (rerr st) src' in
        if n <=? sln s' - rri st then (st', e1, n)
        else if 0 <? len bs then
          match fo with
          | O => (st', e1, sln s' - rri st)
          | S fo' => read_loop fo' max_empty st' e1 n
          end
        else read_loop fo left' st' e1 n
      end
    end
  end.
Proof. destruct fo, left; reflexivity. Qed.

Lemma read_loop_inv S : forall fo left st e n st' e' m,
  rinv S st e -> read_loop fo left st e n = (st', e', m) ->
  rinv S st' e' /\ m <= buf_len st' - rri st'.
Proof.
  induction fo as [|fo IHfo]; induction left as [|left IHleft]; intros st e n st' e' m Hi E;
    rewrite read_loop_eq in E.
  1,3: inversion E; subst; clear E; split; [now apply rinv_set_err|unfold buf_len, set_err_src; cbn [rbuf rri]; lia].
  all: destruct (rbuf st) as [s|] eqn:Hb; [|inversion E; subst; split; [assumption|lia]].
  all: cbv zeta in E; destruct (src_read (rsrc st) (scp s - sln s)) as [[bs er] src'] eqn:Er; cbn [sln] in E.
  all: destruct er as [ev|].
  all: try (inversion E; subst; clear E; split; [eapply rinv_fill; eassumption|];
            unfold buf_len, set_err_src; cbn [rbuf rri sln];
            destruct (N.leb_spec n (sln s + len bs - rri st)); lia).
  all: destruct (N.leb_spec n (sln s + len bs - rri st)) as [Hn|Hn].
  all: try (inversion E; subst; clear E; split; [eapply rinv_fill; eassumption|];
            unfold buf_len, set_err_src; cbn [rbuf rri sln]; lia).
  all: destruct (0 <? len bs).
  - inversion E; subst; clear E. split; [eapply rinv_fill; eassumption|]. unfold buf_len, set_err_src; cbn [rbuf rri sln]; lia.
  - eapply IHleft; [|exact E]. eapply rinv_fill; eassumption.
  - eapply IHfo; [|exact E]. eapply rinv_fill; eassumption.
  - eapply IHleft; [|exact E]. eapply rinv_fill; eassumption.
Qed.

(* the heap-dependent part of the invariant, separately *)
Record rshape (S : bytes) (st : hreader) (h : heap) : Prop := mkrshape {
  rs_S : sdata (rsrc st) = S /\ spos (rsrc st) <= len S;
  rs_buf : match rbuf st with
           | Some s =>
             rri st <= sln s /\ sln s <= scp s /\ 0 < scp s /\ soff s + scp s <= len (block h (sblk s)) /\
             (if rro st then In (sblk s) (rcaller st) /\ spos (rsrc st) = len S
              else soff s = 0 /\ scp s = len (block h (sblk s)))
           | None => rri st = 0
           end;
  rs_pend : Forall (whole h) (rpend st);
  rs_live : Forall (live_ok S st h) (rlive st);
  rs_content : match rbuf st with
               | Some s =>
                 rd h (sblk s) (soff s + rri st) (sln s - rri st) = seg_at S (rcur st) (sln s - rri st) /\
                 rcur st + (sln s - rri st) = spos (rsrc st)
               | None => rcur st = spos (rsrc st)
               end
}.
Lemma rinv_shape S st e : rinv S st e -> rshape S st (wh (ew e)).
Proof. intros [A B C D E F]. split; assumption. Qed.
Lemma rinv_of S st e : einv X (rowned st) [] (rcaller st) e -> rshape S st (wh (ew e)) -> rinv S st e.
Proof. intros A [B C D E F]. split; assumption. Qed.

Lemma rshape_frame S st h h' :
  rshape S st h -> same_on (rowned st ++ rcaller st) h h' -> rshape S st h'.
Proof.
  intros [IS Ib Ip Il Ic] Hs.
  assert (Hcur : forall s, rbuf st = Some s -> In (sblk s) (rowned st ++ rcaller st)).
  { intros s Hb. rewrite Hb in Ib. rewrite !in_app_iff. destruct (rro st) eqn:Er.
    - right. tauto.
    - left. now apply In_rowned_cur. }
  split; try assumption.
  - destruct (rbuf st) as [s|] eqn:Hb; [|assumption].
    rewrite (Hs _ (Hcur s eq_refl)). assumption.
  - rewrite Forall_forall in *. intros p Hp. specialize (Ip p Hp). unfold whole in *.
    rewrite (Hs (sblk p)); [assumption|]. rewrite in_app_iff. left. now apply In_rowned_pend.
  - rewrite Forall_forall in *. intros l Hl'. specialize (Il l Hl'). unfold live_ok in *.
    destruct Il as (A & B & C). split; [assumption|split; [|assumption]].
    rewrite <- B. apply rd_same. now apply Hs.
  - destruct (rbuf st) as [s|] eqn:Hb; [|assumption].
    destruct Ic as [C1 C2]. split; [|assumption]. rewrite <- C1. apply rd_same. apply Hs. now apply Hcur.
Qed.

Lemma rinv_valid S st e b : rinv S st e -> In b (rowned st ++ rcaller st) -> (b < length (wh (ew e)))%nat.
Proof.
  intros Hi Hb. destruct (einv_sep3 _ _ _ _ (rv_e _ _ _ Hi)) as [_ Sv _]. rewrite Forall_forall in Sv. apply Sv. exact Hb.
Qed.

(* phase 1 of acquireSlow: the first buffer *)
Lemma rinv_first_buf S st e m e' b :
  rinv S st e -> rbuf st = None -> e_malloc e m = (e', b) ->
  rinv S (set_buf st (Some (mkS b 0 0 (pow2ceil m))) false (rpend st)) e'.
Proof.
  intros Hi Hb Em. destruct (einv_malloc _ _ _ _ _ _ _ (rv_e _ _ _ Hi) Em) as (A1 & A2 & A3 & [A4 A5]).
  cbn [app] in A2, A4.
  assert (Hrow : rowned (set_buf st (Some (mkS b 0 0 (pow2ceil m))) false (rpend st)) = b :: rowned st).
  { unfold rowned, set_buf. cbn [rbuf rro rpend sblk]. rewrite Hb. reflexivity. }
  pose proof (rshape_frame _ _ _ _ (rinv_shape _ _ _ Hi) A4) as [IS Ib Ip Il Ic].
  rewrite Hb in Ib, Ic.
  apply rinv_of; [rewrite Hrow; exact A1|].
  split; cbn [set_buf rsrc rbuf rri rro rpend rlive rcur rcaller sblk soff sln scp]; try assumption.
  - rewrite A3. pose proof (pow2ceil_pos m). repeat split; lia.
  - rewrite Forall_forall in *. intros l Hl. specialize (Il l Hl). unfold live_ok in *. rewrite Hb in Il.
    rewrite Hrow. cbn [set_buf rbuf rcaller sblk soff sln]. destruct Il as (A & B & _).
    split; [cbn [app In]; tauto|split; [assumption|]]. intros Heq. exfalso. apply A2. now rewrite <- Heq.
  - rewrite Ib. replace (0 - 0) with 0 by lia. unfold rd, seg_at. cbn [take N.to_nat firstn]. split; [reflexivity|lia].
Qed.

Lemma rowned_grow st s nb x c :
  rbuf st = Some s ->
  Permutation (nb :: rowned st)
    (rowned (set_buf st (Some (mkS nb 0 x c)) false (if rro st then rpend st else rpend st ++ [s]))).
Proof.
  intros Hb. unfold rowned, set_buf. cbn [rbuf rro rpend sblk]. rewrite Hb.
  destruct (rro st); cbn [app]; [apply Permutation_refl|].
  apply perm_skip. rewrite map_app. cbn [map]. apply Permutation_cons_append.
Qed.

(* phase 2 of acquireSlow: growth — allocate, park the old buffer (unless it is the caller's),
   copy the unread bytes *)
Lemma rinv_grow S st e s n :
  rinv S st e -> rbuf st = Some s ->
  let ncap := grow_until (loop_fuel n) (scp s * 2) (rri st) n in
  forall e' nb, e_malloc e ncap = (e', nb) ->
  let pd := if rro st then rpend st else rpend st ++ [s] in
  let cn := N.min (ncap - rri st) (sln s - rri st) in
  let '(e'', v) := e_read e' (sblk s) (soff s + rri st) cn in
  let e''' := e_write e'' nb (rri st) v in
  rinv S (set_buf st (Some (mkS nb 0 (rri st + cn) (pow2ceil ncap))) false pd) e'''.
Proof.
  intros Hi Hb ncap e' nb Em pd cn.
  destruct (einv_malloc _ _ _ _ _ _ _ (rv_e _ _ _ Hi) Em) as (A1 & A2 & A3 & [A4 A5]).
  cbn [app] in A2, A4.
  pose proof (rshape_frame _ _ _ _ (rinv_shape _ _ _ Hi) A4) as [IS Ib Ip Il Ic].
  rewrite Hb in Ib, Ic. destruct Ib as (B1 & B2 & B0 & B3 & B4). destruct Ic as [C1 C2].
  assert (Hcur : In (sblk s) (rowned st ++ rcaller st)).
  { rewrite in_app_iff. destruct (rro st) eqn:Er; [right; tauto|left; now apply In_rowned_cur]. }
  assert (Hnb : nb <> sblk s) by (intros ->; tauto).
  assert (Hge : scp s * 2 <= ncap) by apply grow_until_ge.
  assert (Hcn : cn = sln s - rri st) by (unfold cn; lia).
  (* read *)
  assert (Hr : In (sblk s) ((nb :: rowned st) ++ [] ++ rcaller st)) by (cbn [app In]; tauto).
  destruct (einv_read _ _ _ _ _ (soff s + rri st) cn A1 Hr) as (R1 & R2 & R3).
  destruct (e_read e' (sblk s) (soff s + rri st) cn) as [e'' v] eqn:Erd. cbn [fst snd] in R1, R2, R3.
  assert (Hv : v = rd (wh (ew e')) (sblk s) (soff s + rri st) cn) by (rewrite R3; reflexivity).
  assert (Hlv : len v = cn). { rewrite Hv. apply rd_len. lia. }
  (* write *)
  assert (Hwb : rri st + len v <= len (block (wh (ew e'')) nb)).
  { rewrite R2, A3, Hlv. pose proof (pow2ceil_ge ncap). lia. }
  destruct (einv_write _ _ _ _ nb (rri st) v R1 (or_introl eq_refl) Hwb) as (W1 & W2 & W3 & [W4 W5]).
  set (e3 := e_write e'' nb (rri st) v) in *.
  assert (Hvalid' : forall b, In b (rowned st ++ rcaller st) -> (b < length (wh (ew e')))%nat).
  { intros b Hx. destruct A5 as [Hl _]. pose proof (rinv_valid _ _ _ _ Hi Hx). lia. }
  apply rinv_of.
  - eapply einv_perm; [|exact W1]. now apply rowned_grow.
  - assert (Hsame : forall b, In b (rowned st ++ rcaller st) -> block (wh (ew e3)) b = block (wh (ew e')) b).
    { intros b Hx. rewrite W3; [now rewrite R2|]. intros ->. tauto. }
    split; cbn [set_buf rsrc rbuf rri rro rpend rlive rcur rcaller sblk soff sln scp]; try assumption.
    + rewrite W5 by (rewrite R2; destruct (einv_sep3 _ _ _ _ A1) as [_ Sv _]; inversion Sv; assumption).
      rewrite R2, A3. pose proof (pow2ceil_pos ncap). pose proof (pow2ceil_ge ncap). repeat split; lia.
    + unfold pd. assert (Hp' : Forall (whole (wh (ew e3))) (rpend st)).
      { rewrite Forall_forall in *. intros p Hp. specialize (Ip p Hp). unfold whole in *.
        rewrite Hsame; [assumption|]. rewrite in_app_iff. left. now apply In_rowned_pend. }
      destruct (rro st) eqn:Ero; [assumption|]. apply Forall_app. split; [assumption|].
      constructor; [|constructor]. unfold whole. rewrite Hsame by assumption. destruct B4 as [B4a B4b]. repeat split; assumption.
    + rewrite Forall_forall in *. intros l Hl. specialize (Il l Hl). unfold live_ok in *. rewrite Hb in Il.
      destruct Il as (A & B & _). cbn [set_buf rbuf rcaller sblk soff sln].
      split; [|split].
      * rewrite in_app_iff in A. rewrite in_app_iff. destruct A as [A|A]; [left|right; assumption].
        eapply Permutation_in; [apply rowned_grow; eassumption|]. now right.
      * rewrite <- B. apply rd_same. now apply Hsame.
      * intros Heq. exfalso. apply A2. now rewrite <- Heq.
    + replace (rri st + cn - rri st) with cn by lia. replace (0 + rri st) with (rri st) by lia.
      split; [|lia]. rewrite <- Hlv at 1. rewrite (rd_splice_at _ _ _ _ _ W2) by (rewrite R2, A3; pose proof (pow2ceil_ge ncap); lia).
      rewrite Hv, Hcn. exact C1.
Qed.

Lemma buf_cap_zero S st e : rinv S st e -> (buf_cap st =? 0) = true -> rbuf st = None.
Proof.
  intros Hi H. apply N.eqb_eq in H. unfold buf_cap in H. pose proof (rv_buf _ _ _ Hi) as Hb.
  destruct (rbuf st) as [s|]; [|reflexivity]. lia.
Qed.

Lemma phase2_inv S st1 e1 n st' e' m :
  rinv S st1 e1 ->
  (let '(st2, e2) :=
     match rbuf st1 with
     | None => (st1, e1)
     | Some s =>
       if scp s - rri st1 <? n then
         let ncap := grow_until (loop_fuel n) (scp s * 2) (rri st1) n in
         let '(e', nb) := e_malloc e1 ncap in
         let pd := if rro st1 then rpend st1 else rpend st1 ++ [s] in
         let cn := N.min (ncap - rri st1) (sln s - rri st1) in
         let '(e'', v) := e_read e' (sblk s) (soff s + rri st1) cn in
         let e''' := e_write e'' nb (rri st1) v in
         (set_buf st1 (Some (mkS nb 0 (rri st1 + cn) (pow2ceil ncap))) false pd, e''')
       else (st1, e1)
     end in
   read_loop (Datatypes.S (length (sdata (rsrc st2)))) max_empty st2 e2 n) = (st', e', m) ->
  rinv S st' e' /\ m <= buf_len st' - rri st'.
Proof.
  intros Hi E.
  destruct (rbuf st1) as [s|] eqn:Hb.
  - destruct (scp s - rri st1 <? n) eqn:Eg.
    + cbv zeta in E. destruct (e_malloc e1 _) as [e2 nb] eqn:Em2.
      pose proof (rinv_grow _ _ _ _ n Hi Hb _ _ Em2) as Hg. cbv zeta in Hg.
      destruct (e_read e2 (sblk s) (soff s + rri st1) _) as [e3 v] eqn:Erd.
      eapply read_loop_inv; [exact Hg|exact E].
    + eapply read_loop_inv; [exact Hi|exact E].
  - eapply read_loop_inv; [exact Hi|exact E].
Qed.

Lemma acquire_slow_inv S st e n st' e' m :
  rinv S st e -> acquire_slow st e n = (st', e', m) ->
  rinv S st' e' /\ m <= buf_len st' - rri st'.
Proof.
  intros Hi E. unfold acquire_slow in E.
  destruct (rerr st); [inversion E; subst; split; [assumption|lia]|].
  destruct (buf_cap st =? 0) eqn:Ec.
  - pose proof (buf_cap_zero _ _ _ Hi Ec) as Hnone.
    destruct (e_malloc e _) as [e1 b] eqn:Em.
    pose proof (rinv_first_buf _ _ _ _ _ _ Hi Hnone Em) as Hi1.
    eapply phase2_inv; [exact Hi1|exact E].
  - eapply phase2_inv; [exact Hi|exact E].
Qed.

Lemma acquire_inv S st e n st' e' m :
  rinv S st e -> acquire st e n = (st', e', m) ->
  rinv S st' e' /\ m <= buf_len st' - rri st'.
Proof.
  intros Hi E. unfold acquire in E. destruct (N.leb_spec n (buf_len st - rri st)).
  - inversion E; subst. split; assumption.
  - eapply acquire_slow_inv; eassumption.
Qed.

Lemma advance_inv S st e n : rinv S st e -> n <= buf_len st - rri st -> rinv S (advance st n) e.
Proof.
  intros [Ie IS Ib Ip Il Ic] Hn. unfold buf_len in Hn.
  split; cbn [advance rbuf rro rpend rri rsrc rlive rcaller rcur]; try assumption.
  - destruct (rbuf st) as [s|]; [|lia]. destruct Ib as (B1 & B2 & B0 & B3 & B4). repeat split; try assumption; lia.
  - destruct (rbuf st) as [s|]; [|lia]. destruct Ic as [C1 C2]. split; [|lia].
    replace (soff s + (rri st + n)) with (soff s + rri st + n) by lia.
    replace (sln s - (rri st + n)) with (sln s - rri st - n) by lia.
    rewrite <- rd_drop, C1, seg_at_drop. reflexivity.
Qed.

Lemma add_live_inv S st e n v l :
  rinv S st e -> n <= buf_len st - rri st -> hand_out st e n = (v, l) -> rinv S (add_live st l) e.
Proof.
  intros Hi Hn Hh. unfold hand_out in Hh. destruct (rbuf st) as [s|] eqn:Hb.
  - destruct (n =? 0); inversion Hh; subst; clear Hh; [assumption|]. unfold buf_len in Hn. rewrite Hb in Hn.
    destruct Hi as [Ie IS Ib Ip Il Ic].
    split; cbn [add_live rbuf rro rpend rri rsrc rlive rcaller rcur]; try assumption.
    constructor; [|assumption]. unfold live_ok. cbn [lblk loff llen lpos add_live rbuf rcaller].
    assert (Hrow : rowned (add_live st (Some (mkL (sblk s) (soff s + rri st) n (rcur st)))) = rowned st) by reflexivity.
    rewrite Hb in *. destruct Ib as (B1 & B2 & B0 & B3 & B4). destruct Ic as [C1 C2].
    split; [|split].
    + rewrite in_app_iff. destruct (rro st) eqn:Er; [right; tauto|left]. unfold rowned. cbn [rbuf rro rpend app sblk In]. tauto.
    + rewrite <- (rd_take _ _ _ n (sln s - rri st)) by lia. rewrite C1. apply seg_at_take. lia.
    + intros _. lia.
  - inversion Hh; subst. assumption.
Qed.

Lemma h_next_inv S st e n st' e' out : rinv S st e -> h_next st e n = (st', e', out) -> rinv S st' e'.
Proof.
  intros Hi E. unfold h_next in E. destruct (n <? 0)%Z; [inversion E; subst; assumption|].
  destruct (acquire st e (Z.to_N n)) as [[st1 e1] m] eqn:Ea.
  destruct (acquire_inv _ _ _ _ _ _ _ Hi Ea) as [Hi1 Hm].
  destruct (N.ltb_spec m (Z.to_N n)); [inversion E; subst; assumption|].
  destruct (hand_out st1 e1 (Z.to_N n)) as [v l] eqn:Eh. inversion E; subst; clear E.
  apply advance_inv.
  - eapply add_live_inv; [eassumption| |eassumption]. lia.
  - assert (buf_len (add_live st1 l) = buf_len st1 /\ rri (add_live st1 l) = rri st1) as [-> ->] by (destruct l; split; reflexivity). lia.
Qed.

Lemma h_peek_inv S st e n st' e' out : rinv S st e -> h_peek st e n = (st', e', out) -> rinv S st' e'.
Proof.
  intros Hi E. unfold h_peek in E. destruct (n <? 0)%Z; [inversion E; subst; assumption|].
  destruct (acquire st e (Z.to_N n)) as [[st1 e1] m] eqn:Ea.
  destruct (acquire_inv _ _ _ _ _ _ _ Hi Ea) as [Hi1 Hm].
  destruct (N.ltb_spec m (Z.to_N n)); [inversion E; subst; assumption|].
  destruct (hand_out st1 e1 (Z.to_N n)) as [v l] eqn:Eh. inversion E; subst; clear E.
  eapply add_live_inv; [eassumption| |eassumption]. lia.
Qed.

Lemma h_skip_inv S st e n st' e' out : rinv S st e -> h_skip st e n = (st', e', out) -> rinv S st' e'.
Proof.
  intros Hi E. unfold h_skip in E. destruct (n <? 0)%Z; [inversion E; subst; assumption|].
  destruct (acquire st e (Z.to_N n)) as [[st1 e1] m] eqn:Ea.
  destruct (acquire_inv _ _ _ _ _ _ _ Hi Ea) as [Hi1 Hm].
  destruct (N.ltb_spec m (Z.to_N n)); [inversion E; subst; assumption|].
  inversion E; subst; clear E. apply advance_inv; [assumption|lia].
Qed.

Lemma h_readbinary_inv S st e k st' e' out : rinv S st e -> h_readbinary st e k = (st', e', out) -> rinv S st' e'.
Proof.
  intros Hi E. unfold h_readbinary in E.
  destruct (acquire st e k) as [[st1 e1] m] eqn:Ea.
  destruct (acquire_inv _ _ _ _ _ _ _ Hi Ea) as [Hi1 Hm].
  destruct (rbuf st1) as [s|] eqn:Hb.
  - destruct (e_read e1 (sblk s) (soff s + rri st1) (N.min m k)) as [e2 v] eqn:Er. inversion E; subst; clear E.
    assert (Hin : In (sblk s) (rowned st1 ++ [] ++ rcaller st1)) by (eapply cur_in_foot; eassumption).
    destruct (einv_read _ _ _ _ _ (soff s + rri st1) (N.min m k) (rv_e _ _ _ Hi1) Hin) as (R1 & R2 & _).
    rewrite Er in R1, R2. cbn [fst] in R1, R2.
    apply advance_inv; [|assumption].
    apply rinv_of; [assumption|]. rewrite R2. now apply rinv_shape.
  - inversion E; subst; clear E. apply advance_inv; assumption.
Qed.

(* Release: every parked buffer goes back to the pool *)
Lemma free_all_inv R : forall pd Y e,
  einv X (Y ++ map sblk pd) [] R e -> Forall (whole (wh (ew e))) pd ->
  einv X Y [] R (free_all e pd) /\ frame (Y ++ [] ++ R) e (free_all e pd).
Proof.
  induction pd as [|p pd IH]; intros Y e Hi Hw; cbn [free_all map].
  - rewrite app_nil_r in Hi. split; [assumption|apply frame_refl].
  - cbn [map] in Hi. inversion Hw as [|? ? Hp Hr]; subst. destruct Hp as (P1 & P2 & P3).
    assert (Hi' : einv X (sblk p :: Y ++ map sblk pd) [] R e).
    { eapply einv_perm; [|exact Hi]. apply Permutation_sym, Permutation_middle. }
    destruct (einv_free _ _ _ _ p Hi' (or_introl eq_refl) P1 P2) as (F1 & F2 & F3).
    cbn [remove1] in F1, F2. rewrite Nat.eqb_refl in F1, F2.
    assert (Hw' : Forall (whole (wh (ew (e_free e p)))) pd).
    { rewrite Forall_forall in *. intros q Hq. specialize (Hr q Hq). unfold whole in *.
      destruct F2 as [F2 _]. rewrite (F2 (sblk q)); [assumption|]. rewrite !in_app_iff. left. right. now apply in_map. }
    destruct (IH Y _ F1 Hw') as (G1 & G2). split; [assumption|].
    eapply frame_trans; [|exact G2]. eapply frame_incl; [|exact F2].
    intros x. rewrite !in_app_iff. tauto.
Qed.

Lemma h_release_inv S st e st' e' : rinv S st e -> h_release st e = (st', e') -> rinv S st' e'.
Proof.
  intros Hi E. unfold h_release in E.
  set (Y := match rbuf st with Some s => if rro st then [] else [sblk s] | None => [] end).
  assert (Hrow : rowned st = Y ++ map sblk (rpend st)) by reflexivity.
  pose proof (rv_e _ _ _ Hi) as Hie. rewrite Hrow in Hie.
  destruct (free_all_inv _ _ _ _ Hie (rv_pend _ _ _ Hi)) as (F1 & [F2 F3]).
  set (e1 := free_all e (rpend st)) in *.
  assert (Hsub : incl (Y ++ [] ++ rcaller st) (rowned st ++ rcaller st)).
  { rewrite Hrow. intros x. rewrite !in_app_iff. cbn [In]. tauto. }
  destruct (rinv_shape _ _ _ Hi) as [IS Ib Ip Il Ic].
  assert (Hvalid : forall b, In b (rowned st ++ rcaller st) -> (b < length (wh (ew e)))%nat)
    by (intros b Hb; eapply rinv_valid; eassumption).
  destruct (rbuf st) as [s|] eqn:Hb.
  - destruct Ib as (B1 & B2 & B0 & B3 & B4). destruct Ic as [C1 C2].
    assert (HcurX : In (sblk s) (Y ++ [] ++ rcaller st)).
    { unfold Y. destruct (rro st); cbn [app In]; tauto. }
    assert (Hblk : block (wh (ew e1)) (sblk s) = block (wh (ew e)) (sblk s)) by (apply F2; assumption).
    destruct (sln s - rri st =? 0) eqn:Ez.
    + apply N.eqb_eq in Ez. destruct (stat_update (rstats st) (rsidx st) (scp s)) as [bk bi].
      assert (Hsh : forall e2, rshape S (mkR None (rro st) [] 0 (rerr st) (rsrc st) bk bi [] (rcaller st) (rcur st)) (wh (ew e2))).
      { intros e2. split; cbn [rbuf rsrc rri rpend rlive rcur]; try assumption; try apply Forall_nil; lia. }
      destruct (rro st) eqn:Ero; cbn [negb andb] in E.
      * inversion E; subst; clear E. apply rinv_of; [|apply Hsh]. exact F1.
      * assert (0 <? scp s = true) as Hpos by lia. rewrite Hpos in E. inversion E; subst; clear E.
        destruct B4 as [B4a B4b].
        assert (Hfree : einv X (remove1 (sblk s) [sblk s]) [] (rcaller st) (e_free e1 s)).
        { apply einv_free; [exact F1|now left|assumption|]. rewrite Hblk. assumption. }
        cbn [remove1] in Hfree. rewrite Nat.eqb_refl in Hfree.
        apply rinv_of; [exact Hfree|apply Hsh].
    + apply N.eqb_neq in Ez. destruct (rro st) eqn:Ero.
      * inversion E; subst; clear E. destruct B4 as [B4a B4b].
        apply rinv_of; [exact F1|].
        split; cbn [rbuf rsrc rri rro rpend rlive rcur rcaller sblk soff sln scp]; try assumption; try apply Forall_nil.
        -- rewrite Hblk. repeat split; try assumption; lia.
        -- rewrite N.add_0_r, N.sub_0_r. split; [|assumption]. rewrite <- C1. apply rd_same. exact Hblk.
      * destruct B4 as [B4a B4b].
        assert (Hin : In (sblk s) ([sblk s] ++ [] ++ rcaller st)) by (cbn; tauto).
        destruct (einv_read _ _ _ _ _ (soff s + rri st) (sln s - rri st) F1 Hin) as (R1 & R2 & R3).
        destruct (e_read e1 (sblk s) (soff s + rri st) (sln s - rri st)) as [e2 v] eqn:Erd. cbn [fst snd] in R1, R2, R3.
        injection E as Est Ee. rewrite <- Est, <- Ee. clear Est Ee.
        assert (Hv : v = rd (wh (ew e1)) (sblk s) (soff s + rri st) (sln s - rri st)) by (rewrite R3; reflexivity).
        assert (Hlv : len v = sln s - rri st). { rewrite Hv. apply rd_len. rewrite Hblk. lia. }
        assert (Hwb : soff s + len v <= len (block (wh (ew e2)) (sblk s))) by (rewrite R2, Hblk; lia).
        destruct (einv_write _ _ _ _ (sblk s) (soff s) v R1 (or_introl eq_refl) Hwb) as (W1 & W2 & W3 & [W4 W5]).
        apply rinv_of; [exact W1|].
        split; cbn [rbuf rsrc rri rro rpend rlive rcur rcaller sblk soff sln scp]; try assumption; try apply Forall_nil.
        -- rewrite W5 by (rewrite R2; destruct (einv_sep3 _ _ _ _ F1) as [_ Sv _]; inversion Sv; assumption).
           rewrite R2, Hblk. repeat split; try assumption; lia.
        -- rewrite N.add_0_r, N.sub_0_r. split; [|assumption]. rewrite <- Hlv.
           rewrite (rd_splice_at _ _ _ _ _ W2) by (rewrite R2, Hblk; lia).
           rewrite Hlv, <- C1, Hv. apply rd_same. exact Hblk.
  - destruct (stat_update (rstats st) (rsidx st) 0) as [bk bi]. inversion E; subst; clear E.
    apply rinv_of; [exact F1|].
    split; cbn [rbuf rsrc rri rpend rlive rcur]; try assumption; try apply Forall_nil. reflexivity.
Qed.

Lemma sd_peeks_inv S : forall sizes st e rn st' e' x rn',
  rinv S st e -> sd_peeks st e rn sizes = (st', e', x, rn') -> rinv S st' e'.
Proof.
  induction sizes as [|n r IH]; intros st e rn st' e' x rn' Hi E; cbn [sd_peeks] in E.
  - inversion E; subst; assumption.
  - destruct (h_peek st e (Z.of_N (rn + n))) as [[st1 e1] o] eqn:Ep.
    pose proof (h_peek_inv _ _ _ _ _ _ _ Hi Ep) as Hi1.
    destruct o; try (inversion E; subst; assumption). eapply IH; eassumption.
Qed.

Lemma h_step_inv S st e o st' e' out : rinv S st e -> h_step st e o = (st', e', out) -> rinv S st' e'.
Proof.
  intros Hi E. destruct o; cbn [h_step] in E.
  - eapply h_next_inv; eassumption.
  - eapply h_peek_inv; eassumption.
  - eapply h_skip_inv; eassumption.
  - eapply h_readbinary_inv; eassumption.
  - inversion E; subst; assumption.
  - destruct (h_release st e) as [st1 e1] eqn:Er. inversion E; subst. eapply h_release_inv; eassumption.
  - unfold h_sdnext in E. destruct (sd_peeks st e 0 sizes) as [[[st1 e1] x] rn] eqn:Es.
    pose proof (sd_peeks_inv _ _ _ _ _ _ _ _ _ Hi Es) as Hi1.
    destruct x; [inversion E; subst; assumption|]. eapply h_next_inv; eassumption.
Qed.

(* the co-tenant between two operations *)
Lemma rinv_co S st e l al adv padv :
  rinv S st e -> rinv S st (mkE (co_run (ew e) l) al adv padv (eev e)).
Proof.
  intros Hi. destruct (einv_co _ _ _ _ _ l al adv padv (rv_e _ _ _ Hi)) as [A B].
  eapply rinv_frame; eassumption.
Qed.
Lemma rinv_env S st e e' : ew e' = ew e -> eev e' = eev e -> rinv S st e -> rinv S st e'.
Proof.
  intros Hw Ht Hi. apply rinv_of; [eapply einv_world; [exact Hw|exact Ht|exact (rv_e _ _ _ Hi)]|].
  rewrite Hw. now apply rinv_shape.
Qed.


Lemma run_step_inv S st w tr s st' w' tr' o :
  rinv S st (env_of w tr) -> run_step (st, w, tr) s = (st', w', tr', o) -> rinv S st' (env_of w' tr').
Proof.
  intros Hi E. destruct s as [op al adv padv|l]; cbn [run_step] in E.
  - destruct (h_step st (mkE w al adv padv tr) op) as [[st1 e1] out] eqn:Es. inversion E; subst; clear E.
    eapply rinv_env; [| |eapply h_step_inv; [|exact Es]]; try reflexivity.
    eapply rinv_env; [| |exact Hi]; reflexivity.
  - inversion E; subst; clear E. exact (rinv_co _ _ _ l [] [] [] Hi).
Qed.

Lemma run_inv S : forall h st w tr st' w' tr' outs,
  rinv S st (env_of w tr) -> run (st, w, tr) h = (st', w', tr', outs) -> rinv S st' (env_of w' tr').
Proof.
  induction h as [|s h IH]; intros st w tr st' w' tr' outs Hi E; cbn [run] in E.
  - inversion E; subst; assumption.
  - destruct (run_step (st, w, tr) s) as [[[st1 w1] tr1] o] eqn:Es.
    destruct (run (st1, w1, tr1) h) as [[[st2 w2] tr2] outs2] eqn:Er.
    inversion E; subst; clear E. eapply IH; [|exact Er]. eapply run_step_inv; eassumption.
Qed.

(* ---------- initial states ---------- *)
Definition xok (w : world) : Prop := wok w /\ sep (xblocks X) w /\ xsnap X (wh w).

Lemma rinv_new_reader src w :
  xok w -> spos src = 0 -> rinv (sdata src) (new_reader src) (env_of w []).
Proof.
  intros (Wk & Sx & Hx) Hs. apply rinv_of; [exact (einv_init X w Wk Sx Hx)|].
  split; cbn [new_reader rsrc rbuf rri rpend rlive rcur]; try apply Forall_nil; try reflexivity; try lia.
  split; [reflexivity|lia].
Qed.

Lemma rinv_new_bytes_reader w pre data spare st e :
  xok w -> new_bytes_reader (env_of w []) pre data spare = (st, e) -> rinv data st e.
Proof.
  intros (Wk & Sx & Hx) E. unfold new_bytes_reader in E. destruct (0 <? len data + len spare) eqn:Ec.
  - destruct (e_lend (env_of w []) (pre ++ data ++ spare) true) as [e1 b] eqn:El. inversion E; subst; clear E.
    destruct (einv_lend _ _ _ _ _ _ _ _ (einv_init X w Wk Sx Hx) El) as (A1 & A2 & A3 & A4 & A5).
    apply rinv_of; [exact A1|].
    split; cbn [rsrc rbuf rri rro rpend rlive rcur rcaller done_source sdata spos sblk soff sln scp];
      try apply Forall_nil; try reflexivity.
    + split; [reflexivity|lia].
    + rewrite A3, !len_app. repeat split; try lia. now left.
    + rewrite N.add_0_r, N.sub_0_r. split; [|lia]. unfold rd, seg_at. rewrite A3.
      rewrite drop_app_len. rewrite take_app_len. cbn [drop N.to_nat skipn]. symmetry. now apply take_all.
  - inversion E; subst; clear E. apply rinv_of; [exact (einv_init X w Wk Sx Hx)|].
    split; cbn [rsrc rbuf rri rpend rlive rcur done_source sdata spos]; try apply Forall_nil; try reflexivity; try lia. split; [reflexivity|lia].
Qed.

(* ---------- what the invariant gives ---------- *)
Definition live_intact (S : bytes) (st : hreader) (w : world) : Prop :=
  Forall (fun l => rd (wh w) (lblk l) (loff l) (llen l) = seg_at S (lpos l) (llen l)) (rlive st).

Lemma rinv_live S st e : rinv S st e -> live_intact S st (ew e).
Proof.
  intros Hi. unfold live_intact. pose proof (rv_live _ _ _ Hi) as Hl.
  rewrite Forall_forall in *. intros l Hx. now destruct (Hl l Hx) as (_ & B & _).
Qed.
Lemma rinv_trace S st e : rinv S st e ->
  no_use_after_free (rev (eev e)) /\ caller_untouched (rev (eev e)) /\ frees_whole_blocks (rev (eev e)).
Proof.
  intros Hi. destruct (rv_e _ _ _ Hi) as [_ _ (m & Hm & _) _]. eapply montr_spec; eassumption.
Qed.

End WithX.

Lemma xok_nil w : wok w -> xok [] w.
Proof. intros Wk. split; [assumption|split; [|constructor]]. split; [constructor|constructor|intros b []]. Qed.

Theorem reader_slices_stable src w0 h st w tr outs :
  wok w0 -> spos src = 0 -> run (new_reader src, w0, []) h = (st, w, tr, outs) ->
  live_intact (sdata src) st w.
Proof.
  intros Wk Hs E. pose proof (run_inv [] _ _ _ _ _ _ _ _ _ (rinv_new_reader [] src w0 (xok_nil w0 Wk) Hs) E) as Hi.
  exact (rinv_live [] _ _ _ Hi).
Qed.
Theorem bytes_reader_slices_stable w0 pre data spare st0 e0 h st w tr outs :
  wok w0 -> new_bytes_reader (env_of w0 []) pre data spare = (st0, e0) ->
  run (st0, ew e0, eev e0) h = (st, w, tr, outs) ->
  live_intact data st w.
Proof.
  intros Wk E0 E. pose proof (rinv_new_bytes_reader [] _ _ _ _ _ _ (xok_nil w0 Wk) E0) as Hi0.
  assert (Hi0' : rinv [] data st0 (env_of (ew e0) (eev e0))) by (eapply rinv_env; [| |exact Hi0]; reflexivity).
  pose proof (run_inv [] _ _ _ _ _ _ _ _ _ Hi0' E) as Hi. exact (rinv_live [] _ _ _ Hi).
Qed.
Theorem reader_trace_ok src w0 h st w tr outs :
  wok w0 -> spos src = 0 -> run (new_reader src, w0, []) h = (st, w, tr, outs) ->
  no_use_after_free (rev tr) /\ caller_untouched (rev tr) /\ frees_whole_blocks (rev tr).
Proof.
  intros Wk Hs E. pose proof (run_inv [] _ _ _ _ _ _ _ _ _ (rinv_new_reader [] src w0 (xok_nil w0 Wk) Hs) E) as Hi.
  exact (rinv_trace [] _ _ _ Hi).
Qed.
Theorem bytes_reader_trace_ok w0 pre data spare st0 e0 h st w tr outs :
  wok w0 -> new_bytes_reader (env_of w0 []) pre data spare = (st0, e0) ->
  run (st0, ew e0, eev e0) h = (st, w, tr, outs) ->
  no_use_after_free (rev tr) /\ caller_untouched (rev tr) /\ frees_whole_blocks (rev tr).
Proof.
  intros Wk E0 E. pose proof (rinv_new_bytes_reader [] _ _ _ _ _ _ (xok_nil w0 Wk) E0) as Hi0.
  assert (Hi0' : rinv [] data st0 (env_of (ew e0) (eev e0))) by (eapply rinv_env; [| |exact Hi0]; reflexivity).
  pose proof (run_inv [] _ _ _ _ _ _ _ _ _ Hi0' E) as Hi. exact (rinv_trace [] _ _ _ Hi).
Qed.
