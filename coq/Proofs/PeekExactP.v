(* Proofs/PeekExactP.v — SkipDecoder (Peek-accumulate over a bufiox reader): the SkipN contract
   on top of the reader's refinement interface (Proofs/BufReaderP.v, RInv / rinv_peek_ok /
   rinv_next_ok: the reader at stream position c of the stream D, script CH that cannot stall),
   and exactness of Next on encodings. *)
From GV Require Import Lib.Bytes Lib.Res Gen.Consts Model.Binary Model.BufReader Model.Skip Model.SkipDecoders
  Spec.ThriftGrammar Spec.Cursor Proofs.BufReaderLib Proofs.BufReaderP
  Proofs.RefLib Proofs.SkipLib Proofs.GrammarP Proofs.TskipExactP.
From Coq Require Import ZifyN ZifyNat ZifyBool Lia.
Open Scope N_scope.

Lemma drop_take_seg' {A} (l : list A) a n : drop a (take (a + n) l) = take n (drop a l).
Proof.
  unfold drop, take. replace (N.to_nat (a + n)) with (N.to_nat a + N.to_nat n)%nat by lia.
  symmetry. apply firstn_skipn_comm.
Qed.

(* the decoder, whose reader stands at position c0 of D with ReadLen rl0 and which has peeked
   pk_rn s bytes, will deliver exactly r next *)
Definition pk_rep (D : bytes) (F : Z) (CH : list N) (c0 rl0 : N) (s : pk_state) (r : bytes) : Prop :=
  RInv D F CH c0 (pk_r s) /\ may_stall CH = false /\ c0 + pk_rn s <= len D /\
  r = drop (c0 + pk_rn s) D /\ wf D /\ r_readlen (pk_r s) = rl0.

Lemma pk_SN_ok D F CH c0 rl0 : forall s r n, pk_rep D F CH c0 rl0 s r -> n <= len r ->
  exists s', pk_skipN s n = (s', Ok (take n r)) /\ pk_rep D F CH c0 rl0 s' (drop n r).
Proof.
  intros s r n (HI & Hns & Hle & Hr & W & Hrl) Hn.
  assert (Hlr : len r = len D - (c0 + pk_rn s)) by (rewrite Hr; apply drop_len; exact Hle).
  destruct (rinv_peek_ok D F CH c0 (pk_r s) (pk_rn s + n) HI Hns ltac:(lia)) as (st' & E & Hl & HI' & Hrl').
  unfold pk_skipN. rewrite E. unfold slice_from. rewrite Hl.
  destruct (N.leb_spec (pk_rn s) (pk_rn s + n)); [|lia].
  exists {| pk_r := st'; pk_rn := pk_rn s + n |}. split.
  - unfold seg_at. rewrite drop_take_seg'. rewrite drop_drop, <- Hr. reflexivity.
  - unfold pk_rep. cbn [pk_r pk_rn].
    split; [exact HI'|]. split; [exact Hns|]. split; [lia|]. split; [|split; [exact W|congruence]].
    rewrite Hr, drop_drop. f_equal. lia.
Qed.

Lemma pk_rep_wf D F CH c0 rl0 : forall s r, pk_rep D F CH c0 rl0 s r -> wf r.
Proof. intros s r (_ & _ & _ & -> & W & _). apply wf_drop. exact W. Qed.

(* SkipDecoder.Next when the reader stands at a position c of the stream where enc v ++ rest
   begins, for every script that cannot stall (no run of maxConsecutiveEmptyReads empty reads):
   Next returns exactly enc v, the reader's cursor and ReadLen advance by exactly |enc v| *)
Theorem pk_next_exact D F CH c (s : pk_state) t v rest :
  RInv D F CH c (pk_r s) -> may_stall CH = false -> wf D -> drop c D = enc v ++ rest ->
  wt t v = true -> (ch v <= 63)%nat ->
  exists s', pk_next s t = (s', Ok (enc v)) /\
             RInv D F CH (c + len (enc v)) (pk_r s') /\
             r_readlen (pk_r s') = r_readlen (pk_r s) + len (enc v).
Proof.
  intros HI Hns W Hd Hw Hc.
  pose proof (rinv_cursor_le _ _ _ _ _ HI) as Hcle.
  assert (Hlen : len (enc v) + len rest = len D - c).
  { rewrite <- len_app, <- Hd. apply drop_len. exact Hcle. }
  unfold pk_next, pk_next_depth. rewrite depth_ok.
  set (s0 := {| pk_r := pk_r s; pk_rn := 0 |}).
  assert (HR : pk_rep D F CH c (r_readlen (pk_r s)) s0 (enc v ++ rest)).
  { unfold pk_rep, s0. cbn [pk_r pk_rn]. rewrite N.add_0_r.
    split; [exact HI|]. split; [exact Hns|]. split; [lia|]. split; [symmetry; exact Hd|]. split; [exact W|reflexivity]. }
  destruct (tskip_exact pk_state pk_skipN (pk_rep D F CH c (r_readlen (pk_r s)))
              (pk_SN_ok D F CH c _) (pk_rep_wf D F CH c _)
              (pk_fuel (pk_r s)) s0 t v rest HR Hw Hc) as [s1 [E (HI1 & _ & Hle1 & Hr1 & _ & Hrl1)]].
  { unfold pk_fuel. pose proof (inv_avail _ _ _ _ _ _ HI) as Ha.
    assert (len (drop (spos (src (pk_r s))) (sdata (src (pk_r s)))) <= len (sdata (src (pk_r s)))).
    { rewrite len_drop. lia. }
    unfold len in *. lia. }
  rewrite E. cbn [sbind].
  assert (Hn1 : pk_rn s1 = len (enc v)).
  { apply (f_equal len) in Hr1. rewrite drop_len in Hr1 by exact Hle1. lia. }
  destruct (rinv_next_ok D F CH c (pk_r s1) (pk_rn s1) HI1 Hns ltac:(lia)) as (st' & En & _ & HI' & Hrl).
  rewrite En. exists {| pk_r := st'; pk_rn := pk_rn s1 |}. split.
  - unfold seg_at. rewrite Hd, Hn1, take_app_len. reflexivity.
  - cbn [pk_r]. rewrite Hn1 in *. split; [exact HI'|]. rewrite Hrl, Hrl1. reflexivity.
Qed.
