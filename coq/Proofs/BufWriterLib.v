(* Proofs/BufWriterLib.v — general list lemmas (take/drop/psplice/set_nth/Forall2) used by the
   buffered-writer proofs (C05).  Nothing here mentions the writer. *)
From GV Require Import Lib.Bytes Lib.Heap Spec.Log.
From Coq Require Import ZifyN ZifyNat ZifyBool.
Open Scope N_scope.

Section Gen.
Context {A : Type}.
Implicit Types l a b v : list A.

Lemma len_take l n : len (take n l) = N.min n (len l).
Proof. unfold take, len. rewrite firstn_length. lia. Qed.

Lemma len_drop l n : len (drop n l) = len l - n.
Proof. unfold drop, len. rewrite skipn_length. lia. Qed.

Lemma take_0 l : take 0 l = [].
Proof. reflexivity. Qed.

Lemma take_all l n : len l <= n -> take n l = l.
Proof. unfold take, len. intros H. apply firstn_all2. lia. Qed.

Lemma drop_all l n : len l <= n -> drop n l = [].
Proof. unfold drop, len. intros H. apply skipn_all2. lia. Qed.

Lemma take_app_le a b n : n <= len a -> take n (a ++ b) = take n a.
Proof.
  unfold take, len. intros H. rewrite firstn_app.
  replace (N.to_nat n - length a)%nat with 0%nat by lia. cbn [firstn]. apply app_nil_r.
Qed.

Lemma take_app_ge a b n : len a <= n -> take n (a ++ b) = a ++ take (n - len a) b.
Proof.
  unfold take, len. intros H. rewrite firstn_app. rewrite firstn_all2 by lia.
  f_equal. f_equal. lia.
Qed.

Lemma drop_app_le a b n : n <= len a -> drop n (a ++ b) = drop n a ++ b.
Proof.
  unfold drop, len. intros H. rewrite skipn_app.
  replace (N.to_nat n - length a)%nat with 0%nat by lia. reflexivity.
Qed.

Lemma drop_app_ge a b n : len a <= n -> drop n (a ++ b) = drop (n - len a) b.
Proof.
  unfold drop, len. intros H. rewrite skipn_app. rewrite skipn_all2 by lia.
  cbn [app]. f_equal. lia.
Qed.

Lemma take_take l n m : take n (take m l) = take (N.min n m) l.
Proof. unfold take. rewrite firstn_firstn. f_equal. lia. Qed.

Lemma drop_take l n m : drop n (take m l) = take (m - n) (drop n l).
Proof. unfold drop, take. rewrite skipn_firstn_comm. f_equal. lia. Qed.

Lemma take_add l n m : take (n + m) l = take n l ++ take m (drop n l).
Proof.
  unfold take, drop. replace (N.to_nat (n + m)) with (N.to_nat n + N.to_nat m)%nat by lia.
  apply firstn_plus.
Qed.

Lemma len_psplice l off v : off + len v <= len l -> len (psplice l off v) = len l.
Proof. intros H. unfold psplice. rewrite !len_app, len_take, len_drop. lia. Qed.

Lemma psplice_nil l off : psplice l off [] = l.
Proof.
  unfold psplice. cbn [app]. change (len (@nil A)) with 0. rewrite N.add_0_r. apply take_drop.
Qed.

Lemma psplice_app_l a b off v :
  off + len v <= len a -> psplice (a ++ b) off v = psplice a off v ++ b.
Proof.
  intros H. unfold psplice. rewrite take_app_le by lia. rewrite drop_app_le by lia.
  now rewrite <- !app_assoc.
Qed.

Lemma psplice_app_r a b off v :
  len a <= off -> psplice (a ++ b) off v = a ++ psplice b (off - len a) v.
Proof.
  intros H. unfold psplice. rewrite take_app_ge by lia. rewrite drop_app_ge by lia.
  rewrite <- app_assoc. replace (off + len v - len a) with (off - len a + len v) by lia. reflexivity.
Qed.

(* appending at the end then storing over the appended part *)
Lemma psplice_tail a d v : len d = len v -> psplice (a ++ d) (len a) v = a ++ v.
Proof.
  intros H. unfold psplice. rewrite take_app_len.
  rewrite drop_all by (rewrite len_app; lia). now rewrite app_nil_r.
Qed.

(* a window of a spliced list: the splice lies inside the window *)
Lemma window_psplice_in l from k p v :
  from <= p -> p + len v <= from + k -> from + k <= len l ->
  take k (drop from (psplice l p v)) = psplice (take k (drop from l)) (p - from) v.
Proof.
  intros H1 H2 H3. unfold psplice.
  assert (E : len (drop from (take p l)) = p - from) by (rewrite len_drop, len_take; lia).
  rewrite drop_app_le by (rewrite len_take; lia).
  rewrite (take_app_ge (drop from (take p l))) by lia.
  rewrite (take_app_ge v) by lia.
  rewrite E.
  rewrite (drop_take l from p), take_take, (drop_take (drop from l)), !drop_drop.
  replace (N.min (p - from) k) with (p - from) by lia.
  replace (k - (p - from + len v)) with (k - (p - from) - len v) by lia.
  replace (from + (p - from + len v)) with (p + len v) by lia.
  reflexivity.
Qed.

(* the splice lies after the window *)
Lemma window_psplice_before l from k p v :
  from + k <= p -> p <= len l -> take k (drop from (psplice l p v)) = take k (drop from l).
Proof.
  intros H Hp. unfold psplice.
  rewrite drop_app_le by (rewrite len_take; lia).
  rewrite take_app_le by (rewrite len_drop, len_take; lia).
  rewrite drop_take, take_take. f_equal. lia.
Qed.

(* the splice lies before the window *)
Lemma window_psplice_after l from p v :
  p + len v <= from -> p + len v <= len l -> drop from (psplice l p v) = drop from l.
Proof.
  intros H1 H2. unfold psplice. rewrite app_assoc.
  rewrite drop_app_ge by (rewrite len_app, len_take; lia).
  rewrite len_app, len_take, drop_drop. f_equal. lia.
Qed.

Lemma take_psplice_after l n p v :
  n <= p -> p <= len l -> take n (psplice l p v) = take n l.
Proof.
  intros H Hp. unfold psplice. rewrite take_app_le by (rewrite len_take; lia).
  rewrite take_take. f_equal. lia.
Qed.

(* set_nth *)
Lemma set_nth_same (i : nat) (l : list A) d : set_nth i (nth i l d) l = l.
Proof.
  revert i; induction l as [|x l IH]; intros [|i]; cbn [set_nth nth]; try reflexivity.
  f_equal. apply IH.
Qed.

Lemma set_nth_out (i : nat) (x : A) (l : list A) : (length l <= i)%nat -> set_nth i x l = l.
Proof.
  revert i; induction l as [|y l IH]; intros [|i] H; cbn [set_nth length] in *; auto; try lia.
  f_equal. apply IH. lia.
Qed.

Lemma nth_app_new (l : list A) (x d : A) : nth (length l) (l ++ [x]) d = x.
Proof. rewrite app_nth2 by lia. now rewrite Nat.sub_diag. Qed.

End Gen.

(* ---------- matches ---------- *)
Lemma matches_len s b : matches s b -> len s = len b.
Proof. intros H. unfold len. f_equal. induction H; cbn [length]; congruence. Qed.

Lemma matches_app s1 b1 s2 b2 : matches s1 b1 -> matches s2 b2 -> matches (s1 ++ s2) (b1 ++ b2).
Proof. apply Forall2_app. Qed.

Lemma matches_some b : matches (map Some b) b.
Proof. induction b as [|x b IH]; constructor; [right; reflexivity | exact IH]. Qed.

Lemma matches_none (b : bytes) : matches (repeat None (length b)) b.
Proof. induction b as [|x b IH]; constructor; [left; reflexivity | exact IH]. Qed.

Lemma matches_firstn n s b : matches s b -> matches (firstn n s) (firstn n b).
Proof.
  unfold matches. intros H. revert n.
  induction H as [|o x s b Hx H IH]; intros [|n]; cbn [firstn]; try (constructor; fail).
  constructor; [exact Hx | apply IH].
Qed.

Lemma matches_skipn n s b : matches s b -> matches (skipn n s) (skipn n b).
Proof.
  unfold matches. intros H. revert n.
  induction H as [|o x s b Hx H IH]; intros [|n]; cbn [skipn]; try (constructor; fail).
  - constructor; assumption.
  - apply IH.
Qed.

Lemma matches_psplice s b off d :
  matches s b -> matches (psplice s off (map Some d)) (psplice b off d).
Proof.
  intros H. unfold psplice. apply matches_app; [apply matches_firstn, H|].
  apply matches_app; [apply matches_some|].
  replace (len (map Some d)) with (len d) by (unfold len; now rewrite map_length).
  apply matches_skipn, H.
Qed.

Lemma matches_some_eq x b : matches (map Some x) b -> b = x.
Proof.
  revert b; induction x as [|y x IH]; intros b H; inversion H as [|o z s b' Hz H' E1 E2]; subst; [reflexivity|].
  destruct Hz as [Hz|Hz]; [discriminate|]. inversion Hz; subst. f_equal. now apply IH.
Qed.

Lemma matches_b_spec s b : matches_b s b = true <-> matches s b.
Proof.
  revert b; induction s as [|o s IH]; intros [|x b]; cbn [matches_b].
  - split; [constructor | reflexivity].
  - split; [discriminate | intros H; inversion H].
  - split; [discriminate | intros H; inversion H].
  - rewrite andb_true_iff, IH. split.
    + intros [Ho Hs]. constructor; [|exact Hs]. destruct o as [y|]; [right|left; reflexivity].
      cbn in Ho. apply N.eqb_eq in Ho. now subst.
    + intros H. inversion H as [|? ? ? ? Ho Hs]; subst. split; [|exact Hs].
      destruct Ho as [->| ->]; cbn; [reflexivity | apply N.eqb_refl].
Qed.
