(* Proofs/GenEquivStrMap.v — container/strmap StrMap[V].Get / Len / Item as REGENERATED from the Go
   source (Gen/Funcs.v, tools/gotrans phase 3: a read-only view of the generic receiver — data as
   bytes, items as a list of tuples (off, sz, slot, v), hashtable as a list of integers, the seed
   without a binder; e := &m.items[i] as a copy of the element; maphash.String(m.seed, .) as the
   function parameter x_maphash_String) are equal to the hand-written model Model/StrMap.v
   [get] / [map_len] / [item_at], the one the theorems of C07 are about.

   For EVERY value type V with ANY zero value, EVERY hash function, every state whose items are
   fewer than 2^31 (the int32 indices of the hashtable) and lie below 2^63 in data (Go's int):
   every state a load produces.  The fields of the receiver come back unchanged. *)
From GV Require Import Lib.Bytes Lib.Res Lib.GoSem Gen.Consts Gen.Funcs Model.StrMap
     Proofs.GenLib Proofs.GenLib3.
From Coq Require Import ZifyN ZifyNat ZifyBool.
Open Scope N_scope.

Lemma wraps32_small z : (- 2147483648 <= z < 2147483648)%Z -> wraps 32 z = z.
Proof. intros H. apply wraps_id; [lia|]. unfold in_s. change (2 ^ (32 - 1))%Z with 2147483648%Z. exact H. Qed.

Lemma skipn_nth_cons {A} (l : list A) : forall i e, nth_error l i = Some e -> skipn i l = e :: skipn (S i) l.
Proof.
  induction l as [|x r IH]; intros [|i] e H; cbn [nth_error] in H; try discriminate.
  - inversion H. reflexivity.
  - cbn [skipn]. apply IH. exact H.
Qed.

Section SM.
  Variable V : Type.
  Variable zV : V.                     (* the zero value of V *)
  Variable hash : bytes -> N.          (* maphash.String(m.seed, .) *)

  Definition xhash (s : bytes) : res Z := Ok (Z.of_N (hash s)).
  Definition conv (e : item V) : Z * Z * Z * V := (Z.of_N (ioff e), Z.of_N (isz e), Z.of_N (islot e), ival e).
  Definition gitems (st : strmap V) : list (Z * Z * Z * V) := map conv (items st).
  Definition item_ok (e : item V) : Prop := (Z.of_N (ioff e) + Z.of_N (isz e) < 2 ^ 63)%Z.

  Lemma gelem_nth {A} (l : list A) (j : nat) : gelem l (Z.of_nat j) = match nth_error l j with Some x => Ok x | None => Panic 2 end.
  Proof. unfold gelem. destruct (Z.ltb_spec (Z.of_nat j) 0); [lia|]. rewrite Nat2Z.id. reflexivity. Qed.

  Lemma gelem_N {A} (l : list A) (n : N) : gelem l (Z.of_N n) = match nth_error l (N.to_nat n) with Some x => Ok x | None => Panic 2 end.
  Proof. unfold gelem. destruct (Z.ltb_spec (Z.of_N n) 0); [lia|]. replace (Z.to_nat (Z.of_N n)) with (N.to_nat n) by lia. reflexivity. Qed.

  Lemma index_nth {A} (l : list A) (i : N) : index l i = match nth_error l (N.to_nat i) with Some x => Ok x | None => Panic 2 end.
  Proof. unfold index. destruct (nth_error l (N.to_nat i)); reflexivity. Qed.

  Lemma gkey d (e : item V) : item_ok e ->
    gslice_range d (Z.of_N (ioff e)) (wraps 64 (Z.of_N (ioff e) + Z.of_N (isz e))) = key_of d e.
  Proof.
    intros H. unfold item_ok in H. rewrite wraps64_small by lia. unfold gslice_range, key_of.
    destruct (Z.ltb_spec (Z.of_N (ioff e)) 0); [lia|]. destruct (Z.ltb_spec (Z.of_N (ioff e) + Z.of_N (isz e)) 0); [lia|].
    cbn [orb]. rewrite N2Z.id. f_equal. lia.
  Qed.

  (* the collision loop: for j := i + 1; j < int32(len(m.items)); j++ *)
  Definition scan_sim (d : bytes) (gits : list (Z * Z * Z * V)) (tbl : list Z)
             (g : res ((Z * Z * Z * V * Z) + (bytes * list (Z * Z * Z * V) * list Z * V * bool))) (h : res (option V)) : Prop :=
    match h with
    | Ok (Some v) => g = Ok (inr (d, gits, tbl, v, true))
    | Ok None => exists c, g = Ok (inl c)
    | Err e => g = Err e
    | Panic _ => exists w, g = Panic w
    | OOB => g = OOB
    end.

  Lemma loop_scan fuel d tbl (its : list (item V)) s slot :
    len its < two31 -> Forall item_ok its ->
    forall rest (j : nat) lf eo es ez ev,
      skipn j its = rest -> (j <= length its)%nat -> (length rest < lf)%nat ->
      scan_sim d (map conv its) tbl
        (g_strmap_Get_loop1 V zV xhash fuel d tbl false (map conv its) s (Z.of_N slot) lf eo es ez ev (Z.of_nat j))
        (scan d s slot rest).
  Proof.
    intros Hn Hok. unfold two31 in Hn.
    assert (wraps 32 (glen (map conv its)) = Z.of_nat (length its)) as Hhi.
    { unfold glen, len in *. rewrite map_length. rewrite wraps32_small; lia. }
    induction rest as [|e r IH]; intros j lf eo es ez ev Hs Hj Hlf; (destruct lf as [|lf]; [cbn [length] in Hlf; lia|]);
      cbn beta iota fix delta [g_strmap_Get_loop1]; cbn [gptr_check bind]; rewrite Hhi.
    - assert (j = length its) as ->.
      { destruct (Nat.eq_dec j (length its)) as [E|E]; [exact E|]. exfalso.
        assert (length (skipn j its) = length its - j)%nat by apply skipn_length. rewrite Hs in H. cbn [length] in H. lia. }
      destruct (Z.ltb_spec (Z.of_nat (length its)) (Z.of_nat (length its))); [lia|]. cbn [scan scan_sim]. eexists; reflexivity.
    - assert (nth_error its j = Some e) as Hnth.
      { rewrite <- (firstn_skipn j its) at 1. rewrite Hs. rewrite nth_error_app2 by (rewrite firstn_length; lia).
        rewrite firstn_length, Nat.min_l by exact Hj. rewrite Nat.sub_diag. reflexivity. }
      assert (j < length its)%nat as Hlt by (apply nth_error_Some; congruence).
      destruct (Z.ltb_spec (Z.of_nat j) (Z.of_nat (length its))); [|lia].
      rewrite gelem_nth, nth_error_map, Hnth. cbn [option_map bind conv]. cbn [scan].
      replace (Z.of_N (islot e) =? Z.of_N slot)%Z with (islot e =? slot)
        by (destruct (N.eqb_spec (islot e) slot); destruct (Z.eqb_spec (Z.of_N (islot e)) (Z.of_N slot)); lia).
      destruct (islot e =? slot); cbn [negb]; [|cbn [scan_sim]; eexists; reflexivity].
      assert (item_ok e) as He. { rewrite Forall_forall in Hok. apply Hok. eapply nth_error_In; exact Hnth. }
      rewrite gkey by exact He.
      destruct (key_of d e) as [k|c|w|]; cbn [bind scan_sim]; try reflexivity; [|eexists; reflexivity].
      destruct (beqb k s); [reflexivity|].
      rewrite wraps32_small by (unfold len in Hn; lia). replace (Z.of_nat j + 1)%Z with (Z.of_nat (S j)) by lia.
      apply IH; [|lia|cbn [length] in Hlf; lia].
      pose proof (skipn_nth_cons its j e Hnth) as Hs'. rewrite Hs in Hs'. inversion Hs'. reflexivity.
  Qed.

  Definition get_sim (st : strmap V) (g : res (bytes * list (Z * Z * Z * V) * list Z * V * bool)) (h : res (option V)) : Prop :=
    match h with
    | Ok (Some v) => g = Ok (data st, gitems st, table st, v, true)
    | Ok None => g = Ok (data st, gitems st, table st, zV, false)
    | Err e => g = Err e
    | Panic _ => exists w, g = Panic w
    | OOB => g = OOB
    end.

  Lemma take_all {A} (l : list A) n : len l <= n -> take n l = l.
  Proof. intros H. unfold take. apply firstn_all2. unfold len in H. lia. Qed.

  Theorem g_strmap_Get_sim (st : strmap V) s fuel :
    len (items st) < two31 -> Forall item_ok (items st) -> (S (length (items st)) < fuel)%nat ->
    get_sim st (g_strmap_Get V zV xhash fuel false (data st) (gitems st) (table st) s) (get hash st s).
  Proof.
    intros Hn Hok Hf. pose proof Hn as Hn'. unfold two31 in Hn'.
    cbv delta [g_strmap_Get get] beta. cbn [gptr_check bind]. unfold glen.
    destruct (N.eqb_spec (len (table st)) 0) as [E0|E0].
    { rewrite E0. cbn [get_sim Z.eqb Z.of_N]. reflexivity. }
    destruct (Z.eqb_spec (Z.of_N (len (table st))) 0) as [E0'|_]; [lia|]. cbv zeta. change (xhash s) with (@Ok Z (Z.of_N (hash s))). cbn [bind].
    assert (wrapu 32 (Z.of_N (len (table st))) = Z.of_N (len (table st) mod two32)) as Eu.
    { unfold wrapu, two32. rewrite N2Z.inj_mod. reflexivity. }
    assert (wrapu 32 (Z.of_N (hash s)) = Z.of_N (hash s mod two32)) as Eh.
    { unfold wrapu, two32. rewrite N2Z.inj_mod. reflexivity. }
    rewrite Eu, Eh. unfold grem.
    destruct (N.eqb_spec (len (table st) mod two32) 0) as [Ez|Ez].
    { rewrite Ez. cbn [Z.of_N Z.eqb get_sim]. eexists; reflexivity. }
    destruct (Z.eqb_spec (Z.of_N (len (table st) mod two32)) 0) as [Ez'|_]; [lia|]. cbn [bind].
    rewrite Z.rem_mod_nonneg by lia. rewrite <- N2Z.inj_mod.
    set (slot := (hash s mod two32) mod (len (table st) mod two32)).
    rewrite gelem_N. rewrite index_nth.
    destruct (nth_error (table st) (N.to_nat slot)) as [i|]; cbn [bind get_sim]; [|eexists; reflexivity].
    destruct (Z.ltb_spec i 0) as [Hi|Hi]; [reflexivity|].
    replace i with (Z.of_nat (Z.to_nat i)) at 1 by lia. unfold gitems. rewrite gelem_nth, nth_error_map, index_nth.
    replace (N.to_nat (Z.to_N i)) with (Z.to_nat i) by lia.
    destruct (nth_error (items st) (Z.to_nat i)) as [e|] eqn:Ee; cbn [option_map bind get_sim conv]; [|eexists; reflexivity].
    assert (item_ok e) as He. { rewrite Forall_forall in Hok. apply Hok. eapply nth_error_In; exact Ee. }
    assert (Z.to_nat i < length (items st))%nat as Hlt by (apply nth_error_Some; congruence).
    rewrite gkey by exact He.
    destruct (key_of (data st) e) as [k|c|w|]; cbn [bind get_sim]; try reflexivity; [|eexists; reflexivity].
    destruct (beqb k s); [reflexivity|].
    rewrite wraps32_small by (unfold len in Hn'; lia).
    assert (to_signed 32 (len (items st) mod two32) = Z.of_N (len (items st))) as Ehi.
    { rewrite N.mod_small by (unfold two32; lia). unfold to_signed. cbv zeta.
      change (2 ^ (32 - 1)) with 2147483648. destruct (N.ltb_spec (len (items st)) 2147483648); [reflexivity|lia]. }
    rewrite Ehi.
    replace (take (Z.to_N (Z.of_N (len (items st)) - (i + 1))) (drop (Z.to_N (i + 1)) (items st))) with (skipn (S (Z.to_nat i)) (items st)).
    2:{ unfold drop. replace (N.to_nat (Z.to_N (i + 1))) with (S (Z.to_nat i)) by lia. symmetry. apply take_all.
        unfold len in *. rewrite skipn_length. lia. }
    replace (i + 1)%Z with (Z.of_nat (S (Z.to_nat i))) by lia. unfold slot.
    pose proof (loop_scan fuel (data st) (table st) (items st) s ((hash s mod two32) mod (len (table st) mod two32)) Hn Hok
                  (skipn (S (Z.to_nat i)) (items st)) (S (Z.to_nat i)) fuel
                  (Z.of_N (ioff e)) (Z.of_N (islot e)) (Z.of_N (isz e)) (ival e) eq_refl ltac:(lia)
                  ltac:(rewrite skipn_length; lia)) as L.
    destruct (scan (data st) s ((hash s mod two32) mod (len (table st) mod two32)) (skipn (S (Z.to_nat i)) (items st))) as [[v|]|c|w|];
      cbn [scan_sim get_sim] in *.
    - rewrite L. reflexivity.
    - destruct L as [[[[[c1 c2] c3] c4] c5] L]. rewrite L. reflexivity.
    - rewrite L. reflexivity.
    - destruct L as [w' L]. rewrite L. eexists; reflexivity.
    - rewrite L. reflexivity.
  Qed.

  Theorem g_strmap_Len_eq (st : strmap V) :
    g_strmap_Len V zV false (data st) (gitems st) (table st) = Ok (data st, gitems st, table st, Z.of_N (map_len st)).
  Proof. unfold g_strmap_Len, map_len, gitems, glen, len. cbn [gptr_check bind]. rewrite map_length. reflexivity. Qed.

  Definition item_sim (st : strmap V) (g : res (bytes * list (Z * Z * Z * V) * list Z * bytes * V)) (h : res (bytes * V)) : Prop :=
    match h with
    | Ok (k, v) => g = Ok (data st, gitems st, table st, k, v)
    | Err e => g = Err e
    | Panic _ => exists w, g = Panic w
    | OOB => g = OOB
    end.

  Theorem g_strmap_Item_sim (st : strmap V) i :
    Forall item_ok (items st) ->
    item_sim st (g_strmap_Item V zV false (data st) (gitems st) (table st) i) (item_at st i).
  Proof.
    intros Hok. cbv delta [g_strmap_Item item_at] beta. cbn [gptr_check bind]. unfold gitems, gelem.
    destruct (Z.ltb_spec i 0) as [Hi|Hi]; [cbn [item_sim]; eexists; reflexivity|].
    rewrite nth_error_map, index_nth. replace (N.to_nat (Z.to_N i)) with (Z.to_nat i) by lia.
    destruct (nth_error (items st) (Z.to_nat i)) as [e|] eqn:Ee; cbn [option_map bind item_sim conv]; [|eexists; reflexivity].
    assert (item_ok e) as He. { rewrite Forall_forall in Hok. apply Hok. eapply nth_error_In; exact Ee. }
    rewrite gkey by exact He.
    destruct (key_of (data st) e) as [k|c|w|]; cbn [bind item_sim]; try reflexivity. eexists; reflexivity.
  Qed.
End SM.
