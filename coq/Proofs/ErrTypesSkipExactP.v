(* Proofs/ErrTypesSkipExactP.v — C17, skippers: the reference parse never runs out of loop fuel,
   hence [skip_causes] is EXACTLY the set Spec/SkipCauses.v announces for each error class of the
   reference parse [rp] ([skip_causes_exact]); and the theorem about Binary.Skip
   ([skip_err_typed]). *)
From GV Require Import Lib.Bytes Lib.Res Gen.Consts Model.Binary Model.Skip
  Spec.ThriftGrammar Spec.RefParse Spec.ErrKinds Spec.SkipCauses
  Proofs.RefLib Proofs.RefP Proofs.GrammarP Proofs.SkipLib Proofs.SkipP Proofs.ErrTypesP Proofs.ErrTypesSkipP.
From Coq Require Import ZifyN ZifyNat ZifyBool Lia.
Open Scope N_scope.

(* ---------- rp never reports E_FUEL ---------- *)
Lemma leaf_nofuel t r : leaf t r <> Err E_FUEL.
Proof.
  unfold leaf. destruct (kind_of t); try discriminate.
  - destruct (hasn r width); discriminate.
  - unfold gstring. destruct (hasn r 4); [|discriminate].
    destruct (two31 <=? _); [discriminate|]. destruct (hasn _ _); discriminate.
Qed.
Lemma member_nofuel fx st rec t r : rec t r <> Err E_FUEL -> member fx st rec t r <> Err E_FUEL.
Proof. intros H. unfold member. destruct (_ || _); [apply leaf_nofuel|exact H]. Qed.

Lemma rp_nofuel i : forall d t r, rp i d t r <> Err E_FUEL.
Proof.
  induction d as [|d IH]; intros t r; [discriminate|].
  rewrite rp_S. unfold lvl.
  destruct (kind_of t) as [w| | | | |]; try discriminate.
  - destruct (hasn r w); discriminate.
  - unfold gstring. destruct (hasn r 4); [|discriminate].
    destruct (two31 <=? _); [discriminate|]. destruct (hasn _ _); discriminate.
  - assert (H : gfields (S (length r)) (rp_es i (rp i d)) r <> Err E_FUEL).
    { apply gfields_nofuel; [intros ft; apply member_good, rp_good|lia|].
      intros ft r' _. apply member_nofuel, IH. }
    destruct (gfields _ _ r) as [[n h]|e| |]; cbn [bind]; try discriminate. congruence.
  - destruct r as [|kt [|vt r2]]; try discriminate.
    destruct (hasn r2 4); [|discriminate].
    destruct (two31 <=? _); [discriminate|].
    assert (H : gelems (S (length (kt :: vt :: r2))) (rp_em i (rp i d) kt vt) (unbe (take 4 r2)) (drop 4 r2) <> Err E_FUEL).
    { apply gelems_nofuel; [apply gpair_good; apply member_good, rp_good|rewrite drop_length; cbn [length]; lia|].
      intros r' _. unfold rp_em. apply gpair_nofuel; [apply member_good, rp_good|apply member_nofuel, IH|].
      intros n _. apply member_nofuel, IH. }
    destruct (gelems _ _ _ _) as [[n h]|e| |]; cbn [bind]; try discriminate. congruence.
  - destruct r as [|et r1]; try discriminate.
    destruct (hasn r1 4); [|discriminate].
    destruct (two31 <=? _); [discriminate|].
    assert (H : gelems (S (length (et :: r1))) (rp_el i (rp i d) et) (unbe (take 4 r1)) (drop 4 r1) <> Err E_FUEL).
    { apply gelems_nofuel; [apply member_good, rp_good|rewrite drop_length; cbn [length]; lia|].
      intros r' _. apply member_nofuel, IH. }
    destruct (gelems _ _ _ _) as [[n h]|e| |]; cbn [bind]; try discriminate. congruence.
Qed.

(* ---------- skip_causes, exactly ---------- *)
Definition class_causes (e : Z) (cs : list cause) : Prop :=
  (e = E_TRUNC /\ cs = [CTrunc]) \/
  (e = E_NEGSIZE /\ cs = [CNeg]) \/
  (e = E_BADTYPE /\ (cs = [CUnknownType] \/ cs = [CTrunc; CUnknownType])) \/
  (e = E_DEPTH /\ (cs = [CDepth] \/ cs = [CTrunc; CDepth] \/ cs = [CUnknownType; CDepth] \/
                   cs = [CTrunc; CUnknownType; CDepth])).

Lemma causes_at_exact i d t b :
  match rp i d t b with
  | Ok _ => causes_at i d t b = []
  | Err e => class_causes e (causes_at i d t b)
  | _ => False
  end.
Proof.
  unfold causes_at. pose proof (rc_rp i d t b) as H. pose proof (rp_nofuel i d t b) as NF.
  unfold prel in H.
  destruct (rp i d t b) as [a|e| |]; destruct (rc i d t b) as [x|m| |]; try contradiction.
  - reflexivity.
  - unfold class_causes.
    destruct H as [[-> ->]|[[-> ->]|[[-> [->| ->]]|[[-> [->|[->|[->| ->]]]]|[-> _]]]]].
    + left. split; reflexivity.
    + right; left. split; reflexivity.
    + right; right; left. split; [reflexivity|left; reflexivity].
    + right; right; left. split; [reflexivity|right; reflexivity].
    + right; right; right. split; [reflexivity|left; reflexivity].
    + right; right; right. split; [reflexivity|right; left; reflexivity].
    + right; right; right. split; [reflexivity|right; right; left; reflexivity].
    + right; right; right. split; [reflexivity|right; right; right; reflexivity].
    + exfalso. apply NF. reflexivity.
Qed.

Lemma skip_causes_exact i t b :
  match rp i ref_depth t b with
  | Ok _ => skip_causes i t b = []
  | Err e => class_causes e (skip_causes i t b)
  | _ => False
  end.
Proof. unfold skip_causes. exact (causes_at_exact i ref_depth t b). Qed.

(* the cause the reference parse itself reports is always among them *)
Definition class_cause (e : Z) : cause :=
  if (e =? E_NEGSIZE)%Z then CNeg else if (e =? E_BADTYPE)%Z then CUnknownType
  else if (e =? E_DEPTH)%Z then CDepth else CTrunc.

Lemma skip_causes_ref i t b e : rp i ref_depth t b = Err e ->
  cause_allowed i t b (class_cause e) = true.
Proof.
  intros E. pose proof (skip_causes_exact i t b) as H. rewrite E in H. unfold cause_allowed.
  destruct H as [[-> ->]|[[-> ->]|[[-> [->| ->]]|[-> [->|[->|[->| ->]]]]]]]; reflexivity.
Qed.

Lemma skip_causes_nil_iff i t b : skip_causes i t b = [] <-> exists n, refparse i ref_depth t b = Ok n.
Proof.
  pose proof (skip_causes_exact i t b) as H. unfold refparse.
  destruct (rp i ref_depth t b) as [[n h]|e| |]; try contradiction.
  - split; [intros _; exists n; reflexivity|intros _; exact H].
  - split.
    + intros E. rewrite E in H. unfold class_causes in H.
      destruct H as [[_ H]|[[_ H]|[[_ [H|H]]|[_ [H|[H|[H|H]]]]]]]; discriminate H.
    + intros [n E]. discriminate E.
Qed.

(* no plain misclassification: what each cause in the set implies about the reference parse *)
Lemma skip_causes_neg_only i t b : cause_allowed i t b CNeg = true ->
  rp i ref_depth t b = Err E_NEGSIZE /\ skip_causes i t b = [CNeg].
Proof.
  unfold cause_allowed. pose proof (skip_causes_exact i t b) as H.
  destruct (rp i ref_depth t b) as [a|e| |]; try contradiction.
  - rewrite H. discriminate.
  - destruct H as [[-> ->]|[[-> ->]|[[-> [->| ->]]|[-> [->|[->|[->| ->]]]]]]]; try discriminate. auto.
Qed.
Lemma skip_causes_depth_only i t b : cause_allowed i t b CDepth = true ->
  rp i ref_depth t b = Err E_DEPTH.
Proof.
  unfold cause_allowed. pose proof (skip_causes_exact i t b) as H.
  destruct (rp i ref_depth t b) as [a|e| |]; try contradiction.
  - rewrite H. discriminate.
  - destruct H as [[-> ->]|[[-> ->]|[[-> [->| ->]]|[-> [->|[->|[->| ->]]]]]]]; try discriminate; reflexivity.
Qed.
Lemma skip_causes_trunc_when_neg i t b : rp i ref_depth t b = Err E_NEGSIZE ->
  cause_allowed i t b CTrunc = false.
Proof.
  intros E. unfold cause_allowed. pose proof (skip_causes_exact i t b) as H. rewrite E in H.
  destruct H as [[X _]|[[_ ->]|[[X _]|[X _]]]]; try discriminate X. reflexivity.
Qed.
Lemma skip_causes_trunc_only i t b : rp i ref_depth t b = Err E_TRUNC -> skip_causes i t b = [CTrunc].
Proof.
  intros E. pose proof (skip_causes_exact i t b) as H. rewrite E in H.
  destruct H as [[_ H]|[[X _]|[[X _]|[X _]]]]; try discriminate X. exact H.
Qed.

(* ---------- Binary.Skip ---------- *)
Lemma in_causes_of_mask m c : In c skip_cause_list -> mask_has m c = true ->
  existsb (cause_eqb c) (causes_of_mask m) = true.
Proof.
  intros Hin Hm. apply existsb_exists. exists c. split.
  - unfold causes_of_mask. apply filter_In. split; assumption.
  - destruct c; reflexivity.
Qed.

Definition skip_type_ids : list Z := [thrift_INVALID_DATA; thrift_NEGATIVE_SIZE; thrift_DEPTH_LIMIT].

(* an error code allowed by a mask: its cause, its type id *)
Lemma allowed_inv c m : allowed c m = true ->
  exists cz, code_cause c = Some cz /\ etype c = cause_type cz /\ In (etype c) skip_type_ids /\
             In cz skip_cause_list /\ mask_has m cz = true.
Proof.
  unfold allowed, code_cause, skip_type_ids, skip_cause_list.
  destruct (Z.eqb_spec c e_too_short) as [->|_].
  { intros H. exists CTrunc. cbn. tauto. }
  destruct (Z.eqb_spec c e_neg_size) as [->|_].
  { intros H. exists CNeg. cbn. tauto. }
  destruct (Z.eqb_spec c e_unknown_type) as [->|_].
  { intros H. exists CUnknownType. cbn. tauto. }
  destruct (Z.eqb_spec c e_depth) as [->|_]; [|discriminate].
  intros H. exists CDepth. cbn. tauto.
Qed.

Theorem skip_err_typed b t c : wf b -> t < 256 -> binary_skip b t = Err c ->
  In (etype c) skip_type_ids /\
  exists cz, code_cause c = Some cz /\ etype c = cause_type cz /\ cause_allowed inl_all t b cz = true.
Proof.
  intros Hwf Ht E. pose proof (binary_skip_csim b t Hwf Ht) as S. fold ref_depth in S. revert S.
  unfold cause_allowed, skip_causes, causes_at. generalize ref_depth. intros d S.
  rewrite E in S. unfold csim in S.
  destruct (rc inl_all d t b) as [[n h]|m| |]; try contradiction.
  destruct (allowed_inv c m S) as [cz (Hc & Ht' & Hin & Hl & Hm)].
  split; [exact Hin|]. exists cz. repeat split; try assumption. apply in_causes_of_mask; assumption.
Qed.

(* success side, for completeness: Binary.Skip succeeds exactly when no cause applies *)
Theorem skip_ok_iff_no_cause b t : wf b -> t < 256 ->
  ((exists n, binary_skip b t = Ok n) <-> skip_causes inl_all t b = []).
Proof.
  intros Hwf Ht. rewrite skip_causes_nil_iff.
  pose proof (fun n => bskip_is_ref b t n Hwf Ht) as R. fold ref_depth in R.
  split; intros [n E]; exists n; apply R; exact E.
Qed.
