(* Proofs/TTHeaderDec.v — Decode of Model/TTHeader.v against the frame layout and the section
   grammar of Spec/FrameLayout.v (C10; the forward direction is reused by C06's round trip). *)
From GV Require Import Lib.Bytes Lib.Res Gen.Consts Model.TTHeader Spec.FrameLayout
     Proofs.TTHeaderLib Proofs.TTHeaderSec.
From Coq Require Import ZifyN ZifyNat ZifyBool.
Open Scope N_scope.

(* ---------- the values the property fixes, tied to the Go constants ---------- *)
Lemma consts_ok :
  c_meta = L_meta /\ c_magic = L_magic16 * 65536 /\ c_mask = 65535 * 65536 /\ c_max = L_max /\
  c_s32 = 4 /\ c_s16 = 2 /\ id_pad = 0 /\ id_kv = 1 /\ id_intkv = 16 /\ id_acl = 17 /\
  size_bits = 32 /\ ttheader_Decode_headerInfoSize_signed = 0%Z /\
  map Z.to_N ttheader_checkProtocolID_cases = [0; 4; 3; 16; 17] /\ gdpr_key = gdpr /\
  c_streaming = L_streaming.
Proof. repeat split; reflexivity. Qed.

(* ---------- checkProtocolID ---------- *)
Lemma pid_allowed_iff pid : check_protocol_id pid = true <-> In pid L_pids.
Proof.
  unfold check_protocol_id.
  change ttheader_checkProtocolID_cases with [0; 4; 3; 16; 17]%Z.
  unfold L_pids. cbn [existsb In]. lia.
Qed.

(* ---------- the magic test ---------- *)
Lemma land_mask hi lo : hi < 65536 -> lo < 65536 -> N.land (hi * 65536 + lo) c_mask = hi * 65536.
Proof.
  intros Hhi Hlo. change c_mask with (N.shiftl (N.ones 16) 16). change 65536 with (2 ^ 16).
  apply N.bits_inj. intros n. rewrite N.land_spec.
  destruct (N.lt_ge_cases n 16) as [Hn|Hn].
  - rewrite N.shiftl_spec_low by exact Hn. rewrite N.mul_pow2_bits_low by exact Hn.
    apply andb_false_r.
  - rewrite N.shiftl_spec_high' by exact Hn. rewrite N.mul_pow2_bits_high by exact Hn.
    replace n with (n - 16 + 16) at 1 by lia. rewrite <- N.div_pow2_bits.
    replace ((hi * 2 ^ 16 + lo) / 2 ^ 16) with hi
      by (apply (N.div_unique _ (2 ^ 16) hi lo); change (2 ^ 16) with 65536 in *; lia).
    destruct (N.lt_ge_cases (n - 16) 16) as [Hm|Hm].
    + rewrite N.ones_spec_low by exact Hm. apply andb_true_r.
    + rewrite N.ones_spec_high by exact Hm. rewrite andb_false_r.
      rewrite <- (N.mod_small hi (2 ^ 16)) by exact Hhi.
      symmetry. apply N.mod_pow2_bits_high. exact Hm.
Qed.

Lemma magic_test a b c d :
  a < 256 -> b < 256 -> c < 256 -> d < 256 ->
  (N.land (((a * 256 + b) * 256 + c) * 256 + d) c_mask =? c_magic) = (a * 256 + b =? L_magic16).
Proof.
  intros Ha Hb Hc Hd.
  replace (((a * 256 + b) * 256 + c) * 256 + d) with ((a * 256 + b) * 65536 + (c * 256 + d)) by lia.
  rewrite land_mask by lia. change c_magic with (L_magic16 * 65536). unfold L_magic16. lia.
Qed.

(* ---------- the meta block ---------- *)
Lemma decode_meta_explicit m0 m1 m2 m3 m4 m5 m6 m7 m8 m9 m10 m11 m12 m13 :
  decode_meta [m0; m1; m2; m3; m4; m5; m6; m7; m8; m9; m10; m11; m12; m13] =
  if negb (N.land (((m4 * 256 + m5) * 256 + m6) * 256 + m7) c_mask =? c_magic) then Err e_magic
  else let size := ((m12 * 256 + m13) * 4) mod 2 ^ size_bits in
       if (c_max <? u32 size) || (size <? 2) then Err e_size
       else Ok (((m0 * 256 + m1) * 256 + m2) * 256 + m3, m6 * 256 + m7,
                to_signed 32 (((m8 * 256 + m9) * 256 + m10) * 256 + m11), size).
Proof. reflexivity. Qed.

Lemma explode14 (b : bytes) : 14 <= len b ->
  exists m0 m1 m2 m3 m4 m5 m6 m7 m8 m9 m10 m11 m12 m13 rest,
    b = m0 :: m1 :: m2 :: m3 :: m4 :: m5 :: m6 :: m7 :: m8 :: m9 :: m10 :: m11 :: m12 :: m13 :: rest.
Proof.
  intros H. do 14 (destruct b as [|? b]; [rewrite ?len_cons, ?len_nil in H; lia|]).
  repeat eexists.
Qed.

Lemma fields_explicit m0 m1 m2 m3 m4 m5 m6 m7 m8 m9 m10 m11 m12 m13 rest :
  let b := m0 :: m1 :: m2 :: m3 :: m4 :: m5 :: m6 :: m7 :: m8 :: m9 :: m10 :: m11 :: m12 :: m13 :: rest in
  field_at b 0 4 = ((m0 * 256 + m1) * 256 + m2) * 256 + m3 /\
  field_at b 4 2 = m4 * 256 + m5 /\ field_at b 6 2 = m6 * 256 + m7 /\
  field_at b 8 4 = ((m8 * 256 + m9) * 256 + m10) * 256 + m11 /\
  field_at b 12 2 = m12 * 256 + m13 /\
  take c_meta b = [m0; m1; m2; m3; m4; m5; m6; m7; m8; m9; m10; m11; m12; m13] /\
  drop c_meta b = rest /\ drop L_meta b = rest /\ len b = 14 + len rest.
Proof. repeat split; try reflexivity. rewrite !len_cons. lia. Qed.

Lemma wf_explode m0 m1 m2 m3 m4 m5 m6 m7 m8 m9 m10 m11 m12 m13 rest :
  wf (m0 :: m1 :: m2 :: m3 :: m4 :: m5 :: m6 :: m7 :: m8 :: m9 :: m10 :: m11 :: m12 :: m13 :: rest) ->
  m0 < 256 /\ m1 < 256 /\ m2 < 256 /\ m3 < 256 /\ m4 < 256 /\ m5 < 256 /\ m6 < 256 /\ m7 < 256 /\
  m8 < 256 /\ m9 < 256 /\ m10 < 256 /\ m11 < 256 /\ m12 < 256 /\ m13 < 256 /\ wf rest.
Proof.
  intros H. unfold wf in H. repeat (apply Forall_cons_iff in H; destruct H as [? H]).
  unfold wfb in *. repeat split; assumption.
Qed.

(* Decode, in the terms of the layout: what it checks, in which order, what it consumes *)
Lemma decode_core b :
  wf (take 14 b) -> 14 <= len b ->
  decode b =
  if negb (field_at b 4 2 =? L_magic16) then (14, Err e_magic)
  else if (L_max <? declared b) || (declared b <? 2) then (14, Err e_size)
  else if len b <? 14 + declared b then (14, Err e_short2)
  else (14 + declared b,
        decode_info (field_at b 0 4) (field_at b 6 2) (to_signed 32 (field_at b 8 4))
                    (declared b) (info_of b)).
Proof.
  intros Hw Hl. unfold decode, info_of, declared.
  change c_meta with 14. change L_meta with 14.
  destruct (N.ltb_spec (len b) 14) as [Hs|_]; [lia|].
  destruct (explode14 b Hl) as (m0 & m1 & m2 & m3 & m4 & m5 & m6 & m7 & m8 & m9 & m10 & m11 & m12 & m13 & rest & ->).
  destruct (fields_explicit m0 m1 m2 m3 m4 m5 m6 m7 m8 m9 m10 m11 m12 m13 rest)
    as (F0 & F4 & F6 & F8 & F12 & Ft & Fd & Fd' & Fl).
  cbv zeta in F0, F4, F6, F8, F12, Ft, Fd, Fd', Fl.
  change c_meta with 14 in Ft, Fd. change L_meta with 14 in Fd'.
  rewrite Ft in Hw.
  rewrite Ft, Fd, F0, F4, F6, F8, F12, Fl, decode_meta_explicit.
  apply wf_explode in Hw.
  destruct Hw as (H0 & H1 & H2 & H3 & H4 & H5 & H6 & H7 & H8 & H9 & H10 & H11 & H12 & H13 & Hwr).
  rewrite magic_test by assumption.
  destruct (m4 * 256 + m5 =? L_magic16); cbn [negb]; [|reflexivity].
  cbv zeta. change size_bits with 32. change (2 ^ 32) with 4294967296.
  unfold u32, two32. change c_max with L_max. unfold L_max.
  replace ((m12 * 256 + m13) * 4) with (4 * (m12 * 256 + m13)) by lia.
  rewrite !(N.mod_small (4 * (m12 * 256 + m13))) by lia.
  destruct ((65536 <? 4 * (m12 * 256 + m13)) || (4 * (m12 * 256 + m13) <? 2)); [reflexivity|].
  destruct (N.ltb_spec (len rest) (4 * (m12 * 256 + m13))) as [Ha|Ha];
    destruct (N.ltb_spec (14 + len rest) (14 + 4 * (m12 * 256 + m13))) as [Hb|Hb]; try lia; reflexivity.
Qed.

(* ---------- transform ids ---------- *)
Lemma index_ok {A} (l : list A) i : i < len l -> exists x, index l i = Ok x.
Proof.
  intros H. unfold index. destruct (nth_error l (N.to_nat i)) as [x|] eqn:E; [eauto|].
  apply nth_error_None in E. unfold len in H. lia.
Qed.

Lemma read_transforms_ok n : forall info idx,
    idx + N.of_nat n <= len info -> read_transforms info idx n = Ok (idx + N.of_nat n).
Proof.
  induction n as [|n IH]; intros info idx H; cbn [read_transforms].
  - f_equal. lia.
  - destruct (index_ok info idx ltac:(lia)) as [x ->]. cbn [bind].
    rewrite IH by lia. f_equal. lia.
Qed.

Lemma drop_cons2 {A} (x y : A) l n : drop (2 + n) (x :: y :: l) = drop n l.
Proof.
  unfold drop. replace (N.to_nat (2 + n)) with (S (S (N.to_nat n))) by lia. reflexivity.
Qed.

(* ---------- the header info ---------- *)
Definition result (tl fl : N) (sq : Z) (size pid : N) (secs : list sec) : dparam :=
  {| d_flags := fl; d_seq := sq; d_pid := pid;
     d_int := fst (ointerp secs); d_str := snd (ointerp secs);
     d_hlen := Z.of_N (14 + size);
     d_plen := (Z.of_N tl + 4 - Z.of_N (14 + size))%Z |}.

Lemma decode_info_total tl fl sq size info :
  len info = size -> 2 <= size -> good (decode_info tl fl sq size info).
Proof.
  intros Hl Hs. destruct info as [|pid [|nt rest]]; rewrite ?len_cons, ?len_nil in Hl; try lia.
  unfold decode_info. change (index (pid :: nt :: rest) 0) with (Ok pid).
  change (index (pid :: nt :: rest) 1) with (Ok nt). cbn [bind].
  destruct (check_protocol_id pid); cbn [negb]; [|apply good_err; discriminate].
  destruct (Z.ltb_spec (Z.of_N size - 2) (Z.of_N nt)) as [Ht|Ht]; [apply good_err; discriminate|].
  rewrite read_transforms_ok by (rewrite !len_cons; lia). cbn [bind]. rewrite N2Nat.id.
  pose proof (kv_total (S (length (pid :: nt :: rest))) (pid :: nt :: rest) (2 + nt) None None) as Hk.
  destruct Hk as [Hsafe Hnf]; [rewrite !len_cons; lia|unfold len; lia|].
  destruct (read_kv_info _ _ (2 + nt) None None) as [[im sm]| | |]; cbn [bind]; cbn in Hsafe;
    try contradiction.
  - apply good_ok.
  - apply good_err. intros ->. apply Hnf. reflexivity.
Qed.

Lemma decode_info_fwd tl fl sq size pid nt rest secs :
  len (pid :: nt :: rest) = size -> size <= L_max ->
  In pid L_pids -> nt <= size - 2 -> secs_ok secs -> drop nt rest = enc_secs secs ->
  decode_info tl fl sq size (pid :: nt :: rest) = Ok (result tl fl sq size pid secs).
Proof.
  intros Hl Hmax Hp Hnt Hok Ed.
  assert (Hh : u32 (u32 size + c_meta) = 14 + size).
  { unfold u32, two32. change c_meta with 14. unfold L_max in Hmax.
    rewrite (N.mod_small size) by lia. rewrite N.mod_small by lia. lia. }
  rewrite !len_cons in Hl.
  unfold decode_info. change (index (pid :: nt :: rest) 0) with (Ok pid).
  change (index (pid :: nt :: rest) 1) with (Ok nt). cbn [bind].
  rewrite Hh. change c_s32 with 4. change (Z.of_N 4) with 4%Z.
  apply pid_allowed_iff in Hp. rewrite Hp. cbn [negb].
  destruct (Z.ltb_spec (Z.of_N size - 2) (Z.of_N nt)) as [Ht|Ht]; [lia|].
  rewrite read_transforms_ok by (rewrite !len_cons; lia). cbn [bind]. rewrite N2Nat.id.
  rewrite <- (drop_cons2 pid nt) in Ed.
  rewrite (kv_fwd secs _ _ _ None None Hok Ed).
  + cbn [bind]. rewrite ointerp_spec. reflexivity.
  + rewrite <- Ed. unfold drop. rewrite skipn_length. lia.
Qed.

Lemma decode_info_ok_iff tl fl sq size info r :
  wf info -> len info = size -> 2 <= size -> size <= L_max ->
  decode_info tl fl sq size info = Ok r <->
  exists pid nt rest secs,
    info = pid :: nt :: rest /\ In pid L_pids /\ nt <= size - 2 /\
    secs_ok secs /\ drop nt rest = enc_secs secs /\ r = result tl fl sq size pid secs.
Proof.
  intros Hw Hl Hs Hmax.
  assert (Hh : u32 (u32 size + c_meta) = 14 + size).
  { unfold u32, two32. change c_meta with 14. unfold L_max in Hmax.
    rewrite (N.mod_small size) by lia. rewrite N.mod_small by lia. lia. }
  destruct info as [|pid [|nt rest]]; rewrite ?len_cons, ?len_nil in Hl; try lia.
  unfold decode_info. change (index (pid :: nt :: rest) 0) with (Ok pid).
  change (index (pid :: nt :: rest) 1) with (Ok nt). cbn [bind].
  rewrite Hh. change c_s32 with 4. change (Z.of_N 4) with 4%Z.
  split.
  - destruct (check_protocol_id pid) eqn:Ep; cbn [negb]; [|discriminate].
    destruct (Z.ltb_spec (Z.of_N size - 2) (Z.of_N nt)) as [Ht|Ht]; [discriminate|].
    rewrite read_transforms_ok by (rewrite !len_cons; lia). cbn [bind]. rewrite N2Nat.id.
    destruct (read_kv_info _ _ (2 + nt) None None) as [[im sm]| | |] eqn:Ek; cbn [bind];
      try discriminate.
    intros H. destruct (kv_bwd _ _ _ _ _ _ Hw Ek) as (secs & Hok & Ed & Hr).
    rewrite ointerp_spec in Hr. rewrite drop_cons2 in Ed.
    exists pid, nt, rest, secs. repeat split; try assumption.
    + apply pid_allowed_iff. exact Ep.
    + lia.
    + inversion H; subst r. unfold result. rewrite <- Hr. reflexivity.
  - intros (pid' & nt' & rest' & secs & Hi & Hp & Hnt & Hok & Ed & ->).
    inversion Hi; subst pid' nt' rest'; clear Hi.
    apply pid_allowed_iff in Hp. rewrite Hp. cbn [negb].
    destruct (Z.ltb_spec (Z.of_N size - 2) (Z.of_N nt)) as [Ht|Ht]; [lia|].
    rewrite read_transforms_ok by (rewrite !len_cons; lia). cbn [bind]. rewrite N2Nat.id.
    rewrite <- (drop_cons2 pid nt) in Ed.
    rewrite (kv_fwd secs _ _ _ None None Hok Ed).
    + cbn [bind]. rewrite ointerp_spec. reflexivity.
    + rewrite <- Ed. unfold drop. rewrite skipn_length. lia.
Qed.

(* ---------- C10 ---------- *)
Lemma declared_short b : len b < 14 -> declared b = 0.
Proof. intros H. unfold declared, L_meta. destruct (N.ltb_spec (len b) 14); [reflexivity|lia]. Qed.

Lemma info_of_len b : 14 + declared b <= len b -> len (info_of b) = declared b.
Proof.
  intros H. unfold info_of. rewrite take_len'. rewrite drop_len'. unfold L_meta. lia.
Qed.

Lemma wf_info_of b : wf b -> wf (info_of b).
Proof. intros H. unfold info_of. apply wf_take, wf_drop, H. Qed.

Theorem decode_total b :
  good (snd (decode b)) /\ fst (decode b) <= N.min (len b) (L_meta + declared b).
Proof.
  unfold decode. change c_meta with 14. unfold L_meta.
  destruct (N.ltb_spec (len b) 14) as [Hs|Hl].
  { cbn [fst snd]. split; [apply good_err; discriminate|lia]. }
  destruct (explode14 b Hl) as (m0 & m1 & m2 & m3 & m4 & m5 & m6 & m7 & m8 & m9 & m10 & m11 & m12 & m13 & rest & ->).
  destruct (fields_explicit m0 m1 m2 m3 m4 m5 m6 m7 m8 m9 m10 m11 m12 m13 rest)
    as (F0 & F4 & F6 & F8 & F12 & Ft & Fd & Fd' & Fl).
  cbv zeta in F0, F4, F6, F8, F12, Ft, Fd, Fd', Fl.
  change c_meta with 14 in Ft, Fd.
  unfold declared, L_meta. rewrite Ft, Fd, F12, Fl, decode_meta_explicit.
  destruct (N.ltb_spec (14 + len rest) 14) as [Hx|_]; [lia|].
  destruct (negb _); [cbn [fst snd]; split; [apply good_err; discriminate|lia]|].
  cbv zeta. set (sf := m12 * 256 + m13).
  assert (Hle : (sf * 4) mod 2 ^ size_bits <= 4 * sf).
  { etransitivity; [apply N.mod_le; change size_bits with 32; lia|lia]. }
  set (size := (sf * 4) mod 2 ^ size_bits) in *.
  destruct (N.ltb_spec c_max (u32 size)) as [Hm|Hm]; cbn [orb];
    [cbn [fst snd]; split; [apply good_err; discriminate|lia]|].
  destruct (N.ltb_spec size 2) as [H2|H2];
    [cbn [fst snd]; split; [apply good_err; discriminate|lia]|].
  destruct (N.ltb_spec (len rest) size) as [Hr|Hr]; cbn [fst snd].
  - split; [apply good_err; discriminate|lia].
  - split; [|lia]. apply decode_info_total; [|exact H2]. rewrite take_len'. lia.
Qed.

Theorem decode_ok_iff b : wf b -> (exists r, snd (decode b) = Ok r) <-> accepts b.
Proof.
  intros Hw. unfold accepts, L_meta.
  destruct (N.lt_ge_cases (len b) 14) as [Hs|Hl].
  { split.
    - intros [r H]. unfold decode in H. change c_meta with 14 in H.
      destruct (N.ltb_spec (len b) 14); [discriminate|lia].
    - rewrite (declared_short b Hs). intros (H & _). lia. }
  rewrite (decode_core b (wf_take 14 b Hw) Hl).
  destruct (N.eqb_spec (field_at b 4 2) L_magic16) as [Hm|Hm]; cbn [negb].
  2:{ cbn [snd]. split; [intros [r H]; discriminate|intros (_ & H & _); contradiction]. }
  unfold L_max in *.
  destruct (N.ltb_spec 65536 (declared b)) as [Hd|Hd]; cbn [orb].
  { cbn [snd]. split; [intros [r H]; discriminate|intros (_ & _ & H & _); lia]. }
  destruct (N.ltb_spec (declared b) 2) as [Hd2|Hd2].
  { cbn [snd]. split; [intros [r H]; discriminate|intros (_ & _ & H & _); lia]. }
  destruct (N.ltb_spec (len b) (14 + declared b)) as [Hsh|Hsh].
  { cbn [snd]. split; [intros [r H]; discriminate|intros (H & _); lia]. }
  cbn [snd]. split.
  - intros [r H].
    apply (decode_info_ok_iff _ _ _ _ _ _ (wf_info_of b Hw) (info_of_len b Hsh) Hd2 Hd) in H.
    destruct H as (pid & nt & rest & secs & Hi & Hp & Hnt & Hok & Ed & _).
    repeat split; try assumption; try lia. exists pid, nt, rest, secs. repeat split; assumption.
  - intros (_ & _ & _ & pid & nt & rest & secs & Hi & Hp & Hnt & Hok & Ed).
    eexists.
    apply (decode_info_ok_iff _ _ _ _ _ _ (wf_info_of b Hw) (info_of_len b Hsh) Hd2 Hd).
    exists pid, nt, rest, secs. repeat split; try assumption.
Qed.

Theorem decode_ok_values b r :
  wf b -> snd (decode b) = Ok r ->
  fst (decode b) = L_meta + declared b /\
  forall pid nt rest secs,
    info_of b = pid :: nt :: rest -> secs_ok secs -> drop nt rest = enc_secs secs ->
    r = result (field_at b 0 4) (field_at b 6 2) (to_signed 32 (field_at b 8 4)) (declared b) pid secs.
Proof.
  intros Hw. unfold L_meta.
  destruct (N.lt_ge_cases (len b) 14) as [Hs|Hl].
  { unfold decode. change c_meta with 14.
    destruct (N.ltb_spec (len b) 14); [discriminate|lia]. }
  rewrite (decode_core b (wf_take 14 b Hw) Hl).
  destruct (N.eqb_spec (field_at b 4 2) L_magic16) as [Hm|Hm]; cbn [negb]; [|discriminate].
  unfold L_max in *.
  destruct (N.ltb_spec 65536 (declared b)) as [Hd|Hd]; cbn [orb]; [discriminate|].
  destruct (N.ltb_spec (declared b) 2) as [Hd2|Hd2]; [discriminate|].
  destruct (N.ltb_spec (len b) (14 + declared b)) as [Hsh|Hsh]; [discriminate|].
  cbn [fst snd]. intros H. split; [reflexivity|].
  intros pid nt rest secs Hi Hok Ed.
  pose proof H as H'.
  apply (decode_info_ok_iff _ _ _ _ _ _ (wf_info_of b Hw) (info_of_len b Hsh) Hd2 Hd) in H'.
  destruct H' as (pid' & nt' & rest' & secs' & Hi' & Hp & Hnt & _ & _ & _).
  rewrite Hi in Hi'. inversion Hi'; subst pid' nt' rest'; clear Hi'.
  assert (H2 : decode_info (field_at b 0 4) (field_at b 6 2) (to_signed 32 (field_at b 8 4))
                           (declared b) (info_of b)
               = Ok (result (field_at b 0 4) (field_at b 6 2) (to_signed 32 (field_at b 8 4))
                            (declared b) pid secs)).
  { apply (decode_info_ok_iff _ _ _ _ _ _ (wf_info_of b Hw) (info_of_len b Hsh) Hd2 Hd).
    exists pid, nt, rest, secs. repeat split; assumption. }
  rewrite H in H2. inversion H2. reflexivity.
Qed.
