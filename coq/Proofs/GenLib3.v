(* Proofs/GenLib3.v — lemmas about the phase-3 additions of Lib/GoSem.v (gmap_len, the order
   oracle of a map range statement) shared by Proofs/GenEquivNocopy.v and Proofs/GenEquivTTHEnc.v.
   Independent of Gen/Funcs.v and of the models. *)
From GV Require Import Lib.Bytes Lib.Res Lib.GoSem Proofs.GenLib.
From Coq Require Import ZifyN ZifyNat ZifyBool Permutation.
Open Scope N_scope.

(* NOTE for proofs about generated definitions: no cbn / simpl / unfold on goals that contain one
   (they expand its lets); use [cbv delta [f] beta], the bind_* equations and [hz]-style head zeta. *)
Lemma bind_Ok {A B} (a : A) (f : A -> res B) : bind (Ok a) f = f a. Proof. reflexivity. Qed.
Lemma bind_Err {A B} c (f : A -> res B) : bind (Err c) f = Err c. Proof. reflexivity. Qed.
Lemma bind_Panic {A B} w (f : A -> res B) : bind (Panic w) f = Panic w. Proof. reflexivity. Qed.
Lemma bind_OOB {A B} (f : A -> res B) : bind OOB f = OOB. Proof. reflexivity. Qed.

Lemma ok_pair_inv {A B} (a a' : A) (b b' : B) : @Ok (A * B) (a, b) = Ok (a', b') -> a = a' /\ b = b'.
Proof. intros H. inversion H. auto. Qed.

(* ---------- keys with an equality test that decides Leibniz equality ---------- *)
Section Keys.
  Context {K V : Type}.
  Variable eqb : K -> K -> bool.
  Hypothesis eqb_eq : forall a b, eqb a b = true <-> a = b.

  (* the distinct keys of an assignment list, as alist_count counts them *)
  Fixpoint dkeys (l : list (K * V)) : list K :=
    match l with
    | [] => []
    | (k, _) :: r => if existsb (fun kv => eqb (fst kv) k) r then dkeys r else k :: dkeys r
    end.

  Lemma existsb_key k (r : list (K * V)) : existsb (fun kv => eqb (fst kv) k) r = true <-> In k (map fst r).
  Proof.
    rewrite existsb_exists. split.
    - intros [[k' v] [Hin E]]. cbn [fst] in E. apply eqb_eq in E. subst. apply in_map_iff. exists (k, v). auto.
    - intros H. apply in_map_iff in H as [[k' v] [E Hin]]. cbn [fst] in E. subst. exists (k, v). split; [exact Hin|].
      cbn [fst]. apply eqb_eq. reflexivity.
  Qed.

  Lemma dkeys_in l k : In k (dkeys l) <-> In k (map fst l).
  Proof.
    induction l as [|[k0 v0] r IH]; cbn [dkeys map fst In]; [tauto|].
    destruct (existsb (fun kv => eqb (fst kv) k0) r) eqn:E.
    - apply existsb_key in E. rewrite IH. split; [auto|]. intros [<-|H]; auto.
    - cbn [In]. rewrite IH. tauto.
  Qed.

  Lemma dkeys_nodup l : NoDup (dkeys l).
  Proof.
    induction l as [|[k0 v0] r IH]; cbn [dkeys]; [constructor|].
    destruct (existsb (fun kv => eqb (fst kv) k0) r) eqn:E; [exact IH|].
    constructor; [|exact IH]. rewrite dkeys_in. intros H. apply existsb_key in H. congruence.
  Qed.

  Lemma dkeys_length l : length (dkeys l) = alist_count eqb l.
  Proof.
    induction l as [|[k0 v0] r IH]; cbn [dkeys alist_count]; [reflexivity|].
    destruct (existsb (fun kv => eqb (fst kv) k0) r); cbn [length]; congruence.
  Qed.

  (* len(m) is the length of every valid enumeration order *)
  Lemma gmap_len_order (m : gmap K V) ord : gmap_order_ok m ord -> gmap_len eqb m = Z.of_nat (length ord).
  Proof.
    intros [ND HI]. destruct m as [l|]; cbn [gmap_len gmap_keys] in *.
    - f_equal. rewrite <- dkeys_length. apply Permutation_length. apply NoDup_Permutation.
      + apply dkeys_nodup.
      + exact ND.
      + intros k. rewrite dkeys_in. symmetry. apply HI.
    - destruct ord as [|k r]; [reflexivity|]. exfalso. apply (HI k). left. reflexivity.
  Qed.

  (* two valid orders of one map are permutations of each other *)
  Lemma gmap_orders_perm (m : gmap K V) o1 o2 : gmap_order_ok m o1 -> gmap_order_ok m o2 -> Permutation o1 o2.
  Proof.
    intros [N1 H1] [N2 H2]. apply NoDup_Permutation; try assumption. intros k. rewrite H1, H2. tauto.
  Qed.
End Keys.

(* the entries of a map in the order of the oracle: what the range loop visits *)
Definition ordered_entries {K V} (eqb : K -> K -> bool) (d : V) (m : gmap K V) (ord : list K) : list (K * V) :=
  map (fun k => (k, gmap_get eqb m k d)) ord.

Definition ordered_map {K V} (eqb : K -> K -> bool) (d : V) (m : gmap K V) (ord : list K) : option (list (K * V)) :=
  match m with None => None | Some _ => Some (ordered_entries eqb d m ord) end.

(* a map given as an association list with distinct keys, enumerated in the order of the list *)
Lemma alist_get_nodup {K V} (eqb : K -> K -> bool) (eqb_eq : forall a b, eqb a b = true <-> a = b)
      (l : list (K * V)) k v : NoDup (map fst l) -> In (k, v) l -> alist_get eqb l k = Some v.
Proof.
  induction l as [|[k0 v0] r IH]; cbn [map fst In alist_get]; intros ND H; [contradiction|].
  inversion ND as [|? ? Hn ND']; subst. destruct H as [E|H].
  - inversion E; subst. assert (eqb k k = true) as -> by (apply eqb_eq; reflexivity). reflexivity.
  - destruct (eqb k0 k) eqn:E.
    + apply eqb_eq in E. subst. exfalso. apply Hn. apply in_map_iff. exists (k, v). auto.
    + apply IH; assumption.
Qed.

Lemma ordered_entries_self {K V} (eqb : K -> K -> bool) (eqb_eq : forall a b, eqb a b = true <-> a = b) (d : V)
      (l : list (K * V)) : NoDup (map fst l) -> ordered_entries eqb d (Some l) (map fst l) = l.
Proof.
  intros ND. unfold ordered_entries. rewrite map_map.
  rewrite <- (map_id l) at 2. apply map_ext_in. intros [k v] Hin. cbn [fst gmap_get].
  rewrite (alist_get_nodup eqb eqb_eq l k v ND Hin). reflexivity.
Qed.

Lemma order_ok_self {K V} (l : list (K * V)) : NoDup (map fst l) -> gmap_order_ok (Some l) (map fst l).
Proof. intros ND. split; [exact ND|]. intros k. cbn [gmap_keys]. tauto. Qed.

Lemma beqb_eq' a b : beqb a b = true <-> a = b.
Proof. apply beqb_eq. Qed.

(* ---------- v, ok := m[k] ---------- *)
Lemma gmap_find_some_get {K V} (eqb : K -> K -> bool) (m : gmap K V) k d v :
  gmap_find eqb m k = Some v -> gmap_get eqb m k d = v.
Proof. destruct m as [l|]; cbn [gmap_find gmap_get]; [|discriminate]. intros ->. reflexivity. Qed.

Lemma gmap_find_none_iff {K V} (eqb : K -> K -> bool) (eqb_eq : forall a b, eqb a b = true <-> a = b) (m : gmap K V) k :
  gmap_find eqb m k = None <-> ~ In k (gmap_keys m).
Proof.
  destruct m as [l|]; cbn [gmap_find gmap_keys]; [|split; [intros _ H; exact H|reflexivity]].
  induction l as [|[k0 v0] r IH]; cbn [alist_get map fst In]; [tauto|].
  destruct (eqb k0 k) eqn:E.
  - apply eqb_eq in E. subst. split; [discriminate|]. intros H. exfalso. apply H. left. reflexivity.
  - rewrite IH. split; [|tauto]. intros H [H1|H1]; [|tauto]. subst.
    assert (eqb k k = true) by (apply eqb_eq; reflexivity). congruence.
Qed.
