(* Proofs/TTHeaderEnc.v — Encode / writeKVInfo of Model/TTHeader.v against the frame layout of
   Spec/FrameLayout.v, and the round trip through Decode (C06). *)
From GV Require Import Lib.Bytes Lib.Res Gen.Consts Model.TTHeader Spec.FrameLayout
     Proofs.TTHeaderLib Proofs.TTHeaderSec Proofs.TTHeaderDec.
From Coq Require Import ZifyN ZifyNat ZifyBool Permutation.
Open Scope N_scope.

(* ---------- finite maps as association lists ---------- *)
Section AlistP.
  Context {K : Type} (keq : K -> K -> bool).
  Hypothesis keq_spec : forall a b, keq a b = true <-> a = b.

  Lemma lookup_none k l : ~ In k (keys l) -> lookup keq k l = None.
  Proof.
    induction l as [|[k' v] r IH]; intros H; cbn [lookup]; [reflexivity|].
    cbn [keys map fst In] in H. destruct (keq k' k) eqn:E.
    - apply keq_spec in E. tauto.
    - apply IH. unfold keys. tauto.
  Qed.

  Lemma lookup_some_in k v l : lookup keq k l = Some v -> In (k, v) l.
  Proof.
    induction l as [|[k' v'] r IH]; cbn [lookup]; [discriminate|].
    destruct (keq k' k) eqn:E.
    - apply keq_spec in E. intros H. inversion H; subst. left. reflexivity.
    - intros H. right. apply IH, H.
  Qed.

  Lemma lookup_in_iff k v l : NoDup (keys l) -> lookup keq k l = Some v <-> In (k, v) l.
  Proof.
    intros Hnd. split; [apply lookup_some_in|].
    induction l as [|[k' v'] r IH]; cbn [In lookup]; [tauto|].
    cbn [keys map fst] in Hnd. inversion Hnd as [|? ? Hni Hnd']; subst.
    intros [H|H].
    - inversion H; subst. replace (keq k k) with true by (symmetry; apply keq_spec; reflexivity).
      reflexivity.
    - destruct (keq k' k) eqn:E.
      + apply keq_spec in E. subst k'. exfalso. apply Hni.
        change (In (fst (k, v)) (map fst r)). apply in_map, H.
      + apply IH; assumption.
  Qed.

  Lemma lookup_perm l l' : NoDup (keys l) -> Permutation l l' -> fm_eq keq l l'.
  Proof.
    intros Hnd Hp k.
    assert (Hnd' : NoDup (keys l')).
    { eapply Permutation_NoDup; [|exact Hnd]. apply Permutation_map, Hp. }
    destruct (lookup keq k l) as [v|] eqn:E1.
    - symmetry. apply (lookup_in_iff _ _ _ Hnd'). eapply Permutation_in; [exact Hp|].
      apply (lookup_in_iff _ _ _ Hnd), E1.
    - destruct (lookup keq k l') as [v|] eqn:E2; [|reflexivity].
      apply (lookup_in_iff _ _ _ Hnd') in E2. apply Permutation_sym in Hp.
      pose proof (Permutation_in _ Hp E2) as H. apply (lookup_in_iff _ _ _ Hnd) in H. congruence.
  Qed.

  Lemma map_back_perm o m m' :
    NoDup (keys m) -> Permutation m m' -> map_back keq o m -> map_back keq o m'.
  Proof.
    intros Hnd Hp. destruct m as [|x m].
    - apply Permutation_nil in Hp. subst. tauto.
    - destruct m' as [|y m']; [apply Permutation_sym, Permutation_nil in Hp; discriminate|].
      cbn [map_back]. intros (l & -> & Hl). exists l. split; [reflexivity|].
      intros k. rewrite Hl. apply lookup_perm; assumption.
  Qed.
End AlistP.

Lemma beqb_spec a b : beqb a b = true <-> a = b.
Proof. apply beqb_eq. Qed.

(* ---------- big-endian writers truncate by themselves ---------- *)
Lemma be2_trunc x : be 2 (x mod 65536) = be 2 x.
Proof.
  rewrite !be2_eq. f_equal; [|f_equal].
  - change 65536 with (256 * 256). rewrite N.mod_mul_r by lia.
    replace (x mod 256 + 256 * ((x / 256) mod 256)) with ((x / 256) mod 256 * 256 + x mod 256) by lia.
    rewrite N.div_add_l by lia. rewrite (N.div_small (x mod 256)) by (apply N.mod_lt; lia).
    rewrite N.add_0_r. apply N.mod_mod. lia.
  - change 65536 with (256 * 256). rewrite N.mod_mul_r by lia.
    replace (x mod 256 + 256 * ((x / 256) mod 256)) with (x mod 256 + (x / 256) mod 256 * 256) by lia.
    rewrite N.mod_add by lia. apply N.mod_mod. lia.
Qed.

Lemma be2_u16 x : be 2 (u16 x) = be 2 x.
Proof. apply be2_trunc. Qed.

Lemma be2_unsigned z : (0 <= z)%Z -> be 2 (to_unsigned 16 z) = be 2 (Z.to_N z).
Proof.
  intros Hz. unfold to_unsigned. change (Z.of_N (2 ^ 16)) with 65536%Z.
  rewrite Z2N.inj_mod by lia. apply be2_trunc.
Qed.

(* ---------- the writers ---------- *)
Definition kvs_size (l : list (bytes * bytes)) : N :=
  fold_right (fun kv a => str_size (fst kv) + str_size (snd kv) + a) 0 l.
Definition ikvs_size (l : list (N * bytes)) : N :=
  fold_right (fun kv a => 2 + str_size (snd kv) + a) 0 l.

Lemma write_str2_spec s : write_str2 s = (enc_str s, str_size s).
Proof. unfold write_str2, enc_str, str_size. rewrite be2_u16. f_equal. lia. Qed.

Lemma write_str_entries_spec l :
  write_str_entries l = (concat (map enc_kv (filter not_gdpr l)), kvs_size (filter not_gdpr l)).
Proof.
  induction l as [|[k v] r IH]; [reflexivity|].
  cbn [write_str_entries filter]. rewrite IH.
  change (not_gdpr (k, v)) with (negb (beqb k gdpr)).
  change gdpr_key with gdpr. destruct (beqb k gdpr); cbn [negb]; [reflexivity|].
  rewrite !write_str2_spec. cbn [map concat kvs_size fold_right fst snd].
  change (enc_kv (k, v)) with (enc_str k ++ enc_str v). rewrite <- app_assoc. reflexivity.
Qed.

Lemma write_int_entries_spec l : write_int_entries l = (concat (map enc_ikv l), ikvs_size l).
Proof.
  induction l as [|[k v] r IH]; [reflexivity|].
  cbn [write_int_entries]. rewrite IH, write_str2_spec, be2_u16.
  cbn [map concat ikvs_size fold_right fst snd].
  change (enc_ikv (k, v)) with (be 2 k ++ enc_str v). rewrite <- app_assoc. reflexivity.
Qed.

Lemma find_str_eq k l : find_str k l = slookup k l.
Proof. induction l as [|[k' v] r IH]; [reflexivity|]. cbn. rewrite IH. reflexivity. Qed.

Lemma slookup_some_len k v (l : list (bytes * bytes)) : slookup k l = Some v -> 1 <= len l.
Proof. destruct l; [discriminate|]. rewrite len_cons. lia. Qed.

Lemma filter_count sm :
  NoDup (keys sm) ->
  len (filter not_gdpr sm) =
  match slookup gdpr sm with Some _ => len sm - 1 | None => len sm end.
Proof.
  induction sm as [|[k v] r IH]; intros Hnd; [reflexivity|].
  cbn [keys map fst] in Hnd. inversion Hnd as [|? ? Hni Hnd']; subst.
  specialize (IH Hnd'). unfold slookup in *. cbn [filter lookup].
  change (not_gdpr (k, v)) with (negb (beqb k gdpr)).
  destruct (beqb k gdpr) eqn:E; cbn [negb].
  - apply beqb_eq in E. subst k. rewrite (lookup_none beqb beqb_spec gdpr r Hni) in IH.
    rewrite IH, len_cons. lia.
  - rewrite !len_cons, IH. destruct (lookup beqb gdpr r) eqn:El; [|reflexivity].
    apply (slookup_some_len gdpr b r) in El. lia.
Qed.

(* the sections Encode emits, in the order it emits them *)
Definition body (im : list (N * bytes)) (sm : list (bytes * bytes)) : list sec :=
  (match slookup gdpr sm with Some tok => [ACL tok] | None => [] end)
  ++ (match filter not_gdpr sm with [] => [] | l => [KV l] end)
  ++ (match im with [] => [] | l => [IntKV l] end).

Definition pad_of (im : list (N * bytes)) (sm : list (bytes * bytes)) : N :=
  (4 - raw_info_size im sm mod 4) mod 4.

Lemma raw_fold_kvs l :
  fold_right (fun (kv : bytes * bytes) a => str_size (fst kv) + str_size (snd kv) + a) 0 l = kvs_size l.
Proof. reflexivity. Qed.

Lemma write_kv_info_spec im sm :
  NoDup (keys sm) ->
  write_kv_info 2 im sm =
  (enc_secs (body im sm) ++ repeat 0 (N.to_nat (pad_of im sm)), info_size im sm).
Proof.
  intros Hnd. pose proof (filter_count sm Hnd) as Hc.
  unfold write_kv_info, body, info_size, pad_of, raw_info_size.
  rewrite find_str_eq. change gdpr_key with gdpr.
  rewrite write_str_entries_spec, write_int_entries_spec.
  assert (Hi : (0 <? len im) = match im with [] => false | _ => true end).
  { destruct im; [reflexivity|]. rewrite len_cons. destruct (N.ltb_spec 0 (1 + len im)); [reflexivity|lia]. }
  rewrite Hi; clear Hi.
  assert (Hbi : be 2 (u16 (len im)) = be 2 (len im)) by apply be2_u16. rewrite Hbi; clear Hbi.
  destruct (slookup gdpr sm) as [tok|] eqn:Et.
  - rewrite write_str2_spec. pose proof (slookup_some_len _ _ _ Et) as Hl1.
    assert (Hs : (0 <? Z.of_N (len sm) - 1)%Z = match filter not_gdpr sm with [] => false | _ => true end).
    { destruct (filter not_gdpr sm); rewrite ?len_nil, ?len_cons in Hc;
        destruct (Z.ltb_spec 0 (Z.of_N (len sm) - 1)); try reflexivity; lia. }
    rewrite Hs; clear Hs.
    assert (Hb : be 2 (to_unsigned 16 (Z.of_N (len sm) - 1)) = be 2 (len (filter not_gdpr sm))).
    { rewrite be2_unsigned by lia. f_equal. lia. }
    rewrite Hb; clear Hb Hc.
    destruct (filter not_gdpr sm) as [|kv0 fl]; destruct im as [|i0 im'];
      cbn [app enc_secs map concat enc_sec]; rewrite ?app_nil_r;
      repeat (rewrite <- app_assoc || rewrite <- app_comm_cons); reflexivity.
  - assert (Hs : (0 <? Z.of_N (len sm))%Z = match filter not_gdpr sm with [] => false | _ => true end).
    { destruct (filter not_gdpr sm); rewrite ?len_nil, ?len_cons in Hc;
        destruct (Z.ltb_spec 0 (Z.of_N (len sm))); try reflexivity; lia. }
    rewrite Hs; clear Hs.
    assert (Hb : be 2 (to_unsigned 16 (Z.of_N (len sm))) = be 2 (len (filter not_gdpr sm))).
    { rewrite be2_unsigned by lia. f_equal. lia. }
    rewrite Hb; clear Hb Hc.
    destruct (filter not_gdpr sm) as [|kv0 fl]; destruct im as [|i0 im'];
      cbn [app enc_secs map concat enc_sec]; rewrite ?app_nil_r;
      repeat (rewrite <- app_assoc || rewrite <- app_comm_cons); reflexivity.
Qed.

(* ---------- Encode ---------- *)
Lemma encode_spec tl p :
  NoDup (keys (p_str p)) ->
  encode tl p =
  if L_max <? info_size (p_int p) (p_str p) then Err e_toolarge
  else Ok (be 4 tl ++ be 4 (u32 (c_magic + p_flags p)) ++ be 4 (to_unsigned 32 (p_seq p))
           ++ be 2 (u16 (info_size (p_int p) (p_str p) / 4)) ++ [p_pid p; 0]
           ++ enc_secs (body (p_int p) (p_str p))
           ++ repeat 0 (N.to_nat (pad_of (p_int p) (p_str p)))).
Proof. intros H. unfold encode. rewrite (write_kv_info_spec _ _ H). reflexivity. Qed.

(* Encode fails exactly when the header-info size exceeds MaxHeaderSize; it never panics *)
Lemma enc_fail_iff tl p :
  NoDup (keys (p_str p)) ->
  ((exists e, encode tl p = Err e) <-> L_max < info_size (p_int p) (p_str p)) /\
  ((exists b, encode tl p = Ok b) <-> info_size (p_int p) (p_str p) <= L_max).
Proof.
  intros H. rewrite (encode_spec tl p H).
  destruct (N.ltb_spec L_max (info_size (p_int p) (p_str p))) as [Hlt|Hge]; split; split.
  - intros _. exact Hlt.
  - intros _. eexists. reflexivity.
  - intros [b Hb]. discriminate.
  - intros Hle. lia.
  - intros [e He]. discriminate.
  - intros Hlt. lia.
  - intros _. exact Hge.
  - intros _. eexists. reflexivity.
Qed.

(* ---------- sizes ---------- *)
Lemma kvs_size_cons kv l : kvs_size (kv :: l) = str_size (fst kv) + str_size (snd kv) + kvs_size l.
Proof. reflexivity. Qed.
Lemma ikvs_size_cons kv l : ikvs_size (kv :: l) = 2 + str_size (snd kv) + ikvs_size l.
Proof. reflexivity. Qed.

Lemma len_kvs l : len (concat (map enc_kv l)) = kvs_size l.
Proof.
  induction l as [|[k v] r IH]; [reflexivity|].
  rewrite kvs_size_cons. cbn [map concat fst snd]. rewrite len_app, IH.
  unfold enc_kv. cbn [fst snd]. rewrite len_app, !enc_str_len. unfold str_size. lia.
Qed.

Lemma len_ikvs l : len (concat (map enc_ikv l)) = ikvs_size l.
Proof.
  induction l as [|[k v] r IH]; [reflexivity|].
  rewrite ikvs_size_cons. cbn [map concat fst snd]. rewrite len_app, IH.
  unfold enc_ikv. cbn [fst snd]. rewrite len_app, be_len, enc_str_len. unfold str_size. lia.
Qed.

Definition acl_size (sm : list (bytes * bytes)) : N :=
  match slookup gdpr sm with Some tok => 1 + str_size tok | None => 0 end.
Definition kv_size (sm : list (bytes * bytes)) : N :=
  match filter not_gdpr sm with [] => 0 | l => 3 + kvs_size l end.
Definition int_size (im : list (N * bytes)) : N :=
  match im with [] => 0 | l => 3 + ikvs_size l end.

Lemma raw_split im sm : raw_info_size im sm = 2 + acl_size sm + kv_size sm + int_size im.
Proof. reflexivity. Qed.

Lemma len_sec_kv l : len (enc_secs [KV l]) = 3 + kvs_size l.
Proof.
  cbn [enc_secs map concat enc_sec]. rewrite app_nil_r, !len_app, be_len, len_kvs.
  change (len [1]) with 1. lia.
Qed.
Lemma len_sec_int l : len (enc_secs [IntKV l]) = 3 + ikvs_size l.
Proof.
  cbn [enc_secs map concat enc_sec]. rewrite app_nil_r, !len_app, be_len, len_ikvs.
  change (len [16]) with 1. lia.
Qed.
Lemma len_sec_acl tok : len (enc_secs [ACL tok]) = 1 + str_size tok.
Proof.
  cbn [enc_secs map concat enc_sec]. rewrite app_nil_r, !len_app, enc_str_len.
  change (len [17]) with 1. unfold str_size. lia.
Qed.

Lemma body_len im sm : 2 + len (enc_secs (body im sm)) = raw_info_size im sm.
Proof.
  rewrite raw_split. unfold body, acl_size, kv_size, int_size.
  rewrite !enc_secs_app, !len_app.
  assert (H1 : len (enc_secs match slookup gdpr sm with Some tok => [ACL tok] | None => [] end)
               = match slookup gdpr sm with Some tok => 1 + str_size tok | None => 0 end).
  { destruct (slookup gdpr sm); [apply len_sec_acl|reflexivity]. }
  assert (H2 : forall l : list (bytes * bytes), len (enc_secs match l with [] => [] | x :: r => [KV (x :: r)] end)
                         = match l with [] => 0 | x :: r => 3 + kvs_size (x :: r) end).
  { intros l. destruct l; [reflexivity|apply len_sec_kv]. }
  assert (H3 : forall l : list (N * bytes), len (enc_secs match l with [] => [] | _ :: _ => [IntKV l] end)
                         = match l with [] => 0 | _ :: _ => 3 + ikvs_size l end).
  { intros l. destruct l; [reflexivity|apply len_sec_int]. }
  rewrite H1, H2, H3. lia.
Qed.

Lemma pad_props s : (4 - s mod 4) mod 4 < 4 /\ (s + (4 - s mod 4) mod 4) mod 4 = 0.
Proof.
  pose proof (N.mod_lt s 4 ltac:(lia)) as H.
  assert (Hc : s mod 4 = 0 \/ s mod 4 = 1 \/ s mod 4 = 2 \/ s mod 4 = 3) by lia.
  split; [apply N.mod_lt; lia|].
  rewrite <- N.add_mod_idemp_l by lia.
  destruct Hc as [E|[E|[E|E]]]; rewrite E; reflexivity.
Qed.

Lemma info_size_props im sm :
  info_size im sm = raw_info_size im sm + pad_of im sm /\ pad_of im sm < 4 /\
  info_size im sm mod 4 = 0.
Proof.
  unfold info_size, pad_of. cbv zeta. destruct (pad_props (raw_info_size im sm)) as [H1 H2].
  repeat split; assumption.
Qed.

(* the header info Encode writes *)
Definition info_bytes pid im sm : bytes :=
  [pid; 0] ++ enc_secs (body im sm) ++ repeat 0 (N.to_nat (pad_of im sm)).

Lemma len_repeat {A} (x : A) n : len (repeat x n) = N.of_nat n.
Proof. unfold len. rewrite repeat_length. reflexivity. Qed.

Lemma info_bytes_len pid im sm : len (info_bytes pid im sm) = info_size im sm.
Proof.
  unfold info_bytes. rewrite !len_app, len_repeat. change (len [pid; 0]) with 2.
  destruct (info_size_props im sm) as (H & _ & _). rewrite H, <- body_len. lia.
Qed.

(* ---------- well-formed parameters (the Go types) and what success implies ---------- *)
Definition ikv_wf (kv : N * bytes) : Prop := fst kv < 65536 /\ wf (snd kv).
Definition skv_wf (kv : bytes * bytes) : Prop := wf (fst kv) /\ wf (snd kv).
Definition params_wf (p : eparam) : Prop :=
  p_flags p < 65536 /\ in_signed 32 (p_seq p) /\ p_pid p < 256 /\
  Forall ikv_wf (p_int p) /\ Forall skv_wf (p_str p).

Lemma kvs_size_in kv l : In kv l -> str_size (fst kv) + str_size (snd kv) <= kvs_size l.
Proof.
  induction l as [|x r IH]; [contradiction|]. rewrite kvs_size_cons. cbn [In].
  intros [->|H]; [lia|]. specialize (IH H). lia.
Qed.
Lemma kvs_size_count l : 4 * len l <= kvs_size l.
Proof.
  induction l as [|x r IH]; [cbn; lia|]. rewrite len_cons, kvs_size_cons.
  unfold str_size. lia.
Qed.
Lemma ikvs_size_in kv l : In kv l -> 2 + str_size (snd kv) <= ikvs_size l.
Proof.
  induction l as [|x r IH]; [contradiction|]. rewrite ikvs_size_cons. cbn [In].
  intros [->|H]; [lia|]. specialize (IH H). lia.
Qed.
Lemma ikvs_size_count l : 4 * len l <= ikvs_size l.
Proof.
  induction l as [|x r IH]; [cbn; lia|]. rewrite len_cons, ikvs_size_cons.
  unfold str_size. lia.
Qed.

(* a header info that fits 65536 bytes has only representable strings and counts *)
Lemma body_ok im sm :
  Forall ikv_wf im -> Forall skv_wf sm -> raw_info_size im sm <= 65536 -> secs_ok (body im sm).
Proof.
  intros Hi Hs Hr. rewrite raw_split in Hr. unfold body, secs_ok.
  rewrite Forall_forall in Hi, Hs.
  apply Forall_app. split; [|apply Forall_app; split].
  - unfold acl_size in Hr. destruct (slookup gdpr sm) as [tok|] eqn:Et; [|constructor].
    constructor; [|constructor]. cbn [sec_ok]. split.
    + unfold str_size in Hr. lia.
    + apply lookup_some_in in Et; [|exact beqb_spec]. apply (Hs _ Et).
  - unfold kv_size in Hr. destruct (filter not_gdpr sm) as [|kv0 fl] eqn:Ef; [constructor|].
    constructor; [|constructor]. cbn [sec_ok]. rewrite <- Ef in *.
    pose proof (kvs_size_count (filter not_gdpr sm)) as Hc. split; [lia|].
    apply Forall_forall. intros kv Hin. pose proof (kvs_size_in _ _ Hin) as Hb.
    apply filter_In in Hin. destruct Hin as [Hin _]. destruct (Hs _ Hin) as [Hk Hv].
    unfold str_ok, str_size in *. repeat split; try assumption; lia.
  - unfold int_size in Hr. destruct im as [|i0 im'] eqn:Ei; [constructor|].
    constructor; [|constructor]. cbn [sec_ok]. rewrite <- Ei in *.
    pose proof (ikvs_size_count im) as Hc. split; [lia|].
    apply Forall_forall. intros kv Hin. pose proof (ikvs_size_in _ _ Hin) as Hb.
    destruct (Hi _ Hin) as [Hk Hv].
    unfold str_ok, str_size in *. repeat split; try assumption; lia.
Qed.

(* ---------- the shape of a frame ---------- *)
Lemma frame_fields t x f s z rest :
  let b := be 4 t ++ be 2 x ++ be 2 f ++ be 4 s ++ be 2 z ++ rest in
  field_at b 0 4 = unbe (be 4 t) /\ field_at b 4 2 = unbe (be 2 x) /\
  field_at b 6 2 = unbe (be 2 f) /\ field_at b 8 4 = unbe (be 4 s) /\
  field_at b 12 2 = unbe (be 2 z) /\
  take 14 b = be 4 t ++ be 2 x ++ be 2 f ++ be 4 s ++ be 2 z /\ drop 14 b = rest /\
  len b = 14 + len rest.
Proof.
  cbv zeta. repeat split; try reflexivity. rewrite !len_app, !be_len. lia.
Qed.

Lemma unbe_be2 x : x < 65536 -> unbe (be 2 x) = x.
Proof. intros H. rewrite unbe_be. change (256 ^ N.of_nat 2) with 65536. apply N.mod_small, H. Qed.
Lemma unbe_be4 x : x < 4294967296 -> unbe (be 4 x) = x.
Proof. intros H. rewrite unbe_be. change (256 ^ N.of_nat 4) with 4294967296. apply N.mod_small, H. Qed.

Lemma be4_split hi lo : hi < 65536 -> lo < 65536 -> be 4 (hi * 65536 + lo) = be 2 hi ++ be 2 lo.
Proof.
  intros Hh Hl.
  assert (E : unbe (be 2 hi ++ be 2 lo) = hi * 65536 + lo).
  { rewrite unbe_app, be_length, !unbe_be2 by assumption. reflexivity. }
  rewrite <- E.
  change 4%nat with (length (be 2 hi ++ be 2 lo)) at 1.
  apply be_unbe. apply wf_app. split; apply be_wf.
Qed.

Lemma magic_flags fl : fl < 65536 -> be 4 (u32 (c_magic + fl)) = be 2 L_magic16 ++ be 2 fl.
Proof.
  intros H. unfold u32, two32. change c_magic with (L_magic16 * 65536). unfold L_magic16.
  rewrite N.mod_small by lia. apply be4_split; lia.
Qed.

Lemma div4_exact s : s mod 4 = 0 -> 4 * (s / 4) = s.
Proof. intros H. pose proof (N.div_mod s 4 ltac:(lia)). lia. Qed.

(* ---------- C06: layout ---------- *)
Lemma enc_layout tl p b :
  NoDup (keys (p_str p)) -> params_wf p -> info_size (p_int p) (p_str p) < two32 ->
  encode tl p = Ok b ->
  frame (p_flags p) (p_seq p) (p_pid p) (p_int p) (p_str p) b /\
  len b = L_meta + 4 * field_at b 12 2 /\ len b = L_meta + info_size (p_int p) (p_str p) /\
  info_size (p_int p) (p_str p) <= L_max.
Proof.
  intros Hnd (Hfl & Hsq & Hpid & Hiw & Hsw) Hnw H.
  rewrite (encode_spec tl p Hnd) in H.
  set (im := p_int p) in *. set (sm := p_str p) in *.
  destruct (info_size_props im sm) as (Hsz & Hpad & Hmod).
  unfold L_max, L_meta in *.
  destruct (N.ltb_spec 65536 (info_size im sm)) as [Hgt|Hle]; [discriminate|].
  apply (f_equal (fun r => match r with Ok x => x | _ => [] end)) in H. symmetry in H.
  change ([p_pid p; 0] ++ enc_secs (body im sm) ++ repeat 0 (N.to_nat (pad_of im sm)))
    with (info_bytes (p_pid p) im sm) in H.
  pose proof (info_bytes_len (p_pid p) im sm) as Hil.
  rewrite magic_flags in H by exact Hfl. rewrite be2_u16 in H. rewrite <- !app_assoc in H.
  subst b.
  assert (Hq : info_size im sm / 4 < 65536).
  { apply N.div_lt_upper_bound; lia. }
  split; [|split; [|split]].
  - exists tl, (body im sm), (N.to_nat (pad_of im sm)). cbv zeta.
    fold (info_bytes (p_pid p) im sm). rewrite Hil.
    split; [reflexivity|]. split; [|split; [|split; [|split]]].
    + exists (filter not_gdpr sm), im. repeat split; try apply Permutation_refl.
      unfold body. destruct (filter not_gdpr sm); reflexivity.
    + apply body_ok; try assumption. lia.
    + lia.
    + exact Hmod.
    + exact Hle.
  - destruct (frame_fields tl L_magic16 (p_flags p) (to_unsigned 32 (p_seq p)) (info_size im sm / 4)
                           (info_bytes (p_pid p) im sm)) as (_ & _ & _ & _ & F12 & _ & _ & Fl).
    cbv zeta in F12, Fl. rewrite F12, Fl, Hil, unbe_be2 by exact Hq.
    rewrite div4_exact by exact Hmod. reflexivity.
  - rewrite !len_app, !be_len, Hil. lia.
  - exact Hle.
Qed.

(* success alone already bounds every string and count the format has to represent *)
Lemma enc_ok_representable tl p b :
  NoDup (keys (p_str p)) -> params_wf p -> info_size (p_int p) (p_str p) < two32 ->
  encode tl p = Ok b -> secs_ok (body (p_int p) (p_str p)).
Proof.
  intros Hnd Hwf Hnw H. destruct (enc_layout tl p b Hnd Hwf Hnw H) as (_ & _ & _ & Hle).
  destruct Hwf as (_ & _ & _ & Hiw & Hsw).
  destruct (info_size_props (p_int p) (p_str p)) as (Hsz & _ & _). unfold L_max in Hle.
  apply body_ok; try assumption. lia.
Qed.

(* ---------- what the sections of a frame mean ---------- *)
Lemma enc_pads n : enc_secs (repeat Pad n) = repeat 0 n.
Proof. induction n as [|n IH]; [reflexivity|]. cbn [repeat]. rewrite enc_secs_cons, IH. reflexivity. Qed.

Lemma secs_ok_pads n : secs_ok (repeat Pad n).
Proof. apply Forall_forall. intros s H. apply repeat_spec in H. subst. exact I. Qed.

Lemma fold_pads n : forall m, fold_left interp_step (repeat Pad n) m = m.
Proof. induction n as [|n IH]; intros m; [reflexivity|]. cbn [repeat fold_left interp_step]. apply IH. Qed.

Lemma existsb_pads (f : sec -> bool) n : f Pad = false -> existsb f (repeat Pad n) = false.
Proof.
  intros Hf. induction n as [|n IH]; [reflexivity|]. cbn [repeat existsb]. rewrite Hf, IH. reflexivity.
Qed.

Lemma ointerp_pads secs n : ointerp (secs ++ repeat Pad n) = ointerp secs.
Proof.
  unfold ointerp, interp, interp_from. rewrite fold_left_app, !existsb_app.
  rewrite fold_pads, !existsb_pads by reflexivity. rewrite !orb_false_r. reflexivity.
Qed.

Lemma ointerp_body (tokopt : option bytes) (sl : list (bytes * bytes)) (il : list (N * bytes)) :
  ointerp ((match tokopt with Some tok => [ACL tok] | None => [] end)
           ++ (match sl with [] => [] | _ :: _ => [KV sl] end)
           ++ (match il with [] => [] | _ :: _ => [IntKV il] end)) =
  (match il with [] => None | _ :: _ => Some (rev il) end,
   match (match tokopt with Some tok => [(gdpr, tok)] | None => [] end) ++ sl with
   | [] => None
   | _ :: _ => Some (rev sl ++ match tokopt with Some tok => [(gdpr, tok)] | None => [] end)
   end).
Proof.
  destruct tokopt as [tok|], sl as [|s0 sl'], il as [|i0 il']; unfold ointerp, interp, interp_from;
    cbn [app fold_left interp_step existsb is_intsec is_strsec orb fst snd];
    rewrite ?app_nil_r; reflexivity.
Qed.

Lemma split_gdpr sm :
  NoDup (keys sm) ->
  Permutation sm ((match slookup gdpr sm with Some tok => [(gdpr, tok)] | None => [] end)
                  ++ filter not_gdpr sm).
Proof.
  induction sm as [|[k v] r IH]; intros Hnd; [constructor|].
  cbn [keys map fst] in Hnd. inversion Hnd as [|? ? Hni Hnd']; subst. specialize (IH Hnd').
  unfold slookup in *. cbn [lookup filter]. change (not_gdpr (k, v)) with (negb (beqb k gdpr)).
  destruct (beqb k gdpr) eqn:E; cbn [negb].
  - apply beqb_eq in E. subst k. rewrite (lookup_none beqb beqb_spec gdpr r Hni) in IH.
    cbn [app] in *. constructor. exact IH.
  - apply Permutation_cons_app. exact IH.
Qed.

Lemma rev_perm {A} (l : list A) : Permutation (rev l) l.
Proof. apply Permutation_sym, Permutation_rev. Qed.

(* the maps a decoder reads from the sections an encoder must emit *)
Lemma body_maps im sm secs :
  NoDup (keys im) -> NoDup (keys sm) -> body_secs im sm secs ->
  map_back N.eqb (fst (ointerp secs)) im /\ map_back beqb (snd (ointerp secs)) sm.
Proof.
  intros Hni Hns (sl & il & Hsl & Hil & ->).
  rewrite ointerp_body. cbn [fst snd]. split.
  - destruct il as [|i0 il'].
    + apply Permutation_nil in Hil. subst im. reflexivity.
    + apply (map_back_perm N.eqb N.eqb_eq _ (i0 :: il') im).
      * eapply Permutation_NoDup; [|exact Hni]. apply Permutation_map, Permutation_sym, Hil.
      * exact Hil.
      * cbn [map_back]. eexists. split; [reflexivity|].
        apply lookup_perm; [exact N.eqb_eq| |apply rev_perm].
        eapply Permutation_NoDup; [|exact Hni].
        apply Permutation_map. eapply Permutation_trans; [apply Permutation_sym, Hil|].
        apply Permutation_sym, rev_perm.
  - pose proof (split_gdpr sm Hns) as Hsp.
    set (tp := match slookup gdpr sm with Some tok => [(gdpr, tok)] | None => [] end) in *.
    assert (Hp : Permutation (tp ++ sl) sm).
    { apply Permutation_sym. eapply Permutation_trans; [exact Hsp|].
      apply Permutation_app_head, Permutation_sym, Hsl. }
    assert (Hp2 : Permutation (rev sl ++ tp) (tp ++ sl)).
    { eapply Permutation_trans; [apply Permutation_app_comm|]. apply Permutation_app_head, rev_perm. }
    destruct (tp ++ sl) as [|x0 xs] eqn:Ex.
    + apply Permutation_nil in Hp. subst sm. reflexivity.
    + apply (map_back_perm beqb beqb_spec _ (x0 :: xs) sm).
      * eapply Permutation_NoDup; [|exact Hns]. apply Permutation_map, Permutation_sym, Hp.
      * exact Hp.
      * cbn [map_back]. eexists. split; [reflexivity|].
        apply lookup_perm; [exact beqb_spec| |exact Hp2].
        eapply Permutation_NoDup; [|exact Hns].
        apply Permutation_map. eapply Permutation_trans; [apply Permutation_sym, Hp|].
        apply Permutation_sym, Hp2.
Qed.

(* ---------- every frame that follows the layout decodes to its parameters ---------- *)
Lemma frame_decodes fl sq pid im sm b payload :
  frame fl sq pid im sm b -> fl < 65536 -> in_signed 32 sq -> In pid L_pids ->
  NoDup (keys im) -> NoDup (keys sm) -> len b + len payload - 4 < two32 ->
  exists r, decode (set_total b (len b + len payload - 4) ++ payload) = (len b, Ok r) /\
            d_flags r = fl /\ d_seq r = sq /\ d_pid r = pid /\
            map_back N.eqb (d_int r) im /\ map_back beqb (d_str r) sm /\
            d_hlen r = Z.of_N (len b) /\ d_plen r = Z.of_N (len payload).
Proof.
  intros (tl & secs & pad & Hfr) Hfl Hsq Hpid Hni Hns HT. cbv zeta in Hfr.
  destruct Hfr as (Hb & Hbody & Hok & Hpad & Hmod & Hmax).
  set (info := [pid; 0] ++ enc_secs secs ++ repeat 0 pad) in *.
  set (T := len b + len payload - 4) in *.
  assert (Hb' : set_total b T ++ payload =
                be 4 T ++ be 2 L_magic16 ++ be 2 fl ++ be 4 (to_unsigned 32 sq)
                   ++ be 2 (len info / 4) ++ (info ++ payload)).
  { unfold set_total, u32. rewrite (N.mod_small T) by exact HT. rewrite Hb.
    change (drop 4 (be 4 tl ++ ?r)) with r. rewrite <- !app_assoc. reflexivity. }
  destruct (frame_fields T L_magic16 fl (to_unsigned 32 sq) (len info / 4) (info ++ payload))
    as (F0 & F4 & F6 & F8 & F12 & Ft & Fd & Fl).
  cbv zeta in F0, F4, F6, F8, F12, Ft, Fd, Fl. rewrite <- Hb' in *. clear Hb'.
  set (b' := set_total b T ++ payload) in *.
  assert (Hlb : len b = 14 + len info).
  { rewrite Hb, !len_app, !be_len. lia. }
  unfold L_max in Hmax.
  assert (Hq : len info / 4 < 65536) by (apply N.div_lt_upper_bound; lia).
  rewrite unbe_be4 in F0 by exact HT. change (unbe (be 2 L_magic16)) with L_magic16 in F4.
  rewrite unbe_be2 in F6 by exact Hfl. rewrite unbe_be2 in F12 by exact Hq.
  rewrite unbe_be4 in F8 by apply to_unsigned_lt.
  assert (Hdecl : declared b' = len info).
  { unfold declared, L_meta. rewrite Fl, len_app.
    destruct (N.ltb_spec (14 + (len info + len payload)) 14); [lia|].
    rewrite F12. apply div4_exact, Hmod. }
  assert (Hinfo : info_of b' = pid :: 0 :: (enc_secs secs ++ repeat 0 pad)).
  { unfold info_of. rewrite Hdecl. change L_meta with 14. rewrite Fd. apply take_app_len. }
  assert (Hl2 : 2 <= len info).
  { unfold info. rewrite len_app. change (len [pid; 0]) with 2. lia. }
  rewrite decode_core.
  2:{ rewrite Ft. do 4 (apply wf_app; split; [apply be_wf|]). apply be_wf. }
  2:{ rewrite Fl. lia. }
  rewrite F4, N.eqb_refl. cbn [negb]. rewrite Hdecl. unfold L_max.
  destruct (N.ltb_spec 65536 (len info)) as [Hx|_]; [lia|].
  destruct (N.ltb_spec (len info) 2) as [Hx|_]; [lia|]. cbn [orb].
  rewrite Fl, len_app.
  destruct (N.ltb_spec (14 + (len info + len payload)) (14 + len info)) as [Hx|_]; [lia|].
  rewrite Hinfo, F0, F6, F8.
  rewrite (decode_info_fwd _ _ _ (len info) pid 0 _ (secs ++ repeat Pad pad)).
  - eexists. split; [rewrite Hlb; reflexivity|].
    unfold result. cbn [d_flags d_seq d_pid d_int d_str d_hlen d_plen].
    rewrite ointerp_pads. destruct (body_maps im sm secs Hni Hns Hbody) as [Hmi Hms].
    repeat split; try assumption.
    + apply signed_unsigned; [lia|exact Hsq].
    + rewrite Hlb. reflexivity.
    + unfold T. lia.
  - reflexivity.
  - exact Hmax.
  - exact Hpid.
  - lia.
  - apply Forall_app. split; [exact Hok|apply secs_ok_pads].
  - rewrite enc_secs_app, enc_pads. reflexivity.
Qed.

(* ---------- C06: round trip, for every enumeration order of the two maps ---------- *)
Lemma params_wf_perm fl sq pid im sm io so :
  Permutation io im -> Permutation so sm ->
  params_wf {| p_flags := fl; p_seq := sq; p_pid := pid; p_int := im; p_str := sm |} ->
  params_wf {| p_flags := fl; p_seq := sq; p_pid := pid; p_int := io; p_str := so |}.
Proof.
  intros Hi Hs (H1 & H2 & H3 & H4 & H5). cbn [p_flags p_seq p_pid p_int p_str] in *.
  split; [exact H1|split; [exact H2|split; [exact H3|split]]].
  - eapply Permutation_Forall; [apply Permutation_sym, Hi|exact H4].
  - eapply Permutation_Forall; [apply Permutation_sym, Hs|exact H5].
Qed.

Lemma roundtrip fl sq pid im sm io so tl b payload :
  let p := {| p_flags := fl; p_seq := sq; p_pid := pid; p_int := io; p_str := so |} in
  Permutation io im -> Permutation so sm -> NoDup (keys im) -> NoDup (keys sm) ->
  params_wf p -> In pid L_pids -> info_size io so < two32 ->
  encode tl p = Ok b -> len b + len payload - 4 < two32 ->
  exists r, decode (set_total b (len b + len payload - 4) ++ payload) = (len b, Ok r) /\
            d_flags r = fl /\ d_seq r = sq /\ d_pid r = pid /\
            map_back N.eqb (d_int r) im /\ map_back beqb (d_str r) sm /\
            d_hlen r = Z.of_N (len b) /\ d_plen r = Z.of_N (len payload).
Proof.
  intros p Hpi Hps Hni Hns Hwf Hpid Hnw He HT.
  assert (Hnio : NoDup (keys io)).
  { eapply Permutation_NoDup; [|exact Hni]. apply Permutation_map, Permutation_sym, Hpi. }
  assert (Hnso : NoDup (keys so)).
  { eapply Permutation_NoDup; [|exact Hns]. apply Permutation_map, Permutation_sym, Hps. }
  destruct (enc_layout tl p b Hnso Hwf Hnw He) as (Hfr & _).
  destruct Hwf as (Hfl & Hsq & _).
  destruct (frame_decodes fl sq pid io so b payload Hfr Hfl Hsq Hpid Hnio Hnso HT)
    as (r & Hd & H1 & H2 & H3 & H4 & H5 & H6 & H7).
  exists r. repeat split; try assumption.
  - eapply map_back_perm; [exact N.eqb_eq|exact Hnio|exact Hpi|exact H4].
  - eapply map_back_perm; [exact beqb_spec|exact Hnso|exact Hps|exact H5].
Qed.

(* ---------- IsTTHeader / IsStreaming ---------- *)
Lemma explode8 (b : bytes) : 8 <= len b ->
  exists m0 m1 m2 m3 m4 m5 m6 m7 rest, b = m0 :: m1 :: m2 :: m3 :: m4 :: m5 :: m6 :: m7 :: rest.
Proof.
  intros H. do 8 (destruct b as [|? b]; [rewrite ?len_cons, ?len_nil in H; lia|]).
  repeat eexists.
Qed.

(* IsTTHeader looks at bytes 4..7 and needs them: on fewer than 8 bytes it panics *)
Lemma is_ttheader_spec b :
  wf (take 8 b) -> 8 <= len b -> is_ttheader b = Ok (field_at b 4 2 =? L_magic16).
Proof.
  intros Hw Hl. destruct (explode8 b Hl) as (m0 & m1 & m2 & m3 & m4 & m5 & m6 & m7 & rest & ->).
  change (take 8 _) with [m0; m1; m2; m3; m4; m5; m6; m7] in Hw.
  unfold wf in Hw. repeat (apply Forall_cons_iff in Hw; destruct Hw as [? Hw]). unfold wfb in *.
  unfold is_ttheader, slice_from. change c_s32 with 4.
  destruct (N.leb_spec 4 (len (m0 :: m1 :: m2 :: m3 :: m4 :: m5 :: m6 :: m7 :: rest))) as [_|Hx]; [|lia].
  change (drop 4 (m0 :: m1 :: m2 :: m3 :: m4 :: m5 :: m6 :: m7 :: rest)) with (m4 :: m5 :: m6 :: m7 :: rest).
  cbn [bind be_u32]. rewrite magic_test by assumption. reflexivity.
Qed.

Lemma is_ttheader_short b : len b < 8 -> exists w, is_ttheader b = Panic w.
Proof.
  intros H. do 8 (destruct b as [|? b]; [eexists; reflexivity|]).
  rewrite !len_cons in H. lia.
Qed.

Lemma is_streaming_spec b :
  is_streaming b =
  Ok ((8 <=? len b) && (field_at b 4 2 =? L_magic16)
      && negb (N.land (field_at b 6 2) L_streaming =? 0)).
Proof.
  unfold is_streaming. destruct (N.ltb_spec (len b) 8) as [Hs|Hl].
  - destruct (N.leb_spec 8 (len b)); [lia|reflexivity].
  - destruct (N.leb_spec 8 (len b)); [|lia]. cbn [andb].
    destruct (explode8 b Hl) as (m0 & m1 & m2 & m3 & m4 & m5 & m6 & m7 & rest & ->).
    unfold slice_from. change c_s32 with 4. change (4 + c_s16) with 6.
    destruct (N.leb_spec 4 (len (m0 :: m1 :: m2 :: m3 :: m4 :: m5 :: m6 :: m7 :: rest))) as [_|Hx]; [|lia].
    destruct (N.leb_spec 6 (len (m0 :: m1 :: m2 :: m3 :: m4 :: m5 :: m6 :: m7 :: rest))) as [_|Hx]; [|lia].
    change (drop 4 (m0 :: m1 :: m2 :: m3 :: m4 :: m5 :: m6 :: m7 :: rest)) with (m4 :: m5 :: m6 :: m7 :: rest).
    change (drop 6 (m0 :: m1 :: m2 :: m3 :: m4 :: m5 :: m6 :: m7 :: rest)) with (m6 :: m7 :: rest).
    cbn [bind be_u16].
    change (field_at _ 4 2) with (m4 * 256 + m5). change (field_at _ 6 2) with (m6 * 256 + m7).
    change (u16 (c_magic / two16)) with L_magic16. change (u16 c_streaming) with L_streaming.
    destruct (m4 * 256 + m5 =? L_magic16); reflexivity.
Qed.

(* on an encoded header both agree with what was encoded *)
Lemma enc_is_ttheader tl p b :
  NoDup (keys (p_str p)) -> params_wf p -> info_size (p_int p) (p_str p) < two32 ->
  encode tl p = Ok b ->
  is_ttheader b = Ok true /\
  is_streaming b = Ok (negb (N.land (p_flags p) L_streaming =? 0)).
Proof.
  intros Hnd Hwf Hnw He. destruct (enc_layout tl p b Hnd Hwf Hnw He) as (Hfr & _).
  destruct Hwf as (Hfl & _).
  destruct Hfr as (tl' & secs & pad & Hfr). cbv zeta in Hfr. destruct Hfr as (Hb & _).
  set (info := [p_pid p; 0] ++ enc_secs secs ++ repeat 0 pad) in *.
  destruct (frame_fields tl' L_magic16 (p_flags p) (to_unsigned 32 (p_seq p)) (len info / 4) info)
    as (_ & F4 & F6 & _ & _ & Ft & _ & Fl).
  cbv zeta in F4, F6, Ft, Fl. rewrite <- Hb in *.
  change (unbe (be 2 L_magic16)) with L_magic16 in F4. rewrite unbe_be2 in F6 by exact Hfl.
  assert (Hl : 8 <= len b) by lia.
  split.
  - rewrite is_ttheader_spec; [rewrite F4; reflexivity| |exact Hl].
    replace (take 8 b) with (take 8 (take 14 b)).
    + apply wf_take. rewrite Ft. do 4 (apply wf_app; split; [apply be_wf|]). apply be_wf.
    + unfold take. rewrite firstn_firstn. reflexivity.
  - rewrite is_streaming_spec, F4, F6. destruct (N.leb_spec 8 (len b)); [reflexivity|lia].
Qed.

(* ---------- boolean forms of the hypotheses ---------- *)
Definition params_wfb (p : eparam) : bool :=
  (p_flags p <? 65536) && in_signedb 32 (p_seq p) && (p_pid p <? 256)
  && forallb (fun kv : N * bytes => (fst kv <? 65536) && wfbb (snd kv)) (p_int p)
  && forallb (fun kv : bytes * bytes => wfbb (fst kv) && wfbb (snd kv)) (p_str p).

Lemma params_wfb_spec p : params_wfb p = true -> params_wf p.
Proof.
  unfold params_wfb, params_wf. rewrite !andb_true_iff, !forallb_forall, !Forall_forall.
  intros ((((H1 & H2) & H3) & H4) & H5). repeat split.
  - lia.
  - apply in_signedb_spec in H2. apply H2.
  - apply in_signedb_spec in H2. apply H2.
  - lia.
  - specialize (H4 _ H). lia.
  - specialize (H4 _ H). apply andb_true_iff in H4. apply wfbb_wf, H4.
  - specialize (H5 _ H). apply andb_true_iff in H5. apply wfbb_wf, H5.
  - specialize (H5 _ H). apply andb_true_iff in H5. apply wfbb_wf, H5.
Qed.

Lemma nodupk_spec {K} (keq : K -> K -> bool) (keq_spec : forall a b, keq a b = true <-> a = b) l :
  nodupk keq l = true -> NoDup l.
Proof.
  induction l as [|x r IH]; cbn [nodupk]; [constructor|].
  rewrite andb_true_iff, negb_true_iff. intros [H1 H2]. constructor; [|apply IH, H2].
  intros Hin. assert (Hm : memk keq x r = true).
  { clear -Hin keq_spec. induction r as [|y r IH]; [contradiction|]. cbn [memk].
    destruct Hin as [->|Hin].
    - replace (keq x x) with true by (symmetry; apply keq_spec; reflexivity). reflexivity.
    - rewrite IH by exact Hin. apply orb_true_r. }
  congruence.
Qed.

(* ---------- what the 16-bit length and count fields can represent ---------- *)
Definition fits16b (p : eparam) : bool :=
  (len (p_int p) <? 65536) && (len (p_str p) <? 65536)
  && forallb (fun kv : N * bytes => len (snd kv) <? 65536) (p_int p)
  && forallb (fun kv : bytes * bytes => (len (fst kv) <? 65536) && (len (snd kv) <? 65536)) (p_str p).

Lemma len_filter_le {A} (f : A -> bool) l : len (filter f l) <= len l.
Proof.
  induction l as [|x r IH]; [cbn; lia|]. cbn [filter]. destruct (f x); rewrite ?len_cons; lia.
Qed.

(* success of Encode (below 4 GiB) implies it: nothing is ever truncated on a frame Encode
   returns, so these are consequences, not extra hypotheses, of the round trip *)
Lemma enc_ok_fits16 tl p b :
  NoDup (keys (p_str p)) -> info_size (p_int p) (p_str p) < two32 ->
  encode tl p = Ok b -> fits16b p = true.
Proof.
  intros Hnd Hnw H. rewrite (encode_spec tl p Hnd) in H.
  set (im := p_int p) in *. set (sm := p_str p) in *.
  unfold L_max in H.
  destruct (N.ltb_spec 65536 (info_size im sm)) as [Hgt|Hle]; [discriminate|]. clear H.
  destruct (info_size_props im sm) as (Hsz & _ & _). rewrite raw_split in Hsz.
  pose proof (filter_count sm Hnd) as Hfc.
  assert (Hkv : kv_size sm = 0 \/ 3 + kvs_size (filter not_gdpr sm) = kv_size sm).
  { unfold kv_size. destruct (filter not_gdpr sm); [left|right]; reflexivity. }
  assert (Hiv : int_size im = 0 /\ im = [] \/ 3 + ikvs_size im = int_size im).
  { unfold int_size. destruct im; [left; split|right]; reflexivity. }
  pose proof (kvs_size_count (filter not_gdpr sm)) as Hc1.
  pose proof (ikvs_size_count im) as Hc2.
  unfold fits16b. fold im sm. rewrite !andb_true_iff, !forallb_forall. repeat split.
  - destruct Hiv as [[_ ->]|Hiv]; [reflexivity|]. lia.
  - assert (Hls : len sm <= len (filter not_gdpr sm) + 1) by (destruct (slookup gdpr sm); lia).
    destruct Hkv as [Hkv|Hkv].
    + unfold kv_size in Hkv. destruct (filter not_gdpr sm) eqn:Ef; [|lia]. rewrite len_nil in Hls. lia.
    + lia.
  - intros kv Hin. pose proof (ikvs_size_in _ _ Hin) as Hb.
    destruct Hiv as [[_ Hnil]|Hiv]; [rewrite Hnil in Hin; contradiction|].
    unfold str_size in Hb. lia.
  - intros kv Hin. destruct (not_gdpr kv) eqn:Eg.
    + assert (Hin' : In kv (filter not_gdpr sm)) by (apply filter_In; split; assumption).
      pose proof (kvs_size_in _ _ Hin') as Hb.
      destruct Hkv as [Hkv|Hkv].
      * unfold kv_size in Hkv. destruct (filter not_gdpr sm); [contradiction|lia].
      * unfold str_size in Hb. lia.
    + unfold not_gdpr in Eg. apply negb_false_iff, beqb_eq in Eg. destruct kv as [k v]. cbn [fst snd] in *.
      subst k. apply (lookup_in_iff beqb beqb_spec _ _ _ Hnd) in Hin.
      unfold acl_size in Hsz. fold (slookup gdpr sm) in Hin. rewrite Hin in Hsz.
      unfold str_size in Hsz. change (len gdpr) with 22. lia.
Qed.

(* ---------- the size clause holds unconditionally (since the repair of /repo: Encode compared
   uint32(size), so a header info of 4 GiB + r passed; it now compares the int) ---------- *)
Definition enc_size_statement : Prop :=
  forall tl p b, NoDup (keys (p_str p)) -> params_wf p -> encode tl p = Ok b ->
                 info_size (p_int p) (p_str p) <= L_max.

Lemma enc_size_statement_holds : enc_size_statement.
Proof.
  intros tl p b Hnd _ H. destruct (enc_fail_iff tl p Hnd) as [_ [Hok _]]. apply Hok. eexists. exact H.
Qed.

