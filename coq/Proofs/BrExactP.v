(* Proofs/BrExactP.v — BufferReader.Skip on encodings of well-typed trees: exact, for every
   reader state of the bufiox model positioned where enc v ++ rest begins, every script that
   cannot stall, any length of the stream. *)
From GV Require Import Lib.Bytes Lib.Res Gen.Consts Model.Binary Model.BufReader Model.Skip
  Model.StreamSkip Spec.ThriftGrammar Spec.RefParse Spec.Cursor
  Proofs.BufReaderLib Proofs.BufReaderP Proofs.RefLib Proofs.RefP Proofs.SkipLib Proofs.GrammarP
  Proofs.TskipAcceptP Proofs.TskipExactP Proofs.BrAcceptP.
From Coq Require Import ZifyN ZifyNat ZifyBool Lia.
Open Scope N_scope.

Theorem br_skip_exact D F CH c st t v rest :
  RInv D F CH c st -> may_stall CH = false -> wf D -> drop c D = enc v ++ rest ->
  wt t v = true -> (ch v <= 63)%nat ->
  exists st', br_skip st t = (st', Ok tt) /\
              RInv D F CH (c + len (enc v)) st' /\
              r_readlen st' = r_readlen st + len (enc v).
Proof.
  intros HI Hns W Hd Hw Hc.
  pose proof (rinv_cursor_le _ _ _ _ _ HI) as Hcle.
  assert (Hlen : len (enc v) + len rest = len D - c).
  { rewrite <- len_app, <- Hd. apply drop_len. exact Hcle. }
  unfold br_skip, br_skip_depth. rewrite depth_ok.
  assert (HR : br_rep D F CH c (r_readlen st) st (drop c D)).
  { exists c. split; [exact HI|]. split; [lia|]. split; [reflexivity|lia]. }
  pose proof (brskip_acc D F CH Hns W c (r_readlen st) (r_fuel st) 64 st (drop c D) t HR (wt_lt256 t v Hw)) as T.
  rewrite Hd in T. rewrite (rp_enc inl_br t v rest Hw Hc) in T.
  destruct T as [st' [E [c' (HI' & Hc' & Hr' & Hl')]]].
  { unfold TskipAcceptP.P, r_fuel. pose proof (inv_avail _ _ _ _ _ _ HI) as Ha.
    assert (len (drop (spos (src st)) (sdata (src st))) <= len (sdata (src st))) by (rewrite len_drop; lia).
    rewrite <- Hd.
    assert (len (drop c D) = len D - c) by (apply drop_len; exact Hcle).
    unfold len in *. lia. }
  rewrite drop_app_len in Hr'.
  assert (Hcc : c' = c + len (enc v)).
  { apply (f_equal len) in Hr'. rewrite drop_len in Hr' by lia. lia. }
  subst c'. exists st'. split; [exact E|]. split; [exact HI'|]. rewrite Hl'. f_equal. lia.
Qed.
