(* Proofs/GenCorollariesBR.v — transfer of facts about the hand model of BufferReader.Skip
   (Model/StreamSkip.v br_skip; theorems in Proofs/BrAcceptP.v / BrExactP.v, Properties C02 / C08) to
   the definition REGENERATED FROM THE GO SOURCE on every run (Gen/Funcs.v
   g_thrift_BufferReader_Skip over the models mNext / mSkip of the bufiox reader), by
   Proofs/GenEquivBR.v: whatever br_skip returns from a state that represents wf data, the
   generated Skip returns — same final reader state, nil for Ok, the same error otherwise.
   (E.g. with BrExactP.br_skip_exact: on enc v ++ rest it returns nil and leaves the reader
   exactly behind enc v.)  ALL recursion fuel above 64 and ALL loop fuel above r_fuel st. *)
From GV Require Import Lib.Bytes Lib.Res Lib.GoSem Gen.Consts Gen.Funcs Model.Binary Model.BufReader Model.Skip
     Model.StreamSkip Proofs.BufReaderP Proofs.GenLib Proofs.GenEquivSkip Proofs.GenEquivBR.
From Coq Require Import ZifyN ZifyNat ZifyBool.
Open Scope N_scope.

Definition g_br_skip (rfuel fuel : nat) (st : rstate) (t : N) : res (rstate * gerror) :=
  g_thrift_BufferReader_Skip rstate mNext mSkip rfuel fuel thrift_typeToSize st (i8 t).

Section Transfer.
  Variables (D : bytes) (F : Z) (CH : list N).
  Hypothesis D_wf : wf D.

  Theorem g_br_skip_ok c st t st' rfuel fuel :
    RInv D F CH c st -> (depth0 < rfuel)%nat -> (r_fuel st < fuel)%nat -> t < 256 ->
    br_skip st t = (st', Ok tt) -> g_br_skip rfuel fuel st t = Ok (st', gnil).
  Proof.
    intros HI Hr Hf Ht E.
    pose proof (g_br_Skip_sim D F CH D_wf rfuel fuel st t (ex_intro _ c HI) Hr Hf Ht) as T.
    rewrite E in T. apply T. unfold GenEquivSkip.nofuel. cbn. discriminate.
  Qed.

  Theorem g_br_skip_err c st t st' e rfuel fuel :
    RInv D F CH c st -> (depth0 < rfuel)%nat -> (r_fuel st < fuel)%nat -> t < 256 ->
    br_skip st t = (st', Err e) -> e <> e_fuel -> g_br_skip rfuel fuel st t = Ok (st', Some e).
  Proof.
    intros HI Hr Hf Ht E He.
    pose proof (g_br_Skip_sim D F CH D_wf rfuel fuel st t (ex_intro _ c HI) Hr Hf Ht) as T.
    rewrite E in T. apply T. unfold GenEquivSkip.nofuel. cbn. intros X. inversion X. contradiction.
  Qed.

  (* never a panic where the hand model has none (C03 / C08: it has none) *)
  Theorem g_br_skip_safe c st t rfuel fuel :
    RInv D F CH c st -> (depth0 < rfuel)%nat -> (r_fuel st < fuel)%nat -> t < 256 ->
    safe (snd (br_skip st t)) -> snd (br_skip st t) <> Err e_fuel ->
    exists st' e, g_br_skip rfuel fuel st t = Ok (st', e).
  Proof.
    intros HI Hr Hf Ht Hs Hnf.
    pose proof (g_br_Skip_sim D F CH D_wf rfuel fuel st t (ex_intro _ c HI) Hr Hf Ht Hnf) as T.
    destruct (br_skip st t) as [st' [u|e|w|]]; cbn in Hs; try contradiction; cbn [GenEquivSkip.ssim] in T; eauto.
  Qed.
End Transfer.

(* non-vacuity: a bytes reader over struct { 1: i32 = 5; 2: list<string> ["a"] } STOP + one
   trailing byte; a string whose length has the sign bit set; out of recursion fuel *)
Example g_br_skip_nonvacuous :
  let v := [8; 0; 1; 0; 0; 0; 5; 15; 0; 2; 11; 0; 0; 0; 1; 0; 0; 0; 1; 97; 0; 9] in
  (exists st', g_br_skip 65 40 (new_bytes_reader v 22) 12 = Ok (st', gnil) /\ r_readlen st' = 21) /\
  (exists st', g_br_skip 65 40 (new_bytes_reader [128; 0; 0; 1; 7] 5) 11 = Ok (st', Some e_neg_size) /\ r_readlen st' = 4) /\
  (exists st', g_br_skip 65 40 (new_bytes_reader [0; 0; 0; 9; 7] 5) 11 = Ok (st', Some (e_wrap e_eof)) /\ r_readlen st' = 4) /\
  g_br_skip 1 40 (new_bytes_reader v 22) 12 = Err gfuel /\
  g_br_skip 65 2 (new_bytes_reader v 22) 12 = Err gfuel.
Proof. vm_compute. repeat split; try (eexists; split; reflexivity). Qed.
