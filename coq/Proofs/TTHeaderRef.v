(* Proofs/TTHeaderRef.v — the executable reference parser of Spec/FrameLayout.v (parse_secs,
   spec_decode: what the correspondence run judges the implementation's observations with)
   decides exactly the declarative grammar / [accepts], and the model of Decode computes the
   same function on every byte string. *)
From GV Require Import Lib.Bytes Lib.Res Gen.Consts Model.TTHeader Spec.FrameLayout
     Proofs.TTHeaderLib Proofs.TTHeaderSec Proofs.TTHeaderDec.
From Coq Require Import ZifyN ZifyNat ZifyBool.
Open Scope N_scope.

(* ---------- strings ---------- *)
Lemma take_str_fwd s r : str_ok s -> take_str (enc_str s ++ r) = Some (s, r).
Proof.
  intros [Hl _]. unfold enc_str. destruct (be2_val (len s) Hl) as (a & b & Eb & Hab & Ha & Hb).
  rewrite Eb. cbn [app take_str]. rewrite Hab, len_app.
  destruct (N.leb_spec (len s) (len s + len r)); [|lia].
  rewrite take_app_len, drop_app_len. reflexivity.
Qed.

Lemma take_str_bwd b s r :
  wf b -> take_str b = Some (s, r) -> str_ok s /\ b = enc_str s ++ r /\ wf r.
Proof.
  intros Hw. destruct b as [|h [|l r0]]; cbn [take_str]; try discriminate.
  destruct (N.leb_spec (h * 256 + l) (len r0)) as [Hn|Hn]; [|discriminate].
  intros H. inversion H; subst s r; clear H.
  inversion Hw as [|? ? Hh Hw1]; subst. inversion Hw1 as [|? ? Hl Hwr]; subst. unfold wfb in *.
  assert (Hlen : len (take (h * 256 + l) r0) = h * 256 + l) by (rewrite take_len'; lia).
  repeat split.
  - rewrite Hlen. lia.
  - apply wf_take, Hwr.
  - unfold enc_str. rewrite Hlen, be2_of_bytes by assumption. cbn [app]. rewrite take_drop. reflexivity.
  - apply wf_drop, Hwr.
Qed.

(* ---------- counted entries ---------- *)
Lemma take_kvs_eq fuel cnt b :
  take_kvs fuel cnt b =
  if cnt =? 0 then Some ([], b)
  else match fuel with
       | O => None
       | S f =>
         match take_str b with
         | None => None
         | Some (k, b1) =>
           match take_str b1 with
           | None => None
           | Some (v, b2) =>
             match take_kvs f (cnt - 1) b2 with
             | None => None
             | Some (l, b3) => Some ((k, v) :: l, b3)
             end
           end
         end
       end.
Proof. destruct fuel; reflexivity. Qed.

Lemma take_ikvs_eq fuel cnt b :
  take_ikvs fuel cnt b =
  if cnt =? 0 then Some ([], b)
  else match fuel with
       | O => None
       | S f =>
         match b with
         | h :: l :: b1 =>
           match take_str b1 with
           | None => None
           | Some (v, b2) =>
             match take_ikvs f (cnt - 1) b2 with
             | None => None
             | Some (r, b3) => Some ((h * 256 + l, v) :: r, b3)
             end
           end
         | _ => None
         end
       end.
Proof. destruct fuel; reflexivity. Qed.

Lemma take_kvs_fwd l : forall fuel r,
    Forall skv_ok l -> (length l <= fuel)%nat ->
    take_kvs fuel (len l) (concat (map enc_kv l) ++ r) = Some (l, r).
Proof.
  induction l as [|[k v] l IH]; intros fuel r Hok Hf; rewrite take_kvs_eq.
  - reflexivity.
  - rewrite len_cons. destruct (N.eqb_spec (1 + len l) 0) as [Hz|_]; [lia|].
    destruct fuel as [|f]; [cbn [length] in Hf; lia|].
    inversion Hok as [|? ? [Hk Hv] Hl]; subst. cbn [fst snd] in *.
    cbn [map concat]. unfold enc_kv at 1. cbn [fst snd]. rewrite <- !app_assoc.
    rewrite (take_str_fwd k _ Hk), (take_str_fwd v _ Hv).
    replace (1 + len l - 1) with (len l) by lia.
    rewrite IH by (try assumption; cbn [length] in Hf; lia). reflexivity.
Qed.

Lemma take_kvs_bwd fuel : forall cnt b l r,
    wf b -> take_kvs fuel cnt b = Some (l, r) ->
    len l = cnt /\ Forall skv_ok l /\ b = concat (map enc_kv l) ++ r /\ wf r.
Proof.
  induction fuel as [|f IH]; intros cnt b l r Hw; rewrite take_kvs_eq;
    destruct (N.eqb_spec cnt 0) as [Hz|Hz].
  1,3: intros H; inversion H; subst; repeat split; auto.
  - discriminate.
  - destruct (take_str b) as [[k b1]|] eqn:E1; [|discriminate].
    destruct (take_str_bwd _ _ _ Hw E1) as (Hk & Eb & Hw1).
    destruct (take_str b1) as [[v b2]|] eqn:E2; [|discriminate].
    destruct (take_str_bwd _ _ _ Hw1 E2) as (Hv & Eb1 & Hw2).
    destruct (take_kvs f (cnt - 1) b2) as [[l' b3]|] eqn:E3; [|discriminate].
    intros H. inversion H; subst l r; clear H.
    destruct (IH _ _ _ _ Hw2 E3) as (Hl & Hok & Eb2 & Hw3).
    rewrite len_cons. repeat split.
    + lia.
    + constructor; [split; assumption|exact Hok].
    + cbn [map concat]. unfold enc_kv at 1. cbn [fst snd]. rewrite <- !app_assoc.
      rewrite Eb, Eb1, Eb2. reflexivity.
    + exact Hw3.
Qed.

Lemma take_ikvs_fwd l : forall fuel r,
    Forall ikv_ok l -> (length l <= fuel)%nat ->
    take_ikvs fuel (len l) (concat (map enc_ikv l) ++ r) = Some (l, r).
Proof.
  induction l as [|[k v] l IH]; intros fuel r Hok Hf; rewrite take_ikvs_eq.
  - reflexivity.
  - rewrite len_cons. destruct (N.eqb_spec (1 + len l) 0) as [Hz|_]; [lia|].
    destruct fuel as [|f]; [cbn [length] in Hf; lia|].
    inversion Hok as [|? ? [Hk Hv] Hl]; subst. cbn [fst snd] in *.
    cbn [map concat]. unfold enc_ikv at 1. cbn [fst snd]. rewrite <- !app_assoc.
    destruct (be2_val k Hk) as (a & b & Eb & Hab & Ha & Hb). rewrite Eb. cbn [app].
    rewrite (take_str_fwd v _ Hv). replace (1 + len l - 1) with (len l) by lia.
    rewrite IH by (try assumption; cbn [length] in Hf; lia). rewrite Hab. reflexivity.
Qed.

Lemma take_ikvs_bwd fuel : forall cnt b l r,
    wf b -> take_ikvs fuel cnt b = Some (l, r) ->
    len l = cnt /\ Forall ikv_ok l /\ b = concat (map enc_ikv l) ++ r /\ wf r.
Proof.
  induction fuel as [|f IH]; intros cnt b l r Hw; rewrite take_ikvs_eq;
    destruct (N.eqb_spec cnt 0) as [Hz|Hz].
  1,3: intros H; inversion H; subst; repeat split; auto.
  - discriminate.
  - destruct b as [|h [|lo b1]]; try discriminate.
    inversion Hw as [|? ? Hh Hwa]; subst. inversion Hwa as [|? ? Hlo Hw1]; subst. unfold wfb in *.
    destruct (take_str b1) as [[v b2]|] eqn:E2; [|discriminate].
    destruct (take_str_bwd _ _ _ Hw1 E2) as (Hv & Eb1 & Hw2).
    destruct (take_ikvs f (cnt - 1) b2) as [[l' b3]|] eqn:E3; [|discriminate].
    intros H. inversion H; subst l r; clear H.
    destruct (IH _ _ _ _ Hw2 E3) as (Hl & Hok & Eb2 & Hw3).
    rewrite len_cons. repeat split.
    + lia.
    + constructor; [split; cbn [fst snd]; [lia|assumption]|exact Hok].
    + cbn [map concat]. unfold enc_ikv at 1. cbn [fst snd]. rewrite <- !app_assoc.
      rewrite be2_of_bytes by assumption. cbn [app]. rewrite Eb1, Eb2. reflexivity.
    + exact Hw3.
Qed.

Lemma kvs_len_ge l : len l <= len (concat (map enc_kv l)).
Proof.
  induction l as [|kv l IH]; [cbn; lia|].
  cbn [map concat]. rewrite len_app, len_cons. pose proof (enc_kv_pos kv). lia.
Qed.
Lemma ikvs_len_ge l : len l <= len (concat (map enc_ikv l)).
Proof.
  induction l as [|kv l IH]; [cbn; lia|].
  cbn [map concat]. rewrite len_app, len_cons. pose proof (enc_ikv_pos kv). lia.
Qed.

(* ---------- sections ---------- *)
Lemma parse_secs_fuel_eq f b :
  parse_secs_fuel (S f) b =
  match b with
  | [] => Some []
  | id :: r =>
    if id =? 0 then option_map (cons Pad) (parse_secs_fuel f r)
    else if id =? 1 then
      match r with
      | h :: l :: r1 =>
        match take_kvs (length r1) (h * 256 + l) r1 with
        | Some (kvs, r2) => option_map (cons (KV kvs)) (parse_secs_fuel f r2)
        | None => None
        end
      | _ => None
      end
    else if id =? 16 then
      match r with
      | h :: l :: r1 =>
        match take_ikvs (length r1) (h * 256 + l) r1 with
        | Some (kvs, r2) => option_map (cons (IntKV kvs)) (parse_secs_fuel f r2)
        | None => None
        end
      | _ => None
      end
    else if id =? 17 then
      match take_str r with
      | Some (tok, r2) => option_map (cons (ACL tok)) (parse_secs_fuel f r2)
      | None => None
      end
    else None
  end.
Proof. reflexivity. Qed.

Lemma parse_fwd secs : forall fuel,
    secs_ok secs -> (length (enc_secs secs) < fuel)%nat ->
    parse_secs_fuel fuel (enc_secs secs) = Some secs.
Proof.
  induction secs as [|s secs IH]; intros fuel Hok Hf; (destruct fuel as [|f]; [lia|]);
    rewrite parse_secs_fuel_eq.
  - reflexivity.
  - inversion Hok as [|? ? Hs Hrest]; subst. rewrite enc_secs_cons in *.
    rewrite app_length in Hf.
    destruct s as [|l|l|tok]; cbn [enc_sec] in *.
    + cbn [app N.eqb]. rewrite IH; [reflexivity|assumption|cbn [length] in Hf; lia].
    + destruct Hs as [Hl Hall]. rewrite <- app_assoc. cbn [app N.eqb Pos.eqb].
      destruct (be2_val (len l) Hl) as (a & b & Eb & Hab & Ha & Hb). rewrite Eb in *.
      rewrite <- app_assoc. cbn [app]. rewrite Hab.
      rewrite take_kvs_fwd.
      * rewrite IH; [reflexivity|assumption|]. cbn [length app] in Hf. rewrite ?app_length in Hf.
        cbn [length] in Hf. lia.
      * exact Hall.
      * pose proof (kvs_len_ge l) as Hg. rewrite app_length. unfold len in Hg. lia.
    + destruct Hs as [Hl Hall]. rewrite <- app_assoc. cbn [app N.eqb Pos.eqb].
      destruct (be2_val (len l) Hl) as (a & b & Eb & Hab & Ha & Hb). rewrite Eb in *.
      rewrite <- app_assoc. cbn [app]. rewrite Hab.
      rewrite take_ikvs_fwd.
      * rewrite IH; [reflexivity|assumption|]. cbn [length app] in Hf. rewrite ?app_length in Hf.
        cbn [length] in Hf. lia.
      * exact Hall.
      * pose proof (ikvs_len_ge l) as Hg. rewrite app_length. unfold len in Hg. lia.
    + rewrite <- app_assoc. cbn [app N.eqb Pos.eqb]. rewrite (take_str_fwd tok _ Hs).
      rewrite IH; [reflexivity|assumption|]. cbn [length app] in Hf. lia.
Qed.

Lemma parse_bwd fuel : forall b secs,
    wf b -> parse_secs_fuel fuel b = Some secs -> secs_ok secs /\ b = enc_secs secs.
Proof.
  induction fuel as [|f IH]; intros b secs Hw; [discriminate|]. rewrite parse_secs_fuel_eq.
  destruct b as [|id r]; [intros H; inversion H; split; [constructor|reflexivity]|].
  inversion Hw as [|? ? Hid Hwr]; subst.
  destruct (N.eqb_spec id 0) as [->|_].
  { destruct (parse_secs_fuel f r) as [secs'|] eqn:E; [|discriminate]. cbn [option_map].
    intros H. inversion H; subst secs. destruct (IH _ _ Hwr E) as [Hok ->].
    split; [constructor; [exact I|exact Hok]|reflexivity]. }
  destruct (N.eqb_spec id 1) as [->|_].
  { destruct r as [|h [|l r1]]; try discriminate.
    inversion Hwr as [|? ? Hh Hwa]; subst. inversion Hwa as [|? ? Hl Hw1]; subst. unfold wfb in *.
    destruct (take_kvs (length r1) (h * 256 + l) r1) as [[kvs r2]|] eqn:Ek; [|discriminate].
    destruct (take_kvs_bwd _ _ _ _ _ Hw1 Ek) as (Hc & Hall & Eb & Hw2).
    destruct (parse_secs_fuel f r2) as [secs'|] eqn:E; [|discriminate]. cbn [option_map].
    intros H. inversion H; subst secs. destruct (IH _ _ Hw2 E) as [Hok Er2].
    split.
    - constructor; [|exact Hok]. cbn [sec_ok]. split; [lia|exact Hall].
    - rewrite enc_secs_cons. cbn [enc_sec]. rewrite Hc, be2_of_bytes by assumption.
      rewrite <- !app_assoc. cbn [app]. rewrite Eb, Er2. reflexivity. }
  destruct (N.eqb_spec id 16) as [->|_].
  { destruct r as [|h [|l r1]]; try discriminate.
    inversion Hwr as [|? ? Hh Hwa]; subst. inversion Hwa as [|? ? Hl Hw1]; subst. unfold wfb in *.
    destruct (take_ikvs (length r1) (h * 256 + l) r1) as [[kvs r2]|] eqn:Ek; [|discriminate].
    destruct (take_ikvs_bwd _ _ _ _ _ Hw1 Ek) as (Hc & Hall & Eb & Hw2).
    destruct (parse_secs_fuel f r2) as [secs'|] eqn:E; [|discriminate]. cbn [option_map].
    intros H. inversion H; subst secs. destruct (IH _ _ Hw2 E) as [Hok Er2].
    split.
    - constructor; [|exact Hok]. cbn [sec_ok]. split; [lia|exact Hall].
    - rewrite enc_secs_cons. cbn [enc_sec]. rewrite Hc, be2_of_bytes by assumption.
      rewrite <- !app_assoc. cbn [app]. rewrite Eb, Er2. reflexivity. }
  destruct (N.eqb_spec id 17) as [->|_]; [|discriminate].
  destruct (take_str r) as [[tok r2]|] eqn:Et; [|discriminate].
  destruct (take_str_bwd _ _ _ Hwr Et) as (Hs & Eb & Hw2).
  destruct (parse_secs_fuel f r2) as [secs'|] eqn:E; [|discriminate]. cbn [option_map].
  intros H. inversion H; subst secs. destruct (IH _ _ Hw2 E) as [Hok Er2].
  split.
  - constructor; [exact Hs|exact Hok].
  - rewrite enc_secs_cons. cbn [enc_sec]. rewrite <- app_assoc. cbn [app]. rewrite Eb, Er2. reflexivity.
Qed.

(* the reference parser decides the grammar, with a unique reading *)
Lemma parse_secs_iff b secs :
  wf b -> parse_secs b = Some secs <-> secs_ok secs /\ b = enc_secs secs.
Proof.
  intros Hw. unfold parse_secs. split.
  - apply parse_bwd, Hw.
  - intros [Hok ->]. apply parse_fwd; [exact Hok|lia].
Qed.

(* ---------- spec_decode ---------- *)
Definition of_spec (s : dspec) : dparam :=
  {| d_flags := s_flags s; d_seq := s_seq s; d_pid := s_pid s; d_int := s_int s; d_str := s_str s;
     d_hlen := s_hlen s; d_plen := s_plen s |}.

Lemma pids_existsb pid : existsb (N.eqb pid) L_pids = true <-> In pid L_pids.
Proof.
  rewrite existsb_exists. split.
  - intros (x & Hin & Hx). apply N.eqb_eq in Hx. subst. exact Hin.
  - intros H. exists pid. split; [exact H|apply N.eqb_refl].
Qed.

Lemma spec_decode_spec b :
  wf b ->
  match spec_decode b with
  | Some s =>
    accepts b /\
    exists pid nt rest secs,
      info_of b = pid :: nt :: rest /\ secs_ok secs /\ drop nt rest = enc_secs secs /\
      of_spec s = result (field_at b 0 4) (field_at b 6 2) (to_signed 32 (field_at b 8 4))
                         (declared b) pid secs
  | None => ~ accepts b
  end.
Proof.
  intros Hw. unfold spec_decode.
  destruct (N.ltb_spec (len b) L_meta) as [Hs|Hl].
  { intros (H & _). rewrite declared_short in H by exact Hs. unfold L_meta in *. lia. }
  destruct (N.eqb_spec (field_at b 4 2) L_magic16) as [Hm|Hm]; cbn [negb];
    [|intros (_ & H & _); contradiction].
  destruct (N.ltb_spec (declared b) 2) as [Hd2|Hd2]; cbn [orb];
    [intros (_ & _ & H & _); lia|].
  destruct (N.ltb_spec L_max (declared b)) as [Hd|Hd]; [intros (_ & _ & H & _); lia|].
  destruct (N.ltb_spec (len b) (L_meta + declared b)) as [Hsh|Hsh]; [intros (H & _); lia|].
  change (take (declared b) (drop L_meta b)) with (info_of b).
  pose proof (wf_info_of b Hw) as Hwi.
  destruct (info_of b) as [|pid [|nt rest]] eqn:Ei.
  1,2: intros (_ & _ & _ & p & n & r & s & H & _); rewrite Ei in H; discriminate.
  destruct (existsb (N.eqb pid) L_pids) eqn:Ep; cbn [negb].
  2:{ intros (_ & _ & _ & p & n & r & s & H & Hin & _). rewrite Ei in H. inversion H; subst p n r.
      apply pids_existsb in Hin. congruence. }
  apply pids_existsb in Ep.
  destruct (N.ltb_spec (declared b - 2) nt) as [Hnt|Hnt].
  { intros (_ & _ & _ & p & n & r & s & H & _ & Hn & _). rewrite Ei in H. inversion H; subst p n r. lia. }
  assert (Hwr : wf (drop nt rest)).
  { apply wf_drop. inversion Hwi as [|? ? _ Hw1]; subst. inversion Hw1; assumption. }
  destruct (parse_secs (drop nt rest)) as [secs|] eqn:Eps.
  - apply (parse_secs_iff _ _ Hwr) in Eps. destruct Eps as [Hok Ed].
    split.
    + repeat split; try assumption. exists pid, nt, rest, secs. repeat split; assumption.
    + exists pid, nt, rest, secs. repeat split; assumption.
  - intros (_ & _ & _ & p & n & r & s & H & _ & _ & Hok & Ed). rewrite Ei in H. inversion H; subst p n r.
    assert (E : parse_secs (drop nt rest) = Some s) by (apply (parse_secs_iff _ _ Hwr); split; assumption).
    congruence.
Qed.

(* the executable reference decides [accepts] *)
Lemma spec_decode_accepts b : wf b -> (exists s, spec_decode b = Some s) <-> accepts b.
Proof.
  intros Hw. pose proof (spec_decode_spec b Hw) as H.
  destruct (spec_decode b) as [s|]; split.
  - intros _. apply H.
  - intros _. eauto.
  - intros [s Hs]. discriminate.
  - intros Ha. contradiction.
Qed.

(* the model of Decode and the reference decoder are the same function on byte strings *)
Theorem decode_refines_spec b :
  wf b ->
  match spec_decode b with
  | Some s => decode b = (L_meta + declared b, Ok (of_spec s))
  | None => exists e, snd (decode b) = Err e
  end.
Proof.
  intros Hw. pose proof (spec_decode_spec b Hw) as H.
  destruct (spec_decode b) as [s|].
  - destruct H as (Ha & pid & nt & rest & secs & Hi & Hok & Ed & Hs).
    destruct (proj2 (decode_ok_iff b Hw) Ha) as [r Hr].
    destruct (decode_ok_values b r Hw Hr) as [Hc Hv].
    rewrite (Hv _ _ _ _ Hi Hok Ed) in Hr. rewrite Hs.
    destruct (decode b) as [c res]. cbn [fst snd] in *. subst. reflexivity.
  - destruct (decode_total b) as [[Hsafe _] _].
    destruct (snd (decode b)) as [r| e | |] eqn:E; cbn in Hsafe; try contradiction.
    + exfalso. apply H. apply (decode_ok_iff b Hw). eauto.
    + eauto.
Qed.
