(* Proofs/OwnWriterP.v — ownership invariant of the heap-level writer (Model/OwnWriter.v):
   the regions handed out by Malloc tile the unflushed output, live in buffers the writer holds
   (current or parked), keep what the caller last stored, and Flush hands exactly that to the
   sink; payloads and the BytesWriter target are never written below their length nor freed. *)
From Coq Require Import ZifyN ZifyNat ZifyBool Permutation.
From GV Require Import Lib.Bytes Lib.Res Lib.Heap Model.Own Model.OwnWriter Spec.Ownership Spec.OwnRegions
  Proofs.OwnLib Proofs.OwnTrace Proofs.OwnReaderP.
Open Scope N_scope.

Ltac splits := repeat match goal with |- _ /\ _ => split end.

Definition notin (L : list nat) (b : nat) : bool := negb (memb b L).
Lemma notin_true L b : notin L b = true <-> ~ In b L.
Proof. unfold notin. rewrite negb_true_iff. apply memb_false. Qed.
Lemma filter_notin_nil l : filter (notin []) l = l.
Proof. induction l as [|x l IH]; cbn; [reflexivity|now rewrite IH]. Qed.
Lemma Permutation_filter' {A} (f : A -> bool) l l' : Permutation l l' -> Permutation (filter f l) (filter f l').
Proof.
  induction 1 as [|x l l' P IH|x y l|l1 l2 l3 P1 IH1 P2 IH2]; cbn [filter].
  - constructor.
  - destruct (f x); [now constructor|assumption].
  - destruct (f x), (f y); try apply Permutation_refl. apply perm_swap.
  - eapply perm_trans; eassumption.
Qed.

(* the buffers the writer holds *)
Section WithX.
Variable X : list (nat * bytes).

Definition wowned (st : hwriter) : list nat := filter (notin (wlent st)) (wblocks st).

Lemma In_wblocks_foot st b : In b (wblocks st) -> In b (wowned st ++ wlent st ++ wgiven st).
Proof.
  intros H. rewrite !in_app_iff. destruct (notin (wlent st) b) eqn:E.
  - left. unfold wowned. apply filter_In. tauto.
  - right. left. unfold notin in E. apply negb_false_iff in E. now apply memb_In.
Qed.

(* a buffer of the writer: inside its block; a whole allocator block unless it is the caller's target *)
Definition buf_ok (h : heap) (L : list nat) (x : bslice) : Prop :=
  0 < scp x /\ sln x <= scp x /\ soff x + scp x <= len (block h (sblk x)) /\
  (~ In (sblk x) L -> soff x = 0 /\ scp x = len (block h (sblk x))).

(* boundaries: each parked buffer was parked at a length >= the previous one *)
Fixpoint chain (lo : N) (pd : list bslice) (c : bslice) : Prop :=
  match pd with
  | [] => lo <= sln c
  | p :: r => lo <= sln p /\ chain (sln p) r c
  end.
(* region r lies in the buffer that was current when it was handed out, at its logical offset *)
Definition in_buf (lo : N) (x : bslice) (r : region) : Prop :=
  gblk r = sblk x /\ gphys r = soff x + glog r /\ lo <= glog r /\ glog r + gln r <= sln x.
Fixpoint reg_in (lo : N) (pd : list bslice) (c : bslice) (r : region) : Prop :=
  match pd with
  | [] => in_buf lo c r
  | p :: rest => in_buf lo p r \/ reg_in (sln p) rest c r
  end.
(* two windows of the logical output do not overlap *)
Definition ldisj (r r' : region) : Prop := glog r + gln r <= glog r' \/ glog r' + gln r' <= glog r.

Definition reg_ok (h : heap) (st : hwriter) (r : region) : Prop :=
  len (gval r) = gln r /\
  (gln r = 0 \/
   exists c, wbuf st = Some c /\ 0 < scp c /\ reg_in 0 (wpend st) c r /\ rd h (gblk r) (gphys r) (gln r) = gval r).

Record winv (st : hwriter) (e : env) : Prop := mkwinv {
  wv_e : einv X (wowned st) (wlent st) (wgiven st) e;
  wv_nocache : wnocache st = false -> wlent st = [];
  wv_nodup : NoDup (wblocks st);
  wv_cur : match wbuf st with
           | Some c => if 0 <? scp c then buf_ok (wh (ew e)) (wlent st) c else sln c = 0 /\ wpend st = []
           | None => wpend st = []
           end;
  wv_pend : Forall (buf_ok (wh (ew e)) (wlent st)) (wpend st);
  wv_chain : match wbuf st with Some c => chain 0 (wpend st) c | None => True end;
  wv_bound : Forall (fun r => glog r + gln r <= wlen st) (wregs st);
  wv_disj : ForallOrdPairs ldisj (wregs st);
  wv_regs : Forall (reg_ok (wh (ew e)) st) (wregs st)
}.

(* the heap-dependent part *)
Record wshape (st : hwriter) (h : heap) : Prop := mkwshape {
  ws_cur : match wbuf st with
           | Some c => if 0 <? scp c then buf_ok h (wlent st) c else sln c = 0 /\ wpend st = []
           | None => wpend st = []
           end;
  ws_pend : Forall (buf_ok h (wlent st)) (wpend st);
  ws_regs : Forall (reg_ok h st) (wregs st)
}.
Lemma winv_shape st e : winv st e -> wshape st (wh (ew e)).
Proof. intros [A B C D E F G G' H]. split; assumption. Qed.

Lemma chain_le : forall pd lo c, chain lo pd c -> lo <= sln c.
Proof.
  induction pd as [|p r IH]; intros lo c H; cbn [chain] in H; [assumption|].
  destruct H as [H1 H2]. specialize (IH _ _ H2). lia.
Qed.

(* a region with bytes lies in one of the writer's blocks *)
Lemma reg_in_block : forall pd lo c r, reg_in lo pd c r -> In (gblk r) (map sblk pd ++ [sblk c]).
Proof.
  induction pd as [|p rest IH]; intros lo c r H; cbn [reg_in map app] in *.
  - destruct H as (H & _). left. now symmetry.
  - destruct H as [(H & _)|H]; [left; now symmetry|right; eapply IH; eassumption].
Qed.

Lemma wblocks_cur st c : wbuf st = Some c -> 0 < scp c -> wblocks st = sblk c :: map sblk (wpend st).
Proof. intros Hb Hc. unfold wblocks, curblk. rewrite Hb. assert (0 <? scp c = true) as -> by lia. reflexivity. Qed.

Lemma reg_block_in st r c : wbuf st = Some c -> 0 < scp c -> reg_in 0 (wpend st) c r -> In (gblk r) (wblocks st).
Proof.
  intros Hb Hc H. rewrite (wblocks_cur _ _ Hb Hc). apply reg_in_block in H.
  apply in_app_or in H as [H|[H|[]]]; [now right|now left].
Qed.

(* anything that leaves the writer's blocks alone preserves the shape *)
Lemma wshape_frame st h h' :
  wshape st h -> same_on (wblocks st) h h' -> wshape st h'.
Proof.
  intros [Ic Ip Ir] Hs.
  assert (Hbuf : forall x, In (sblk x) (wblocks st) -> buf_ok h (wlent st) x -> buf_ok h' (wlent st) x).
  { intros x Hx (A & B & C & D). unfold buf_ok. rewrite (Hs _ Hx). splits; assumption. }
  split.
  - destruct (wbuf st) as [c|] eqn:Hb; [|assumption]. destruct (0 <? scp c) eqn:Hc; [|assumption].
    apply Hbuf; [|assumption]. rewrite (wblocks_cur _ _ Hb) by lia. now left.
  - rewrite Forall_forall in *. intros p Hp. apply Hbuf; [|now apply Ip].
    unfold wblocks. rewrite in_app_iff. right. now apply in_map.
  - rewrite Forall_forall in *. intros r Hr. destruct (Ir r Hr) as [A B]. split; [assumption|].
    destruct B as [B|(c & Hb & Hc & Hin & Hrd)]; [now left|right].
    exists c. splits; try assumption. rewrite <- Hrd. apply rd_same. apply Hs.
    eapply reg_block_in; eassumption.
Qed.

Lemma winv_of st e :
  einv X (wowned st) (wlent st) (wgiven st) e -> (wnocache st = false -> wlent st = []) -> NoDup (wblocks st) ->
  match wbuf st with Some c => chain 0 (wpend st) c | None => True end ->
  Forall (fun r => glog r + gln r <= wlen st) (wregs st) -> ForallOrdPairs ldisj (wregs st) ->
  wshape st (wh (ew e)) -> winv st e.
Proof. intros A B C D E E' [F G H]. split; assumption. Qed.

Lemma winv_frame st e e' :
  winv st e -> einv X (wowned st) (wlent st) (wgiven st) e' ->
  same_on (wowned st ++ wlent st ++ wgiven st) (wh (ew e)) (wh (ew e')) -> winv st e'.
Proof.
  intros Hi He Hs. destruct Hi as [A B C D E F G G' H].
  apply winv_of; try assumption.
  eapply wshape_frame; [split; eassumption|].
  intros b Hb. apply Hs. now apply In_wblocks_foot.
Qed.

Lemma winv_callback st e : winv st e -> winv st (e_callback e).
Proof.
  intros Hi. destruct (einv_callback _ _ _ _ (wv_e _ _ Hi)) as (A & [B _] & _).
  eapply winv_frame; eassumption.
Qed.

Lemma bufsz_pos : 0 < bufsz.
Proof. reflexivity. Qed.
Lemma double_until_ge f : forall m n, m <= double_until f m n.
Proof.
  induction f as [|f IH]; intros m n; cbn [double_until]; destruct (m <? n); try lia.
  specialize (IH (2 * m) n). lia.
Qed.

Lemma w_newbuf_spec O L R e nc c e' b cp :
  einv X O L R e -> w_newbuf e nc c = (e', b, cp) ->
  einv X (b :: O) L R e' /\ ~ In b (O ++ L ++ R) /\ len (block (wh (ew e')) b) = cp /\ c <= cp /\
  same_on (O ++ L ++ R) (wh (ew e)) (wh (ew e')).
Proof.
  intros Hi E. unfold w_newbuf in E. destruct nc.
  - destruct (e_gcalloc e c) as [e1 b1] eqn:Ea. inversion E; subst; clear E.
    destruct (einv_gcalloc _ _ _ _ _ _ _ Hi Ea) as (A1 & A2 & A3 & [A4 _]). splits; try assumption. lia.
  - destruct (e_malloc e c) as [e1 b1] eqn:Ea. inversion E; subst; clear E.
    destruct (einv_malloc _ _ _ _ _ _ _ Hi Ea) as (A1 & A2 & A3 & [A4 _]). splits; try assumption. apply pow2ceil_ge.
Qed.

Lemma chain_snoc : forall pd lo s c, chain lo pd s -> sln s <= sln c -> chain lo (pd ++ [s]) c.
Proof.
  induction pd as [|p r IH]; intros lo s c H Hle; cbn [chain app] in *.
  - split; assumption.
  - destruct H as [H1 H2]. split; [assumption|]. now apply IH.
Qed.
Lemma chain_extend : forall pd lo c c', chain lo pd c -> sln c <= sln c' -> chain lo pd c'.
Proof.
  induction pd as [|p r IH]; intros lo c c' H Hle; cbn [chain] in *; [lia|].
  destruct H as [H1 H2]. split; [assumption|]. eapply IH; eassumption.
Qed.
Lemma in_buf_extend lo c c' r :
  sblk c' = sblk c -> soff c' = soff c -> sln c <= sln c' -> in_buf lo c r -> in_buf lo c' r.
Proof. intros Hb Ho Hl (A & B & C & D). unfold in_buf. rewrite Hb, Ho. splits; try assumption. lia. Qed.
Lemma reg_in_extend : forall pd lo c c' r,
  sblk c' = sblk c -> soff c' = soff c -> sln c <= sln c' -> reg_in lo pd c r -> reg_in lo pd c' r.
Proof.
  induction pd as [|p rest IH]; intros lo c c' r Hb Ho Hl H; cbn [reg_in] in *.
  - eapply in_buf_extend; eassumption.
  - destruct H as [H|H]; [now left|right]. eapply IH; eassumption.
Qed.
Lemma reg_in_snoc : forall pd lo s c r, reg_in lo pd s r -> reg_in lo (pd ++ [s]) c r.
Proof.
  induction pd as [|p rest IH]; intros lo s c r H; cbn [reg_in app] in *.
  - now left.
  - destruct H as [H|H]; [now left|right]. now apply IH.
Qed.
(* a window appended at the end of the current buffer lies in the last buffer of the chain *)
Lemma reg_in_last : forall pd lo c c' r,
  chain lo pd c -> (forall lo', lo' <= sln c -> in_buf lo' c' r) -> reg_in lo pd c' r.
Proof.
  induction pd as [|p rest IH]; intros lo c c' r H Hin; cbn [reg_in chain] in *.
  - now apply Hin.
  - destruct H as [H1 H2]. right. eapply IH; eassumption.
Qed.

Lemma wowned_cons st b Y :
  ~ In b (wlent st) -> Permutation (b :: wblocks st) Y -> Permutation (b :: wowned st) (filter (notin (wlent st)) Y).
Proof.
  intros Hb P. unfold wowned. apply (Permutation_filter' (notin (wlent st))) in P.
  cbn [filter] in P. assert (notin (wlent st) b = true) as Hn by now apply notin_true. now rewrite Hn in P.
Qed.

Lemma reg_zero_if_nocap st h : wshape st h -> wcap st = 0 -> Forall (fun r => len (gval r) = gln r /\ gln r = 0) (wregs st).
Proof.
  intros [_ _ Ir] Hc. rewrite Forall_forall in *. intros r Hr. destruct (Ir r Hr) as [A [B|(c & Hb & Hpos & _)]].
  - split; assumption.
  - unfold wcap in Hc. rewrite Hb in Hc. lia.
Qed.

(* phase 1 of acquireSlow: the first buffer *)
Lemma winv_first_buf st e m e' b cp :
  winv st e -> wcap st = 0 -> bufsz <= m -> w_newbuf e (wnocache st) m = (e', b, cp) ->
  winv (wset_buf st (Some (mkS b 0 0 cp)) (wpend st)) e' /\
  same_on (wowned st ++ wlent st ++ wgiven st) (wh (ew e)) (wh (ew e')).
Proof.
  intros Hi Hc Hm En.
  destruct (w_newbuf_spec _ _ _ _ _ _ _ _ _ (wv_e _ _ Hi) En) as (A1 & A2 & A3 & A4 & A5).
  split; [|exact A5].
  pose proof bufsz_pos as Hbp.
  assert (Hpd : wpend st = [] /\ wlen st = 0 /\ wblocks st = []).
  { pose proof (wv_cur _ _ Hi) as Hcur. unfold wcap, wlen, wblocks, curblk in *. destruct (wbuf st) as [c|].
    - subst. assert (0 <? scp c = false) as Hz by lia. rewrite Hz in *. destruct Hcur as [H1 H2]. rewrite H2. splits; auto.
    - rewrite Hcur. splits; auto. }
  destruct Hpd as (Hpd & Hwl & Hbl).
  assert (Hown : wowned st = []) by (unfold wowned; now rewrite Hbl).
  assert (HbL : ~ In b (wlent st)) by (intros H; apply A2; rewrite !in_app_iff; tauto).
  assert (Hcp : 0 <? cp = true) by lia.
  assert (Hbl' : wblocks (wset_buf st (Some (mkS b 0 0 cp)) (wpend st)) = [b]).
  { unfold wblocks, curblk, wset_buf. cbn [wbuf wpend scp sblk]. rewrite Hcp, Hpd. reflexivity. }
  assert (Hown' : wowned (wset_buf st (Some (mkS b 0 0 cp)) (wpend st)) = [b]).
  { unfold wowned. rewrite Hbl'. cbn [wset_buf wlent filter]. now apply notin_true in HbL as ->. }
  pose proof (reg_zero_if_nocap _ _ (winv_shape _ _ Hi) Hc) as Hz.
  apply winv_of; cbn [wset_buf wlent wgiven wnocache wbuf wpend wregs].
  - rewrite Hown'. cbn [wset_buf wlent wgiven]. rewrite Hown in A1. exact A1.
  - exact (wv_nocache _ _ Hi).
  - rewrite Hbl'. constructor; [intros []|constructor].
  - rewrite Hpd. cbn [chain sln]. lia.
  - unfold wlen. cbn [wbuf sln]. rewrite Forall_forall in *. intros r Hr. destruct (Hz r Hr) as [_ Hz0].
    pose proof (wv_bound _ _ Hi) as Hb. rewrite Forall_forall in Hb. specialize (Hb r Hr). lia.
  - exact (wv_disj _ _ Hi).
  - split; cbn [wset_buf wlent wbuf wpend wregs scp sln soff sblk].
    + rewrite Hcp. unfold buf_ok. cbn [scp sln soff sblk]. rewrite A3. splits; try lia.
    + rewrite Hpd. constructor.
    + rewrite Forall_forall in *. intros r Hr. destruct (Hz r Hr) as [H1 H2]. split; [assumption|now left].
Qed.

(* phase 2 of acquireSlow: growth parks the old buffer; nothing is copied *)
Lemma winv_grow st e s ncap e' nb cp :
  winv st e -> wbuf st = Some s -> 0 < scp s -> scp s * 2 <= ncap ->
  w_newbuf e (wnocache st) ncap = (e', nb, cp) ->
  winv (wset_buf st (Some (mkS nb 0 (sln s) cp)) (wpend st ++ [s])) e' /\
  same_on (wowned st ++ wlent st ++ wgiven st) (wh (ew e)) (wh (ew e')).
Proof.
  intros Hi Hb Hpos Hge En.
  destruct (w_newbuf_spec _ _ _ _ _ _ _ _ _ (wv_e _ _ Hi) En) as (A1 & A2 & A3 & A4 & A5).
  split; [|exact A5].
  set (st' := wset_buf st (Some (mkS nb 0 (sln s) cp)) (wpend st ++ [s])).
  assert (HbL : ~ In nb (wlent st)) by (intros H; apply A2; rewrite !in_app_iff; tauto).
  assert (Hcp : 0 <? cp = true) by lia.
  assert (Hbl : wblocks st = sblk s :: map sblk (wpend st)) by (apply wblocks_cur; assumption).
  assert (Hbl' : wblocks st' = nb :: map sblk (wpend st ++ [s])).
  { unfold wblocks, curblk, st', wset_buf. cbn [wbuf wpend scp sblk]. now rewrite Hcp. }
  assert (Hperm : Permutation (nb :: wblocks st) (wblocks st')).
  { rewrite Hbl, Hbl', map_app. cbn [map]. apply perm_skip. apply Permutation_cons_append. }
  assert (Hnbb : ~ In nb (wblocks st)) by (intros H; apply A2; now apply In_wblocks_foot).
  pose proof (winv_shape _ _ Hi) as Hsh.
  assert (Hsh' : wshape st (wh (ew e'))).
  { eapply wshape_frame; [exact Hsh|]. intros b Hx. apply A5. now apply In_wblocks_foot. }
  destruct Hsh' as [Ic Ip Ir]. rewrite Hb in Ic. assert (0 <? scp s = true) as Hs1 by lia. rewrite Hs1 in Ic.
  pose proof (wv_chain _ _ Hi) as Hch. rewrite Hb in Hch.
  subst st'. apply winv_of; cbn [wset_buf wlent wgiven wnocache wbuf wpend wregs].
  - eapply einv_perm; [|exact A1]. unfold wowned at 2. cbn [wset_buf wlent].
    apply wowned_cons; assumption.
  - exact (wv_nocache _ _ Hi).
  - eapply Permutation_NoDup; [exact Hperm|]. constructor; [assumption|exact (wv_nodup _ _ Hi)].
  - apply chain_snoc; [assumption|cbn [sln]; lia].
  - unfold wlen. cbn [wbuf sln]. pose proof (wv_bound _ _ Hi) as Hbd. unfold wlen in Hbd. now rewrite Hb in Hbd.
  - exact (wv_disj _ _ Hi).
  - split; cbn [wset_buf wlent wbuf wpend wregs scp sln soff sblk].
    + rewrite Hcp. destruct Ic as (C1 & C2 & C3 & C4). unfold buf_ok. cbn [scp sln soff sblk]. rewrite A3. splits; lia.
    + apply Forall_app. split; [assumption|]. constructor; [assumption|constructor].
    + rewrite Forall_forall in *. intros r Hr. destruct (Ir r Hr) as [H1 H2]. split; [assumption|].
      destruct H2 as [H2|(c & Hc1 & Hc2 & Hc3 & Hc4)]; [now left|right].
      rewrite Hb in Hc1. inversion Hc1; subst c.
      eexists. splits; [reflexivity|cbn [scp]; lia| |assumption]. now apply reg_in_snoc.
Qed.

Lemma wcap_pos st e s : winv st e -> wbuf st = Some s -> wcap st <> 0 -> 0 < scp s.
Proof. intros _ Hb Hc. unfold wcap in Hc. rewrite Hb in Hc. lia. Qed.

Definition wpost (st : hwriter) (e : env) (st' : hwriter) (e' : env) : Prop :=
  winv st' e' /\ wlent st' = wlent st /\ wgiven st' = wgiven st /\
  same_on (wlent st ++ wgiven st) (wh (ew e)) (wh (ew e')).

Lemma wacquire_slow_inv st e n st' e' : winv st e -> wacquire_slow st e n = (st', e') -> wpost st e st' e'.
Proof.
  intros Hi E. unfold wacquire_slow in E.
  assert (Hphase2 : forall st1 e1, winv st1 e1 -> (forall s, wbuf st1 = Some s -> 0 < scp s) ->
            match wbuf st1 with
            | None => (st1, e1)
            | Some s =>
              if scp s - sln s <? n then
                let ncap := grow_until (loop_fuel n) (scp s * 2) (sln s) n in
                let '(e', b, c) := w_newbuf e1 (wnocache st1) ncap in
                (wset_buf st1 (Some (mkS b 0 (sln s) c)) (wpend st1 ++ [s]), e')
              else (st1, e1)
            end = (st', e') -> wpost st1 e1 st' e').
  { intros st1 e1 Hi1 Hpos1 E1. unfold wpost.
    destruct (wbuf st1) as [s|] eqn:Hb; [|inversion E1; subst; splits; try reflexivity; try assumption; apply same_on_refl].
    destruct (scp s - sln s <? n) eqn:Eg; [|inversion E1; subst; splits; try reflexivity; try assumption; apply same_on_refl].
    cbv zeta in E1. destruct (w_newbuf e1 _ _) as [[e2 b] c] eqn:En. inversion E1; subst; clear E1.
    pose proof (Hpos1 s eq_refl) as Hpos.
    destruct (winv_grow _ _ _ _ _ _ _ Hi1 Hb Hpos (grow_until_ge _ _ _ _) En) as [G1 G2].
    splits; try reflexivity; try assumption.
    eapply same_on_incl; [|exact G2]. intros x Hx. rewrite in_app_iff. now right. }
  destruct (wcap st =? 0) eqn:Ec.
  - apply N.eqb_eq in Ec.
    set (m0 := if stat_max (wstats st) <? bufsz then bufsz else stat_max (wstats st)) in *.
    destruct (w_newbuf e (wnocache st) (double_until (loop_fuel n) m0 n)) as [[e1 b] c] eqn:En.
    assert (Hm : bufsz <= double_until (loop_fuel n) m0 n).
    { pose proof (double_until_ge (loop_fuel n) m0 n). unfold m0 in *. destruct (stat_max (wstats st) <? bufsz) eqn:El; lia. }
    destruct (winv_first_buf _ _ _ _ _ _ Hi Ec Hm En) as [Hi1 Hs1].
    destruct (w_newbuf_spec _ _ _ _ _ _ _ _ _ (wv_e _ _ Hi) En) as (_ & _ & _ & A4 & _).
    pose proof bufsz_pos.
    assert (Hp : wpost (wset_buf st (Some (mkS b 0 0 c)) (wpend st)) e1 st' e').
    { eapply Hphase2; [exact Hi1| |exact E]. cbn [wset_buf wbuf]. intros s Hs. inversion Hs; subst. cbn [scp]. lia. }
    destruct Hp as (P1 & P2 & P3 & P4). cbn [wset_buf wlent wgiven] in P2, P3, P4.
    unfold wpost. splits; try assumption.
    eapply same_on_trans; [|exact P4]. eapply same_on_incl; [|exact Hs1]. intros x Hx. rewrite in_app_iff. now right.
  - eapply Hphase2; [exact Hi| |exact E]. intros s Hs. apply N.eqb_neq in Ec. unfold wcap in Ec. rewrite Hs in Ec. lia.
Qed.

Lemma wacquire_inv st e n st' e' : winv st e -> wacquire st e n = (st', e') -> wpost st e st' e'.
Proof.
  intros Hi E. unfold wacquire in E. destruct (wlen st + n <=? wcap st).
  - inversion E; subst. unfold wpost. splits; try reflexivity; try assumption. apply same_on_refl.
  - eapply wacquire_slow_inv; eassumption.
Qed.

Lemma In_wblocks_OL st b : In b (wblocks st) -> In b (wowned st ++ wlent st).
Proof.
  intros H. rewrite in_app_iff. destruct (notin (wlent st) b) eqn:E.
  - left. unfold wowned. apply filter_In. tauto.
  - right. unfold notin in E. apply negb_false_iff in E. now apply memb_In.
Qed.

(* a region living in the current buffer's block lies below its length *)
Lemma reg_in_cur : forall pd lo c r,
  reg_in lo pd c r -> gblk r = sblk c -> ~ In (sblk c) (map sblk pd) ->
  gphys r = soff c + glog r /\ glog r + gln r <= sln c.
Proof.
  induction pd as [|p rest IH]; intros lo c r H Hb Hn; cbn [reg_in map In] in *.
  - destruct H as (_ & A & _ & B). split; assumption.
  - destruct H as [(A & _)|H]; [exfalso; apply Hn; left; congruence|].
    eapply IH; [exact H|assumption|tauto].
Qed.
(* a region living in another block than the current buffer's *)
Lemma reg_in_other : forall pd lo c r, reg_in lo pd c r -> gblk r <> sblk c -> In (gblk r) (map sblk pd).
Proof.
  induction pd as [|p rest IH]; intros lo c r H Hb; cbn [reg_in map In] in *.
  - destruct H as (A & _). congruence.
  - destruct H as [(A & _)|H]; [left; congruence|right; eapply IH; eassumption].
Qed.

(* storing beyond the current length disturbs nothing *)
Lemma winv_write_end st e s v :
  winv st e -> wbuf st = Some s -> 0 < scp s -> sln s + len v <= scp s ->
  winv st (e_write e (sblk s) (soff s + sln s) v) /\
  rd (wh (ew (e_write e (sblk s) (soff s + sln s) v))) (sblk s) (soff s + sln s) (len v) = v.
Proof.
  intros Hi Hb Hpos Hfit.
  assert (Hs1 : 0 <? scp s = true) by lia.
  pose proof (winv_shape _ _ Hi) as [Ic Ip Ir]. rewrite Hb, Hs1 in Ic. destruct Ic as (C1 & C2 & C3 & C4).
  assert (Hbl : wblocks st = sblk s :: map sblk (wpend st)) by (apply wblocks_cur; assumption).
  assert (Hin : In (sblk s) (wowned st ++ wlent st)) by (apply In_wblocks_OL; rewrite Hbl; now left).
  assert (Hwb : soff s + sln s + len v <= len (block (wh (ew e)) (sblk s))) by lia.
  destruct (einv_write _ _ _ _ _ _ _ (wv_e _ _ Hi) Hin Hwb) as (W1 & W2 & W3 & [W4 W5]).
  set (e1 := e_write e (sblk s) (soff s + sln s) v) in *.
  pose proof (wv_nodup _ _ Hi) as Hnd. rewrite Hbl in Hnd. inversion Hnd as [|? ? Hnc Hnp]; subst.
  assert (Hlen : len (block (wh (ew e1)) (sblk s)) = len (block (wh (ew e)) (sblk s))).
  { rewrite W2. apply len_splice. lia. }
  split.
  - apply winv_of; try apply Hi; try assumption.
    split.
    + rewrite Hb, Hs1. unfold buf_ok. rewrite Hlen. splits; assumption.
    + rewrite Forall_forall in *. intros p Hp. destruct (Ip p Hp) as (P1 & P2 & P3 & P4).
      assert (Hne : sblk p <> sblk s) by (intros Heq; apply Hnc; rewrite <- Heq; now apply in_map).
      unfold buf_ok. rewrite (W3 _ Hne). splits; assumption.
    + rewrite Forall_forall in *. intros r Hr. destruct (Ir r Hr) as [R1 R2]. split; [assumption|].
      destruct R2 as [R2|(c & Hc1 & Hc2 & Hc3 & Hc4)]; [now left|right].
      rewrite Hb in Hc1. inversion Hc1; subst c. exists s. splits; try assumption.
      rewrite <- Hc4. destruct (Nat.eq_dec (gblk r) (sblk s)) as [Heq|Hne].
      * destruct (reg_in_cur _ _ _ _ Hc3 Heq Hnc) as [Q1 Q2]. rewrite Heq.
        eapply rd_splice_before; [exact W2|lia|lia].
      * apply rd_same. now apply W3.
  - eapply rd_splice_at; [exact W2|lia].
Qed.

(* a new window [len, len+n) of the current buffer *)
Lemma winv_add_region st e s n v op :
  winv st e -> wbuf st = Some s -> sln s + n <= scp s -> len v = n ->
  (0 < n -> rd (wh (ew e)) (sblk s) (soff s + sln s) n = v) ->
  winv (wset_regs (wset_buf st (Some (mkS (sblk s) (soff s) (sln s + n) (scp s))) (wpend st))
                  (mkReg (sblk s) (soff s + sln s) n (sln s) v op :: wregs st)) e.
Proof.
  intros Hi Hb Hfit Hlv Hrd.
  set (s' := mkS (sblk s) (soff s) (sln s + n) (scp s)).
  set (r := mkReg (sblk s) (soff s + sln s) n (sln s) v op).
  assert (Hbl : wblocks (wset_regs (wset_buf st (Some s') (wpend st)) (r :: wregs st)) = wblocks st).
  { unfold wblocks, curblk, wset_regs, wset_buf. cbn [wbuf wpend scp sblk s']. now rewrite Hb. }
  assert (Hown : wowned (wset_regs (wset_buf st (Some s') (wpend st)) (r :: wregs st)) = wowned st).
  { unfold wowned. rewrite Hbl. reflexivity. }
  pose proof (winv_shape _ _ Hi) as [Ic Ip Ir]. rewrite Hb in Ic.
  pose proof (wv_chain _ _ Hi) as Hch. rewrite Hb in Hch.
  pose proof (wv_bound _ _ Hi) as Hbd. unfold wlen in Hbd. rewrite Hb in Hbd.
  apply winv_of; cbn [wset_regs wset_buf wlent wgiven wnocache wbuf wpend wregs].
  - rewrite Hown. exact (wv_e _ _ Hi).
  - exact (wv_nocache _ _ Hi).
  - rewrite Hbl. exact (wv_nodup _ _ Hi).
  - eapply chain_extend; [exact Hch|cbn [sln s']; lia].
  - unfold wlen. cbn [wbuf sln s' wset_regs wset_buf]. constructor; [cbn [glog gln r]; lia|].
    rewrite Forall_forall in *. intros x Hx. specialize (Hbd x Hx). lia.
  - constructor; [|exact (wv_disj _ _ Hi)].
    rewrite Forall_forall in *. intros x Hx. specialize (Hbd x Hx). unfold ldisj. cbn [glog gln r]. right. lia.
  - split; cbn [wset_regs wset_buf wlent wbuf wpend wregs].
    + cbn [scp sln s']. destruct (0 <? scp s) eqn:Hs1.
      * destruct Ic as (C1 & C2 & C3 & C4). unfold buf_ok. cbn [scp sln soff sblk s']. splits; assumption.
      * destruct Ic as [C1 C2]. split; [lia|assumption].
    + assumption.
    + constructor.
      * unfold reg_ok. cbn [gval gln gblk gphys glog r]. split; [assumption|].
        destruct (N.eq_dec n 0) as [Hz|Hnz]; [now left|right].
        assert (Hpos : 0 < scp s) by lia.
        exists s'. splits; [reflexivity|cbn [scp s']; lia| |apply Hrd; lia].
        eapply reg_in_last; [exact Hch|].
        intros lo' Hlo. unfold in_buf. cbn [gblk gphys glog gln r sblk soff sln s']. splits; try reflexivity; lia.
      * rewrite Forall_forall in *. intros x Hx. destruct (Ir x Hx) as [R1 R2]. split; [assumption|].
        destruct R2 as [R2|(c & Hc1 & Hc2 & Hc3 & Hc4)]; [now left|right].
        rewrite Hb in Hc1. inversion Hc1; subst c. exists s'. splits; [reflexivity|assumption| |assumption].
        eapply reg_in_extend; [| | |exact Hc3]; cbn [sblk soff sln s']; try reflexivity. lia.
Qed.

Lemma winv_add_empty_region st e r : winv st e -> gln r = 0 -> gval r = [] -> glog r = 0 -> wbuf st = None ->
  winv (wset_regs st (r :: wregs st)) e.
Proof.
  intros Hi Hz Hv Hg Hb. destruct Hi as [A B C D E F G G' H].
  assert (Hbl : wblocks (wset_regs st (r :: wregs st)) = wblocks st) by reflexivity.
  apply winv_of; cbn [wset_regs wlent wgiven wnocache wbuf wpend wregs]; try assumption.
  - unfold wlen in *. cbn [wset_regs wbuf]. constructor; [lia|assumption].
  - constructor; [|assumption]. rewrite Forall_forall. intros x _. unfold ldisj. left. lia.
  - split; cbn [wset_regs wlent wbuf wpend wregs]; try assumption.
    constructor; [|exact H]. split; [rewrite Hv, Hz; reflexivity|now left].
Qed.

Lemma h_malloc_inv st e n st' e' ob : winv st e -> h_malloc st e n = (st', e', ob) -> winv st' e'.
Proof.
  intros Hi E. unfold h_malloc in E.
  destruct (werr st); [inversion E; subst; assumption|].
  destruct (n <? 0)%Z; [inversion E; subst; assumption|].
  destruct (wacquire st e (Z.to_N n)) as [st1 e1] eqn:Ea.
  destruct (wacquire_inv _ _ _ _ _ Hi Ea) as (Hi1 & _).
  destruct (wbuf st1) as [s|] eqn:Hb.
  - destruct (N.leb_spec (sln s + Z.to_N n) (scp s)) as [Hfit|]; [|inversion E; subst; assumption].
    inversion E; subst; clear E.
    apply winv_add_region; try assumption.
    + unfold read. rewrite len_take_le, len_drop.
      pose proof (winv_shape _ _ Hi1) as [Ic _ _]. rewrite Hb in Ic.
      destruct (0 <? scp s) eqn:Hs1; [destruct Ic as (C1 & C2 & C3 & C4); lia|lia].
    + intros _. reflexivity.
  - destruct (Z.to_N n =? 0) eqn:Ez; inversion E; subst; [|assumption].
    apply winv_add_empty_region; try assumption; reflexivity.
Qed.

Lemma winv_lend_ro st e contents e' b :
  winv st e -> e_lend e contents true = (e', b) -> winv (wadd_given st b) e' /\ block (wh (ew e')) b = contents /\
  ~ In b (wblocks st).
Proof.
  intros Hi El. destruct (einv_lend _ _ _ _ _ _ _ _ (wv_e _ _ Hi) El) as (A1 & A2 & A3 & [A4 _] & A5).
  assert (Hnb : ~ In b (wblocks st)) by (intros H; apply A2; now apply In_wblocks_foot).
  split; [|split; assumption].
  destruct Hi as [A B C D E F G G' H].
  apply winv_of; cbn [wadd_given wlent wgiven wnocache wbuf wpend wregs]; try assumption.
  eapply wshape_frame; [split; eassumption|].
  intros x Hx. apply A4. now apply In_wblocks_foot.
Qed.

Lemma h_writebinary_inv st e bs extra st' e' ob : winv st e -> h_writebinary st e bs extra = (st', e', ob) -> winv st' e'.
Proof.
  intros Hi0 E. unfold h_writebinary in E.
  (* the caller materialises the payload *)
  assert (Hlend : exists st0 e0 pb,
             (if 0 <? len bs + extra
              then let '(e0, pb) := e_lend e (bs ++ repeat 0 (N.to_nat extra)) true in (e0, pb, wadd_given st pb)
              else (e, O, st)) = (e0, pb, st0) /\ winv st0 e0 /\
             (0 < len bs -> block (wh (ew e0)) pb = bs ++ repeat 0 (N.to_nat extra) /\ In pb (wgiven st0))).
  { destruct (0 <? len bs + extra) eqn:Ec.
    - destruct (e_lend e _ true) as [e0 pb] eqn:El. exists (wadd_given st pb), e0, pb.
      destruct (winv_lend_ro _ _ _ _ _ Hi0 El) as (A1 & A2 & A3).
      split; [reflexivity|split; [assumption|]]. intros _. split; [assumption|cbn; tauto].
    - exists st, e, O. split; [reflexivity|split; [assumption|]]. intros Hl. lia. }
  destruct Hlend as (st0 & e0 & pb & El & Hi & Hpl). rewrite El in E. clear El Hi0.
  destruct (werr st0); [inversion E; subst; assumption|].
  destruct (wacquire st0 e0 (len bs)) as [st1 e1] eqn:Ea.
  destruct (wacquire_inv _ _ _ _ _ Hi Ea) as (Hi1 & Q1 & Q2 & Q3).
  destruct (wbuf st1) as [s|] eqn:Hb; [|inversion E; subst; assumption].
  set (n := N.min (scp s - sln s) (len bs)) in *.
  destruct (N.eq_dec n 0) as [Hn0|Hnn].
  - (* nothing is copied *)
    rewrite Hn0 in E. unfold e_read in E. cbn [N.eqb read take N.to_nat firstn e_write] in E.
    inversion E; subst; clear E.
    assert (Hle : sln s <= scp s).
    { pose proof (winv_shape _ _ Hi1) as [Ic _ _]. rewrite Hb in Ic.
      destruct (0 <? scp s); [destruct Ic as (C1 & C2 & _); lia|lia]. }
    apply (winv_add_region st1 e' s 0 [] false); try assumption; try reflexivity; try lia.
  - (* the payload block is readable: it was lent a moment ago and acquire kept it *)
    assert (Hlb : 0 < len bs) by (unfold n in Hnn; lia).
    assert (Hpos : 0 < scp s) by (unfold n in Hnn; lia).
    destruct (Hpl Hlb) as [Hpc Hpg].
    assert (Hpb1 : block (wh (ew e1)) pb = bs ++ repeat 0 (N.to_nat extra)).
    { rewrite <- Hpc. apply Q3. rewrite in_app_iff. now right. }
    assert (Hpin : In pb (wowned st1 ++ wlent st1 ++ wgiven st1)) by (rewrite Q2, !in_app_iff; tauto).
    destruct (einv_read _ _ _ _ _ 0 n (wv_e _ _ Hi1) Hpin) as (R1 & R2 & R3).
    destruct (e_read e1 pb 0 n) as [e2 v] eqn:Erd. cbn [fst snd] in R1, R2, R3.
    assert (Hlv : len v = n).
    { rewrite R3, len_take_le, len_drop, Hpb1, len_app. unfold n. lia. }
    assert (Hi2 : winv st1 e2).
    { eapply winv_frame; [exact Hi1|exact R1|]. rewrite R2. apply same_on_refl. }
    assert (Hfit : sln s + len v <= scp s) by (rewrite Hlv; unfold n; lia).
    destruct (winv_write_end _ _ _ v Hi2 Hb Hpos Hfit) as [Hi3 Hrd3].
    injection E as Est Ee Eo. rewrite <- Est, <- Ee.
    apply winv_add_region; try assumption.
    + lia.
    + intros _. rewrite <- Hlv. exact Hrd3.
Qed.

(* ---------- the caller stores through a region ---------- *)
Lemma rd_splice_after h h' b woff v a n :
  block h' b = splice (block h b) woff v -> woff + len v <= a -> woff + len v <= len (block h b) ->
  rd h' b a n = rd h b a n.
Proof. intros H H1 H2. unfold rd. rewrite H. now apply read_splice_after. Qed.

Lemma rd_splice_inside h h' b p n off d :
  block h' b = splice (block h b) (p + off) d -> off + len d <= n -> p + n <= len (block h b) ->
  rd h' b p n = splice (rd h b p n) off d.
Proof.
  intros H H1 H2.
  replace n with (off + (len d + (n - off - len d))) at 1 by lia.
  rewrite !rd_plus.
  rewrite (rd_splice_before _ _ _ _ _ _ _ H) by lia.
  rewrite (rd_splice_at _ _ _ _ _ H) by lia.
  rewrite (rd_splice_after _ _ _ _ _ _ _ H) by lia.
  unfold splice. rewrite rd_take by lia. rewrite rd_drop. do 3 f_equal; lia.
Qed.

Lemma NoDup_map_inj {A B} (f : A -> B) l x y : NoDup (map f l) -> In x l -> In y l -> f x = f y -> x = y.
Proof.
  induction l as [|z l IH]; cbn [map In]; intros Hn Hx Hy Hf; [tauto|].
  inversion Hn as [|? ? Hz Hr]; subst.
  destruct Hx as [->|Hx], Hy as [->|Hy]; try reflexivity.
  - exfalso. apply Hz. rewrite Hf. now apply in_map.
  - exfalso. apply Hz. rewrite <- Hf. now apply in_map.
  - now apply IH.
Qed.

Lemma reg_in_buf : forall pd lo c r, reg_in lo pd c r -> exists x lo', In x (pd ++ [c]) /\ in_buf lo' x r.
Proof.
  induction pd as [|p rest IH]; intros lo c r H; cbn [reg_in app] in *.
  - exists c, lo. split; [now left|assumption].
  - destruct H as [H|H]; [exists p, lo; split; [now left|assumption]|].
    destruct (IH _ _ _ H) as (x & lo' & Hx & Hin). exists x, lo'. split; [now right|assumption].
Qed.

Definition geom_eq (r r' : region) : Prop :=
  gblk r = gblk r' /\ gphys r = gphys r' /\ gln r = gln r' /\ glog r = glog r' /\ gopen r = gopen r'.
Lemma geom_eq_refl r : geom_eq r r.
Proof. unfold geom_eq. splits; reflexivity. Qed.
Lemma upd_open_geom : forall l j off d, Forall2 geom_eq l (upd_open l j off d).
Proof.
  induction l as [|r l IH]; intros j off d; cbn [upd_open]; [constructor|].
  destruct (gopen r).
  - destruct j.
    + constructor; [unfold geom_eq, upd_region; cbn; splits; reflexivity|].
      clear. induction l; constructor; [apply geom_eq_refl|assumption].
    + constructor; [apply geom_eq_refl|apply IH].
  - constructor; [apply geom_eq_refl|apply IH].
Qed.
Lemma Forall2_geom_Forall (P : region -> Prop) l l' :
  (forall r r', geom_eq r r' -> P r -> P r') -> Forall2 geom_eq l l' -> Forall P l -> Forall P l'.
Proof.
  intros HP H. induction H as [|r r' l l' Hg H IH]; intros Hf; [constructor|].
  inversion Hf; subst. constructor; [eapply HP; eassumption|now apply IH].
Qed.
Lemma Forall2_geom_ldisj r r' l l' :
  geom_eq r r' -> Forall2 geom_eq l l' -> Forall (ldisj r) l -> Forall (ldisj r') l'.
Proof.
  intros (K1 & K2 & K3 & K4 & K5) H. induction H as [|x x' l l' Hg H IH]; intros Hf; [constructor|].
  inversion Hf as [|? ? Hx Hr]; subst. constructor; [|now apply IH].
  destruct Hg as (G1 & G2 & G3 & G4 & G5). unfold ldisj in *. rewrite <- K3, <- K4, <- G3, <- G4. exact Hx.
Qed.
Lemma Forall2_geom_FOP l l' : Forall2 geom_eq l l' -> ForallOrdPairs ldisj l -> ForallOrdPairs ldisj l'.
Proof.
  intros H. induction H as [|r r' l l' Hg H IH]; intros Hf; [constructor|].
  inversion Hf as [|? ? Hd Hr]; subst. constructor; [|now apply IH].
  eapply Forall2_geom_ldisj; eassumption.
Qed.
Lemma nth_open_In : forall l j t, nth_open l j = Some t -> In t l.
Proof.
  induction l as [|r l IH]; intros j t H; cbn [nth_open] in H; [discriminate|].
  destruct (gopen r).
  - destruct j; [inversion H; now left|right; eapply IH; eassumption].
  - right; eapply IH; eassumption.
Qed.

Lemma ldisj_sym r r' : ldisj r r' -> ldisj r' r.
Proof. unfold ldisj. tauto. Qed.

Lemma reg_in_geom : forall pd lo c r r', geom_eq r r' -> reg_in lo pd c r -> reg_in lo pd c r'.
Proof.
  intros pd lo c r r' (G1 & G2 & G3 & G4 & G5).
  revert lo. induction pd as [|p rest IH]; intros lo H; cbn [reg_in] in *.
  - unfold in_buf in *. rewrite <- G1, <- G2, <- G3, <- G4. exact H.
  - destruct H as [H|H]; [left|right; now apply IH].
    unfold in_buf in *. rewrite <- G1, <- G2, <- G3, <- G4. exact H.
Qed.

Section Fill.
  Variables (h h' : heap) (st : hwriter) (c : bslice) (t : region) (off : N) (d : bytes).
  Hypothesis Hb : wbuf st = Some c.
  Hypothesis Hpos : 0 < scp c.
  Hypothesis Hnd : NoDup (map sblk (wpend st ++ [c])).
  Hypothesis Hd : 0 < len d.
  Hypothesis Hfit : off + len d <= gln t.
  Hypothesis Hlv : len (gval t) = gln t.
  Hypothesis Hin : reg_in 0 (wpend st) c t.
  Hypothesis Hcont : rd h (gblk t) (gphys t) (gln t) = gval t.
  Hypothesis Hbnd : gphys t + gln t <= len (block h (gblk t)).
  Hypothesis Hw : block h' (gblk t) = splice (block h (gblk t)) (gphys t + off) d.
  Hypothesis Ho : forall b, b <> gblk t -> block h' b = block h b.

  (* a window that does not overlap t keeps its contents *)
  Lemma reg_ok_other x : reg_ok h st x -> ldisj t x -> reg_ok h' st x.
  Proof.
    intros [X1 X2] Hdis. split; [assumption|].
    destruct X2 as [X2|(c' & Hc1 & Hc2 & Hc3 & Hc4)]; [now left|right].
    rewrite Hb in Hc1. inversion Hc1; subst c'. exists c. splits; try assumption.
    rewrite <- Hc4. destruct (Nat.eq_dec (gblk x) (gblk t)) as [Heq|Hne]; [|apply rd_same; now apply Ho].
    destruct (reg_in_buf _ _ _ _ Hc3) as (bx & lx & Hbx & (I1 & I2 & I3 & I4)).
    destruct (reg_in_buf _ _ _ _ Hin) as (bt & lt & Hbt & (J1 & J2 & J3 & J4)).
    assert (bx = bt) by (eapply NoDup_map_inj; [exact Hnd|assumption|assumption|congruence]). subst bt.
    rewrite Heq. destruct Hdis as [Hd1|Hd1].
    - eapply rd_splice_after; [exact Hw|lia|lia].
    - eapply rd_splice_before; [exact Hw|lia|lia].
  Qed.

  Lemma reg_ok_target : reg_ok h' st (upd_region t off d).
  Proof.
    split; cbn [upd_region gval gln gblk gphys].
    - rewrite len_splice by lia. assumption.
    - right. exists c. splits; try assumption.
      + eapply reg_in_geom; [|exact Hin]. unfold geom_eq, upd_region. cbn. splits; reflexivity.
      + rewrite (rd_splice_inside _ _ _ _ _ _ _ Hw) by lia. now rewrite Hcont.
  Qed.

  Lemma fill_regs : forall l j, nth_open l j = Some t -> ForallOrdPairs ldisj l ->
    Forall (reg_ok h st) l -> Forall (reg_ok h' st) (upd_open l j off d).
  Proof.
    induction l as [|r l IH]; intros j Hn Hfo Hok; cbn [upd_open nth_open] in *; [discriminate|].
    inversion Hfo as [|? ? Hhd Htl]; subst. inversion Hok as [|? ? Hr Hl]; subst.
    assert (Hstep : forall j', nth_open l j' = Some t ->
              Forall (reg_ok h' st) (r :: upd_open l j' off d)).
    { intros j' Hn'. constructor; [|now apply IH].
      apply reg_ok_other; [assumption|]. apply ldisj_sym. rewrite Forall_forall in Hhd. apply Hhd.
      eapply nth_open_In; eassumption. }
    destruct (gopen r).
    - destruct j as [|j'].
      + inversion Hn; subst r. constructor; [apply reg_ok_target|].
        rewrite Forall_forall in *. intros x Hx. apply reg_ok_other; [now apply Hl|now apply Hhd].
      + now apply Hstep.
    - now apply Hstep.
  Qed.
End Fill.

Lemma buf_in_blocks st c x : wbuf st = Some c -> 0 < scp c -> In x (wpend st ++ [c]) -> In (sblk x) (wblocks st).
Proof.
  intros Hb Hc Hx. rewrite (wblocks_cur _ _ Hb Hc). apply in_app_or in Hx as [Hx|[<-|[]]]; [right; now apply in_map|now left].
Qed.

Lemma h_fill_inv st e k off data st' w' :
  winv st e -> h_fill st (ew e) k off data = Some (st', w') ->
  winv st' (mkE w' (eal e) (eadv e) (epool e) (eev e)).
Proof.
  intros Hi E. unfold h_fill in E.
  destruct (open_index st k) as [j|]; [|discriminate].
  destruct (nth_open (wregs st) j) as [t|] eqn:Hn; [|discriminate].
  destruct ((off + len data <=? gln t) && (0 <? len data)) eqn:Ec; [|discriminate].
  apply andb_true_iff in Ec as [Ec1 Ec2]. apply N.leb_le in Ec1. apply N.ltb_lt in Ec2.
  inversion E; subst; clear E.
  pose proof (nth_open_In _ _ _ Hn) as Ht.
  destruct Hi as [A B C D E F G G' H].
  pose proof H as H0. rewrite Forall_forall in H0. destruct (H0 t Ht) as [T1 [T2|(c & Hb & Hpos & Hin & Hcont)]]; [lia|].
  assert (Hs1 : 0 <? scp c = true) by lia. rewrite Hb in D, F. rewrite Hs1 in D.
  destruct (reg_in_buf _ _ _ _ Hin) as (bt & lt & Hbt & (J1 & J2 & J3 & J4)).
  assert (Hbok : buf_ok (wh (ew e)) (wlent st) bt).
  { apply in_app_or in Hbt as [Hbt|[<-|[]]]; [|assumption]. rewrite Forall_forall in E. now apply E. }
  destruct Hbok as (K1 & K2 & K3 & K4).
  assert (Hbnd : gphys t + gln t <= len (block (wh (ew e)) (gblk t))) by (rewrite J1; lia).
  assert (Htb : In (gblk t) (wblocks st)) by (rewrite J1; eapply buf_in_blocks; eassumption).
  assert (Hvalid : (gblk t < length (wh (ew e)))%nat).
  { destruct (einv_sep3 _ _ _ _ A) as [_ Sv _]. rewrite Forall_forall in Sv. apply Sv. now apply In_wblocks_foot. }
  set (hh := write (wh (ew e)) (gblk t, gphys t + off) data).
  assert (Hw : block hh (gblk t) = splice (block (wh (ew e)) (gblk t)) (gphys t + off) data)
    by (apply block_write_same; assumption).
  assert (Ho : forall b, b <> gblk t -> block hh b = block (wh (ew e)) b)
    by (intros b Hne; now apply block_write_other).
  assert (Hlen : forall b, len (block hh b) = len (block (wh (ew e)) b))
    by (intros b; apply len_block_write; lia).
  assert (Hnd : NoDup (map sblk (wpend st ++ [c]))).
  { rewrite (wblocks_cur _ _ Hb Hpos) in C. rewrite map_app. cbn [map].
    eapply Permutation_NoDup; [apply Permutation_cons_append|exact C]. }
  assert (Hbuf : forall x, buf_ok (wh (ew e)) (wlent st) x -> buf_ok hh (wlent st) x).
  { intros x (X1 & X2 & X3 & X4). unfold buf_ok. rewrite Hlen. splits; assumption. }
  apply winv_of; cbn [wset_regs wlent wgiven wnocache wbuf wpend wregs ew eev wh]; try assumption.
  - apply (einv_caller_write _ _ _ _ hh A).
    + subst hh. apply length_write.
    + intros x Hx. apply Ho. intros ->.
      destruct A as [_ [Sn _ _] _ _]. apply In_wblocks_foot in Htb.
      rewrite <- foot_assoc in Sn. exact (NoDup_app_disj _ _ _ Sn Htb Hx).
  - now rewrite Hb.
  - eapply Forall2_geom_Forall; [|apply upd_open_geom|exact G].
    intros r r' (G1 & G2 & G3 & G4 & G5) Hr. unfold wlen in *. cbn [wset_regs wbuf] in *. lia.
  - eapply Forall2_geom_FOP; [apply upd_open_geom|exact G'].
  - split; cbn [wset_regs wlent wbuf wpend wregs].
    + rewrite Hb, Hs1. now apply Hbuf.
    + rewrite Forall_forall in *. intros p Hp. apply Hbuf. now apply E.
    + assert (Hreg : forall r, reg_ok hh st r -> reg_ok hh (wset_regs st (upd_open (wregs st) j off data)) r)
        by (intros r Hr; exact Hr).
      eapply Forall_impl; [exact Hreg|].
      eapply fill_regs; try eassumption.
Qed.

(* ---------- Flush: stitching the parked buffers into the current one ---------- *)
Lemma reg_in_cur_lo : forall pd lo c r,
  reg_in lo pd c r -> chain lo pd c -> gblk r = sblk c -> ~ In (sblk c) (map sblk pd) -> lo <= glog r.
Proof.
  induction pd as [|p rest IH]; intros lo c r H Hc Hb Hn; cbn [reg_in chain map In] in *.
  - destruct H as (_ & _ & A & _). assumption.
  - destruct Hc as [Hc1 Hc2]. destruct H as [(A & _)|H]; [exfalso; apply Hn; left; congruence|].
    assert (sln p <= glog r) by (eapply IH; [exact H|assumption|assumption|tauto]). lia.
Qed.

Lemma rd_sub h b base m x n : x + n <= m -> rd h b (base + x) n = take n (drop x (rd h b base m)).
Proof. intros H. rewrite rd_drop, rd_take by lia. reflexivity. Qed.

Section Stitch.
  Variables (O L G : list nat) (c : bslice).

  Lemma stitch_spec : forall pd lo e e' off',
    einv X O L G e ->
    In (sblk c) (O ++ L) -> (forall p, In p pd -> In (sblk p) (O ++ L ++ G)) ->
    NoDup (sblk c :: map sblk pd) ->
    buf_ok (wh (ew e)) L c -> Forall (buf_ok (wh (ew e)) L) pd ->
    chain lo pd c ->
    stitch e pd c lo = Some (e', off') ->
    einv X O L G e' /\
    (forall b, b <> sblk c -> block (wh (ew e')) b = block (wh (ew e)) b) /\
    len (block (wh (ew e')) (sblk c)) = len (block (wh (ew e)) (sblk c)) /\
    lo <= off' /\ off' <= sln c /\
    rd (wh (ew e')) (sblk c) (soff c) lo = rd (wh (ew e)) (sblk c) (soff c) lo /\
    (forall a n, off' <= a -> rd (wh (ew e')) (sblk c) (soff c + a) n = rd (wh (ew e)) (sblk c) (soff c + a) n) /\
    (forall r, reg_in lo pd c r -> rd (wh (ew e)) (gblk r) (gphys r) (gln r) = gval r ->
               rd (wh (ew e')) (sblk c) (soff c + glog r) (gln r) = gval r) /\
    (forall r, reg_in lo pd c r -> gblk r = sblk c -> off' <= glog r /\ gphys r = soff c + glog r).
  Proof.
    induction pd as [|p rest IH]; intros lo e e' off' Hi Hc Hp Hnd Hbc Hbp Hch E; cbn [stitch chain] in *.
    - inversion E; subst; clear E. splits; try reflexivity; try assumption; try lia.
      + intros r (A & B & _) Hr. rewrite <- A, <- B. exact Hr.
      + intros r (A & B & C & _) _. split; assumption.
    - destruct Hch as [Hlo Hch]. pose proof (chain_le _ _ _ Hch) as Hpc.
      assert (Ele : (lo <=? sln c) && (lo <=? sln p) = true) by lia. rewrite Ele in E.
      replace (N.min (sln c - lo) (sln p - lo)) with (sln p - lo) in E by lia.
      set (m := sln p - lo) in *.
      inversion Hbp as [|? ? Hbp1 Hbp2]; subst. destruct Hbp1 as (P1 & P2 & P3 & P4).
      destruct Hbc as (C1 & C2 & C3 & C4).
      inversion Hnd as [|? ? Hnc Hnd']; subst. inversion Hnd' as [|? ? Hnp Hnd'']; subst.
      assert (Hpne : sblk p <> sblk c) by (intros Heq; apply Hnc; left; congruence).
      assert (Hpin : In (sblk p) (O ++ L ++ G)) by (apply Hp; now left).
      destruct (einv_read _ _ _ _ _ (soff p + lo) m Hi Hpin) as (R1 & R2 & R3).
      destruct (e_read e (sblk p) (soff p + lo) m) as [e1 v] eqn:Erd. cbn [fst snd] in R1, R2, R3.
      assert (Hv : v = rd (wh (ew e)) (sblk p) (soff p + lo) m) by (rewrite R3; reflexivity).
      assert (Hlv : len v = m) by (rewrite Hv; apply rd_len; lia).
      assert (Hwb : soff c + lo + len v <= len (block (wh (ew e1)) (sblk c))) by (rewrite R2; lia).
      destruct (einv_write _ _ _ _ _ _ _ R1 Hc Hwb) as (W1 & W2 & W3 & [W4 W5]).
      set (e2 := e_write e1 (sblk c) (soff c + lo) v) in *.
      assert (Hlen2 : len (block (wh (ew e2)) (sblk c)) = len (block (wh (ew e)) (sblk c))).
      { rewrite W2, len_splice by lia. now rewrite R2. }
      assert (Hoth2 : forall b, b <> sblk c -> block (wh (ew e2)) b = block (wh (ew e)) b).
      { intros b Hb. rewrite W3 by assumption. now rewrite R2. }
      assert (Hbuf2 : forall x, buf_ok (wh (ew e)) L x -> buf_ok (wh (ew e2)) L x).
      { intros x (X1 & X2 & X3 & X4). unfold buf_ok.
        destruct (Nat.eq_dec (sblk x) (sblk c)) as [Heq|Hne].
        - rewrite Heq, Hlen2, <- Heq. splits; assumption.
        - rewrite (Hoth2 _ Hne). splits; assumption. }
      assert (Hbc2 : buf_ok (wh (ew e2)) L c) by (apply Hbuf2; unfold buf_ok; splits; assumption).
      assert (Hbp2' : Forall (buf_ok (wh (ew e2)) L) rest).
      { rewrite Forall_forall in *. intros x Hx. apply Hbuf2. now apply Hbp2. }
      assert (Hp' : forall q, In q rest -> In (sblk q) (O ++ L ++ G)) by (intros q Hq; apply Hp; now right).
      assert (Hnd2 : NoDup (sblk c :: map sblk rest)).
      { constructor; [intros H; apply Hnc; now right|assumption]. }
      replace (lo + m) with (sln p) in E by lia.
      destruct (IH _ _ _ _ W1 Hc Hp' Hnd2 Hbc2 Hbp2' Hch E) as (A1 & A2 & A3 & A4 & A5 & A6 & A7 & A8 & A9).
      assert (Hblk1 : block (wh (ew e1)) (sblk c) = block (wh (ew e)) (sblk c)) by now rewrite R2.
      splits; try assumption; try lia.
      + intros b Hb. rewrite A2 by assumption. now apply Hoth2.
      + (* the part below lo is untouched *)
        rewrite <- (rd_take _ _ _ lo (sln p)) by lia. rewrite A6. rewrite rd_take by lia.
        rewrite (rd_splice_before _ _ _ _ _ _ _ W2) by (rewrite ?Hblk1; lia). now apply rd_same.
      + intros a n Ha. rewrite A7 by assumption.
        rewrite (rd_splice_after _ _ _ _ _ _ _ W2) by (rewrite ?Hblk1; lia). now apply rd_same.
      + intros r [Hr|Hr] Hcont.
        * (* the window was copied from the parked buffer in this round *)
          destruct Hr as (I1 & I2 & I3 & I4).
          assert (Hv2 : rd (wh (ew e2)) (sblk c) (soff c + lo) m = v).
          { rewrite <- Hlv. apply (rd_splice_at _ _ _ _ _ W2). rewrite Hblk1. lia. }
          assert (Hsub : rd (wh (ew e2)) (sblk c) (soff c + glog r) (gln r) = gval r).
          { replace (soff c + glog r) with (soff c + lo + (glog r - lo)) by lia.
            rewrite (rd_sub _ _ _ m) by lia. rewrite Hv2, Hv. rewrite <- (rd_sub _ _ _ m) by lia.
            rewrite <- Hcont, I1, I2. f_equal. lia. }
          rewrite <- Hsub. rewrite !(rd_sub _ _ (soff c) (sln p)) by lia. now rewrite A6.
        * apply A8; [assumption|].
          rewrite <- Hcont. destruct (Nat.eq_dec (gblk r) (sblk c)) as [Heq|Hne].
          -- assert (Hn' : ~ In (sblk c) (map sblk rest)) by (intros H; apply Hnc; now right).
             destruct (reg_in_cur _ _ _ _ Hr Heq Hn') as [Q1 Q2].
             pose proof (reg_in_cur_lo _ _ _ _ Hr Hch Heq Hn') as Q3.
             rewrite Heq, Q1. rewrite (rd_splice_after _ _ _ _ _ _ _ W2) by (rewrite ?Hblk1; lia). now apply rd_same.
          -- apply rd_same. now apply Hoth2.
      + intros r [Hr|Hr] Heq.
        * destruct Hr as (I1 & _). exfalso. apply Hpne. congruence.
        * now apply A9.
  Qed.
End Stitch.

(* after the stitch the invariant still holds and every window reads, in the current buffer at its
   logical offset, as what was last stored through it *)
Lemma flush_stitched st e c e1 off' :
  winv st e -> wbuf st = Some c -> 0 < scp c -> stitch e (wpend st) c 0 = Some (e1, off') ->
  winv st e1 /\
  Forall (fun r => 0 < gln r -> rd (wh (ew e1)) (sblk c) (soff c + glog r) (gln r) = gval r) (wregs st).
Proof.
  intros Hi Hb Hpos Es.
  assert (Hs1 : 0 <? scp c = true) by lia.
  pose proof Hi as [A B C D E F G G' H]. rewrite Hb in D, F. rewrite Hs1 in D.
  assert (Hbl : wblocks st = sblk c :: map sblk (wpend st)) by (apply wblocks_cur; assumption).
  assert (Hcin : In (sblk c) (wowned st ++ wlent st)) by (apply In_wblocks_OL; rewrite Hbl; now left).
  assert (Hpin : forall p, In p (wpend st) -> In (sblk p) (wowned st ++ wlent st ++ wgiven st)).
  { intros p Hp. apply In_wblocks_foot. rewrite Hbl. right. now apply in_map. }
  rewrite Hbl in C.
  destruct (stitch_spec _ _ _ _ _ _ _ _ _ A Hcin Hpin C D E F Es) as (S1 & S2 & S3 & S4 & S5 & S6 & S7 & S8 & S9).
  inversion C as [|? ? Hnc Hnp]; subst.
  assert (Hbuf : forall x, buf_ok (wh (ew e)) (wlent st) x -> buf_ok (wh (ew e1)) (wlent st) x).
  { intros x (X1 & X2 & X3 & X4). unfold buf_ok.
    destruct (Nat.eq_dec (sblk x) (sblk c)) as [Heq|Hne].
    - rewrite Heq, S3, <- Heq. splits; assumption.
    - rewrite (S2 _ Hne). splits; assumption. }
  split.
  - apply winv_of; try assumption; try (rewrite Hb; assumption); try (rewrite Hbl; assumption).
    split.
    + rewrite Hb, Hs1. now apply Hbuf.
    + rewrite Forall_forall in *. intros p Hp. apply Hbuf. now apply E.
    + rewrite Forall_forall in *. intros r Hr. destruct (H r Hr) as [R1 R2]. split; [assumption|].
      destruct R2 as [R2|(c' & Hc1 & Hc2 & Hc3 & Hc4)]; [now left|right].
      rewrite Hb in Hc1. inversion Hc1; subst c'. exists c. splits; try assumption.
      rewrite <- Hc4. destruct (Nat.eq_dec (gblk r) (sblk c)) as [Heq|Hne].
      * destruct (S9 r Hc3 Heq) as [Q1 Q2]. rewrite Heq, Q2. now apply S7.
      * apply rd_same. now apply S2.
  - rewrite Forall_forall in *. intros r Hr Hlen. destruct (H r Hr) as [R1 [R2|(c' & Hc1 & Hc2 & Hc3 & Hc4)]]; [lia|].
    rewrite Hb in Hc1. inversion Hc1; subst c'. now apply S8.
Qed.

Lemma wfree_all_inv R : forall pd Y e,
  einv X (Y ++ map sblk pd) [] R e -> Forall (fun p => soff p = 0 /\ scp p = len (block (wh (ew e)) (sblk p))) pd ->
  einv X Y [] R (OwnWriter.free_all e pd).
Proof.
  induction pd as [|p pd IH]; intros Y e Hi Hw; cbn [OwnWriter.free_all map].
  - now rewrite app_nil_r in Hi.
  - cbn [map] in Hi. inversion Hw as [|? ? Hp Hr]; subst. destruct Hp as (P1 & P2).
    assert (Hi' : einv X (sblk p :: Y ++ map sblk pd) [] R e).
    { eapply einv_perm; [|exact Hi]. apply Permutation_sym, Permutation_middle. }
    destruct (einv_free _ _ _ _ p Hi' (or_introl eq_refl) P1 P2) as (F1 & [F2 _] & F3).
    cbn [remove1] in F1, F2. rewrite Nat.eqb_refl in F1, F2.
    apply IH; [exact F1|].
    rewrite Forall_forall in *. intros q Hq. destruct (Hr q Hq) as [Q1 Q2]. split; [assumption|].
    rewrite (F2 (sblk q)); [assumption|]. rewrite !in_app_iff. left. right. now apply in_map.
Qed.

Lemma wdrop_all_inv L G : forall pd O e,
  einv X O L G e -> NoDup (map sblk pd) -> (forall p, In p pd -> In (sblk p) (O ++ L)) ->
  exists O', einv X O' L G (OwnWriter.drop_all e pd) /\ ew (OwnWriter.drop_all e pd) = ew e /\
             (forall x, In x O' -> In x O /\ ~ In x (map sblk pd)).
Proof.
  induction pd as [|p pd IH]; intros O e Hi Hnd Hin; cbn [OwnWriter.drop_all map].
  - exists O. splits; [assumption|reflexivity|]. intros x Hx. split; [assumption|intros []].
  - inversion Hnd as [|? ? Hnp Hnd']; subst.
    assert (HnO : NoDup O) by (destruct (einv_sep3 _ _ _ _ Hi) as [Sn _ _]; now apply NoDup_app_l in Sn).
    destruct (in_dec Nat.eq_dec (sblk p) O) as [HpO|HpO].
    + pose proof (einv_drop_owned _ _ _ _ _ Hi HpO) as Hi1.
      assert (Hin1 : forall q, In q pd -> In (sblk q) (remove1 (sblk p) O ++ L)).
      { intros q Hq. specialize (Hin q (or_intror Hq)). rewrite in_app_iff in *. destruct Hin as [H|H]; [left|now right].
        apply In_remove1_ne; [|assumption]. intros Heq. apply Hnp. rewrite <- Heq. now apply in_map. }
      destruct (IH _ _ Hi1 Hnd' Hin1) as (O' & A1 & A2 & A3). exists O'. splits; [assumption|now rewrite A2|].
      intros x Hx. destruct (A3 x Hx) as [B1 B2]. apply In_remove1_iff in B1 as [B1 B1']; [|assumption].
      split; [assumption|]. cbn [In]. intros [H|H]; [congruence|tauto].
    + assert (HpL : In (sblk p) L).
      { specialize (Hin p (or_introl eq_refl)). rewrite in_app_iff in Hin. tauto. }
      pose proof (einv_drop_lent _ _ _ _ _ Hi HpO HpL) as Hi1.
      assert (Hin1 : forall q, In q pd -> In (sblk q) (O ++ L)) by (intros q Hq; apply Hin; now right).
      destruct (IH _ _ Hi1 Hnd' Hin1) as (O' & A1 & A2 & A3). exists O'. splits; [assumption|now rewrite A2|].
      intros x Hx. destruct (A3 x Hx) as [B1 B2]. split; [assumption|]. cbn [In]. intros [H|H]; [congruence|tauto].
Qed.

Lemma no_elements {A} (l : list A) : (forall x, ~ In x l) -> l = [].
Proof. destruct l as [|a l]; [reflexivity|]. intros H. exfalso. apply (H a). now left. Qed.

(* what Flush hands to the sink: the whole unflushed output, each window holding what was last
   stored through it *)

Lemma winv_sink st e k x :
  winv st e ->
  winv (mkWr (wbuf st) (wpend st) x (wnocache st) (wstats st) (wsidx st) k (wregs st) (wnstale st) (wlent st) (wgiven st)) e.
Proof. intros [A B C D E F G G' H]. apply winv_of; try assumption. split; assumption. Qed.

Lemma winv_reset e nc bk bi k ns L G :
  einv X [] L G e -> (nc = false -> L = []) ->
  winv (mkWr None [] None nc bk bi k [] ns L G) e.
Proof.
  intros Hi Hn. apply winv_of; unfold wowned, wblocks, curblk; cbn [wbuf wpend wlent wgiven wnocache wregs map app filter];
    try assumption; try constructor; try exact I; constructor.
Qed.

Lemma h_flush_inv st e st' e' ob :
  winv st e -> h_flush st e = (st', e', ob) ->
  winv st' e' /\ (forall content, oflushed ob = Some content -> flush_content_ok st content).
Proof.
  intros Hi E. unfold h_flush in E.
  destruct (werr st); [inversion E; subst; split; [assumption|intros ? H; discriminate]|].
  destruct (wbuf st) as [c|] eqn:Hb; [|inversion E; subst; split; [assumption|intros ? H; discriminate]].
  destruct (stitch e (wpend st) c 0) as [[e1 off']|] eqn:Es; [|inversion E; subst; split; [assumption|intros ? H; discriminate]].
  (* after the stitch *)
  assert (Hst : winv st e1 /\
                Forall (fun r => 0 < gln r -> rd (wh (ew e1)) (sblk c) (soff c + glog r) (gln r) = gval r) (wregs st)).
  { destruct (0 <? scp c) eqn:Hs1.
    - eapply flush_stitched; try eassumption. lia.
    - pose proof (wv_cur _ _ Hi) as Hc. rewrite Hb, Hs1 in Hc. destruct Hc as [Hc1 Hc2].
      rewrite Hc2 in Es. cbn [stitch] in Es. inversion Es; subst. split; [assumption|].
      pose proof (reg_zero_if_nocap _ _ (winv_shape _ _ Hi)) as Hz. unfold wcap in Hz. rewrite Hb in Hz.
      assert (Hz' := Hz ltac:(lia)). rewrite Forall_forall in *. intros r Hr Hl. destruct (Hz' r Hr). lia. }
  destruct Hst as [Hi1 Hreg1].
  (* the sink runs foreign code, then reads the slice *)
  destruct (einv_callback _ _ _ _ (wv_e _ _ Hi1)) as (K1 & [K2 _] & _).
  pose proof (winv_callback _ _ Hi1) as Hi2. set (e2 := e_callback e1) in *.
  assert (Hcblk : 0 < scp c -> block (wh (ew e2)) (sblk c) = block (wh (ew e1)) (sblk c)).
  { intros Hp. apply K2. apply In_wblocks_foot. rewrite (wblocks_cur _ _ Hb Hp). now left. }
  destruct (e_read e2 (sblk c) (soff c) (sln c)) as [e3 content] eqn:Erd.
  assert (Hrd : ew e3 = ew e2 /\ content = rd (wh (ew e2)) (sblk c) (soff c) (sln c) /\ winv st e3).
  { unfold e_read in Erd. inversion Erd; subst; clear Erd. split; [destruct (sln c =? 0); reflexivity|split; [reflexivity|]].
    destruct (N.eqb_spec (sln c) 0) as [Hz|Hnz]; [assumption|].
    assert (Hp : 0 < scp c).
    { pose proof (wv_cur _ _ Hi2) as Hc. rewrite Hb in Hc. destruct (0 <? scp c) eqn:Hs1; [lia|]. destruct Hc; lia. }
    assert (Hin : In (sblk c) (wowned st ++ wlent st ++ wgiven st)).
    { apply In_wblocks_foot. rewrite (wblocks_cur _ _ Hb Hp). now left. }
    destruct (einv_read _ _ _ _ _ (soff c) (sln c) (wv_e _ _ Hi2) Hin) as (R1 & R2 & _).
    unfold e_read in R1, R2. apply N.eqb_neq in Hnz. rewrite Hnz in R1, R2. cbn [fst] in R1, R2.
    eapply winv_frame; [exact Hi2|exact R1|]. cbn [emit ew]. apply same_on_refl. }
  destruct Hrd as (Hw3 & Hcont & Hi3).
  (* the content handed to the sink *)
  assert (Hfc : flush_content_ok st content).
  { unfold flush_content_ok, wlen. rewrite Hb. split.
    - rewrite Hcont. destruct (N.eq_dec (sln c) 0) as [Hz|Hnz]; [rewrite Hz; reflexivity|].
      apply rd_len. pose proof (wv_cur _ _ Hi2) as Hc. rewrite Hb in Hc.
      destruct (0 <? scp c) eqn:Hs1; [destruct Hc as (C1 & C2 & C3 & C4); lia|destruct Hc; lia].
    - pose proof (wv_bound _ _ Hi) as Hbd. unfold wlen in Hbd. rewrite Hb in Hbd.
      pose proof (wv_regs _ _ Hi) as Hrg.
      rewrite Forall_forall in *. intros r Hr. specialize (Hbd r Hr). specialize (Hreg1 r Hr).
      destruct (Hrg r Hr) as [Hlv _].
      destruct (N.eq_dec (gln r) 0) as [Hz|Hnz].
      + rewrite Hz. cbn [take N.to_nat firstn]. symmetry. rewrite Hz in Hlv. unfold len in Hlv.
        destruct (gval r); [reflexivity|cbn in Hlv; lia].
      + assert (Hp : 0 < scp c).
        { pose proof (wv_cur _ _ Hi2) as Hc. rewrite Hb in Hc. destruct (0 <? scp c) eqn:Hs1; [lia|]. destruct Hc; lia. }
        rewrite Hcont, <- (rd_sub _ _ _ (sln c)) by lia.
        rewrite <- Hreg1 by lia. apply rd_same. now apply Hcblk. }
  destruct (sink_write (wsink st) c content) as [k' er] eqn:Ek.
  destruct er as [x|].
  - inversion E; subst; clear E. split; [rewrite <- Hb; now apply winv_sink|intros ? H; discriminate].
  - destruct (stat_update (wstats st) (wsidx st) (scp c)) as [bk bi].
    injection E as Est Ee Eo. rewrite <- Est, <- Ee, <- Eo. cbn [oflushed].
    split; [|intros content' Hc'; inversion Hc'; subst; exact Hfc].
    pose proof (wv_e _ _ Hi3) as He3. pose proof (wv_nocache _ _ Hi3) as Hnc.
    pose proof (wv_nodup _ _ Hi3) as Hnd. pose proof (winv_shape _ _ Hi3) as [Ic Ip _]. rewrite Hb in Ic.
    destruct (wnocache st) eqn:Enc.
    + (* nothing is freed *)
      destruct (0 <? scp c) eqn:Hs1.
      * assert (Hp : 0 < scp c) by lia.
        assert (Hbl : wblocks st = sblk c :: map sblk (wpend st)) by (apply wblocks_cur; assumption).
        rewrite Hbl in Hnd. inversion Hnd as [|? ? Hnc' Hnp]; subst.
        assert (Hpd : forall O, (forall x, In x (wowned st) -> x <> sblk c -> In x O) ->
                  forall p, In p (wpend st) -> In (sblk p) (O ++ wlent st)).
        { intros O HO p Hp'. assert (Hx : In (sblk p) (wblocks st)) by (rewrite Hbl; right; now apply in_map).
          apply In_wblocks_OL in Hx. rewrite in_app_iff in *. destruct Hx as [Hx|Hx]; [left|now right].
          apply HO; [assumption|]. intros Heq. apply Hnc'. rewrite <- Heq. now apply in_map. }
        cbn [andb]. destruct (memb (sblk c) (wlent st)) eqn:Eml; cbn [negb].
        -- apply memb_In in Eml.
           assert (HcO : ~ In (sblk c) (wowned st)).
           { unfold wowned. rewrite filter_In. intros [_ Hn]. apply notin_true in Hn. tauto. }
           pose proof (einv_give_lent _ _ _ _ _ He3 HcO Eml) as Hg.
           destruct (wdrop_all_inv _ _ (wpend st) _ _ Hg Hnp (Hpd _ (fun x Hx _ => Hx))) as (O' & D1 & D2 & D3).
           assert (O' = []) as ->.
           { apply no_elements. intros x Hx. destruct (D3 x Hx) as [B1 B2]. unfold wowned in B1. apply filter_In in B1 as [B1 B1'].
             rewrite Hbl in B1. destruct B1 as [<-|B1]; [apply notin_true in B1'; tauto|tauto]. }
           apply winv_reset; [exact D1|intros; discriminate].
        -- apply memb_false in Eml.
           assert (HcO : In (sblk c) (wowned st)).
           { unfold wowned. apply filter_In. split; [rewrite Hbl; now left|now apply notin_true]. }
           pose proof (einv_give_owned _ _ _ _ _ He3 HcO) as Hg.
           assert (HnO : NoDup (wowned st)) by (destruct (einv_sep3 _ _ _ _ He3) as [Sn _ _]; now apply NoDup_app_l in Sn).
           destruct (wdrop_all_inv _ _ (wpend st) _ _ Hg Hnp
                       (Hpd _ (fun x Hx Hne => In_remove1_ne _ _ _ Hne Hx))) as (O' & D1 & D2 & D3).
           assert (O' = []) as ->.
           { apply no_elements. intros x Hx. destruct (D3 x Hx) as [B1 B2].
             apply In_remove1_iff in B1 as [B1 B1'']; [|assumption].
             unfold wowned in B1. apply filter_In in B1 as [B1 B1'].
             rewrite Hbl in B1. destruct B1 as [<-|B1]; tauto. }
           apply winv_reset; [exact D1|intros; discriminate].
      * cbn [andb]. destruct Ic as [Ic1 Ic2].
        assert (Hbl : wblocks st = []) by (unfold wblocks, curblk; rewrite Hb, Hs1, Ic2; reflexivity).
        rewrite Ic2. cbn [OwnWriter.drop_all].
        apply winv_reset; [|intros; discriminate]. unfold wowned in He3. now rewrite Hbl in He3.
    + (* everything goes back to the pool *)
      cbn [andb]. rewrite (Hnc eq_refl) in *.
      assert (Hown : wowned st = wblocks st) by (unfold wowned; rewrite (Hnc eq_refl); apply filter_notin_nil).
      rewrite Hown in He3.
      destruct (0 <? scp c) eqn:Hs1.
      * assert (Hp : 0 < scp c) by lia.
        assert (Hbl : wblocks st = sblk c :: map sblk (wpend st)) by (apply wblocks_cur; assumption).
        rewrite Hbl in He3. destruct Ic as (C1 & C2 & C3 & C4). destruct (C4 (fun x => x)) as [C5 C6].
        destruct (einv_free _ _ _ _ c He3 (or_introl eq_refl) C5 C6) as (F1 & [F2 _] & _).
        cbn [remove1] in F1, F2. rewrite Nat.eqb_refl in F1, F2.
        apply winv_reset; [|reflexivity].
        apply (wfree_all_inv _ (wpend st) []); [exact F1|].
        rewrite Forall_forall in *. intros p Hp'. destruct (Ip p Hp') as (P1 & P2 & P3 & P4).
        destruct (P4 (fun x => x)) as [P5 P6]. split; [assumption|].
        rewrite (F2 (sblk p)); [assumption|]. rewrite in_app_iff. left. now apply in_map.
      * destruct Ic as [Ic1 Ic2]. rewrite Ic2. cbn [OwnWriter.free_all].
        assert (Hbl : wblocks st = []) by (unfold wblocks, curblk; rewrite Hb, Hs1, Ic2; reflexivity).
        apply winv_reset; [|reflexivity]. now rewrite Hbl in He3.
Qed.

Lemma w_step_inv st e o st' e' ob : winv st e -> w_step st e o = (st', e', ob) -> winv st' e'.
Proof.
  intros Hi E. destruct o as [n|bs extra|k off data| |]; cbn [w_step] in E.
  - eapply h_malloc_inv; eassumption.
  - eapply h_writebinary_inv; eassumption.
  - destruct (h_fill st (ew e) k off data) as [[st1 w1]|] eqn:Ef; inversion E; subst; clear E; [|assumption].
    eapply h_fill_inv; eassumption.
  - eapply h_flush_inv; eassumption.
  - inversion E; subst; assumption.
Qed.

Lemma winv_env st e e' : ew e' = ew e -> eev e' = eev e -> winv st e -> winv st e'.
Proof.
  intros Hw Ht Hi. eapply winv_frame; [exact Hi| |rewrite Hw; apply same_on_refl].
  eapply einv_world; [exact Hw|exact Ht|exact (wv_e _ _ Hi)].
Qed.
Lemma winv_co st e l al adv padv : winv st e -> winv st (mkE (co_run (ew e) l) al adv padv (eev e)).
Proof.
  intros Hi. destruct (einv_co _ _ _ _ _ l al adv padv (wv_e _ _ Hi)) as [A [B _]].
  eapply winv_frame; eassumption.
Qed.

Lemma wrun_step_inv st w tr s st' w' tr' o :
  winv st (env_of w tr) -> wrun_step (st, w, tr) s = (st', w', tr', o) -> winv st' (env_of w' tr').
Proof.
  intros Hi E. destruct s as [op al adv padv|l]; cbn [wrun_step] in E.
  - destruct (w_step st (mkE w al adv padv tr) op) as [[st1 e1] out] eqn:Es. inversion E; subst; clear E.
    eapply winv_env; [| |eapply w_step_inv; [|exact Es]]; try reflexivity.
    eapply winv_env; [| |exact Hi]; reflexivity.
  - inversion E; subst; clear E. exact (winv_co _ _ l [] [] [] Hi).
Qed.

Lemma wrun_inv : forall h st w tr st' w' tr' outs,
  winv st (env_of w tr) -> wrun (st, w, tr) h = (st', w', tr', outs) -> winv st' (env_of w' tr').
Proof.
  induction h as [|s h IH]; intros st w tr st' w' tr' outs Hi E; cbn [wrun] in E.
  - inversion E; subst; assumption.
  - destruct (wrun_step (st, w, tr) s) as [[[st1 w1] tr1] o] eqn:Es.
    destruct (wrun (st1, w1, tr1) h) as [[[st2 w2] tr2] outs2] eqn:Er.
    inversion E; subst; clear E. eapply IH; [|exact Er]. eapply wrun_step_inv; eassumption.
Qed.

Lemma winv_new_writer failk w : xok X w -> winv (new_writer failk) (env_of w []).
Proof. intros (Wk & Sx & Hx). unfold new_writer. apply winv_reset; [exact (einv_init X w Wk Sx Hx)|reflexivity]. Qed.

Lemma winv_new_bytes_writer w isnil pre data spare st e :
  xok X w -> new_bytes_writer (env_of w []) isnil pre data spare = (st, e) -> winv st e.
Proof.
  intros (Wk & Sx & Hx) E. unfold new_bytes_writer in E. destruct (0 <? len data + len spare) eqn:Ec.
  - destruct (e_lend (env_of w []) (pre ++ data ++ spare) false) as [e1 b] eqn:El. inversion E; subst; clear E.
    destruct (einv_lend _ _ _ _ _ _ _ _ (einv_init X w Wk Sx Hx) El) as (A1 & A2 & A3 & A4 & A5).
    assert (Hs1 : 0 <? len data + len spare = true) by assumption.
    assert (Hnot : notin [b] b = false) by (unfold notin, memb; cbn; now rewrite Nat.eqb_refl).
    apply winv_of; unfold wowned, wblocks, curblk, wlen; cbn [wbuf wpend wlent wgiven wnocache wregs map app scp sblk sln].
    + rewrite Hs1. cbn [app filter]. rewrite Hnot. exact A1.
    + intros; discriminate.
    + rewrite Hs1. constructor; [intros []|constructor].
    + cbn [chain sln]. lia.
    + constructor; [cbn [glog gln]; lia|constructor].
    + constructor; [constructor|constructor].
    + split; cbn [wbuf wpend wlent wregs scp sln soff sblk].
      * rewrite Hs1. unfold buf_ok. cbn [scp sln soff sblk]. rewrite A3, !len_app. splits; try lia.
        intros H. exfalso. apply H. now left.
      * constructor.
      * constructor; [|constructor]. unfold reg_ok. cbn [gval gln gblk gphys glog]. split; [reflexivity|].
        destruct (N.eq_dec (len data) 0) as [Hz|Hnz]; [now left|right].
        eexists. splits; [reflexivity|cbn [scp]; lia| |].
        -- cbn [wpend reg_in]. unfold in_buf. cbn [gblk gphys glog gln sblk soff sln]. splits; try reflexivity; lia.
        -- unfold rd. rewrite A3. rewrite drop_app_len. now rewrite take_app_len.
  - inversion E; subst; clear E.
    apply winv_of; unfold wowned, wblocks, curblk, wlen; cbn [wbuf wpend wlent wgiven wnocache wregs map app scp sblk sln filter].
    + destruct isnil; cbn [scp N.ltb N.compare app filter]; exact (einv_init X w Wk Sx Hx).
    + intros; discriminate.
    + destruct isnil; cbn; constructor.
    + destruct isnil; [exact I|cbn [chain sln]; lia].
    + constructor.
    + constructor.
    + split; cbn [wbuf wpend wlent wregs]; try constructor.
      destruct isnil; [reflexivity|cbn [scp N.ltb N.compare sln]; split; reflexivity].
Qed.

(* ---------- what the invariant gives ---------- *)

Lemma winv_regions st e : winv st e ->
  ForallOrdPairs pdisj (wregs st) /\ Forall (region_held st (wh (ew e))) (wregs st).
Proof.
  intros Hi. pose proof Hi as [A B C D E F G G' H]. split.
  - (* logical disjointness + same buffer => physical disjointness *)
    assert (Himp : forall r r', In r (wregs st) -> In r' (wregs st) -> ldisj r r' -> pdisj r r').
    { intros r r' Hr Hr' Hd. unfold pdisj. rewrite Forall_forall in H.
      destruct (H r Hr) as [_ [Hz|(c & Hb & Hpos & Hin & _)]]; [now left|].
      destruct (H r' Hr') as [_ [Hz'|(c' & Hb' & _ & Hin' & _)]]; [right; now left|].
      rewrite Hb in Hb'. inversion Hb'; subst c'.
      destruct (Nat.eq_dec (gblk r) (gblk r')) as [Heq|Hne]; [|right; right; now left].
      right. right. right.
      destruct (reg_in_buf _ _ _ _ Hin) as (bx & lx & Hbx & (I1 & I2 & I3 & I4)).
      destruct (reg_in_buf _ _ _ _ Hin') as (bt & lt & Hbt & (J1 & J2 & J3 & J4)).
      assert (Hnd : NoDup (map sblk (wpend st ++ [c]))).
      { rewrite (wblocks_cur _ _ Hb Hpos) in C. rewrite map_app. cbn [map].
        eapply Permutation_NoDup; [apply Permutation_cons_append|exact C]. }
      assert (bx = bt) by (eapply NoDup_map_inj; [exact Hnd|assumption|assumption|congruence]). subst bt.
      unfold ldisj in Hd. lia. }
    clear -G' Himp. induction G' as [|r l Hd Hl IH]; [constructor|].
    constructor.
    + rewrite Forall_forall in *. intros x Hx. apply Himp; [now left|now right|now apply Hd].
    + apply IH. intros x y Hx Hy. apply Himp; now right.
  - rewrite Forall_forall in *. intros r Hr. unfold region_held.
    destruct (H r Hr) as [_ [Hz|(c & Hb & Hpos & Hin & Hc)]]; [now left|right].
    split; [eapply reg_block_in; eassumption|split; [|assumption]].
    destruct (reg_in_buf _ _ _ _ Hin) as (bx & lx & Hbx & (I1 & I2 & I3 & I4)).
    assert (Hbok : buf_ok (wh (ew e)) (wlent st) bx).
    { rewrite Hb in D. assert (0 <? scp c = true) as Hs1 by lia. rewrite Hs1 in D.
      apply in_app_or in Hbx as [Hbx|[<-|[]]]; [|assumption]. now apply E. }
    destruct Hbok as (K1 & K2 & K3 & K4). rewrite I1. lia.
Qed.

Lemma winv_trace st e : winv st e ->
  no_use_after_free (rev (eev e)) /\ caller_untouched (rev (eev e)) /\ frees_whole_blocks (rev (eev e)).
Proof.
  intros Hi. destruct (wv_e _ _ Hi) as [_ _ (m & Hm & _) _]. eapply montr_spec; eassumption.
Qed.

End WithX.

(* ---------- the theorems ---------- *)
Theorem writer_regions_disjoint_stable failk w0 h st w tr outs :
  wok w0 -> wrun (new_writer failk, w0, []) h = (st, w, tr, outs) ->
  ForallOrdPairs pdisj (wregs st) /\ Forall (region_held st (wh w)) (wregs st).
Proof.
  intros Wk E. pose proof (wrun_inv [] _ _ _ _ _ _ _ _ (winv_new_writer [] failk w0 (xok_nil w0 Wk)) E) as Hi.
  exact (winv_regions [] _ _ Hi).
Qed.
Theorem writer_flush_content failk w0 h st w tr outs al adv padv st' e' ob content :
  wok w0 -> wrun (new_writer failk, w0, []) h = (st, w, tr, outs) ->
  h_flush st (mkE w al adv padv tr) = (st', e', ob) -> oflushed ob = Some content ->
  flush_content_ok st content.
Proof.
  intros Wk E Ef Hc. pose proof (wrun_inv [] _ _ _ _ _ _ _ _ (winv_new_writer [] failk w0 (xok_nil w0 Wk)) E) as Hi.
  assert (Hi' : winv [] st (mkE w al adv padv tr)) by (eapply winv_env; [| |exact Hi]; reflexivity).
  destruct (h_flush_inv [] _ _ _ _ _ Hi' Ef) as [_ H]. now apply H.
Qed.
Theorem writer_trace_ok failk w0 h st w tr outs :
  wok w0 -> wrun (new_writer failk, w0, []) h = (st, w, tr, outs) ->
  no_use_after_free (rev tr) /\ caller_untouched (rev tr) /\ frees_whole_blocks (rev tr).
Proof.
  intros Wk E. pose proof (wrun_inv [] _ _ _ _ _ _ _ _ (winv_new_writer [] failk w0 (xok_nil w0 Wk)) E) as Hi.
  exact (winv_trace [] _ _ Hi).
Qed.

Lemma bytes_writer_inv w0 isnil pre data spare st0 e0 h st w tr outs :
  wok w0 -> new_bytes_writer (env_of w0 []) isnil pre data spare = (st0, e0) ->
  wrun (st0, ew e0, eev e0) h = (st, w, tr, outs) -> winv [] st (env_of w tr).
Proof.
  intros Wk E0 E. pose proof (winv_new_bytes_writer [] _ _ _ _ _ _ _ (xok_nil w0 Wk) E0) as Hi0.
  assert (Hi0' : winv [] st0 (env_of (ew e0) (eev e0))) by (eapply winv_env; [| |exact Hi0]; reflexivity).
  exact (wrun_inv [] _ _ _ _ _ _ _ _ Hi0' E).
Qed.
Theorem bytes_writer_regions_disjoint_stable w0 isnil pre data spare st0 e0 h st w tr outs :
  wok w0 -> new_bytes_writer (env_of w0 []) isnil pre data spare = (st0, e0) ->
  wrun (st0, ew e0, eev e0) h = (st, w, tr, outs) ->
  ForallOrdPairs pdisj (wregs st) /\ Forall (region_held st (wh w)) (wregs st).
Proof. intros Wk E0 E. exact (winv_regions [] _ _ (bytes_writer_inv _ _ _ _ _ _ _ _ _ _ _ _ Wk E0 E)). Qed.
Theorem bytes_writer_flush_content w0 isnil pre data spare st0 e0 h st w tr outs al adv padv st' e' ob content :
  wok w0 -> new_bytes_writer (env_of w0 []) isnil pre data spare = (st0, e0) ->
  wrun (st0, ew e0, eev e0) h = (st, w, tr, outs) ->
  h_flush st (mkE w al adv padv tr) = (st', e', ob) -> oflushed ob = Some content ->
  flush_content_ok st content.
Proof.
  intros Wk E0 E Ef Hc. pose proof (bytes_writer_inv _ _ _ _ _ _ _ _ _ _ _ _ Wk E0 E) as Hi.
  assert (Hi' : winv [] st (mkE w al adv padv tr)) by (eapply winv_env; [| |exact Hi]; reflexivity).
  destruct (h_flush_inv [] _ _ _ _ _ Hi' Ef) as [_ H]. now apply H.
Qed.
Theorem bytes_writer_trace_ok w0 isnil pre data spare st0 e0 h st w tr outs :
  wok w0 -> new_bytes_writer (env_of w0 []) isnil pre data spare = (st0, e0) ->
  wrun (st0, ew e0, eev e0) h = (st, w, tr, outs) ->
  no_use_after_free (rev tr) /\ caller_untouched (rev tr) /\ frees_whole_blocks (rev tr).
Proof. intros Wk E0 E. exact (winv_trace [] _ _ (bytes_writer_inv _ _ _ _ _ _ _ _ _ _ _ _ Wk E0 E)). Qed.
