(* Proofs/C02P.v — exactness of the skippers on well-typed values (C02): composition of
   GrammarP.gparse_enc (the grammar parses enc v ++ rest with extent |enc v| and height ch v),
   RefP.ref_agrees (height < 64: every reference instance accepts with the same extent) and the
   refinement theorems *_is_ref of each skipper model. *)
From Coq Require Import ZifyN ZifyNat ZifyBool Lia.
From GV Require Import Lib.Bytes Lib.Res Gen.Consts Spec.ThriftGrammar Spec.RefParse.
From GV Require Import Model.Binary Model.Skip.
From GV Require Import Proofs.GrammarP Proofs.RefLib Proofs.RefP Proofs.SkipLib Proofs.SkipP.
Open Scope N_scope.

(* every reference instance accepts enc v ++ rest with extent |enc v| when ch v <= 63 *)
Lemma ref_exact i t v rest :
  wt t v = true -> (ch v <= 63)%nat -> refparse i 64 t (enc v ++ rest) = Ok (len (enc v)).
Proof.
  intros Hw Hc. apply (ref_agrees i 64 t _ _ (ch v)); [apply gparse_enc; exact Hw|lia].
Qed.

(* Binary.Skip *)
Lemma bskip_exact t v rest :
  wt t v = true -> (ch v <= 63)%nat -> wf rest ->
  binary_skip (enc v ++ rest) t = Ok (len (enc v)).
Proof.
  intros Hw Hc Hr.
  apply bskip_is_ref; [apply wf_app; [exact (enc_wf v t Hw)|exact Hr]|exact (wt_lt256 t v Hw)|].
  apply ref_exact; assumption.
Qed.
