(* Proofs/TskipExactP.v — exactness of the generic skip template on encodings of well-typed
   trees, for every SkipN instance satisfying the positive contract, with no bound on what
   follows the value; then the three decoders' Next. *)
From GV Require Import Lib.Bytes Lib.Res Gen.Consts Model.Binary Model.BufReader Model.Skip Model.SkipDecoders
  Spec.ThriftGrammar Spec.RefParse Proofs.RefLib Proofs.RefP Proofs.SkipLib Proofs.GrammarP Proofs.TskipAcceptP Proofs.ReadFullP.
From Coq Require Import ZifyN ZifyNat ZifyBool Lia.
Open Scope N_scope.

(* ---------- exactness on encodings, for every SkipN instance ---------- *)

Lemma rp_enc i t v rest :
  wt t v = true -> (ch v <= 63)%nat -> rp i 64 t (enc v ++ rest) = Ok (len (enc v), ch v).
Proof.
  intros Hw Hc. apply (rp_complete i (S (length (enc v ++ rest))) 64); [|lia].
  apply gp_enc; [exact Hw|lia].
Qed.

Section Exact.
  Variable St : Type.
  Variable skipN : St -> N -> sres St bytes.
  Variable Rep : St -> bytes -> Prop.       (* "state s will deliver exactly r next" *)
  Hypothesis SN_ok : forall s r n, Rep s r -> n <= len r ->
    exists s', skipN s n = (s', Ok (take n r)) /\ Rep s' (drop n r).
  Hypothesis Rep_wf : forall s r, Rep s r -> wf r.

  (* the same state seen as "will deliver r, and then tail" *)
  Definition RepT (tail : bytes) (s : St) (r : bytes) : Prop := Rep s (r ++ tail).

  Lemma RepT_SN_ok tail : forall s r n, RepT tail s r -> n <= len r ->
    exists s', skipN s n = (s', Ok (take n r)) /\ RepT tail s' (drop n r).
  Proof.
    intros s r n HR Hn. unfold RepT in *.
    destruct (SN_ok s (r ++ tail) n HR ltac:(rewrite len_app; lia)) as [s' [E HR']].
    exists s'. rewrite take_app_le in E by exact Hn. rewrite drop_app_le in HR' by exact Hn.
    split; assumption.
  Qed.

  Lemma RepT_wf tail : forall s r, RepT tail s r -> wf r.
  Proof.
    intros s r HR. apply Rep_wf in HR. unfold wf in *. apply Forall_app in HR. apply HR.
  Qed.

  (* the template skips exactly enc v, whatever follows and however long the stream is *)
  Theorem tskip_exact fu s t v tail :
    Rep s (enc v ++ tail) -> wt t v = true -> (ch v <= 63)%nat -> (length (enc v) < fu)%nat ->
    exists s', tskip skipN 64 fu s t = (s', Ok tt) /\ Rep s' tail.
  Proof.
    intros HR Hw Hc Hfu.
    pose proof (tskip_acc St skipN (RepT tail) (RepT_SN_ok tail) (RepT_wf tail) fu 64 s (enc v) t
                  HR (wt_lt256 t v Hw) Hfu) as T.
    assert (Hrp : rp inl_none 64 t (enc v) = Ok (len (enc v), ch v)).
    { rewrite <- (app_nil_r (enc v)) at 1. apply rp_enc; assumption. }
    rewrite Hrp in T. unfold tacc in T. destruct T as [s' [E HR']].
    exists s'. split; [exact E|].
    pose proof (drop_app_len (enc v) []) as D. rewrite app_nil_r in D.
    unfold RepT in HR'. rewrite D in HR'. exact HR'.
  Qed.
End Exact.

(* ================= BytesSkipDecoder ================= *)
(* the representation predicate and its contract are those of Proofs/SkipDecodersP.v (bs_rep,
   bs_SN_ok), restated here so that this file does not depend on the two-sided development *)
Definition bsx_rep (b0 : bytes) (s : bs_state) (r : bytes) : Prop :=
  bs_b s = b0 /\ bs_n s <= len b0 /\ r = drop (bs_n s) b0 /\ wf b0.

Lemma bsx_SN_ok b0 : forall s r n, bsx_rep b0 s r -> n <= len r ->
  exists s', bs_skipN s n = (s', Ok (take n r)) /\ bsx_rep b0 s' (drop n r).
Proof.
  intros s r n (Hb & Hn & Hr & W) Hle. subst r. rewrite len_drop in Hle.
  unfold bs_skipN. rewrite Hb.
  destruct (N.leb_spec (bs_n s + n) (len b0)); [|lia].
  eexists. split.
  - f_equal. unfold slice_range.
    destruct (N.leb_spec (bs_n s + n - n) (bs_n s + n)); [|lia].
    destruct (N.leb_spec (bs_n s + n) (len b0)); [|lia]. cbn [andb].
    replace (bs_n s + n - (bs_n s + n - n)) with n by lia.
    replace (bs_n s + n - n) with (bs_n s) by lia. reflexivity.
  - unfold bsx_rep. cbn [bs_b bs_n]. repeat split; try assumption; try lia.
    rewrite drop_plus. reflexivity.
Qed.

Lemma bsx_rep_wf b0 : forall s r, bsx_rep b0 s r -> wf r.
Proof. intros s r (_ & _ & -> & W). apply wf_drop, W. Qed.

(* BytesSkipDecoder.Next on enc v ++ rest: returns exactly enc v and keeps exactly rest *)
Theorem bs_next_exact t v rest :
  wt t v = true -> (ch v <= 63)%nat -> wf rest ->
  bs_next (bs_new (enc v ++ rest)) t = ({| bs_b := rest; bs_n := 0 |}, Ok (enc v)).
Proof.
  intros Hw Hc Wr. set (b := enc v ++ rest).
  assert (Wb : wf b) by (apply wf_app; [exact (enc_wf v t Hw)|exact Wr]).
  unfold bs_next, bs_next_depth. rewrite depth_ok. change (bs_b (bs_new b)) with b.
  change {| bs_b := b; bs_n := 0 |} with (bs_new b).
  assert (HR : bsx_rep b (bs_new b) (enc v ++ rest)).
  { unfold bsx_rep, bs_new. cbn [bs_b bs_n]. repeat split; try assumption; try lia. }
  destruct (tskip_exact bs_state bs_skipN (bsx_rep b) (bsx_SN_ok b) (bsx_rep_wf b)
              (S (length b)) (bs_new b) t v rest HR Hw Hc) as [s' [E (Hb & Hn & Hr & _)]].
  { unfold b. rewrite app_length. lia. }
  rewrite E. cbn [sbind].
  assert (Hnn : bs_n s' = len (enc v)).
  { apply (f_equal len) in Hr. rewrite len_drop in Hr. unfold b in Hr, Hn. rewrite len_app in Hr, Hn. lia. }
  rewrite Hb, Hnn. unfold slice_range, slice_from, sret.
  destruct (N.leb_spec 0 (len (enc v))); [|lia].
  destruct (N.leb_spec (len (enc v)) (len b)); [|unfold b in *; rewrite len_app in *; lia].
  cbn [andb bind sbind fst snd]. rewrite N.sub_0_r. unfold b.
  change (drop 0 (enc v ++ rest)) with (enc v ++ rest).
  rewrite take_app_len, drop_app_len. reflexivity.
Qed.

(* ================= ReaderSkipDecoder ================= *)
Lemma rf_SN_ok0' d0 p0 : forall s r n, rf_rep0 d0 p0 s r -> n <= len r ->
  exists s', rf_skipN s n = (s', Ok (take n r)) /\ rf_rep0 d0 p0 s' (drop n r).
Proof.
  intros s r n H Hn. destruct (rf_SN_ok0 d0 p0 s r n H Hn) as (s' & E & H' & _). eauto.
Qed.

(* ReaderSkipDecoder.Next when the underlying io.Reader is about to deliver enc v ++ rest — for
   EVERY fragmentation script (1-byte reads, empty reads, chunks larger than requested), every
   final error and whether or not it accompanies the last bytes: Next returns exactly enc v and
   the reader has been advanced by exactly |enc v| (nothing beyond the value was read). *)
Theorem rf_next_exact (s : rf_state) t v rest :
  spos (rf_src s) <= len (sdata (rf_src s)) -> wf (sdata (rf_src s)) ->
  drop (spos (rf_src s)) (sdata (rf_src s)) = enc v ++ rest ->
  wt t v = true -> (ch v <= 63)%nat ->
  exists s', rf_next s t = (s', Ok (enc v)) /\
             sdata (rf_src s') = sdata (rf_src s) /\
             spos (rf_src s') = spos (rf_src s) + len (enc v) /\
             drop (spos (rf_src s')) (sdata (rf_src s')) = rest.
Proof.
  intros Hle W Hd Hw Hc.
  set (d0 := sdata (rf_src s)) in *. set (p0 := spos (rf_src s)) in *.
  unfold rf_next, rf_next_depth. rewrite depth_ok.
  set (s0 := {| rf_src := rf_src s; rf_n := 0; rf_buf := []; rf_len := rf_len s |}).
  assert (HR : rf_rep0 d0 p0 s0 (enc v ++ rest)).
  { unfold rf_rep0, s0. cbn [rf_src rf_n rf_buf]. fold d0 p0. repeat split; auto; try lia. }
  assert (Hlen : len (enc v) + len rest = len d0 - p0).
  { rewrite <- len_app, <- Hd. apply drop_len. exact Hle. }
  destruct (tskip_exact rf_state rf_skipN (rf_rep0 d0 p0) (rf_SN_ok0' d0 p0) (rf_rep0_wf d0 p0)
              (S (length d0)) s0 t v rest HR Hw Hc) as [s1 [E (H1 & H2 & H3 & H4 & H5 & _)]].
  { unfold len in Hlen. lia. }
  fold d0. rewrite E. cbn [sbind].
  assert (Hn1 : rf_n s1 = len (enc v)).
  { apply (f_equal len) in H4. rewrite drop_len in H4 by exact H3. lia. }
  exists s1. rewrite H5, Hn1, Hd, take_app_len. split; [reflexivity|].
  split; [exact H1|]. split; [rewrite H2, Hn1; reflexivity|]. rewrite H1. symmetry. exact H4.
Qed.

(* a freshly reset decoder over a source that starts at enc v ++ rest (the D6 shape is the
   instance: v = I32 5, rest = [], one chunk, swith = true, sfinal = io.EOF) *)
Corollary rf_next_exact_new src blen t v rest :
  spos src = 0 -> wf (sdata src) -> sdata src = enc v ++ rest ->
  wt t v = true -> (ch v <= 63)%nat ->
  exists s', rf_next (rf_new src blen) t = (s', Ok (enc v)) /\ spos (rf_src s') = len (enc v).
Proof.
  intros Hp W Hd Hw Hc.
  destruct (rf_next_exact (rf_new src blen) t v rest) as (s' & E & _ & Hp' & _); cbn [rf_new rf_src]; auto.
  - rewrite Hp. lia.
  - rewrite Hp. exact Hd.
  - exists s'. split; [exact E|]. cbn [rf_new rf_src] in Hp'. rewrite Hp' , Hp. lia.
Qed.
