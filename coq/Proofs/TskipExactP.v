(* Proofs/TskipExactP.v — exactness of the generic skip template on encodings of well-typed
   trees, for every SkipN instance satisfying the positive contract, with no bound on what
   follows the value; then the three decoders' Next. *)
From GV Require Import Lib.Bytes Lib.Res Gen.Consts Model.Binary Model.BufReader Model.Skip Model.SkipDecoders
  Spec.ThriftGrammar Spec.RefParse Proofs.RefLib Proofs.RefP Proofs.SkipLib Proofs.GrammarP Proofs.TskipAcceptP.
From Coq Require Import ZifyN ZifyNat ZifyBool Lia.
Open Scope N_scope.

(* ---------- exactness on encodings, for every SkipN instance ---------- *)

Lemma rp_enc i t v rest :
  wt t v = true -> (ch v <= 63)%nat -> rp i 64 t (enc v ++ rest) = Ok (len (enc v), ch v).
Proof.
  intros Hw Hc. apply (rp_complete i (S (length (enc v ++ rest))) 64); [|lia].
  apply gp_enc; [exact Hw|lia].
Qed.

Section Exact.
  Variable St : Type.
  Variable skipN : St -> N -> sres St bytes.
  Variable Rep : St -> bytes -> Prop.       (* "state s will deliver exactly r next" *)
  Hypothesis SN_ok : forall s r n, Rep s r -> n <= len r ->
    exists s', skipN s n = (s', Ok (take n r)) /\ Rep s' (drop n r).
  Hypothesis Rep_wf : forall s r, Rep s r -> wf r.

  (* the same state seen as "will deliver r, and then tail" *)
  Definition RepT (tail : bytes) (s : St) (r : bytes) : Prop := Rep s (r ++ tail).

  Lemma RepT_SN_ok tail : forall s r n, RepT tail s r -> n <= len r ->
    exists s', skipN s n = (s', Ok (take n r)) /\ RepT tail s' (drop n r).
  Proof.
    intros s r n HR Hn. unfold RepT in *.
    destruct (SN_ok s (r ++ tail) n HR ltac:(rewrite len_app; lia)) as [s' [E HR']].
    exists s'. rewrite take_app_le in E by exact Hn. rewrite drop_app_le in HR' by exact Hn.
    split; assumption.
  Qed.

  Lemma RepT_wf tail : forall s r, RepT tail s r -> wf r.
  Proof.
    intros s r HR. apply Rep_wf in HR. unfold wf in *. apply Forall_app in HR. apply HR.
  Qed.

  (* the template skips exactly enc v, whatever follows and however long the stream is *)
  Theorem tskip_exact fu s t v tail :
    Rep s (enc v ++ tail) -> wt t v = true -> (ch v <= 63)%nat -> (length (enc v) < fu)%nat ->
    exists s', tskip skipN 64 fu s t = (s', Ok tt) /\ Rep s' tail.
  Proof.
    intros HR Hw Hc Hfu.
    pose proof (tskip_acc St skipN (RepT tail) (RepT_SN_ok tail) (RepT_wf tail) fu 64 s (enc v) t
                  HR (wt_lt256 t v Hw) Hfu) as T.
    assert (Hrp : rp inl_none 64 t (enc v) = Ok (len (enc v), ch v)).
    { rewrite <- (app_nil_r (enc v)) at 1. apply rp_enc; assumption. }
    rewrite Hrp in T. unfold tacc in T. destruct T as [s' [E HR']].
    exists s'. split; [exact E|].
    pose proof (drop_app_len (enc v) []) as D. rewrite app_nil_r in D.
    unfold RepT in HR'. rewrite D in HR'. exact HR'.
  Qed.
End Exact.
