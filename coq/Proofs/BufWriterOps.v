(* Proofs/BufWriterOps.v — each writer operation preserves the invariant and acts on the logical
   string [Lof] as the Log specification says (property C05). *)
From GV Require Import Lib.Bytes Lib.Res Lib.Heap Gen.Consts Spec.Log Model.BufWriter
  Proofs.BufWriterLib Proofs.BufWriterP Proofs.BufWriterInv.
From Coq Require Import ZifyN ZifyNat ZifyBool.
Open Scope N_scope.

Lemma region_owned_same st st' r :
  cur st' = cur st -> pend st' = pend st -> region_owned st r -> region_owned st' r.
Proof. unfold region_owned. intros -> ->. auto. Qed.

(* ---------- Malloc ---------- *)
Lemma malloc_ok dirty st n :
  Inv st -> werr st = None -> (0 <= n)%Z ->
  exists st' r d, malloc dirty st n = Ok (st', r) /\ Inv st' /\
    Lof st' = Lof st ++ d /\ len d = Z.to_N n /\
    cur_len st' = cur_len st + Z.to_N n /\
    live st' = r :: live st /\ roff r = cur_len st /\ rlen r = Z.to_N n /\
    same_aux st st' /\
    (cur st' = None <-> cur st = None /\ Z.to_N n = 0) /\ tgt_pres st st'.
Proof.
  intros HI Herr Hn. unfold malloc. rewrite Herr.
  destruct (Z.ltb_spec n 0) as [Hneg|_]; [exfalso; lia|].
  remember (Z.to_N n) as m eqn:Em.
  destruct (acquire_ok dirty st m HI) as (st1 & E & HP & Hn0). rewrite E. cbn [bind].
  destruct HP as (HI1 & HL1 & Hl1 & Hroom & Haux & Hlive & Hnone & Htp).
  destruct (N.leb_spec (cur_len st1 + m) (cur_cap st1)) as [_|Hbad]; [|exfalso; lia].
  pose proof HI1 as [Hc1 Hcap1 Hown1 Hrch1].
  unfold cur_len at 1 in Hl1. unfold cur_len in Hroom, Hrch1. unfold cur_cap in Hroom, Hcap1. unfold Lof at 1 in HL1.
  destruct (cur st1) as [[c l]|] eqn:Ec.
  - exists (with_live (with_mem st1 (store st1) (Some (c, l + m)) (pend st1)) (mkreg c l m :: live st1)),
      (mkreg c l m), (take m (drop l (block (store st1) c))).
    split; [reflexivity|].
    split; [|split; [|split; [|split; [|split; [|split; [|split; [|split; [|split]]]]]]]].
    + constructor; simp_st.
      * apply chain_bump; assumption.
      * unfold cur_cap. simp_st. exact Hcap1.
      * constructor.
        -- unfold region_owned. simp_st. cbn [rid roff rlen]. intros _. eapply owns_new. exact Hc1.
        -- eapply Forall_impl; [|exact Hown1]. intros r Hr. unfold region_owned in *. simp_st.
           rewrite Ec in Hr. intros Hpos. eapply owns_bump; [now apply Hr | lia].
      * cbn [rchain roff rlen]. unfold cur_len. simp_st. split; [lia | exact Hrch1].
    + unfold Lof at 1. simp_st. rewrite (stitched_bump _ _ _ _ _ _ Hc1). now rewrite HL1.
    + rewrite len_take, len_drop. lia.
    + unfold cur_len at 1. simp_st. lia.
    + simp_st. now rewrite Hlive.
    + cbn [roff]. exact Hl1.
    + reflexivity.
    + exact Haux.
    + simp_st. split; [discriminate|]. intros (Hcn & Hm0). specialize (Hn0 Hm0). subst st1. congruence.
    + eapply tgt_pres_trans; [exact Htp|]. intros b tl Hok. split; [|reflexivity].
      destruct Hok as [->|[(Hlt & Hnin)|(Hh & Hall)]].
      * left; reflexivity.
      * right; left. unfold cblocks in *. simp_st. rewrite Ec in Hnin. split; assumption.
      * destruct (head_at_facts _ _ _ HI1 Hh) as (_ & Htl & _). unfold cur_len in Htl. rewrite Ec in Htl.
        right; right. split.
        -- unfold head_at in *. simp_st. rewrite Ec in Hh.
           destruct (pend st1) as [|[pb lb] rest]; [|exact Hh]. destruct Hh as (-> & Hh). split; [reflexivity | lia].
        -- simp_st. constructor; [cbn [roff]; exact Htl | exact Hall].
  - assert (Hm0 : m = 0) by lia.
    exists (with_live st1 (mkreg O 0 0 :: live st1)), (mkreg O 0 0), [].
    split; [reflexivity|].
    split; [|split; [|split; [|split; [|split; [|split; [|split; [|split; [|split]]]]]]]].
    + constructor; simp_st.
      * rewrite Ec. exact Hc1.
      * unfold cur_cap. simp_st. rewrite Ec. exact Hcap1.
      * constructor.
        -- unfold region_owned. cbn [rlen]. intros H. exfalso. lia.
        -- eapply Forall_impl; [|exact Hown1]. intros r Hr. eapply region_owned_same; [| |exact Hr]; reflexivity.
      * cbn [rchain roff rlen]. unfold cur_len. simp_st. rewrite Ec. split; [lia | exact Hrch1].
    + unfold Lof at 1. simp_st. rewrite Ec. rewrite app_nil_r. exact HL1.
    + rewrite Hm0. reflexivity.
    + unfold cur_len at 1. simp_st. rewrite Ec. lia.
    + simp_st. now rewrite Hlive.
    + cbn [roff]. exact Hl1.
    + cbn [rlen]. lia.
    + exact Haux.
    + simp_st. rewrite Ec. split; [intros _; split; [now apply Hnone | exact Hm0] | reflexivity].
    + eapply tgt_pres_trans; [exact Htp|]. intros b tl Hok. split; [|reflexivity].
      destruct Hok as [->|[(Hlt & Hnin)|(Hh & Hall)]].
      * left; reflexivity.
      * right; left. unfold cblocks in *. simp_st. split; assumption.
      * exfalso. unfold head_at in Hh. rewrite Ec in Hh. rewrite Hc1 in Hh. exact Hh.
Qed.

Lemma malloc_err dirty st n e : werr st = Some e -> malloc dirty st n = Err e.
Proof. intros H. unfold malloc. now rewrite H. Qed.

Lemma malloc_neg dirty st n : werr st = None -> (n < 0)%Z -> malloc dirty st n = Err E_NEG.
Proof. intros H Hn. unfold malloc. rewrite H. destruct (Z.ltb_spec n 0); [reflexivity | lia]. Qed.

(* ---------- WriteBinary ---------- *)
Lemma write_binary_ok dirty st bs :
  Inv st -> werr st = None ->
  exists st', write_binary dirty st bs = Ok (st', len bs) /\ Inv st' /\
    Lof st' = Lof st ++ bs /\
    cur_len st' = cur_len st + len bs /\
    live st' = live st /\ same_aux st st' /\
    (cur st' = None <-> cur st = None /\ len bs = 0) /\ tgt_pres st st'.
Proof.
  intros HI Herr. unfold write_binary. rewrite Herr.
  remember (len bs) as m eqn:Em.
  destruct (acquire_ok dirty st m HI) as (st1 & E & HP & Hn0). rewrite E. cbn [bind].
  destruct HP as (HI1 & HL1 & Hl1 & Hroom & Haux & Hlive & Hnone & Htp).
  replace (N.min (cur_cap st1 - cur_len st1) m) with m by lia.
  pose proof HI1 as [Hc1 Hcap1 Hown1 Hrch1].
  unfold cur_len at 1 in Hl1. unfold cur_len in Hroom, Hrch1. unfold cur_cap in Hroom, Hcap1. unfold Lof at 1 in HL1.
  destruct (cur st1) as [[c l]|] eqn:Ec.
  - rewrite (take_all bs m) by lia.
    destruct (chain_cur _ _ _ _ _ Hc1) as (_ & Hcl).
    pose proof (chain_bump _ _ m _ _ _ Hc1 Hroom) as Hcb.
    pose proof (owns_new _ _ m _ _ _ Hc1) as Hon.
    eexists. split; [reflexivity|].
    split; [|split; [|split; [|split; [|split; [|split]]]]].
    + constructor; simp_st.
      * apply chain_fill; [exact Hcb | exact Hcl | rewrite <- Em; lia].
      * unfold cur_cap. simp_st. rewrite len_block_write; [exact Hcap1 | exact Hcl | rewrite <- Em; lia].
      * eapply Forall_impl; [|exact Hown1]. intros r Hr. unfold region_owned in *. simp_st.
        rewrite Ec in Hr. intros Hpos. eapply owns_bump; [now apply Hr | lia].
      * unfold cur_len. simp_st.
        destruct (live st1) as [|r0 rs]; [exact I|]. cbn [rchain] in *. split; [lia | tauto].
    + unfold Lof at 1. simp_st.
      rewrite stitched_fill; [|exact Hcb | rewrite <- Em; exact Hon].
      rewrite (stitched_bump _ _ _ _ _ _ Hc1), HL1, N.sub_0_r.
      pose proof (Lof_len _ HI) as HLl.
      assert (Hd : len (take m (drop l (block (store st1) c))) = len bs) by (rewrite len_take, len_drop; lia).
      revert Hd. generalize (take m (drop l (block (store st1) c))) as d. intros d Hd.
      rewrite Hl1, <- HLl. now apply psplice_tail.
    + unfold cur_len at 1. simp_st. lia.
    + simp_st. exact Hlive.
    + exact Haux.
    + simp_st. split; [discriminate|]. intros (Hcn & Hm0). specialize (Hn0 Hm0). subst st1. congruence.
    + eapply tgt_pres_trans; [exact Htp|]. intros b tl Hok.
      destruct Hok as [->|[(Hlt & Hnin)|(Hh & Hall)]].
      * split; [left; reflexivity | reflexivity].
      * assert (Hbc : b <> c).
        { intros ->. apply Hnin. unfold cblocks. rewrite Ec. apply in_or_app. right. left. reflexivity. }
        split.
        -- right; left. unfold cblocks in *. simp_st. rewrite Ec in Hnin. rewrite length_write. split; assumption.
        -- simp_st. now rewrite block_write_ne.
      * destruct (head_at_facts _ _ _ HI1 Hh) as (_ & Htl & _). unfold cur_len in Htl. rewrite Ec in Htl.
        split.
        -- right; right. split; [|simp_st; exact Hall].
           unfold head_at in *. simp_st. rewrite Ec in Hh.
           destruct (pend st1) as [|[pb lb] rest]; [|exact Hh]. destruct Hh as (-> & Hh). split; [reflexivity | lia].
        -- simp_st. destruct (Nat.eq_dec b c) as [->|Hbc]; [|now rewrite block_write_ne].
           rewrite block_write_eq by assumption. apply take_psplice_after; lia.
  - assert (Hm0 : m = 0) by lia.
    assert (Hbs : bs = []) by (destruct bs; [reflexivity | rewrite len_cons in Em; lia]).
    exists st1. split; [now rewrite Hm0|].
    split; [exact HI1|]. split; [|split; [|split; [|split; [|split]]]].
    + unfold Lof at 1. rewrite Ec, Hbs, app_nil_r. exact HL1.
    + unfold cur_len at 1. rewrite Ec. lia.
    + exact Hlive.
    + exact Haux.
    + rewrite Ec. split; [intros _; split; [now apply Hnone | exact Hm0] | reflexivity].
    + exact Htp.
Qed.

Lemma write_binary_err dirty st bs e : werr st = Some e -> write_binary dirty st bs = Err e.
Proof. intros H. unfold write_binary. now rewrite H. Qed.

(* ---------- the caller's store ---------- *)
Lemma region_at_in st k r : region_at st k = Some r -> In r (live st).
Proof.
  unfold region_at. destruct (k <? nstale st)%nat; [discriminate|].
  intros H. apply nth_error_In in H. now apply in_rev.
Qed.

Lemma with_mem_id st : with_mem st (store st) (cur st) (pend st) = st.
Proof. destruct st. reflexivity. Qed.

Lemma fill_ok st k off data st' :
  Inv st -> fill st k off data = Some st' ->
  exists r, region_at st k = Some r /\ off + len data <= rlen r /\ roff r + rlen r <= cur_len st /\
    Inv st' /\ Lof st' = psplice (Lof st) (roff r + off) data /\
    cur st' = cur st /\ live st' = live st /\ same_aux st st' /\ tgt_pres st st'.
Proof.
  intros HI. unfold fill. destruct (region_at st k) as [r|] eqn:Er; [|discriminate].
  destruct (N.leb_spec (off + len data) (rlen r)) as [Hle|]; [|discriminate].
  intros H. assert (Hst : st' = with_mem st (write (store st) (rid r, roff r + off) data) (cur st) (pend st)) by congruence.
  subst st'; clear H.
  pose proof (region_at_in _ _ _ Er) as Hin.
  pose proof HI as [Hc Hcap Hown Hrch].
  pose proof (rchain_bound _ _ _ Hrch Hin) as Hb.
  exists r. split; [reflexivity|]. split; [exact Hle|]. split; [exact Hb|].
  destruct data as [|x data'] eqn:Ed.
  - rewrite write_nil, with_mem_id. split; [exact HI|]. rewrite psplice_nil. repeat split; auto.
  - rewrite <- Ed in *. assert (Hpos : 0 < len data) by (rewrite Ed, len_cons; lia).
    rewrite Forall_forall in Hown. pose proof (Hown r Hin) as Hr. unfold region_owned in Hr.
    unfold cur_len in Hb.
    destruct (cur st) as [[c l]|] eqn:Ec; [|exfalso; apply Hr; lia].
    assert (Ho : owns (pend st) 0 c l (rid r) (roff r + off) (roff r + off + len data)).
    { eapply owns_sub; [apply Hr; lia | lia | lia]. }
    destruct (owns_bound _ _ _ _ _ _ _ _ Hc Ho) as (Hid & Hbd).
    split; [|split; [|split; [|split; [|split]]]].
    + constructor; simp_st; try rewrite Ec.
      * now apply chain_fill.
      * unfold cur_cap in *. simp_st. rewrite Ec in *. rewrite len_block_write by assumption.
        exact Hcap.
      * apply Forall_forall. intros r' Hr'. eapply region_owned_same; [| |exact (Hown r' Hr')]; simp_st; congruence.
      * unfold cur_len in *. simp_st. rewrite Ec in *. exact Hrch.
    + unfold Lof. simp_st. rewrite Ec. rewrite stitched_fill by assumption. now rewrite N.sub_0_r.
    + simp_st. congruence.
    + reflexivity.
    + repeat split.
    + intros b tl Hok.
      pose proof (owns_in _ _ _ _ _ _ _ Ho) as Hinb.
      destruct Hok as [->|[(Hlt & Hnin)|(Hh & Hall)]].
      * split; [left; reflexivity | reflexivity].
      * assert (Hbr : b <> rid r).
        { intros ->. apply Hnin. unfold cblocks. rewrite Ec. apply in_or_app.
          destruct Hinb as [Hi| ->]; [left; exact Hi | right; left; reflexivity]. }
        split.
        -- right; left. unfold cblocks in *. simp_st. rewrite length_write. rewrite Ec in Hnin. split; assumption.
        -- simp_st. now rewrite block_write_ne.
      * split.
        -- right; right. split; [|simp_st; exact Hall]. unfold head_at in *. simp_st. rewrite Ec in Hh. exact Hh.
        -- simp_st. destruct (Nat.eq_dec b (rid r)) as [->|Hbr]; [|now rewrite block_write_ne].
           rewrite block_write_eq by assumption.
           rewrite Forall_forall in Hall. specialize (Hall r Hin).
           apply take_psplice_after; lia.
Qed.

(* ---------- Flush ---------- *)
Lemma flush_err st e : werr st = Some e -> flush st = Ok (st, Some e, None).
Proof. intros H. unfold flush. now rewrite H. Qed.

Lemma flush_nil st : werr st = None -> cur st = None -> flush st = Ok (st, None, None).
Proof. intros H H1. unfold flush. now rewrite H, H1. Qed.

(* with a non-nil buffer the sink is offered exactly the logical string *)
Lemma flush_ok st c l :
  Inv st -> werr st = None -> cur st = Some (c, l) ->
  exists h', length h' = length (store st) /\ (forall j, len (block h' j) = len (block (store st) j)) /\
    (c < length h')%nat /\ take l (block h' c) = Lof st /\
    stitched h' (pend st) 0 c l = Lof st /\
    flush st =
    Ok (let '(k', e) := sink_write (sink st) (c, l) (Lof st) in
        match e with
        | Some e =>
          (mkw h' (cur st) (pend st) (Some e) (nocache st) (buckets st) (bidx st) k' (live st) (nstale st) (freed st),
           Some e, None)
        | None =>
          let cp := len (block h' c) in
          let '(bk, bi) := stat_update (buckets st) (bidx st) cp in
          let fr := if nocache st then []
                    else (if 0 <? cp then free1 h' c else []) ++ flat_map (fun p => free1 h' (fst p)) (pend st) in
          (mkw h' None [] None (nocache st) bk bi k' [] (nstale st + length (live st)) (freed st ++ fr),
           None, Some (Lof st))
        end).
Proof.
  intros HI Herr Ec. pose proof HI as [Hc _ _ _]. rewrite Ec in Hc.
  destruct (stitch_flush _ _ _ _ Hc) as (h' & off & E & Et & Eo & En & Elc & Eb).
  destruct (chain_cur _ _ _ _ _ Hc) as (_ & Hcl).
  exists h'. split; [exact En|]. split; [|split; [|split; [|split]]].
  - intros j. destruct (Nat.eq_dec j c) as [->|Hne]; [exact Elc | now rewrite Eo].
  - lia.
  - unfold Lof. rewrite Ec. exact Et.
  - unfold Lof. rewrite Ec. apply (stitched_after _ _ _ _ _ _ [] (drop l (block (store st) c)) Hc Eo); [exact Eb | reflexivity].
  - unfold flush. rewrite Herr, Ec, E. cbn [bind fst]. rewrite Et.
    unfold Lof. rewrite Ec.
    destruct (sink_write (sink st) (c, l) (stitched (store st) (pend st) 0 c l)) as [k' [e|]]; reflexivity.
Qed.
