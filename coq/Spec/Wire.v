(* Spec/Wire.v — the Thrift Binary wire format of single items: big-endian two's complement,
   4-byte length prefixes.  This is the specification the three writer families and the two
   reader families are proved against (C01) and the message envelope (C12). *)
From GV Require Import Lib.Bytes Lib.Res Gen.Consts Model.Binary.
Open Scope N_scope.

Definition enc (it : item) : bytes :=
  match it with
  | IBool b => [if b then 1 else 0]
  | IByte v => [u8 v]
  | II16 v => be 2 (u16 v)
  | II32 v => be 4 (u32 v)
  | II64 v => be 8 (u64 v)
  | IDouble bits => be 8 (bits mod two64)
  | IBinary v | IString v => be 4 (len v mod two32) ++ v
  | IFieldBegin t id => [u8 t] ++ be 2 (u16 id)
  | IFieldStop => [0]
  | IMapBegin kt vt sz => [u8 kt; u8 vt] ++ be 4 (u32 sz)
  | IListBegin et sz | ISetBegin et sz => [u8 et] ++ be 4 (u32 sz)
  end.

(* The format's own limits: value in the range of its Go type; string shorter than 2^31;
   container size representable in the 4-byte field; a field header's type is not STOP. *)
Definition item_ok (it : item) : bool :=
  match it with
  | IBool _ | IFieldStop => true
  | IByte v => in_signedb 8 v
  | II16 v => in_signedb 16 v
  | II32 v => in_signedb 32 v
  | II64 v => in_signedb 64 v
  | IDouble bits => bits <? two64
  | IBinary v | IString v => (len v <? two31) && wfbb v
  | IFieldBegin t id => in_signedb 8 t && in_signedb 16 id && negb (t =? 0)%Z
  | IMapBegin kt vt sz => in_signedb 8 kt && in_signedb 8 vt && (0 <=? sz)%Z && (sz <? Z.of_N two32)%Z
  | IListBegin et sz | ISetBegin et sz => in_signedb 8 et && (0 <=? sz)%Z && (sz <? Z.of_N two32)%Z
  end.

(* message envelope: strict version word | type (low 16 bits), name, sequence id *)
Definition enc_msg (name : bytes) (ty seq : Z) : bytes :=
  be 4 (2147549184 + Z.to_N (ty mod 65536)%Z) ++ be 4 (len name mod two32) ++ name ++ be 4 (u32 seq).

(* ---------- reference decoder: what the format says about an arbitrary byte string ----------
   [ref_dec k b] = the item of kind k that b starts with and its extent, or None when b is too
   short for it (or a string length is negative).  Written directly on the byte list. *)
Definition cut (n : N) (b : bytes) : option (bytes * bytes) :=
  if n <=? len b then Some (take n b, drop n b) else None.

Definition ref_int (w : N) (n : N) (b : bytes) : option (Z * N) :=
  match cut n b with Some (h, _) => Some (to_signed w (unbe h), n) | None => None end.

Definition ref_str (b : bytes) : option (bytes * N) :=
  match cut 4 b with
  | Some (h, r) =>
    let sz := to_signed 32 (unbe h) in
    if (sz <? 0)%Z then None
    else match cut (Z.to_N sz) r with Some (s, _) => Some (s, 4 + Z.to_N sz) | None => None end
  | None => None
  end.

Definition ref_dec (k : kind) (b : bytes) : option (item * N) :=
  match k with
  | KBool => match b with x :: _ => Some (IBool (x =? 1), 1) | [] => None end
  | KByte => match ref_int 8 1 b with Some (v, n) => Some (IByte v, n) | None => None end
  | KI16 => match ref_int 16 2 b with Some (v, n) => Some (II16 v, n) | None => None end
  | KI32 => match ref_int 32 4 b with Some (v, n) => Some (II32 v, n) | None => None end
  | KI64 => match ref_int 64 8 b with Some (v, n) => Some (II64 v, n) | None => None end
  | KDouble => match cut 8 b with Some (h, _) => Some (IDouble (unbe h), 8) | None => None end
  | KBinary => match ref_str b with Some (s, n) => Some (IBinary s, n) | None => None end
  | KString => match ref_str b with Some (s, n) => Some (IString s, n) | None => None end
  | KFieldBegin =>
    match b with
    | [] => None
    | 0 :: _ => Some (IFieldStop, 1)
    | t :: r => match cut 2 r with
                | Some (h, _) => Some (IFieldBegin (to_signed 8 t) (to_signed 16 (unbe h)), 3)
                | None => None
                end
    end
  | KMapBegin =>
    match b with
    | kt :: vt :: r => match cut 4 r with
                       | Some (h, _) => Some (IMapBegin (to_signed 8 kt) (to_signed 8 vt) (Z.of_N (unbe h)), 6)
                       | None => None
                       end
    | _ => None
    end
  | KListBegin =>
    match b with
    | et :: r => match cut 4 r with
                 | Some (h, _) => Some (IListBegin (to_signed 8 et) (Z.of_N (unbe h)), 5)
                 | None => None
                 end
    | [] => None
    end
  | KSetBegin =>
    match b with
    | et :: r => match cut 4 r with
                 | Some (h, _) => Some (ISetBegin (to_signed 8 et) (Z.of_N (unbe h)), 5)
                 | None => None
                 end
    | [] => None
    end
  end.

(* message envelope: (name, type, seq, extent); None when truncated / negative name length;
   the version check is separate *)
Definition ref_version_ok (b : bytes) : option bool :=
  match cut 4 b with
  | Some (h, _) => Some (unbe h / 65536 =? 32769)      (* upper half = 0x8001 *)
  | None => None
  end.
Definition ref_msg (b : bytes) : option (bytes * Z * Z * N) :=
  match cut 4 b with
  | Some (h, r) =>
    match ref_str r with
    | Some (name, n) =>
      match ref_int 32 4 (drop n r) with
      | Some (seq, _) => Some (name, Z.of_N (unbe h mod 65536), seq, 4 + n + 4)
      | None => None
      end
    | None => None
    end
  | None => None
  end.
