(* Spec/Wire.v — the Thrift Binary wire format of single items: big-endian two's complement,
   4-byte length prefixes.  This is the specification the three writer families and the two
   reader families are proved against (C01) and the message envelope (C12). *)
From GV Require Import Lib.Bytes Lib.Res Gen.Consts Model.Binary.
Open Scope N_scope.

Definition enc (it : item) : bytes :=
  match it with
  | IBool b => [if b then 1 else 0]
  | IByte v => [u8 v]
  | II16 v => be 2 (u16 v)
  | II32 v => be 4 (u32 v)
  | II64 v => be 8 (u64 v)
  | IDouble bits => be 8 (bits mod two64)
  | IBinary v | IString v => be 4 (len v mod two32) ++ v
  | IFieldBegin t id => [u8 t] ++ be 2 (u16 id)
  | IFieldStop => [0]
  | IMapBegin kt vt sz => [u8 kt; u8 vt] ++ be 4 (u32 sz)
  | IListBegin et sz | ISetBegin et sz => [u8 et] ++ be 4 (u32 sz)
  end.

(* The format's own limits: value in the range of its Go type; string shorter than 2^31;
   container size representable in the 4-byte field; a field header's type is not STOP. *)
Definition item_ok (it : item) : bool :=
  match it with
  | IBool _ | IFieldStop => true
  | IByte v => in_signedb 8 v
  | II16 v => in_signedb 16 v
  | II32 v => in_signedb 32 v
  | II64 v => in_signedb 64 v
  | IDouble bits => bits <? two64
  | IBinary v | IString v => (len v <? two31) && wfbb v
  | IFieldBegin t id => in_signedb 8 t && in_signedb 16 id && negb (t =? 0)%Z
  | IMapBegin kt vt sz => in_signedb 8 kt && in_signedb 8 vt && (0 <=? sz)%Z && (sz <? Z.of_N two32)%Z
  | IListBegin et sz | ISetBegin et sz => in_signedb 8 et && (0 <=? sz)%Z && (sz <? Z.of_N two32)%Z
  end.

(* message envelope: strict version word | type (low 16 bits), name, sequence id *)
Definition enc_msg (name : bytes) (ty seq : Z) : bytes :=
  be 4 (2147549184 + Z.to_N (ty mod 65536)%Z) ++ be 4 (len name mod two32) ++ name ++ be 4 (u32 seq).
