(* Spec/Cursor.v — the abstract specification of a buffered reader: a cursor over the stream.
   Executable: [cursor_ok] decides whether one observed output is allowed at cursor c. *)
From GV Require Import Lib.Bytes Lib.Res Model.BufReader.
Open Scope N_scope.

Record cursor := { cpos : N; crl : N }.   (* consumed position in the stream; ReadLen *)

(* does the script contain a run of k zeros? (a stall is possible only then) *)
Fixpoint has_zero_run (k : nat) (run : nat) (l : list N) : bool :=
  match l with
  | [] => false
  | c :: r => if c =? 0 then (if Nat.leb k (S run) then true else has_zero_run k (S run) r)
              else has_zero_run k 0 r
  end.
Definition may_stall (chunks : list N) : bool := has_zero_run max_empty 0 chunks.

(* allowed failure of a request for n more bytes at cursor c over stream S:
   a non-nil error; the source's final error only if fewer than n bytes exist;
   no-progress only if the script can stall *)
Definition fail_ok (S : bytes) (fin : Z) (chunks : list N) (c n : N) (e : Z) : bool :=
  ((e =? fin)%Z && (len S <? c + n)) || ((e =? e_noprogress)%Z && may_stall chunks).

Definition seg_at (S : bytes) (c n : N) : bytes := take n (drop c S).

(* one observed step: returns the new cursor, or None if the output is not allowed *)
Definition cursor_step (S : bytes) (fin : Z) (chunks : list N) (cu : cursor) (o : rop) (out : rout) : option cursor :=
  let c := cpos cu in let rl := crl cu in
  let adv n := Some {| cpos := c + n; crl := rl + n |} in
  (* without stalls a request that fits must succeed *)
  let must_ok (n : N) := negb (may_stall chunks) && (c + n <=? len S) in
  match o, out with
  | RNext n, OBytes b =>
    if (0 <=? n)%Z && beqb b (seg_at S c (Z.to_N n)) && (len b =? Z.to_N n) then adv (Z.to_N n) else None
  | RPeek n, OBytes b =>
    if (0 <=? n)%Z && beqb b (seg_at S c (Z.to_N n)) && (len b =? Z.to_N n) then Some cu else None
  | RSkip n, OUnit =>
    if (0 <=? n)%Z && (c + Z.to_N n <=? len S) then adv (Z.to_N n) else None
  | RNext n, OErr e | RPeek n, OErr e | RSkip n, OErr e =>
    if (n <? 0)%Z then (if (e =? e_negcount)%Z then Some cu else None)
    else if fail_ok S fin chunks c (Z.to_N n) e && negb (must_ok (Z.to_N n)) then Some cu else None
  | RReadBinary k, ORead m b e =>
    if (m <=? k) && beqb b (seg_at S c m) && (len b =? m)
       && (match e with
           | None => m =? k
           | Some ev => (m <? k) && fail_ok S fin chunks c k ev && negb (must_ok k)
           end)
    then adv m else None
  | RReadLen, OLen n => if n =? rl then Some cu else None
  | RRelease, OUnit => Some {| cpos := c; crl := 0 |}
  | _, _ => None
  end.

Fixpoint cursor_run (S : bytes) (fin : Z) (chunks : list N) (cu : cursor) (ops : list rop) (outs : list rout) : bool :=
  match ops, outs with
  | [], [] => true
  | o :: ops', out :: outs' =>
    match cursor_step S fin chunks cu o out with
    | Some cu' => cursor_run S fin chunks cu' ops' outs'
    | None => false
    end
  | _, _ => false
  end.
