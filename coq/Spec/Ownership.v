(* Spec/Ownership.v — what the ownership properties (C09, C14) say about a trace of events
   (oldest first) of one object: readable in a minute, independent of the monitor. *)
From GV Require Import Lib.Bytes Lib.Heap Model.Own.
Open Scope N_scope.

Definition uses (b : nat) (ev : event) : bool :=
  match ev with EvRead x _ _ | EvWrite x _ _ | EvFree x _ _ _ => Nat.eqb x b | _ => false end.
Definition modifies (b : nat) (ev : event) : bool :=
  match ev with EvWrite x _ _ | EvFree x _ _ _ => Nat.eqb x b | _ => false end.
Definition frees (b : nat) (ev : event) : bool :=
  match ev with EvFree x _ _ _ => Nat.eqb x b | _ => false end.
(* the block comes (back) into the object's hands *)
Definition regains (b : nat) (ev : event) : bool :=
  match ev with EvAlloc x | EvLend x _ => Nat.eqb x b | _ => false end.

(* b is neither read, written nor freed until an allocator hands it back *)
Fixpoint quiet_until_back (b : nat) (tr : list event) : Prop :=
  match tr with
  | [] => True
  | ev :: r => if regains b ev then True else uses b ev = false /\ quiet_until_back b r
  end.

(* after a block has been given to mcache.Free the same object never reads, writes or frees it
   again unless the allocator hands it back *)
Fixpoint no_use_after_free (tr : list event) : Prop :=
  match tr with
  | [] => True
  | ev :: r =>
    match ev with EvFree b _ _ _ => quiet_until_back b r | _ => True end /\ no_use_after_free r
  end.

(* caller memory: a block lent read-only is never written nor freed afterwards; a block lent for
   writing (NewBytesWriter target) is never freed *)
Fixpoint caller_untouched (tr : list event) : Prop :=
  match tr with
  | [] => True
  | ev :: r =>
    match ev with
    | EvLend b true => Forall (fun e => modifies b e = false) r
    | EvLend b false => Forall (fun e => frees b e = false) r
    | _ => True
    end /\ caller_untouched r
  end.

(* only whole blocks obtained from an allocator ever reach mcache.Free: the data pointer is the
   block's base and the capacity is the block's real capacity; never a block the caller lent *)
Definition frees_whole_blocks (tr : list event) : Prop :=
  Forall (fun ev => match ev with EvFree _ off cp blen => off = 0 /\ cp = blen | _ => True end) tr.

(* a well-formed world: the pool and the co-tenant hold distinct, existing blocks *)
Definition valid (w : world) (b : nat) : Prop := (b < length (wh w))%nat.
Record wok (w : world) : Prop := mkwok {
  wok_nodup : NoDup (wpool w ++ wcot w);
  wok_valid : Forall (valid w) (wpool w ++ wcot w)
}.

(* reading a handed-out slice (block, offset, len) now *)
Definition rd (h : heap) (b : nat) (off n : N) : bytes := take n (drop off (block h b)).
(* the bytes of a stream from position c *)
Definition seg_at (S : bytes) (c n : N) : bytes := take n (drop c S).
