(* Spec/Log.v — abstract specification of a buffered writer (property C05).

   The writer is a LOG: a logical unflushed byte string [L], the list [K] of byte strings the
   sink has accepted so far, and a sticky error.  [Malloc n] appends [n] positions whose
   content is not yet determined ([None]) and hands out the window [(|L|, n)]; the caller
   stores into a window at any later time before the flush ([OFill]); [WriteBinary bs]
   appends [bs] as it is at the call; [Flush] hands [L] to the sink once, appends it to [K]
   and empties [L].  Nothing here knows about buffers, growth, parking or copying.

   Positions are [option N]: [Some b] = the byte is determined by what the caller did,
   [None] = never stored by the caller (dirty memory, any value allowed).  [matches] relates a
   specification string to concrete bytes. *)
From GV Require Import Lib.Bytes.
Open Scope N_scope.

(* ---------- histories ---------- *)
Inductive wop : Type :=
| OMalloc (n : Z)                              (* w.Malloc(n) *)
| OWrite (bs : bytes)                          (* w.WriteBinary(bs) *)
| OFill (k : nat) (off : N) (data : bytes)     (* caller: copy(region_k[off:], data); region_k = result of the k-th successful Malloc *)
| OFlush                                       (* w.Flush() *)
| OLen.                                        (* w.WrittenLen() *)

(* error classes of an observation *)
Definition E_NONE : Z := 0.
Definition E_NEG : Z := 1.        (* errNegativeCount *)
Definition E_SINK : Z := 2.       (* the error value returned by the sink *)
Definition E_INVALID : Z := 3.    (* a caller [OFill] outside a live region: contract violation, ignored by model and spec *)

(* what one operation shows: error class, WrittenLen after the operation, and for Flush what
   the sink received (the bytes of the successful Write; for a bytes-backed writer these are
   published as the new *target); None when the sink was not called or failed *)
Record obs (X : Type) : Type := mkobs { o_err : Z; o_len : N; o_sink : option (list X) }.
Arguments mkobs {X} _ _ _.
Arguments o_err {X} _.
Arguments o_len {X} _.
Arguments o_sink {X} _.

(* Go: l[off : off+|v|] = v *)
Definition psplice {A} (l : list A) (off : N) (v : list A) : list A :=
  take off l ++ v ++ drop (off + len v) l.

Definition sbytes : Type := list (option N).

Definition matchb (o : option N) (b : N) : Prop := o = None \/ o = Some b.
Definition matches (s : sbytes) (b : bytes) : Prop := Forall2 matchb s b.

Definition matchb_b (o : option N) (b : N) : bool :=
  match o with None => true | Some x => x =? b end.
Fixpoint matches_b (s : sbytes) (b : bytes) : bool :=
  match s, b with
  | [], [] => true
  | o :: s', x :: b' => matchb_b o x && matches_b s' b'
  | _, _ => false
  end.

Definition determined (s : sbytes) : bool := forallb (fun o => match o with Some _ => true | None => false end) s.

(* ---------- the log ---------- *)
Record lstate : Type := mklog {
  lL : sbytes;                 (* logical unflushed string *)
  lK : list sbytes;            (* sink log: one entry per successful sink write, in order *)
  lerr : option Z;             (* sticky error *)
  lnil : bool;                 (* nothing acquired since creation / the last flush: Flush does not call the sink *)
  lwin : list (N * N);         (* windows (start, n) handed out since the last successful flush, newest first *)
  lstale : nat;                (* number of windows handed out before the last successful flush *)
  lfake : bool;                (* bytes-backed: the sink publishes into the target and never fails *)
  lcalls : N;                  (* sink Write calls so far *)
  lfail : N;                   (* the call that fails (1-based; 0 = never) *)
  ltarget : sbytes             (* bytes-backed: *target *)
}.

Definition log_new (failk : N) : lstate :=
  mklog [] [] None true [] 0 false 0 failk [].

(* NewBytesWriter(&t): the log starts as the contents of t; a nil t means nothing acquired yet *)
Definition log_new_bytes (initial : option bytes) : lstate :=
  match initial with
  | None => mklog [] [] None true [] 0 true 0 0 []
  | Some b => mklog (map Some b) [] None false [] 0 true 0 0 (map Some b)
  end.

Definition window_at (s : lstate) (k : nat) : option (N * N) :=
  if (k <? lstale s)%nat then None else nth_error (rev (lwin s)) (k - lstale s).

Definition set_L (s : lstate) (l : sbytes) : lstate :=
  mklog l (lK s) (lerr s) (lnil s) (lwin s) (lstale s) (lfake s) (lcalls s) (lfail s) (ltarget s).

Definition log_append (s : lstate) (x : sbytes) (w : list (N * N)) : lstate :=
  mklog (lL s ++ x) (lK s) (lerr s) (lnil s && (len x =? 0)) (w ++ lwin s) (lstale s)
        (lfake s) (lcalls s) (lfail s) (ltarget s).

Definition log_step (s : lstate) (o : wop) : lstate * obs (option N) :=
  match o with
  | OMalloc n =>
    match lerr s with
    | Some e => (s, mkobs e (len (lL s)) None)
    | None =>
      if (n <? 0)%Z then (s, mkobs E_NEG (len (lL s)) None)
      else
        let n' := Z.to_N n in
        let s' := log_append s (repeat None (N.to_nat n')) [(len (lL s), n')] in
        (s', mkobs E_NONE (len (lL s')) None)
    end
  | OWrite bs =>
    match lerr s with
    | Some e => (s, mkobs e (len (lL s)) None)
    | None =>
      let s' := log_append s (map Some bs) [] in
      (s', mkobs E_NONE (len (lL s')) None)
    end
  | OFill k off data =>
    match window_at s k with
    | Some (a, n) =>
      if off + len data <=? n
      then (set_L s (psplice (lL s) (a + off) (map Some data)), mkobs E_NONE (len (lL s)) None)
      else (s, mkobs E_INVALID (len (lL s)) None)
    | None => (s, mkobs E_INVALID (len (lL s)) None)
    end
  | OFlush =>
    match lerr s with
    | Some e => (s, mkobs e (len (lL s)) None)
    | None =>
      if lnil s then (s, mkobs E_NONE (len (lL s)) None)
      else if negb (lfake s) && (lcalls s + 1 =? lfail s) then
        (mklog (lL s) (lK s) (Some E_SINK) (lnil s) (lwin s) (lstale s) (lfake s) (lcalls s + 1) (lfail s) (ltarget s),
         mkobs E_SINK (len (lL s)) None)
      else
        (mklog [] (lK s ++ [lL s]) None true [] (lstale s + length (lwin s)) (lfake s) (lcalls s + 1) (lfail s)
               (if lfake s then lL s else ltarget s),
         mkobs E_NONE 0 (Some (lL s)))
    end
  | OLen => (s, mkobs E_NONE (len (lL s)) None)
  end.

Fixpoint log_run (s : lstate) (h : list wop) : lstate * list (obs (option N)) :=
  match h with
  | [] => (s, [])
  | o :: h' =>
    let '(s1, ob) := log_step s o in
    let '(s2, obs') := log_run s1 h' in
    (s2, ob :: obs')
  end.

(* an implementation observation satisfies a specification observation *)
Definition obs_ok (sp : obs (option N)) (im : obs N) : Prop :=
  o_err sp = o_err im /\ o_len sp = o_len im /\
  match o_sink sp, o_sink im with
  | None, None => True
  | Some s, Some b => matches s b
  | _, _ => False
  end.

Definition obs_okb (sp : obs (option N)) (im : obs N) : bool :=
  (o_err sp =? o_err im)%Z && (o_len sp =? o_len im) &&
  match o_sink sp, o_sink im with
  | None, None => true
  | Some s, Some b => matches_b s b
  | _, _ => false
  end.

(* ---------- the flush-free reading of a history ----------
   Everything a history writes, as ONE string: Malloc appends undetermined positions and
   remembers the window, WriteBinary appends the payload, a caller store patches its window;
   Flush and WrittenLen do nothing.  Windows are numbered as in [OFill] (k-th successful
   Malloc) and never expire here; the theorems relate this reading to [log_run] for histories
   in which no call fails (no sink error, no store outside a live region). *)
Record sst : Type := mksst { sS : sbytes; sW : list (N * N) }.   (* windows newest first *)

Definition stream_step (t : sst) (o : wop) : sst :=
  match o with
  | OMalloc n =>
    if (n <? 0)%Z then t
    else mksst (sS t ++ repeat None (N.to_nat (Z.to_N n))) ((len (sS t), Z.to_N n) :: sW t)
  | OWrite bs => mksst (sS t ++ map Some bs) (sW t)
  | OFill k off data =>
    match nth_error (rev (sW t)) k with
    | Some (a, n) =>
      if off + len data <=? n then mksst (psplice (sS t) (a + off) (map Some data)) (sW t) else t
    | None => t
    end
  | OFlush => t
  | OLen => t
  end.

Definition stream_run (t : sst) (h : list wop) : sst := fold_left stream_step h t.

Definition written (h : list wop) : sbytes := sS (stream_run (mksst [] []) h).

(* no call of the history failed: errors are nil or "negative count" (which changes nothing) *)
Definition clean {X} (os : list (obs X)) : Prop :=
  Forall (fun ob => o_err ob = E_NONE \/ o_err ob = E_NEG) os.

Definition is_flush (o : wop) : bool := match o with OFlush => true | _ => false end.
