(* Spec/ErrKinds.v — C17: causes of decode failures and the Thrift exception type each demands.
   The reference classifiers look only at the bytes (lengths, the sign of a size field, the
   version word), never at the reader models of Model/Binary.v. *)
From GV Require Import Lib.Bytes Gen.Consts Model.Binary.
Open Scope N_scope.

Inductive cause := CTrunc | CNeg | CBadVersion | CDepth | CUnknownType.

(* the type id Thrift assigns to each cause: TProtocolException codes as Thrift defines them
   (INVALID_DATA 1, NEGATIVE_SIZE 2, BAD_VERSION 4, DEPTH_LIMIT 6) — literals, NOT the constants
   regenerated from exception.go, so that a renumbering in the code is a failing input of the
   correspondence run and not only a broken [consts_ok] obligation *)
Definition cause_type (c : cause) : Z :=
  match c with
  | CTrunc => 1
  | CNeg => 2
  | CBadVersion => 4
  | CDepth => 6
  | CUnknownType => 1
  end%Z.

Definition cause_eqb (a b : cause) : bool :=
  match a, b with
  | CTrunc, CTrunc | CNeg, CNeg | CBadVersion, CBadVersion | CDepth, CDepth | CUnknownType, CUnknownType => true
  | _, _ => false
  end.

(* a length-prefixed value: 4-byte big-endian signed size, then that many bytes *)
Definition ref_str (buf : bytes) : option cause :=
  if len buf <? 4 then Some CTrunc
  else
    let sz := to_signed 32 (unbe (take 4 buf)) in
    if (sz <? 0)%Z then Some CNeg
    else if len buf <? 4 + Z.to_N sz then Some CTrunc else None.

(* wire size of the fixed-size items *)
Definition fixed_size (k : kind) : option N :=
  match k with
  | KBool | KByte => Some 1
  | KI16 => Some 2
  | KI32 => Some 4
  | KI64 | KDouble => Some 8
  | KMapBegin => Some 6
  | KListBegin | KSetBegin => Some 5
  | KBinary | KString | KFieldBegin => None
  end.

(* None: the bytes start with a complete item of kind k; Some c: why they do not *)
Definition ref_cause (k : kind) (buf : bytes) : option cause :=
  match fixed_size k with
  | Some n => if len buf <? n then Some CTrunc else None
  | None =>
    match k with
    | KFieldBegin =>
      if len buf <? 1 then Some CTrunc
      else if Z.eqb (to_signed 8 (nth 0 buf 0)) 0 then None   (* T_STOP *)
      else if len buf <? 3 then Some CTrunc else None
    | _ => ref_str buf
    end
  end.

(* message begin: version word (strict), name, sequence id *)
Definition ref_msg (buf : bytes) : option cause :=
  if len buf <? 4 then Some CTrunc
  else if negb (N.land (unbe (take 4 buf)) 4294901760 =? 2147549184)   (* 0xffff0000, VERSION_1 = 0x80010000 *)
  then Some CBadVersion
  else
    match ref_str (drop 4 buf) with
    | Some c => Some c
    | None =>
      let sz := Z.to_N (to_signed 32 (unbe (take 4 (drop 4 buf)))) in
      if len buf <? 4 + (4 + sz) + 4 then Some CTrunc else None
    end.
