(* Spec/FrameLayout.v — the documented TTHeader frame layout, independent of the model.

     0..3   total length (set by the caller: frame length + payload length - 4)
     4..5   magic 0x1000          6..7  flags
     8..11  sequence id           12..13  header-info size / 4
     14..   header info: protocol id, number of transforms, transform ids, info sections,
            zero padding to a multiple of 4

   Info sections (the grammar of C10):
     sec := Pad | KV [(k,v)...] | IntKV [(k,v)...] | ACL tok
     Pad        = 00
     KV l       = 01 n16 (len16 k  len16 v)*          n = |l|
     IntKV l    = 10 n16 (key16  len16 v)*
     ACL tok    = 11 len16 tok
   A reader interprets the sections from left to right into two finite maps; a later
   binding of a key overrides an earlier one; ACL tok binds the GDPR-token key.

   Finite maps are association lists read with first-match lookup (newest binding first).
   Everything here is executable or has an executable counterpart (suffix [b]) used by the
   correspondence to judge the implementation's observations without the model. *)
From GV Require Import Lib.Bytes Gen.Consts.
From Coq Require Import Permutation.
Open Scope N_scope.

(* ---------- fixed by the documented layout ---------- *)
Definition L_meta : N := 14.
Definition L_magic16 : N := 4096.             (* 0x1000 *)
Definition L_max : N := 65536.
Definition L_pids : list N := [0; 3; 4; 16; 17].
Definition L_streaming : N := 2.
(* the string-info key of the ACL token section ("RPC_TRANSIT_gdpr-token"): a literal, not the constant
   regenerated from the code *)
Definition gdpr : bytes := Eval vm_compute in map N_of_ascii (list_ascii_of_string "RPC_TRANSIT_gdpr-token"%string).

(* ---------- finite maps as association lists ---------- *)
Section Alist.
  Context {K : Type} (keq : K -> K -> bool).
  Fixpoint lookup (k : K) (l : list (K * bytes)) : option bytes :=
    match l with
    | [] => None
    | (k', v) :: r => if keq k' k then Some v else lookup k r
    end.
  Definition fm_eq (a b : list (K * bytes)) : Prop := forall k, lookup k a = lookup k b.
  Definition obeqb (x y : option bytes) : bool :=
    match x, y with
    | None, None => true
    | Some a, Some b => beqb a b
    | _, _ => false
    end.
  (* decides fm_eq when keq is an equivalence deciding equality *)
  Definition fm_eqb (a b : list (K * bytes)) : bool :=
    forallb (fun kv => obeqb (lookup (fst kv) a) (lookup (fst kv) b)) (a ++ b).
  Definition keys (l : list (K * bytes)) : list K := map fst l.
  Fixpoint memk (k : K) (l : list K) : bool :=
    match l with [] => false | x :: r => keq x k || memk k r end.
  Fixpoint nodupk (l : list K) : bool :=
    match l with [] => true | x :: r => negb (memk x r) && nodupk r end.
  (* [l] is a rearrangement of [e] (both with distinct keys) *)
  Definition permb (l e : list (K * bytes)) : bool :=
    (length l =? length e)%nat && nodupk (keys l) && nodupk (keys e)
    && forallb (fun kv => obeqb (lookup (fst kv) e) (Some (snd kv))) l.
  (* how a Go map [m] comes back from a decoder: absent (nil) when it was empty, otherwise an
     equal finite map *)
  Definition map_back (o : option (list (K * bytes))) (m : list (K * bytes)) : Prop :=
    match m with
    | [] => o = None
    | _ :: _ => exists l, o = Some l /\ fm_eq l m
    end.
End Alist.

Definition slookup := lookup beqb.
Definition ilookup := lookup N.eqb.

(* ---------- section grammar ---------- *)
Inductive sec :=
| Pad
| KV (l : list (bytes * bytes))
| IntKV (l : list (N * bytes))
| ACL (tok : bytes).

Definition enc_str (s : bytes) : bytes := be 2 (len s) ++ s.
Definition enc_kv (kv : bytes * bytes) : bytes := enc_str (fst kv) ++ enc_str (snd kv).
Definition enc_ikv (kv : N * bytes) : bytes := be 2 (fst kv) ++ enc_str (snd kv).
Definition enc_sec (s : sec) : bytes :=
  match s with
  | Pad => [0]
  | KV l => [1] ++ be 2 (len l) ++ concat (map enc_kv l)
  | IntKV l => [16] ++ be 2 (len l) ++ concat (map enc_ikv l)
  | ACL tok => [17] ++ enc_str tok
  end.
Definition enc_secs (l : list sec) : bytes := concat (map enc_sec l).

(* representable: lengths, counts and keys fit 16 bits, contents are bytes *)
Definition str_ok (s : bytes) : Prop := len s < 65536 /\ wf s.
Definition sec_ok (s : sec) : Prop :=
  match s with
  | Pad => True
  | KV l => len l < 65536 /\ Forall (fun kv => str_ok (fst kv) /\ str_ok (snd kv)) l
  | IntKV l => len l < 65536 /\ Forall (fun kv => fst kv < 65536 /\ str_ok (snd kv)) l
  | ACL tok => str_ok tok
  end.
Definition secs_ok (l : list sec) : Prop := Forall sec_ok l.

(* left-to-right interpretation; newest binding first *)
Definition interp_step (m : list (N * bytes) * list (bytes * bytes)) (s : sec) :=
  match s with
  | Pad => m
  | KV l => (fst m, rev l ++ snd m)
  | IntKV l => (rev l ++ fst m, snd m)
  | ACL tok => (fst m, (gdpr, tok) :: snd m)
  end.
Definition interp_from m (secs : list sec) := fold_left interp_step secs m.
Definition interp (secs : list sec) := interp_from ([], []) secs.

(* a map exists at all (Go: is not nil) iff some section of its kind occurs, even an empty one *)
Definition is_intsec (s : sec) : bool := match s with IntKV _ => true | _ => false end.
Definition is_strsec (s : sec) : bool := match s with KV _ | ACL _ => true | _ => false end.
Definition ointerp (secs : list sec) : option (list (N * bytes)) * option (list (bytes * bytes)) :=
  (if existsb is_intsec secs then Some (fst (interp secs)) else None,
   if existsb is_strsec secs then Some (snd (interp secs)) else None).

(* ---------- reference parser of the grammar (consumes a suffix; no indices) ---------- *)
Definition take_str (b : bytes) : option (bytes * bytes) :=
  match b with
  | h :: l :: r =>
    let n := h * 256 + l in
    if n <=? len r then Some (take n r, drop n r) else None
  | _ => None
  end.

Fixpoint take_kvs (fuel : nat) (cnt : N) (b : bytes) : option (list (bytes * bytes) * bytes) :=
  if cnt =? 0 then Some ([], b)
  else match fuel with
       | O => None
       | S f =>
         match take_str b with
         | None => None
         | Some (k, b1) =>
           match take_str b1 with
           | None => None
           | Some (v, b2) =>
             match take_kvs f (cnt - 1) b2 with
             | None => None
             | Some (l, b3) => Some ((k, v) :: l, b3)
             end
           end
         end
       end.

Fixpoint take_ikvs (fuel : nat) (cnt : N) (b : bytes) : option (list (N * bytes) * bytes) :=
  if cnt =? 0 then Some ([], b)
  else match fuel with
       | O => None
       | S f =>
         match b with
         | h :: l :: b1 =>
           match take_str b1 with
           | None => None
           | Some (v, b2) =>
             match take_ikvs f (cnt - 1) b2 with
             | None => None
             | Some (r, b3) => Some ((h * 256 + l, v) :: r, b3)
             end
           end
         | _ => None
         end
       end.

Fixpoint parse_secs_fuel (fuel : nat) (b : bytes) : option (list sec) :=
  match fuel with
  | O => None
  | S f =>
    match b with
    | [] => Some []
    | id :: r =>
      if id =? 0 then option_map (cons Pad) (parse_secs_fuel f r)
      else if id =? 1 then
        match r with
        | h :: l :: r1 =>
          match take_kvs (length r1) (h * 256 + l) r1 with
          | Some (kvs, r2) => option_map (cons (KV kvs)) (parse_secs_fuel f r2)
          | None => None
          end
        | _ => None
        end
      else if id =? 16 then
        match r with
        | h :: l :: r1 =>
          match take_ikvs (length r1) (h * 256 + l) r1 with
          | Some (kvs, r2) => option_map (cons (IntKV kvs)) (parse_secs_fuel f r2)
          | None => None
          end
        | _ => None
        end
      else if id =? 17 then
        match take_str r with
        | Some (tok, r2) => option_map (cons (ACL tok)) (parse_secs_fuel f r2)
        | None => None
        end
      else None
    end
  end.
Definition parse_secs (b : bytes) : option (list sec) := parse_secs_fuel (S (length b)) b.

(* ---------- C10: which frames a decoder must accept, and with what result ---------- *)
(* the size the frame declares: 4 * field, a mathematical product *)
Definition field_at (b : bytes) (off n : nat) : N := unbe (seg b off n).
Definition declared (b : bytes) : N := if len b <? L_meta then 0 else 4 * field_at b 12 2.

(* the header info a frame carries: [declared b] bytes after the 14-byte meta block *)
Definition info_of (b : bytes) : bytes := take (declared b) (drop L_meta b).

(* the frames a decoder must accept, and no others: long enough for what they declare, magic,
   declared size within 2..65536, supported protocol id, transform ids within the info, and
   the rest of the info a sequence of complete sections (padding may interleave) *)
Definition accepts (b : bytes) : Prop :=
  L_meta + declared b <= len b /\ field_at b 4 2 = L_magic16 /\ 2 <= declared b <= L_max /\
  exists pid nt rest secs,
    info_of b = pid :: nt :: rest /\ In pid L_pids /\ nt <= declared b - 2 /\
    secs_ok secs /\ drop nt rest = enc_secs secs.

Record dspec := {
  s_flags : N; s_seq : Z; s_pid : N;
  s_int : option (list (N * bytes)); s_str : option (list (bytes * bytes));
  s_hlen : Z; s_plen : Z
}.

Definition spec_decode (b : bytes) : option dspec :=
  if len b <? L_meta then None
  else if negb (field_at b 4 2 =? L_magic16) then None
  else
    let d := declared b in
    if (d <? 2) || (L_max <? d) then None
    else if len b <? L_meta + d then None
    else
      match take d (drop L_meta b) with
      | pid :: nt :: r =>
        if negb (existsb (N.eqb pid) L_pids) then None
        else if d - 2 <? nt then None
        else
          match parse_secs (drop nt r) with
          | Some secs =>
            Some {| s_flags := field_at b 6 2;
                    s_seq := to_signed 32 (field_at b 8 4);
                    s_pid := pid;
                    s_int := fst (ointerp secs); s_str := snd (ointerp secs);
                    s_hlen := Z.of_N (L_meta + d);
                    s_plen := (Z.of_N (field_at b 0 4) + 4 - Z.of_N (L_meta + d))%Z |}
          | None => None
          end
      | _ => None
      end.

(* ---------- C06: the layout of an encoded frame ---------- *)
Definition not_gdpr (kv : bytes * bytes) : bool := negb (beqb (fst kv) gdpr).

(* the sections an encoder must emit for the maps (im, sm): token first, then the remaining
   string keys if any, then the int keys if any; entries in any order *)
Definition body_secs (im : list (N * bytes)) (sm : list (bytes * bytes)) (secs : list sec) : Prop :=
  exists sl il,
    Permutation sl (filter not_gdpr sm) /\ Permutation il im /\
    secs = (match slookup gdpr sm with Some tok => [ACL tok] | None => [] end)
           ++ (match sl with [] => [] | _ => [KV sl] end)
           ++ (match il with [] => [] | _ => [IntKV il] end).

Definition frame (flags : N) (seq : Z) (pid : N) (im : list (N * bytes)) (sm : list (bytes * bytes))
           (b : bytes) : Prop :=
  exists tl secs pad,
    let info := [pid; 0] ++ enc_secs secs ++ repeat 0 pad in
    b = be 4 tl ++ be 2 L_magic16 ++ be 2 flags ++ be 4 (to_unsigned 32 seq)
        ++ be 2 (len info / 4) ++ info
    /\ body_secs im sm secs /\ secs_ok secs /\ (pad < 4)%nat /\ len info mod 4 = 0 /\ len info <= L_max.

(* executable counterpart, judged on the bytes alone plus the parameters *)
Fixpoint strip_pads (rsecs : list sec) : nat * list sec :=
  match rsecs with
  | Pad :: r => let '(n, s) := strip_pads r in (S n, s)
  | _ => (O, rsecs)
  end.

Definition secs_shape_b (im : list (N * bytes)) (sm : list (bytes * bytes)) (secs : list sec) : bool :=
  let rest1 :=
    match slookup gdpr sm, secs with
    | Some tok, ACL t :: r => if beqb t tok then Some r else None
    | Some _, _ => None
    | None, r => Some r
    end in
  let others := filter not_gdpr sm in
  let rest2 :=
    match rest1 with
    | None => None
    | Some r =>
      match others, r with
      | [], _ => Some r
      | _ :: _, KV l :: r' => if permb beqb l others then Some r' else None
      | _ :: _, _ => None
      end
    end in
  match rest2 with
  | None => false
  | Some r =>
    match im, r with
    | [], [] => true
    | _ :: _, [IntKV l] => permb N.eqb l im
    | _, _ => false
    end
  end.

Definition frame_b (flags : N) (seq : Z) (pid : N) (im : list (N * bytes)) (sm : list (bytes * bytes))
           (b : bytes) : bool :=
  if len b <? L_meta + 2 then false
  else
    let info := drop L_meta b in
    (field_at b 4 2 =? L_magic16) && (field_at b 6 2 =? flags)
    && (to_signed 32 (field_at b 8 4) =? seq)%Z
    && (4 * field_at b 12 2 =? len info) && (len info <=? L_max)
    && match info with
       | p :: nt :: r =>
         (p =? pid) && (nt =? 0)
         && match parse_secs r with
            | Some secs =>
              let '(npad, rs) := strip_pads (rev secs) in
              (npad <? 4)%nat && secs_shape_b im sm (rev rs)
            | None => false
            end
       | _ => false
       end.

(* the header-info size an encoder needs for (im, sm): protocol id + transform count +
   sections, rounded up to a multiple of 4 *)
Definition str_size (s : bytes) : N := 2 + len s.
Definition raw_info_size (im : list (N * bytes)) (sm : list (bytes * bytes)) : N :=
  2
  + (match slookup gdpr sm with Some tok => 1 + str_size tok | None => 0 end)
  + (match filter not_gdpr sm with
     | [] => 0
     | l => 3 + fold_right (fun kv a => str_size (fst kv) + str_size (snd kv) + a) 0 l
     end)
  + (match im with
     | [] => 0
     | l => 3 + fold_right (fun kv a => 2 + str_size (snd kv) + a) 0 l
     end).
Definition info_size im sm : N := let s := raw_info_size im sm in s + (4 - s mod 4) mod 4.
