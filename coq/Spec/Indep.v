(* Spec/Indep.v — what C16 demands, stated on memory regions (independent of the allocator model).

   A region is (block, offset, extent); the extent of a slice is its CAPACITY (everything an
   append or a write through the slice can ever touch without reallocating), the extent of a
   string its length.  Two regions are disjoint when they share no byte.  "Independent copies"
   means: the region of every returned value is disjoint from the input's region and from the
   region of every other returned value, and it holds the value's bytes. *)
From GV Require Import Lib.Bytes Lib.Heap.
Open Scope N_scope.

Record region := { r_blk : nat; r_off : N; r_ext : N }.

Definition in_region (r : region) (b : nat) (o : N) : Prop :=
  b = r_blk r /\ r_off r <= o < r_off r + r_ext r.

(* no common byte *)
Definition rdisj (a b : region) : Prop :=
  r_blk a <> r_blk b \/ r_ext a = 0 \/ r_ext b = 0 \/
  r_off a + r_ext a <= r_off b \/ r_off b + r_ext b <= r_off a.

Definition rdisjb (a b : region) : bool :=
  negb (Nat.eqb (r_blk a) (r_blk b)) || (r_ext a =? 0) || (r_ext b =? 0) ||
  (r_off a + r_ext a <=? r_off b) || (r_off b + r_ext b <=? r_off a).

Fixpoint pairwise_disjointb (l : list region) : bool :=
  match l with
  | [] => true
  | r :: t => forallb (rdisjb r) t && pairwise_disjointb t
  end.

Inductive pairwise_disjoint : list region -> Prop :=
| pd_nil : pairwise_disjoint []
| pd_cons r t : Forall (rdisj r) t -> pairwise_disjoint t -> pairwise_disjoint (r :: t).

(* region of a slice (capacity extent) and of a string; nil pointers own nothing *)
Definition slice_region (s : gslice) : option region :=
  match sptr s with
  | Some (b, o) => Some {| r_blk := b; r_off := o; r_ext := scap s |}
  | None => None
  end.
Definition string_region (s : gstring) : option region :=
  match tptr s with
  | Some (b, o) => Some {| r_blk := b; r_off := o; r_ext := tlen s |}
  | None => None
  end.

(* a region lies inside its block *)
Definition region_valid (h : heap) (r : region) : Prop :=
  (r_blk r < length h)%nat /\ r_off r + r_ext r <= len (block h (r_blk r)).

(* bytes of a region *)
Definition region_bytes (h : heap) (r : region) : bytes :=
  read h (Some (r_blk r, r_off r)) (r_ext r).
