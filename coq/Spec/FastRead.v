(* Spec/FastRead.v — what C11 demands of FastRead, as a reference semantics over a LIST OF
   FIELDS (not over bytes): a struct on the wire is any sequence of fields, each either a known
   field of the struct's interface definition carrying a value of its declared type, or an
   unknown field: any id with any well-typed value of any Thrift type (typed value trees of
   Spec/ThriftGrammar.v), including a known id with another type.  Reading it must consume
   exactly the fields and the STOP byte and leave every known field equal to its last
   occurrence (untouched when there is none); unknown fields change nothing.

   Independent of the model: no buffer, no offset, no switch constant. *)
From GV Require Import Lib.Bytes Lib.Res Model.Binary Spec.Wire Model.Nocopy Spec.FastSpec.
From GV Require Spec.ThriftGrammar.
Open Scope N_scope.

(* values of the known fields *)
Inductive fval : Type :=
| FStr (s : bytes)
| FI32 (v : Z)
| FMap (l : list (bytes * bytes)).      (* entries as they appear on the wire *)

Definition fty (v : fval) : Z :=
  match v with FStr _ => F_STRING | FI32 _ => F_I32 | FMap _ => F_MAP end.

Definition enc_fval (v : fval) : bytes :=
  match v with
  | FStr s => enc (IString s)
  | FI32 x => enc (II32 x)
  | FMap l => enc_strmap l
  end.

Inductive ritem : Type :=
| Known (id : Z) (v : fval)
| Unknown (t id : N) (v : ThriftGrammar.value).     (* raw type byte, 16-bit id pattern *)

Definition enc_ritem (it : ritem) : bytes :=
  match it with
  | Known id v => enc (IFieldBegin (fty v) id) ++ enc_fval v
  | Unknown t id v => t :: be 2 id ++ ThriftGrammar.enc v
  end.
Definition enc_ritems (its : list ritem) : bytes := concat (map enc_ritem its) ++ enc IFieldStop.

(* a map read off the wire is a finite map: a later entry with the same key replaces the earlier one *)
Fixpoint assoc_set (k v : bytes) (m : list (bytes * bytes)) : list (bytes * bytes) :=
  match m with
  | [] => [(k, v)]
  | (k', v') :: r => if beqb k k' then (k, v) :: r else (k', v') :: assoc_set k v r
  end.
Definition map_of_entries (l : list (bytes * bytes)) : list (bytes * bytes) :=
  fold_left (fun m kv => assoc_set (fst kv) (snd kv) m) l [].

(* the interface definitions: (id, type) of the known fields *)
Definition schema := list (Z * Z).
Definition base_schema : schema := [(1, F_STRING); (2, F_STRING); (3, F_STRING); (6, F_MAP)]%Z.
Definition baseresp_schema : schema := [(1, F_STRING); (2, F_I32); (3, F_MAP)]%Z.
Definition appex_schema : schema := [(1, F_STRING); (2, F_I32)]%Z.

Definition in_schema (sch : schema) (id ty : Z) : bool :=
  existsb (fun x => (fst x =? id)%Z && (snd x =? ty)%Z) sch.

(* assigning one known field *)
Definition base_apply (p : base) (id : Z) (v : fval) : base :=
  match v with
  | FStr s =>
      if (id =? 1)%Z then {| b_logid := s; b_caller := b_caller p; b_addr := b_addr p; b_extra := b_extra p |}
      else if (id =? 2)%Z then {| b_logid := b_logid p; b_caller := s; b_addr := b_addr p; b_extra := b_extra p |}
      else if (id =? 3)%Z then {| b_logid := b_logid p; b_caller := b_caller p; b_addr := s; b_extra := b_extra p |}
      else p
  | FMap l =>
      if (id =? 6)%Z then {| b_logid := b_logid p; b_caller := b_caller p; b_addr := b_addr p;
                             b_extra := Some (map_of_entries l) |}
      else p
  | FI32 _ => p
  end.

Definition baseresp_apply (p : baseresp) (id : Z) (v : fval) : baseresp :=
  match v with
  | FStr s => if (id =? 1)%Z then {| r_msg := s; r_code := r_code p; r_extra := r_extra p |} else p
  | FI32 x => if (id =? 2)%Z then {| r_msg := r_msg p; r_code := x; r_extra := r_extra p |} else p
  | FMap l => if (id =? 3)%Z then {| r_msg := r_msg p; r_code := r_code p; r_extra := Some (map_of_entries l) |} else p
  end.

(* ApplicationException as (message, type) *)
Definition appex_apply (e : bytes * Z) (id : Z) (v : fval) : bytes * Z :=
  match v with
  | FStr s => if (id =? 1)%Z then (s, snd e) else e
  | FI32 x => if (id =? 2)%Z then (fst e, x) else e
  | FMap _ => e
  end.

(* the struct after reading the fields in order *)
Definition apply_items {A} (apply : A -> Z -> fval -> A) (p : A) (its : list ritem) : A :=
  fold_left (fun p it => match it with Known id v => apply p id v | Unknown _ _ _ => p end) its p.

(* ---------- which field lists the property speaks about ---------- *)
Definition fval_ok (v : fval) : bool :=
  match v with
  | FStr s => len s <? two31
  | FI32 x => in_signedb 32 x
  | FMap l => (len l <? two32) &&
              forallb (fun kv => (len (fst kv) <? two31) && (len (snd kv) <? two31)) l
  end.

(* bytes are bytes *)
Definition fval_wf (v : fval) : bool :=
  match v with
  | FStr s => wfbb s
  | FI32 _ => true
  | FMap l => forallb (fun kv => wfbb (fst kv) && wfbb (snd kv)) l
  end.

Definition ritem_ok (sch : schema) (it : ritem) : bool :=
  match it with
  | Known id v => in_schema sch id (fty v) && fval_ok v && fval_wf v
  | Unknown t id v =>
      ThriftGrammar.wt t v && (ThriftGrammar.ch v <=? 63)%nat && (id <? two16) &&
      negb (in_schema sch (i16 id) (i8 t))
  end.

(* the value of a known field after the fields: its last occurrence, if any *)
Fixpoint last_known (id ty : Z) (its : list ritem) (acc : option fval) : option fval :=
  match its with
  | [] => acc
  | Known id' v :: r => last_known id ty r (if (id' =? id)%Z && (fty v =? ty)%Z then Some v else acc)
  | Unknown _ _ _ :: r => last_known id ty r acc
  end.
