(* Spec/SkipCauses.v — C17 for the skippers: which causes may a failed skip name?

   [rc i d t r] is the depth-bounded reference parser of C08 (Spec/RefParse.v [rp]: the same
   recursive descent, the same combinators gfields / gelems / gpair / gstring / member / leaf of
   Spec/ThriftGrammar.v, the same budget accounting [inl]) with ONE difference: where it fails it
   reports the SET of causes that apply at the failure point instead of rp's single class.
   Proofs/ErrTypesSkipP.v ([rc_rp]) proves that rc and rp accept the same inputs with the same
   extent and height, and that on failure the set is EXACTLY
        rp says E_TRUNC    -> {CTrunc}
        rp says E_NEGSIZE  -> {CNeg}
        rp says E_BADTYPE  -> {CUnknownType}            + CTrunc when no byte is left
        rp says E_DEPTH    -> {CDepth}                  + CTrunc when no byte is left
                                                        + CUnknownType when the type byte is unknown
   so [rc] is "the reference parse of (t, b)", and its failure point is rp's.

   A set is a bit mask carried in the error code of [pres] (so that the grammar's combinators
   are reused unchanged):  CTrunc 1 (= E_TRUNC, what gstring / gfields / leaf report for an
   incomplete item),  CNeg 2 (= E_NEGSIZE, what gstring reports),  CUnknownType 4,  CDepth 8.

   THE FAILURE POINT AND ITS CAUSES.  The parse consumes items left to right: a fixed-width
   scalar, a 4-byte size, a string payload, a container header (type byte(s) + 4-byte count), a
   field header (type byte, 2-byte id), and it ENTERS member values.  It fails at the first item
   it cannot consume or the first value it cannot enter.
     - an item that is incomplete (the input ends inside or before it): the cause is truncation,
       and nothing else - in particular a size field is negative only if its four bytes are all
       there (a size that is not there has no sign), so "negative size" is never allowed for an
       incomplete header and "truncation" is never allowed for a complete negative size;
     - a complete size field with the sign bit set: negative size, nothing else;
     - entering a value of type byte t with budget d on the remaining input r is subject to three
       entry conditions, each of which alone makes the value unparseable and none of which has
       a precedence defined by Thrift:
            no budget    (d = 0; only for a value that costs a level: a container, an unknown
                          type, or a leaf the implementation does not skip in line)     CDepth
            unknown type (t is none of the 11 types)                                   CUnknownType
            no input     (r is empty: every value occupies at least one byte)          CTrunc
       ("the cause" of such a failure is any condition that holds: the implementations test
       them in different orders - Binary.Skip tests "p+i >= e" in its loops before it calls
       skipType, skipType tests maxdepth first - and Apache Thrift's own Skip tests the depth
       before the type).  With budget and a known type the value is entered and its first item
       decides.
   Not tolerated: a negative size reported as truncation or vice versa; an unknown type reported
   as depth limit while budget remains, or as truncation while a byte remains; depth limit
   reported while budget remains; anything reported as negative size except a negative size. *)
From GV Require Import Lib.Bytes Lib.Res Gen.Consts Model.Binary Spec.ThriftGrammar Spec.RefParse Spec.ErrKinds.
Open Scope N_scope.

(* ---------- cause sets as masks ---------- *)
Definition cbit (c : cause) : Z :=
  match c with CTrunc => 1 | CNeg => 2 | CUnknownType => 4 | CDepth => 8 | CBadVersion => 16 end%Z.
Definition mask_has (m : Z) (c : cause) : bool := negb (Z.land m (cbit c) =? 0)%Z.
Definition skip_cause_list : list cause := [CTrunc; CNeg; CUnknownType; CDepth].
Definition causes_of_mask (m : Z) : list cause := filter (mask_has m) skip_cause_list.

(* the entry conditions of a value *)
Definition entry_mask (nobudget : bool) (t : N) (r : bytes) : Z :=
  ((if nobudget then 8 else 0) + (match kind_of t with KBad => 4 | _ => 0 end)
   + (match r with [] => 1 | _ => 0 end))%Z.

(* ---------- the reference parse, reporting cause sets ---------- *)
Fixpoint rc (i : inl) (d : nat) (t : N) (r : bytes) {struct d} : pres :=
  match d with
  | O => Err (entry_mask true t r)
  | S d' =>
    match kind_of t with
    | KFixed _ | KString => leaf t r                       (* Err E_TRUNC / Err E_NEGSIZE *)
    | KStruct =>
      do (n, h) <- gfields (S (length r)) (member (in_struct_fixed i) (in_struct_str i) (rc i d')) r;
      Ok (n, S h)
    | KMap =>
      match r with
      | kt :: vt :: r2 =>
        if hasn r2 4 then
          let c := unbe (take 4 r2) in
          if two31 <=? c then Err E_NEGSIZE else
          let fast := is_fixed kt && is_fixed vt in
          let m := member (fast || in_map_fixed i) (in_map_str i) (rc i d') in
          do (n, h) <- gelems (S (length r)) (gpair (m kt) (m vt)) c (drop 4 r2);
          Ok (6 + n, S h)
        else Err E_TRUNC
      | _ => Err E_TRUNC
      end
    | KList =>
      match r with
      | et :: r1 =>
        if hasn r1 4 then
          let c := unbe (take 4 r1) in
          if two31 <=? c then Err E_NEGSIZE else
          do (n, h) <- gelems (S (length r)) (member true (in_list_str i) (rc i d') et) c (drop 4 r1);
          Ok (5 + n, S h)
        else Err E_TRUNC
      | [] => Err E_TRUNC
      end
    | KBad => Err (entry_mask false t r)
    end
  end.

(* the causes a failed skip of (t, b) may name, budget 64; [] when (t, b) is accepted *)
Definition causes_at (i : inl) (d : nat) (t : N) (b : bytes) : list cause :=
  match rc i d t b with
  | Err m => causes_of_mask m
  | _ => []
  end.
Definition skip_causes (i : inl) (t : N) (b : bytes) : list cause := causes_at i ref_depth t b.
Definition cause_allowed (i : inl) (t : N) (b : bytes) (c : cause) : bool :=
  existsb (cause_eqb c) (skip_causes i t b).

(* is the Thrift type id [tid] the one some allowed cause demands? *)
Definition tid_allowed (cs : list cause) (tid : Z) : bool :=
  existsb (fun c => (cause_type c =? tid)%Z) cs.

(* the cause an error value of the skipper models names (codes of Model/Binary.v) *)
Definition code_cause (c : Z) : option cause :=
  if (c =? e_too_short)%Z then Some CTrunc
  else if (c =? e_neg_size)%Z then Some CNeg
  else if (c =? e_unknown_type)%Z then Some CUnknownType
  else if (c =? e_depth)%Z then Some CDepth
  else None.
