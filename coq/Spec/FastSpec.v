(* Spec/FastSpec.v — what C11 and C15 demand of the shipped structs, stated with the wire
   format of Spec/Wire.v and the field numbers of base.thrift / the Thrift TApplicationException:

     struct Base     { 1: string LogID, 2: string Caller, 3: string Addr, 6: optional map<string,string> Extra }
     struct BaseResp { 1: string StatusMessage, 2: i32 StatusCode, 3: optional map<string,string> Extra }
     exception TApplicationException { 1: string message, 2: i32 type }

   Field numbers and type codes are LITERALS here (they are the interface definition, not the Go
   code); Proofs tie them to the constants the translator reads off the generated code.
   Nothing here mentions a buffer, an offset or a direct writer. *)
From GV Require Import Lib.Bytes Lib.Res Model.Binary Spec.Wire Model.Nocopy.
Open Scope N_scope.

Definition F_I32 : Z := 8%Z.
Definition F_STRING : Z := 11%Z.
Definition F_MAP : Z := 13%Z.

Definition enc_string_field (id : Z) (s : bytes) : bytes :=
  enc (IFieldBegin F_STRING id) ++ enc (IString s).
Definition enc_i32_field (id : Z) (v : Z) : bytes :=
  enc (IFieldBegin F_I32 id) ++ enc (II32 v).
Definition enc_entry (kv : bytes * bytes) : bytes :=
  enc (IString (fst kv)) ++ enc (IString (snd kv)).
Definition enc_entries (l : list (bytes * bytes)) : bytes := concat (map enc_entry l).
Definition enc_strmap (l : list (bytes * bytes)) : bytes :=
  enc (IMapBegin F_STRING F_STRING (Z.of_N (len l))) ++ enc_entries l.
(* an optional map: absent when nil *)
Definition enc_map_field (id : Z) (m : smap) : bytes :=
  match m with
  | None => []
  | Some l => enc (IFieldBegin F_MAP id) ++ enc_strmap l
  end.

(* the stream of a struct whose map is enumerated in the order of its list; nil pointer = STOP *)
Definition base_stream (p : option base) : bytes :=
  match p with
  | None => enc IFieldStop
  | Some p =>
    enc_string_field 1 (b_logid p) ++ enc_string_field 2 (b_caller p) ++
    enc_string_field 3 (b_addr p) ++ enc_map_field 6 (b_extra p) ++ enc IFieldStop
  end.

Definition baseresp_stream (p : option baseresp) : bytes :=
  match p with
  | None => enc IFieldStop
  | Some p =>
    enc_string_field 1 (r_msg p) ++ enc_i32_field 2 (r_code p) ++
    enc_map_field 3 (r_extra p) ++ enc IFieldStop
  end.

Definition appex_stream (m : bytes) (t : Z) : bytes :=
  enc_string_field 1 m ++ enc_i32_field 2 t ++ enc IFieldStop.

(* ---------- the splice, abstractly ----------
   [lin] is the linear part (the bytes the library wrote into the buffer), each direct piece
   comes with the linear offset at which it belongs (the library indicates it as
   remainCap = |buffer| - offset).  The stream is the linear part with the pieces inserted. *)
Fixpoint ins (lin : bytes) (start : N) (pieces : list (bytes * N)) : bytes :=
  match pieces with
  | [] => drop start lin
  | (w, pos) :: r => take (pos - start) (drop start lin) ++ w ++ ins lin pos r
  end.

(* pieces of a record of WriteDirect calls against a buffer of [total] bytes *)
Definition positions (total : N) (pairs : list dpair) : list (bytes * N) :=
  map (fun p => (fst p, total - snd p)) pairs.

Definition pieces_len (pairs : list dpair) : N :=
  fold_right (fun p a => len (fst p) + a) 0 pairs.

(* the strings of a struct that go through WriteStringNocopy, in the order written *)
Definition map_strings (m : smap) : list bytes :=
  match m with
  | None => []
  | Some l => concat (map (fun kv => [fst kv; snd kv]) l)
  end.
Definition base_strings (p : option base) : list bytes :=
  match p with
  | None => []
  | Some p => [b_logid p; b_caller p; b_addr p] ++ map_strings (b_extra p)
  end.
Definition baseresp_strings (p : option baseresp) : list bytes :=
  match p with
  | None => []
  | Some p => [r_msg p] ++ map_strings (r_extra p)
  end.
(* those at or above the threshold: exactly the ones handed to the direct writer *)
Definition large (thr : Z) (l : list bytes) : list bytes :=
  filter (fun v => negb (Z.of_N (len v) <? thr)%Z) l.
