(* Spec/OwnRegions.v — what C09 demands of the windows ("regions") a buffered writer hands out. *)
From GV Require Import Lib.Bytes Lib.Heap Model.Own Model.OwnWriter Spec.Ownership.
Open Scope N_scope.

(* the blocks of the buffers the writer holds: the current one and the parked ones *)
Definition curblk (st : hwriter) : list nat :=
  match wbuf st with Some s => if 0 <? scp s then [sblk s] else [] | None => [] end.
Definition wblocks (st : hwriter) : list nat := curblk st ++ map sblk (wpend st).

(* two windows with bytes never overlap in memory *)
Definition pdisj (r r' : region) : Prop :=
  gln r = 0 \/ gln r' = 0 \/ gblk r <> gblk r' \/ gphys r + gln r <= gphys r' \/ gphys r' + gln r' <= gphys r.

(* a window lies inside a block the writer holds and reads as what was last stored through it
   ([gval]: the dirty bytes at Malloc time, overwritten by every later store of the caller; for
   WriteBinary the payload as it was at the call) *)
Definition region_held (st : hwriter) (h : heap) (r : region) : Prop :=
  gln r = 0 \/ (In (gblk r) (wblocks st) /\ gphys r + gln r <= len (block h (gblk r)) /\
                rd h (gblk r) (gphys r) (gln r) = gval r).

(* what Flush hands to the sink: the whole unflushed output, each window holding, at its logical
   offset, what was last stored through it *)
Definition flush_content_ok (st : hwriter) (content : bytes) : Prop :=
  len content = wlen st /\
  Forall (fun r => take (gln r) (drop (glog r) content) = gval r) (wregs st).
