(* Spec/RefParse.v — the depth-bounded reference parser of C08.

   [rp inl d t r] is a recursive descent over the Thrift Binary grammar of
   Spec/ThriftGrammar.v (same combinators: gfields / gelems / gpair / gstring / hasn, same
   result (extent, container height)), with a recursion budget [d] spent exactly the way an
   implementation spends its maxdepth:
     - parsing any value costs one level ([d = 0] -> E_DEPTH), members are parsed with [d-1];
     - a member that is a LEAF (fixed-size scalar or string) and that the implementation skips
       "in line" (without a recursive skipType call) is parsed without looking at the budget.
   [inl] says which leaves are in line, per container kind.  All five skippers take a fast
   path (one multiplication, no recursive call) for lists/sets of fixed-size elements and for
   maps whose key AND value are fixed-size, so those members are in line for every [inl].
     inl_all   Binary.Skip: every leaf everywhere
     inl_br    BufferReader.Skip: every leaf except strings that are struct fields
     inl_none  SkipDecoderTpl: nothing beyond the fast paths
   The instances differ only at the boundary: a value of container height 64 whose innermost
   members are leaves is accepted by [inl_all] and rejected by [inl_none].  (Proofs/RefP.v:
   ref_sound, ref_agrees_le63, ref_rejects_ge65.)

   [refparse] projects the extent. *)
From GV Require Import Lib.Bytes Lib.Res Spec.ThriftGrammar.
Open Scope N_scope.

Definition E_DEPTH : Z := 4%Z.

Record inl := {
  in_map_fixed : bool;     (* fixed-size key/value of a map on the slow path *)
  in_map_str : bool;       (* string key/value of a map *)
  in_list_str : bool;      (* string element of a list/set *)
  in_struct_fixed : bool;  (* fixed-size struct field *)
  in_struct_str : bool     (* string struct field *)
}.
Definition inl_all : inl := {| in_map_fixed := true; in_map_str := true; in_list_str := true;
                               in_struct_fixed := true; in_struct_str := true |}.
Definition inl_br : inl := {| in_map_fixed := true; in_map_str := true; in_list_str := true;
                              in_struct_fixed := true; in_struct_str := false |}.
Definition inl_none : inl := {| in_map_fixed := false; in_map_str := false; in_list_str := false;
                                in_struct_fixed := false; in_struct_str := false |}.

Definition is_fixed (t : N) : bool := match kind_of t with KFixed _ => true | _ => false end.
Definition is_str (t : N) : bool := match kind_of t with KString => true | _ => false end.

(* a leaf, parsed without a budget *)
Definition leaf (t : N) (r : bytes) : pres :=
  match kind_of t with
  | KFixed w => if hasn r w then Ok (w, O) else Err E_TRUNC
  | KString => gstring r
  | _ => Err E_BADTYPE
  end.

(* a member of type byte t: in line if it is a leaf of a kind the implementation inlines here *)
Definition member (fx st : bool) (rec : N -> bytes -> pres) (t : N) (r : bytes) : pres :=
  if (fx && is_fixed t) || (st && is_str t) then leaf t r else rec t r.

Fixpoint rp (i : inl) (d : nat) (t : N) (r : bytes) {struct d} : pres :=
  match d with
  | O => Err E_DEPTH
  | S d' =>
    match kind_of t with
    | KFixed _ | KString => leaf t r
    | KStruct =>
      do (n, h) <- gfields (S (length r)) (member (in_struct_fixed i) (in_struct_str i) (rp i d')) r;
      Ok (n, S h)
    | KMap =>
      match r with
      | kt :: vt :: r2 =>
        if hasn r2 4 then
          let c := unbe (take 4 r2) in
          if two31 <=? c then Err E_NEGSIZE else
          let fast := is_fixed kt && is_fixed vt in
          let m := member (fast || in_map_fixed i) (in_map_str i) (rp i d') in
          do (n, h) <- gelems (S (length r)) (gpair (m kt) (m vt)) c (drop 4 r2);
          Ok (6 + n, S h)
        else Err E_TRUNC
      | _ => Err E_TRUNC
      end
    | KList =>
      match r with
      | et :: r1 =>
        if hasn r1 4 then
          let c := unbe (take 4 r1) in
          if two31 <=? c then Err E_NEGSIZE else
          do (n, h) <- gelems (S (length r)) (member true (in_list_str i) (rp i d') et) c (drop 4 r1);
          Ok (5 + n, S h)
        else Err E_TRUNC
      | [] => Err E_TRUNC
      end
    | KBad => Err E_BADTYPE
    end
  end.

Definition refparse (i : inl) (d : nat) (t : N) (r : bytes) : res N :=
  do (n, _) <- rp i d t r; Ok n.

(* the budget of the public entry points *)
Definition ref_depth : nat := 64.
