(* Spec/UnknownSpec.v — what C13 demands, independent of the model of unknownfields.go.

   1. The grammar side: typed Thrift values [tval] (containers carry their raw element-type tags, so
      that empty containers with any tag are representable), their Binary-protocol encoding
      [enc_val] / [enc_fields] (built from Spec/Wire.enc, the item encoding C01 is proved against; bools
      are canonical by construction), well-formedness [wf_val] (the format's own limits), and the tree
      a field sequence denotes, [tree_of_fields]: element ids are the index as int16, KeyType/ValType
      are set exactly where they mean something.
   2. The tree side: [canon], the boolean predicate of canonical unknown-field trees, and [enc_tree],
      the bytes a tree denotes.
   (Spec/ThriftGrammar.v of the skipper properties did not exist when this was written; this is the
   fragment C13 needs, self-contained.) *)
From GV Require Import Lib.Bytes Lib.Res Model.Binary Spec.Wire Model.Unknown.
Open Scope N_scope.

(* Thrift type codes, as the wire format fixes them (Proofs/UnknownP.consts_ok_unknown ties them to Gen.Consts) *)
Definition T_STOP : Z := 0.   Definition T_BOOL : Z := 2.   Definition T_BYTE : Z := 3.
Definition T_DOUBLE : Z := 4. Definition T_I16 : Z := 6.    Definition T_I32 : Z := 8.
Definition T_I64 : Z := 10.   Definition T_STRING : Z := 11. Definition T_STRUCT : Z := 12.
Definition T_MAP : Z := 13.   Definition T_SET : Z := 14.   Definition T_LIST : Z := 15.

Inductive tval : Type :=
| TBool (b : bool)
| TByte (z : Z)
| TI16 (z : Z)
| TI32 (z : Z)
| TI64 (z : Z)
| TDouble (bits : N)
| TString (s : bytes)
| TStruct (fs : list (Z * tval))               (* (field id, value); the field's type is the value's *)
| TMap (kt vt : Z) (kvs : list (tval * tval))
| TSet (et : Z) (l : list tval)
| TList (et : Z) (l : list tval).

Definition ttype (v : tval) : Z :=
  match v with
  | TBool _ => T_BOOL | TByte _ => T_BYTE | TI16 _ => T_I16 | TI32 _ => T_I32 | TI64 _ => T_I64
  | TDouble _ => T_DOUBLE | TString _ => T_STRING | TStruct _ => T_STRUCT | TMap _ _ _ => T_MAP
  | TSet _ _ => T_SET | TList _ _ => T_LIST
  end.

(* ---------- encoding ---------- *)
Fixpoint enc_val (v : tval) : bytes :=
  match v with
  | TBool b => enc (IBool b)
  | TByte z => enc (IByte z)
  | TI16 z => enc (II16 z)
  | TI32 z => enc (II32 z)
  | TI64 z => enc (II64 z)
  | TDouble bits => enc (IDouble bits)
  | TString s => enc (IString s)
  | TStruct fs =>
    concat (map (fun p => enc (IFieldBegin (ttype (snd p)) (fst p)) ++ enc_val (snd p)) fs) ++ enc IFieldStop
  | TMap kt vt kvs =>
    enc (IMapBegin kt vt (Z.of_N (len kvs))) ++ concat (map (fun p => enc_val (fst p) ++ enc_val (snd p)) kvs)
  | TSet et l => enc (ISetBegin et (Z.of_N (len l))) ++ concat (map enc_val l)
  | TList et l => enc (IListBegin et (Z.of_N (len l))) ++ concat (map enc_val l)
  end.

Definition enc_field (p : Z * tval) : bytes := enc (IFieldBegin (ttype (snd p)) (fst p)) ++ enc_val (snd p).
Definition enc_fields (fs : list (Z * tval)) : bytes := concat (map enc_field fs).

(* ---------- well-formedness: values in range, sizes representable, elements of the declared type ---------- *)
Fixpoint wf_val (v : tval) : bool :=
  match v with
  | TBool _ => true
  | TByte z => in_signedb 8 z
  | TI16 z => in_signedb 16 z
  | TI32 z => in_signedb 32 z
  | TI64 z => in_signedb 64 z
  | TDouble bits => bits <? two64
  | TString s => (len s <? two31) && wfbb s
  | TStruct fs => forallb (fun p => in_signedb 16 (fst p) && wf_val (snd p)) fs
  | TMap kt vt kvs =>
    in_signedb 8 kt && in_signedb 8 vt && (len kvs <? two32) &&
    forallb (fun p => (ttype (fst p) =? kt)%Z && wf_val (fst p) && (ttype (snd p) =? vt)%Z && wf_val (snd p)) kvs
  | TSet et l | TList et l =>
    in_signedb 8 et && (len l <? two32) && forallb (fun x => (ttype x =? et)%Z && wf_val x) l
  end.
Definition wf_field (p : Z * tval) : bool := in_signedb 16 (fst p) && wf_val (snd p).
Definition wf_fields (fs : list (Z * tval)) : bool := forallb wf_field fs.

(* ---------- the tree a value denotes ---------- *)
Section Mapi.
  Context {A B : Type} (f : N -> A -> B).
  Fixpoint mapi_from (i : N) (l : list A) : list B :=
    match l with [] => [] | x :: xs => f i x :: mapi_from (i + 1) xs end.
End Mapi.

Fixpoint tree_of (id : Z) (v : tval) : ufield :=
  match v with
  | TBool b => UF id T_BOOL 0 0 (VBool b)
  | TByte z => UF id T_BYTE 0 0 (VI8 z)
  | TI16 z => UF id T_I16 0 0 (VI16 z)
  | TI32 z => UF id T_I32 0 0 (VI32 z)
  | TI64 z => UF id T_I64 0 0 (VI64 z)
  | TDouble bits => UF id T_DOUBLE 0 0 (VDouble bits)
  | TString s => UF id T_STRING 0 0 (VStr s)
  | TStruct fs => UF id T_STRUCT 0 0 (VFields (map (fun p => tree_of (fst p) (snd p)) fs))
  | TMap kt vt kvs =>
    UF id T_MAP kt vt
       (VFields (concat (mapi_from (fun i p => [tree_of (int16_of i) (fst p); tree_of (int16_of i) (snd p)]) 0 kvs)))
  | TSet et l => UF id T_SET 0 et (VFields (mapi_from (fun i x => tree_of (int16_of i) x) 0 l))
  | TList et l => UF id T_LIST 0 et (VFields (mapi_from (fun i x => tree_of (int16_of i) x) 0 l))
  end.
Definition tree_of_fields (fs : list (Z * tval)) : list ufield := map (fun p => tree_of (fst p) (snd p)) fs.

(* ---------- canonical trees ---------- *)
(* children of a list/set: declared type, id = index as int16 *)
Definition canon_elems (cf : ufield -> bool) (et : Z) : N -> list ufield -> bool :=
  fix go (i : N) (l : list ufield) {struct l} : bool :=
    match l with
    | [] => true
    | x :: xs => (uf_ty x =? et)%Z && (uf_id x =? int16_of i)%Z && cf x && go (i + 1) xs
    end.
(* flat map k0 v0 k1 v1 ... : even length, key/value types as declared, both ids = pair index *)
Definition canon_pairs (cf : ufield -> bool) (kt vt : Z) : N -> list ufield -> bool :=
  fix go (i : N) (l : list ufield) {struct l} : bool :=
    match l with
    | [] => true
    | k :: r =>
      match r with
      | [] => false
      | v :: r' =>
        (uf_ty k =? kt)%Z && (uf_id k =? int16_of i)%Z && cf k &&
        (uf_ty v =? vt)%Z && (uf_id v =? int16_of i)%Z && cf v && go (i + 1) r'
      end
    end.

Fixpoint canon (f : ufield) : bool :=
  match f with
  | UF id ty kt vt v =>
    in_signedb 16 id &&
    (if (ty =? T_BOOL)%Z then (kt =? 0)%Z && (vt =? 0)%Z && match v with VBool _ => true | _ => false end
     else if (ty =? T_BYTE)%Z then (kt =? 0)%Z && (vt =? 0)%Z && match v with VI8 z => in_signedb 8 z | _ => false end
     else if (ty =? T_I16)%Z then (kt =? 0)%Z && (vt =? 0)%Z && match v with VI16 z => in_signedb 16 z | _ => false end
     else if (ty =? T_I32)%Z then (kt =? 0)%Z && (vt =? 0)%Z && match v with VI32 z => in_signedb 32 z | _ => false end
     else if (ty =? T_I64)%Z then (kt =? 0)%Z && (vt =? 0)%Z && match v with VI64 z => in_signedb 64 z | _ => false end
     else if (ty =? T_DOUBLE)%Z then (kt =? 0)%Z && (vt =? 0)%Z && match v with VDouble b => b <? two64 | _ => false end
     else if (ty =? T_STRING)%Z then
       (kt =? 0)%Z && (vt =? 0)%Z && match v with VStr s => (len s <? two31) && wfbb s | _ => false end
     else if (ty =? T_STRUCT)%Z then
       (kt =? 0)%Z && (vt =? 0)%Z && match v with VFields l => forallb canon l | _ => false end
     else if (ty =? T_MAP)%Z then
       in_signedb 8 kt && in_signedb 8 vt &&
       match v with VFields l => (len l / 2 <? two32) && canon_pairs canon kt vt 0 l | _ => false end
     else if (ty =? T_SET)%Z || (ty =? T_LIST)%Z then
       (kt =? 0)%Z && in_signedb 8 vt &&
       match v with VFields l => (len l <? two32) && canon_elems canon vt 0 l | _ => false end
     else false)
  end.
Definition canon_fields (fs : list ufield) : bool := forallb canon fs.

(* ---------- the bytes a tree denotes (only meaningful on canonical trees) ---------- *)
Fixpoint enc_tree (f : ufield) : bytes :=
  match f with
  | UF id ty kt vt v =>
    match v with
    | VNil => []
    | VBool b => enc (IBool b)
    | VI8 z => enc (IByte z)
    | VI16 z => enc (II16 z)
    | VI32 z => enc (II32 z)
    | VI64 z => enc (II64 z)
    | VDouble b => enc (IDouble b)
    | VStr s => enc (IString s)
    | VFields l =>
      if (ty =? T_STRUCT)%Z then
        concat (map (fun x => enc (IFieldBegin (uf_ty x) (uf_id x)) ++ enc_tree x) l) ++ enc IFieldStop
      else if (ty =? T_MAP)%Z then
        enc (IMapBegin kt vt (Z.of_N (len l / 2))) ++ concat (map enc_tree l)
      else
        enc (IListBegin vt (Z.of_N (len l))) ++ concat (map enc_tree l)
    end
  end.
Definition enc_tree_field (x : ufield) : bytes := enc (IFieldBegin (uf_ty x) (uf_id x)) ++ enc_tree x.
Definition enc_tree_fields (fs : list ufield) : bytes := concat (map enc_tree_field fs).
