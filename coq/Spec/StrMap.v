(* Spec/StrMap.v — what a Go map answers: association-list lookup over the loaded pairs,
   and a canonical (key-sorted) enumeration used to compare enumerations as sets. *)
From GV Require Import Lib.Bytes.
Open Scope N_scope.

Section Assoc.
Variable V : Type.

(* value bound to s in the pairs (kk_i, vv_i); first match (keys are distinct in the property) *)
Fixpoint assoc (kk : list bytes) (vv : list V) (s : bytes) : option V :=
  match kk, vv with
  | k :: kk', v :: vv' => if beqb k s then Some v else assoc kk' vv' s
  | _, _ => None
  end.

Fixpoint assoc_pairs (l : list (bytes * V)) (s : bytes) : option V :=
  match l with
  | [] => None
  | (k, v) :: r => if beqb k s then Some v else assoc_pairs r s
  end.

(* what a Go map holds after a history of "replace the content by these pairs" requests, of
   which those with unequal slice lengths are refused: the pairs of the last accepted one *)
Fixpoint last_accepted (cur : option (list bytes * list V)) (h : list (list bytes * list V))
  : option (list bytes * list V) :=
  match h with
  | [] => cur
  | (kk, vv) :: r => last_accepted (if (length kk =? length vv)%nat then Some (kk, vv) else cur) r
  end.

Definition answer (cur : option (list bytes * list V)) (s : bytes) : option V :=
  match cur with Some (kk, vv) => assoc kk vv s | None => None end.

(* ---- canonical order of an enumeration: merge sort by key, bytewise lexicographic
        (the order of Go's string comparison).  Executable checking code, no proofs needed:
        it is applied identically to the model's, the expected and (implicitly, in Go) the
        implementation's enumeration. ---- *)
Fixpoint lex_leb (a b : bytes) : bool :=
  match a, b with
  | [], _ => true
  | _ :: _, [] => false
  | x :: a', y :: b' => if x <? y then true else if y <? x then false else lex_leb a' b'
  end.

Fixpoint merge_fuel (f : nat) (a b : list (bytes * V)) : list (bytes * V) :=
  match f with
  | O => a ++ b
  | S f' =>
    match a, b with
    | [], _ => b
    | _, [] => a
    | x :: a', y :: b' =>
      if lex_leb (fst x) (fst y) then x :: merge_fuel f' a' b else y :: merge_fuel f' a b'
    end
  end.

Fixpoint split_alt (l : list (bytes * V)) : list (bytes * V) * list (bytes * V) :=
  match l with
  | [] => ([], [])
  | [x] => ([x], [])
  | x :: y :: r => let '(a, b) := split_alt r in (x :: a, y :: b)
  end.

Fixpoint msort_fuel (f : nat) (l : list (bytes * V)) : list (bytes * V) :=
  match f with
  | O => l
  | S f' =>
    match l with
    | [] | [_] => l
    | _ => let '(a, b) := split_alt l in
           merge_fuel (length l) (msort_fuel f' a) (msort_fuel f' b)
    end
  end.

Definition key_sort (l : list (bytes * V)) : list (bytes * V) := msort_fuel (length l) l.

End Assoc.
Arguments assoc {V}. Arguments assoc_pairs {V}. Arguments key_sort {V}.
Arguments last_accepted {V}. Arguments answer {V}.
