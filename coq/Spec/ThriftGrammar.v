(* Spec/ThriftGrammar.v — the Thrift Binary grammar of single values (shared by C02, C03, C08, ...).

   This file is the SPECIFICATION side: it does not mention any Go function or any constant of
   Gen/Consts.v.  Type codes and scalar widths are the Thrift Binary protocol's own numbers
   (Proofs/GrammarP.v, [grammar_consts_ok], ties them to the regenerated Go constants, so a
   changed constant or typeToSize entry breaks a proof rather than silently moving the spec).

   Contents
     value        typed value trees for the 11 Thrift types
     tyof / wt    the type byte of a tree / well-typedness  wt t v : bool
     enc          the encoding  enc v : bytes
     ch           container height (scalars and strings 0, a container 1 + max of its members)
     gparse       the unbounded grammar parser  gparse t r : res (N * nat)  = (extent, height)

   Wire format (big-endian):
     BOOL BYTE       1 byte            I16 2      I32 4      I64 DOUBLE 8
     STRING          4-byte length n (0 <= n < 2^31)  then n bytes
     STRUCT          fields  (type byte ft <> 0, 2-byte id, value of type ft)*  then the byte 0 (STOP)
     MAP             key type byte, value type byte, 4-byte count c (< 2^31), then c (key, value) pairs
     LIST / SET      element type byte, 4-byte count c (< 2^31), then c elements

   Element/key/value type bytes are RAW bytes: they are validated only when at least one
   element has to be parsed.  A container with count 0 is a complete value whatever its type
   bytes are (0x00, 0x01, 0x10, 0x80, 0xff, ...).  All five Go skippers behave like that:
   with count 0 the fast path ("both sizes > 0") skips 0 bytes and the slow path loops 0
   times; typeToSize[uint8(t)] is 0 for every t that is not a fixed-size scalar (in particular
   for all t >= 0x80 since the D1 repair), and the "unknown data type" default branch is reached
   only through a recursive call made for an element.  That is why the trees below keep the raw
   type bytes instead of deriving them from the members.

   Scalars are kept as their unsigned bit patterns (a BOOL is any byte: no skipper inspects it;
   a DOUBLE is its 64-bit pattern).

   Error classes of [gparse] (the CLASS reported when several defects are present is the
   grammar's own left-to-right choice; the Go skippers may name a different one of them, e.g.
   Binary.Skip says "buffer too short" for a list<unknown type> whose first element would
   start at the end of the buffer.  Accept/reject and the extent are what C08 compares):
     E_TRUNC    the input ends before the value does
     E_NEGSIZE  a string length or container count with the sign bit set that the parse reaches
     E_BADTYPE  a type byte that is none of the 11 types and has to be parsed
     E_FUEL     never returned (GrammarP.gparse_fuel) *)
From GV Require Import Lib.Bytes Lib.Res.
Open Scope N_scope.

(* ---------- type codes (Thrift Binary protocol) ---------- *)
Definition T_STOP : N := 0.
Definition T_BOOL : N := 2.
Definition T_BYTE : N := 3.
Definition T_DOUBLE : N := 4.
Definition T_I16 : N := 6.
Definition T_I32 : N := 8.
Definition T_I64 : N := 10.
Definition T_STRING : N := 11.
Definition T_STRUCT : N := 12.
Definition T_MAP : N := 13.
Definition T_SET : N := 14.
Definition T_LIST : N := 15.

Inductive tkind : Type :=
| KFixed (width : N)     (* fixed-size scalar *)
| KString
| KStruct
| KMap
| KList                  (* LIST and SET *)
| KBad.                  (* not one of the 11 types (STOP, VOID, UTF8, UTF16, >= 0x80, ...) *)

Definition kind_of (t : N) : tkind :=
  if t =? T_BOOL then KFixed 1 else
  if t =? T_BYTE then KFixed 1 else
  if t =? T_DOUBLE then KFixed 8 else
  if t =? T_I16 then KFixed 2 else
  if t =? T_I32 then KFixed 4 else
  if t =? T_I64 then KFixed 8 else
  if t =? T_STRING then KString else
  if t =? T_STRUCT then KStruct else
  if t =? T_MAP then KMap else
  if t =? T_SET then KList else
  if t =? T_LIST then KList else KBad.

(* width of a fixed-size scalar type, 0 for everything else (the spec of Go's typeToSize) *)
Definition fixed_width (t : N) : N := match kind_of t with KFixed w => w | _ => 0 end.

(* ---------- value trees ---------- *)
Inductive value : Type :=
| VBool (b : N)                               (* any byte *)
| VByte (b : N)
| VDouble (bits : N)                          (* 64-bit pattern *)
| VI16 (u : N)                                (* 16-bit pattern *)
| VI32 (u : N)
| VI64 (u : N)
| VStr (s : bytes)                            (* string / binary *)
| VStruct (fs : list (N * N * value))         (* (field type byte, field id pattern, value) *)
| VMap (kt vt : N) (kvs : list (value * value))   (* raw key / value type bytes *)
| VSet (et : N) (vs : list value)             (* raw element type byte *)
| VList (et : N) (vs : list value).

Definition tyof (v : value) : N :=
  match v with
  | VBool _ => T_BOOL | VByte _ => T_BYTE | VDouble _ => T_DOUBLE
  | VI16 _ => T_I16 | VI32 _ => T_I32 | VI64 _ => T_I64
  | VStr _ => T_STRING | VStruct _ => T_STRUCT | VMap _ _ _ => T_MAP
  | VSet _ _ => T_SET | VList _ _ => T_LIST
  end.

(* well-typedness: v is a value of the type with byte t; scalars fit their width; string
   lengths and container counts fit the non-negative int32; members of a non-empty
   container have the container's declared type (so that type byte is one of the 11);
   type bytes of EMPTY containers are any byte. *)
Fixpoint wt (t : N) (v : value) : bool :=
  match v with
  | VBool b => (t =? T_BOOL) && (b <? 256)
  | VByte b => (t =? T_BYTE) && (b <? 256)
  | VDouble x => (t =? T_DOUBLE) && (x <? two64)
  | VI16 x => (t =? T_I16) && (x <? two16)
  | VI32 x => (t =? T_I32) && (x <? two32)
  | VI64 x => (t =? T_I64) && (x <? two64)
  | VStr s => (t =? T_STRING) && (len s <? two31) && wfbb s
  | VStruct fs =>
      (t =? T_STRUCT) &&
      forallb (fun f => match f with (ft, id, fv) => (ft <? 256) && (id <? two16) && wt ft fv end) fs
  | VMap kt vt kvs =>
      (t =? T_MAP) && (kt <? 256) && (vt <? 256) && (len kvs <? two31) &&
      forallb (fun kv => match kv with (k, v) => wt kt k && wt vt v end) kvs
  | VSet et vs =>
      (t =? T_SET) && (et <? 256) && (len vs <? two31) && forallb (wt et) vs
  | VList et vs =>
      (t =? T_LIST) && (et <? 256) && (len vs <? two31) && forallb (wt et) vs
  end.

Fixpoint enc (v : value) : bytes :=
  match v with
  | VBool b => [b]
  | VByte b => [b]
  | VDouble x => be 8 x
  | VI16 x => be 2 x
  | VI32 x => be 4 x
  | VI64 x => be 8 x
  | VStr s => be 4 (len s) ++ s
  | VStruct fs =>
      concat (map (fun f => match f with (ft, id, fv) => ft :: be 2 id ++ enc fv end) fs) ++ [T_STOP]
  | VMap kt vt kvs =>
      kt :: vt :: be 4 (len kvs) ++
      concat (map (fun kv => match kv with (k, v) => enc k ++ enc v end) kvs)
  | VSet et vs => et :: be 4 (len vs) ++ concat (map enc vs)
  | VList et vs => et :: be 4 (len vs) ++ concat (map enc vs)
  end.

Definition lmax (l : list nat) : nat := fold_right Nat.max O l.

(* container height *)
Fixpoint ch (v : value) : nat :=
  match v with
  | VStruct fs => S (lmax (map (fun f => match f with (_, _, fv) => ch fv end) fs))
  | VMap _ _ kvs => S (lmax (map (fun kv => match kv with (k, v) => Nat.max (ch k) (ch v) end) kvs))
  | VSet _ vs => S (lmax (map ch vs))
  | VList _ vs => S (lmax (map ch vs))
  | _ => O
  end.

(* ---------- the grammar parser ---------- *)
Definition E_TRUNC : Z := 1%Z.
Definition E_NEGSIZE : Z := 2%Z.
Definition E_BADTYPE : Z := 3%Z.
Definition E_FUEL : Z := 99%Z.

(* "r has at least n bytes", in O(n) (GrammarP.hasn_spec: hasn r n = (n <=? len r)) *)
Fixpoint hasn (r : bytes) (n : N) : bool :=
  if n =? 0 then true else
  match r with
  | [] => false
  | _ :: r' => hasn r' (N.pred n)
  end.

(* a parser returns (extent, container height) *)
Definition pres := res (N * nat).

(* two values one after the other (a map entry) *)
Definition gpair (e1 e2 : bytes -> pres) (r : bytes) : pres :=
  do (n, h) <- e1 r;
  do (m, h') <- e2 (drop n r);
  Ok (n + m, Nat.max h h').

(* cnt elements one after the other *)
Fixpoint gelems (f : nat) (elem : bytes -> pres) (cnt : N) (r : bytes) : pres :=
  if cnt =? 0 then Ok (0, O) else
  match f with
  | O => Err E_FUEL
  | S f' =>
    do (n, h) <- elem r;
    do (m, h') <- gelems f' elem (N.pred cnt) (drop n r);
    Ok (n + m, Nat.max h h')
  end.

(* struct fields up to and including STOP *)
Fixpoint gfields (f : nat) (elem : N -> bytes -> pres) (r : bytes) : pres :=
  match f with
  | O => Err E_FUEL
  | S f' =>
    match r with
    | [] => Err E_TRUNC
    | ft :: r1 =>
      if ft =? T_STOP then Ok (1, O) else
      if hasn r1 2 then
        do (n, h) <- elem ft (drop 2 r1);
        do (m, h') <- gfields f' elem (drop n (drop 2 r1));
        Ok (3 + n + m, Nat.max h h')
      else Err E_TRUNC
    end
  end.

Definition gstring (r : bytes) : pres :=
  if hasn r 4 then
    let n := unbe (take 4 r) in
    if two31 <=? n then Err E_NEGSIZE
    else if hasn (drop 4 r) n then Ok (4 + n, O) else Err E_TRUNC
  else Err E_TRUNC.

Fixpoint gp (f : nat) (t : N) (r : bytes) {struct f} : pres :=
  match f with
  | O => Err E_FUEL
  | S f' =>
    match kind_of t with
    | KFixed w => if hasn r w then Ok (w, O) else Err E_TRUNC
    | KString => gstring r
    | KStruct =>
      do (n, h) <- gfields (S f') (gp f') r;
      Ok (n, S h)
    | KMap =>
      match r with
      | kt :: vt :: r2 =>
        if hasn r2 4 then
          let c := unbe (take 4 r2) in
          if two31 <=? c then Err E_NEGSIZE else
          do (n, h) <- gelems (S f') (gpair (gp f' kt) (gp f' vt)) c (drop 4 r2);
          Ok (6 + n, S h)
        else Err E_TRUNC
      | _ => Err E_TRUNC
      end
    | KList =>
      match r with
      | et :: r1 =>
        if hasn r1 4 then
          let c := unbe (take 4 r1) in
          if two31 <=? c then Err E_NEGSIZE else
          do (n, h) <- gelems (S f') (gp f' et) c (drop 4 r1);
          Ok (5 + n, S h)
        else Err E_TRUNC
      | [] => Err E_TRUNC
      end
    | KBad => Err E_BADTYPE
    end
  end.

(* every nested call is made on a strictly shorter input, so S (length r) is enough fuel:
   GrammarP.gparse_fuel : gparse t r <> Err E_FUEL, GrammarP.gp_fuel_irrel: any larger fuel
   gives the same result. *)
Definition gparse (t : N) (r : bytes) : pres := gp (S (length r)) t r.
