From Coq Require Import Extraction ExtrOcamlBasic.
From GV Require Import Corr.Val Corr.C14.
Extraction "corr.ml" check.
