From Coq Require Import Extraction ExtrOcamlBasic.
From GV Require Import Corr.Val Corr.C09.
Extraction "corr.ml" check.
