From Coq Require Import Extraction ExtrOcamlBasic.
From GV Require Import Corr.Val Corr.C10.
Extraction "corr.ml" check.
