From Coq Require Import Extraction ExtrOcamlBasic.
From GV Require Import Corr.Val Corr.C03.
Extraction "corr.ml" check.
