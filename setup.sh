#!/bin/bash
# Build the framework from files on disk only (offline). Idempotent.
set -e
cd "$(dirname "$0")"
export GOFLAGS=-mod=mod GOPROXY=off GOSUMDB=off GOTOOLCHAIN=local
mkdir -p build evidence coq/Gen
(cd tools/goconsts && go build -o ../../build/goconsts .)
./build/goconsts -repo /repo -out coq/Gen -fp build
(cd tools/gotrans && go build -o ../../build/gotrans .)
./build/gotrans -repo /repo -out coq/Gen -sem coq/Lib/GoSem.v || echo "setup: gotrans left some functions untranslated (the checks will report them)"
tools/mkcoqproject.sh
(cd coq && coq_makefile -f _CoqProject -o Makefile && timeout 3000 make -j"$(nproc)" -k) || echo "setup: some Coq files failed to build (the checks will report them)"
tools/gotrans/semtest.sh || echo "setup: WARNING gotrans differential self-test failed (translator / Lib/GoSem.v disagree with the Go compiler)"
cp /repo/go.sum harness/go.sum
(cd harness && go build -tags verif -o ../build/harness .)
echo "setup done"
