(* Generic correspondence driver.  Linked against one extracted module [Corr] that exposes
     type cval = I of z | B of n list | L of val list
     check : cval -> verdict   (record { agree; specok; tag })
   Reads one case per line from stdin:
     case  ::= item
     item  ::= '(' item* ')' | 'x' hex* | ['-'] decimal | ['-'] '#' hex+
   Prints "F <line> <agree> <specok> <tag>" for every case that is not (agree && specok),
   "T <tag> <count>" per model tag and "N <total>" at the end. *)
open Corr

let rec pos_of_int (i : int) : positive =
  if i = 1 then XH
  else if i land 1 = 0 then XO (pos_of_int (i lsr 1))
  else XI (pos_of_int (i lsr 1))

let n_of_int (i : int) : n = if i = 0 then N0 else Npos (pos_of_int i)
let z_of_int (i : int) : z =
  if i = 0 then Z0 else if i > 0 then Zpos (pos_of_int i) else Zneg (pos_of_int (-i))

let byte_tab : n array = Array.init 256 n_of_int

let hexv c =
  match c with
  | '0' .. '9' -> Char.code c - 48
  | 'a' .. 'f' -> Char.code c - 87
  | 'A' .. 'F' -> Char.code c - 55
  | _ -> failwith "bad hex digit"

(* positive from a hex string, most significant digit first *)
let pos_of_hex (s : string) : positive option =
  (* build from the least significant bit upwards: collect bits lsb-first *)
  let bits = ref [] in  (* msb first while scanning; we then reverse *)
  String.iter (fun c ->
      let v = hexv c in
      bits := (v land 1 = 1) :: (v land 2 = 2) :: (v land 4 = 4) :: (v land 8 = 8) :: !bits)
    s;
  (* !bits is lsb first *)
  let rec strip_msb l = match l with [] -> [] | false :: r -> strip_msb r | l -> l in
  let msb_first = strip_msb (List.rev !bits) in
  match msb_first with
  | [] -> None
  | _ :: rest ->
    (* leading 1 is XH; each following bit wraps *)
    Some (List.fold_left (fun acc b -> if b then XI acc else XO acc) XH rest)

let rec to_int_pos (p : positive) : int =
  match p with XH -> 1 | XO q -> 2 * to_int_pos q | XI q -> 2 * to_int_pos q + 1
let to_int_z (x : z) : int =
  match x with Z0 -> 0 | Zpos p -> to_int_pos p | Zneg p -> - (to_int_pos p)

let parse_line (s : string) : cval =
  let n = String.length s in
  let pos = ref 0 in
  let skip_ws () = while !pos < n && (s.[!pos] = ' ' || s.[!pos] = '\t' || s.[!pos] = '\r') do incr pos done in
  let token_end () =
    let j = ref !pos in
    while !j < n && s.[!j] <> ' ' && s.[!j] <> ')' && s.[!j] <> '(' && s.[!j] <> '\r' do incr j done;
    !j in
  let rec item () : cval =
    skip_ws ();
    if !pos >= n then failwith "unexpected end of line";
    match s.[!pos] with
    | '(' ->
      incr pos;
      let acc = ref [] in
      let fin = ref false in
      while not !fin do
        skip_ws ();
        if !pos >= n then failwith "unclosed (";
        if s.[!pos] = ')' then (incr pos; fin := true)
        else acc := item () :: !acc
      done;
      L (List.rev !acc)
    | 'x' ->
      let e = token_end () in
      let l = ref [] in
      let i = ref (e - 2) in
      if (e - !pos - 1) land 1 = 1 then failwith "odd hex length";
      while !i > !pos do
        l := byte_tab.(hexv s.[!i] * 16 + hexv s.[!i + 1]) :: !l;
        i := !i - 2
      done;
      pos := e;
      B !l
    | _ ->
      let e = token_end () in
      let tok = String.sub s !pos (e - !pos) in
      pos := e;
      let neg = String.length tok > 0 && tok.[0] = '-' in
      let body = if neg then String.sub tok 1 (String.length tok - 1) else tok in
      if String.length body > 0 && body.[0] = '#' then begin
        match pos_of_hex (String.sub body 1 (String.length body - 1)) with
        | None -> I Z0
        | Some p -> I (if neg then Zneg p else Zpos p)
      end else
        I (z_of_int (int_of_string tok))
  in
  item ()

let () =
  let total = ref 0 in
  let tags : (int, int) Hashtbl.t = Hashtbl.create 64 in
  let lineno = ref 0 in
  (try
     while true do
       let line = input_line stdin in
       incr lineno;
       if String.length line > 0 && line.[0] <> ';' then begin
         (* a line the driver cannot parse (the harness printed something unexpected) or a model
            evaluation that raises (stack overflow) is a failing case, not a crash of the check *)
         match (try Some (check (parse_line line)) with Stack_overflow -> None | Failure _ -> None | Invalid_argument _ -> None | Not_found -> None) with
         | None ->
           incr total;
           Hashtbl.replace tags (-3) (1 + (try Hashtbl.find tags (-3) with Not_found -> 0));
           Printf.printf "F %d 0 0 -3\n" !lineno
         | Some r ->
         incr total;
         let t = to_int_z r.tag in
         Hashtbl.replace tags t (1 + (try Hashtbl.find tags t with Not_found -> 0));
         if not (r.agree && r.specok) then
           Printf.printf "F %d %d %d %d\n" !lineno (if r.agree then 1 else 0) (if r.specok then 1 else 0) t
       end
     done
   with End_of_file -> ());
  Hashtbl.iter (fun t c -> Printf.printf "T %d %d\n" t c) tags;
  Printf.printf "N %d\n" !total
