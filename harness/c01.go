package main

import (
	"encoding/binary"
	"errors"
	"io"
	"math"
	"sync"

	"github.com/cloudwego/gopkg/bufiox"
	"github.com/cloudwego/gopkg/protocol/thrift"
)

// C01 — Thrift binary codec: every writer and reader agrees with the wire format.
// Case formats: see coq/Corr/C01.v.

// ---------- scripted source (exactly Model/BufReader.v src_read) and recording sink ----------

var c01ErrInjected = errors.New("verif: injected source error")
var c01ErrSink = errors.New("verif: injected sink failure")

type c01Src struct {
	data   []byte
	final  error
	with   bool
	chunks []int
	pos    int
	failed bool
}

func (s *c01Src) Read(p []byte) (int, error) {
	room := len(p)
	c := room
	if len(s.chunks) > 0 {
		c = s.chunks[0]
		s.chunks = s.chunks[1:]
	}
	if s.failed { // read again after the source reported its error: a reader that latched it never gets here
		return 0, c04ErrReadAfterError
	}
	remaining := len(s.data) - s.pos
	if remaining == 0 {
		s.failed = s.final != nil
		return 0, s.final
	}
	m := c
	if room < m {
		m = room
	}
	if remaining < m {
		m = remaining
	}
	copy(p, s.data[s.pos:s.pos+m])
	s.pos += m
	if s.with && m == remaining && m != 0 {
		s.failed = s.final != nil
		return m, s.final
	}
	return m, nil
}

type c01Sink struct {
	calls, failAt int
	got           bool
	last          []byte
}

func (s *c01Sink) Write(p []byte) (int, error) {
	s.calls++
	if s.calls == s.failAt {
		return 0, c01ErrSink
	}
	s.got = true
	s.last = append([]byte(nil), p...)
	return len(p), nil
}

func c01Cause(e error) int {
	switch {
	case e == nil:
		return 0
	case e == io.EOF:
		return 20
	case e == c01ErrInjected:
		return 21
	case e == io.ErrNoProgress:
		return 22
	case e == c01ErrSink:
		return 2
	case e.Error() == "bufiox: negative count":
		return 23
	}
	return 99
}

// error class: () nil | (typeid cause) protocol exception | (-2 c) anything else
func c01ErrCls(err error) V {
	if err == nil {
		return Ls()
	}
	if pe, ok := err.(*thrift.ProtocolException); ok {
		return Ls(I(int(pe.TypeId())), I(c01Cause(pe.Unwrap())))
	}
	c := c01Cause(err)
	if c == 23 {
		c = 1
	}
	return Ls(I(-2), I(c))
}

func c01Expand(v V) []int {
	var out []int
	for _, it := range AsList(v) {
		if l, ok := it.(VL); ok {
			c, k := AsInt(l[0]), AsInt(l[1])
			for i := 0; i < k; i++ {
				out = append(out, c)
			}
		} else {
			out = append(out, AsInt(it))
		}
	}
	return out
}

// script -> reader (nil: no stream reader for this case)
func c01Reader(script V, data []byte) bufiox.Reader {
	a := AsList(script)
	switch AsInt(a[0]) {
	case 0:
		fin := io.EOF
		if AsInt(a[1]) == 21 {
			fin = c01ErrInjected
		}
		return bufiox.NewDefaultReader(&c01Src{data: data, final: fin, with: AsBool(a[2]), chunks: c01Expand(a[3])})
	case 1:
		extra := AsInt(a[1])
		buf := make([]byte, len(data), len(data)+extra)
		copy(buf, data)
		return bufiox.NewBytesReader(buf)
	}
	return nil
}

// ---------- items ----------

type c01Item struct {
	k    int
	z    int64 // scalar value / field type / key type / element type
	z2   int64 // field id / value type
	sz   int64 // container size
	bits uint64
	bs   []byte
}

func c01ParseItem(v V) c01Item {
	a := AsList(v)
	it := c01Item{k: AsInt(a[0])}
	switch it.k {
	case 0, 1, 2, 3, 4:
		it.z = AsI64(a[1])
	case 5:
		it.bits = AsU64(a[1])
	case 6, 7:
		it.bs = AsBytes(a[1])
	case 8:
		it.z, it.z2 = AsI64(a[1]), AsI64(a[2])
	case 9:
	case 10:
		it.z, it.z2, it.sz = AsI64(a[1]), AsI64(a[2]), AsI64(a[3])
	case 11, 12:
		it.z, it.sz = AsI64(a[1]), AsI64(a[2])
	default:
		panic("c01: bad item")
	}
	return it
}

func c01KindOf(it c01Item) int {
	if it.k == 9 {
		return 8
	}
	return it.k
}

func c01WriteInPlace(buf []byte, it c01Item) int {
	p := thrift.Binary
	switch it.k {
	case 0:
		return p.WriteBool(buf, it.z != 0)
	case 1:
		return p.WriteByte(buf, int8(it.z))
	case 2:
		return p.WriteI16(buf, int16(it.z))
	case 3:
		return p.WriteI32(buf, int32(it.z))
	case 4:
		return p.WriteI64(buf, it.z)
	case 5:
		return p.WriteDouble(buf, math.Float64frombits(it.bits))
	case 6:
		// the in-place family has two entry points per string kind: WriteBinary and
		// WriteBinaryNocopy with a nil direct writer (what FastWrite uses); they must agree byte for
		// byte, so the second is run on a twin buffer and, if it differs, ITS result is what is reported
		n := p.WriteBinary(buf, it.bs)
		twin := append([]byte(nil), buf...)
		for i := range twin[:min(len(twin), n)] {
			twin[i] ^= 0x5a
		}
		if n2 := p.WriteBinaryNocopy(twin, nil, it.bs); n2 != n || string(twin[:min(len(twin), n)]) != string(buf[:min(len(buf), n)]) {
			copy(buf, twin)
			return n2
		}
		return n
	case 7:
		n := p.WriteString(buf, string(it.bs))
		twin := append([]byte(nil), buf...)
		for i := range twin[:min(len(twin), n)] {
			twin[i] ^= 0x5a
		}
		if n2 := p.WriteStringNocopy(twin, nil, string(it.bs)); n2 != n || string(twin[:min(len(twin), n)]) != string(buf[:min(len(buf), n)]) {
			copy(buf, twin)
			return n2
		}
		return n
	case 8:
		return p.WriteFieldBegin(buf, thrift.TType(it.z), int16(it.z2))
	case 9:
		return p.WriteFieldStop(buf)
	case 10:
		return p.WriteMapBegin(buf, thrift.TType(it.z), thrift.TType(it.z2), int(it.sz))
	case 11:
		return p.WriteListBegin(buf, thrift.TType(it.z), int(it.sz))
	case 12:
		return p.WriteSetBegin(buf, thrift.TType(it.z), int(it.sz))
	}
	panic("c01: bad item")
}

func c01Append(buf []byte, it c01Item) []byte {
	p := thrift.Binary
	switch it.k {
	case 0:
		return p.AppendBool(buf, it.z != 0)
	case 1:
		return p.AppendByte(buf, int8(it.z))
	case 2:
		return p.AppendI16(buf, int16(it.z))
	case 3:
		return p.AppendI32(buf, int32(it.z))
	case 4:
		return p.AppendI64(buf, it.z)
	case 5:
		return p.AppendDouble(buf, math.Float64frombits(it.bits))
	case 6:
		return p.AppendBinary(buf, it.bs)
	case 7:
		return p.AppendString(buf, string(it.bs))
	case 8:
		return p.AppendFieldBegin(buf, thrift.TType(it.z), int16(it.z2))
	case 9:
		return p.AppendFieldStop(buf)
	case 10:
		return p.AppendMapBegin(buf, thrift.TType(it.z), thrift.TType(it.z2), int(it.sz))
	case 11:
		return p.AppendListBegin(buf, thrift.TType(it.z), int(it.sz))
	case 12:
		return p.AppendSetBegin(buf, thrift.TType(it.z), int(it.sz))
	}
	panic("c01: bad item")
}

func c01Length(it c01Item) int {
	p := thrift.Binary
	switch it.k {
	case 0:
		return p.BoolLength()
	case 1:
		return p.ByteLength()
	case 2:
		return p.I16Length()
	case 3:
		return p.I32Length()
	case 4:
		return p.I64Length()
	case 5:
		return p.DoubleLength()
	case 6:
		return p.BinaryLength(it.bs)
	case 7:
		return p.StringLength(string(it.bs))
	case 8:
		return p.FieldBeginLength()
	case 9:
		return p.FieldStopLength()
	case 10:
		return p.MapBeginLength()
	case 11:
		return p.ListBeginLength()
	case 12:
		return p.SetBeginLength()
	}
	panic("c01: bad item")
}

func c01StreamWrite(w *thrift.BufferWriter, it c01Item) error {
	switch it.k {
	case 0:
		return w.WriteBool(it.z != 0)
	case 1:
		return w.WriteByte(int8(it.z))
	case 2:
		return w.WriteI16(int16(it.z))
	case 3:
		return w.WriteI32(int32(it.z))
	case 4:
		return w.WriteI64(it.z)
	case 5:
		return w.WriteDouble(math.Float64frombits(it.bits))
	case 6:
		return w.WriteBinary(it.bs)
	case 7:
		return w.WriteString(string(it.bs))
	case 8:
		return w.WriteFieldBegin(thrift.TType(it.z), int16(it.z2))
	case 9:
		return w.WriteFieldStop()
	case 10:
		return w.WriteMapBegin(thrift.TType(it.z), thrift.TType(it.z2), int(it.sz))
	case 11:
		return w.WriteListBegin(thrift.TType(it.z), int(it.sz))
	case 12:
		return w.WriteSetBegin(thrift.TType(it.z), int(it.sz))
	}
	panic("c01: bad item")
}

func c01BufRead(kind int, buf []byte) (V, int, error) {
	p := thrift.Binary
	switch kind {
	case 0:
		v, l, err := p.ReadBool(buf)
		return Bo(v), l, err
	case 1:
		v, l, err := p.ReadByte(buf)
		return I64(int64(v)), l, err
	case 2:
		v, l, err := p.ReadI16(buf)
		return I64(int64(v)), l, err
	case 3:
		v, l, err := p.ReadI32(buf)
		return I64(int64(v)), l, err
	case 4:
		v, l, err := p.ReadI64(buf)
		return I64(v), l, err
	case 5:
		v, l, err := p.ReadDouble(buf)
		return U64(math.Float64bits(v)), l, err
	case 6:
		v, l, err := p.ReadBinary(buf)
		return Bs(v), l, err
	case 7:
		v, l, err := p.ReadString(buf)
		return Str(v), l, err
	case 8:
		t, id, l, err := p.ReadFieldBegin(buf)
		return Ls(I64(int64(t)), I64(int64(id))), l, err
	case 10:
		kt, vt, sz, l, err := p.ReadMapBegin(buf)
		return Ls(I64(int64(kt)), I64(int64(vt)), I64(int64(sz))), l, err
	case 11:
		et, sz, l, err := p.ReadListBegin(buf)
		return Ls(I64(int64(et)), I64(int64(sz))), l, err
	case 12:
		et, sz, l, err := p.ReadSetBegin(buf)
		return Ls(I64(int64(et)), I64(int64(sz))), l, err
	}
	panic("c01: bad kind")
}

func c01StreamRead(kind int, r *thrift.BufferReader) (V, error) {
	switch kind {
	case 0:
		v, err := r.ReadBool()
		return Bo(v), err
	case 1:
		v, err := r.ReadByte()
		return I64(int64(v)), err
	case 2:
		v, err := r.ReadI16()
		return I64(int64(v)), err
	case 3:
		v, err := r.ReadI32()
		return I64(int64(v)), err
	case 4:
		v, err := r.ReadI64()
		return I64(v), err
	case 5:
		v, err := r.ReadDouble()
		return U64(math.Float64bits(v)), err
	case 6:
		v, err := r.ReadBinary()
		return Bs(v), err
	case 7:
		v, err := r.ReadString()
		return Str(v), err
	case 8:
		t, id, err := r.ReadFieldBegin()
		return Ls(I64(int64(t)), I64(int64(id))), err
	case 10:
		kt, vt, sz, err := r.ReadMapBegin()
		return Ls(I64(int64(kt)), I64(int64(vt)), I64(int64(sz))), err
	case 11:
		et, sz, err := r.ReadListBegin()
		return Ls(I64(int64(et)), I64(int64(sz))), err
	case 12:
		et, sz, err := r.ReadSetBegin()
		return Ls(I64(int64(et)), I64(int64(sz))), err
	}
	panic("c01: bad kind")
}

// buffer reader over a sequence of kinds
func c01BR(kinds []int, buf []byte) V {
	var vals VL
	var ec V = Ls()
	off := 0
	for _, k := range kinds {
		v, l, err := c01BufRead(k, buf[off:])
		if err != nil {
			ec = c01ErrCls(err)
			break
		}
		vals = append(vals, Ls(v, I(l)))
		off += l
	}
	return Ls(vals, ec)
}

// stream reader over a sequence of kinds, after positioning with Next(prelen)
func c01SR(kinds []int, rd bufiox.Reader, prelen int) V {
	if rd == nil {
		return Ls()
	}
	if prelen > 0 {
		if _, err := rd.Next(prelen); err != nil {
			return Ls(Ls(), c01ErrCls(err), I(rd.ReadLen()))
		}
	}
	// BufferReaders come from a pool: a previous tenant over a reader of the OTHER kind (and before it one
	// of the same kind) has used and recycled the object this case is about to get; nothing of theirs may
	// show through
	decoy := func(sameKind bool) {
		d := Pat(0xA5, 64)
		_, isDefault := rd.(*bufiox.DefaultReader)
		var prev bufiox.Reader
		if isDefault == sameKind {
			prev = bufiox.NewDefaultReader(&c01Src{data: d, final: io.EOF})
		} else {
			prev = bufiox.NewBytesReader(d)
		}
		p := thrift.NewBufferReader(prev)
		p.ReadI64()
		p.ReadFieldBegin()
		p.Recycle()
	}
	decoy(true)
	decoy(false)
	r := thrift.NewBufferReader(rd)
	defer r.Recycle()
	var vals VL
	var ec V = Ls()
	for _, k := range kinds {
		v, err := c01StreamRead(k, r)
		if err != nil {
			ec = c01ErrCls(err)
			break
		}
		vals = append(vals, Ls(v, I64(r.Readn())))
	}
	return Ls(vals, ec, I(rd.ReadLen()))
}

func c01Run(in V) V {
	a := AsList(in)
	switch AsInt(a[0]) {
	case 0:
		var items []c01Item
		for _, v := range AsList(a[1]) {
			items = append(items, c01ParseItem(v))
		}
		off0, slack, seed := AsInt(a[2]), AsInt(a[3]), AsInt(a[4])
		pre, rest := AsBytes(a[5]), AsBytes(a[6])
		script, failk, rounds := a[7], AsInt(a[8]), AsInt(a[9])
		// advertised lengths
		var lns VL
		total := 0
		for _, it := range items {
			n := c01Length(it)
			lns = append(lns, I(n))
			total += n
		}
		// in-place
		buf := Pat(seed, off0+total+slack)
		var wns VL
		off := off0
		for _, it := range items {
			n := c01WriteInPlace(buf[off:], it)
			wns = append(wns, I(n))
			off += n
		}
		// append
		ab := append([]byte(nil), pre...)
		for _, it := range items {
			ab = c01Append(ab, it)
		}
		// stream writer
		sink := &c01Sink{failAt: failk}
		bw := bufiox.NewDefaultWriter(sink)
		w := thrift.NewBufferWriter(bw)
		var rs VL
		for round := 0; round < rounds; round++ {
			var errs VL
			stop := false
			if round == 0 && len(pre) > 0 {
				b, err := bw.Malloc(len(pre))
				errs = append(errs, c01ErrCls(err))
				if err == nil {
					copy(b, pre)
				} else {
					stop = true
				}
			}
			if !stop {
				for _, it := range items {
					err := c01StreamWrite(w, it)
					errs = append(errs, c01ErrCls(err))
					if err != nil {
						break
					}
				}
			}
			wl := bw.WrittenLen()
			sink.got, sink.last = false, nil
			ferr := bw.Flush()
			sk := Ls()
			if sink.got {
				sk = Ls(Bs(sink.last))
			}
			rs = append(rs, Ls(errs, I(wl), c01ErrCls(ferr), sk))
		}
		// readers
		data := append(append([]byte(nil), ab...), rest...)
		var kinds []int
		for _, it := range items {
			kinds = append(kinds, c01KindOf(it))
		}
		br := c01BR(kinds, data[len(pre):])
		sr := c01SR(kinds, c01Reader(script, data), len(pre))
		return Ls(Ls(Bs(buf), wns), Bs(ab), lns, rs, br, sr)
	case 1:
		var kinds []int
		for _, v := range AsList(a[1]) {
			kinds = append(kinds, AsInt(v))
		}
		data := AsBytes(a[2])
		prelen := AsInt(a[3])
		br := c01BR(kinds, data[prelen:])
		sr := c01SR(kinds, c01Reader(a[4], data), prelen)
		return Ls(br, sr)
	case 3:
		return c01Sweep(uint32(AsU64(a[1])), AsU64(a[2]))
	case 2:
		it := c01ParseItem(a[1])
		buf := Pat(AsInt(a[3]), AsInt(a[2]))
		return func() (out V) {
			defer func() {
				if r := recover(); r != nil {
					out = Ls(I(1))
				}
			}()
			n := c01WriteInPlace(buf, it)
			return Ls(I(0), I(n), Bs(buf))
		}()
	}
	panic("c01: bad mode")
}

// i32 range sweep: every value of [lo, lo+n) (as the int32 with that bit pattern) through the
// in-place, append and stream writers and the buffer and stream readers, against
// encoding/binary; returns the number of disagreements and a few (value bytes) samples that the
// model checks against enc.
func c01Sweep(lo uint32, n uint64) V {
	const chunk = 4096
	nchunks := int((n + chunk - 1) / chunk)
	workers := 8
	bad := make([]uint64, workers)
	var wg sync.WaitGroup
	for w := 0; w < workers; w++ {
		wg.Add(1)
		go func(w int) {
			defer wg.Done()
			ref := make([]byte, 0, chunk*4)
			four := make([]byte, 4)
			for c := w; c < nchunks; c += workers {
				start := uint64(c) * chunk
				cnt := uint64(chunk)
				if start+cnt > n {
					cnt = n - start
				}
				ref = ref[:0]
				var app []byte
				var out []byte
				bw := bufiox.NewBytesWriter(&out)
				sw := thrift.NewBufferWriter(bw)
				for i := uint64(0); i < cnt; i++ {
					u := lo + uint32(start+i)
					v := int32(u)
					ref = binary.BigEndian.AppendUint32(ref, u)
					if thrift.Binary.WriteI32(four, v) != 4 || binary.BigEndian.Uint32(four) != u {
						bad[w]++
					}
					app = thrift.Binary.AppendI32(app, v)
					if sw.WriteI32(v) != nil {
						bad[w]++
					}
				}
				if bw.Flush() != nil || string(out) != string(ref) || string(app) != string(ref) {
					bad[w]++
				}
				sr := thrift.NewBufferReader(bufiox.NewBytesReader(ref))
				for i := uint64(0); i < cnt; i++ {
					u := lo + uint32(start+i)
					v, l, err := thrift.Binary.ReadI32(ref[i*4:])
					if err != nil || l != 4 || v != int32(u) {
						bad[w]++
					}
					v2, err2 := sr.ReadI32()
					if err2 != nil || v2 != int32(u) {
						bad[w]++
					}
				}
				if sr.Readn() != int64(cnt*4) {
					bad[w]++
				}
				sw.Recycle()
				sr.Recycle()
			}
		}(w)
	}
	wg.Wait()
	total := uint64(0)
	for _, b := range bad {
		total += b
	}
	var samples VL
	for _, off := range []uint64{0, 1, n / 3, n / 2, n - 2, n - 1} {
		if off < n {
			v := int32(lo + uint32(off))
			samples = append(samples, Ls(I64(int64(v)), Bs(thrift.Binary.AppendI32(nil, v))))
		}
	}
	return Ls(U64(total), samples)
}

// ---------- independent encoder (generator side only: truncated / malformed inputs) ----------
func c01Enc(it c01Item) []byte {
	var b []byte
	u32 := func(x uint32) { b = binary.BigEndian.AppendUint32(b, x) }
	switch it.k {
	case 0, 1:
		b = append(b, byte(it.z))
	case 2:
		b = binary.BigEndian.AppendUint16(b, uint16(it.z))
	case 3:
		u32(uint32(it.z))
	case 4:
		b = binary.BigEndian.AppendUint64(b, uint64(it.z))
	case 5:
		b = binary.BigEndian.AppendUint64(b, it.bits)
	case 6, 7:
		u32(uint32(len(it.bs)))
		b = append(b, it.bs...)
	case 8:
		b = append(b, byte(it.z))
		b = binary.BigEndian.AppendUint16(b, uint16(it.z2))
	case 9:
		b = append(b, 0)
	case 10:
		b = append(b, byte(it.z), byte(it.z2))
		u32(uint32(it.sz))
	case 11, 12:
		b = append(b, byte(it.z))
		u32(uint32(it.sz))
	}
	return b
}

// ---------- generation ----------
const c01B = 4096

type c01Script struct {
	name string
	v    V
}

func c01Scripts(n int) []c01Script {
	tail := 5 // small tail chunks only for small streams (the list model is quadratic in chunk count x window)
	if n > 5000 {
		tail = 3000
	}
	return []c01Script{
		{"one", Ls(I(0), I(20), I(0), Ls())},
		{"one+eof", Ls(I(0), I(20), I(1), Ls())},
		{"bytewise", Ls(I(0), I(20), I(0), Ls(Ls(I(1), I(n+2))))},
		{"bytewise+eof", Ls(I(0), I(21), I(1), Ls(Ls(I(1), I(n+2))))},
		{"short", Ls(I(0), I(20), I(0), Ls(I(3), I(1), I(7), I(100), I(2), Ls(I(997), I(n/997+2))))},
		{"empties", Ls(I(0), I(20), I(1), Ls(I(0), I(5), I(0), I(0), I(700), Ls(I(0), I(99)), I(1), Ls(I(0), I(99)), I(2), I(0), I(3), Ls(I(4000), I(n/4000+2))))},
		{"bigchunk", Ls(I(0), I(21), I(0), Ls(I(3*c01B), I(1), Ls(I(5*c01B), I(n/c01B+2))))},
		{"bytes", Ls(I(1), I(n%3))},
		{"empties1", Ls(I(0), I(20), I(0), Ls(Ls(I(0), I(3)), I(1), Ls(I(0), I(50)), I(1), I(0), I(2), I(0), I(1), Ls(I(0), I(99)), Ls(I(tail), I(n/tail+2))))},
	}
}

func c01IsBytewise(name string) bool { return name == "bytewise" || name == "bytewise+eof" }

func c01Gen(g *Gen) {
	cnt := 0
	// mode 0 case with rotating script / placement parameters
	emit := func(class string, items []V, pre, rest V, total int, scriptSel int, failk, rounds int) {
		scs := c01Scripts(total + 64)
		sc := scs[scriptSel%len(scs)]
		cnt++
		g.Add(class+"/"+sc.name, Ls(I(0), VL(items), I(cnt%5), I(cnt%4), I(cnt%256), pre, rest, sc.v, I(failk), I(rounds)))
	}
	batch := func(class string, items []V, per int) {
		for i := 0; i < len(items); i += per {
			j := i + per
			if j > len(items) {
				j = len(items)
			}
			pre := PatV(cnt, []int{0, 3, 0, 17}[cnt%4])
			rest := PatV(cnt+5, []int{0, 2, 9}[cnt%3])
			fk := 0
			if cnt%9 == 4 {
				fk = 1 + cnt%2
			}
			emit(class, items[i:j], pre, rest, per*9, cnt, fk, 1+cnt%2)
		}
	}
	it1 := func(k int, v int64) V { return Ls(I(k), I64(v)) }
	// 1. exhaustive bool / i8 / i16
	batch("bool", []V{it1(0, 0), it1(0, 1), it1(0, 1), it1(0, 0)}, 4)
	var xs []V
	for v := -128; v <= 127; v++ {
		xs = append(xs, it1(1, int64(v)))
	}
	batch("i8", xs, 64)
	xs = nil
	for v := -32768; v <= 32767; v++ {
		xs = append(xs, it1(2, int64(v)))
	}
	batch("i16", xs, 256)
	// 2. structured i32 / i64 / double patterns
	pat64 := func() []uint64 {
		var out []uint64
		for b := 0; b < 64; b++ {
			out = append(out, uint64(1)<<b, ^(uint64(1) << b), (uint64(1)<<b)-1, (uint64(1)<<b)+1)
		}
		out = append(out, 0, ^uint64(0), 0x0102030405060708, 0x0807060504030201, 0x8000000000000000, 0x7fffffffffffffff,
			0x00000000ffffffff, 0xffffffff00000000, 0x0000000080000000, 0x000000007fffffff, 0x00ff00ff00ff00ff, 0xf0e0d0c0b0a09080,
			// doubles: +-0, +-inf, quiet/signalling NaNs with payloads, subnormals, 1.0
			0x7ff0000000000000, 0xfff0000000000000, 0x7ff8000000000000, 0x7ff0000000000001, 0x7ff4000000000000, 0xfff8000000000001,
			0x7fffffffffffffff, 0xffffffffffffffff, 0x7ff00000deadbeef, 0x0000000000000001, 0x000fffffffffffff, 0x3ff0000000000000)
		for i := 0; i < g.Scale(3000, 20000); i++ {
			out = append(out, g.R.Uint64())
		}
		return out
	}
	xs = nil
	for _, u := range pat64() {
		xs = append(xs, it1(3, int64(int32(uint32(u)))), it1(3, int64(int32(uint32(u>>32)))))
	}
	batch("i32", xs, 64)
	xs = nil
	for _, u := range pat64() {
		xs = append(xs, it1(4, int64(u)))
	}
	batch("i64", xs, 64)
	xs = nil
	for _, u := range pat64() {
		xs = append(xs, Ls(I(5), U64(u)))
	}
	batch("double", xs, 64)
	// 3. field headers: all type bytes x boundary ids; all 65536 ids for one type
	ids := []int{0, 1, -1, 2, 127, 128, 255, 256, -256, 0x1234, -0x1234, 32767, -32768, 0x7f80, -129}
	xs = nil
	for t := -128; t <= 127; t++ {
		if t == 0 {
			continue
		}
		for _, id := range ids {
			xs = append(xs, Ls(I(8), I(t), I(id)))
		}
		if t%16 == 0 {
			xs = append(xs, Ls(I(9)))
		}
	}
	batch("field", xs, 64)
	for _, id := range ids { // type STOP written as a field header: reads back as STOP, 1 byte
		emit("field-stop-type", []V{Ls(I(8), I(0), I(id))}, PatV(1, 0), PatV(2, 3), 8, cnt, 0, 1)
	}
	xs = nil
	for id := -32768; id <= 32767; id++ {
		xs = append(xs, Ls(I(8), I(8), I(id)))
	}
	batch("field-ids", xs, 256)
	// 4. container headers: all type bytes x boundary sizes
	sizes := []int64{0, 1, 2, 255, 256, 65535, 65536, 1<<31 - 1, 1 << 31, 1<<32 - 1, -1, 1 << 32, -1 << 31, 0x01020304}
	xs = nil
	for t := -128; t <= 127; t++ {
		for si, sz := range sizes {
			if (t+128+si)%3 == 0 || t == 11 || t == 0 || t == -128 || t == 127 {
				xs = append(xs, Ls(I(10), I(t), I(((t*7+si)%256+256)%256-128), I64(sz)), Ls(I(11), I(t), I64(sz)), Ls(I(12), I(t), I64(sz)))
			}
		}
	}
	batch("container", xs, 48)
	// 5. strings / binaries by length class
	lens := []int{}
	for n := 0; n <= 64; n++ {
		lens = append(lens, n)
	}
	lens = append(lens, 100, 101, 127, 128, 150, 255, 256, 257, 300, 1000, 2048, 4000)
	big := []int{4090, 4091, 4092, 4093, 4095, 4096, 4097, 8191, 8192, 8193, 12288, 65535, 65536, 70000}
	for _, n := range lens {
		for k := 6; k <= 7; k++ {
			for j := 0; j < 3; j++ {
				pre := PatV(n, []int{0, 5, c01B - 3}[j]*(1-(n%2)*(j/2)))
				emit("str", []V{Ls(I(k), PatV(n+k, n))}, pre, PatV(9, j*3), n+c01B, cnt+j, 0, 1+j%2)
			}
		}
	}
	for bi, n := range big {
		for k := 6; k <= 7; k++ {
			scs := c01Scripts(n)
			for si, sc := range scs {
				if c01IsBytewise(sc.name) && n > 4097 && !(n == 8193 && k == 7 && sc.name == "bytewise") {
					continue
				}
				if !g.Thor && n > 8193 && si%3 != (bi+k)%3 {
					continue
				}
				if !g.Thor && (si+bi+k)%2 == 0 && !c01IsBytewise(sc.name) {
					continue
				}
				cnt++
				g.Add("bigstr/"+sc.name, Ls(I(0), Ls(Ls(I(k), PatV(n+k, n))), I(cnt%5), I(cnt%4), I(cnt%256), PatV(3, (cnt%3)*2), PatV(9, cnt%4), sc.v, I(0), I(1)))
			}
		}
	}
	// non-UTF-8 / embedded NUL content
	for _, s := range [][]byte{{0xff}, {0xff, 0xfe, 0x00, 0xc0, 0x80}, {0x00}, {0x00, 0x00, 0x00, 0x00}, {0xed, 0xa0, 0x80, 0xf8, 0x88}, {0x80, 0x81, 0x82}} {
		for k := 6; k <= 7; k++ {
			emit("str-bytes", []V{Ls(I(k), Bs(s)), Ls(I(k), Bs(s))}, PatV(1, 1), PatV(2, 2), 64, cnt, 0, 2)
		}
	}
	// 6. mixed sequences
	randItem := func() V {
		switch g.R.Intn(13) {
		case 0:
			return it1(0, int64(g.R.Intn(2)))
		case 1:
			return it1(1, int64(g.R.Intn(256)-128))
		case 2:
			return it1(2, int64(g.R.Intn(65536)-32768))
		case 3:
			return it1(3, int64(int32(g.R.Uint32())))
		case 4:
			return it1(4, int64(g.R.Uint64()))
		case 5:
			return Ls(I(5), U64(g.R.Uint64()))
		case 6, 7:
			n := g.R.Intn(40)
			if g.R.Intn(12) == 0 {
				n = 100 + g.R.Intn(400)
			}
			return Ls(I(6+g.R.Intn(2)), PatV(g.R.Intn(256), n))
		case 8:
			return Ls(I(8), I(1+g.R.Intn(127)-128*g.R.Intn(2)), I(g.R.Intn(65536)-32768))
		case 9:
			return Ls(I(9))
		case 10:
			return Ls(I(10), I(g.R.Intn(256)-128), I(g.R.Intn(256)-128), I64(int64(g.R.Uint32())))
		case 11:
			return Ls(I(11), I(g.R.Intn(256)-128), I64(int64(g.R.Uint32()>>uint(g.R.Intn(32)))))
		}
		return Ls(I(12), I(g.R.Intn(256)-128), I64(int64(g.R.Intn(1000))))
	}
	for i := 0; i < g.Scale(2500, 30000); i++ {
		n := 1 + g.R.Intn(10)
		var items []V
		for j := 0; j < n; j++ {
			items = append(items, randItem())
		}
		pl := g.R.Intn(20)
		if g.R.Intn(10) == 0 {
			pl = c01B - 30 + g.R.Intn(60)
		}
		fk := 0
		if g.R.Intn(5) == 0 {
			fk = 1 + g.R.Intn(2)
		}
		scs := c01Scripts(pl + 600)
		sc := scs[g.R.Intn(len(scs))]
		if g.R.Intn(3) == 0 { // random script
			var ch VL
			for j := 0; j < 12; j++ {
				switch g.R.Intn(5) {
				case 0:
					ch = append(ch, Ls(I(0), I(g.R.Intn(60))))
				case 1:
					ch = append(ch, I(1+g.R.Intn(2*c01B)))
				default:
					ch = append(ch, Ls(I(1+g.R.Intn(9)), I(1+g.R.Intn(20))))
				}
			}
			sc = c01Script{"random", Ls(I(0), I(20+g.R.Intn(2)), I(g.R.Intn(2)), ch)}
		}
		cnt++
		g.Add("mixed/"+sc.name, Ls(I(0), VL(items), I(g.R.Intn(6)), I(g.R.Intn(4)), I(g.R.Intn(256)), PatV(g.R.Intn(256), pl), PatV(g.R.Intn(256), g.R.Intn(12)), sc.v, I(fk), I(1+g.R.Intn(2))))
	}
	// 7. mode 1: malformed / truncated inputs
	dec := func(class string, kinds []int, data []byte, prelen int, sc V) {
		var ks VL
		for _, k := range kinds {
			ks = append(ks, I(k))
		}
		g.Add(class, Ls(I(1), ks, Bs(data), I(prelen), sc))
	}
	noSR := Ls(I(2))
	samples := []c01Item{
		{k: 0, z: 1}, {k: 1, z: -3}, {k: 2, z: -2}, {k: 3, z: 0x01020304}, {k: 4, z: -0x0102030405060708}, {k: 5, bits: 0x7ff0000000000001},
		{k: 6, bs: []byte{}}, {k: 6, bs: []byte{0xff}}, {k: 7, bs: Pat(3, 5)}, {k: 7, bs: Pat(4, 130)}, {k: 6, bs: Pat(5, 100)},
		{k: 8, z: 11, z2: -2}, {k: 9}, {k: 10, z: 11, z2: 12, sz: 7}, {k: 11, z: 8, sz: 1<<31 - 1}, {k: 12, z: -1, sz: 1 << 31},
	}
	for _, it := range samples {
		e := c01Enc(it)
		kind := c01KindOf(it)
		for cut := 0; cut <= len(e); cut++ {
			scs := c01Scripts(len(e) + 8)
			for si, sc := range scs {
				if len(e) > 20 && cut > 8 && cut < len(e)-3 && (si+cut)%4 != 0 {
					continue
				}
				dec("trunc/"+sc.name, []int{kind}, e[:cut], 0, sc.v)
			}
			// after a prefix and after another item
			pre := Pat(cut, 3)
			dec("trunc/pre", []int{kind}, append(append([]byte(nil), pre...), e[:cut]...), 3, scs[cut%len(scs)].v)
			dec("trunc/second", []int{3, kind}, append([]byte{0, 0, 0, 9}, e[:cut]...), 0, scs[(cut+1)%len(scs)].v)
		}
	}
	// string / binary length fields: negative, huge, just beyond the data
	for _, lf := range []uint32{0x80000000, 0xffffffff, 0xfffffffe, 0x80000001, 0xc0000000, 0x7fffffff, 0x7ffffffe, 0x40000000, 0x00100000, 0x00010000, 0x00001001, 6, 5, 4, 1} {
		for k := 6; k <= 7; k++ {
			d := binary.BigEndian.AppendUint32(nil, lf)
			d = append(d, 1, 2, 3, 4, 5)
			if lf >= 0x80000000 || lf <= 0x00100000 {
				scs := c01Scripts(16)
				for _, sc := range scs {
					dec("lenfield/"+sc.name, []int{k, 1}, d, 0, sc.v)
				}
			} else { // the stream reader would allocate the declared size: buffer reader only
				dec("lenfield/buf-only", []int{k, 1}, d, 0, noSR)
			}
		}
	}
	// every byte as a bool; every first byte as a field header
	all := make([]byte, 256)
	kb := make([]int, 256)
	for i := range all {
		all[i] = byte(i)
	}
	for _, sc := range c01Scripts(300) {
		dec("bool-bytes/"+sc.name, kb, all, 0, sc.v)
	}
	for t := 0; t < 256; t++ {
		dec("field-bytes", []int{8, 8}, []byte{byte(t), byte(t), byte(t + 1), byte(t + 7), 1, 2}, 0, c01Scripts(8)[t%9].v)
	}
	// random bytes, random kinds
	allKinds := []int{0, 1, 2, 3, 4, 5, 6, 7, 8, 10, 11, 12}
	for i := 0; i < g.Scale(4000, 40000); i++ {
		n := g.R.Intn(24)
		d := make([]byte, n)
		for j := range d {
			switch g.R.Intn(3) {
			case 0:
				d[j] = 0
			case 1:
				d[j] = byte(g.R.Intn(8))
			default:
				d[j] = byte(g.R.Intn(256))
			}
		}
		var ks []int
		for j := 1 + g.R.Intn(4); j > 0; j-- {
			k := allKinds[g.R.Intn(len(allKinds))]
			ks = append(ks, k)
		}
		// keep declared string sizes allocatable: a length field with the top bits clear
		sc := c01Scripts(n + 8)[g.R.Intn(9)].v
		pl := 0
		if n > 0 && g.R.Intn(4) == 0 {
			pl = g.R.Intn(n + 1)
		}
		safe := true
		for j := 0; j+4 <= n; j++ {
			if d[j] != 0 && d[j] < 0x80 { // could be read as a length of 2^24 .. 2^31-1
				safe = false
			}
		}
		if !safe {
			sc = noSR
		}
		dec("random", ks, d, pl, sc)
	}
	// 8. mode 2: in-place writers into buffers of every length around the encoding
	for _, it := range []V{it1(0, 1), it1(1, -1), it1(2, 258), it1(3, -2), it1(4, 1<<40 + 5), Ls(I(5), U64(0x7ff8000000000001)),
		Ls(I(6), Bs([]byte{})), Ls(I(6), Bs([]byte{9, 8, 7})), Ls(I(7), PatV(1, 10)), Ls(I(8), I(11), I(513)), Ls(I(9)),
		Ls(I(10), I(3), I(-4), I(70000)), Ls(I(11), I(12), I(-1)), Ls(I(12), I(-128), I(5))} {
		n := len(c01Enc(c01ParseItem(it)))
		for bl := 0; bl <= n+2; bl++ {
			g.Add("inplace-fit", Ls(I(2), it, I(bl), I(bl*3+1)))
		}
	}
	// 9. i32 range sweeps inside the harness (thorough: all 2^32 values; quick: the sign / carry zones)
	if g.Thor {
		for hi := 0; hi < 256; hi++ {
			g.Add("i32-sweep", Ls(I(3), U64(uint64(hi)<<24), U64(1<<24)))
		}
	} else {
		for _, lo := range []uint64{0, 0x7fff8000, 0x80000000 - 1<<15, 0xffff0000, 0x00ff8000, 0xfffe0000 + 1<<15} {
			g.Add("i32-sweep", Ls(I(3), U64(lo), U64(1<<16)))
		}
	}
	g.R.Shuffle(len(g.cases), func(i, j int) { g.cases[i], g.cases[j] = g.cases[j], g.cases[i] })
}

func init() {
	register("C01", &Prop{Gen: c01Gen, Run: c01Run})
}
