package main

import (
	"fmt"
	"encoding/binary"
	"errors"
	"io"

	"github.com/cloudwego/gopkg/bufiox"
	"github.com/cloudwego/gopkg/protocol/thrift"
)

// C17 — decode failures carry the Thrift exception type for their cause.
// Case format: see coq/Corr/C17.v.  Entry points are selected by a tag so that further ones
// (Binary.Skip, the skip decoders) can be added without touching the existing cases.

var c17ErrInjected = errors.New("verif: injected source error (c17)")

// scripted source: exactly Model/BufReader.v src_read
type c17Src struct {
	data   []byte
	final  error
	with   bool
	chunks []int
	pos    int
}

func (s *c17Src) Read(p []byte) (int, error) {
	room := len(p)
	c := room
	if len(s.chunks) > 0 {
		c = s.chunks[0]
		s.chunks = s.chunks[1:]
	}
	remaining := len(s.data) - s.pos
	if remaining == 0 {
		return 0, s.final
	}
	m := c
	if room < m {
		m = room
	}
	if remaining < m {
		m = remaining
	}
	copy(p, s.data[s.pos:s.pos+m])
	s.pos += m
	if s.with && m == remaining && m != 0 {
		return m, s.final
	}
	return m, nil
}

type c17Layered struct{ pe *thrift.ProtocolException }

func (e *c17Layered) Error() string        { return "lower layer: " + e.pe.Error() }
func (e *c17Layered) Unwrap() error        { return e.pe }
func (e *c17Layered) Is(target error) bool { return target == c17ErrInjected }

func chunks0(s []V) []V { return AsList(s[2]) }

func c17Obs(err error) V {
	if err == nil {
		return Ls(I(0))
	}
	pe, isp := err.(*thrift.ProtocolException)
	tid := -1
	if isp {
		tid = int(pe.TypeId())
	} else if t, ok := err.(interface{ TypeId() int32 }); ok {
		tid = int(t.TypeId())
	}
	return Ls(I(1), Bo(isp), I(tid), Bo(errors.Unwrap(err) != nil),
		Bo(errors.Is(err, io.EOF)), Bo(errors.Is(err, c17ErrInjected)), Bo(errors.Is(err, io.ErrNoProgress)))
}

func c17Mem(kind int, b []byte) error {
	var err error
	p := thrift.Binary
	switch kind {
	case 0:
		_, _, err = p.ReadBool(b)
	case 1:
		_, _, err = p.ReadByte(b)
	case 2:
		_, _, err = p.ReadI16(b)
	case 3:
		_, _, err = p.ReadI32(b)
	case 4:
		_, _, err = p.ReadI64(b)
	case 5:
		_, _, err = p.ReadDouble(b)
	case 6:
		_, _, err = p.ReadBinary(b)
	case 7:
		_, _, err = p.ReadString(b)
	case 8:
		_, _, _, err = p.ReadFieldBegin(b)
	case 9:
		_, _, _, _, err = p.ReadMapBegin(b)
	case 10:
		_, _, _, err = p.ReadListBegin(b)
	case 11:
		_, _, _, err = p.ReadSetBegin(b)
	default:
		panic("c17: bad kind")
	}
	return err
}

func c17Stream(kind int, r *thrift.BufferReader) error {
	var err error
	switch kind {
	case 0:
		_, err = r.ReadBool()
	case 1:
		_, err = r.ReadByte()
	case 2:
		_, err = r.ReadI16()
	case 3:
		_, err = r.ReadI32()
	case 4:
		_, err = r.ReadI64()
	case 5:
		_, err = r.ReadDouble()
	case 6:
		_, err = r.ReadBinary()
	case 7:
		_, err = r.ReadString()
	case 8:
		_, _, err = r.ReadFieldBegin()
	case 9:
		_, _, _, err = r.ReadMapBegin()
	case 10:
		_, _, err = r.ReadListBegin()
	case 11:
		_, _, err = r.ReadSetBegin()
	case 12:
		_, _, _, err = r.ReadMessageBegin()
	default:
		panic("c17: bad kind")
	}
	return err
}

func c17Run(in V) V {
	a := AsList(in)
	switch AsInt(a[1]) {
	case 0:
		return c17Obs(c17Mem(AsInt(a[2]), AsBytes(a[3])))
	case 1:
		_, _, _, _, err := thrift.Binary.ReadMessageBegin(AsBytes(a[2]))
		return c17Obs(err)
	case 2:
		s := AsList(a[4])
		final := io.EOF
		if AsInt(s[0]) == 21 {
			// the injected value is the sentinel itself, the sentinel wrapped by a lower layer, or a
			// lower layer's error that matches the sentinel AND carries a thrift ProtocolException in
			// its chain (a framing layer that failed while decoding): all three must stay matchable
			// with errors.Is after the stream reader has wrapped them
			d := AsBytes(a[3])
			switch (len(d) + len(chunks0(s))) % 3 {
			case 0:
				final = c17ErrInjected
			case 1:
				final = fmt.Errorf("read frame: %w", c17ErrInjected)
			default:
				final = &c17Layered{pe: thrift.NewProtocolException(thrift.INVALID_DATA, "frame header")}
			}
		}
		var chunks []int
		for _, c := range AsList(s[2]) {
			chunks = append(chunks, AsInt(c))
		}
		src := &c17Src{data: AsBytes(a[3]), final: final, with: AsInt(s[1]) != 0, chunks: chunks}
		r := thrift.NewBufferReader(bufiox.NewDefaultReader(src))
		return c17Obs(c17Stream(AsInt(a[2]), r))
	}
	panic("c17: unknown tag")
}

// ---- generator ----
func c17BE32(x uint32) []byte {
	var b [4]byte
	binary.BigEndian.PutUint32(b[:], x)
	return b[:]
}

// a valid encoding of one item of the kind (with a payload of n bytes for binary/string)
func c17Valid(g *Gen, kind, n int) []byte {
	rnd := func(k int) []byte {
		b := make([]byte, k)
		g.R.Read(b)
		return b
	}
	switch kind {
	case 0, 1:
		return rnd(1)
	case 2:
		return rnd(2)
	case 3:
		return rnd(4)
	case 4, 5:
		return rnd(8)
	case 6, 7:
		return append(c17BE32(uint32(n)), rnd(n)...)
	case 8:
		b := rnd(3)
		if b[0] == 0 {
			b[0] = 11
		}
		return b
	case 9:
		return rnd(6)
	case 10, 11:
		return rnd(5)
	}
	panic("kind")
}

func c17Msg(g *Gen, version uint32, name []byte) []byte {
	b := c17BE32(version)
	b = append(b, c17BE32(uint32(len(name)))...)
	b = append(b, name...)
	return append(b, c17BE32(g.R.Uint32())...)
}

func c17Source(g *Gen, total int) V {
	var chunks []V
	switch g.R.Intn(4) {
	case 0: // one byte per Read
		for k := 0; k < total+2 && k < 300; k++ {
			chunks = append(chunks, I(1))
		}
	case 1:
		for k := g.R.Intn(6); k > 0; k-- {
			chunks = append(chunks, I(1+g.R.Intn(total+2)))
		}
	case 2: // with some empty reads
		for k := g.R.Intn(6); k > 0; k-- {
			chunks = append(chunks, I(g.R.Intn(3)))
		}
	}
	return Ls(I(20+g.R.Intn(2)), I(g.R.Intn(2)), Ls(chunks...))
}

func c17Gen(g *Gen) {
	mem := func(class string, kind int, b []byte) { g.Add(class, Ls(I(0), I(0), I(kind), Bs(b))) }
	msg := func(class string, hint int, b []byte) { g.Add(class, Ls(I(hint), I(1), Bs(b))) }
	str := func(class string, kind int, b []byte) {
		g.Add(class, Ls(I(0), I(2), I(kind), Bs(b), c17Source(g, len(b))))
	}
	negs := []uint32{0xffffffff, 0x80000000, 0x80000001, 0xfffffffe, 0xc0000000, 0xffff0000}
	// every kind: valid encodings, every truncation point, trailing bytes
	for kind := 0; kind <= 11; kind++ {
		for rep := 0; rep < g.Scale(3, 40); rep++ {
			for _, n := range []int{0, 1, 2, 5, 17} {
				if n > 0 && kind != 6 && kind != 7 {
					continue
				}
				v := c17Valid(g, kind, n)
				for cut := 0; cut <= len(v); cut++ {
					mem("mem-trunc", kind, v[:cut])
					str("stream-trunc", kind, v[:cut])
				}
				mem("mem-trailing", kind, append(append([]byte{}, v...), 1, 2, 3))
				str("stream-trailing", kind, append(append([]byte{}, v...), 1, 2, 3))
			}
		}
	}
	// field begin: STOP alone and followed by bytes
	for _, b := range [][]byte{{0}, {0, 1}, {0, 1, 2}, {12}, {12, 0}, {12, 0, 1}, {0x80}, {0xff, 1}} {
		mem("mem-field", 8, b)
		str("stream-field", 8, b)
	}
	// negative and oversized length fields of binary/string
	for kind := 6; kind <= 7; kind++ {
		for _, x := range negs {
			for _, tail := range []int{0, 1, 4, 9} {
				b := append(c17BE32(x), make([]byte, tail)...)
				mem("mem-negative", kind, b)
				str("stream-negative", kind, b)
			}
			mem("mem-negative-short", kind, c17BE32(x)[:3])
		}
		for _, x := range []uint32{1, 2, 100, 0x7fffffff, 0x10000, 0x7fffff00} {
			for _, tail := range []int{0, 1, 50} {
				mem("mem-oversized", kind, append(c17BE32(x), make([]byte, tail)...))
			}
		}
		// size classes up to a few MiB: a failure of the underlying reader must be wrapped whatever
		// the declared size is (the stream reader allocates the declared size first, so keep it modest)
		for _, x := range []uint32{1<<20 - 1, 1 << 20, 1<<20 + 1, 3 << 20, 5<<20 + 7} {
			for _, tail := range []int{0, 1, 50, 5000} {
				str("stream-oversized-large", kind, append(c17BE32(x), make([]byte, tail)...))
			}
		}
		for _, x := range []uint32{1, 2, 100, 5000, 70000} { // the stream reader allocates the declared size first
			for _, tail := range []int{0, 1, 50} {
				str("stream-oversized", kind, append(c17BE32(x), make([]byte, tail)...))
			}
		}
	}
	// message begin: every truncation point, bad version words, negative / oversized name lengths
	versions := []uint32{0x80010000, 0x80010001, 0x80010002, 0x80010003, 0x80010004, 0x8001ffff, 0x800100ff}
	bad := []uint32{0, 1, 0x80000000, 0x80020001, 0x80000001, 0x00010001, 0x7fff0001, 0x80110001, 0x8001 << 15, 0xffffffff, 0x81010001, 0x80030000, 0x00008001}
	for _, nm := range []int{0, 1, 5, 40, 300} {
		name := make([]byte, nm)
		g.R.Read(name)
		for _, ver := range versions[:g.Scale(3, 7)] {
			m := c17Msg(g, ver, name)
			for cut := 0; cut <= len(m); cut++ {
				if nm > 40 && cut > 12 && cut < len(m)-6 && cut%37 != 0 {
					continue
				}
				msg("msg-trunc", 0, m[:cut])
				str("stream-msg-trunc", 12, m[:cut])
			}
			msg("msg-trailing", 0, append(append([]byte{}, m...), 9, 9))
		}
		for _, ver := range bad {
			m := c17Msg(g, ver, name)
			msg("msg-badversion", 0, m)
			msg("msg-badversion-short", 0, m[:4])
			str("stream-msg-badversion", 12, m)
			if len(m) > 5 {
				msg("msg-badversion-trunc", 0, m[:3])
			}
		}
	}
	for _, x := range negs {
		for _, tail := range []int{0, 4, 12} {
			m := append(append(c17BE32(0x80010001), c17BE32(x)...), make([]byte, tail)...)
			msg("msg-negative-name", 77, m) // known finding: reported as INVALID_DATA by Binary.ReadMessageBegin
			str("stream-msg-negative-name", 12, m)
		}
		msg("msg-negative-name-badversion", 0, append(c17BE32(0x80020001), c17BE32(x)...))
	}
	for _, x := range []uint32{1, 7, 1000, 0x7fffffff} {
		msg("msg-oversized-name", 0, append(c17BE32(0x80010001), c17BE32(x)...))
	}
	// random prefixes of random valid items through the stream reader with injected errors
	n := g.Scale(300, 20000)
	for i := 0; i < n; i++ {
		kind := g.R.Intn(13)
		var v []byte
		if kind == 12 {
			name := make([]byte, g.R.Intn(30))
			v = c17Msg(g, versions[g.R.Intn(len(versions))], name)
		} else {
			v = c17Valid(g, kind, g.R.Intn(60))
		}
		cut := g.R.Intn(len(v) + 1)
		if g.R.Intn(3) == 0 {
			cut = len(v)
		}
		str("stream-random", kind, v[:cut])
	}
}

func init() {
	register("C17", &Prop{Gen: c17Gen, Run: c17Run})
}
