package main

import (
	"encoding/binary"
	"errors"
	"fmt"
	"io"

	"github.com/cloudwego/gopkg/bufiox"
	"github.com/cloudwego/gopkg/protocol/thrift"
)

// C17 — decode failures carry the Thrift exception type for their cause.
// Case format: see coq/Corr/C17.v.  Entry points are selected by a tag so that further ones
// (Binary.Skip, the skip decoders) can be added without touching the existing cases.

var c17ErrInjected = errors.New("verif: injected source error (c17)")

// scripted source: exactly Model/BufReader.v src_read
type c17Src struct {
	data   []byte
	final  error
	with   bool
	chunks []int
	pos    int
}

func (s *c17Src) Read(p []byte) (int, error) {
	room := len(p)
	c := room
	if len(s.chunks) > 0 {
		c = s.chunks[0]
		s.chunks = s.chunks[1:]
	}
	remaining := len(s.data) - s.pos
	if remaining == 0 {
		return 0, s.final
	}
	m := c
	if room < m {
		m = room
	}
	if remaining < m {
		m = remaining
	}
	copy(p, s.data[s.pos:s.pos+m])
	s.pos += m
	if s.with && m == remaining && m != 0 {
		return m, s.final
	}
	return m, nil
}

type c17Layered struct{ pe *thrift.ProtocolException }

func (e *c17Layered) Error() string        { return "lower layer: " + e.pe.Error() }
func (e *c17Layered) Unwrap() error        { return e.pe }
func (e *c17Layered) Is(target error) bool { return target == c17ErrInjected }

func chunks0(s []V) []V { return AsList(s[2]) }

func c17Obs(err error) V {
	if err == nil {
		return Ls(I(0))
	}
	pe, isp := err.(*thrift.ProtocolException)
	tid := -1
	if isp {
		tid = int(pe.TypeId())
	} else if t, ok := err.(interface{ TypeId() int32 }); ok {
		tid = int(t.TypeId())
	}
	return Ls(I(1), Bo(isp), I(tid), Bo(errors.Unwrap(err) != nil),
		Bo(errors.Is(err, io.EOF)), Bo(errors.Is(err, c17ErrInjected)), Bo(errors.Is(err, io.ErrNoProgress)))
}

func c17Mem(kind int, b []byte) error {
	var err error
	p := thrift.Binary
	switch kind {
	case 0:
		_, _, err = p.ReadBool(b)
	case 1:
		_, _, err = p.ReadByte(b)
	case 2:
		_, _, err = p.ReadI16(b)
	case 3:
		_, _, err = p.ReadI32(b)
	case 4:
		_, _, err = p.ReadI64(b)
	case 5:
		_, _, err = p.ReadDouble(b)
	case 6:
		_, _, err = p.ReadBinary(b)
	case 7:
		_, _, err = p.ReadString(b)
	case 8:
		_, _, _, err = p.ReadFieldBegin(b)
	case 9:
		_, _, _, _, err = p.ReadMapBegin(b)
	case 10:
		_, _, _, err = p.ReadListBegin(b)
	case 11:
		_, _, _, err = p.ReadSetBegin(b)
	default:
		panic("c17: bad kind")
	}
	return err
}

func c17Stream(kind int, r *thrift.BufferReader) error {
	var err error
	switch kind {
	case 0:
		_, err = r.ReadBool()
	case 1:
		_, err = r.ReadByte()
	case 2:
		_, err = r.ReadI16()
	case 3:
		_, err = r.ReadI32()
	case 4:
		_, err = r.ReadI64()
	case 5:
		_, err = r.ReadDouble()
	case 6:
		_, err = r.ReadBinary()
	case 7:
		_, err = r.ReadString()
	case 8:
		_, _, err = r.ReadFieldBegin()
	case 9:
		_, _, _, err = r.ReadMapBegin()
	case 10:
		_, _, err = r.ReadListBegin()
	case 11:
		_, _, err = r.ReadSetBegin()
	case 12:
		_, _, _, err = r.ReadMessageBegin()
	default:
		panic("c17: bad kind")
	}
	return err
}

// the scripted source of a case: s = (final with chunks), d = the data
func c17MkSrc(d []byte, s []V) *c17Src {
	final := io.EOF
	if AsInt(s[0]) == 21 {
		// the injected value is the sentinel itself, the sentinel wrapped by a lower layer, or a
		// lower layer's error that matches the sentinel AND carries a thrift ProtocolException in
		// its chain (a framing layer that failed while decoding): all three must stay matchable
		// with errors.Is after the stream reader has wrapped them
		switch (len(d) + len(chunks0(s))) % 3 {
		case 0:
			final = c17ErrInjected
		case 1:
			final = fmt.Errorf("read frame: %w", c17ErrInjected)
		default:
			final = &c17Layered{pe: thrift.NewProtocolException(thrift.INVALID_DATA, "frame header")}
		}
	}
	var chunks []int
	for _, c := range AsList(s[2]) {
		chunks = append(chunks, AsInt(c))
	}
	return &c17Src{data: d, final: final, with: AsInt(s[1]) != 0, chunks: chunks}
}

// skippers: as c17Obs, but an error that is not a *ProtocolException is a source error handed
// through as it is, whose own Unwrap chain is the source's business: hascause reported as 0
func c17ObsSkip(err error) V {
	o := c17Obs(err).(VL)
	if len(o) == 7 && AsInt(o[1]) == 0 {
		o[3] = I(0)
	}
	return o
}

func c17Run(in V) V {
	a := AsList(in)
	switch AsInt(a[1]) {
	case 0:
		return c17Obs(c17Mem(AsInt(a[2]), AsBytes(a[3])))
	case 1:
		_, _, _, _, err := thrift.Binary.ReadMessageBegin(AsBytes(a[2]))
		return c17Obs(err)
	case 2:
		s := AsList(a[4])
		src := c17MkSrc(AsBytes(a[3]), s)
		r := thrift.NewBufferReader(bufiox.NewDefaultReader(src))
		return c17Obs(c17Stream(AsInt(a[2]), r))
	case 3: // thrift.Binary.Skip, input flush against a PROT_NONE page
		t := thrift.TType(int8(byte(AsInt(a[2]))))
		_, err := thrift.Binary.Skip(c08Place(AsBytes(a[3])), t)
		return c17ObsSkip(err)
	case 4: // BytesSkipDecoder.Next
		t := thrift.TType(int8(byte(AsInt(a[2]))))
		d := thrift.NewBytesSkipDecoder(AsBytes(a[3]))
		_, err := d.Next(t)
		d.Release()
		return c17ObsSkip(err)
	case 5: // BufferReader.Skip
		t := thrift.TType(int8(byte(AsInt(a[2]))))
		src := c17MkSrc(AsBytes(a[3]), AsList(a[4]))
		r := thrift.NewBufferReader(bufiox.NewDefaultReader(src))
		err := r.Skip(t)
		r.Recycle()
		return c17ObsSkip(err)
	case 6: // SkipDecoder.Next
		t := thrift.TType(int8(byte(AsInt(a[2]))))
		src := c17MkSrc(AsBytes(a[3]), AsList(a[4]))
		d := thrift.NewSkipDecoder(bufiox.NewDefaultReader(src))
		_, err := d.Next(t)
		d.Release()
		return c17ObsSkip(err)
	case 7: // ReaderSkipDecoder.Next
		t := thrift.TType(int8(byte(AsInt(a[2]))))
		src := c17MkSrc(AsBytes(a[3]), AsList(a[4]))
		d := thrift.NewReaderSkipDecoder(src)
		_, err := d.Next(t)
		d.Release()
		return c17ObsSkip(err)
	}
	panic("c17: unknown tag")
}

// ---- generator ----
func c17BE32(x uint32) []byte {
	var b [4]byte
	binary.BigEndian.PutUint32(b[:], x)
	return b[:]
}

// a valid encoding of one item of the kind (with a payload of n bytes for binary/string)
func c17Valid(g *Gen, kind, n int) []byte {
	rnd := func(k int) []byte {
		b := make([]byte, k)
		g.R.Read(b)
		return b
	}
	switch kind {
	case 0, 1:
		return rnd(1)
	case 2:
		return rnd(2)
	case 3:
		return rnd(4)
	case 4, 5:
		return rnd(8)
	case 6, 7:
		return append(c17BE32(uint32(n)), rnd(n)...)
	case 8:
		b := rnd(3)
		if b[0] == 0 {
			b[0] = 11
		}
		return b
	case 9:
		return rnd(6)
	case 10, 11:
		return rnd(5)
	}
	panic("kind")
}

func c17Msg(g *Gen, version uint32, name []byte) []byte {
	b := c17BE32(version)
	b = append(b, c17BE32(uint32(len(name)))...)
	b = append(b, name...)
	return append(b, c17BE32(g.R.Uint32())...)
}

func c17Source(g *Gen, total int) V {
	var chunks []V
	switch g.R.Intn(4) {
	case 0: // one byte per Read
		for k := 0; k < total+2 && k < 300; k++ {
			chunks = append(chunks, I(1))
		}
	case 1:
		for k := g.R.Intn(6); k > 0; k-- {
			chunks = append(chunks, I(1+g.R.Intn(total+2)))
		}
	case 2: // with some empty reads
		for k := g.R.Intn(6); k > 0; k-- {
			chunks = append(chunks, I(g.R.Intn(3)))
		}
	}
	return Ls(I(20+g.R.Intn(2)), I(g.R.Intn(2)), Ls(chunks...))
}

func c17Gen(g *Gen) {
	mem := func(class string, kind int, b []byte) { g.Add(class, Ls(I(0), I(0), I(kind), Bs(b))) }
	msg := func(class string, hint int, b []byte) { g.Add(class, Ls(I(hint), I(1), Bs(b))) }
	str := func(class string, kind int, b []byte) {
		g.Add(class, Ls(I(0), I(2), I(kind), Bs(b), c17Source(g, len(b))))
	}
	negs := []uint32{0xffffffff, 0x80000000, 0x80000001, 0xfffffffe, 0xc0000000, 0xffff0000}
	// every kind: valid encodings, every truncation point, trailing bytes
	for kind := 0; kind <= 11; kind++ {
		for rep := 0; rep < g.Scale(3, 40); rep++ {
			for _, n := range []int{0, 1, 2, 5, 17} {
				if n > 0 && kind != 6 && kind != 7 {
					continue
				}
				v := c17Valid(g, kind, n)
				for cut := 0; cut <= len(v); cut++ {
					mem("mem-trunc", kind, v[:cut])
					str("stream-trunc", kind, v[:cut])
				}
				mem("mem-trailing", kind, append(append([]byte{}, v...), 1, 2, 3))
				str("stream-trailing", kind, append(append([]byte{}, v...), 1, 2, 3))
			}
		}
	}
	// field begin: STOP alone and followed by bytes
	for _, b := range [][]byte{{0}, {0, 1}, {0, 1, 2}, {12}, {12, 0}, {12, 0, 1}, {0x80}, {0xff, 1}} {
		mem("mem-field", 8, b)
		str("stream-field", 8, b)
	}
	// negative and oversized length fields of binary/string
	for kind := 6; kind <= 7; kind++ {
		for _, x := range negs {
			for _, tail := range []int{0, 1, 4, 9} {
				b := append(c17BE32(x), make([]byte, tail)...)
				mem("mem-negative", kind, b)
				str("stream-negative", kind, b)
			}
			mem("mem-negative-short", kind, c17BE32(x)[:3])
		}
		for _, x := range []uint32{1, 2, 100, 0x7fffffff, 0x10000, 0x7fffff00} {
			for _, tail := range []int{0, 1, 50} {
				mem("mem-oversized", kind, append(c17BE32(x), make([]byte, tail)...))
			}
		}
		// size classes up to a few MiB: a failure of the underlying reader must be wrapped whatever
		// the declared size is (the stream reader allocates the declared size first, so keep it modest)
		for _, x := range []uint32{1<<20 - 1, 1 << 20, 1<<20 + 1, 3 << 20, 5<<20 + 7} {
			for _, tail := range []int{0, 1, 50, 5000} {
				str("stream-oversized-large", kind, append(c17BE32(x), make([]byte, tail)...))
			}
		}
		for _, x := range []uint32{1, 2, 100, 5000, 70000} { // the stream reader allocates the declared size first
			for _, tail := range []int{0, 1, 50} {
				str("stream-oversized", kind, append(c17BE32(x), make([]byte, tail)...))
			}
		}
	}
	// message begin: every truncation point, bad version words, negative / oversized name lengths
	versions := []uint32{0x80010000, 0x80010001, 0x80010002, 0x80010003, 0x80010004, 0x8001ffff, 0x800100ff}
	bad := []uint32{0, 1, 0x80000000, 0x80020001, 0x80000001, 0x00010001, 0x7fff0001, 0x80110001, 0x8001 << 15, 0xffffffff, 0x81010001, 0x80030000, 0x00008001}
	for _, nm := range []int{0, 1, 5, 40, 300} {
		name := make([]byte, nm)
		g.R.Read(name)
		for _, ver := range versions[:g.Scale(3, 7)] {
			m := c17Msg(g, ver, name)
			for cut := 0; cut <= len(m); cut++ {
				if nm > 40 && cut > 12 && cut < len(m)-6 && cut%37 != 0 {
					continue
				}
				msg("msg-trunc", 0, m[:cut])
				str("stream-msg-trunc", 12, m[:cut])
			}
			msg("msg-trailing", 0, append(append([]byte{}, m...), 9, 9))
		}
		for _, ver := range bad {
			m := c17Msg(g, ver, name)
			msg("msg-badversion", 0, m)
			msg("msg-badversion-short", 0, m[:4])
			str("stream-msg-badversion", 12, m)
			if len(m) > 5 {
				msg("msg-badversion-trunc", 0, m[:3])
			}
		}
	}
	for _, x := range negs {
		for _, tail := range []int{0, 4, 12} {
			m := append(append(c17BE32(0x80010001), c17BE32(x)...), make([]byte, tail)...)
			msg("msg-negative-name", 77, m) // known finding: reported as INVALID_DATA by Binary.ReadMessageBegin
			str("stream-msg-negative-name", 12, m)
		}
		msg("msg-negative-name-badversion", 0, append(c17BE32(0x80020001), c17BE32(x)...))
	}
	for _, x := range []uint32{1, 7, 1000, 0x7fffffff} {
		msg("msg-oversized-name", 0, append(c17BE32(0x80010001), c17BE32(x)...))
	}
	// random prefixes of random valid items through the stream reader with injected errors
	n := g.Scale(300, 20000)
	for i := 0; i < n; i++ {
		kind := g.R.Intn(13)
		var v []byte
		if kind == 12 {
			name := make([]byte, g.R.Intn(30))
			v = c17Msg(g, versions[g.R.Intn(len(versions))], name)
		} else {
			v = c17Valid(g, kind, g.R.Intn(60))
		}
		cut := g.R.Intn(len(v) + 1)
		if g.R.Intn(3) == 0 {
			cut = len(v)
		}
		str("stream-random", kind, v[:cut])
	}
	c17SkipGen(g)
}

// ---- skippers (tags 3..7) ----

// c17Ask: largest single request an allocating skipper would make on b before it fails; a size
// with the sign bit set ends the walk (every skipper rejects it before asking for anything).
func c17Ask(b []byte, t byte, depth int, max *uint64, steps *int) (int, bool) {
	ask := func(n uint64) bool {
		if n > *max {
			*max = n
		}
		return n <= uint64(len(b))
	}
	*steps++
	if depth <= 0 || *steps > 1<<16 {
		return 0, false
	}
	if s := c08Size[t]; s > 0 {
		return s, ask(uint64(s))
	}
	switch t {
	case 11:
		if !ask(4) {
			return 0, false
		}
		n := uint64(binary.BigEndian.Uint32(b))
		if n >= 1<<31 || !ask(4+n) {
			return 0, false
		}
		return 4 + int(n), true
	case 12:
		i := 0
		for {
			if i >= len(b) {
				return 0, false
			}
			ft := b[i]
			i++
			if ft == 0 {
				return i, true
			}
			if i+2 > len(b) {
				return 0, false
			}
			i += 2
			n, ok := c17Ask(b[i:], ft, depth-1, max, steps)
			if !ok {
				return 0, false
			}
			i += n
		}
	case 13:
		if !ask(6) {
			return 0, false
		}
		kt, vt, c := b[0], b[1], uint64(binary.BigEndian.Uint32(b[2:]))
		if c >= 1<<31 {
			return 0, false
		}
		ks, vs := c08Size[kt], c08Size[vt]
		if ks > 0 && vs > 0 {
			n := c * uint64(ks+vs)
			if !ask(6 + n) {
				return 0, false
			}
			return 6 + int(n), true
		}
		i := 6
		for j := uint64(0); j < c; j++ {
			for _, et := range []byte{kt, vt} {
				n, ok := c17Ask(b[i:], et, depth-1, max, steps)
				if !ok {
					return 0, false
				}
				i += n
			}
		}
		return i, true
	case 14, 15:
		if !ask(5) {
			return 0, false
		}
		et, c := b[0], uint64(binary.BigEndian.Uint32(b[1:]))
		if c >= 1<<31 {
			return 0, false
		}
		if s := c08Size[et]; s > 0 {
			n := c * uint64(s)
			if !ask(5 + n) {
				return 0, false
			}
			return 5 + int(n), true
		}
		i := 5
		for j := uint64(0); j < c; j++ {
			n, ok := c17Ask(b[i:], et, depth-1, max, steps)
			if !ok {
				return 0, false
			}
			i += n
		}
		return i, true
	}
	return 0, false
}

const c17AllocCap = 1 << 20

func c17SkipGen(g *Gen) {
	rot := 0
	// every input goes to Binary.Skip and BytesSkipDecoder; to the three stream skippers in
	// rotation (all three when all is set), unless one of them would allocate a hostile size
	emit := func(class string, t int, b []byte, all bool) {
		g.Add("skip-binary/"+class, Ls(I(0), I(3), I(t), Bs(b)))
		g.Add("skip-bytesdec/"+class, Ls(I(0), I(4), I(t), Bs(b)))
		var max uint64
		steps := 0
		c17Ask(b, byte(t), 80, &max, &steps)
		if max > c17AllocCap {
			return
		}
		for k := 0; k < 3; k++ {
			if all || rot%3 == k {
				g.Add("skip-stream/"+class, Ls(I(0), I(5+k), I(t), Bs(b), c17Source(g, len(b))))
			}
		}
		rot++
	}
	cat := func(parts ...[]byte) []byte {
		var o []byte
		for _, p := range parts {
			o = append(o, p...)
		}
		return o
	}
	zeros := func(n int) []byte { return make([]byte, n) }

	// A. all 256 type bytes at top level
	for t := 0; t < 256; t++ {
		for _, b := range [][]byte{{}, {0}, {1, 2, 3, 4}, zeros(9), {byte(t), 0, 0, 0, 1, 0}, {0x0b, byte(t), 0, 0, 0, 0}} {
			emit("top256", t, b, false)
		}
	}
	// B. every type byte as element / key / value / field type, with bytes to parse and with none
	var tbs []int
	if g.Thor {
		for t := 0; t < 256; t++ {
			tbs = append(tbs, t)
		}
	} else {
		for t := 0; t <= 20; t++ {
			tbs = append(tbs, t)
		}
		tbs = append(tbs, 0x7f, 0x80, 0x81, 0x8b, 0x8c, 0xfe, 0xff)
		for k := 0; k < 10; k++ {
			tbs = append(tbs, 21+g.R.Intn(235))
		}
	}
	for _, ti := range tbs {
		t := byte(ti)
		for _, tail := range [][]byte{zeros(14), {}, {0}, {0, 0, 0}} {
			emit("elem256/list", 15, cat([]byte{t, 0, 0, 0, 1}, tail), false)
			emit("elem256/set", 14, cat([]byte{t, 0, 0, 0, 2}, tail), false)
			emit("elem256/mapkey", 13, cat([]byte{t, 8, 0, 0, 0, 1}, tail), false)
			emit("elem256/mapval", 13, cat([]byte{11, t, 0, 0, 0, 1, 0, 0, 0, 0}, tail), false)
			emit("elem256/mapval-i64key", 13, cat([]byte{10, t, 0, 0, 0, 1, 0, 0, 0, 0, 0, 0, 0, 0}, tail), false)
			emit("elem256/field", 12, cat([]byte{t, 0, 1}, tail), false)
			emit("elem256/field2", 12, cat([]byte{8, 0, 1, 0, 0, 0, 0, t, 0, 2}, tail), false)
			emit("elem256/inner", 15, cat([]byte{12, 0, 0, 0, 1, 15, 0, 7, t, 0, 0, 0, 1}, tail), false)
		}
		emit("elem256/empty", 15, []byte{t, 0, 0, 0, 0}, false)
		emit("elem256/empty", 13, []byte{t, t, 0, 0, 0, 0}, false)
		emit("elem256/field-short", 12, []byte{t}, false)
		emit("elem256/field-short", 12, []byte{t, 0}, false)
	}
	// C. valid encodings: every truncation point, every structural-byte substitution
	subs := []byte{0x00, 0x01, 0x02, 0x08, 0x0b, 0x0c, 0x0d, 0x0f, 0x10, 0x7f, 0x80, 0xff}
	for i := g.Scale(30, 900); i > 0; i-- {
		t := c08Types[g.R.Intn(len(c08Types))]
		if i%3 != 0 {
			t = []byte{12, 13, 14, 15}[g.R.Intn(4)]
		}
		e := &c08Enc{}
		g.c08Value(e, t, 1+g.R.Intn(4))
		if len(e.b) > 160 {
			continue
		}
		emit("valid/exact", int(t), e.b, true)
		emit("valid/trailing", int(t), cat(e.b, []byte{0xAA, 0x0c}), false)
		for cut := 0; cut < len(e.b); cut++ {
			emit("valid/cut", int(t), e.b[:cut], false)
		}
		for _, p := range e.strukt {
			for _, sb := range subs {
				if e.b[p] == sb {
					continue
				}
				m := append([]byte(nil), e.b...)
				m[p] = sb
				emit("valid/subst", int(t), m, false)
			}
			m := append([]byte(nil), e.b...)
			m[p]++
			emit("valid/subst", int(t), cat(m, zeros(8)), false)
		}
	}
	// D. negative sizes on every container kind x element kind (fixed, variable, unknown), whole
	//    and with an incomplete size field, at top level and one level down
	negs := []uint32{0xffffffff, 0x80000000, 0x80000001, 0xc0000000, 0xfffffffe}
	elemTypes := []byte{2, 3, 4, 6, 8, 10, 11, 12, 13, 14, 15, 0, 1, 5, 16, 0x80, 0xff}
	tails := [][]byte{{}, {0}, zeros(8), zeros(40)}
	type hdr struct {
		t byte
		h []byte // header up to the size field
	}
	var hdrs []hdr
	hdrs = append(hdrs, hdr{11, nil})
	for _, et := range elemTypes {
		hdrs = append(hdrs, hdr{15, []byte{et}}, hdr{14, []byte{et}})
		for _, vt := range []byte{2, 8, 10, 11, 12, 15, 1, 0x80} {
			hdrs = append(hdrs, hdr{13, []byte{et, vt}}, hdr{13, []byte{vt, et}})
		}
	}
	for _, h := range hdrs {
		for ni, x := range negs {
			if !g.Thor && ni >= 2 && h.t == 13 && (ni+int(h.h[0])+int(h.h[1]))%3 != 0 {
				continue
			}
			sz := c17BE32(x)
			for ti, tail := range tails {
				v := cat(h.h, sz, tail)
				emit("negative/top", int(h.t), v, h.t != 13 && ti == 0)
				if ti >= 2 && !g.Thor {
					continue
				}
				// one level down: struct field, list element, map value behind a string key
				emit("negative/field", 12, cat([]byte{h.t, 0, 1}, v), false)
				emit("negative/elem", 15, cat([]byte{h.t, 0, 0, 0, 2}, v), false)
				emit("negative/mapval", 13, cat([]byte{11, h.t, 0, 0, 0, 1, 0, 0, 0, 1, 'k'}, v), false)
			}
			// the size field itself incomplete (sign bit visible or not)
			for cut := 1; cut <= 3; cut++ {
				emit("negative/short-size", int(h.t), cat(h.h, sz[:cut]), false)
			}
		}
		// positive sizes that do not fit (truncation, not negative size)
		for _, x := range []uint32{1, 2, 0x7fffffff, 0x7ffffffe, 0x40000000, 0x10000} {
			for _, tail := range tails[:3] {
				emit("oversized/top", int(h.t), cat(h.h, c17BE32(x), tail), false)
			}
		}
	}
	// negative string lengths in every position a string can take
	for _, x := range negs {
		sz := c17BE32(x)
		for _, tail := range tails[:3] {
			emit("negative/str-field", 12, cat([]byte{11, 0, 1}, sz, tail), true)
			emit("negative/str-field2", 12, cat([]byte{2, 0, 1, 1, 11, 0, 2}, sz, tail), false)
			emit("negative/str-elem", 15, cat([]byte{11, 0, 0, 0, 2, 0, 0, 0, 1, 'x'}, sz, tail), true)
			emit("negative/str-key", 13, cat([]byte{11, 8, 0, 0, 0, 1}, sz, tail), false)
			emit("negative/str-val", 13, cat([]byte{8, 11, 0, 0, 0, 1, 0, 0, 0, 7}, sz, tail), false)
			emit("negative/str-val2", 13, cat([]byte{11, 11, 0, 0, 0, 1, 0, 0, 0, 0}, sz, tail), false)
		}
	}
	// E. nesting 1..70 (dense around 63..66) of every container kind, with complete, unknown-type
	//    and truncated innermost values
	type leaf struct {
		t byte
		b []byte
	}
	leaves := []leaf{{8, []byte{0, 0, 0, 5}}, {11, []byte{0, 0, 0, 1, 'a'}}, {2, []byte{1}}, {12, []byte{0}},
		{15, []byte{0x80, 0, 0, 0, 0}}, {13, []byte{0, 0xff, 0, 0, 0, 0}},
		{15, []byte{10, 0, 0, 0, 2, 1, 2, 3, 4, 5, 6, 7, 8, 1, 2, 3, 4, 5, 6, 7, 8}},
		{1, []byte{}}, {1, []byte{0}}, {0x80, []byte{7, 7}}, {12, []byte{}}, {15, []byte{8, 0}}, {11, []byte{0xff, 0xff, 0xff, 0xff}},
		{15, []byte{8, 0xff, 0xff, 0xff, 0xff}}, {11, []byte{}}, {8, []byte{}}}
	for kind := 0; kind < 6; kind++ {
		k := kind
		kf := func(l int) int {
			if k == 5 {
				return l % 5
			}
			return k
		}
		for _, lf := range leaves {
			for n := 1; n <= 70; n++ {
				if !g.Thor && !(n <= 2 || (n >= 61 && n <= 67) || n == 33 || n == 70) {
					continue
				}
				t, b := lf.t, lf.b
				for l := 0; l < n; l++ {
					t, b = c08Wrap(kf(l), t, b)
				}
				emit("nest", int(t), b, n >= 62 && n <= 66)
				if n >= 62 && n <= 66 {
					// the last bytes missing
					for _, c := range []int{1, 2, 3, 5} {
						if c < len(b) {
							emit("nest/cut", int(t), b[:len(b)-c], false)
						}
					}
				}
			}
		}
	}
	// nested containers whose chain ends at every prefix length around the limit: "no byte left"
	// and "no budget" at the same point
	for kind := 0; kind < 5; kind++ {
		for n := 62; n <= 66; n++ {
			t, b := byte(12), []byte{0}
			for l := 0; l < n; l++ {
				t, b = c08Wrap(kind, t, b)
			}
			hl := []int{3, 5, 5, 6, 8}[kind] // bytes in front of the inner value per level
			for lv := 62; lv <= n; lv++ {
				for d := -1; d <= 1; d++ {
					cut := lv*hl + d
					if cut >= 0 && cut <= len(b) {
						emit("nest/prefix", int(t), b[:cut], false)
					}
				}
			}
		}
	}
	// F. random strings over the grammar alphabet
	alpha := []byte{0, 1, 2, 3, 4, 6, 8, 10, 11, 12, 13, 14, 15, 16, 0x7f, 0x80, 0xff}
	for i := g.Scale(2500, 120000); i > 0; i-- {
		n := 1 + g.R.Intn(10)
		b := make([]byte, n)
		for j := range b {
			b[j] = alpha[g.R.Intn(len(alpha))]
		}
		t := []int{11, 12, 13, 14, 15}[g.R.Intn(5)]
		emit("random", t, b, false)
	}
}

func init() {
	register("C17", &Prop{Gen: c17Gen, Run: c17Run})
}
