package main

// cval: the universal case value (mirrors coq/Corr/Val.v).
//   I z | B bytes | L list
// Text format, one case per line:
//   item ::= '(' item* ')' | 'x' hex* | ['-'] decimal | ['-'] '#' hex+

import (
	"encoding/hex"
	"fmt"
	"math/big"
	"strconv"
	"strings"
)

type V interface{ write(sb *strings.Builder) }

type VI struct{ Z *big.Int }
type VB []byte
type VL []V

func I(x int) V      { return VI{big.NewInt(int64(x))} }
func I64(x int64) V  { return VI{big.NewInt(x)} }
func U64(x uint64) V { return VI{new(big.Int).SetUint64(x)} }
func Bo(b bool) V {
	if b {
		return I(1)
	}
	return I(0)
}
func Bs(b []byte) V   { return VB(append([]byte(nil), b...)) }
func Str(s string) V  { return VB([]byte(s)) }
func Ls(items ...V) V { return VL(items) }

var lim = new(big.Int).Lsh(big.NewInt(1), 61)

func (v VI) write(sb *strings.Builder) {
	if v.Z.CmpAbs(lim) < 0 {
		sb.WriteString(v.Z.String())
		return
	}
	if v.Z.Sign() < 0 {
		sb.WriteString("-")
	}
	sb.WriteString("#")
	sb.WriteString(new(big.Int).Abs(v.Z).Text(16))
}
func (v VB) write(sb *strings.Builder) {
	sb.WriteString("x")
	sb.WriteString(hex.EncodeToString(v))
}
func (v VL) write(sb *strings.Builder) {
	sb.WriteString("(")
	for i, it := range v {
		if i > 0 {
			sb.WriteString(" ")
		}
		it.write(sb)
	}
	sb.WriteString(")")
}

func Show(v V) string {
	var sb strings.Builder
	v.write(&sb)
	return sb.String()
}

// accessors used by Run functions on parsed inputs
func (v VI) Int() int { return int(v.Z.Int64()) }
func AsInt(v V) int {
	if x, ok := v.(VI); ok {
		return int(x.Z.Int64())
	}
	panic(fmt.Sprintf("AsInt: not an int: %s", Show(v)))
}
func AsI64(v V) int64 { return v.(VI).Z.Int64() }
func AsU64(v V) uint64 {
	return v.(VI).Z.Uint64()
}
func AsBool(v V) bool { return AsInt(v) != 0 }
func AsList(v V) []V {
	if x, ok := v.(VL); ok {
		return []V(x)
	}
	panic(fmt.Sprintf("AsList: not a list: %s", Show(v)))
}

// AsBytes interprets the byte-string specifications of Corr/Val.v (literal / pattern /
// concatenation / repeat).
func AsBytes(v V) []byte {
	switch x := v.(type) {
	case VB:
		return []byte(x)
	case VL:
		if len(x) == 0 {
			return nil
		}
		switch AsInt(x[0]) {
		case 0:
			return Pat(AsInt(x[1]), AsInt(x[2]))
		case 2:
			out := make([]byte, AsInt(x[2]))
			for i := range out {
				out[i] = byte(AsInt(x[1]))
			}
			return out
		case 1:
			var out []byte
			for _, p := range x[1:] {
				out = append(out, AsBytes(p)...)
			}
			return out
		}
	}
	panic("AsBytes: bad spec " + Show(v))
}

// Pat: position dependent content, same formula as Lib/Bytes.v [pat].
func Pat(seed, n int) []byte {
	out := make([]byte, n)
	for i := range out {
		out[i] = byte(i*7 + i/251 + seed)
	}
	return out
}
func PatV(seed, n int) V { return Ls(I(0), I(seed), I(n)) }

// Parse parses one line.
func Parse(s string) (V, error) {
	p := &parser{s: s}
	v, err := p.item()
	if err != nil {
		return nil, err
	}
	p.ws()
	if p.i != len(p.s) {
		return nil, fmt.Errorf("trailing input at %d", p.i)
	}
	return v, nil
}

type parser struct {
	s string
	i int
}

func (p *parser) ws() {
	for p.i < len(p.s) && (p.s[p.i] == ' ' || p.s[p.i] == '\t' || p.s[p.i] == '\r') {
		p.i++
	}
}
func (p *parser) tok() string {
	j := p.i
	for j < len(p.s) && p.s[j] != ' ' && p.s[j] != '(' && p.s[j] != ')' && p.s[j] != '\r' {
		j++
	}
	t := p.s[p.i:j]
	p.i = j
	return t
}
func (p *parser) item() (V, error) {
	p.ws()
	if p.i >= len(p.s) {
		return nil, fmt.Errorf("unexpected end")
	}
	switch p.s[p.i] {
	case '(':
		p.i++
		var l VL
		for {
			p.ws()
			if p.i >= len(p.s) {
				return nil, fmt.Errorf("unclosed (")
			}
			if p.s[p.i] == ')' {
				p.i++
				return l, nil
			}
			it, err := p.item()
			if err != nil {
				return nil, err
			}
			l = append(l, it)
		}
	case 'x':
		t := p.tok()
		b, err := hex.DecodeString(t[1:])
		if err != nil {
			return nil, err
		}
		return VB(b), nil
	default:
		t := p.tok()
		neg := strings.HasPrefix(t, "-")
		body := strings.TrimPrefix(t, "-")
		if strings.HasPrefix(body, "#") {
			z, ok := new(big.Int).SetString(body[1:], 16)
			if !ok {
				return nil, fmt.Errorf("bad hex int %q", t)
			}
			if neg {
				z.Neg(z)
			}
			return VI{z}, nil
		}
		x, err := strconv.ParseInt(t, 10, 64)
		if err != nil {
			return nil, err
		}
		return I64(x), nil
	}
}
