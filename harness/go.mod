module verifharness

go 1.21

require github.com/cloudwego/gopkg v0.0.0

replace github.com/cloudwego/gopkg => /repo
