module verifharness

go 1.21

require (
	github.com/bytedance/gopkg v0.1.1
	github.com/cloudwego/gopkg v0.0.0
)

require (
	golang.org/x/net v0.24.0 // indirect
	golang.org/x/text v0.14.0 // indirect
)

replace github.com/cloudwego/gopkg => /repo
