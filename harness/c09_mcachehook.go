//go:build verif_mcache

package main

// Built only together with the instrumented copy of mcache.go that ./check overlays for C09
// (go build -overlay): the original file plus a hook variable called at the entry of Malloc and
// after the sync.Pool.Put of Free, so that the co-tenant can act between any two pool operations.

import "github.com/bytedance/gopkg/lang/mcache"

func init() {
	c09SetPoolHook = func(f func()) { mcache.VerifPoolHook = f }
}
