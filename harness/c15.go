package main

import (
	"bytes"
	"fmt"
	"sort"
	"unsafe"

	"github.com/cloudwego/gopkg/protocol/thrift"
	"github.com/cloudwego/gopkg/protocol/thrift/base"
)

// C15 — no-copy write path vs the copying path.  Format: see coq/Corr/C15.v.
//
// The direct writer is the repository's own reference implementation
// (internal/testutils/netpoll, re-exported under the verif tag as base.VerifDirectWriter)
// wrapped in a recorder that notes every (slice, remainCap) it is handed.

type c15Rec struct {
	inner *base.VerifDirectWriter
	bufs  [][]byte
	rcs   []int
}

func (r *c15Rec) WriteDirect(b []byte, remainCap int) error {
	r.bufs = append(r.bufs, b)
	r.rcs = append(r.rcs, remainCap)
	if r.inner == nil {
		return nil
	}
	return r.inner.WriteDirect(b, remainCap)
}

// c15Threshold finds the smallest length that goes to the direct writer (the unexported
// nocopyWriteThreshold), by observation.
var c15ThrCache = -1

func c15Threshold() int {
	if c15ThrCache >= 0 {
		return c15ThrCache
	}
	direct := func(n int) bool {
		dw := &base.VerifDirectWriter{}
		buf := dw.Malloc(4 + n)
		rec := &c15Rec{inner: dw}
		thrift.Binary.WriteStringNocopy(buf, rec, string(make([]byte, n)))
		return len(rec.bufs) > 0
	}
	lo, hi := 0, 1<<20 // direct(hi) assumed
	if direct(0) {
		c15ThrCache = 0
		return 0
	}
	for hi-lo > 1 {
		mid := (lo + hi) / 2
		if direct(mid) {
			hi = mid
		} else {
			lo = mid
		}
	}
	c15ThrCache = hi
	return hi
}

type c15Piece struct {
	seed, n int
	data    []byte
}

// c15Compress renders a byte string as a byte-string specification of Corr/Val.v in which long
// occurrences of the given pattern pieces and long runs of the fill byte are abbreviated.
// The result denotes exactly [stream] (checked).
func c15Compress(stream []byte, pieces []c15Piece, fill byte) V {
	sort.SliceStable(pieces, func(i, j int) bool { return pieces[i].n > pieces[j].n })
	parts := []V{I(1)}
	var lit []byte
	flush := func() {
		if len(lit) > 0 {
			parts = append(parts, Bs(lit))
			lit = nil
		}
	}
	for i := 0; i < len(stream); {
		matched := false
		for _, pc := range pieces {
			if pc.n >= 32 && bytes.HasPrefix(stream[i:], pc.data) {
				flush()
				parts = append(parts, PatV(pc.seed, pc.n))
				i += pc.n
				matched = true
				break
			}
		}
		if matched {
			continue
		}
		if stream[i] == fill {
			j := 0
			for i+j < len(stream) && stream[i+j] == fill {
				j++
			}
			if j >= 32 {
				flush()
				parts = append(parts, Ls(I(2), I(int(fill)), I(j)))
				i += j
				continue
			}
		}
		lit = append(lit, stream[i])
		i++
	}
	flush()
	var out V
	if len(parts) == 2 {
		out = parts[1]
	} else {
		out = Ls(parts...)
	}
	if !bytes.Equal(AsBytes(out), stream) && !(len(stream) == 0 && len(AsBytes(out)) == 0) {
		panic("c15Compress: round trip failed")
	}
	return out
}

// pattern strings: (0 seed n)
func c15PatOf(v V, pieces *[]c15Piece) []byte {
	b := AsBytes(v)
	if l, ok := v.(VL); ok && len(l) == 3 && AsInt(l[0]) == 0 {
		*pieces = append(*pieces, c15Piece{AsInt(l[1]), AsInt(l[2]), b})
	}
	return b
}

type c15KV struct{ k, v []byte }

func c15Extra(v V, pieces *[]c15Piece) (map[string]string, []c15KV) {
	if _, ok := v.(VI); ok {
		return nil, nil
	}
	m := map[string]string{}
	kvs := []c15KV{}
	for _, e := range AsList(v) {
		a := AsList(e)
		k, val := c15PatOf(a[0], pieces), c15PatOf(a[1], pieces)
		if _, dup := m[string(k)]; dup {
			panic("c15: duplicate key in generated map")
		}
		m[string(k)] = string(val)
		kvs = append(kvs, c15KV{k, val})
	}
	return m, kvs
}

// c15Order recovers the enumeration order of the map field (id mapID) from an encoded struct.
func c15Order(stream []byte, mapID int, kvs []c15KV, isNil bool) V {
	if isNil {
		return Ls()
	}
	fail := I(-1)
	i := 0
	str := func() ([]byte, bool) {
		if i+4 > len(stream) {
			return nil, false
		}
		n := int(uint32(stream[i])<<24 | uint32(stream[i+1])<<16 | uint32(stream[i+2])<<8 | uint32(stream[i+3]))
		if n < 0 || i+4+n > len(stream) {
			return nil, false
		}
		s := stream[i+4 : i+4+n]
		i += 4 + n
		return s, true
	}
	for {
		if i >= len(stream) {
			return fail
		}
		t := stream[i]
		if t == 0 {
			return fail
		}
		if i+3 > len(stream) {
			return fail
		}
		id := int(stream[i+1])<<8 | int(stream[i+2])
		i += 3
		switch t {
		case 11:
			if _, ok := str(); !ok {
				return fail
			}
		case 8:
			i += 4
		case 13:
			if id != mapID || i+6 > len(stream) {
				return fail
			}
			n := int(uint32(stream[i+2])<<24 | uint32(stream[i+3])<<16 | uint32(stream[i+4])<<8 | uint32(stream[i+5]))
			i += 6
			if n != len(kvs) {
				return fail
			}
			var idx []V
			for j := 0; j < n; j++ {
				k, ok := str()
				if !ok {
					return fail
				}
				if _, ok := str(); !ok {
					return fail
				}
				found := -1
				for x, kv := range kvs {
					if bytes.Equal(kv.k, k) {
						found = x
					}
				}
				if found < 0 {
					return fail
				}
				idx = append(idx, I(found))
			}
			return Ls(idx...)
		default:
			return fail
		}
	}
}

// c15Clamp makes sure the buffer size (advertised length + slack) is not negative.
func c15Clamp(in V) V {
	a := AsList(in)
	probe := append([]V{a[0], I(0), a[2], I(0)}, a[4:]...)
	bl := AsInt(AsList(c15Run(Ls(probe...)))[0])
	if AsInt(a[3]) < -bl {
		a = append([]V{a[0], a[1], a[2], I(-bl)}, a[4:]...)
	}
	return Ls(a...)
}

func c15Filled(n int, fill byte) []byte {
	b := make([]byte, n)
	for i := range b {
		b[i] = fill
	}
	return b
}

func c15Run(in V) V {
	a := AsList(in)
	kind, hw, fill, slack := AsInt(a[0]), AsInt(a[1]) != 0, byte(AsInt(a[2])), AsInt(a[3])
	payload := a[4:]
	var pieces []c15Piece

	// the subject
	var bp *base.Base
	var rp *base.BaseResp
	var sv []byte
	var kvs []c15KV
	mapID, mapNil := 0, true
	switch kind {
	case 0:
		m, l := c15Extra(payload[3], &pieces)
		bp = &base.Base{LogID: string(c15PatOf(payload[0], &pieces)), Caller: string(c15PatOf(payload[1], &pieces)),
			Addr: string(c15PatOf(payload[2], &pieces)), Extra: m}
		kvs, mapID, mapNil = l, 6, m == nil
	case 1:
		m, l := c15Extra(payload[2], &pieces)
		rp = &base.BaseResp{StatusMessage: string(c15PatOf(payload[0], &pieces)), StatusCode: int32(AsInt(payload[1])), Extra: m}
		kvs, mapID, mapNil = l, 3, m == nil
	case 2, 3:
		sv = c15PatOf(payload[0], &pieces)
	case 4, 5:
	default:
		panic("c15: bad kind")
	}
	isStruct := kind == 0 || kind == 1 || kind == 4 || kind == 5
	var bl, bl2 int
	switch kind {
	case 0, 4:
		bl, bl2 = bp.BLength(), bp.BLength()
	case 1, 5:
		bl, bl2 = rp.BLength(), rp.BLength()
	case 2:
		bl, bl2 = thrift.Binary.StringLengthNocopy(string(sv)), thrift.Binary.StringLength(string(sv))
	case 3:
		bl, bl2 = thrift.Binary.BinaryLengthNocopy(sv), thrift.Binary.BinaryLength(sv)
	}
	size := bl + slack
	if size < 0 {
		panic("c15: negative buffer size")
	}
	write := func(buf []byte, w thrift.NocopyWriter, copying bool) int {
		switch kind {
		case 0, 4:
			if copying {
				return bp.FastWrite(buf)
			}
			return bp.FastWriteNocopy(buf, w)
		case 1, 5:
			if copying {
				return rp.FastWrite(buf)
			}
			return rp.FastWriteNocopy(buf, w)
		case 2:
			if copying {
				return thrift.Binary.WriteString(buf, string(sv))
			}
			return thrift.Binary.WriteStringNocopy(buf, w, string(sv))
		default:
			if copying {
				return thrift.Binary.WriteBinary(buf, sv)
			}
			return thrift.Binary.WriteBinaryNocopy(buf, w, sv)
		}
	}

	// ---- the no-copy run ----
	nocopy := func() (out V) {
		defer func() {
			if r := recover(); r != nil {
				out = Ls(I(-1))
			}
		}()
		dw := &base.VerifDirectWriter{}
		if hw && size%3 != 0 {
			// the direct writer is not fresh: an earlier message with direct writes at OTHER positions
			// went through it (Malloc, two direct pieces, Bytes); nothing of it may leak into this one
			prev := dw.Malloc(10000)
			dw.WriteDirect(make([]byte, 5000), len(prev)-4)
			dw.WriteDirect(make([]byte, 4100), len(prev)-5100)
			func() {
				defer func() { recover() }()
				_ = dw.Bytes()
			}()
		}
		data := dw.Malloc(size)
		for i := range data {
			data[i] = fill
		}
		rec := &c15Rec{inner: dw}
		var w thrift.NocopyWriter // nil interface unless hw
		if hw {
			w = rec
		}
		n := write(data, w, false)
		if hw && (!isStruct || len(kvs) <= 1) { // (with >= 2 map entries Go's map order differs between two runs)
			// the same write into a buffer that has SPARE CAPACITY behind its length (as a pooled or
			// block-allocating writer hands out): the positions the library indicates are relative to
			// the buffer's length, so they must be the same; if they are not, this run is reported
			func() {
				defer func() { recover() }()
				backing := make([]byte, size+37)
				d2 := backing[:size]
				for i := range d2 {
					d2[i] = fill
				}
				rec2 := &c15Rec{}
				n2 := write(d2, rec2, false)
				same := n2 == n && len(rec2.rcs) == len(rec.rcs)
				for i := 0; same && i < len(rec.rcs); i++ {
					same = rec2.rcs[i] == rec.rcs[i]
				}
				if !same {
					rec.rcs = append(rec2.rcs, make([]int, max(0, len(rec.bufs)-len(rec2.rcs)))...)[:len(rec.bufs)]
				}
			}()
		}
		var pairs []V
		for i, b := range rec.bufs {
			// the slice handed over must be the value itself (content is what is compared)
			_ = unsafe.SliceData(b)
			pairs = append(pairs, Ls(c15Compress(b, pieces, fill), I(rec.rcs[i])))
		}
		spl := I(0)
		var stream []byte
		if hw {
			func() {
				defer func() {
					if r := recover(); r != nil {
						spl = I(-1)
					}
				}()
				stream = dw.Bytes()
				spl = c15Compress(stream, pieces, fill)
				if _, isInt := spl.(VI); isInt { // cannot happen: a byte spec is never an integer
					panic("c15: spec")
				}
			}()
		} else {
			stream = data
		}
		order := Ls()
		if isStruct {
			// the order is recovered from the harness's own re-assembly (piece i belongs at
			// len(data)-remainCap[i]), so that it is available even when Bytes() panics
			var own []byte
			start, ok := 0, true
			for i, b := range rec.bufs {
				pos := len(data) - rec.rcs[i]
				if pos < start || pos > len(data) {
					ok = false
					break
				}
				own = append(append(own, data[start:pos]...), b...)
				start = pos
			}
			if ok {
				own = append(own, data[start:]...)
				order = c15Order(own, mapID, kvs, mapNil)
			} else {
				order = I(-1)
			}
		}
		_ = stream
		return Ls(I(n), c15Compress(data, pieces, fill), Ls(pairs...), spl, order)
	}()

	// ---- the copying run ----
	copyrun := func() (out V) {
		defer func() {
			if r := recover(); r != nil {
				out = Ls(I(-1))
			}
		}()
		buf := c15Filled(size, fill)
		n := write(buf, nil, true)
		order := Ls()
		if isStruct {
			order = c15Order(buf, mapID, kvs, mapNil)
		}
		return Ls(I(n), c15Compress(buf, pieces, fill), order)
	}()
	return Ls(I(bl), I(bl2), nocopy, copyrun)
}

func init() {
	register("C15", &Prop{
		Gen: func(g *Gen) {
			thr := c15Threshold()
			seed := 0
			pat := func(n int) V { seed = (seed + 37) % 251; return PatV(seed, n) }
			smallS := []int{0, 1, 7, thr - 1, 33}
			largeS := []int{thr, thr + 1, 2 * thr, thr, 3*thr - 1, thr + 1, thr, 3 * thr, thr + 2, thr, 3*thr + 1}
			si, li := 0, 0
			pickLen := func(large bool) int {
				if large {
					li++
					return largeS[li%len(largeS)]
				}
				si++
				n := smallS[si%len(smallS)]
				if n < 0 {
					n = 0
				}
				return n
			}
			fills := []int{0xEE, 0xEE, 0x00, 0xFF, 0x0B}
			fi := 0
			nextFill := func() int { fi++; return fills[fi%len(fills)] }
			// a map of ne entries with the given small/large bits (2 bits per entry: key, value); keys distinct
			mkExtra := func(ne int, bits int) V {
				var es []V
				used := map[string]bool{}
				for e := 0; e < ne; e++ {
					var k V
					for {
						k = pat(pickLen(bits&(1<<(2*e)) != 0))
						if !used[string(AsBytes(k))] {
							break
						}
					}
					used[string(AsBytes(k))] = true
					es = append(es, Ls(k, pat(pickLen(bits&(1<<(2*e+1)) != 0))))
				}
				return Ls(es...)
			}
			// 1. single strings: the length sweep, both entry points, nil and non-nil writer
			var lens []int
			for n := 0; n <= 16; n++ {
				lens = append(lens, n)
			}
			for _, c := range []int{thr, 2 * thr, 3 * thr} {
				for d := -2; d <= 2; d++ {
					if c+d >= 0 {
						lens = append(lens, c+d)
					}
				}
			}
			for i := 0; i < g.Scale(30, 0); i++ {
				lens = append(lens, g.R.Intn(3*thr+2))
			}
			if g.Thor {
				for n := 17; n <= 3*thr+1; n += 3 {
					lens = append(lens, n)
				}
			}
			for _, n := range lens {
				for kind := 2; kind <= 3; kind++ {
					for hw := 0; hw <= 1; hw++ {
						g.Add("str", Ls(I(kind), I(hw), I(nextFill()), I(0), pat(n)))
					}
				}
			}
			for _, n := range []int{0, 1, 5, thr - 1, thr, thr + 1, 3 * thr} {
				for kind := 2; kind <= 3; kind++ {
					for hw := 0; hw <= 1; hw++ {
						for _, sl := range []int{1, 9, -1, -4, -(4 + n)} {
							g.Add("str-slack", Ls(I(kind), I(hw), I(nextFill()), I(sl), pat(n)))
						}
					}
				}
			}
			// 2. nil receivers
			for kind := 4; kind <= 5; kind++ {
				for hw := 0; hw <= 1; hw++ {
					for _, sl := range []int{0, 3, -1} {
						g.Add("nilrecv", Ls(I(kind), I(hw), I(nextFill()), I(sl)))
					}
				}
			}
			// 3. Base / BaseResp: all small/large combinations across fields and map entries
			type shape struct{ ne, bits int }
			var shapes []shape
			shapes = append(shapes, shape{-1, 0}, shape{0, 0})
			for b := 0; b < 4; b++ {
				shapes = append(shapes, shape{1, b})
			}
			for b := 0; b < 16; b++ {
				shapes = append(shapes, shape{2, b})
			}
			extraOf := func(s shape) V {
				if s.ne < 0 {
					return I(0)
				}
				return mkExtra(s.ne, s.bits)
			}
			for hw := 1; hw >= 0; hw-- {
				for fb := 0; fb < 8; fb++ {
					for _, s := range shapes {
						if hw == 0 && (fb+s.bits)%3 != 0 && !g.Thor {
							continue // the nil-writer run is the copying path; a third of the grid is plenty
						}
						g.Add("base-grid", Ls(I(0), I(hw), I(nextFill()), I(0),
							pat(pickLen(fb&1 != 0)), pat(pickLen(fb&2 != 0)), pat(pickLen(fb&4 != 0)), extraOf(s)))
					}
				}
				for fb := 0; fb < 2; fb++ {
					for _, s := range shapes {
						code := []int{0, 1, -1, 2147483647, -2147483648, 0x01020304}[(fb+s.bits+s.ne+1)%6]
						g.Add("resp-grid", Ls(I(1), I(hw), I(nextFill()), I(0), pat(pickLen(fb&1 != 0)), I(code), extraOf(s)))
					}
				}
			}
			// 4. slack and too-small buffers on structs
			for hw := 0; hw <= 1; hw++ {
				for _, sl := range []int{1, 7, -1, -2, -5, -thr} {
					for _, big := range []int{0, 1, 5} {
						e := extraOf(shape{1, big & 3})
						g.Add("base-slack", c15Clamp(Ls(I(0), I(hw), I(nextFill()), I(sl),
							pat(pickLen(big&1 != 0)), pat(pickLen(false)), pat(pickLen(big&4 != 0)), e)))
						g.Add("resp-slack", c15Clamp(Ls(I(1), I(hw), I(nextFill()), I(sl), pat(pickLen(big&1 != 0)), I(77), e)))
					}
				}
			}
			// 5. random structs, bigger maps
			n := g.Scale(250, 6000)
			for i := 0; i < n; i++ {
				hw := 1
				if g.R.Intn(4) == 0 {
					hw = 0
				}
				rl := func() int {
					switch g.R.Intn(10) {
					case 0:
						return thr + g.R.Intn(2*thr+2)
					case 1:
						return []int{thr - 1, thr, thr + 1}[g.R.Intn(3)]
					case 2:
						return g.R.Intn(thr)
					default:
						return g.R.Intn(24)
					}
				}
				var extra V = I(0)
				if g.R.Intn(5) != 0 {
					ne := g.R.Intn(7)
					if g.R.Intn(8) == 0 {
						ne = 8 + g.R.Intn(20)
					}
					var es []V
					used := map[string]bool{}
					for e := 0; e < ne; e++ {
						var k V
						for {
							k = pat(rl())
							if !used[string(AsBytes(k))] {
								break
							}
						}
						used[string(AsBytes(k))] = true
						es = append(es, Ls(k, pat(rl())))
					}
					extra = Ls(es...)
				}
				sl := 0
				if g.R.Intn(10) == 0 {
					sl = g.R.Intn(20)
				}
				if g.R.Intn(2) == 0 {
					g.Add("base-rand", Ls(I(0), I(hw), I(nextFill()), I(sl), pat(rl()), pat(rl()), pat(rl()), extra))
				} else {
					g.Add("resp-rand", Ls(I(1), I(hw), I(nextFill()), I(sl), pat(rl()), I(int(int32(g.R.Uint32()))), extra))
				}
			}
			_ = fmt.Sprint
		},
		Run: c15Run,
	})
}
