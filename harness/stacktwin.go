package main

import "github.com/cloudwego/gopkg/protocol/thrift"

// Binary.Skip on a buffer that lives on the GOROUTINE STACK, in a fresh goroutine whose small stack
// the recursion over nested values has to grow: the result must be the one obtained on a heap buffer
// (defect repaired by /repo 8194765: the end of the input was kept as a uintptr, which the runtime
// does not adjust when it moves the stack).

//go:noinline
func skipStackCopy(src []byte, t thrift.TType) (int, error) {
	var arr [2048]byte // stays on the stack: Binary.Skip does not let its argument escape
	n := copy(arr[:], src)
	return thrift.Binary.Skip(arr[:n], t)
}

// ran is false when the input does not fit the stack array
func skipOnStack(src []byte, t thrift.TType) (n int, err error, panicked bool, ran bool) {
	if len(src) == 0 || len(src) > 2048 {
		return 0, nil, false, false
	}
	done := make(chan struct{})
	go func() {
		defer close(done)
		defer func() {
			if recover() != nil {
				panicked = true
			}
		}()
		n, err = skipStackCopy(src, t)
	}()
	<-done
	return n, err, panicked, true
}
