package main

import (
	"math"

	"github.com/cloudwego/gopkg/protocol/thrift/unknownfields"
)

// C13 — unknown-field trees <-> bytes.  Formats: see coq/Corr/C13.v.
// Typed values, their encoding and the canonical tree they denote are built by the harness's own code
// below (nothing from package thrift / unknownfields).

type c13UF = unknownfields.UnknownField

type c13Val struct {
	ty     int8
	b      bool
	i      int64  // byte / i16 / i32 / i64
	bits   uint64 // double
	s      []byte // string
	kt, vt int8   // map key/value type; list/set element type in vt
	elems  []c13Val // list/set elements; map: k0 v0 k1 v1 ...
	fields []c13Field
}
type c13Field struct {
	id int16
	v  c13Val
}

var c13Types = []int8{2, 3, 4, 6, 8, 10, 11, 12, 13, 14, 15}
var c13BadTags = []int8{0, 1, 5, 7, 9, 16, 17, 0x7f, -128, -1}

// ---------- independent encoder ----------
func c13U16(out []byte, x uint16) []byte { return append(out, byte(x>>8), byte(x)) }
func c13U32(out []byte, x uint32) []byte {
	return append(out, byte(x>>24), byte(x>>16), byte(x>>8), byte(x))
}
func c13U64(out []byte, x uint64) []byte {
	return c13U32(c13U32(out, uint32(x>>32)), uint32(x))
}
func c13Enc(out []byte, v *c13Val) []byte {
	switch v.ty {
	case 2:
		if v.b {
			return append(out, 1)
		}
		return append(out, 0)
	case 3:
		return append(out, byte(int8(v.i)))
	case 6:
		return c13U16(out, uint16(int16(v.i)))
	case 8:
		return c13U32(out, uint32(int32(v.i)))
	case 10:
		return c13U64(out, uint64(v.i))
	case 4:
		return c13U64(out, v.bits)
	case 11:
		return append(c13U32(out, uint32(len(v.s))), v.s...)
	case 12:
		out = c13EncFields(out, v.fields)
		return append(out, 0)
	case 13:
		out = append(out, byte(v.kt), byte(v.vt))
		out = c13U32(out, uint32(len(v.elems)/2))
	case 14, 15:
		out = append(out, byte(v.vt))
		out = c13U32(out, uint32(len(v.elems)))
	default:
		panic("c13Enc: bad type")
	}
	for i := range v.elems {
		out = c13Enc(out, &v.elems[i])
	}
	return out
}
func c13EncFields(out []byte, fs []c13Field) []byte {
	for i := range fs {
		out = append(out, byte(fs[i].v.ty))
		out = c13U16(out, uint16(fs[i].id))
		out = c13Enc(out, &fs[i].v)
	}
	return out
}

// ---------- the canonical tree of a typed value ----------
func c13Tree(id int16, v *c13Val) c13UF {
	f := c13UF{ID: id, Type: v.ty}
	switch v.ty {
	case 2:
		f.Value = v.b
	case 3:
		f.Value = int8(v.i)
	case 6:
		f.Value = int16(v.i)
	case 8:
		f.Value = int32(v.i)
	case 10:
		f.Value = v.i
	case 4:
		f.Value = math.Float64frombits(v.bits)
	case 11:
		f.Value = string(v.s)
	case 12:
		f.Value = c13Trees(v.fields)
	case 13:
		f.KeyType, f.ValType = v.kt, v.vt
		kids := make([]c13UF, len(v.elems))
		for i := range v.elems {
			kids[i] = c13Tree(int16(i/2), &v.elems[i])
		}
		f.Value = kids
	case 14, 15:
		f.ValType = v.vt
		kids := make([]c13UF, len(v.elems))
		for i := range v.elems {
			kids[i] = c13Tree(int16(i), &v.elems[i])
		}
		f.Value = kids
	}
	return f
}
func c13Trees(fs []c13Field) []c13UF {
	out := make([]c13UF, len(fs))
	for i := range fs {
		out[i] = c13Tree(fs[i].id, &fs[i].v)
	}
	return out
}

// ---------- cval conversions ----------
func c13ValV(v *c13Val) V {
	switch v.ty {
	case 2:
		return Ls(I(2), Bo(v.b))
	case 3, 6, 8, 10:
		return Ls(I(int(v.ty)), I64(v.i))
	case 4:
		return Ls(I(4), U64(v.bits))
	case 11:
		return Ls(I(11), Bs(v.s))
	case 12:
		return VL(append([]V{I(12)}, []V(c13FieldsV(v.fields).(VL))...))
	case 13:
		out := []V{I(13), I(int(v.kt)), I(int(v.vt))}
		for i := 0; i+1 < len(v.elems); i += 2 {
			out = append(out, Ls(c13ValV(&v.elems[i]), c13ValV(&v.elems[i+1])))
		}
		return VL(out)
	default:
		out := []V{I(int(v.ty)), I(int(v.vt))}
		for i := range v.elems {
			out = append(out, c13ValV(&v.elems[i]))
		}
		return VL(out)
	}
}
func c13FieldsV(fs []c13Field) V {
	out := VL{}
	for i := range fs {
		out = append(out, Ls(I(int(fs[i].id)), c13ValV(&fs[i].v)))
	}
	return out
}

type c13Foreign struct{ k int }

func c13TreeV(f *c13UF) V {
	var val V
	switch x := f.Value.(type) {
	case bool:
		val = Ls(I(1), Bo(x))
	case int8:
		val = Ls(I(2), I(int(x)))
	case int16:
		val = Ls(I(3), I(int(x)))
	case int32:
		val = Ls(I(4), I(int(x)))
	case int64:
		val = Ls(I(5), I64(x))
	case float64:
		val = Ls(I(6), U64(math.Float64bits(x)))
	case string:
		val = Ls(I(7), Str(x))
	case []c13UF:
		out := []V{I(8)}
		for i := range x {
			out = append(out, c13TreeV(&x[i]))
		}
		val = VL(out)
	case c13Foreign:
		val = Ls(I(0), I(x.k))
	default:
		val = Ls(I(0), I(0))
	}
	return Ls(I(int(f.ID)), I(int(f.Type)), I(int(f.KeyType)), I(int(f.ValType)), val)
}
func c13TreesV(fs []c13UF) V {
	out := VL{}
	for i := range fs {
		out = append(out, c13TreeV(&fs[i]))
	}
	return out
}

// foreign dynamic types: everything the code never asserts
func c13ForeignValue(k int) interface{} {
	switch k {
	case 1:
		return []byte{1, 2}
	case 2:
		return int(7)
	case 3:
		return &c13UF{}
	case 4:
		return uint8(1)
	case 5:
		return []*c13UF{}
	case 6:
		return float32(1)
	}
	return nil
}

func c13TreeOf(v V) c13UF {
	a := AsList(v)
	f := c13UF{ID: int16(AsInt(a[0])), Type: int8(AsInt(a[1])), KeyType: int8(AsInt(a[2])), ValType: int8(AsInt(a[3]))}
	val := AsList(a[4])
	switch AsInt(val[0]) {
	case 1:
		f.Value = AsBool(val[1])
	case 2:
		f.Value = int8(AsInt(val[1]))
	case 3:
		f.Value = int16(AsInt(val[1]))
	case 4:
		f.Value = int32(AsInt(val[1]))
	case 5:
		f.Value = AsI64(val[1])
	case 6:
		f.Value = math.Float64frombits(AsU64(val[1]))
	case 7:
		f.Value = string(AsBytes(val[1]))
	case 8:
		var kids []c13UF // nil when empty: nil and empty slices are identified
		for _, k := range val[1:] {
			kids = append(kids, c13TreeOf(k))
		}
		f.Value = kids
	default:
		f.Value = c13ForeignValue(AsInt(val[1]))
	}
	return f
}

// ---------- guard: would the code allocate more than 65536 elements for one container? ----------
// An independent walk in the order the decoder reads; stops at the first thing it rejects.
func c13Walk(b []byte, ty int8, depth int) (n int, ok bool, safe bool) {
	if depth > 2000 {
		return 0, false, false
	}
	fixed := map[int8]int{2: 1, 3: 1, 4: 8, 6: 2, 8: 4, 10: 8}
	if k, isf := fixed[ty]; isf {
		if len(b) < k {
			return 0, false, true
		}
		return k, true, true
	}
	be32 := func(p []byte) uint32 { return uint32(p[0])<<24 | uint32(p[1])<<16 | uint32(p[2])<<8 | uint32(p[3]) }
	switch ty {
	case 11:
		if len(b) < 4 {
			return 0, false, true
		}
		sz := int32(be32(b))
		if sz < 0 || len(b) < 4+int(sz) {
			return 0, false, true
		}
		return 4 + int(sz), true, true
	case 14, 15:
		if len(b) < 5 {
			return 0, false, true
		}
		et, sz := int8(b[0]), be32(b[1:])
		if sz > 65536 {
			return 0, false, false
		}
		n = 5
		for i := uint32(0); i < sz; i++ {
			m, ok, safe := c13Walk(b[n:], et, depth+1)
			if !safe || !ok {
				return 0, false, safe
			}
			n += m
		}
		return n, true, true
	case 13:
		if len(b) < 6 {
			return 0, false, true
		}
		kt, vt, sz := int8(b[0]), int8(b[1]), be32(b[2:])
		if sz > 65536 {
			return 0, false, false
		}
		n = 6
		for i := uint32(0); i < sz; i++ {
			for _, t := range []int8{kt, vt} {
				m, ok, safe := c13Walk(b[n:], t, depth+1)
				if !safe || !ok {
					return 0, false, safe
				}
				n += m
			}
		}
		return n, true, true
	case 12:
		for {
			if len(b) < n+1 {
				return 0, false, true
			}
			t := int8(b[n])
			if t == 0 {
				return n + 1, true, true
			}
			if len(b) < n+3 {
				return 0, false, true
			}
			n += 3
			m, ok, safe := c13Walk(b[n:], t, depth+1)
			if !safe || !ok {
				return 0, false, safe
			}
			n += m
		}
	}
	return 0, false, true
}
func c13Safe(b []byte) bool {
	n := 0
	for n < len(b) {
		t := int8(b[n])
		if t == 0 || len(b) < n+3 {
			return true
		}
		n += 3
		m, ok, safe := c13Walk(b[n:], t, 0)
		if !safe {
			return false
		}
		if !ok {
			return true
		}
		n += m
	}
	return true
}

// ---------- running the real code ----------
var (
	c13Err   = Ls(I(1))
	c13Panic = Ls(I(2))
	c13NoRun = Ls(I(3))
)

// a well-formed unknown-fields sequence of exactly n bytes (BYTE fields of 4 bytes, I16 fields of 5), or
// nil when n is not of the form 4a+5b
func c13Decoy(n int) []byte {
	for b5 := 0; b5 <= 3 && 5*b5 <= n; b5++ {
		if (n-5*b5)%4 == 0 {
			var o []byte
			for i := 0; i < (n-5*b5)/4; i++ {
				o = append(o, 3, 0x7f, byte(i), 0x5a)
			}
			for i := 0; i < b5; i++ {
				o = append(o, 6, 0x7e, byte(i), 0x5a, 0x5a)
			}
			return o
		}
	}
	return nil
}

func c13Convert(b0 []byte) (out V, tree []c13UF) {
	defer func() {
		if r := recover(); r != nil {
			out, tree = c13Panic, nil
		}
	}()
	// the bytes arrive in a REUSED buffer: the same backing array held, and had converted, another
	// message of the same length just before (receive buffers are pooled)
	b := b0
	if d := c13Decoy(len(b0)); d != nil {
		b = make([]byte, len(b0))
		copy(b, d)
		func() {
			defer func() { recover() }()
			unknownfields.ConvertUnknownFields(b)
		}()
		copy(b, b0)
	}
	if len(b) > 0 && &b[0] == &b0[0] {
		b = append([]byte(nil), b0...)
	}
	fs, err := unknownfields.ConvertUnknownFields(b)
	for i := range b { // the tree outlives the buffer it was converted from
		b[i] = 0xEE
	}
	if err != nil {
		return c13Err, nil
	}
	return VL(append([]V{I(0)}, []V(c13TreesV(fs).(VL))...)), fs
}

type c13Holder struct {
	A              int
	_unknownFields []byte
}

type c13Outer struct {
	X int64
	c13Holder
}

type c13Outer2 struct {
	Name string
	c13Holder
}

func c13Get(b []byte) (out V) {
	defer func() {
		if r := recover(); r != nil {
			out = c13Panic
		}
	}()
	h := &c13Holder{A: 1, _unknownFields: b}
	var arg interface{} = h
	switch len(b) % 4 {
	case 1:
		arg = *h // by value as well as by pointer
	case 2: // the field is PROMOTED from an embedded struct that does not sit at offset 0
		arg = &c13Outer{X: 0, c13Holder: *h}
	case 3:
		arg = &c13Outer2{Name: "a leading string member", c13Holder: *h}
	}
	fs, err := unknownfields.GetUnknownFields(arg)
	if err != nil {
		return c13Err
	}
	return VL(append([]V{I(0)}, []V(c13TreesV(fs).(VL))...))
}

func c13Len(fs []c13UF) (out V, n int) {
	defer func() {
		if r := recover(); r != nil {
			out, n = c13Panic, 0
		}
	}()
	n, err := unknownfields.UnknownFieldsLength(fs)
	if err != nil {
		return c13Err, 0
	}
	return Ls(I(0), I(n)), n
}

func c13Write(fs []c13UF, size int) (out V, buf []byte, off int) {
	buf = make([]byte, size)
	for i := range buf {
		buf[i] = 0xAA
	}
	defer func() {
		if r := recover(); r != nil {
			out, off = c13Panic, -1
		}
	}()
	off, err := unknownfields.WriteUnknownFields(buf, fs)
	if err != nil {
		return c13Err, buf, -1
	}
	return Ls(I(0), I(off), Bs(buf)), buf, off
}

func c13RunBytes(b []byte) V {
	if !c13Safe(b) {
		return Ls(I(9))
	}
	in := append([]byte(nil), b...)
	conv, tree := c13Convert(in)
	getsame := 0
	if Show(c13Get(in)) == Show(conv) {
		getsame = 1
	}
	if AsInt(AsList(conv)[0]) != 0 {
		return Ls(conv, I(getsame), c13NoRun, c13NoRun, I(0))
	}
	ln, n := c13Len(tree)
	if AsInt(AsList(ln)[0]) != 0 {
		return Ls(conv, I(getsame), ln, c13NoRun, I(0))
	}
	w, buf, off := c13Write(tree, n+2)
	re := 0
	if off >= 0 && off <= len(buf) && c13Safe(buf[:off]) {
		conv2, _ := c13Convert(buf[:off])
		if Show(conv2) == Show(conv) {
			re = 1
		}
	}
	return Ls(conv, I(getsame), ln, w, I(re))
}

func c13RunTree(fs []c13UF, size int) V {
	ln, _ := c13Len(fs)
	w, buf, off := c13Write(fs, size)
	re := c13NoRun
	if off >= 0 && off <= len(buf) {
		if c13Safe(buf[:off]) {
			re, _ = c13Convert(append([]byte(nil), buf[:off]...))
		} else {
			re = Ls(I(4))
		}
	}
	return Ls(ln, w, re)
}

// ---------- generators ----------
func c13Pick8(g *Gen) int8 { return c13Types[g.R.Intn(len(c13Types))] }

var c13Ids = []int16{0, 1, 2, -1, -2, 255, 256, 32767, -32768, 1, 1}

func c13Id(g *Gen) int16 {
	if g.R.Intn(3) == 0 {
		return int16(g.R.Intn(65536))
	}
	return c13Ids[g.R.Intn(len(c13Ids))]
}

func c13Scalar(g *Gen, ty int8) c13Val {
	v := c13Val{ty: ty}
	r := g.R
	switch ty {
	case 2:
		v.b = r.Intn(2) == 0
	case 3:
		v.i = []int64{0, 1, -1, 127, -128, int64(int8(r.Intn(256)))}[r.Intn(6)]
	case 6:
		v.i = []int64{0, 1, -1, 32767, -32768, 256, 255, int64(int16(r.Intn(65536)))}[r.Intn(8)]
	case 8:
		v.i = []int64{0, 1, -1, math.MaxInt32, math.MinInt32, 65536, 0x01020304, int64(int32(r.Uint32()))}[r.Intn(8)]
	case 10:
		v.i = []int64{0, 1, -1, math.MaxInt64, math.MinInt64, 1 << 32, 0x0102030405060708, int64(r.Uint64())}[r.Intn(8)]
	case 4:
		v.bits = []uint64{0, 1 << 63, math.Float64bits(1.5), 0x7ff0000000000000, 0xfff0000000000000,
			0x7ff8000000000001, 0x7ff0000000000001, 0xfff8000000abcdef, 1, r.Uint64()}[r.Intn(10)]
	case 11:
		n := []int{0, 0, 1, 2, 3, 5, 9, 17}[r.Intn(8)]
		if r.Intn(40) == 0 {
			n = 200 + r.Intn(200)
		}
		v.s = make([]byte, n)
		for i := range v.s {
			v.s[i] = byte(r.Intn(256))
		}
	}
	return v
}

func c13IsScalar(ty int8) bool { return ty != 12 && ty != 13 && ty != 14 && ty != 15 }

// a value of the given type; containers get 0..maxn children, nesting limited by depth
func c13GenVal(g *Gen, ty int8, depth int) c13Val {
	if c13IsScalar(ty) {
		return c13Scalar(g, ty)
	}
	r := g.R
	v := c13Val{ty: ty}
	size := []int{0, 1, 1, 2, 2, 3, 4}[r.Intn(7)]
	pick := func() int8 {
		t := c13Pick8(g)
		for depth <= 0 && !c13IsScalar(t) {
			t = c13Pick8(g)
		}
		return t
	}
	switch ty {
	case 12:
		for i := 0; i < size; i++ {
			v.fields = append(v.fields, c13Field{c13Id(g), c13GenVal(g, pick(), depth-1)})
		}
	case 13:
		v.kt, v.vt = pick(), pick()
		if size == 0 && r.Intn(2) == 0 {
			v.kt, v.vt = c13BadTags[r.Intn(len(c13BadTags))], int8(r.Intn(256))
		}
		for i := 0; i < size; i++ {
			v.elems = append(v.elems, c13GenVal(g, v.kt, depth-1), c13GenVal(g, v.vt, depth-1))
		}
	default:
		v.vt = pick()
		if size == 0 && r.Intn(2) == 0 {
			v.vt = c13BadTags[r.Intn(len(c13BadTags))]
		}
		for i := 0; i < size; i++ {
			v.elems = append(v.elems, c13GenVal(g, v.vt, depth-1))
		}
	}
	return v
}

func c13GenFields(g *Gen, n, depth int) []c13Field {
	var fs []c13Field
	for i := 0; i < n; i++ {
		fs = append(fs, c13Field{c13Id(g), c13GenVal(g, c13Pick8(g), depth)})
	}
	return fs
}

func c13AddTyped(g *Gen, class string, fs []c13Field) []byte {
	b := c13EncFields(nil, fs)
	kind := 0
	if len(b) > 3000 {
		kind = 3
	}
	g.Add(class, Ls(I(kind), c13FieldsV(fs), Bs(b)))
	return b
}
func c13AddRaw(g *Gen, class string, b []byte) {
	if c13Safe(b) {
		g.Add(class, Ls(I(1), Bs(b)))
	}
}
func c13AddTree(g *Gen, class string, fs []c13UF, size int) {
	if size < 0 {
		size = 0
	}
	// filter: what the code writes for a non-canonical tree may declare huge container sizes when read back
	_, buf, off := c13Write(fs, size)
	if off >= 0 && off <= len(buf) && !c13Safe(buf[:off]) {
		return
	}
	g.Add(class, Ls(I(2), c13TreesV(fs), I(size)))
}

// every node of a tree, addressable
func c13Nodes(fs []c13UF, out *[]*c13UF) {
	for i := range fs {
		*out = append(*out, &fs[i])
		if kids, ok := fs[i].Value.([]c13UF); ok {
			c13Nodes(kids, out)
		}
	}
}

func c13Mutate(g *Gen, fs []c13UF) string {
	var nodes, conts, maps []*c13UF
	c13Nodes(fs, &nodes)
	for _, n := range nodes {
		if kids, ok := n.Value.([]c13UF); ok && len(kids) > 0 {
			conts = append(conts, n)
			if n.Type == 13 {
				maps = append(maps, n)
			}
		}
	}
	if len(nodes) == 0 {
		return "none"
	}
	r := g.R
	n := nodes[r.Intn(len(nodes))]
	var c *c13UF // a container with children, if there is one
	var kids []c13UF
	if len(conts) > 0 {
		c = conts[r.Intn(len(conts))]
		kids = c.Value.([]c13UF)
	}
	m := r.Intn(14)
	if c == nil && (m == 1 || m == 2 || m == 4 || m == 9 || m == 10) {
		m = []int{0, 3, 5, 6, 7}[r.Intn(5)]
	}
	switch m {
	case 0: // another valid type, value kept: ill-typed unless both are containers
		n.Type = c13Pick8(g)
		return "type"
	case 1: // a child of another type (well-typed child, container no longer homogeneous)
		v := c13GenVal(g, c13Pick8(g), 1)
		k := r.Intn(len(kids))
		kids[k] = c13Tree(kids[k].ID, &v)
		return "childtype"
	case 2: // wrong element / member id
		kids[r.Intn(len(kids))].ID += int16(1 + r.Intn(3))
		return "childid"
	case 3: // KeyType / ValType where they mean nothing, or changed where they do
		switch r.Intn(3) {
		case 0:
			n.KeyType = int8(1 + r.Intn(255))
		case 1:
			n.ValType = c13Pick8(g)
		default:
			n.ValType = int8(r.Intn(256))
		}
		return "ktvt"
	case 4: // odd flat map
		if len(maps) > 0 {
			c = maps[r.Intn(len(maps))]
			kids = c.Value.([]c13UF)
		}
		c.Value = kids[:len(kids)-1]
		return "odd"
	case 5: // foreign dynamic type
		n.Value = c13Foreign{r.Intn(7)}
		return "foreign"
	case 6: // right kind, wrong width
		switch n.Value.(type) {
		case int8:
			n.Value = int16(1)
		case int16:
			n.Value = int32(1)
		case int32:
			n.Value = int64(1)
		case int64:
			n.Value = int32(1)
		case float64:
			n.Value = int64(1)
		case string:
			n.Value = true
		case bool:
			n.Value = int8(1)
		default:
			n.Value = "x"
		}
		return "width"
	case 7: // unknown type tag
		n.Type = c13BadTags[r.Intn(len(c13BadTags))]
		return "badtag"
	case 8: // a scalar where a container is declared and vice versa
		if _, isC := n.Value.([]c13UF); isC {
			n.Value = int32(5)
		} else {
			n.Value = []c13UF{}
		}
		return "swapkind"
	case 9: // list <-> set <-> struct <-> map on a container
		c.Type = []int8{12, 13, 14, 15}[r.Intn(4)]
		return "contkind"
	case 10: // drop or duplicate a child
		if r.Intn(2) == 0 {
			c.Value = append(append([]c13UF{}, kids...), kids[0])
		} else {
			c.Value = kids[1:]
		}
		return "arity"
	case 11: // KeyType and ValType exchanged
		if c != nil && r.Intn(2) == 0 {
			n = c
		}
		n.ValType, n.KeyType = n.KeyType, n.ValType
		if n.ValType == n.KeyType {
			n.KeyType++
		}
		return "swapktvt"
	case 12: // member / element id
		n.ID = c13Id(g)
		return "id"
	default: // a scalar value where the declared element type says otherwise
		if c != nil {
			c.ValType = c13Pick8(g)
			return "declet"
		}
		n.KeyType = 2
		return "ktvt"
	}
}

func c13Gen(g *Gen) {
	r := g.R
	var bases [][]byte // small valid encodings, for the malformed stream

	// --- typed direction ---
	// every scalar type, boundary values, boundary ids
	for _, ty := range c13Types {
		if !c13IsScalar(ty) {
			continue
		}
		for k := 0; k < 24; k++ {
			fs := []c13Field{{c13Ids[k%len(c13Ids)], c13Scalar(g, ty)}}
			b := c13AddTyped(g, "scalar", fs)
			if k < 2 {
				bases = append(bases, b)
			}
		}
	}
	// lists and sets of every element type, 0..5 elements
	for _, ct := range []int8{14, 15} {
		for _, et := range c13Types {
			for _, n := range []int{0, 1, 2, 5} {
				v := c13Val{ty: ct, vt: et}
				for i := 0; i < n; i++ {
					v.elems = append(v.elems, c13GenVal(g, et, 1))
				}
				b := c13AddTyped(g, "list-et", []c13Field{{c13Id(g), v}})
				if n == 2 && len(b) < 48 {
					bases = append(bases, b)
				}
			}
		}
		// empty containers with tags that are not types
		for _, et := range c13BadTags {
			c13AddTyped(g, "empty-badtag", []c13Field{{c13Id(g), c13Val{ty: ct, vt: et}}})
		}
	}
	// maps of every key x value type
	for _, kt := range c13Types {
		for _, vt := range c13Types {
			for _, n := range []int{1, 2} {
				v := c13Val{ty: 13, kt: kt, vt: vt}
				for i := 0; i < n; i++ {
					v.elems = append(v.elems, c13GenVal(g, kt, 1), c13GenVal(g, vt, 1))
				}
				b := c13AddTyped(g, "map-ktvt", []c13Field{{c13Id(g), v}})
				if n == 1 && len(b) < 40 && r.Intn(6) == 0 {
					bases = append(bases, b)
				}
			}
		}
	}
	for _, kt := range c13BadTags {
		c13AddTyped(g, "empty-badtag", []c13Field{{c13Id(g), c13Val{ty: 13, kt: kt, vt: int8(r.Intn(256))}}})
		c13AddTyped(g, "empty-badtag", []c13Field{{c13Id(g), c13Val{ty: 13, kt: 8, vt: kt}}})
	}
	// the D9 shape and its relatives: a scalar (or anything) after a container inside a nested struct
	for _, first := range []int8{13, 14, 15, 12} {
		for _, second := range c13Types {
			for rep := 0; rep < 2; rep++ {
				inner := c13Val{ty: 12, fields: []c13Field{
					{1, c13GenVal(g, first, 1)}, {2, c13GenVal(g, second, 1)}, {3, c13GenVal(g, c13Pick8(g), 1)}}}
				var fs []c13Field
				switch rep {
				case 0:
					fs = []c13Field{{1, inner}}
				default: // the struct itself inside a list inside a map value
					l := c13Val{ty: 15, vt: 12, elems: []c13Val{inner, c13GenVal(g, 12, 1)}}
					m := c13Val{ty: 13, kt: 8, vt: 15, elems: []c13Val{c13Scalar(g, 8), l}}
					fs = []c13Field{{c13Id(g), m}, {c13Id(g), c13Scalar(g, 8)}}
				}
				b := c13AddTyped(g, "d9-shape", fs)
				if rep == 0 && len(b) < 64 && r.Intn(4) == 0 {
					bases = append(bases, b)
				}
			}
		}
	}
	// top level: several fields after one another, containers first (no leak at the top level either)
	for k := 0; k < 40; k++ {
		fs := []c13Field{{c13Id(g), c13GenVal(g, []int8{13, 14, 15}[k%3], 1)}, {c13Id(g), c13Scalar(g, c13Types[k%7])},
			{c13Id(g), c13GenVal(g, 12, 1)}, {c13Id(g), c13Scalar(g, 11)}}
		c13AddTyped(g, "top-seq", fs)
	}
	// random sequences
	for k := 0; k < g.Scale(700, 40000); k++ {
		fs := c13GenFields(g, 1+r.Intn(4), 1+r.Intn(4))
		b := c13AddTyped(g, "rand", fs)
		if len(b) < 40 && len(bases) < 70 {
			bases = append(bases, b)
		}
	}
	// deep nesting: list in list ..., struct in struct ..., alternating
	for _, d := range []int{10, 40, 150} {
		for shape := 0; shape < 3; shape++ {
			v := c13Scalar(g, 6)
			for i := 0; i < d; i++ {
				switch (shape + i*shape) % 3 {
				case 0:
					v = c13Val{ty: 15, vt: v.ty, elems: []c13Val{v}}
				case 1:
					v = c13Val{ty: 12, fields: []c13Field{{int16(i), v}}}
				default:
					v = c13Val{ty: 13, kt: 3, vt: v.ty, elems: []c13Val{c13Scalar(g, 3), v}}
				}
			}
			c13AddTyped(g, "deep", []c13Field{{5, v}})
		}
	}
	// all 65536 field ids survive (a sample in quick)
	step := g.Scale(257, 1)
	for id := -32768; id <= 32767; id += step {
		c13AddTyped(g, "ids", []c13Field{{int16(id), c13Scalar(g, 3)}})
	}
	// wide containers: element ids are int16(i) — beyond 32767 they go negative
	{
		mk := func(n int, et int8) c13Val {
			v := c13Val{ty: 15, vt: et}
			for i := 0; i < n; i++ {
				v.elems = append(v.elems, c13Scalar(g, et))
			}
			return v
		}
		c13AddTyped(g, "wide", []c13Field{{1, mk(300, 10)}, {2, c13Scalar(g, 8)}})
		c13AddTyped(g, "wide", []c13Field{{1, mk(700, 2)}})
		big := mk(g.Scale(33000, 65536), 2)
		c13AddTyped(g, "wide", []c13Field{{1, big}, {2, c13Scalar(g, 8)}})
		s := c13Val{ty: 11, s: Pat(3, 5000)}
		c13AddTyped(g, "wide", []c13Field{{9, s}})
		m := c13Val{ty: 13, kt: 6, vt: 11}
		for i := 0; i < 200; i++ {
			m.elems = append(m.elems, c13Scalar(g, 6), c13Scalar(g, 11))
		}
		c13AddTyped(g, "wide", []c13Field{{1, m}})
	}

	// --- malformed stream ---
	c13AddRaw(g, "empty", nil)
	for x := 0; x < 256; x++ {
		c13AddRaw(g, "byte1", []byte{byte(x)})
		// every type byte as a top-level field type, with some payload
		c13AddRaw(g, "toptag", []byte{byte(x), 0, 1, 0, 0, 0, 1, 2, 0, 0, 0, 0, 0})
		// every type byte as element type of a one-element list, a one-entry map (key, value), a struct member
		c13AddRaw(g, "elemtag", []byte{15, 0, 1, byte(x), 0, 0, 0, 1, 0, 0, 0, 0, 0, 0, 0, 0, 0})
		c13AddRaw(g, "elemtag", []byte{13, 0, 1, byte(x), 2, 0, 0, 0, 1, 0, 0, 0, 0, 0, 0, 0, 0, 0, 0, 0, 0, 0, 0, 0, 0})
		c13AddRaw(g, "elemtag", []byte{13, 0, 1, 2, byte(x), 0, 0, 0, 1, 1, 0, 0, 0, 0, 0, 0, 0, 0, 0, 0, 0, 0, 0, 0, 0})
		c13AddRaw(g, "elemtag", []byte{12, 0, 1, byte(x), 0, 2, 0, 0, 0, 0, 0, 0, 0, 0, 0, 0})
		// every byte as a bool: only 0 and 1 are canonical
		c13AddRaw(g, "boolbyte", []byte{2, 0, 1, byte(x)})
		c13AddRaw(g, "boolbyte", []byte{15, 0, 1, 2, 0, 0, 0, 2, 1, byte(x)})
	}
	// truncation at every point; every byte replaced by structural values; trailing bytes
	subs := []byte{0, 1, 2, 3, 8, 11, 12, 13, 14, 15, 16, 0x7f, 0x80, 0xff}
	for bi, b := range bases {
		for cut := 0; cut < len(b); cut++ {
			c13AddRaw(g, "truncate", b[:cut])
		}
		if bi%3 == 0 || g.Thor {
			for p := 0; p < len(b); p++ {
				for _, s := range subs {
					if b[p] != s && (g.Thor || r.Intn(5) == 0) {
						m := append([]byte(nil), b...)
						m[p] = s
						c13AddRaw(g, "substitute", m)
					}
				}
			}
		}
		for _, t := range [][]byte{{0}, {2}, {2, 0}, {11, 0, 1, 0, 0}, {0xff, 0xff, 0xff}} {
			c13AddRaw(g, "trailing", append(append([]byte(nil), b...), t...))
		}
	}
	// sizes: negative / beyond the data / up to the allocation cap
	for _, sz := range []uint32{0x80000000, 0xffffffff, 0x7fffffff, 5, 6, 0x10000, 0xff000000} {
		c13AddRaw(g, "strsize", append(c13U32([]byte{11, 0, 1}, sz), 'a', 'b', 'c', 'd', 'e'))
		c13AddRaw(g, "strsize", append(c13U32([]byte{15, 0, 1, 11, 0, 0, 0, 1}, sz), 'a', 'b', 'c', 'd', 'e'))
	}
	for _, sz := range []uint32{1, 2, 3, 4, 100, 32767, 32768, 65535, 65536} {
		for _, ct := range []byte{14, 15} {
			for _, et := range []byte{2, 8, 11, 12, 15} {
				c13AddRaw(g, "contsize", append(c13U32([]byte{ct, 0, 1, et}, sz), 1, 0, 0))
				c13AddRaw(g, "contsize", c13U32([]byte{ct, 0, 1, et}, sz))
			}
		}
		c13AddRaw(g, "contsize", append(c13U32([]byte{13, 0, 1, 2, 3}, sz), 1, 7, 0, 9))
		c13AddRaw(g, "contsize", append(c13U32([]byte{13, 0, 1, 12, 12}, sz), 0, 0, 0, 0))
		c13AddRaw(g, "contsize", append(c13U32([]byte{12, 0, 1, 15, 0, 2, 2}, sz), 1, 0, 0))
	}
	// random garbage over the grammar alphabet
	alpha := []byte{0, 1, 2, 3, 4, 6, 8, 10, 11, 12, 13, 14, 15, 16, 0x7f, 0x80, 0xff}
	for k := 0; k < g.Scale(600, 60000); k++ {
		n := 1 + r.Intn(14)
		b := make([]byte, n)
		for i := range b {
			b[i] = alpha[r.Intn(len(alpha))]
		}
		c13AddRaw(g, "garbage", b)
	}

	// --- tree direction ---
	for k := 0; k < g.Scale(500, 30000); k++ {
		fs := c13GenFields(g, 1+r.Intn(3), 1+r.Intn(3))
		n := len(c13EncFields(nil, fs))
		ts := c13Trees(fs)
		c13AddTree(g, "canon", ts, n+[]int{0, 0, 1, 5}[r.Intn(4)])
		if k%10 == 0 { // short buffers: panic or, for a string tail, silent truncation
			c13AddTree(g, "short", ts, []int{n - 1, n - 2, n / 2, 0, n - 4}[r.Intn(5)])
		}
	}
	c13AddTree(g, "canon", nil, 0)
	c13AddTree(g, "canon", nil, 4)
	for k := 0; k < g.Scale(1300, 60000); k++ {
		fs := c13GenFields(g, 1+r.Intn(3), 1+r.Intn(3))
		n := len(c13EncFields(nil, fs))
		ts := c13Trees(fs)
		what := c13Mutate(g, ts)
		if r.Intn(5) == 0 {
			c13Mutate(g, ts)
		}
		c13AddTreeMut(g, "mut-"+what, ts, n+8)
	}
	// string as the last thing in a short buffer: copy() truncates silently
	for _, cut := range []int{1, 2, 3, 4, 5} {
		fs := []c13Field{{1, c13Val{ty: 11, s: []byte("hello")}}}
		c13AddTree(g, "short", c13Trees(fs), 3+4+5-cut)
	}
}

// mutated trees carry foreign markers: materialise a copy for the filter run, keep markers in the case
func c13AddTreeMut(g *Gen, class string, ts []c13UF, size int) {
	in := Ls(I(2), c13TreesV(ts), I(size))
	run := make([]c13UF, 0, len(ts))
	for _, t := range AsList(AsList(in)[1]) {
		run = append(run, c13TreeOf(t))
	}
	_, buf, off := c13Write(run, size)
	if off >= 0 && off <= len(buf) && !c13Safe(buf[:off]) {
		return
	}
	g.Add(class, in)
}

func init() {
	register("C13", &Prop{
		Gen: c13Gen,
		Run: func(in V) V {
			a := AsList(in)
			switch AsInt(a[0]) {
			case 0, 3:
				return c13RunBytes(AsBytes(a[2]))
			case 1:
				return c13RunBytes(AsBytes(a[1]))
			case 2:
				var fs []c13UF
				for _, t := range AsList(a[1]) {
					fs = append(fs, c13TreeOf(t))
				}
				return c13RunTree(fs, AsInt(a[2]))
			}
			return Ls(I(9))
		},
	})
}
